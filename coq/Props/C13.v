(* Props/C13.v — the audited surface for property C13 ("parser is total, fails only with its own errors,
   has no side effects, discards no statement").  Statements only; every proof is `exact <lemma>`.

   Totality: parse_model_M and everything it calls (Parser/PyStr, Lex, Format, Symbols, Split, Merge, ParseEq,
   ParseModel) are structural Fixpoints / plain Definitions — no fuel, no well-founded recursion — so the
   model is a total function on every Latin-1 string by construction (Coq accepted the definitions).  That is
   a claim about the model; its tie to fsic/parser.py is the correspondence K_parse of harness/props/C13.py.
   The syntax check compile(code, '<string>', 'exec') is the oracle `chk`; theorems hold for every oracle.

   WHAT IS PROVED AND WHAT IS ONLY CHECKED (after the independent review, 2026-10-02):
   (a) "terminates": the model is total by construction.  The cost of Python's regex engine is NOT modelled; it is measured and
       reported by the harness (`scale` cases: growth exponents and times in the evidence), NOT judged — a slow but terminating
       parse does not violate the property.  Three regex sites are super-linear: equation_re alternative 2, term_re's open index
       part (and its INVALID alternative), dotted names (inputs and exponents: ASSUMPTIONS in harness/props/C13.py); a fourth
       was removed by commit 2d62135.  Only a persistent watchdog timeout counts as non-termination.
   (b) "only its own errors": proved (C13_every_exception_classified, C13_own_errors_only — unguarded since fix 1c7ed70 —, C13_own_errors_nocheck); inside the PUnmodelled hole the model stops INSIDE template.format (C13_unmodelled_only_inside_format),
       which fsic wraps in an except clause for all seven exception classes str.format can raise — that CPython fact is an
       assumption, exercised by generated format-spec inputs.
   (c) "returns with the check on => build_model succeeds and the class can be instantiated": NO model and NO theorem; judged
       by the oracle on the real code only (three kept findings, signatures carry the cause).  C13_accepted_means_every_code_compiled
       only says each code got ChkOk on its own.
   (d) "never executes / no effects": the model is a pure function whose only call out is `chk` on generated code strings
       (C13_oracle_sees_only_generated_codes, C13_nocheck_ignores_oracle — both hold by construction of the definitions and are
       NOT counted as covering the clause); the clause is judged by the oracle only (canary builtins from before the first call,
       process-state snapshots, state-between-calls).
   (e) "no statement discarded / one equation or block each": proved, unguarded exact form + guarded form + partition of lines.
   Theorems that merely unfold the ten-line oracle interface (check_codes / parse_statements) are marked [interface] below:
   they document the modelled control flow and are not counted as covering a clause of the property. *)
From Coq Require Import String Ascii List Bool Arith ZArith.
Import ListNotations.
Require Import PyBase PyStr Lex LexCoverFacts Format Symbols Split SplitFacts SplitChunks SplitChunksFacts SplitBalanceFacts Merge ParseEq ParseEqFacts ParseModel ParseModelFacts ParseModelExamples
               ParseContribFacts ParseContribExamples FormatDecideFacts SplitInsertFacts ParseOracleFacts SplitIdemFacts ParseEqYieldFacts MergeUniqueFacts ParseCountFacts SplitFenceGuardFacts MergeClashFacts.
Open Scope string_scope.

Section C13.
  Variable chk : string -> chk_res.          (* CPython's compile() + recorded warnings, any behaviour *)

  (* every exception the model can produce, for EVERY input string, either setting of check_syntax and every oracle:
     the parser's three own errors, or the oracle's own foreign exception — since fix 74fa5fb that means an exception of
     compile() OUTSIDE SyntaxError / ValueError / RecursionError / MemoryError / OverflowError (those are ChkSyntaxError /
     ChkCaughtExn) — and that only with the check on.  (Until fix 1c7ed70 there was a third case: ValueError for a statement
     without '=' accepted through the fenced-block alternative of equation_re; it is a ParserError now.) *)
  Theorem C13_every_exception_classified cs s e :
    parse_model_M chk cs s = PErr e ->
    (e = ParserError \/ e = SymbolError \/ e = IndentationError) \/
    (e = OtherError /\ cs = true /\ exists c, chk c = ChkOtherExn).
  Proof. exact (parse_model_errors_own chk cs s e). Qed.

  (* own errors only, with NO guard on the script: for every input string and every oracle that raises no foreign exception
     itself; inputs the format model does not decide are PUnmodelled (see C13_unmodelled_only_inside_format) *)
  Theorem C13_own_errors_only cs s :
    (forall c, chk c <> ChkOtherExn) ->
    match parse_model_M chk cs s with
    | POk _ => True
    | PUnmodelled => True
    | PErr e => e = ParserError \/ e = SymbolError \/ e = IndentationError
    end.
  Proof. exact (own_errors_always chk cs s). Qed.
  (* with check_syntax=False there is no oracle: unconditional *)
  Theorem C13_own_errors_nocheck s e :
    parse_model_M chk false s = PErr e -> e = ParserError \/ e = SymbolError \/ e = IndentationError.
  Proof. exact (own_errors_nocheck chk s e). Qed.

  (* chk_outcomes_propagate: a foreign exception of the oracle on a code that is reached comes out as it is … *)
  (* [interface] *)
  Theorem C13_chk_outcomes_propagate s pre st post serr syms before c after :
    split_M s = ((pre ++ st :: post)%list, serr) ->
    (forall x, In x pre -> passes chk x) ->
    parse_equation_M st = POk syms -> codes_of syms = (before ++ c :: after)%list ->
    (forall x, In x before -> chk x = ChkOk) -> chk c = ChkOtherExn ->
    parse_model_M chk true s = PErr OtherError.
  Proof. exact (chk_outcomes_propagate chk s pre st post serr syms before c after). Qed.

  (* … and the model never raises a foreign exception the oracle did not produce *)
  (* [interface] *)
  Theorem C13_other_exn_only_from_oracle cs s :
    parse_model_M chk cs s = PErr OtherError -> cs = true /\ exists c, chk c = ChkOtherExn.
  Proof. exact (other_exn_only_from_oracle chk cs s). Qed.

  (* fix 74fa5fb: compile() failing with ValueError, RecursionError, MemoryError or OverflowError (oracle outcome ChkCaughtExn)
     is caught like SyntaxError.  For every script whose statements all parse and whose codes the oracle accepts or fails
     to compile in one of the caught ways (or with one SyntaxWarning), one such failure anywhere is a ParserError … *)
  (* [interface] *)
  Theorem C13_compile_failure_is_parser_error s st syms :
    snd (split_M s) = None ->
    (forall x, In x (fst (split_M s)) -> passes chk x) ->
    In st (fst (split_M s)) -> parse_equation_M st = POk syms -> check_codes chk (codes_of syms) = VProblem ->
    parse_model_M chk true s = PErr ParserError.
  Proof. exact (compile_failure_is_parser_error chk s st syms). Qed.
  (* … each of SyntaxError / the four caught classes / SyntaxWarning on the first non-ok code is a problem statement … *)
  (* [interface] *)
  Theorem C13_check_codes_problem before c after :
    (forall x, In x before -> chk x = ChkOk) ->
    match chk c with ChkSyntaxError | ChkCaughtExn | ChkSyntaxWarning => true | _ => false end = true ->
    check_codes chk (before ++ c :: after)%list = VProblem.
  Proof. exact (check_codes_problem chk before c after). Qed.
  (* … and an oracle that only ever answers ok or one of those failures never makes parse_model raise a foreign exception *)
  (* [interface] *)
  Theorem C13_caught_failures_never_foreign cs s e :
    (forall c, chk c = ChkOk \/ match chk c with ChkSyntaxError | ChkCaughtExn | ChkSyntaxWarning => true | _ => false end = true) ->
    parse_model_M chk cs s = PErr e -> e <> OtherError.
  Proof. exact (caught_failures_never_foreign chk cs s e). Qed.

  (* with check_syntax=False nothing is compiled at all *)
  (* [interface] *)
  Theorem C13_nocheck_ignores_oracle chk' s : parse_model_M chk false s = parse_model_M chk' false s.
  Proof. exact (nocheck_ignores_oracle chk chk' s). Qed.

  (* returning with the syntax check on means: no split error, every statement parsed, every generated code compiled cleanly *)
  (* [interface] *)
  Theorem C13_accepted_means_every_code_compiled s syms :
    parse_model_M chk true s = POk syms ->
    snd (split_M s) = None /\
    forall st, In st (fst (split_M s)) ->
      exists ss, parse_equation_M st = POk ss /\ forall c, In c (codes_of ss) -> chk c = ChkOk.
  Proof. exact (accepted_means_every_code_compiled chk s syms). Qed.

  (* ---- "no statement is silently discarded: each one contributes exactly one equation or verbatim block" ----
     model_chunks s = the buffers the splitting loop completes (lists of comment-stripped physical lines);
     n_emitted = what build_model_definition emits.  For EVERY input string, oracle and check_syntax setting:
     accepted + the two guards that exclude the kept findings (since fixes 85765d5 / b45daa1 no guard about fences or called names is needed) (one name on each left-hand
     side; no name given an equation twice)  ==>
     the script's lines are exactly the chunks in order, the statements are exactly the non-blank chunks, and the
     built model has exactly one equation / verbatim block per statement. *)
  Theorem C13_no_statement_discarded cs s out :
    parse_model_M chk cs s = POk out ->
    (forall st, In st (fst (split_M s)) ->
       backticked st = true \/ exists terms y, parse_equation_terms st = Ret terms /\ lhs_guard y terms = true) ->
    NoDup (emit_names (concat (stmt_symbols s))) ->
    model_lines s = concat (model_chunks s) /\
    fst (split_M s) = map join_nl (filter nonblank_chunk (model_chunks s)) /\
    n_emitted out = length (filter nonblank_chunk (model_chunks s)).
  Proof. exact (no_statement_discarded chk cs s out). Qed.

  (* the counting half alone (fences may be open): as many equations / blocks as statements were yielded *)
  Theorem C13_every_statement_contributes cs s out :
    parse_model_M chk cs s = POk out ->
    (forall st, In st (fst (split_M s)) -> stmt_guard st) ->
    NoDup (emit_names (concat (stmt_symbols s))) ->
    n_emitted out = length (fst (split_M s)).
  Proof. exact (every_statement_contributes chk cs s out). Qed.

  (* where the model is silent: PUnmodelled (str.format fields with attribute / index / spec / conversion: on str arguments
     the call either fails — ParserError since 6fcad37 / 51af71a — or yields a text the model does not compute, e.g. padding,
     repr(), a character, or a bound-method repr with an address) can only come from a statement in which the term lexer leaves
     a "{" outside every match — a brace that is not part of a {name} term.  Every other script is decided (POk or PErr). *)
  Theorem C13_model_decides_unless_stray_brace cs s :
    parse_model_M chk cs s = PUnmodelled ->
    exists st, In st (fst (split_M s)) /\ stray_open (scan_items st) = true.
  Proof. exact (parse_model_unmodelled chk cs s). Qed.

  (* what must NOT change: one more blank or comment-only line at a point where no bracket and no fence is open changes
     neither the statements, nor the exception, nor the result — every script, every oracle, both check_syntax settings *)
  Theorem C13_blank_line_between_statements_irrelevant cs s1 s2 a b l st' :
    model_lines s1 = (a ++ b)%list -> model_lines s2 = (a ++ l :: b)%list ->
    final_state s0 a = Some st' -> buffer st' = [] -> is_blank l = true ->
    split_M s2 = split_M s1 /\ parse_model_M chk cs s2 = parse_model_M chk cs s1.
  Proof. exact (blank_line_between_statements_irrelevant chk cs s1 s2 a b l st'). Qed.

  (* "never executes the model's statements", as far as the model can say it: compile() is handed nothing but the code
     strings generated for the script's statements — two oracles that agree on those give the same result *)
  (* [interface] *)
  Theorem C13_oracle_sees_only_generated_codes chk' cs s :
    (forall st syms c, In st (fst (split_M s)) -> parse_equation_M st = POk syms -> In c (codes_of syms) -> chk c = chk' c) ->
    parse_model_M chk cs s = parse_model_M chk' cs s.
  Proof. exact (oracle_sees_only_generated_codes chk chk' cs s). Qed.

  (* the symbol table has one entry per name: the named symbols of an accepted model carry pairwise distinct names
     (verbatim blocks are unnamed), so the equations counted by n_emitted belong to distinct variables *)
  Theorem C13_names_unique cs s out : parse_model_M chk cs s = POk out -> NoDup (names_of out).
  Proof. exact (parse_model_names_unique chk cs s out). Qed.

  (* the statement-count clause WITHOUT any guard, for EVERY accepted script: the built model has exactly as many
     equations / verbatim blocks as there are DISTINCT names to which some statement gives an equation, plus one per
     verbatim statement.  (count_new [] l = the number of distinct elements of l, C13_count_new_is_distinct_count.)
     The two kept findings are instances: a name given an equation by two statements counts once, a statement with
     two left-hand names counts twice. *)
  Theorem C13_model_equation_count cs s out :
    parse_model_M chk cs s = POk out ->
    n_emitted out = count_new [] (emit_names (concat (stmt_symbols s))) + length (filter backticked (fst (split_M s))).
  Proof. exact (model_equation_count chk cs s out). Qed.

  (* the exact decidable guard: an accepted model has one equation / verbatim block per statement IF AND ONLY IF the number
     of distinct names given an equation equals the number of non-verbatim statements (exact_count_guard, a boolean) *)
  Theorem C13_statement_count_iff cs s out :
    parse_model_M chk cs s = POk out ->
    (n_emitted out = length (fst (split_M s)) <->
     Nat.eqb (count_new [] (emit_names (concat (stmt_symbols s)))) (length (filter (fun st => negb (backticked st)) (fst (split_M s)))) = true).
  Proof. exact (statement_count_iff chk cs s out). Qed.
End C13.
Print Assumptions C13_every_exception_classified.
Print Assumptions C13_own_errors_only.
Print Assumptions C13_own_errors_nocheck.
Print Assumptions C13_chk_outcomes_propagate.
Print Assumptions C13_other_exn_only_from_oracle.
Print Assumptions C13_nocheck_ignores_oracle.
Print Assumptions C13_compile_failure_is_parser_error.
Print Assumptions C13_check_codes_problem.
Print Assumptions C13_caught_failures_never_foreign.
Print Assumptions C13_accepted_means_every_code_compiled.

Print Assumptions C13_no_statement_discarded.
Print Assumptions C13_every_statement_contributes.
Print Assumptions C13_model_decides_unless_stray_brace.
Print Assumptions C13_blank_line_between_statements_irrelevant.
Print Assumptions C13_oracle_sees_only_generated_codes.
Print Assumptions C13_names_unique.
Print Assumptions C13_model_equation_count.
Print Assumptions C13_statement_count_iff.

Theorem C13_count_new_is_distinct_count l seen :
  exists l', NoDup l' /\ (forall x, In x l' <-> In x l /\ ~ In x seen) /\ count_new seen l = length l'.
Proof. exact (count_new_spec l seen). Qed.
Print Assumptions C13_count_new_is_distinct_count.
(* every named symbol of every parsed statement either carries an equation and is ENDOGENOUS, or carries neither equation
   nor code and is not ENDOGENOUS — no guard *)
Theorem C13_statement_symbols_tidy st syms :
  parse_equation_M st = POk syms -> forall v, In v syms -> sname v <> None ->
  if emits v then stype v = TEndogenous else sequation v = None /\ scode v = None /\ stype v <> TEndogenous.
Proof. exact (parse_equation_M_tidy st syms). Qed.
Print Assumptions C13_statement_symbols_tidy.

(* one statement, taken alone: a verbatim statement or a guarded equation yields exactly one emitting symbol *)
Theorem C13_statement_emits_one st syms :
  is_blank st = false -> stmt_guard st -> parse_equation_M st = POk syms ->
  n_emitted syms = 1 /\ forall v, In v syms -> sname v <> None -> tidy v.
Proof. exact (statement_emits_one st syms). Qed.
Print Assumptions C13_statement_emits_one.

(* the splitting loop, for EVERY input string on which it raises nothing: it ends with an empty buffer, the bracket counter
   at zero and no fence open; the comment-stripped lines are exactly the completed chunks in order (no line is lost) and
   the statements are the non-blank chunks *)
Theorem C13_accepted_lines_partition s ys :
  split_M s = (ys, None) ->
  exists stf, final_state s0 (model_lines s) = Some stf /\ unmatched stf = 0 /\ complete stf = true /\ buffer stf = [] /\
    model_lines s = concat (model_chunks s) /\
    ys = map join_nl (filter nonblank_chunk (model_chunks s)).
Proof. exact (accepted_lines_partition s ys). Qed.
Print Assumptions C13_accepted_lines_partition.

(* a chunk that is not turned into a statement is a single blank or comment-only line *)
Theorem C13_dropped_chunk_is_one_blank_line s ch :
  In ch (model_chunks s) -> nonblank_chunk ch = false -> exists l, ch = [l] /\ is_blank l = true.
Proof. exact (model_blank_chunk_single s ch). Qed.
Print Assumptions C13_dropped_chunk_is_one_blank_line.

(* the splitting loop raises nothing but ParserError / IndentationError, and every statement it yields is non-blank
   and matches equation_re *)
Theorem C13_split_errors_own s ys e : split_M s = (ys, Some e) -> e = ParserError \/ e = IndentationError.
Proof. exact (split_M_err s ys e). Qed.
Print Assumptions C13_split_errors_own.
Theorem C13_split_statements_valid s ys oe x : split_M s = (ys, oe) -> In x ys -> stmt_ok x = true /\ is_blank x = false.
Proof. exact (split_M_stmts s ys oe x). Qed.
Print Assumptions C13_split_statements_valid.

(* comments: for EVERY input string no statement handed to parse_equation contains a "#" (the comment text never reaches
   the term lexer, the template or the generated code), and a line without "#" is passed on unchanged *)
Theorem C13_statements_have_no_comment s y : In y (fst (split_M s)) -> has_char "#" y = false.
Proof. exact (statements_have_no_comment s y). Qed.
Print Assumptions C13_statements_have_no_comment.
Theorem C13_comment_only_line_is_blank w c :
  forallb is_pyspace (list_ascii_of_string w) = true -> is_blank (strip_comments (w ++ String "#" c)) = true.
Proof. exact (comment_only_line_blank w c). Qed.
Print Assumptions C13_comment_only_line_is_blank.
Theorem C13_comment_free_line_unchanged line : has_char "#" line = false -> strip_comments line = line.
Proof. exact (strip_comments_id line). Qed.
Print Assumptions C13_comment_free_line_unchanged.

(* the bracket counter, for EVERY input string: a statement that does not begin with a fence line has balanced round
   brackets and no prefix of it closes more than it opened; a fenced statement is its opening fence line followed by at
   least one line, and those lines balance (so a verbatim block with an unbalanced "(" is not closed by its closing fence) *)
Theorem C13_unfenced_statement_balanced s y :
  In y (fst (split_M s)) -> startswith "```" y = false -> count_parens 0 y = Some 0.
Proof. exact (unfenced_statement_balanced s y). Qed.
Print Assumptions C13_unfenced_statement_balanced.
Theorem C13_statements_balanced s y :
  In y (fst (split_M s)) ->
  exists ch, y = join_nl ch /\ In ch (model_chunks s) /\
    match ch with
    | [] => False
    | l :: b => if startswith "```" l then (b <> [] /\ count_lines 0 b = Some 0) else count_lines 0 ch = Some 0
    end.
Proof. exact (statements_balanced s y). Qed.
Print Assumptions C13_statements_balanced.

(* inside a statement nothing is lost either: for EVERY string the term lexer's matches are non-empty, lie inside the
   string, do not overlap, and the unmatched characters plus the match lengths add up to the length of the string
   (each character is copied to the template or lies inside exactly one term) *)
Theorem C13_lexer_match_fits pw s m : match_here pw s = Some m -> 1 <= mlen m /\ mlen m <= String.length s.
Proof. exact (match_here_fits pw s m). Qed.
Print Assumptions C13_lexer_match_fits.
Theorem C13_lexer_covers_input s : items_len (scan_items s) = String.length s.
Proof. exact (scan_items_cover s). Qed.
Print Assumptions C13_lexer_covers_input.
Theorem C13_lexer_spans_disjoint_inside s : spans_ok 0 (String.length s) (toks s).
Proof. exact (toks_spans_ok s). Qed.
Print Assumptions C13_lexer_spans_disjoint_inside.

(* splitting is idempotent on what it yields: for EVERY script, each statement split again is exactly itself, nothing is
   raised.  parse_equation re-splits its argument and raises ParserError unless it finds exactly one statement: inside
   parse_model that check (and the blank test before it) can never fire — parse_equation reduces to its body. *)
Theorem C13_split_idempotent s y : In y (fst (split_M s)) -> split_M y = ([y], None).
Proof. exact (split_idempotent s y). Qed.
Print Assumptions C13_split_idempotent.
Theorem C13_single_statement_check_never_fires s y :
  In y (fst (split_M s)) -> parse_equation_M y = parse_equation_body y.
Proof. exact (parse_equation_M_yielded s y). Qed.
Print Assumptions C13_single_statement_check_never_fires.

(* the hole is ONE program point: parse_equation_M st = PUnmodelled means every earlier check of parse_equation passed and the
   model stopped inside `template.format(...)` (on the standardised text, or on the code after the first call succeeded) —
   the call fsic wraps in `except (AttributeError, IndexError, KeyError, MemoryError, OverflowError, TypeError, ValueError)`.
   So PUnmodelled can hide a foreign exception only if str.format on str arguments raised outside those seven classes. *)
Theorem C13_unmodelled_only_inside_format st :
  parse_equation_M st = PUnmodelled ->
  is_blank st = false /\ split_M st = (fst (split_M st), None) /\ length (fst (split_M st)) = 1%nat /\
  (head_is "`" st && last_is "`" st) = false /\ count_char "{" st = count_char "}" st /\
  exists terms strs codes,
    parse_equation_terms st = Ret terms /\ all_some (map term_str terms) = Some strs /\ all_some (map term_code terms) = Some codes /\
    (py_format (template st) strs = FUnmodelled \/
     (exists sd, py_format (template st) strs = FOk sd /\ py_format (template st) codes = FUnmodelled)).
Proof. exact (unmodelled_only_inside_format st). Qed.
Print Assumptions C13_unmodelled_only_inside_format.

(* the hypotheses of C13_no_statement_discarded hold on an ordinary script (comment, blank line, fenced block,
   bracketed continuation) *)
Theorem C13_no_statement_discarded_satisfiable :
  (exists out, parse_model_nocheck ordinary = POk out /\ n_emitted out = 3) /\
  (forall st, In st (fst (split_M ordinary)) -> stmt_guard st) /\
  NoDup (emit_names (concat (stmt_symbols ordinary))).
Proof. exact ordinary_hyps. Qed.
Print Assumptions C13_no_statement_discarded_satisfiable.

(* a structural fact about the splitter (it was the syntactic guard of own_errors_only until fix 1c7ed70 made the guard
   unnecessary): when every line that starts with ``` consists of backticks only and is met with the bracket counter at zero,
   every statement holds an "=" or is verbatim code; both excluded shapes do produce an '='-less non-verbatim statement *)
Theorem C13_fences_clean_implies_guard s : fences_clean_model s = true -> no_eqless_statement s = true.
Proof. exact (fences_clean_no_eqless s). Qed.
Print Assumptions C13_fences_clean_implies_guard.
Theorem C13_fences_clean_needed :
  fences_clean_model ordinary = true /\ fences_clean_model eqless_fence = false /\ fences_clean_model eqless_fence2 = false /\
  parse_model_nocheck eqless_fence2 = PErr ParserError /\ no_eqless_statement eqless_fence2 = false.
Proof. exact fences_clean_values. Qed.
Print Assumptions C13_fences_clean_needed.

(* the ValueError finding REPAIRED by fix 1c7ed70 (was C13_own_errors_refuted: '(\n```\n```\n)' raised ValueError from
   `equation.split('=')`): a statement text without '=' is rejected with ParserError by parse_equation_terms, for EVERY text;
   the two witness shapes are ParserErrors *)
Theorem C13_statement_without_equals_is_parser_error eq :
  has_char "=" eq = false -> parse_equation_terms eq = Raise ParserError.
Proof. exact (parse_equation_terms_no_eq eq). Qed.
Print Assumptions C13_statement_without_equals_is_parser_error.
Theorem C13_statement_without_equals_instances :
  parse_model_nocheck eqless_fence = PErr ParserError /\ parse_model_nocheck eqless_fence2 = PErr ParserError /\
  no_eqless_statement eqless_fence = false.
Proof. exact (conj eqless_fence_parser_error (conj (proj1 (proj2 (proj2 (proj2 fences_clean_values)))) eqless_fence_outside_guard)). Qed.
Print Assumptions C13_statement_without_equals_instances.

(* #24 REPAIRED by fix 85765d5 (was C13_unclosed_fence_drops_statements_refuted): a script whose last fence is never
   closed is ALWAYS rejected.  The splitter ends with ParserError whatever it yielded before; parse_model never accepts
   such a script, for any oracle and check_syntax setting; and when the statements before the fence raise nothing the
   exception is that ParserError (it comes before the problem-statement report and the merge). *)
Theorem C13_unclosed_fence_is_parser_error s : ends_in_open_fence s = true -> snd (split_M s) = Some ParserError.
Proof. exact (unclosed_fence_is_parser_error s). Qed.
Print Assumptions C13_unclosed_fence_is_parser_error.
Theorem C13_unclosed_fence_never_accepted chk cs s out : ends_in_open_fence s = true -> parse_model_M chk cs s <> POk out.
Proof. exact (unclosed_fence_never_accepted chk cs s out). Qed.
Print Assumptions C13_unclosed_fence_never_accepted.
Theorem C13_unclosed_fence_parser_error chk cs s r :
  ends_in_open_fence s = true -> parse_statements chk cs (fst (split_M s)) [] false = POk r ->
  parse_model_M chk cs s = PErr ParserError.
Proof. exact (unclosed_fence_parser_error chk cs s r). Qed.
Print Assumptions C13_unclosed_fence_parser_error.
(* the hypotheses hold on the former witness, which is now rejected *)
Theorem C13_unclosed_fence_instance :
  ends_in_open_fence unclosed_fence = true /\ parse_model_nocheck unclosed_fence = PErr ParserError /\
  parse_model_nocheck "```" = PErr ParserError.
Proof. exact (conj (proj1 unclosed_fence_now_rejected) (conj (proj1 unclosed_fence_is_error) (proj1 (proj2 unclosed_fence_is_error)))). Qed.
Print Assumptions C13_unclosed_fence_instance.

(* "each statement contributes exactly one equation": the two ways it still fails in the faithful model *)
Theorem C13_duplicate_statements_merge_refuted :
  exists s, n_statements s = 2 /\ accepted_emits s = Some 1.
Proof. exact (ex_intro _ duplicate_statements duplicate_statements_merge). Qed.
Print Assumptions C13_duplicate_statements_merge_refuted.
Theorem C13_two_lhs_names_two_equations_refuted :
  exists s, n_statements s = 1 /\ accepted_emits s = Some 2.
Proof. exact (ex_intro _ "Y,Z = 1,2" two_lhs_names_two_equations). Qed.
Print Assumptions C13_two_lhs_names_two_equations_refuted.
(* #19 REPAIRED by fix b45daa1 (was C13_lhs_name_called_drops_equation_refuted: 'Y = Y(1)' was accepted and contributed no
   equation).  For EVERY term list: the symbol loop of parse_equation returns only if no name is used both as a function
   and as a variable / parameter / error; otherwise it raises (SymbolError or ParserError by C13_every_exception_classified's
   lemmas), in either order of the two uses.  So the statement-count guard no longer mentions functions. *)
Theorem C13_function_name_clash_never_accepted eqn code terms syms :
  equation_symbols eqn code terms = Ret syms ->
  forall t1 t2, In t1 terms -> In t2 terms -> ttype t1 <> TVerbatim -> ttype t2 <> TVerbatim -> tname t1 = tname t2 ->
  type_eqb (ttype t1) TFunction = type_eqb (ttype t2) TFunction.
Proof. exact (equation_symbols_no_clash eqn code terms syms). Qed.
Print Assumptions C13_function_name_clash_never_accepted.
Theorem C13_function_and_other_use_raises eqn code terms t1 t2 :
  In t1 terms -> In t2 terms -> tname t1 = tname t2 -> ttype t1 = TFunction -> ttype t2 <> TFunction -> ttype t2 <> TVerbatim ->
  exists e, equation_symbols eqn code terms = Raise e.
Proof. exact (function_and_other_use_raises eqn code terms t1 t2). Qed.
Print Assumptions C13_function_and_other_use_raises.
Theorem C13_function_name_clash_instances :
  parse_model_nocheck "Y = Y(1)" = PErr SymbolError /\ parse_model_nocheck "Y = exp + exp(X)" = PErr SymbolError /\
  parse_model_nocheck "Y = exp(X) + exp" = PErr SymbolError /\ parse_model_nocheck "Y = {a} + a(X)" = PErr SymbolError /\
  parse_model_nocheck "Y = a(X) + <a>" = PErr SymbolError /\
  parse_model_nocheck (lines ["Y = a + 1"; "Z = a(1)"]) = PErr SymbolError.
Proof. exact function_name_clash_rejected. Qed.
Print Assumptions C13_function_name_clash_instances.
