(* Props/C13.v — the audited surface for property C13 ("parser is total, fails only with its own errors,
   has no side effects, discards no statement").  Statements only; every proof is `exact <lemma>`.

   Totality: parse_model_M and everything it calls (Parser/PyStr, Lex, Format, Symbols, Split, Merge, ParseEq,
   ParseModel) are structural Fixpoints / plain Definitions — no fuel, no well-founded recursion — so the
   model is a total function on every Latin-1 string by construction (Coq accepted the definitions).  That is
   a claim about the model; its tie to fsic/parser.py is the correspondence K_parse of harness/props/C13.py.
   The syntax check compile(code, '<string>', 'exec') is the oracle `chk`; theorems hold for every oracle. *)
From Coq Require Import String Ascii List Bool Arith ZArith.
Import ListNotations.
Require Import PyBase PyStr Symbols Split SplitFacts Merge ParseEq ParseEqFacts ParseModel ParseModelFacts ParseModelExamples.
Open Scope string_scope.

Section C13.
  Variable chk : string -> chk_res.          (* CPython's compile() + recorded warnings, any behaviour *)

  (* every exception the model can produce, for EVERY input string, either setting of check_syntax and every oracle:
     the parser's three own errors; or ValueError from `equation.split('=')`, and then only for a statement
     that has no '=' and was accepted through the fenced-block alternative of equation_re (finding, see
     C13_own_errors_refuted); or the oracle's own foreign exception *)
  Theorem C13_every_exception_classified cs s e :
    parse_model_M chk cs s = PErr e ->
    (e = ParserError \/ e = SymbolError \/ e = IndentationError) \/
    (e = ValueError /\ exists st, In st (fst (split_M s)) /\ stmt_ok st = true /\
                                  (has_char "=" st = false /\ backticked st = false) /\ has_fence_match st = true) \/
    (e = OtherError /\ cs = true /\ exists c, chk c = ChkOtherExn).
  Proof. exact (parse_model_errors chk cs s e). Qed.

  (* own_errors_only: oracle range within {Ok, SyntaxError, SyntaxWarning, OtherWarning n}; guard = every
     statement contains '=' or is a verbatim block; inputs the format model does not decide are PUnmodelled *)
  Theorem C13_own_errors_only cs s :
    (forall c, chk c <> ChkOtherExn) -> no_eqless_statement s = true ->
    match parse_model_M chk cs s with
    | POk _ => True
    | PUnmodelled => True
    | PErr e => e = ParserError \/ e = SymbolError \/ e = IndentationError
    end.
  Proof. exact (own_errors_only chk cs s). Qed.

  (* chk_outcomes_propagate: a foreign exception of the oracle on a code that is reached comes out as it is … *)
  Theorem C13_chk_outcomes_propagate s pre st post serr syms before c after :
    split_M s = ((pre ++ st :: post)%list, serr) ->
    (forall x, In x pre -> passes chk x) ->
    parse_equation_M st = POk syms -> codes_of syms = (before ++ c :: after)%list ->
    (forall x, In x before -> chk x = ChkOk) -> chk c = ChkOtherExn ->
    parse_model_M chk true s = PErr OtherError.
  Proof. exact (chk_outcomes_propagate chk s pre st post serr syms before c after). Qed.

  (* … and the model never raises a foreign exception the oracle did not produce *)
  Theorem C13_other_exn_only_from_oracle cs s :
    parse_model_M chk cs s = PErr OtherError -> cs = true /\ exists c, chk c = ChkOtherExn.
  Proof. exact (other_exn_only_from_oracle chk cs s). Qed.

  (* with check_syntax=False nothing is compiled at all *)
  Theorem C13_nocheck_ignores_oracle chk' s : parse_model_M chk false s = parse_model_M chk' false s.
  Proof. exact (nocheck_ignores_oracle chk chk' s). Qed.

  (* returning with the syntax check on means: no split error, every statement parsed, every generated code compiled cleanly *)
  Theorem C13_accepted_means_every_code_compiled s syms :
    parse_model_M chk true s = POk syms ->
    snd (split_M s) = None /\
    forall st, In st (fst (split_M s)) ->
      exists ss, parse_equation_M st = POk ss /\ forall c, In c (codes_of ss) -> chk c = ChkOk.
  Proof. exact (accepted_means_every_code_compiled chk s syms). Qed.
End C13.
Print Assumptions C13_every_exception_classified.
Print Assumptions C13_own_errors_only.
Print Assumptions C13_chk_outcomes_propagate.
Print Assumptions C13_other_exn_only_from_oracle.
Print Assumptions C13_nocheck_ignores_oracle.
Print Assumptions C13_accepted_means_every_code_compiled.

(* the full statement "only the parser's own errors" is FALSE of the faithful model (new finding) *)
Theorem C13_own_errors_refuted :
  exists s, parse_model_M chk_none false s = PErr ValueError /\ no_eqless_statement s = false.
Proof. exact (ex_intro _ eqless_fence (conj eqless_fence_value_error eqless_fence_outside_guard)). Qed.
Print Assumptions C13_own_errors_refuted.

(* #24: an unclosed ``` fence silently drops every later statement *)
Theorem C13_unclosed_fence_drops_statements_refuted :
  exists s, parse_model_nocheck s = parse_model_nocheck "Y = X" /\ accepted_emits s = Some 1 /\ n_statements s = 1 /\
            final_state s0 (model_lines s) = Some (mkS 0 false ["Z = W"; "foo = 1"; "```"]).
Proof. exact (ex_intro _ unclosed_fence unclosed_fence_drops_statements). Qed.
Print Assumptions C13_unclosed_fence_drops_statements_refuted.

(* "each statement contributes exactly one equation": three more ways it fails in the faithful model *)
Theorem C13_duplicate_statements_merge_refuted :
  exists s, n_statements s = 2 /\ accepted_emits s = Some 1.
Proof. exact (ex_intro _ duplicate_statements duplicate_statements_merge). Qed.
Print Assumptions C13_duplicate_statements_merge_refuted.
Theorem C13_two_lhs_names_two_equations_refuted :
  exists s, n_statements s = 1 /\ accepted_emits s = Some 2.
Proof. exact (ex_intro _ "Y,Z = 1,2" two_lhs_names_two_equations). Qed.
Print Assumptions C13_two_lhs_names_two_equations_refuted.
Theorem C13_lhs_name_called_drops_equation_refuted :
  exists s, n_statements s = 1 /\ parse_model_nocheck s = POk [mkSymbol (Some "Y") TFunction None None None None].
Proof. exact (ex_intro _ "Y = Y(1)" lhs_name_called_drops_equation). Qed.
Print Assumptions C13_lhs_name_called_drops_equation_refuted.
