(* Props/C04.v — the audited surface for property C04:
   "solving a period touches only that period; reads never wrap round the span; an infeasible period is rejected;
    a call rejected up front changes nothing".
   Statements only; every proof is `exact <lemma>`; Print Assumptions under each. *)
(* WHAT IS COVERED BY WHAT (reviewer-C items 2, 5):
   - reads / writes of the generated code: the access log of Eval.eval_pass (theorems C04_reads_*, C04_*_monitored_eq), tied to
     the code by K (access sequence of every recorded pass) and judged by the oracle on the recorded ndarray accesses;
   - the solver's OWN accesses (get_check_values, offset copy, status / iterations) use the raw t: the model works on normalised
     positions.  C04_solver_own_accesses_no_wrap is DEFINITIONAL — an arithmetic fact about the index list written in its own
     statement (solve_t_M does not occur in it): it covers no clause by itself.  That these ARE the indexes the code hands to
     NumPy, and that they do not wrap, is established by the ORACLE only (every recorded access of the whole call is judged:
     obs['log']), not by a theorem and not by K;
   - Fortran engine: the compiled code's reads cannot be observed (they happen inside gfortran's object code) and FSem.fread is
     totalised, so for this engine "reads never wrap" is covered by the rejection theorems (C04_fortran_infeasible_rejected,
     C04_fortran_evaluate_infeasible_rejected: an infeasible period is never evaluated) and the write frames only;
   - C04_out_of_span_no_change is about a t outside the span altogether, where the model answers IndexError unconditionally while
     the code does so through NumPy in get_check_values (with an empty `check` it would go on): out of the property's scope
     (ASSUMPTIONS: -n <= t < n), kept only so that the frame theorems need no side condition. *)
From Coq Require Import ZArith List Bool PrimFloat.
Import ListNotations.
Require Import PyBase Solver SolverFacts SolverF SolveAll Eval EvalFacts EvalFacts2 EvalFacts3 EvalF EvalExamples.
Require Import EvalSolveAll EvalSolveSpan EvalFortran EvalFortranFrame EvalExamples2 EvalDeps.
Require Import SolveAllSpan.
Require Import EvalHistory EvalSolveReject EvalExamples3.
Require Fsic.Linker.Linker Fsic.Eval.EvalLinker.
Require Fsic.Fortran.FSem Fsic.Fortran.FSolve.
Require Fsic.Solver.SolveAllFacts.
Open Scope Z_scope.

(* ============ Part A: the solver, for any number type, any arithmetic, ANY evaluation oracle and hooks ============ *)
Section C04_solver.
  Variable num : Type.
  Variables (sub : num -> num -> num) (absf : num -> num) (ltb : num -> num -> bool)
            (isfin : num -> bool) (zero : num).
  Variables (ev before after : hook num).
  Notation solve_t_M := (solve_t_M num sub absf ltb isfin zero ev before after).

  (* rejected up front, nothing changes: min_iter > max_iter *)
  Theorem C04_rejected_min_gt_max_no_change d o t s :
    max_iter o < min_iter o -> solve_t_M d o t s = (s, Raise ValueError).
  Proof. exact (min_gt_max_rejected num sub absf ltb isfin zero ev before after d o t s). Qed.

  (* rejected up front, nothing changes: offset pointing outside the span (both spellings of t) *)
  Theorem C04_rejected_offset_out_of_span_no_change d o t s p :
    min_iter o <= max_iter o ->
    py_pos (length (status s)) t = Some p -> feasible d (length (status s)) p = true ->
    offset o <> 0 ->
    (Z.of_nat p + offset o < 0 \/ Z.of_nat (length (status s)) <= Z.of_nat p + offset o) ->
    solve_t_M d o t s = (s, Raise IndexError).
  Proof. exact (offset_out_of_span_rejected num sub absf ltb isfin zero ev before after d o t s p). Qed.

  (* rejected up front, nothing changes: pre-existing non-finite check values under errors='raise' (offset = 0) *)
  Theorem C04_rejected_preexisting_nonfinite_no_change d o t s p :
    min_iter o <= max_iter o ->
    py_pos (length (status s)) t = Some p -> feasible d (length (status s)) p = true ->
    offset o = 0 -> errors o = ERaise ->
    all_finite num isfin (get_check num zero d (vals_of s) p) = false ->
    solve_t_M d o t s = (s, Raise (SolutionError None)).
  Proof. exact (preexisting_nonfinite_no_change num sub absf ltb isfin zero ev before after d o t s p). Qed.

  (* ... with a non-zero in-span offset the copy has already happened (finding #3): exactly this is left behind *)
  Theorem C04_rejected_preexisting_nonfinite_after_offset d o t s p :
    min_iter o <= max_iter o ->
    py_pos (length (status s)) t = Some p -> feasible d (length (status s)) p = true ->
    offset o <> 0 -> 0 <= Z.of_nat p + offset o < Z.of_nat (length (status s)) ->
    errors o = ERaise ->
    let v0 := copy_endo num zero d (vals_of s) p (Z.to_nat (Z.of_nat p + offset o)) in
    all_finite num isfin (get_check num zero d v0 p) = false ->
    solve_t_M d o t s = (mkState v0 (status s) (iters s) (log s), Raise (SolutionError None)).
  Proof. exact (preexisting_nonfinite_after_offset num sub absf ltb isfin zero ev before after d o t s p). Qed.

  (* an explicit request for a period without room for the model's lags or leads is REJECTED, nothing changes *)
  Theorem C04_infeasible_period_rejected d o t s p :
    min_iter o <= max_iter o ->
    py_pos (length (status s)) t = Some p -> feasible d (length (status s)) p = false ->
    solve_t_M d o t s = (s, Raise IndexError).
  Proof. exact (infeasible_period_rejected num sub absf ltb isfin zero ev before after d o t s p). Qed.

  (* a period outside the span altogether: nothing changes *)
  Theorem C04_out_of_span_no_change d o t s :
    py_pos (length (status s)) t = None -> fst (solve_t_M d o t s) = s.
  Proof. exact (solve_t_out_of_span_no_change num sub absf ltb isfin zero ev before after d o t s). Qed.

  (* THE FRAME THEOREM, generic: if the evaluation oracle and the hooks, called for period t on stores of the given
     shape, preserve the shape and leave every cell outside W alone (premise ev_frame = hook_frame), then solve_t —
     for all options — changes values only inside W and, with an offset, in the endogenous cells of period p, and
     changes status / iterations at p only *)
  Theorem C04_solve_t_frame d o t s p (W : nat -> nat -> Prop) :
    py_pos (length (status s)) t = Some p ->
    hook_frame (shape (vals_of s)) W ev t ->
    hook_frame (shape (vals_of s)) W before t ->
    hook_frame (shape (vals_of s)) W after t ->
    let s' := fst (solve_t_M d o t s) in
    agree_outside (fun i q => W i q \/ (offset o <> 0 /\ In i (endo d) /\ q = p)) (vals_of s) (vals_of s') /\
    sf_frame p s s'.
  Proof. exact (solve_t_frame num sub absf ltb isfin zero ev before after d o t s p W). Qed.

  (* "REJECTED UP FRONT CHANGES NOTHING", complete: whenever the call ended before any hook or evaluation pass ran (the
     event log is what it was) — for whatever reason, whatever the options — the state is EXACTLY what it was, with one
     exception that is characterised exactly: finding #3 (errors='raise', a non-zero in-span offset, SolutionError for
     pre-existing non-finite values, period p holding the copy of period p + offset) *)
  Theorem C04_no_event_no_change_or_finding3 d o t s :
    log (fst (solve_t_M d o t s)) = log s ->
    fst (solve_t_M d o t s) = s \/
    (exists p, py_pos (length (status s)) t = Some p /\ feasible d (length (status s)) p = true /\
               offset o <> 0 /\ 0 <= Z.of_nat p + offset o < Z.of_nat (length (status s)) /\
               errors o = ERaise /\
               solve_t_M d o t s =
               (mkState (copy_endo num zero d (vals_of s) p (Z.to_nat (Z.of_nat p + offset o))) (status s) (iters s) (log s),
                Raise (SolutionError None))).
  Proof. exact (no_event_no_change_or_finding3 num sub absf ltb isfin zero ev before after d o t s). Qed.

  (* ... hence without an offset: no event, no change *)
  Theorem C04_no_event_no_change d o t s :
    offset o = 0 -> log (fst (solve_t_M d o t s)) = log s -> fst (solve_t_M d o t s) = s.
  Proof. exact (no_event_no_change num sub absf ltb isfin zero ev before after d o t s). Qed.

  (* AN EXPLICIT INFEASIBLE START IS REJECTED BY solve() AS A WHOLE (entry-point model Solver/SolveAll.v, any label type,
     any lookup that resolves the span's labels): IndexError before anything is evaluated, the whole state unchanged *)
  Theorem C04_solve_entry_infeasible_start_rejected (L : Type) (locate : L -> locres) d o (span : list L) x end_ s a b :
    min_iter o <= max_iter o -> SolveAllFacts.locate_ok L locate span ->
    length (status s) = length span ->
    nth_error span a = Some x -> SolveAllFacts.resolves_end L d span end_ b -> (a <= b)%nat ->
    feasible d (length span) a = false ->
    solve_M num sub absf ltb isfin zero ev before after L locate d o span (Some x) end_ s = (s, Raise IndexError).
  Proof. exact (solve_infeasible_start_rejected num sub absf ltb isfin zero ev before after L locate d o span x end_ s a b). Qed.

  (* A REQUESTED RANGE THAT CONTAINS AN INFEASIBLE PERIOD IS NOT CLIPPED: solve(start=, end=) — given labels or defaults — whose
     positions a..b contain a period without room for the lags / leads (e.g. a feasible start with end = the last period of a
     model with a lead) never returns: some exception ends the call ... *)
  Theorem C04_solve_entry_over_infeasible_raises (L : Type) (locate : L -> locres) d o (span : list L) start end_ s a b q :
    min_iter o <= max_iter o ->
    SolveAllFacts.given_ok L locate start a -> SolveAllFacts.given_ok L locate end_ b ->
    SolveAllFacts.resolves_start L d span start a -> SolveAllFacts.resolves_end L d span end_ b ->
    length (status s) = length span ->
    (a <= q <= b)%nat -> feasible d (length span) q = false ->
    exists s' e, solve_M num sub absf ltb isfin zero ev before after L locate d o span start end_ s = (s', Raise e).
  Proof. exact (solve_over_infeasible_raises num sub absf ltb isfin zero ev before after L locate d o span start end_ s a b q). Qed.

  (* ... and in the loop of solve(): once the earlier periods have gone through, the FIRST infeasible period raises IndexError,
     the state left is exactly the one the earlier periods produced, nothing from that period on is touched *)
  Theorem C04_solve_loop_first_infeasible_raises_IndexError (L : Type) d o (ps1 : list (Z * L)) t lab ps2 s acc s1 vs :
    min_iter o <= max_iter o ->
    run_periods num sub absf ltb isfin zero ev before after L d o ps1 s acc = (s1, Ret vs) ->
    (exists p, py_pos (length (status s)) t = Some p /\ feasible d (length (status s)) p = false) ->
    run_periods num sub absf ltb isfin zero ev before after L d o (ps1 ++ (t, lab) :: ps2) s acc = (s1, Raise IndexError).
  Proof. exact (run_periods_first_infeasible num sub absf ltb isfin zero ev before after L d o ps1 t lab ps2 s acc s1 vs). Qed.

  (* DEFINITIONAL (covers no clause on its own: see the header): IF the solver's own raw indexes are t (get_check_values, status,
     iterations) and t + offset / t (offset copy), THEN once the offset guards have passed none of them wraps — each is served
     at the same distance from p inside the span.  The premise is checked by the oracle on the recorded accesses only. *)
  Theorem C04_solver_own_accesses_no_wrap (o : opts num) n t p :
    py_pos n t = Some p ->
    (offset o = 0 \/ 0 <= Z.of_nat p + offset o < Z.of_nat n) ->
    Forall (fun i => py_pos n i = Some (Z.to_nat (Z.of_nat p + (i - t))) /\ 0 <= Z.of_nat p + (i - t) < Z.of_nat n)
           ((if offset o =? 0 then [] else [t + offset o; t]) ++ [t]).
  Proof. exact (solver_requests_no_wrap num o n t p). Qed.
End C04_solver.

(* ============ Part B: the generated code — every program, every arithmetic, every function oracle ============ *)
Section C04_eval.
  Variable num : Type.
  Variables (add sub mul div pow : num -> num -> num) (neg absf : num -> num).
  Variables (ltb leb eqb : num -> num -> bool).
  Variable zero : num.
  Variable fun1 : nat -> num -> num.
  Variable fun2 : nat -> num -> num -> num.
  Variable flagged : list num -> num -> bool.
  Variable isfin : num -> bool.
  Notation eval_pass := (eval_pass num add sub mul div pow neg absf ltb leb eqb zero fun1 fun2 flagged).
  Notation ev_of := (ev_of num add sub mul div pow neg absf ltb leb eqb zero fun1 fun2 flagged).
  Notation solve_t_P := (solve_t_P num add sub mul div pow neg absf ltb leb eqb zero fun1 fun2 flagged isfin).
  Notation solve_t_monitored := (solve_t_monitored num add sub mul div pow neg absf ltb leb eqb zero fun1 fun2 flagged isfin).
  Notation solve_seq_M := (solve_seq_M num add sub mul div pow neg absf ltb leb eqb zero fun1 fun2 flagged isfin).

  (* eval_pass_writes_only_lhs: one evaluation pass keeps every array's length and changes no cell other than
     (y, position served for index t + k) for the left-hand terms (y, k) — never-assigned rows included *)
  Theorem C04_eval_pass_writes_only_lhs catch t (prog : program num) (v : vals num) :
    agree_outside (written num prog (shape v) t) v (fst (fst (eval_pass catch prog t v))).
  Proof. exact (eval_pass_agree num add sub mul div pow neg absf ltb leb eqb zero fun1 fun2 flagged catch t prog v). Qed.

  (* parsed_ev_frame: every program discharges the premise of the generic frame theorem *)
  Theorem C04_parsed_ev_frame (prog : program num) sh t :
    hook_frame sh (written num prog sh t) (ev_of prog) t.
  Proof. exact (parsed_ev_frame num add sub mul div pow neg absf ltb leb eqb zero fun1 fun2 flagged prog sh t). Qed.

  (* solve_t of a parser-built model: the only value cells that can differ afterwards are (y, p + k) for the
     left-hand terms (y, k) (ordinary equations: the endogenous variables at p itself), plus the endogenous cells
     of p when an offset is given; shapes are kept; status / iterations change at p only *)
  Theorem C04_solve_t_touches_only_assigned_cells (prog : program num) d o t s p :
    wf_vals (length (status s)) (vals_of s) ->
    (prog_lags num prog <= lags d)%nat -> (prog_leads num prog <= leads d)%nat ->
    py_pos (length (status s)) t = Some p ->
    let s' := fst (solve_t_P prog d o t s) in
    (forall i q, (forall k, In (i, k) (prog_lhs num prog) -> Z.of_nat q <> Z.of_nat p + k) ->
                 (offset o = 0 \/ ~ In i (endo d) \/ q <> p) ->
                 nth_error (nth i (vals_of s') []) q = nth_error (nth i (vals_of s) []) q) /\
    shape (vals_of s') = shape (vals_of s) /\ sf_frame p s s'.
  Proof. exact (solve_t_P_touches_only_assigned_cells num add sub mul div pow neg absf ltb leb eqb zero fun1 fun2 flagged isfin prog d o t s p). Qed.

  (* THE TITLE, for ordinary equations (every left-hand side unindexed): solving period t leaves every other period of
     every variable, of status and of iterations bit-identical — all options, both spellings of t, feasible or not *)
  Theorem C04_ordinary_equations_touch_only_t (prog : program num) d o t s p :
    wf_vals (length (status s)) (vals_of s) ->
    (prog_lags num prog <= lags d)%nat -> (prog_leads num prog <= leads d)%nat ->
    (forall i k, In (i, k) (prog_lhs num prog) -> k = 0) ->
    py_pos (length (status s)) t = Some p ->
    let s' := fst (solve_t_P prog d o t s) in
    forall q, q <> p ->
      (forall i, nth_error (nth i (vals_of s') []) q = nth_error (nth i (vals_of s) []) q) /\
      nth_error (status s') q = nth_error (status s) q /\ nth_error (iters s') q = nth_error (iters s) q.
  Proof. exact (solve_t_P_ordinary_touches_only_t num add sub mul div pow neg absf ltb leb eqb zero fun1 fun2 flagged isfin prog d o t s p). Qed.

  (* exogenous variables, parameters, errors (rows no statement assigns) are bit-identical after ANY solve_t call *)
  Theorem C04_unassigned_rows_unchanged (prog : program num) d o t s i :
    (forall k, ~ In (i, k) (prog_lhs num prog)) -> (offset o = 0 \/ ~ In i (endo d)) ->
    nth i (vals_of (fst (solve_t_P prog d o t s))) [] = nth i (vals_of s) [].
  Proof. exact (solve_t_P_unassigned_rows_unchanged num add sub mul div pow neg absf ltb leb eqb zero fun1 fun2 flagged isfin prog d o t s i). Qed.

  (* default_range_reads_in_span: for EVERY span length n, every period with room for the lags and leads (both
     spellings), every store: each access of a pass is an access to a syntactic term (x, k), requested at t + k and
     served at position p + k inside the span — no wrap *)
  Theorem C04_reads_in_span catch (prog : program num) n t p (v : vals num) :
    wf_vals n v -> vars_ok num prog (length v) ->
    py_pos n t = Some p -> (prog_lags num prog <= p)%nat -> (p + prog_leads num prog < n)%nat ->
    Forall (fun a => exists x k, In (x, k) (prog_terms num prog) /\
                       acc_var a = x /\ acc_req a = t + k /\
                       acc_srv a = Some (Z.to_nat (Z.of_nat p + k)) /\ 0 <= Z.of_nat p + k < Z.of_nat n)
           (snd (eval_pass catch prog t v)).
  Proof. exact (eval_pass_accesses_in_span num add sub mul div pow neg absf ltb leb eqb zero fun1 fun2 flagged catch prog n t p v). Qed.

  (* the SEMANTIC footprint of a right-hand side: its value, its exception and its access log are a function of the cells
     served for its syntactic terms (x, k) at index t + k only — two stores of the same shape that agree there are
     indistinguishable to it; in particular overwriting any other cell changes nothing *)
  Theorem C04_rhs_depends_only_on_its_terms catch t (v v' : vals num) (e : expr num) :
    shape v' = shape v ->
    (forall x k q, In (x, k) (expr_reads num e) -> py_pos (nth x (shape v) 0%nat) (t + k) = Some q ->
                   nth q (nth x v' []) zero = nth q (nth x v []) zero) ->
    eval_expr num add sub mul div pow neg absf ltb leb eqb zero fun1 fun2 flagged catch t v' e =
    eval_expr num add sub mul div pow neg absf ltb leb eqb zero fun1 fun2 flagged catch t v e.
  Proof. exact (eval_expr_ext num add sub mul div pow neg absf ltb leb eqb zero fun1 fun2 flagged catch t v v' e). Qed.

  (* the same for the non-negative spelling of t, in the words of the property: served = requested, inside the span *)
  Theorem C04_reads_served_eq_requested catch (prog : program num) n t p (v : vals num) :
    wf_vals n v -> vars_ok num prog (length v) ->
    py_pos n t = Some p -> 0 <= t ->
    (prog_lags num prog <= p)%nat -> (p + prog_leads num prog < n)%nat ->
    Forall (fun a => acc_srv a = Some (Z.to_nat (acc_req a)) /\ 0 <= acc_req a < Z.of_nat n)
           (snd (eval_pass catch prog t v)).
  Proof. exact (eval_pass_served_eq_requested num add sub mul div pow neg absf ltb leb eqb zero fun1 fun2 flagged catch prog n t p v). Qed.

  (* ... so such a pass cannot raise IndexError: the only exception left is a numeric warning turned into an error *)
  Theorem C04_feasible_pass_no_index_error catch (prog : program num) n t p (v v' : vals num) c lg :
    wf_vals n v -> vars_ok num prog (length v) ->
    py_pos n t = Some p -> (prog_lags num prog <= p)%nat -> (p + prog_leads num prog < n)%nat ->
    eval_pass catch prog t v = ((v', Some c), lg) -> c = tag_warning.
  Proof. exact (eval_pass_no_index_error num add sub mul div pow neg absf ltb leb eqb zero fun1 fun2 flagged catch prog n t p v v' c lg). Qed.

  (* the whole solve_t, all options, all t: an evaluator that RAISES on any access that is not served in span at its
     requested distance from t is indistinguishable from the plain one (infeasible t: both are rejected) *)
  Theorem C04_monitored_solve_t_eq (prog : program num) d o t s :
    wf_vals (length (status s)) (vals_of s) -> vars_ok num prog (length (vals_of s)) ->
    (prog_lags num prog <= lags d)%nat -> (prog_leads num prog <= leads d)%nat ->
    solve_t_monitored (length (status s)) prog d o t s = solve_t_P prog d o t s.
  Proof. exact (monitored_solve_t_eq num add sub mul div pow neg absf ltb leb eqb zero fun1 fun2 flagged isfin prog d o t s). Qed.

  (* solve(): any sequence of periods touches only what the individual solves may touch, status only at those periods *)
  Theorem C04_solve_seq_frame (prog : program num) d o ts s :
    let s' := fst (solve_seq_M prog d o ts s) in
    agree_outside (seq_touched num prog d o s ts) (vals_of s) (vals_of s') /\
    length (status s') = length (status s) /\ length (iters s') = length (iters s) /\
    (forall q, (forall t, In t ts -> py_pos (length (status s)) t <> Some q) ->
               nth_error (status s') q = nth_error (status s) q /\ nth_error (iters s') q = nth_error (iters s) q).
  Proof. exact (solve_seq_frame num add sub mul div pow neg absf ltb leb eqb zero fun1 fun2 flagged isfin prog d o ts s). Qed.

  (* every period of solve()'s default range span[lags] .. span[-1-leads] has room for the lags and leads *)
  Theorem C04_default_positions_feasible d n t :
    In t (default_positions d n) ->
    py_pos n t = Some (Z.to_nat t) /\ feasible d n (Z.to_nat t) = true /\ 0 <= t.
  Proof. exact (default_positions_feasible d n t). Qed.

  (* Gauss-Seidel order (shared with C01): later statements see the stores of earlier ones *)
  Theorem C04_eval_pass_gauss_seidel catch t (p1 p2 : program num) (v : vals num) :
    eval_pass catch (p1 ++ p2) t v =
    match eval_pass catch p1 t v with
    | ((v1, None), l1) => let '(r, l2) := eval_pass catch p2 t v1 in (r, l1 ++ l2)
    | r => r
    end.
  Proof. exact (eval_pass_app num add sub mul div pow neg absf ltb leb eqb zero fun1 fun2 flagged catch t p1 p2 v). Qed.

  (* solve() over ANY list of periods (any start / end, either spelling): value cells change only where a FEASIBLE
     visited period p assigns — (y, p + k) for a left-hand term (y, k); with an offset the endogenous cells of p —,
     status / iterations only at feasible visited periods; array lengths are kept *)
  Theorem C04_solve_seq_frame_feasible (prog : program num) d o ts s :
    wf_vals (length (status s)) (vals_of s) ->
    (prog_lags num prog <= lags d)%nat -> (prog_leads num prog <= leads d)%nat ->
    let n := length (status s) in
    let s' := fst (solve_seq_M prog d o ts s) in
    agree_outside (fun i q => exists t, In t ts /\ exists p, py_pos n t = Some p /\ feasible d n p = true /\
                       ((exists k, In (i, k) (prog_lhs num prog) /\ Z.of_nat q = Z.of_nat p + k) \/
                        (offset o <> 0 /\ In i (endo d) /\ q = p)))
                  (vals_of s) (vals_of s') /\
    length (status s') = n /\ length (iters s') = length (iters s) /\
    (forall q, (forall t p, In t ts -> py_pos n t = Some p -> feasible d n p = true -> q <> p) ->
               nth_error (status s') q = nth_error (status s) q /\ nth_error (iters s') q = nth_error (iters s) q).
  Proof. exact (solve_seq_frame_feasible num add sub mul div pow neg absf ltb leb eqb zero fun1 fun2 flagged isfin prog d o ts s). Qed.

  (* the default range lags .. n-1-leads, in the words of the property *)
  Theorem C04_solve_default_range_frame (prog : program num) d o s :
    wf_vals (length (status s)) (vals_of s) ->
    (prog_lags num prog <= lags d)%nat -> (prog_leads num prog <= leads d)%nat ->
    let n := length (status s) in
    let s' := fst (solve_seq_M prog d o (default_positions d n) s) in
    (forall i q,
        (forall k p, In (i, k) (prog_lhs num prog) -> (lags d <= p)%nat -> (p + leads d < n)%nat -> Z.of_nat q <> Z.of_nat p + k) ->
        (offset o = 0 \/ ~ In i (endo d) \/ (q < lags d)%nat \/ (n <= q + leads d)%nat) ->
        nth_error (nth i (vals_of s') []) q = nth_error (nth i (vals_of s) []) q) /\
    shape (vals_of s') = shape (vals_of s) /\
    (forall q, (q < lags d)%nat \/ (n <= q + leads d)%nat ->
               nth_error (status s') q = nth_error (status s) q /\ nth_error (iters s') q = nth_error (iters s) q).
  Proof. exact (solve_default_range_frame num add sub mul div pow neg absf ltb leb eqb zero fun1 fun2 flagged isfin prog d o s). Qed.

  (* ---- the real entry point: SolverMixin.solve / iter_periods (model Solver/SolveAll.v) over any label type ---- *)
  Variable L : Type.
  Variable locate : L -> locres.
  Notation solve_P := (solve_P num add sub mul div pow neg absf ltb leb eqb zero fun1 fun2 flagged isfin L locate).
  Notation solve_mon := (solve_mon num add sub mul div pow neg absf ltb leb eqb zero fun1 fun2 flagged isfin L locate).

  (* solve() with no start / end, ANY span (no hypothesis on the labels: since fix 7cd6323 the defaults are positions, not
     labels looked up again): iter_periods yields exactly lags .. n-1-leads and the default-range frame holds for the call *)
  Theorem C04_solve_entry_default_range_frame (prog : program num) d o (span : list L) s :
    min_iter o <= max_iter o ->
    length (status s) = length span -> (lags d + leads d < length span)%nat ->
    wf_vals (length (status s)) (vals_of s) ->
    (prog_lags num prog <= lags d)%nat -> (prog_leads num prog <= leads d)%nat ->
    let n := length (status s) in
    let s' := fst (solve_P prog d o span None None s) in
    (forall i q,
        (forall k p, In (i, k) (prog_lhs num prog) -> (lags d <= p)%nat -> (p + leads d < n)%nat -> Z.of_nat q <> Z.of_nat p + k) ->
        (offset o = 0 \/ ~ In i (endo d) \/ (q < lags d)%nat \/ (n <= q + leads d)%nat) ->
        nth_error (nth i (vals_of s') []) q = nth_error (nth i (vals_of s) []) q) /\
    shape (vals_of s') = shape (vals_of s) /\
    (forall q, (q < lags d)%nat \/ (n <= q + leads d)%nat ->
               nth_error (status s') q = nth_error (status s) q /\ nth_error (iters s') q = nth_error (iters s) q).
  Proof. exact (solve_P_default_range_frame num add sub mul div pow neg absf ltb leb eqb zero fun1 fun2 flagged isfin L locate prog d o span s). Qed.

  (* READS NEVER WRAP, whole solve(), ANY start / end (explicit infeasible periods are rejected by the guard): the
     evaluator that raises on the first access not served in span at its requested distance from t is
     indistinguishable from the plain one — same final state, same result or exception *)
  Theorem C04_solve_entry_monitored_eq (prog : program num) d o (span : list L) start end_ s :
    wf_vals (length (status s)) (vals_of s) -> vars_ok num prog (length (vals_of s)) ->
    (prog_lags num prog <= lags d)%nat -> (prog_leads num prog <= leads d)%nat ->
    solve_mon (length (status s)) prog d o span start end_ s = solve_P prog d o span start end_ s.
  Proof. exact (solve_monitored_eq num add sub mul div pow neg absf ltb leb eqb zero fun1 fun2 flagged isfin L locate prog d o span start end_ s). Qed.

  (* HISTORIES: any number of solve_t calls on one instance, each with its own options and period, whatever each returns or
     raises (the caller may catch and go on): a value cell differs afterwards only if some call, at a FEASIBLE period p,
     could assign it — (y, p + k) for a left-hand term, or with THAT call's offset the endogenous cells of p —; status /
     iterations differ only at feasible periods some call addressed; nothing leaks from one call into the next *)
  Theorem C04_history_frame (prog : program num) d calls s :
    wf_vals (length (status s)) (vals_of s) ->
    (prog_lags num prog <= lags d)%nat -> (prog_leads num prog <= leads d)%nat ->
    let n := length (status s) in
    let s' := run_history num add sub mul div pow neg absf ltb leb eqb zero fun1 fun2 flagged isfin prog d calls s in
    agree_outside (fun i q => exists o t, In (o, t) calls /\ exists p, py_pos n t = Some p /\ feasible d n p = true /\
                       ((exists k, In (i, k) (prog_lhs num prog) /\ Z.of_nat q = Z.of_nat p + k) \/
                        (offset o <> 0 /\ In i (endo d) /\ q = p)))
                  (vals_of s) (vals_of s') /\
    length (status s') = n /\ length (iters s') = length (iters s) /\
    (forall q, (forall o t p, In (o, t) calls -> py_pos n t = Some p -> feasible d n p = true -> q <> p) ->
               nth_error (status s') q = nth_error (status s) q /\ nth_error (iters s') q = nth_error (iters s) q).
  Proof. exact (history_frame num add sub mul div pow neg absf ltb leb eqb zero fun1 fun2 flagged isfin prog d calls s). Qed.

  (* ... in particular rows that no statement assigns and the instance does not list as endogenous survive ANY history *)
  Theorem C04_history_unassigned_rows_unchanged (prog : program num) d calls s i :
    wf_vals (length (status s)) (vals_of s) ->
    (prog_lags num prog <= lags d)%nat -> (prog_leads num prog <= leads d)%nat ->
    (forall k, ~ In (i, k) (prog_lhs num prog)) -> ~ In i (endo d) ->
    nth i (vals_of (run_history num add sub mul div pow neg absf ltb leb eqb zero fun1 fun2 flagged isfin prog d calls s)) [] = nth i (vals_of s) [].
  Proof. exact (history_unassigned_rows_unchanged num add sub mul div pow neg absf ltb leb eqb zero fun1 fun2 flagged isfin prog d calls s i). Qed.

  (* ---- the LABEL entry point solve_period(label) ---- *)
  Notation solve_period_P := (solve_period_P num add sub mul div pow neg absf ltb leb eqb zero fun1 fun2 flagged isfin L locate).
  Notation solve_period_mon := (solve_period_mon num add sub mul div pow neg absf ltb leb eqb zero fun1 fun2 flagged isfin L locate).

  (* solve_period(label) changes only the cells the equations assign for the period the label names (with an offset
     also the endogenous cells of that period) and status / iterations at that period *)
  Theorem C04_solve_period_touches_only_its_period (prog : program num) d o (span : list L) lab i s :
    SolveAllFacts.locate_ok L locate span -> nth_error span i = Some lab ->
    length (status s) = length span ->
    wf_vals (length (status s)) (vals_of s) ->
    (prog_lags num prog <= lags d)%nat -> (prog_leads num prog <= leads d)%nat ->
    let s' := fst (solve_period_P prog d o lab s) in
    (forall j q, (forall k, In (j, k) (prog_lhs num prog) -> Z.of_nat q <> Z.of_nat i + k) ->
                 (offset o = 0 \/ ~ In j (endo d) \/ q <> i) ->
                 nth_error (nth j (vals_of s') []) q = nth_error (nth j (vals_of s) []) q) /\
    shape (vals_of s') = shape (vals_of s) /\ sf_frame i s s'.
  Proof. exact (solve_period_P_touches_only_its_period num add sub mul div pow neg absf ltb leb eqb zero fun1 fun2 flagged isfin L locate prog d o span lab i s). Qed.

  (* a label the lookup cannot resolve to one position: KeyError, nothing changes *)
  Theorem C04_solve_period_bad_label_no_change (prog : program num) d o lab s :
    is_int (locate lab) = false -> solve_period_P prog d o lab s = (s, Raise KeyError).
  Proof. exact (solve_period_P_bad_label num add sub mul div pow neg absf ltb leb eqb zero fun1 fun2 flagged isfin L locate prog d o lab s). Qed.

  (* reads never wrap through solve_period, whatever the label *)
  Theorem C04_solve_period_monitored_eq (prog : program num) d o lab s :
    wf_vals (length (status s)) (vals_of s) -> vars_ok num prog (length (vals_of s)) ->
    (prog_lags num prog <= lags d)%nat -> (prog_leads num prog <= leads d)%nat ->
    solve_period_mon (length (status s)) prog d o lab s = solve_period_P prog d o lab s.
  Proof. exact (solve_period_monitored_eq num add sub mul div pow neg absf ltb leb eqb zero fun1 fun2 flagged isfin L locate prog d o lab s). Qed.

  (* ---- every supported span type (list / tuple / range, NumPy array, pandas Index; model Solver/SolveAllSpan.v),
          labels without repetition: no lookup hypothesis left ---- *)
  Theorem C04_solve_period_every_span_touches_only_its_period k (prog : program num) d o (span : list Z) lab i s :
    NoDup span -> nth_error span i = Some lab ->
    length (status s) = length span ->
    wf_vals (length (status s)) (vals_of s) ->
    (prog_lags num prog <= lags d)%nat -> (prog_leads num prog <= leads d)%nat ->
    let s' := fst (EvalSolveSpan.solve_period_P num add sub mul div pow neg absf ltb leb eqb zero fun1 fun2 flagged isfin Z (locate_span k span) prog d o lab s) in
    (forall j q, (forall c, In (j, c) (prog_lhs num prog) -> Z.of_nat q <> Z.of_nat i + c) ->
                 (offset o = 0 \/ ~ In j (endo d) \/ q <> i) ->
                 nth_error (nth j (vals_of s') []) q = nth_error (nth j (vals_of s) []) q) /\
    shape (vals_of s') = shape (vals_of s) /\ sf_frame i s s'.
  Proof. exact (solve_period_every_span_touches_only_its_period num add sub mul div pow neg absf ltb leb eqb zero fun1 fun2 flagged isfin k prog d o span lab i s). Qed.

  Theorem C04_solve_every_span_default_range_frame k (prog : program num) d o (span : list Z) s :
    min_iter o <= max_iter o ->
    length (status s) = length span -> (lags d + leads d < length span)%nat ->
    wf_vals (length (status s)) (vals_of s) ->
    (prog_lags num prog <= lags d)%nat -> (prog_leads num prog <= leads d)%nat ->
    let n := length (status s) in
    let s' := fst (EvalSolveAll.solve_P num add sub mul div pow neg absf ltb leb eqb zero fun1 fun2 flagged isfin Z (locate_span k span)
                           prog d o span None None s) in
    (forall i q,
        (forall c p, In (i, c) (prog_lhs num prog) -> (lags d <= p)%nat -> (p + leads d < n)%nat -> Z.of_nat q <> Z.of_nat p + c) ->
        (offset o = 0 \/ ~ In i (endo d) \/ (q < lags d)%nat \/ (n <= q + leads d)%nat) ->
        nth_error (nth i (vals_of s') []) q = nth_error (nth i (vals_of s) []) q) /\
    shape (vals_of s') = shape (vals_of s) /\
    (forall q, (q < lags d)%nat \/ (n <= q + leads d)%nat ->
               nth_error (status s') q = nth_error (status s) q /\ nth_error (iters s') q = nth_error (iters s) q).
  Proof. exact (solve_every_span_default_range_frame num add sub mul div pow neg absf ltb leb eqb zero fun1 fun2 flagged isfin k prog d o span s). Qed.
End C04_eval.

(* ============ Part B1b: linkers over parser-built submodels (model Linker/Linker.v) — the VALUES frame of linker.solve_t ============ *)
Section C04_linker.
  Variable num : Type.
  Variables (add sub mul div pow : num -> num -> num) (neg absf : num -> num).
  Variables (ltb leb eqb : num -> num -> bool).
  Variable zero : num.
  Variable fun1 : nat -> num -> num.
  Variable fun2 : nat -> num -> num -> num.
  Variable flagged : list num -> num -> bool.

  (* for EVERY submodel evaluation oracle that writes only inside W id (array lengths kept) and `pass` linker hooks, when no
     offset is given: linker.solve_t(t) leaves the core's values alone and changes submodel `id` only inside W id; descriptors
     are kept.  (With an offset the linker first seeds period t from t + offset — fix 6298cba —: next theorem.) *)
  Theorem C04_linker_solve_t_values_frame (sev : Linker.sid -> hook num) (pre ebefore eafter post : Linker.lhook num) (t : Z)
          (W : Linker.sid -> list nat -> nat -> nat -> Prop) :
    (forall id sh, hook_frame sh (W id sh) (sev id) t) ->
    EvalLinker.hook_id num pre -> EvalLinker.hook_id num ebefore -> EvalLinker.hook_id num eafter -> EvalLinker.hook_id num post ->
    forall sel o s i id c,
    offset o = 0 ->
    nth_error (Linker.l_subs s) i = Some (id, c) ->
    vals_of (Linker.c_st (Linker.l_core (fst (Linker.linker_solve_t_M num sub absf ltb zero sev pre ebefore eafter post sel o t s))))
      = vals_of (Linker.c_st (Linker.l_core s)) /\
    exists c', nth_error (Linker.l_subs (fst (Linker.linker_solve_t_M num sub absf ltb zero sev pre ebefore eafter post sel o t s))) i = Some (id, c') /\
               Linker.c_desc c' = Linker.c_desc c /\
               agree_outside (W id (shape (vals_of (Linker.c_st c)))) (vals_of (Linker.c_st c)) (vals_of (Linker.c_st c')).
  Proof. exact (EvalLinker.linker_solve_t_cells num sub absf ltb zero sev pre ebefore eafter post t W). Qed.

  (* the whole call with ANY offset: guards, then the offset seeding (endogenous cells of period t of the core and of the
     selected submodels copied from t + offset: Linker.seeded), then the body — the state left is related by the values frame
     to the state after seeding, which is s itself or `seeded ids p q s` *)
  Theorem C04_linker_solve_t_seed_then_frame (sev : Linker.sid -> hook num) (pre ebefore eafter post : Linker.lhook num) (t : Z)
          (W : Linker.sid -> list nat -> nat -> nat -> Prop) :
    (forall id sh, hook_frame sh (W id sh) (sev id) t) ->
    EvalLinker.hook_id num pre -> EvalLinker.hook_id num ebefore -> EvalLinker.hook_id num eafter -> EvalLinker.hook_id num post ->
    forall sel o s,
    exists s0, (s0 = s \/ exists p q, s0 = Linker.seeded num zero (Linker.sel_ids num sel s) p q s) /\
               EvalLinker.svr num W s0 (fst (Linker.linker_solve_t_M num sub absf ltb zero sev pre ebefore eafter post sel o t s)).
  Proof. exact (EvalLinker.linker_solve_t_seed_then_frame num sub absf ltb zero sev pre ebefore eafter post t W). Qed.

  (* parser-built submodels (lsev: each submodel's generated pass as evaluate_t runs it, inside warnings.simplefilter('always')):
     each changes only the cells its OWN equations assign for index t, every selection of
     submodels, every option set (in a period the guard lets through these are (y, p + k): next theorem but one) *)
  Theorem C04_linker_parsed_solve_t_cells (progs : Linker.sid -> program num) sel o t s i id c :
    offset o = 0 ->
    nth_error (Linker.l_subs s) i = Some (id, c) ->
    let s' := fst (Linker.linker_solve_t_M num sub absf ltb zero
                     (EvalLinker.lsev num add sub mul div pow neg absf ltb leb eqb zero fun1 fun2 flagged progs)
                     (EvalLinker.lpass num) (EvalLinker.lpass num) (EvalLinker.lpass num) (EvalLinker.lpass num) sel o t s) in
    vals_of (Linker.c_st (Linker.l_core s')) = vals_of (Linker.c_st (Linker.l_core s)) /\
    exists c', nth_error (Linker.l_subs s') i = Some (id, c') /\ Linker.c_desc c' = Linker.c_desc c /\
               agree_outside (written num (progs id) (shape (vals_of (Linker.c_st c))) t) (vals_of (Linker.c_st c)) (vals_of (Linker.c_st c')).
  Proof. exact (EvalLinker.linker_parsed_solve_t_cells num add sub mul div pow neg absf ltb leb eqb zero fun1 fun2 flagged progs sel o t s i id c). Qed.

  (* the linker analogues of the up-front rejections (fixes 97423a0, a0fbb5c), for EVERY submodel oracle and linker hooks:
     min_iter > max_iter -> ValueError; a period without room for the LINKER's lags or leads (both spellings of t) ->
     IndexError; in both cases the whole linker state (core, every submodel, event log) is exactly what it was *)
  Theorem C04_linker_rejected_min_gt_max_no_change (sev : Linker.sid -> hook num) (pre ebefore eafter post : Linker.lhook num) t sel o s :
    max_iter o < min_iter o ->
    Linker.linker_solve_t_M num sub absf ltb zero sev pre ebefore eafter post sel o t s = (s, Linker.LRaise (Linker.LExn ValueError)).
  Proof. exact (EvalLinker.linker_rejected_min_gt_max num sub absf ltb zero sev pre ebefore eafter post t sel o s). Qed.

  Theorem C04_linker_infeasible_period_rejected (sev : Linker.sid -> hook num) (pre ebefore eafter post : Linker.lhook num) t sel o s p :
    min_iter o <= max_iter o ->
    py_pos (length (status (Linker.c_st (Linker.l_core s)))) t = Some p ->
    feasible (Linker.c_desc (Linker.l_core s)) (length (status (Linker.c_st (Linker.l_core s)))) p = false ->
    Linker.linker_solve_t_M num sub absf ltb zero sev pre ebefore eafter post sel o t s = (s, Linker.LRaise (Linker.LExn IndexError)).
  Proof. exact (EvalLinker.linker_infeasible_period_rejected num sub absf ltb zero sev pre ebefore eafter post t sel o s p). Qed.

  (* a period the guard lets through, submodel lags / leads within the linker's, arrays of the span's length: a submodel
     changes no cell other than (y, p + k) for its own left-hand terms — no wrap *)
  Theorem C04_linker_parsed_solve_t_cells_feasible (progs : Linker.sid -> program num) sel o t s i id c p :
    offset o = 0 ->
    nth_error (Linker.l_subs s) i = Some (id, c) ->
    py_pos (length (status (Linker.c_st (Linker.l_core s)))) t = Some p ->
    feasible (Linker.c_desc (Linker.l_core s)) (length (status (Linker.c_st (Linker.l_core s)))) p = true ->
    wf_vals (length (status (Linker.c_st (Linker.l_core s)))) (vals_of (Linker.c_st c)) ->
    (prog_lags num (progs id) <= lags (Linker.c_desc (Linker.l_core s)))%nat ->
    (prog_leads num (progs id) <= leads (Linker.c_desc (Linker.l_core s)))%nat ->
    let s' := fst (Linker.linker_solve_t_M num sub absf ltb zero
                     (EvalLinker.lsev num add sub mul div pow neg absf ltb leb eqb zero fun1 fun2 flagged progs)
                     (EvalLinker.lpass num) (EvalLinker.lpass num) (EvalLinker.lpass num) (EvalLinker.lpass num) sel o t s) in
    exists c', nth_error (Linker.l_subs s') i = Some (id, c') /\ Linker.c_desc c' = Linker.c_desc c /\
      shape (vals_of (Linker.c_st c')) = shape (vals_of (Linker.c_st c)) /\
      forall j q, (forall k, In (j, k) (prog_lhs num (progs id)) -> Z.of_nat q <> Z.of_nat p + k) ->
                  nth_error (nth j (vals_of (Linker.c_st c')) []) q = nth_error (nth j (vals_of (Linker.c_st c)) []) q.
  Proof. exact (EvalLinker.linker_parsed_solve_t_cells_feasible num add sub mul div pow neg absf ltb leb eqb zero fun1 fun2 flagged progs sel o t s i id c p). Qed.
End C04_linker.

(* ============ Part B2: the second engine — FortranEngine.solve_t over the compiled template (model Fortran/FSolve.v) ============ *)
Section C04_fortran.
  Variable num : Type.
  Variables (sub : num -> num -> num) (absf : num -> num) (ltb : num -> num -> bool)
            (isfin : num -> bool) (zero : num).
  Variable evf : Z -> vals num -> vals num.          (* the {equations} block: arbitrary *)
  Notation w_solve_t := (FSolve.w_solve_t num sub absf ltb isfin zero evf).

  (* an explicit request for an infeasible period on the Fortran engine (fix 1354783), at full strength: every equations
     block, every compiled module, every option set with a valid `errors`, both spellings of t, with or without an offset:
     IndexError, and values, status, iterations and events are exactly what they were (the guard precedes the offset copy;
     the former finding C04|fortran|infeasible-after-offset|changed is fixed) *)
  Theorem C04_fortran_infeasible_rejected (fm : FSolve.fmod) d o t s p ec :
    min_iter o <= max_iter o -> FSolve.w_ec (errors o) = Some ec ->
    py_pos (length (status s)) t = Some p -> feasible d (length (status s)) p = false ->
    w_solve_t fm d o t s = (s, Raise IndexError).
  Proof. exact (fortran_infeasible_rejected num sub absf ltb isfin zero evf fm d o t s p ec). Qed.

  (* the other up-front rejections of the Fortran wrapper: nothing changes *)
  Theorem C04_fortran_rejected_min_gt_max_no_change (fm : FSolve.fmod) d o t s :
    max_iter o < min_iter o -> w_solve_t fm d o t s = (s, Raise ValueError).
  Proof. exact (fortran_rejected_min_gt_max num sub absf ltb isfin zero evf fm d o t s). Qed.

  Theorem C04_fortran_rejected_offset_out_of_span_no_change (fm : FSolve.fmod) d o t s p ec :
    min_iter o <= max_iter o -> FSolve.w_ec (errors o) = Some ec ->
    py_pos (length (status s)) t = Some p -> feasible d (length (status s)) p = true ->
    offset o <> 0 ->
    (Z.of_nat p + offset o < 0 \/ Z.of_nat (length (status s)) <= Z.of_nat p + offset o) ->
    w_solve_t fm d o t s = (s, Raise IndexError).
  Proof. exact (fortran_rejected_offset_out_of_span num sub absf ltb isfin zero evf fm d o t s p ec). Qed.

  (* FortranEngine._evaluate(t): every t that is outside the span or leaves no room for the lags / leads is answered
     with IndexError by the explicit index tests (codes 11 - 14) and the instance is left exactly as it was *)
  Theorem C04_fortran_evaluate_infeasible_rejected (fm : FSolve.fmod) d t (s : mstate num) n :
    FSolve.fm_lags fm = Z.of_nat (lags d) -> FSolve.fm_leads fm = Z.of_nat (leads d) ->
    FSem.ncols_of num (vals_of s) = Z.of_nat n ->
    (py_pos n t = None \/ exists p, py_pos n t = Some p /\ feasible d n p = false) ->
    FSolve.w_evaluate num evf fm t s = (s, Raise IndexError).
  Proof. exact (fortran_evaluate_infeasible_rejected num evf fm d t s n). Qed.

  (* THE FRAME THEOREM OF THE FORTRAN ENGINE: for every equations block that writes only inside W (and keeps the array
     lengths), every option set, both spellings of t, feasible or not, FortranEngine.solve_t changes no value cell
     outside W and the endogenous rows (instance list: the wrapper's offset copy; module list: the compiled copy and the
     zeroing under errors='replace') of period p; status and iterations change at p only; no hook event is added *)
  Theorem C04_fortran_solve_t_frame (fm : FSolve.fmod) d o t s p (W : nat -> nat -> Prop) :
    py_pos (length (status s)) t = Some p ->
    hd 0%nat (shape (vals_of s)) = length (status s) ->
    (forall r, In r (FSolve.fm_endo fm) -> 1 <= r <= Z.of_nat (length (vals_of s))) ->
    (forall v, shape v = shape (vals_of s) -> agree_outside W v (evf (Z.of_nat p + 1) v)) ->
    let s' := fst (w_solve_t fm d o t s) in
    agree_outside (fun i j => W i j \/ ((In i (endo d) \/ In (Z.of_nat i + 1) (FSolve.fm_endo fm)) /\ j = p)) (vals_of s) (vals_of s') /\
    sf_frame p s s' /\ log s' = log s.
  Proof. exact (fortran_solve_t_frame num sub absf ltb isfin zero evf fm d o t s p W). Qed.

  (* FortranEngine.solve() over the positions ps (inside the span): for every equations block that, called for an
     in-range column idx, writes only inside W idx — values change only inside W idx or in the module's endogenous rows
     of a VISITED column; status / iterations change at visited positions only; no hook event *)
  Theorem C04_fortran_solve_frame (fm : FSolve.fmod) (sh : list nat) (W : Z -> nat -> nat -> Prop) :
    (forall r, In r (FSolve.fm_endo fm) -> 1 <= r <= Z.of_nat (length sh)) ->
    (forall idx v, 1 <= idx <= Z.of_nat (hd 0%nat sh) -> shape v = sh -> agree_outside (W idx) v (evf idx v)) ->
    forall d o fl (ps : list nat) (s : mstate num),
    shape (vals_of s) = sh ->
    (forall p, In p ps -> (p < hd 0%nat sh)%nat) ->
    let s' := fst (FSolve.w_solve num sub absf ltb isfin zero evf fm d o fl ps s) in
    agree_outside (fun i j => exists idx, In idx (map (fun p => Z.of_nat p + 1) ps) /\
                       (W idx i j \/ (In (Z.of_nat i + 1) (FSolve.fm_endo fm) /\ j = Z.to_nat (idx - 1))))
                  (vals_of s) (vals_of s') /\
    log s' = log s /\ length (status s') = length (status s) /\ length (iters s') = length (iters s) /\
    (forall q, ~ In q ps -> nth_error (status s') q = nth_error (status s) q /\ nth_error (iters s') q = nth_error (iters s) q).
  Proof. exact (fortran_solve_frame num sub absf ltb isfin zero evf fm sh W). Qed.
End C04_fortran.

(* ---- ... and the generated {equations} block (model Fortran/FSem.f_pass: every program over the Fortran-side syntax tree) ---- *)
Section C04_fortran_parsed.
  Variable num : Type.
  Variables (add sub mul div : num -> num -> num) (neg absf : num -> num) (ltb : num -> num -> bool).
  Variable of_int : Z -> num.
  Variables (fexp flog : num -> num) (fpow : num -> num -> num).
  Variable round4 : num -> num.
  Variables (exp4 log4 : num -> num) (pow4 : num -> num -> num).
  Variables (zero one : num).
  Variable isfin : num -> bool.
  Notation f_pass := (FSem.f_pass num add sub mul div neg absf ltb of_int fexp flog fpow round4 exp4 log4 pow4 zero one).

  (* the compiled statements write only solved_values(number of the left-hand variable, index) *)
  Theorem C04_fortran_equations_block_writes_only_lhs (sh : list nat) (idx : Z) (prog : list (FSem.eqn num)) (v : vals num) :
    1 <= idx <= Z.of_nat (hd 0%nat sh) ->
    (forall i e, In (i, e) prog -> (i < length sh)%nat) ->
    shape v = sh ->
    agree_outside (fun i j => (exists e, In (i, e) prog) /\ j = Z.to_nat (idx - 1)) v (f_pass prog idx v).
  Proof. exact (f_pass_frame num add sub mul div neg absf ltb of_int fexp flog fpow round4 exp4 log4 pow4 zero one sh idx prog v). Qed.

  (* FortranEngine.solve_t of ANY generated program, all options, both spellings of t, feasible or not: no value outside
     column p changes, inside it only left-hand-side / endogenous rows; status / iterations at p only; no hook event *)
  Theorem C04_fortran_parsed_solve_t_touches_only_t (prog : list (FSem.eqn num)) (fm : FSolve.fmod) d o t s p :
    py_pos (length (status s)) t = Some p ->
    hd 0%nat (shape (vals_of s)) = length (status s) ->
    (forall r, In r (FSolve.fm_endo fm) -> 1 <= r <= Z.of_nat (length (vals_of s))) ->
    (forall i e, In (i, e) prog -> (i < length (vals_of s))%nat) ->
    let s' := fst (FSolve.w_solve_t num sub absf ltb isfin zero (f_pass prog) fm d o t s) in
    agree_outside (fun i j => ((exists e, In (i, e) prog) \/ In i (endo d) \/ In (Z.of_nat i + 1) (FSolve.fm_endo fm)) /\ j = p)
                  (vals_of s) (vals_of s') /\
    sf_frame p s s' /\ log s' = log s.
  Proof. exact (fortran_parsed_solve_t_touches_only_t num add sub mul div neg absf ltb of_int fexp flog fpow round4 exp4 log4 pow4 zero one isfin prog fm d o t s p). Qed.

  (* ... and FortranEngine.solve() of ANY generated program: only visited columns, only left-hand / endogenous rows *)
  Theorem C04_fortran_parsed_solve_touches_only_visited (prog : list (FSem.eqn num)) (fm : FSolve.fmod) d o fl (ps : list nat) (s : mstate num) :
    (forall r, In r (FSolve.fm_endo fm) -> 1 <= r <= Z.of_nat (length (vals_of s))) ->
    (forall i e, In (i, e) prog -> (i < length (vals_of s))%nat) ->
    (forall p, In p ps -> (p < hd 0%nat (shape (vals_of s)))%nat) ->
    let s' := fst (FSolve.w_solve num sub absf ltb isfin zero (f_pass prog) fm d o fl ps s) in
    agree_outside (fun i j => In j ps /\ ((exists e, In (i, e) prog) \/ In (Z.of_nat i + 1) (FSolve.fm_endo fm))) (vals_of s) (vals_of s') /\
    log s' = log s /\ length (status s') = length (status s) /\ length (iters s') = length (iters s) /\
    (forall q, ~ In q ps -> nth_error (status s') q = nth_error (status s) q /\ nth_error (iters s') q = nth_error (iters s) q).
  Proof. exact (fortran_parsed_solve_touches_only_visited num add sub mul div neg absf ltb of_int fexp flog fpow round4 exp4 log4 pow4 zero one isfin prog fm d o fl ps s). Qed.
End C04_fortran_parsed.

(* ============ Part C: witnesses on IEEE binary64 ============ *)
(* finding #3 (still present in the code): rejected for pre-existing non-finite values, yet period t was overwritten *)
Theorem C04_rejected_preexisting_after_offset_refuted :
  exists (prog : fprogram) d o t s,
    errors o = ERaise /\ offset o <> 0 /\
    snd (f_solve_t_P [] prog d o t s) = Raise (SolutionError None) /\
    log (fst (f_solve_t_P [] prog d o t s)) = log s /\
    nth_error (nth 0 (vals_of s) []) 2 = Some 3%float /\
    nth_error (nth 0 (vals_of (fst (f_solve_t_P [] prog d o t s))) []) 2 = Some nan.
Proof. exact rejected_preexisting_after_offset_refuted. Qed.

(* why the guard is needed: the evaluation pass alone, at a period without room for the lag, is served the LAST period *)
Theorem C04_infeasible_eval_pass_wraps :
  exists (prog : fprogram) (n : nat) (t : Z) (p : nat) (v : vals float) (a : access),
    wf_vals n v /\ py_pos n t = Some p /\ (p < prog_lags float prog)%nat /\
    In a (snd (f_eval_pass [] false prog t v)) /\
    acc_req a = t + (-1) /\ acc_srv a = Some (n - 1)%nat /\ access_ok n t p a = false.
Proof. exact infeasible_eval_pass_wraps. Qed.

(* the guard is necessary: user-lowered lags.  A user who assigns model.lags (or model.leads) below the deepest lag (furthest
   lead) of the equations has redefined "the model's lags" — fsic honours the instance attribute, which is not a defect — and
   then the period IS served, Y[t-1] is served the LAST period and the result is stamped solved.  This witness shows that the
   premise prog_lags <= lags d (prog_leads <= leads d) of the positive theorems above cannot be dropped. *)
Theorem C04_lowered_instance_lags_refuted :
  exists (prog : fprogram) d o t s p (a : access),
    (lags d < prog_lags float prog)%nat /\
    py_pos (length (status s)) t = Some p /\ (p < prog_lags float prog)%nat /\
    snd (f_solve_t_P [] prog d o t s) = Ret true /\
    In a (snd (f_eval_pass [] true prog t (vals_of s))) /\ acc_req a = t + (-1) /\
    acc_srv a = Some (length (status s) - 1)%nat /\
    nth_error (nth 0 (vals_of s) []) 0 = Some 1%float /\
    nth_error (nth 0 (vals_of (fst (f_solve_t_P [] prog d o t s))) []) 0 = Some 3%float.
Proof. exact lowered_instance_lags_refuted. Qed.


Print Assumptions C04_rejected_min_gt_max_no_change.
Print Assumptions C04_rejected_offset_out_of_span_no_change.
Print Assumptions C04_rejected_preexisting_nonfinite_no_change.
Print Assumptions C04_rejected_preexisting_nonfinite_after_offset.
Print Assumptions C04_infeasible_period_rejected.
Print Assumptions C04_out_of_span_no_change.
Print Assumptions C04_solve_t_frame.
Print Assumptions C04_eval_pass_writes_only_lhs.
Print Assumptions C04_parsed_ev_frame.
Print Assumptions C04_solve_t_touches_only_assigned_cells.
Print Assumptions C04_ordinary_equations_touch_only_t.
Print Assumptions C04_unassigned_rows_unchanged.
Print Assumptions C04_reads_in_span.
Print Assumptions C04_rhs_depends_only_on_its_terms.
Print Assumptions C04_reads_served_eq_requested.
Print Assumptions C04_feasible_pass_no_index_error.
Print Assumptions C04_monitored_solve_t_eq.
Print Assumptions C04_solve_seq_frame.
Print Assumptions C04_default_positions_feasible.
Print Assumptions C04_eval_pass_gauss_seidel.
Print Assumptions C04_rejected_preexisting_after_offset_refuted.
Print Assumptions C04_infeasible_eval_pass_wraps.
Print Assumptions C04_solve_entry_infeasible_start_rejected.
Print Assumptions C04_solve_entry_over_infeasible_raises.
Print Assumptions C04_solve_loop_first_infeasible_raises_IndexError.
Print Assumptions C04_solver_own_accesses_no_wrap.
Print Assumptions ex_end_infeasible_hyps.
Print Assumptions C04_no_event_no_change_or_finding3.
Print Assumptions C04_no_event_no_change.
Print Assumptions C04_solve_seq_frame_feasible.
Print Assumptions C04_solve_default_range_frame.
Print Assumptions C04_history_frame.
Print Assumptions C04_history_unassigned_rows_unchanged.
Print Assumptions C04_linker_solve_t_values_frame.
Print Assumptions C04_linker_parsed_solve_t_cells.
Print Assumptions C04_linker_solve_t_seed_then_frame.
Print Assumptions C04_linker_rejected_min_gt_max_no_change.
Print Assumptions C04_linker_infeasible_period_rejected.
Print Assumptions C04_linker_parsed_solve_t_cells_feasible.
Print Assumptions exL_infeasible.
Print Assumptions ex_history_run.
Print Assumptions exL_hyps.
Print Assumptions C04_solve_period_touches_only_its_period.
Print Assumptions C04_solve_period_bad_label_no_change.
Print Assumptions C04_solve_period_monitored_eq.
Print Assumptions C04_solve_period_every_span_touches_only_its_period.
Print Assumptions C04_solve_every_span_default_range_frame.
Print Assumptions C04_lowered_instance_lags_refuted.
Print Assumptions ex_span_nodup.
Print Assumptions C04_solve_entry_default_range_frame.
Print Assumptions C04_solve_entry_monitored_eq.
Print Assumptions C04_fortran_infeasible_rejected.
Print Assumptions C04_fortran_rejected_min_gt_max_no_change.
Print Assumptions C04_fortran_rejected_offset_out_of_span_no_change.
Print Assumptions exF_infeasible_rejected.
Print Assumptions C04_fortran_evaluate_infeasible_rejected.
Print Assumptions C04_fortran_solve_t_frame.
Print Assumptions C04_fortran_solve_frame.
Print Assumptions C04_fortran_parsed_solve_touches_only_visited.
Print Assumptions C04_fortran_equations_block_writes_only_lhs.
Print Assumptions C04_fortran_parsed_solve_t_touches_only_t.
Print Assumptions ex_hyps_satisfiable.
Print Assumptions exF_hyps.
Print Assumptions ex_entry_hyps.
Print Assumptions ex_entry_locate_ok.
Print Assumptions ex_ordinary.
Print Assumptions exF_frame_hyps.
Print Assumptions exF_parsed_hyps.
Print Assumptions exF_parsed_solve_hyps.
