(* Props/C16.v — the audited surface for property C16 (eval() and the time-series helpers).
   Statements only; every proof is `exact <lemma>`; Print Assumptions at the end.

   Models: Funcs/Funcs.v     fsic/functions.py: shift/lag/lead/diff/dlog, value level and array-object level;
           Funcs/FuncsConv.v the same with NumPy's cast of fill_value to the array dtype made explicit;
           Funcs/EvalIdx.v   containers.py: _resolve_expression_indexes (the regular expression, the callback, int()/str())
                             and eval() (rewriting only with a backtick, namespace assembly, NameError -> AttributeError);
           Locate/Locate.v   (property C10's model) for the tie to label indexing.
   Kept findings mirrored by the models, each with a `_refuted` witness and the guarded statements:
     NEW  a label that does not stand alone in its bracket            C16_label_in_nested_bracket_refuted, C16_label_slice_across_lines_refuted
     NEW  a label slice with a negative step is not inclusive         C16_label_slice_negative_step_refuted
     NEW  defined names invisible in nested scopes of the expression  C16_defined_name_in_nested_scope_refuted (CPython's
          scoping is outside the model: the oracle carries it)
     NEW  labels that are neither str nor int (float, tuple, date objects) cannot be written between backticks: the model's
          labels are str / int, so this finding has no theorem; it is carried by the oracle (ASSUMPTIONS)
     (integer / bool / TEXT arrays: the fill value is cast to the array dtype — C16_int_array_nan_fill_refuted for int64;
      bool and text arrays by the oracle)
   WHAT THE MODEL DOES NOT SAY (reviewer-E 3): CPython's evaluation of the final text is the Section variable
     pyeval : string -> ns V -> pyres V, a PURE function of the text and the namespace.  "eval() never alters the container or
     the helper table" (C16_eval_pure, C16_eval_has_no_memory, snd (fst r) = vars) is therefore a statement about eval()'s OWN
     code — deep copy of the table, update of the working dict only — for expressions WITHOUT side effects; an expression such
     as X.fill(0), or _builtins.update(...) reached through the module-global leak, is excluded by that type, not by a
     hypothesis (harness ASSUMPTIONS says the same).  `vars` stands for {x: self[x] for x in self.index}: exactly the names of
     the container's index, each bound to the series object itself (no copy); an AliasMixin alias is NOT a name of the index and
     is not bound (checked by the harness, kind `model`).  Theorems that merely unfold a definition and are not counted as
     covering a clause: C16_lead_eq_lag_neg, C16_dlog_eq_diff_log, C16_eval_text_is_rewrite (after rewrite_no_tick_identity),
     C16_eval_undefined_name (the definition of convert), C16_namespace_precedence (a fact about dict.update).
   Repaired since round 1 and now proved positively: #15 (fix 24bdfbd) — C16_positional_brackets_untouched; the integer end of
   a mixed slice (fix 967c56d) — C16_mixed_slice_rewrite, C16_mixed_slice_integer_end_keeps_its_meaning.
     #26  diff(x, 0) = x                                               C16_diff_zero_formula_refuted
     NEW  labels with colon / closing bracket / edge backtick          C16_label_with_colon_refuted, C16_label_with_bracket_or_edge_backtick_refuted
     NEW  module globals / Python builtins visible to the expression   C16_undefined_name_leak_refuted
     NEW  integer arrays: the default fill NaN raises                  C16_int_array_nan_fill_refuted *)
From Coq Require Import ZArith List Bool String Ascii.
Import ListNotations.
Require Import PyBase Funcs FuncsFacts FuncsExamples FuncsFacts2 FuncsExamples2 FuncsConv FuncsConvFacts EvalIdx EvalIdxFacts EvalIdxExamples EvalIdxWhole EvalIdxWholeExamples EvalIdxMixed EvalIdxLocate EvalIdxLocateExamples EvalIdxProgram EvalIdxProgramExamples EvalIdxProgram2 EvalIdxProgram3 EvalIdxLocateSpans EvalIdxLocateRange EvalIdxInt EvalIdxGuards EvalIdxNested EvalIdxHistory EvalIdxNegStep.
Require Fsic.Locate.Locate Fsic.Locate.LocateFacts.
Open Scope string_scope.
Open Scope Z_scope.

(* ====================================================================== the helpers *)
Section C16_helpers.
  (* any element type, any elementwise subtraction, any log *)
  Variable A : Type.
  Variable sub : A -> A -> A.
  Variable logf : A -> A.

  (* lag(x,p)[i] = x[i-p] where i-p lies inside the array and fill_value elsewhere — every List.length, every integer p
     (|p| may exceed the List.length; p = 0 and p < 0 included) *)
  Theorem C16_lag_spec (x : list A) (p : Z) (fill d : A) (i : nat) :
    (i < List.length x)%nat ->
    nth i (lag_v A x p fill) d =
      if (0 <=? Z.of_nat i - p) && (Z.of_nat i - p <? Z.of_nat (List.length x))
      then nth (Z.to_nat (Z.of_nat i - p)) x d else fill.
  Proof. exact (lag_spec A x p fill d i). Qed.

  Theorem C16_lag_out_of_range_is_all_fill (x : list A) (p : Z) (fill : A) :
    Z.of_nat (List.length x) <= Z.abs p -> lag_v A x p fill = repeat fill (List.length x).
  Proof. exact (lag_all_fill A x p fill). Qed.

  (* lead(x,p) = lag(x,-p), as values and as calls on array objects *)
  Theorem C16_lead_eq_lag_neg (x : list A) (p : Z) (fill : A) : lead_v A x p fill = lag_v A x (- p) fill.
  Proof. exact (lead_eq_lag_neg A x p fill). Qed.

  Theorem C16_lead_object_eq_lag_neg (h : heap A) (lx : nat) (p : Z) (fill : A) : lead_H A h lx p fill = lag_H A h lx (- p) fill.
  Proof. exact (lead_H_eq_lag_H_neg A h lx p fill). Qed.

  Theorem C16_lead_spec (x : list A) (p : Z) (fill d : A) (i : nat) :
    (i < List.length x)%nat ->
    nth i (lead_v A x p fill) d =
      if (0 <=? Z.of_nat i + p) && (Z.of_nat i + p <? Z.of_nat (List.length x))
      then nth (Z.to_nat (Z.of_nat i + p)) x d else fill.
  Proof. exact (lead_spec A x p fill d i). Qed.

  (* diff(x,d)[i] = x[i] - x[i-d] for i >= d > 0 and fill_value before; same List.length *)
  Theorem C16_diff_spec (x : list A) (d0 : Z) (fill dflt : A) (i : nat) :
    0 < d0 -> (i < List.length x)%nat ->
    exists r, diff_v A sub x d0 fill = Ret r /\ List.length r = List.length x /\
      nth i r dflt = if Z.of_nat i <? d0 then fill
                     else sub (nth i x dflt) (nth (Z.to_nat (Z.of_nat i - d0)) x dflt).
  Proof. exact (diff_spec A sub x d0 fill dflt i). Qed.

  (* d = 0: the input itself (finding #26: not the zeros the stated formula gives — see C16_diff_zero_formula_refuted) *)
  Theorem C16_diff_zero_is_identity (x : list A) (fill : A) : diff_v A sub x 0 fill = Ret x.
  Proof. exact (diff_zero_is_identity A sub x fill). Qed.

  Theorem C16_diff_negative_not_implemented (x : list A) (d0 : Z) (fill : A) :
    d0 < 0 -> diff_v A sub x d0 fill = Raise NotImplementedError.
  Proof. exact (diff_negative_not_implemented A sub x d0 fill). Qed.

  (* dlog(x,d) = diff(log x, d) *)
  Theorem C16_dlog_eq_diff_log (x : list A) (d0 : Z) (fill : A) : dlog_v A sub logf x d0 fill = diff_v A sub (map logf x) d0 fill.
  Proof. exact (dlog_eq_diff_log A sub logf x d0 fill). Qed.

  Theorem C16_dlog_spec (x : list A) (d0 : Z) (fill dflt : A) (i : nat) :
    0 < d0 -> (i < List.length x)%nat ->
    exists r, dlog_v A sub logf x d0 fill = Ret r /\ List.length r = List.length x /\
      nth i r (logf dflt) = if Z.of_nat i <? d0 then fill
                     else sub (logf (nth i x dflt)) (logf (nth (Z.to_nat (Z.of_nat i - d0)) x dflt)).
  Proof. exact (dlog_spec A sub logf x d0 fill dflt i). Qed.

  (* results have the input's List.length *)
  Theorem C16_shift_length_preserved (x : list A) (p : Z) (fill : A) : List.length (shift_v A x p fill) = List.length x.
  Proof. exact (shift_length A x p fill). Qed.

  Theorem C16_diff_length_preserved (x : list A) (d0 : Z) (fill : A) (r : list A) :
    diff_v A sub x d0 fill = Ret r -> List.length r = List.length x.
  Proof. exact (diff_length A sub x d0 fill r). Qed.

  (* array objects: lag/lead on a 1-D array returns an object holding shift_v; every object that existed before the
     call — the argument included — is unchanged; p = 0 returns the ARGUMENT OBJECT ITSELF and allocates nothing,
     p <> 0 returns a freshly allocated object *)
  Theorem C16_shift_object (h : heap A) (lx : nat) (x : list A) (p : Z) (fill : A) :
    nth_error h lx = Some (mkArr 1 x) ->
    exists h' l', shift_H A h lx p fill = (h', Ret l') /\
      ((List.length h <= List.length h')%nat /\ forall l, (l < List.length h)%nat -> nth_error h' l = nth_error h l) /\
      nth_error h' l' = Some (mkArr 1 (shift_v A x p fill)) /\
      (p = 0 -> l' = lx /\ h' = h) /\
      (p <> 0 -> l' = List.length h /\ List.length h' = S (List.length h)).
  Proof. exact (shift_H_sound A h lx x p fill). Qed.

  Theorem C16_diff_object (h : heap A) (lx : nat) (x : list A) (d0 : Z) (fill : A) :
    nth_error h lx = Some (mkArr 1 x) -> 0 <= d0 ->
    exists h' l' r, diff_H A sub h lx d0 fill = (h', Ret l') /\ diff_v A sub x d0 fill = Ret r /\
      ((List.length h <= List.length h')%nat /\ forall l, (l < List.length h)%nat -> nth_error h' l = nth_error h l) /\
      nth_error h' l' = Some (mkArr 1 r) /\
      (d0 = 0 -> l' = lx /\ h' = h) /\
      (d0 <> 0 -> (List.length h <= l')%nat).
  Proof. exact (diff_H_sound A sub h lx x d0 fill). Qed.

  Theorem C16_dlog_object (h : heap A) (lx : nat) (x : list A) (d0 : Z) (fill : A) :
    nth_error h lx = Some (mkArr 1 x) -> 0 <= d0 ->
    exists h' l' r, dlog_H A sub logf h lx d0 fill = (h', Ret l') /\ dlog_v A sub logf x d0 fill = Ret r /\
      ((List.length h <= List.length h')%nat /\ forall l, (l < List.length h)%nat -> nth_error h' l = nth_error h l) /\
      nth_error h' l' = Some (mkArr 1 r) /\
      (List.length h <= l')%nat.
  Proof. exact (dlog_H_sound A sub logf h lx x d0 fill). Qed.

  (* the input array is never modified: whatever the function, the rank, the shift and the outcome *)
  Theorem C16_helpers_never_modify_existing_arrays (f : fname) (h : heap A) (lx : nat) (p : Z) (fill : A) :
    let h' := fst (call_H A sub logf f h lx p fill) in
    (List.length h <= List.length h')%nat /\ forall l, (l < List.length h)%nat -> nth_error h' l = nth_error h l.
  Proof. exact (helpers_never_modify_existing_arrays A sub logf f h lx p fill). Qed.

  (* arguments that are not 1-D are refused *)
  Theorem C16_shift_rank_refused (h : heap A) (lx : nat) (a : arr A) (p : Z) (fill : A) :
    nth_error h lx = Some a -> rank a <> 1%nat -> shift_H A h lx p fill = (h, Raise NotImplementedError).
  Proof. exact (shift_H_rank A h lx a p fill). Qed.

  Theorem C16_diff_rank_refused (h : heap A) (lx : nat) (a : arr A) (d0 : Z) (fill : A) :
    nth_error h lx = Some a -> rank a <> 1%nat -> diff_H A sub h lx d0 fill = (h, Raise NotImplementedError).
  Proof. exact (diff_H_rank A sub h lx a d0 fill). Qed.

  (* whole-array closed forms: lag = fill block ++ kept block; lead = kept block ++ fill block; diff with d >= length = the
     constant fill array; diff = fill block ++ element-wise differences; dlog likewise on log x *)
  Theorem C16_lag_closed_form (x : list A) (p : nat) (fill : A) :
    (p <= List.length x)%nat -> lag_v A x (Z.of_nat p) fill = (repeat fill p ++ firstn (List.length x - p) x)%list.
  Proof. exact (lag_closed_form A x p fill). Qed.

  Theorem C16_lead_closed_form (x : list A) (p : nat) (fill : A) :
    (p <= List.length x)%nat -> lead_v A x (Z.of_nat p) fill = (skipn p x ++ repeat fill p)%list.
  Proof. exact (lead_closed_form A x p fill). Qed.

  Theorem C16_diff_out_of_range_is_all_fill (x : list A) (d0 : Z) (fill : A) :
    0 < d0 -> Z.of_nat (List.length x) <= d0 -> diff_v A sub x d0 fill = Ret (repeat fill (List.length x)).
  Proof. exact (diff_out_of_range_is_all_fill A sub x d0 fill). Qed.

  Theorem C16_diff_closed_form (x : list A) (d0 : nat) (fill : A) :
    (0 < d0)%nat -> (d0 <= List.length x)%nat ->
    diff_v A sub x (Z.of_nat d0) fill = Ret (repeat fill d0 ++ zip_with A sub (skipn d0 x) (firstn (List.length x - d0) x))%list.
  Proof. exact (diff_closed_form A sub x d0 fill). Qed.

  Theorem C16_dlog_closed_form (x : list A) (d0 : nat) (fill : A) :
    (0 < d0)%nat -> (d0 <= List.length x)%nat ->
    dlog_v A sub logf x (Z.of_nat d0) fill
    = Ret (repeat fill d0 ++ zip_with A sub (skipn d0 (map logf x)) (firstn (List.length x - d0) (map logf x)))%list.
  Proof. exact (dlog_closed_form A sub logf x d0 fill). Qed.
End C16_helpers.

(* ---- the cast of fill_value to the array's dtype (`shifted[:p] = fill_value`): conv = NumPy's cast, F = Python fill values ---- *)
Section C16_fill_cast.
  Variable A F : Type.
  Variable sub : A -> A -> A.
  Variable logf : A -> A.
  Variable conv : F -> outcome A.

  (* the cast succeeds: the call behaves as the helper of the theorems above with the CAST value as fill *)
  Theorem C16_fill_cast_ok (fn : fname) (h : heap A) (lx : nat) (p : Z) (f : F) (v : A) :
    conv f = Ret v -> call_Hc A F sub logf conv fn h lx p f = call_H A sub logf fn h lx p v.
  Proof. exact (call_Hc_ok A F sub logf conv fn h lx p f v). Qed.

  (* the cast fails: lag/lead with p <> 0 and diff with d > 0 raise the cast's exception, whatever the array's length *)
  Theorem C16_shift_fill_cast_error (h : heap A) (lx : nat) (x : list A) (p : Z) (f : F) (e : exn) :
    nth_error h lx = Some (mkArr 1 x) -> p <> 0 -> conv f = Raise e -> snd (shift_Hc A F conv h lx p f) = Raise e.
  Proof. exact (shift_Hc_cast_error A F conv h lx x p f e). Qed.

  Theorem C16_diff_fill_cast_error (h : heap A) (lx : nat) (x : list A) (d0 : Z) (f : F) (e : exn) :
    nth_error h lx = Some (mkArr 1 x) -> 0 < d0 -> conv f = Raise e -> snd (diff_Hc A F sub conv h lx d0 f) = Raise e.
  Proof. exact (diff_Hc_cast_error A F sub conv h lx x d0 f e). Qed.

  (* p = 0 / d = 0: no assignment is reached, the fill value is never looked at *)
  Theorem C16_shift_zero_ignores_fill (h : heap A) (lx : nat) (x : list A) (f : F) :
    nth_error h lx = Some (mkArr 1 x) -> shift_Hc A F conv h lx 0 f = (h, Ret lx).
  Proof. exact (shift_Hc_zero A F conv h lx x f). Qed.

  Theorem C16_diff_zero_ignores_fill (h : heap A) (lx : nat) (x : list A) (f : F) :
    nth_error h lx = Some (mkArr 1 x) -> diff_Hc A F sub conv h lx 0 f = (h, Ret lx).
  Proof. exact (diff_Hc_zero A F sub conv h lx x f). Qed.

  (* whatever the cast does, no existing array is modified *)
  Theorem C16_helpers_with_cast_never_modify_existing_arrays (fn : fname) (h : heap A) (lx : nat) (p : Z) (f : F) :
    let h' := fst (call_Hc A F sub logf conv fn h lx p f) in
    (List.length h <= List.length h')%nat /\ forall l, (l < List.length h)%nat -> nth_error h' l = nth_error h l.
  Proof. exact (helpers_c_never_modify_existing_arrays A F sub logf conv fn h lx p f). Qed.
End C16_fill_cast.

(* NEW finding: on an int64 array the default fill NaN makes lag / diff raise ValueError (inf: OverflowError; 1.5 is stored
   as 1): the result does not hold fill_value where i-p falls outside the array.  The argument is untouched all the same. *)
Theorem C16_int_array_nan_fill_refuted :
  exists (x : list Z) (p : Z),
    o_res Z (observe_c Z pyfill Z.sub (fun z => z) conv_int64 FLag 1 x p PFNan) = Raise ValueError /\
    o_res Z (observe_c Z pyfill Z.sub (fun z => z) conv_int64 FDiff 1 x p PFNan) = Raise ValueError /\
    o_res Z (observe_c Z pyfill Z.sub (fun z => z) conv_int64 FLag 1 x p PFInf) = Raise OverflowError /\
    o_res Z (observe_c Z pyfill Z.sub (fun z => z) conv_int64 FLag 1 x p (PFFrac 1)) = Ret [1; 10; 20] /\
    o_input_after Z (observe_c Z pyfill Z.sub (fun z => z) conv_int64 FLag 1 x p PFNan) = x.
Proof. exact int_array_nan_fill_refuted. Qed.

(* finding #26: the statement's formula taken literally at d = 0 (x[i] - x[i-0] = 0) is false of the code *)
Theorem C16_diff_zero_formula_refuted :
  exists (x : list Z) (fill dflt : Z) (i : nat),
    (i < List.length x)%nat /\ 0 <= Z.of_nat i - 0 /\
    exists r, diff_v Z Z.sub x 0 fill = Ret r /\
      nth i r dflt <> Z.sub (nth i x dflt) (nth (Z.to_nat (Z.of_nat i - 0)) x dflt).
Proof. exact diff_zero_formula_refuted. Qed.

(* ====================================================================== index rewriting *)
(* int(str(z)) = z: the integers the rewriter writes are read back by Python as the same integers *)
Theorem C16_int_of_str_roundtrip (z : Z) : parse_pyint (Z_to_string z) = Some z.
Proof. exact (parse_pyint_Z_to_string z). Qed.

(* the two readings of an integer text: parse_pyint s = int(s.strip()) (brackets without backtick), parse_int_raw s = int(s)
   (the text between backticks).  int() skips fewer characters than str.strip(): what it accepts, int(strip()) accepts with the
   same value; the converse fails (ASCII unit separator: stripped by str.strip(), refused by int()) *)
Theorem C16_int_accepts_implies_int_of_strip_accepts (s : string) (z : Z) : parse_int_raw s = Some z -> parse_pyint s = Some z.
Proof. exact (parse_int_raw_implies_parse_pyint s z). Qed.

Theorem C16_int_of_strip_accepts_more :
  parse_pyint ("1" ++ String (ascii_of_nat 31) "") = Some 1 /\ parse_int_raw ("1" ++ String (ascii_of_nat 31) "") = None.
Proof. exact parse_pyint_not_raw. Qed.

(* the slice [pa : pb+1 : s] selects exactly pa, pa+s, ... up to and including pb (C10's inclusive label slice);
   nothing if pb < pa; open ends mean the ends of the span *)
Theorem C16_inclusive_slice_positions (n pa pb : nat) (s : Z) (q : nat) :
  (pa < n)%nat -> (pb < n)%nat -> 0 < s ->
  (In q (py_slice_positions n (Some (Z.of_nat pa)) (Some (Z.of_nat pb + 1)) s)
   <-> exists i : nat, Z.of_nat q = Z.of_nat pa + Z.of_nat i * s /\ (q <= pb)%nat).
Proof. exact (inclusive_slice_positions n pa pb s q). Qed.

Theorem C16_inclusive_slice_empty_when_reversed (n pa pb : nat) (s : Z) :
  (pa < n)%nat -> (pb < pa)%nat -> 0 < s ->
  py_slice_positions n (Some (Z.of_nat pa)) (Some (Z.of_nat pb + 1)) s = [].
Proof. exact (inclusive_slice_empty_when_reversed n pa pb s). Qed.

Theorem C16_open_start_slice_positions (n pb : nat) (s : Z) (q : nat) : (pb < n)%nat -> 0 < s ->
  (In q (py_slice_positions n None (Some (Z.of_nat pb + 1)) s) <-> exists i : nat, Z.of_nat q = Z.of_nat i * s /\ (q <= pb)%nat).
Proof. exact (open_start_slice_positions n pb s q). Qed.

Theorem C16_open_stop_slice_positions (n pa : nat) (s : Z) (q : nat) : (pa < n)%nat -> 0 < s ->
  (In q (py_slice_positions n (Some (Z.of_nat pa)) None s) <-> exists i : nat, Z.of_nat q = Z.of_nat pa + Z.of_nat i * s /\ (q < n)%nat).
Proof. exact (open_stop_slice_positions n pa s q). Qed.

Section C16_rewrite.
  (* any span: `has` = `period in self.span`, `locate` = self._locate_period_in_span (C10) *)
  Variable has : label -> bool.
  Variable locate : label -> outcome loc.

  (* a backticked label text is looked up as a string first, then after int() (parse_int_raw = CPython's int() on the text
     as it stands between the backticks: int() skips fewer characters than str.strip()) *)
  Local Notation "a '~>' l" :=
    ((has (LStr a) = true /\ locate (LStr a) = Ret l) \/
     (has (LStr a) = false /\ exists z, parse_int_raw a = Some z /\ has (LInt z) = true /\ locate (LInt z) = Ret l))
    (at level 70).
  Local Notation no_tick a := (has_char ch_tick a = false).
  Local Notation no_colon a := (has_char ch_colon a = false).

  (* ---- positional_untouched, under the guard "the expression contains no backtick": the text is unchanged ---- *)
  Theorem C16_positional_untouched_without_backtick (e : string) :
    has_char ch_tick e = false -> eval_text has locate e = Ret e.
  Proof. exact (eval_text_no_backtick has locate e). Qed.

  (* ... and with one only the brackets CONTAINING a backtick are rewritten (fix 24bdfbd): for EVERY string, the rewriter cuts
     it at the matches of \[\s*(.+?)?\s*\] (scan), copies every character outside the matches, copies every match whose
     text holds no backtick VERBATIM, and replaces the others by the callback's text, the leftmost failing one raising *)
  Theorem C16_rewrite_is_piecewise (s : string) : rewrite has locate s = assemble has locate (scan s).
  Proof. exact (rewrite_is_assemble has locate s). Qed.

  (* positional_untouched at full strength: whenever the rewriter succeeds, its output is the concatenation of per-piece
     outputs in which EVERY piece without a backtick — every bracket without a backtick, whatever else the expression
     contains — is the piece itself *)
  Theorem C16_positional_brackets_untouched (s t : string) :
    rewrite has locate s = Ret t ->
    exists ts, Forall2 (fun p u => piece_out has locate p = Ret u) (scan s) ts /\ t = sconcat ts /\
               Forall2 (fun p u => has_char ch_tick (piece_src p) = false -> u = piece_src p) (scan s) ts.
  Proof. exact (rewrite_pieces has locate s t). Qed.

  (* an expression without any backtick is a fixed point of the rewriter (so eval_text e = rewrite e for every e) *)
  Theorem C16_rewrite_without_backtick_is_identity (s : string) : has_char ch_tick s = false -> rewrite has locate s = Ret s.
  Proof. exact (rewrite_no_tick_identity has locate s). Qed.

  Theorem C16_eval_text_is_rewrite (s : string) : eval_text has locate s = rewrite has locate s.
  Proof. exact (eval_text_is_rewrite has locate s). Qed.

  (* ---- the substitution, bracket by bracket (these three equations determine it on every text whose brackets
          are not nested and not empty) ---- *)
  Theorem C16_rewrite_no_bracket (s : string) : has_char ch_open s = false -> rewrite has locate s = Ret s.
  Proof. exact (rewrite_no_bracket has locate s). Qed.

  Theorem C16_rewrite_prefix (pre s : string) :
    has_char ch_open pre = false -> rewrite has locate (pre ++ s) = omap (fun u => pre ++ u) (rewrite has locate s).
  Proof. exact (rewrite_prefix has locate pre s). Qed.

  (* wf_group g: g is non-empty, has no closing bracket and no newline, and neither starts nor ends with whitespace *)
  Theorem C16_rewrite_bracket (ws1 g ws2 post : string) :
    str_all is_re_space ws1 = true -> wf_group g = true -> str_all is_re_space ws2 = true ->
    has_char ch_tick g = true ->
    rewrite has locate ("[" ++ ws1 ++ g ++ ws2 ++ "]" ++ post) =
      match resolve_group has locate g with
      | Raise e => Raise e                                                (* the first failing bracket aborts *)
      | Ret t => omap (fun u => t ++ u) (rewrite has locate post)
      end.
  Proof. exact (rewrite_bracket has locate ws1 g ws2 post). Qed.

  (* the same bracket without a backtick: copied with its brackets and inner whitespace, whatever follows *)
  Theorem C16_rewrite_bracket_verbatim (ws1 g ws2 post : string) :
    str_all is_re_space ws1 = true -> wf_group g = true -> str_all is_re_space ws2 = true ->
    has_char ch_tick g = false ->
    rewrite has locate ("[" ++ ws1 ++ g ++ ws2 ++ "]" ++ post) =
      omap (fun u => ("[" ++ ws1 ++ g ++ ws2 ++ "]") ++ u) (rewrite has locate post).
  Proof. exact (rewrite_bracket_verbatim has locate ws1 g ws2 post). Qed.

  (* `[ws]`: copied (before the fix: AttributeError from None.split) *)
  Theorem C16_rewrite_empty_bracket (ws post : string) :
    str_all is_re_space ws = true -> has_char ch_close post = false ->
    rewrite has locate ("[" ++ ws ++ "]" ++ post) = omap (fun u => ("[" ++ ws ++ "]") ++ u) (rewrite has locate post).
  Proof. exact (rewrite_empty_bracket has locate ws post). Qed.

  (* ---- label_index_rewrite: a backticked label selects exactly C10's position ---- *)
  Theorem C16_label_index_rewrite (a : string) (p n : nat) :
    no_tick a -> no_colon a -> a ~> LocI PyInt (Z.of_nat p) -> (p < n)%nat ->
    resolve_group has locate ("`" ++ a ++ "`") = Ret ("[" ++ Z_to_string (Z.of_nat p) ++ "]") /\
    index_sem n (Z_to_string (Z.of_nat p)) = Some [p].
  Proof. exact (label_index_rewrite has locate a p n). Qed.

  (* whatever the location object is (e.g. a pandas slice), its str() is what is written *)
  Theorem C16_label_index_rewrite_any_location (a : string) (l : loc) :
    no_tick a -> no_colon a -> a ~> l ->
    resolve_group has locate ("`" ++ a ++ "`") = Ret ("[" ++ str_loc l ++ "]").
  Proof. exact (label_index_rewrite_loc has locate a l). Qed.

  (* a label that is not in the span (neither as written nor as an integer): KeyError, never another period *)
  Theorem C16_label_missing_KeyError (a : string) :
    no_tick a -> no_colon a ->
    has (LStr a) = false /\ (parse_int_raw a = None \/ exists z, parse_int_raw a = Some z /\ has (LInt z) = false) ->
    resolve_group has locate ("`" ++ a ++ "`") = Raise KeyError.
  Proof. exact (label_missing_KeyError has locate a). Qed.

  (* a backticked label slice selects C10's positions pos(a) .. pos(b) INCLUSIVE *)
  Theorem C16_label_slice_rewrite (a b : string) (pa pb n : nat) :
    no_tick a -> no_colon a -> a ~> LocI PyInt (Z.of_nat pa) ->
    no_tick b -> no_colon b -> b ~> LocI PyInt (Z.of_nat pb) ->
    exists inner,
      resolve_group has locate (("`" ++ a ++ "`") ++ ":" ++ ("`" ++ b ++ "`")) = Ret ("[" ++ inner ++ "]") /\
      index_sem n inner = Some (py_slice_positions n (Some (Z.of_nat pa)) (Some (Z.of_nat pb + 1)) 1).
  Proof. exact (label_slice_rewrite has locate a b pa pb n). Qed.

  Theorem C16_label_slice_step_rewrite (a b : string) (pa pb : nat) (s : Z) (n : nat) :
    no_tick a -> no_colon a -> a ~> LocI PyInt (Z.of_nat pa) ->
    no_tick b -> no_colon b -> b ~> LocI PyInt (Z.of_nat pb) ->
    0 < s ->
    exists inner,
      resolve_group has locate (("`" ++ a ++ "`") ++ ":" ++ ("`" ++ b ++ "`") ++ ":" ++ Z_to_string s) = Ret ("[" ++ inner ++ "]") /\
      index_sem n inner = Some (py_slice_positions n (Some (Z.of_nat pa)) (Some (Z.of_nat pb + 1)) s).
  Proof. exact (label_slice_step_rewrite has locate a b pa pb s n). Qed.

  Theorem C16_label_slice_open_start_rewrite (b : string) (pb n : nat) :
    no_tick b -> no_colon b -> b ~> LocI PyInt (Z.of_nat pb) ->
    exists inner,
      resolve_group has locate (":" ++ ("`" ++ b ++ "`")) = Ret ("[" ++ inner ++ "]") /\
      index_sem n inner = Some (py_slice_positions n None (Some (Z.of_nat pb + 1)) 1).
  Proof. exact (label_slice_open_start_rewrite has locate b pb n). Qed.

  Theorem C16_label_slice_open_stop_rewrite (a : string) (pa n : nat) :
    no_tick a -> no_colon a -> a ~> LocI PyInt (Z.of_nat pa) ->
    exists inner,
      resolve_group has locate (("`" ++ a ++ "`") ++ ":") = Ret ("[" ++ inner ++ "]") /\
      index_sem n inner = Some (py_slice_positions n (Some (Z.of_nat pa)) None 1).
  Proof. exact (label_slice_open_stop_rewrite has locate a pa n). Qed.

  (* the general form: start = start of the first location; stop = stop of the second, incremented exactly when it is a
     built-in int (a numpy.int64 — the fallback lookup before fix a094259, or the stop of a pandas slice — is NOT) *)
  Theorem C16_label_slice_rewrite_any_location (a b : string) (la lb : loc) :
    no_tick a -> no_colon a -> a ~> la -> no_tick b -> no_colon b -> b ~> lb ->
    resolve_group has locate (("`" ++ a ++ "`") ++ ":" ++ ("`" ++ b ++ "`")) =
      Ret ("[" ++ Z_to_string (snd (start_of la)) ++ ":" ++ Z_to_string (snd (bump (stop_of lb))) ++ ":" ++ "" ++ "]").
  Proof. exact (label_slice_rewrite_any_loc has locate a b la lb). Qed.

  (* ---- MIXED brackets: a slice with a backticked label at one end and a plain text at the other reaches the callback (it holds
          a backtick).  Since fix 967c56d the callback resolves only items holding a label.  Items: MLab a l = `a` resolving
          to l; MPlain p = the plain text p ("" = open end).  m_val: the text written for an item — a label's start / its
          INCLUSIVE stop; a plain item ITSELF (after str.strip()): an integer, an arithmetic expression, a name keep their
          ordinary Python meaning (X[`2001`:3] = X[1:3:], X[`2001`:-1] = X[1:-1:], X[`2001`:n-1] = X[1:n-1:]) ---- *)
  Theorem C16_mixed_slice_rewrite (x y : mpart) :
    m_ok has locate x -> m_ok has locate y ->
    resolve_group has locate (m_text x ++ ":" ++ m_text y) = Ret ("[" ++ m_val x false ++ ":" ++ m_val y true ++ ":" ++ "" ++ "]").
  Proof. exact (mixed_slice_rewrite has locate x y). Qed.

  Theorem C16_mixed_slice_step_rewrite (x y : mpart) (ps : string) :
    m_ok has locate x -> m_ok has locate y -> no_colon ps ->
    resolve_group has locate (m_text x ++ ":" ++ m_text y ++ ":" ++ ps) =
      Ret ("[" ++ m_val x false ++ ":" ++ m_val y true ++ ":" ++ strip is_py_space ps ++ "]").
  Proof. exact (mixed_slice_step_rewrite has locate x y ps). Qed.

  (* label start, integer stop: the integer is an ordinary (exclusive) Python stop *)
  Theorem C16_mixed_label_start_int_stop (a : string) (pa z : Z) (n : nat) :
    no_tick a -> no_colon a -> a ~> LocI PyInt pa ->
    exists inner,
      resolve_group has locate (("`" ++ a ++ "`") ++ ":" ++ Z_to_string z) = Ret ("[" ++ inner ++ "]") /\
      index_sem n inner = Some (py_slice_positions n (Some pa) (Some z) 1).
  Proof. exact (label_start_int_stop has locate a pa z n). Qed.

  (* integer start, label stop: the start as written, the label's position inclusive *)
  Theorem C16_mixed_int_start_label_stop (z : Z) (b : string) (pb : Z) (n : nat) :
    no_tick b -> no_colon b -> b ~> LocI PyInt pb ->
    exists inner,
      resolve_group has locate (Z_to_string z ++ ":" ++ ("`" ++ b ++ "`")) = Ret ("[" ++ inner ++ "]") /\
      index_sem n inner = Some (py_slice_positions n (Some z) (Some (pb + 1)) 1).
  Proof. exact (int_start_label_stop has locate z b pb n). Qed.

  (* a plain item that is no integer literal is copied too (before the fix: ValueError from int()) *)
  Theorem C16_mixed_slice_plain_item_verbatim (a : string) (l : loc) (p : string) :
    no_tick a -> no_colon a -> a ~> l -> no_tick p -> no_colon p ->
    resolve_group has locate (("`" ++ a ++ "`") ++ ":" ++ p) =
      Ret ("[" ++ Z_to_string (snd (start_of l)) ++ ":" ++ strip is_py_space p ++ ":" ++ "" ++ "]").
  Proof. exact (mixed_slice_plain_item_verbatim has locate a l p). Qed.

  (* more than three items: ValueError *)
  Theorem C16_too_many_items (pa pb pc rest : string) :
    no_colon pa -> no_colon pb -> no_colon pc ->
    resolve_group has locate (pa ++ ":" ++ pb ++ ":" ++ pc ++ ":" ++ rest) = Raise ValueError.
  Proof. exact (resolve_group_too_many has locate pa pb pc rest). Qed.

  (* ---- WHOLE expressions: any number of brackets, any text between them.  An expression is cut into segments
          "text without an opening bracket, then a bracket [ ws1 g ws2 ]" (seg_ok: ws1/ws2 regex whitespace, g non-empty
          without closing bracket/newline and not starting/ending with whitespace) followed by a bracket-free tail. ---- *)
  (* seg_out: a bracket with a backtick becomes its callback's text, a bracket without one ITSELF (brackets and whitespace).
     All brackets resolve: every bracket is replaced by its seg_out, everything else is copied verbatim *)
  Theorem C16_whole_expression_rewrite (segs : list seg) (ts : list string) (tail : string) :
    forallb seg_ok segs = true -> has_char ch_open tail = false ->
    Forall2 (fun s t => seg_out has locate s = Ret t) segs ts ->
    rewrite has locate (expr_text segs tail) = Ret (expr_subst segs ts tail).
  Proof. exact (rewrite_whole_ok has locate segs ts tail). Qed.

  (* the leftmost bracket whose callback raises decides the outcome, whatever follows it *)
  Theorem C16_whole_expression_first_error (segs1 : list seg) (ts : list string) (s : seg) (segs2 : list seg) (tail : string) (e : exn) :
    forallb seg_ok (segs1 ++ s :: segs2) = true -> has_char ch_open tail = false ->
    Forall2 (fun s t => seg_out has locate s = Ret t) segs1 ts ->
    seg_out has locate s = Raise e ->
    rewrite has locate (expr_text (segs1 ++ s :: segs2) tail) = Raise e.
  Proof. exact (rewrite_whole_first_error has locate segs1 ts s segs2 tail e). Qed.

  (* EVERY string: the rewriter raises nothing but ValueError, KeyError or what the span lookup itself raises
     (C10: _locate_period_in_span converts everything to KeyError); AttributeError (None.split) is gone with fix 24bdfbd *)
  Theorem C16_rewrite_exceptions (s : string) (e : exn) :
    rewrite has locate s = Raise e ->
    e = ValueError \/ e = KeyError \/ exists l, locate l = Raise e.
  Proof. exact (rewrite_exceptions has locate s e). Qed.

  (* whitespace padding around the index / around each slice item never changes the result *)
  Theorem C16_bracket_padding_ignored_index (w1 p w2 : string) :
    str_all is_py_space w1 = true -> str_all is_py_space w2 = true -> no_colon p ->
    resolve_group has locate (w1 ++ p ++ w2) = resolve_group has locate p.
  Proof. exact (resolve_group_pad1 has locate w1 p w2). Qed.

  Theorem C16_bracket_padding_ignored_slice (w1 pa w2 w3 pb w4 : string) :
    str_all is_py_space w1 = true -> str_all is_py_space w2 = true ->
    str_all is_py_space w3 = true -> str_all is_py_space w4 = true ->
    no_colon pa -> no_colon pb ->
    resolve_group has locate ((w1 ++ pa ++ w2) ++ ":" ++ (w3 ++ pb ++ w4)) = resolve_group has locate (pa ++ ":" ++ pb).
  Proof. exact (resolve_group_pad2 has locate w1 pa w2 w3 pb w4). Qed.

  Theorem C16_bracket_padding_ignored_slice_step (w1 pa w2 w3 pb w4 w5 ps w6 : string) :
    str_all is_py_space w1 = true -> str_all is_py_space w2 = true ->
    str_all is_py_space w3 = true -> str_all is_py_space w4 = true ->
    str_all is_py_space w5 = true -> str_all is_py_space w6 = true ->
    no_colon pa -> no_colon pb -> no_colon ps ->
    resolve_group has locate ((w1 ++ pa ++ w2) ++ ":" ++ ((w3 ++ pb ++ w4) ++ ":" ++ (w5 ++ ps ++ w6)))
    = resolve_group has locate (pa ++ ":" ++ (pb ++ ":" ++ ps)).
  Proof. exact (resolve_group_pad3 has locate w1 pa w2 w3 pb w4 w5 ps w6). Qed.

  (* a backticked label anywhere in an expression is replaced by the location label indexing gives.  Guards on the label:
     no backtick, colon, closing bracket or newline inside it (C16_label_with_colon_refuted shows they are needed) *)
  Theorem C16_label_index_in_expression (pre ws1 a ws2 post : string) (l : loc) :
    has_char ch_open pre = false -> str_all is_re_space ws1 = true -> str_all is_re_space ws2 = true ->
    no_tick a -> no_colon a -> has_char ch_close a = false -> has_char ch_nl a = false ->
    a ~> l ->
    rewrite has locate (pre ++ "[" ++ ws1 ++ ("`" ++ a ++ "`") ++ ws2 ++ "]" ++ post)
    = omap (fun u => pre ++ ("[" ++ str_loc l ++ "]") ++ u) (rewrite has locate post).
  Proof. exact (label_index_in_expression has locate pre ws1 a ws2 post l). Qed.

  Theorem C16_label_missing_in_expression (pre ws1 a ws2 post : string) :
    has_char ch_open pre = false -> str_all is_re_space ws1 = true -> str_all is_re_space ws2 = true ->
    no_tick a -> no_colon a -> has_char ch_close a = false -> has_char ch_nl a = false ->
    has (LStr a) = false /\ (parse_int_raw a = None \/ exists z, parse_int_raw a = Some z /\ has (LInt z) = false) ->
    rewrite has locate (pre ++ "[" ++ ws1 ++ ("`" ++ a ++ "`") ++ ws2 ++ "]" ++ post) = Raise KeyError.
  Proof. exact (label_missing_in_expression has locate pre ws1 a ws2 post). Qed.
End C16_rewrite.

(* every piece of a string is a character, a match `[` ws1 g ws2 `]` (its text contains a backtick exactly when g does) or a
   match `[` ws `]` (never a backtick); the pieces partition the string *)
Theorem C16_scan_partitions (s : string) : sconcat (map piece_src (scan s)) = s.
Proof. exact (scan_partitions s). Qed.

(* fix 967c56d at work (round-3 finding mixed-slice-integer-end, repaired): the integer end of a mixed slice keeps its meaning *)
Theorem C16_mixed_slice_integer_end_keeps_its_meaning :
  let sp := SpanSeq [LInt 2000; LInt 2001; LInt 2002; LInt 2003; LInt 2004] in
  eval_text_span sp "X[`2001`:3]" = Ret "X[1:3:]" /\ index_sem 5 "1:3:" = index_sem 5 "1:3" /\
  eval_text_span sp "X[`2001`:-1]" = Ret "X[1:-1:]" /\ index_sem 5 "1:-1:" = Some [1; 2; 3]%nat /\
  eval_text_span sp "X[`2001`:2-1]" = Ret "X[1:2-1:]" /\
  eval_text_span sp "X[ 1 : `2003` ]" = Ret "X[1:4:]".
Proof. exact mixed_slice_integer_end_keeps_its_meaning. Qed.

(* ---- label slices with a NEGATIVE step.  index_sem_any = Python's reading of an integer-literal subscript for either sign of
        the step (extends index_sem; validated against CPython by the `sem` cases).  The text written does not depend on the step:
        [start : stop+1 : s] — the bounds label indexing uses too (C16_label_slice_step_text_is_C10_bounds has no sign hypothesis),
        so eval() and label indexing agree; but for s < 0 Python walks down from start and stops BEFORE stop+1 ---- *)
Theorem C16_index_sem_any_extends (n : nat) (inner : string) (l : list nat) : index_sem n inner = Some l -> index_sem_any n inner = Some l.
Proof. exact (index_sem_any_extends n inner l). Qed.

Theorem C16_label_slice_neg_step_positions (has : label -> bool) (locate : label -> outcome loc)
        (a b : string) (pa pb : nat) (s : Z) (n q : nat) :
  has_char ch_tick a = false -> has_char ch_colon a = false -> label_resolves has locate a (LocI PyInt (Z.of_nat pa)) ->
  has_char ch_tick b = false -> has_char ch_colon b = false -> label_resolves has locate b (LocI PyInt (Z.of_nat pb)) ->
  s < 0 -> (pa < n)%nat -> (pb < n)%nat ->
  exists inner,
    resolve_group has locate (("`" ++ a ++ "`") ++ ":" ++ ("`" ++ b ++ "`") ++ ":" ++ Z_to_string s) = Ret ("[" ++ inner ++ "]") /\
    exists sel, index_sem_any n inner = Some sel /\
      (In q sel <-> exists i : nat, Z.of_nat q = Z.of_nat pa + Z.of_nat i * s /\ Z.of_nat pb + 1 < Z.of_nat q).
Proof. exact (label_slice_neg_step_positions has locate a b pa pb s n q). Qed.

(* NEW finding (label-slice-negative-step): the periods b and b+1 are missing — the slice is not the inclusive one *)
Theorem C16_label_slice_negative_step_refuted :
  exists (sp : span_model) (e e' inner : string),
    e = "X[`2003`:`2001`:-1]" /\ eval_text_span sp e = Ret e' /\ e' = "X[" ++ inner ++ "]" /\ inner = "3:2:-1" /\
    index_sem_any 5 inner = Some [3]%nat /\
    index_sem_any 5 "3:0:-1" = Some [3; 2; 1]%nat.
Proof. exact label_slice_negative_step_refuted. Qed.

(* NEW finding: a label must stand alone as an item of its bracket.  The regular expression ends a bracket at the FIRST closing
   bracket and takes what precedes as one item, so a label inside a nested subscript or in parentheses is not found (KeyError
   although it is in the span), and a label slice broken across lines is not matched at all: its backticks stay (SyntaxError) *)
Theorem C16_label_in_nested_bracket_refuted :
  exists (sp : span_model) (a : string) (p : Z),
    span_has sp (LInt 2001) = true /\ span_locate sp (LInt 2001) = Ret (LocI PyInt p) /\ a = "2001" /\
    eval_text_span sp ("X[N[`" ++ a ++ "`]]") = Raise KeyError /\
    eval_text_span sp ("X[(`" ++ a ++ "`)]") = Raise KeyError /\
    eval_text_span sp ("X[`" ++ a ++ "`]") = Ret "X[1]".
Proof. exact label_in_nested_bracket_refuted. Qed.

Theorem C16_label_slice_across_lines_refuted :
  exists (sp : span_model) (e : string),
    e = "(X[`2001`:" ++ String ch_nl "`2003`])" /\ eval_text_span sp e = Ret e /\ has_char ch_tick e = true /\
    eval_text_span sp "(X[`2001`:`2003`])" = Ret "(X[1:4:])".
Proof. exact label_slice_across_lines_refuted. Qed.

(* NEW finding: a label that contains a colon is not read as that label — X[`a:b`] on the span [a; a:b; b; ...] is rewritten to
   the label SLICE a..b (positions 0..2) whereas label indexing selects position 1; labels containing a closing bracket or
   starting with a backtick raise KeyError although they are in the span *)
Theorem C16_label_with_colon_refuted :
  exists (sp : span_model) (a : string) (p : nat) (e' : string),
    span_has sp (LStr a) = true /\ span_locate sp (LStr a) = Ret (LocI PyInt (Z.of_nat p)) /\
    has_char ch_tick a = false /\
    eval_text_span sp ("X[`" ++ a ++ "`]") = Ret e' /\
    e' <> "X[" ++ Z_to_string (Z.of_nat p) ++ "]" /\
    e' = "X[0:3:]" /\ index_sem 5 "0:3:" = Some [0; 1; 2]%nat /\ index_sem 5 (Z_to_string (Z.of_nat p)) = Some [1]%nat.
Proof. exact label_with_colon_refuted. Qed.

Theorem C16_label_with_bracket_or_edge_backtick_refuted :
  exists (sp : span_model) (a b : string),
    span_has sp (LStr a) = true /\ span_has sp (LStr b) = true /\
    (exists p, span_locate sp (LStr a) = Ret (LocI PyInt p)) /\ (exists p, span_locate sp (LStr b) = Ret (LocI PyInt p)) /\
    eval_text_span sp ("X[`" ++ a ++ "`]") = Raise KeyError /\
    eval_text_span sp ("X[`" ++ b ++ "`]") = Raise KeyError.
Proof. exact label_with_bracket_or_edge_backtick_refuted. Qed.

(* ====================================================================== the tie to label indexing (the model of property C10) *)
Section C16_label_indexing.
  (* `period in self.span` and `self._locate_period_in_span` are those of the C10 model (Locate/Locate.v) on any of its spans
     (list / range / NumPy array / pandas index with `get_loc` = gl, `__contains__` = ct) *)
  Variable gl : list Locate.label -> Locate.label -> outcome Locate.loc.
  Variable ct : list Locate.label -> Locate.label -> bool.
  Variable sp : Locate.span.

  (* the callback's reading of a backticked text = C10's resolve_bt: the str label if it is in the span, else int(text) *)
  Theorem C16_label_lookup_is_C10_lookup (a : string) :
    has_char ch_tick a = false -> has_char ch_colon a = false ->
    resolve_index (c10_has ct sp) (c10_locate gl sp) ("`" ++ a ++ "`") = omap tr_loc (Locate.resolve_bt gl ct sp (a, parse_int_raw a)).
  Proof. exact (resolve_index_is_resolve_bt gl ct sp a). Qed.

  (* X[`a`:`b`], either end possibly open: the text written carries exactly the bounds C10's eval_slice_bounds computes —
     same bounds, same exception, the start looked up first (otext None = "", otext (Some a) = "`a`") *)
  Theorem C16_label_slice_text_is_C10_bounds (oa ob : option string) :
    opt_ok oa -> opt_ok ob ->
    resolve_group (c10_has ct sp) (c10_locate gl sp) (otext oa ++ ":" ++ otext ob) =
      omap (fun ab => "[" ++ ropt (fst ab) ++ ":" ++ ropt (snd ab) ++ ":" ++ "" ++ "]")
           (Locate.eval_slice_bounds (Locate.resolve_bt gl ct sp) (okey oa) (okey ob)).
  Proof. exact (label_slice_text_is_C10_bounds gl ct sp oa ob). Qed.

  Theorem C16_label_slice_step_text_is_C10_bounds (oa ob : option string) (ps : string) :
    opt_ok oa -> opt_ok ob -> has_char ch_colon ps = false ->
    resolve_group (c10_has ct sp) (c10_locate gl sp) (otext oa ++ ":" ++ otext ob ++ ":" ++ ps) =
      omap (fun ab => "[" ++ ropt (fst ab) ++ ":" ++ ropt (snd ab) ++ ":" ++ strip is_py_space ps ++ "]")
           (Locate.eval_slice_bounds (Locate.resolve_bt gl ct sp) (okey oa) (okey ob)).
  Proof. exact (label_slice_step_text_is_C10_bounds gl ct sp oa ob ps). Qed.

  (* ... and Python reads the written subscript as the slice with those bounds *)
  Theorem C16_label_slice_positions_are_C10_positions (oa ob : option string) (s : Z) (n : nat) (a' b' : option Z) :
    opt_ok oa -> opt_ok ob -> 0 < s ->
    Locate.eval_slice_bounds (Locate.resolve_bt gl ct sp) (okey oa) (okey ob) = Ret (a', b') ->
    exists inner,
      resolve_group (c10_has ct sp) (c10_locate gl sp) (otext oa ++ ":" ++ otext ob ++ ":" ++ Z_to_string s) = Ret ("[" ++ inner ++ "]") /\
      index_sem n inner = Some (py_slice_positions n a' b' s).
  Proof. exact (label_slice_positions_are_C10_positions gl ct sp oa ob s n a' b'). Qed.

  (* ---- expressions as programs over typed brackets (any number of brackets, any bracket-free text between them):
          [`a`] | [`a`:`b`(:s)] with one end possibly open | [g] for ANY g without a backtick.
          b_ok: labels without backtick / colon / closing bracket / newline, steps > 0, g a well-formed group.
          ps_out: what each bracket becomes — a label bracket its b_dst (position / bounds computed by the C10 model),
          any other bracket itself, verbatim. ---- *)
  Theorem C16_bracket_resolves (b : bracket) :
    b_ok b -> is_label_bracket b = true -> resolve_group (c10_has ct sp) (c10_locate gl sp) (b_src b) = b_dst gl ct sp b.
  Proof. exact (bracket_resolves gl ct sp b). Qed.

  Theorem C16_bracket_source_is_well_formed (b : bracket) : b_ok b -> wf_group (b_src b) = true.
  Proof. exact (b_src_wf b). Qed.

  (* the whole expression: every bracket replaced by its C10 text, everything else verbatim *)
  Theorem C16_program_rewrite (prog : list pseg) (ts : list string) (tail : string) :
    Forall pseg_ok prog -> has_char ch_open tail = false ->
    Forall2 (fun p t => ps_out gl ct sp p = Ret t) prog ts ->
    rewrite (c10_has ct sp) (c10_locate gl sp) (program_text prog tail) = Ret (program_subst prog ts tail).
  Proof. exact (program_rewrite gl ct sp prog ts tail). Qed.

  (* the leftmost bracket whose label lookup fails decides the exception *)
  Theorem C16_program_first_error (prog1 : list pseg) (ts : list string) (p : pseg) (prog2 : list pseg) (tail : string) (e : exn) :
    Forall pseg_ok (prog1 ++ p :: prog2)%list -> has_char ch_open tail = false ->
    Forall2 (fun p t => ps_out gl ct sp p = Ret t) prog1 ts ->
    ps_out gl ct sp p = Raise e ->
    rewrite (c10_has ct sp) (c10_locate gl sp) (program_text (prog1 ++ p :: prog2)%list tail) = Raise e.
  Proof. exact (program_first_error gl ct sp prog1 ts p prog2 tail e). Qed.

  (* what the subscript written for a LABEL bracket selects: the position / the slice bounds the C10 model computes *)
  Theorem C16_bracket_meaning (n : nat) (b : bracket) (inner : string) :
    b_ok b -> is_label_bracket b = true -> b_plain gl ct sp b -> b_inner gl ct sp b = Ret inner ->
    index_sem n inner = b_positions gl ct sp n b.
  Proof. exact (bracket_meaning gl ct sp n b inner). Qed.

  (* every other bracket — BPlain g, ANY text without a backtick — comes out as written: it keeps its Python meaning *)
  Theorem C16_plain_bracket_verbatim (p : pseg) :
    is_label_bracket (ps_b p) = false -> ps_out gl ct sp p = Ret (seg_bracket (to_seg p)).
  Proof. exact (plain_bracket_verbatim gl ct sp p). Qed.

  (* eval()'s first step on a program whose backticks all stand inside its brackets: CPython receives a backtick-free text —
     the program with every bracket replaced (when a backtick occurs) or the text as written (when none does) *)
  Theorem C16_program_eval_text (prog : list pseg) (ts : list string) (tail : string) :
    Forall pseg_ok prog -> has_char ch_open tail = false ->
    Forall (fun p => has_char ch_tick (ps_pre p) = false) prog -> has_char ch_tick tail = false ->
    Forall2 (fun p t => ps_out gl ct sp p = Ret t) prog ts ->
    exists text, eval_text (c10_has ct sp) (c10_locate gl sp) (program_text prog tail) = Ret text /\
                 has_char ch_tick text = false /\
                 (has_char ch_tick (program_text prog tail) = true -> text = program_subst prog ts tail) /\
                 (has_char ch_tick (program_text prog tail) = false -> text = program_text prog tail).
  Proof. exact (program_eval_text gl ct sp prog ts tail). Qed.
End C16_label_indexing.

(* eval() of a program, end to end, on any span of the C10 model: CPython evaluates the backtick-free text in which every
   bracket is replaced by its C10 position text (or the text as written when it has no backtick), in the namespace
   helpers < variables < locals; the container's variables and every other existing dict are unchanged *)
Theorem C16_eval_program
        (V : Type) (gl : list Locate.label -> Locate.label -> outcome Locate.loc) (ct : list Locate.label -> Locate.label -> bool)
        (sp : Locate.span) (pyeval : string -> ns V -> pyres V)
        (dh : dheap V) (tbl : nat) (vars : ns V) (locals : option (ns V)) (bi : option nat)
        (prog : list pseg) (ts : list string) (tail : string) :
  Forall pseg_ok prog -> has_char ch_open tail = false ->
  Forall (fun p => has_char ch_tick (ps_pre p) = false) prog -> has_char ch_tick tail = false ->
  Forall2 (fun p t => ps_out gl ct sp p = Ret t) prog ts ->
  (forall l, bi = Some l -> (l < List.length dh)%nat) ->
  let r := eval_M V (c10_has ct sp) (c10_locate gl sp) pyeval dh tbl vars (program_text prog tail) locals bi in
  exists text,
    snd r = convert V (pyeval text (ns_update V (ns_update V (base_dict V dh tbl bi) vars) (locals_ns V locals))) /\
    has_char ch_tick text = false /\
    (has_char ch_tick (program_text prog tail) = true -> text = program_subst prog ts tail) /\
    (has_char ch_tick (program_text prog tail) = false -> text = program_text prog tail) /\
    snd (fst r) = vars /\
    (forall l', (l' < List.length dh)%nat -> bi <> Some l' -> dict_at V (fst (fst r)) l' = dict_at V dh l').
Proof. exact (eval_program V gl ct sp pyeval dh tbl vars locals bi prog ts tail). Qed.

(* the concrete spans on which the correspondence check compares the rewriter with fsic (lists / unique pandas indexes: SpanSeq;
   NumPy arrays: SpanArr) ARE spans of the C10 model seen through the bridge: what K validates is the function the theorems
   above speak about (tr_label maps str / int labels to the C10 model's labels) *)
Theorem C16_checked_list_span_is_C10_span
        (gl : list Locate.label -> Locate.label -> outcome Locate.loc) (ct : list Locate.label -> Locate.label -> bool)
        (ls : list label) (s : string) :
  eval_text_span (SpanSeq ls) s
  = eval_text (c10_has ct (Locate.SList (map tr_label ls))) (c10_locate gl (Locate.SList (map tr_label ls))) s.
Proof. exact (eval_text_seq_is_c10 gl ct ls s). Qed.

(* range(a, a+n): the list of its integer labels vs the C10 model's arithmetic range.index *)
Theorem C16_checked_range_span_is_C10_span
        (gl : list Locate.label -> Locate.label -> outcome Locate.loc) (ct : list Locate.label -> Locate.label -> bool)
        (a : Z) (n : nat) (s : string) :
  eval_text_span (SpanSeq (map (fun i => LInt (a + Z.of_nat i)) (seq 0 n))) s
  = eval_text (c10_has ct (Locate.SRange a 1 n)) (c10_locate gl (Locate.SRange a 1 n)) s.
Proof. exact (eval_text_range_is_c10 gl ct a n s). Qed.

Theorem C16_checked_numpy_span_is_C10_span
        (gl : list Locate.label -> Locate.label -> outcome Locate.loc) (ct : list Locate.label -> Locate.label -> bool)
        (ls : list label) (s : string) :
  eval_text_span (SpanArr ls PyInt) s
  = eval_text (c10_has ct (Locate.SArr (map tr_label ls))) (c10_locate gl (Locate.SArr (map tr_label ls))) s.
Proof. exact (eval_text_arr_is_c10 gl ct ls s). Qed.

(* NB on the guards of the next theorem (reviewer-E 1).  0 < s: for s < 0 see C16_label_slice_neg_step_positions /
   C16_label_slice_negative_step_refuted above.  NoDup and "the lookup answers built-in ints" are hypotheses of C10's own theorem
   (C10_eval_slice_agrees), which is the last link only: the links proved HERE — C16_label_lookup_is_C10_lookup,
   C16_label_slice_text_is_C10_bounds, C16_label_slice_step_text_is_C10_bounds, C16_label_slice_positions_are_C10_positions — hold
   for repeated labels (list.index / the first match) and for numpy.int64 locations too (bump leaves them alone: equation with
   C10's eval_slice_bounds).  numpy.int64 POSITIONS do not arise on the current tree (fix a094259; pandas get_loc answers built-in
   ints, slice-valued locations are handled on both sides); if they did, eval() and label indexing would differ
   (EvalIdxExamples.ex_numpy_int64_stop_would_be_exclusive).  Spans with repeated labels are exercised by the harness (list:
   first match on both paths; NumPy array: KeyError on both paths). *)
(* eval('X[`a`:`b`:s]') selects exactly the elements obj['X', a:b:s] returns (inclusive label slice).  Hypotheses: those of
   C10's C10_eval_slice_agrees (lookup meeting C10's specification and answering built-in ints, distinct labels, both ends
   present or open, s > 0), the label texts have no backtick/colon, and each text names its label (as str, else through int()) *)
Theorem C16_eval_label_slice_selects_what_label_indexing_selects
        (V : Type) (gl : list Locate.label -> Locate.label -> outcome Locate.loc) (ct : list Locate.label -> Locate.label -> bool)
        (st : Locate.cstate V) (name : string) (sr : Locate.series V)
        (oa ob : option string) (a b : option Locate.label) (s : Z) (pa pb : nat) :
  let sp := Locate.c_span st in
  let lc := Locate.locate gl sp in
  LocateFacts.locate_spec (Locate.span_labels sp) lc ->
  Locate.lookup name (Locate.c_vars st) = Some sr ->
  List.length (Locate.s_data sr) = List.length (Locate.span_labels sp) ->
  (forall x i fl, lc x = Ret (Locate.LPos i fl) -> fl = true) ->
  NoDup (Locate.span_labels sp) ->
  LocateFacts.start_pos (Locate.span_labels sp) a = Some pa ->
  LocateFacts.stop_pos (Locate.span_labels sp) b = Some pb ->
  0 < s ->
  opt_ok oa -> opt_ok ob ->
  otext_names (c10_has ct sp) oa a -> otext_names (c10_has ct sp) ob b ->
  exists inner ps,
    resolve_group (c10_has ct sp) (c10_locate gl sp) (otext oa ++ ":" ++ otext ob ++ ":" ++ Z_to_string s) = Ret ("[" ++ inner ++ "]") /\
    index_sem (List.length (Locate.s_data sr)) inner = Some ps /\
    Locate.get_item_with lc st name (Locate.KSlice a b (Some s)) = Ret (Locate.RArr (Locate.gather (Locate.s_data sr) ps)).
Proof. exact (eval_label_slice_selects_what_label_indexing_selects V gl ct st name sr oa ob a b s pa pb). Qed.

(* kept finding (module-global-visible): "an undefined name is reported as AttributeError naming it" is false for names that
   are globals of fsic/core/containers.py or Python builtins (eval() passes globals=None): with CPython's name resolution
   locals_ -> outer names, the name np — neither a helper, a variable nor a local — evaluates to a value.  The guarded
   statement is C16_eval_undefined_name below: AttributeError naming the name exactly when CPython raised NameError for it. *)
Theorem C16_undefined_name_leak_refuted :
  exists (tbl outer vars : list string) (name : string),
    existsb (String.eqb name) tbl = false /\ existsb (String.eqb name) vars = false /\
    snd (ns_case tbl outer vars None None name) <> EAttributeError name /\
    snd (ns_case tbl outer vars None None name) = EVal ("G:" ++ name).
Proof. exact undefined_name_leak_refuted. Qed.

(* NEW finding (names-invisible-in-nested-scopes): eval() hands the namespace to CPython as LOCALS, and CPython resolves a free
   name of a nested scope (lambda, generator expression) in the globals only: c.eval('sum(X[i] for i in range(3))') reports the
   DEFINED variable X as undefined.  CPython's scoping is outside the model (pyeval abstract); the oracle carries the finding.
   Model-level witness: with pyeval instantiated by that rule, a variable, a helper and a caller local are all reported undefined.
   (C16_undefined_name_is_reported and name_defined describe the lookup of a name at the TOP level of the expression.) *)
Theorem C16_defined_name_in_nested_scope_refuted :
  exists (tbl vars : list string) (locals : list string) (name : string),
    existsb (String.eqb name) vars = true /\
    snd (eval_M string (fun _ => false) (fun _ => Raise KeyError) (name_lookup_in_nested_scope (tagged "G" ["np"; "abs"]))
                [tagged "T" tbl] 0%nat (tagged "V" vars) name (Some (tagged "L" locals)) None) = EAttributeError name /\
    snd (eval_M string (fun _ => false) (fun _ => Raise KeyError) (name_lookup_in_nested_scope (tagged "G" ["np"; "abs"]))
                [tagged "T" tbl] 0%nat (tagged "V" vars) "lag" (Some (tagged "L" locals)) None) = EAttributeError "lag" /\
    snd (eval_M string (fun _ => false) (fun _ => Raise KeyError) (name_lookup_in_nested_scope (tagged "G" ["np"; "abs"]))
                [tagged "T" tbl] 0%nat (tagged "V" vars) "k" (Some (tagged "L" locals)) None) = EAttributeError "k" /\
    existsb (String.eqb "lag") tbl = true /\ existsb (String.eqb "k") locals = true.
Proof. exact defined_name_in_nested_scope_refuted. Qed.

(* ====================================================================== histories: eval() has no memory *)
(* ANY sequence of eval() calls in one process (builtins=None) — on any containers (any span, any variables), with any caller
   locals, any expressions, failing or not: every call returns what it would return as the FIRST call, and the package-level
   helper table is the same at the end.  (A name bound in an earlier call — another container's variable, a caller local, a
   variable called log — is therefore undefined again afterwards.) *)
Theorem C16_eval_has_no_memory (V : Type) (pyeval : string -> ns V -> pyres V) (cs : list (call V)) (dh : dheap V) (tbl : nat) :
  (tbl < List.length dh)%nat ->
  snd (run_calls V pyeval dh tbl cs) = map (fun c => snd (do_call V pyeval dh tbl c)) cs /\
  dict_at V (fst (run_calls V pyeval dh tbl cs)) tbl = dict_at V dh tbl.
Proof. exact (eval_has_no_memory V pyeval cs dh tbl). Qed.

(* ====================================================================== the guards of the kept findings, decidable *)
(* label_carried a = a has no backtick, colon, closing bracket or newline (computable on any label): such a label, when it
   resolves, is replaced by its location anywhere in an expression *)
Theorem C16_carried_label_is_resolved (has : label -> bool) (locate : label -> outcome loc) (pre ws1 a ws2 post : string) (l : loc) :
  label_carried a = true ->
  has_char ch_open pre = false -> str_all is_re_space ws1 = true -> str_all is_re_space ws2 = true ->
  ((has (LStr a) = true /\ locate (LStr a) = Ret l) \/
   (has (LStr a) = false /\ exists z, parse_int_raw a = Some z /\ has (LInt z) = true /\ locate (LInt z) = Ret l)) ->
  rewrite has locate (pre ++ "[" ++ ws1 ++ ("`" ++ a ++ "`") ++ ws2 ++ "]" ++ post)
  = omap (fun u => pre ++ ("[" ++ str_loc l ++ "]") ++ u) (rewrite has locate post).
Proof. exact (carried_label_is_resolved has locate pre ws1 a ws2 post l). Qed.

(* name_defined: the name is a helper, a variable, a caller local or — the leak — a module global / Python builtin.
   A name (no backtick) bound nowhere is reported as AttributeError naming it *)
Theorem C16_undefined_name_is_reported (tbl outer vars : list string) (locals : option (list string)) (name : string) :
  has_char ch_tick name = false ->
  name_defined tbl outer vars locals name = false ->
  snd (ns_case tbl outer vars locals None name) = EAttributeError name.
Proof. exact (undefined_name_is_reported tbl outer vars locals name). Qed.

(* fill_castable f: NumPy can cast the fill value to int64 (ints, finite floats — truncated); then the call is the helper of
   Funcs.v on the cast value, so all of its specifications apply *)
Theorem C16_castable_fill_behaves (fn : fname) (h : heap Z) (lx : nat) (p : Z) (f : pyfill) :
  fill_castable f = true ->
  exists v, conv_int64 f = Ret v /\
            call_Hc Z pyfill Z.sub (fun z => z) conv_int64 fn h lx p f = call_H Z Z.sub (fun z => z) fn h lx p v.
Proof. exact (castable_fill_behaves fn h lx p f). Qed.

(* ====================================================================== labels that do not stand alone in their bracket *)
Section C16_not_alone.
  Variable has : label -> bool.
  Variable locate : label -> outcome loc.

  (* nested subscript X[ c pre [`a`] ... : the outer bracket ends at the first closing bracket; the callback receives the single
     item  c pre[`a`  and looks up the TEXT  c pre[`a  as a period label (it can never be an integer) *)
  Theorem C16_nested_item_lookup (c : ascii) (pre a : string) :
    is_py_space c = false -> has_char ch_tick (String c pre) = false -> has_char ch_colon (String c pre) = false ->
    has_char ch_tick a = false -> has_char ch_colon a = false -> a <> "" ->
    resolve_group has locate (String c pre ++ "[" ++ ("`" ++ a ++ "`")) =
      if has (LStr (String c pre ++ "[`" ++ a))
      then omap (fun l => "[" ++ str_loc l ++ "]") (locate (LStr (String c pre ++ "[`" ++ a)))
      else Raise KeyError.
  Proof. exact (nested_item_lookup has locate c pre a). Qed.

  (* hence KeyError, wherever the nested label stands and whether or not the label itself is in the span *)
  Theorem C16_nested_label_KeyError (pre0 : string) (c : ascii) (pre a post : string) :
    has_char ch_open pre0 = false ->
    is_re_space c = false -> has_char ch_tick (String c pre) = false -> has_char ch_colon (String c pre) = false ->
    inner_ok (String c pre) = true ->
    lab_ok a -> a <> "" ->
    has (LStr (String c pre ++ "[`" ++ a)) = false ->
    rewrite has locate (pre0 ++ "[" ++ (String c pre ++ "[" ++ ("`" ++ a ++ "`")) ++ "]" ++ post) = Raise KeyError.
  Proof. exact (nested_label_KeyError has locate pre0 c pre a post). Qed.

  (* a label slice broken across lines: `.` does not match a newline, no match starts at that bracket; the text comes back
     as it is, backticks included *)
  Theorem C16_label_slice_across_lines_unchanged (pre a b post : string) :
    has_char ch_open pre = false -> has_char ch_open post = false ->
    lab_ok a -> lab_ok b -> has_char ch_open a = false -> has_char ch_open b = false ->
    let e := pre ++ "[" ++ ("`" ++ a ++ "`:") ++ String ch_nl ("`" ++ b ++ "`]" ++ post) in
    rewrite has locate e = Ret e /\ has_char ch_tick e = true.
  Proof. exact (label_slice_across_lines_unchanged has locate pre a b post). Qed.
End C16_not_alone.

(* ====================================================================== eval(): namespace, purity, undefined names *)
Section C16_eval.
  Variable V : Type.                                    (* Python objects *)
  Variable has : label -> bool.
  Variable locate : label -> outcome loc.
  Variable pyeval : string -> ns V -> pyres V.         (* CPython's eval of the final text in the assembled namespace *)

  (* caller-supplied locals override variables, which override the built-in helpers (or the caller's `builtins=` dict) *)
  Theorem C16_namespace_precedence (base vars : ns V) (locals : option (ns V)) (k : string) :
    ns_get V (ns_update V (ns_update V base vars) (locals_ns V locals)) k =
      match ns_last V (locals_ns V locals) k with
      | Some v => Some v
      | None => match ns_last V vars k with
                | Some v => Some v
                | None => ns_get V base k
                end
      end.
  Proof. exact (namespace_precedence V base vars locals k). Qed.

  (* for a source without repeated keys (a Python dict), the "last" binding is the binding *)
  Theorem C16_last_binding_of_a_dict (src : ns V) (k : string) : NoDup (map fst src) -> ns_last V src k = ns_get V src k.
  Proof. exact (ns_last_nodup V src k). Qed.

  (* the whole of eval() after a successful rewrite: outcome = CPython's outcome on the rewritten text in the namespace
     base < variables < locals (NameError converted to AttributeError naming the name); the container's variables are
     unchanged; the namespace lives in a fresh copy of the package table (builtins=None) or in the caller's dict; no other
     dict is touched *)
  Theorem C16_eval_spec (dh : dheap V) (tbl : nat) (vars : ns V) (expr : string) (locals : option (ns V)) (bi : option nat) (text : string) :
    eval_text has locate expr = Ret text ->
    (forall l, bi = Some l -> (l < List.length dh)%nat) ->
    let N := ns_update V (ns_update V (base_dict V dh tbl bi) vars) (locals_ns V locals) in
    let r := eval_M V has locate pyeval dh tbl vars expr locals bi in
    snd r = convert V (pyeval text N) /\
    snd (fst r) = vars /\
    dict_at V (fst (fst r)) (work_loc V dh bi) = N /\
    (forall l', (l' < List.length dh)%nat -> bi <> Some l' -> dict_at V (fst (fst r)) l' = dict_at V dh l').
  Proof. exact (eval_spec V has locate pyeval dh tbl vars expr locals bi text). Qed.

  (* eval_pure: evaluation never alters the container or the package-level helper table (nor any other existing dict
     except the one passed as `builtins=`) — whatever the expression, its outcome, the locals *)
  Theorem C16_eval_pure (dh : dheap V) (tbl : nat) (vars : ns V) (expr : string) (locals : option (ns V)) (bi : option nat) :
    (tbl < List.length dh)%nat -> bi <> Some tbl -> (forall l, bi = Some l -> (l < List.length dh)%nat) ->
    let r := eval_M V has locate pyeval dh tbl vars expr locals bi in
    dict_at V (fst (fst r)) tbl = dict_at V dh tbl /\ snd (fst r) = vars /\
    (forall l', (l' < List.length dh)%nat -> bi <> Some l' -> dict_at V (fst (fst r)) l' = dict_at V dh l').
  Proof. exact (eval_pure V has locate pyeval dh tbl vars expr locals bi). Qed.

  (* a failed rewrite surfaces before any dict is created or touched *)
  Theorem C16_eval_rewrite_error (dh : dheap V) (tbl : nat) (vars : ns V) (expr : string) (locals : option (ns V)) (bi : option nat) (e : exn) :
    eval_text has locate expr = Raise e -> eval_M V has locate pyeval dh tbl vars expr locals bi = ((dh, vars), ERaise e).
  Proof. exact (eval_rewrite_error V has locate pyeval dh tbl vars expr locals bi e). Qed.

  (* what DOES change: a dict passed as `builtins=` receives the variables and the locals *)
  Theorem C16_eval_caller_builtins_updated (dh : dheap V) (tbl : nat) (vars : ns V) (expr : string) (locals : option (ns V)) (l : nat) (text : string) :
    eval_text has locate expr = Ret text -> (l < List.length dh)%nat ->
    dict_at V (fst (fst (eval_M V has locate pyeval dh tbl vars expr locals (Some l)))) l
      = ns_update V (ns_update V (dict_at V dh l) vars) (locals_ns V locals).
  Proof. exact (eval_caller_builtins_updated V has locate pyeval dh tbl vars expr locals l text). Qed.

  (* an undefined name is reported as AttributeError naming it — exactly when CPython raised NameError for that name *)
  Theorem C16_eval_undefined_name (dh : dheap V) (tbl : nat) (vars : ns V) (expr : string) (locals : option (ns V)) (bi : option nat) (name : string) :
    (forall l, bi = Some l -> (l < List.length dh)%nat) ->
    (snd (eval_M V has locate pyeval dh tbl vars expr locals bi) = EAttributeError name <->
     exists text, eval_text has locate expr = Ret text /\
       pyeval text (ns_update V (ns_update V (base_dict V dh tbl bi) vars) (locals_ns V locals)) = PNameError name).
  Proof. exact (eval_undefined_name V has locate pyeval dh tbl vars expr locals bi name). Qed.

  (* without a backtick CPython receives the caller's text verbatim: positional indexes keep their Python meaning *)
  Theorem C16_eval_no_backtick_passes_text_verbatim (dh : dheap V) (tbl : nat) (vars : ns V) (expr : string) (locals : option (ns V)) (bi : option nat) :
    has_char ch_tick expr = false -> (forall l, bi = Some l -> (l < List.length dh)%nat) ->
    snd (eval_M V has locate pyeval dh tbl vars expr locals bi)
      = convert V (pyeval expr (ns_update V (ns_update V (base_dict V dh tbl bi) vars) (locals_ns V locals))).
  Proof. exact (eval_no_backtick_passes_text_verbatim V has locate pyeval dh tbl vars expr locals bi). Qed.

  (* eval() of a whole expression with a backtick whose brackets all resolve: CPython evaluates the text with every bracket
     replaced, in the namespace helpers < variables < locals; the container's variables are unchanged *)
  Theorem C16_eval_whole_expression (dh : dheap V) (tbl : nat) (vars : ns V) (locals : option (ns V)) (bi : option nat)
          (segs : list seg) (ts : list string) (tail : string) :
    forallb seg_ok segs = true -> has_char ch_open tail = false ->
    has_char ch_tick (expr_text segs tail) = true ->
    Forall2 (fun s t => seg_out has locate s = Ret t) segs ts ->
    (forall l, bi = Some l -> (l < List.length dh)%nat) ->
    snd (eval_M V has locate pyeval dh tbl vars (expr_text segs tail) locals bi)
      = convert V (pyeval (expr_subst segs ts tail)
                          (ns_update V (ns_update V (base_dict V dh tbl bi) vars) (locals_ns V locals))) /\
    snd (fst (eval_M V has locate pyeval dh tbl vars (expr_text segs tail) locals bi)) = vars.
  Proof. exact (eval_whole_expression V has locate pyeval dh tbl vars locals bi segs ts tail). Qed.

  (* EVERY expression eval() evaluates: CPython receives the concatenation of the per-piece outputs of the expression's pieces
     (matches of the bracket regex and the characters between them), in which every piece without a backtick — every
     positional bracket, wherever it stands — is the piece itself *)
  Theorem C16_eval_positional_brackets_untouched (dh : dheap V) (tbl : nat) (vars : ns V) (locals : option (ns V)) (bi : option nat)
          (expr text : string) :
    eval_text has locate expr = Ret text ->
    (forall l, bi = Some l -> (l < List.length dh)%nat) ->
    snd (eval_M V has locate pyeval dh tbl vars expr locals bi)
      = convert V (pyeval text (ns_update V (ns_update V (base_dict V dh tbl bi) vars) (locals_ns V locals))) /\
    exists ts, Forall2 (fun p u => piece_out has locate p = Ret u) (scan expr) ts /\ text = sconcat ts /\
               Forall2 (fun p u => has_char ch_tick (piece_src p) = false -> u = piece_src p) (scan expr) ts.
  Proof. exact (eval_positional_brackets_untouched V has locate pyeval dh tbl vars locals bi expr text). Qed.

  (* the leftmost failing bracket is what eval() raises, before any dict is created or touched *)
  Theorem C16_eval_whole_expression_error (dh : dheap V) (tbl : nat) (vars : ns V) (locals : option (ns V)) (bi : option nat)
          (segs1 : list seg) (ts : list string) (s : seg) (segs2 : list seg) (tail : string) (e : exn) :
    forallb seg_ok (segs1 ++ s :: segs2) = true -> has_char ch_open tail = false ->
    has_char ch_tick (expr_text (segs1 ++ s :: segs2) tail) = true ->
    Forall2 (fun s t => seg_out has locate s = Ret t) segs1 ts ->
    seg_out has locate s = Raise e ->
    eval_M V has locate pyeval dh tbl vars (expr_text (segs1 ++ s :: segs2) tail) locals bi = ((dh, vars), ERaise e).
  Proof. exact (eval_whole_expression_error V has locate pyeval dh tbl vars locals bi segs1 ts s segs2 tail e). Qed.
End C16_eval.

Print Assumptions C16_lag_spec.
Print Assumptions C16_lag_out_of_range_is_all_fill.
Print Assumptions C16_lead_eq_lag_neg.
Print Assumptions C16_lead_object_eq_lag_neg.
Print Assumptions C16_lead_spec.
Print Assumptions C16_diff_spec.
Print Assumptions C16_diff_zero_is_identity.
Print Assumptions C16_diff_negative_not_implemented.
Print Assumptions C16_dlog_eq_diff_log.
Print Assumptions C16_dlog_spec.
Print Assumptions C16_shift_length_preserved.
Print Assumptions C16_diff_length_preserved.
Print Assumptions C16_shift_object.
Print Assumptions C16_diff_object.
Print Assumptions C16_dlog_object.
Print Assumptions C16_helpers_never_modify_existing_arrays.
Print Assumptions C16_shift_rank_refused.
Print Assumptions C16_diff_rank_refused.
Print Assumptions C16_diff_zero_formula_refuted.
Print Assumptions C16_int_of_str_roundtrip.
Print Assumptions C16_inclusive_slice_positions.
Print Assumptions C16_inclusive_slice_empty_when_reversed.
Print Assumptions C16_open_start_slice_positions.
Print Assumptions C16_open_stop_slice_positions.
Print Assumptions C16_positional_untouched_without_backtick.
Print Assumptions C16_rewrite_no_bracket.
Print Assumptions C16_rewrite_prefix.
Print Assumptions C16_rewrite_bracket.
Print Assumptions C16_rewrite_empty_bracket.
Print Assumptions C16_label_index_rewrite.
Print Assumptions C16_label_index_rewrite_any_location.
Print Assumptions C16_label_missing_KeyError.
Print Assumptions C16_label_slice_rewrite.
Print Assumptions C16_label_slice_step_rewrite.
Print Assumptions C16_label_slice_open_start_rewrite.
Print Assumptions C16_label_slice_open_stop_rewrite.
Print Assumptions C16_label_slice_rewrite_any_location.
Print Assumptions C16_too_many_items.
Print Assumptions C16_namespace_precedence.
Print Assumptions C16_last_binding_of_a_dict.
Print Assumptions C16_eval_spec.
Print Assumptions C16_eval_pure.
Print Assumptions C16_eval_rewrite_error.
Print Assumptions C16_eval_caller_builtins_updated.
Print Assumptions C16_eval_undefined_name.
Print Assumptions C16_eval_no_backtick_passes_text_verbatim.
Print Assumptions C16_whole_expression_rewrite.
Print Assumptions C16_whole_expression_first_error.
Print Assumptions C16_rewrite_exceptions.
Print Assumptions C16_bracket_padding_ignored_index.
Print Assumptions C16_bracket_padding_ignored_slice.
Print Assumptions C16_bracket_padding_ignored_slice_step.
Print Assumptions C16_label_index_in_expression.
Print Assumptions C16_label_missing_in_expression.
Print Assumptions C16_label_with_colon_refuted.
Print Assumptions C16_label_with_bracket_or_edge_backtick_refuted.
Print Assumptions C16_eval_whole_expression.
Print Assumptions C16_eval_whole_expression_error.
Print Assumptions C16_label_lookup_is_C10_lookup.
Print Assumptions C16_label_slice_text_is_C10_bounds.
Print Assumptions C16_label_slice_step_text_is_C10_bounds.
Print Assumptions C16_label_slice_positions_are_C10_positions.
Print Assumptions C16_eval_label_slice_selects_what_label_indexing_selects.
Print Assumptions C16_lag_closed_form.
Print Assumptions C16_lead_closed_form.
Print Assumptions C16_diff_out_of_range_is_all_fill.
Print Assumptions C16_diff_closed_form.
Print Assumptions C16_dlog_closed_form.
Print Assumptions C16_undefined_name_leak_refuted.
Print Assumptions C16_bracket_resolves.
Print Assumptions C16_bracket_source_is_well_formed.
Print Assumptions C16_program_rewrite.
Print Assumptions C16_program_first_error.
Print Assumptions C16_bracket_meaning.
Print Assumptions C16_fill_cast_ok.
Print Assumptions C16_shift_fill_cast_error.
Print Assumptions C16_diff_fill_cast_error.
Print Assumptions C16_shift_zero_ignores_fill.
Print Assumptions C16_diff_zero_ignores_fill.
Print Assumptions C16_helpers_with_cast_never_modify_existing_arrays.
Print Assumptions C16_int_array_nan_fill_refuted.
Print Assumptions C16_program_eval_text.
Print Assumptions C16_checked_list_span_is_C10_span.
Print Assumptions C16_checked_numpy_span_is_C10_span.
Print Assumptions C16_checked_range_span_is_C10_span.
Print Assumptions C16_eval_program.
Print Assumptions C16_int_accepts_implies_int_of_strip_accepts.
Print Assumptions C16_int_of_strip_accepts_more.
Print Assumptions C16_rewrite_is_piecewise.
Print Assumptions C16_positional_brackets_untouched.
Print Assumptions C16_rewrite_without_backtick_is_identity.
Print Assumptions C16_rewrite_bracket_verbatim.
Print Assumptions C16_mixed_slice_rewrite.
Print Assumptions C16_mixed_slice_step_rewrite.
Print Assumptions C16_mixed_label_start_int_stop.
Print Assumptions C16_mixed_int_start_label_stop.
Print Assumptions C16_mixed_slice_plain_item_verbatim.
Print Assumptions C16_scan_partitions.
Print Assumptions C16_label_in_nested_bracket_refuted.
Print Assumptions C16_label_slice_across_lines_refuted.
Print Assumptions C16_plain_bracket_verbatim.
Print Assumptions C16_carried_label_is_resolved.
Print Assumptions C16_undefined_name_is_reported.
Print Assumptions C16_castable_fill_behaves.
Print Assumptions C16_nested_item_lookup.
Print Assumptions C16_nested_label_KeyError.
Print Assumptions C16_label_slice_across_lines_unchanged.
Print Assumptions C16_eval_positional_brackets_untouched.
Print Assumptions C16_eval_text_is_rewrite.
Print Assumptions C16_eval_has_no_memory.
Print Assumptions C16_mixed_slice_integer_end_keeps_its_meaning.
Print Assumptions C16_index_sem_any_extends.
Print Assumptions C16_label_slice_neg_step_positions.
Print Assumptions C16_label_slice_negative_step_refuted.
Print Assumptions C16_defined_name_in_nested_scope_refuted.
