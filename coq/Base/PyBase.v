(* PyBase: the small "Python kernel" shared by every model.
   Definitions only (plus a handful of structural lemmas about them at the
   end, which the model files never depend on for execution). *)
From Coq Require Import ZArith List Bool Lia.
Import ListNotations.
Open Scope Z_scope.

(* ---- exception classes named by the properties ---- *)
Inductive exn : Type :=
| ValueError | IndexError | KeyError | AttributeError | TypeError
| SolutionError (cause : option Z)      (* cause = tag of the chained exception, None = not chained *)
| NonConvergenceError
| ParserError | SymbolError | IndentationError
| DimensionError | DuplicateNameError | InitialisationError
| NotImplementedError | UnboundLocalError | FortranEngineError
| OverflowError | OtherError.

Inductive outcome (A : Type) : Type :=
| Ret (a : A)
| Raise (e : exn).
Arguments Ret {A} a.
Arguments Raise {A} e.

(* ---- Python sequence indexing: a negative index wraps once ---- *)
Definition py_pos (n : nat) (i : Z) : option nat :=
  let n' := Z.of_nat n in
  if (i <? - n') || (n' <=? i) then None
  else Some (Z.to_nat (if i <? 0 then i + n' else i)).

Fixpoint upd {A} (i : nat) (x : A) (l : list A) : list A :=
  match l, i with
  | [], _ => []
  | _ :: r, O => x :: r
  | a :: r, S i' => a :: upd i' x r
  end.

Definition py_get {A} (l : list A) (i : Z) : option A :=
  match py_pos (length l) i with Some p => nth_error l p | None => None end.
Definition py_set {A} (l : list A) (i : Z) (x : A) : option (list A) :=
  match py_pos (length l) i with Some p => Some (upd p x l) | None => None end.

(* PySlice_AdjustIndices for step > 0 : returns (start, stop) clipped to [0,n] *)
Definition clip (n i : Z) : Z := if i <? 0 then (if i + n <? 0 then 0 else i + n) else (if n <? i then n else i).
Definition py_slice_bounds (n : nat) (start stop : option Z) : Z * Z :=
  let n' := Z.of_nat n in
  (match start with None => 0 | Some a => clip n' a end,
   match stop with None => n' | Some b => clip n' b end).
(* positions start, start+step, ... < stop *)
Fixpoint range_from (fuel : nat) (a step stop : Z) : list nat :=
  match fuel with
  | O => []
  | S f => if a <? stop then Z.to_nat a :: range_from f (a + step) step stop else []
  end.
Definition py_slice_positions (n : nat) (start stop : option Z) (step : Z) : list nat :=
  let '(a, b) := py_slice_bounds n start stop in range_from n a step b.

(* ---- small facts ---- *)
Lemma upd_length {A} i (x : A) l : length (upd i x l) = length l.
Proof. revert i; induction l as [|a l IH]; intros [|i]; simpl; auto. Qed.

Lemma nth_error_upd_eq {A} i (x : A) l : (i < length l)%nat -> nth_error (upd i x l) i = Some x.
Proof. revert i; induction l as [|a l IH]; intros [|i] H; simpl in *; try lia; auto. apply IH; lia. Qed.

Lemma nth_error_upd_neq {A} i j (x : A) l : i <> j -> nth_error (upd i x l) j = nth_error l j.
Proof. revert i j; induction l as [|a l IH]; intros [|i] [|j] H; simpl; auto; try congruence. Qed.

Lemma nth_upd_eq {A} i (x d : A) l : (i < length l)%nat -> nth i (upd i x l) d = x.
Proof. revert i; induction l as [|a l IH]; intros [|i] H; simpl in *; try lia; auto. apply IH; lia. Qed.

Lemma nth_upd_neq {A} i j (x d : A) l : i <> j -> nth j (upd i x l) d = nth j l d.
Proof. revert i j; induction l as [|a l IH]; intros [|i] [|j] H; simpl; auto; try congruence. Qed.

Lemma py_pos_lt n i p : py_pos n i = Some p -> (p < n)%nat.
Proof.
  unfold py_pos. destruct ((i <? - Z.of_nat n) || (Z.of_nat n <=? i)) eqn:E; [discriminate|].
  apply orb_false_iff in E as [E1 E2]. intros H; inversion H; subst; clear H.
  destruct (i <? 0) eqn:E3; lia.
Qed.

Lemma py_pos_nonneg n i : 0 <= i < Z.of_nat n -> py_pos n i = Some (Z.to_nat i).
Proof.
  intros H. unfold py_pos.
  replace ((i <? - Z.of_nat n) || (Z.of_nat n <=? i)) with false by (symmetry; apply orb_false_iff; lia).
  replace (i <? 0) with false by lia. reflexivity.
Qed.

Lemma py_pos_neg n i : - Z.of_nat n <= i < 0 -> py_pos n i = Some (Z.to_nat (i + Z.of_nat n)).
Proof.
  intros H. unfold py_pos.
  replace ((i <? - Z.of_nat n) || (Z.of_nat n <=? i)) with false by (symmetry; apply orb_false_iff; lia).
  replace (i <? 0) with true by lia. reflexivity.
Qed.
