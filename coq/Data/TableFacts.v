(* TableFacts.v — proofs about Data/Table.v (C19). *)
From Coq Require Import String Ascii List ZArith Bool Lia.
Import ListNotations.
Require Import PyBase Generated Symbols Table.
Open Scope string_scope.
Open Scope Z_scope.
Open Scope list_scope.

(* ------------------------------------------------------------------ small list facts *)
Lemma mem_s_In x l : mem_s x l = true <-> In x l.
Proof.
  unfold mem_s. rewrite existsb_exists. split.
  - intros [y [Hy E]]. apply String.eqb_eq in E. subst; assumption.
  - intros H. exists x. split; [assumption|apply String.eqb_refl].
Qed.

Lemma mem_s_false x l : mem_s x l = false <-> ~ In x l.
Proof.
  rewrite <- mem_s_In. destruct (mem_s x l); split; intros H.
  - discriminate.
  - exfalso. apply H. reflexivity.
  - intros H'. discriminate.
  - reflexivity.
Qed.

Lemma dedup_nodup l : forall seen, NoDup l -> (forall x, In x l -> ~ In x seen) -> dedup seen l = l.
Proof.
  induction l as [|a l IH]; intros seen Hnd Hs; [reflexivity|].
  inversion Hnd as [|? ? Ha Hl]; subst. cbn [dedup].
  assert (E : mem_s a seen = false) by (apply mem_s_false; apply Hs; left; reflexivity).
  rewrite E. f_equal. apply IH; [assumption|].
  intros x Hx [Hx'|Hx']; [subst; contradiction|]. apply (Hs x); [right; assumption|assumption].
Qed.

Lemma NoDup_filter {A} (f : A -> bool) l : NoDup l -> NoDup (filter f l).
Proof.
  induction 1 as [|a l Ha Hl IH]; cbn [filter]; [constructor|].
  destruct (f a); [constructor|]; try assumption.
  intros H. apply filter_In in H. destruct H; contradiction.
Qed.

(* ------------------------------------------------------------------ decidable equality of cells *)
Lemma f64_eqb_eq a b : f64_eqb a b = true <-> a = b.
Proof.
  destruct a, b; cbn [f64_eqb]; split; intros H; try discriminate; try reflexivity.
  - apply Z.eqb_eq in H. subst; reflexivity.
  - inversion H; subst. apply Z.eqb_refl.
  - apply andb_true_iff in H as [H1 H2]. apply Z.eqb_eq in H1. apply Pos.eqb_eq in H2. subst; reflexivity.
  - inversion H; subst. rewrite Z.eqb_refl, Pos.eqb_refl. reflexivity.
Qed.

Lemma atom_eqb_eq a b : atom_eqb a b = true <-> a = b.
Proof.
  destruct a, b; cbn [atom_eqb]; split; intros H; try discriminate.
  - apply Z.eqb_eq in H. subst; reflexivity.
  - inversion H; subst. apply Z.eqb_refl.
  - apply String.eqb_eq in H. subst; reflexivity.
  - inversion H; subst. apply String.eqb_refl.
Qed.

Lemma cell_eqb_eq a b : cell_eqb a b = true <-> a = b.
Proof.
  destruct a, b; cbn [cell_eqb]; split; intros H; try discriminate; try reflexivity.
  - apply f64_eqb_eq in H. subst; reflexivity.
  - inversion H; subst. apply f64_eqb_eq. reflexivity.
  - apply Z.eqb_eq in H. subst; reflexivity.
  - inversion H; subst. apply Z.eqb_refl.
  - apply Bool.eqb_prop in H. subst; reflexivity.
  - inversion H; subst. apply Bool.eqb_reflx.
  - apply String.eqb_eq in H. subst; reflexivity.
  - inversion H; subst. apply String.eqb_refl.
  - apply andb_true_iff in H as [H1 H2]. apply atom_eqb_eq in H1. apply atom_eqb_eq in H2. subst; reflexivity.
  - inversion H; subst. apply andb_true_iff. split; apply atom_eqb_eq; reflexivity.
  - apply andb_true_iff in H as [H1 H2]. apply Z.eqb_eq in H1. apply Z.eqb_eq in H2. subst; reflexivity.
  - inversion H; subst. rewrite !Z.eqb_refl. reflexivity.
  - apply Z.eqb_eq in H. subst; reflexivity.
  - inversion H; subst. apply Z.eqb_refl.
  - apply Z.eqb_eq in H. subst; reflexivity.
  - inversion H; subst. apply Z.eqb_refl.
Qed.

Lemma cell_eqb_neq a b : cell_eqb a b = false <-> a <> b.
Proof.
  rewrite <- cell_eqb_eq. destruct (cell_eqb a b); split; intros H.
  - discriminate.
  - exfalso; apply H; reflexivity.
  - intros H'; discriminate.
  - reflexivity.
Qed.

(* ------------------------------------------------------------------ pandas inference keeps the number of cells *)
Lemma pd_infer_length cs d cs' : pd_infer cs = Some (d, cs') -> length cs' = length cs.
Proof.
  unfold pd_infer. destruct cs as [|c0 r]; [intros H; inversion H; reflexivity|].
  cbv beta iota. set (l := c0 :: r). clearbody l.
  destruct (forallb is_none l); [intros H; inversion H; reflexivity|].
  destruct (forallb is_int l).
  { destruct (forallb cell_int64 l); [|destruct (forallb cell_uint64 l)]; intros H; inversion H; reflexivity. }
  destruct (forallb is_bool l); [intros H; inversion H; reflexivity|].
  destruct (forallb is_str l); [intros H; inversion H; reflexivity|].
  destruct (forallb is_str_or_none l); [intros H; inversion H; apply map_length|].
  destruct (forallb is_num_or_none l).
  { destruct (existsb out_int64 l); [discriminate|]. intros H; inversion H; apply map_length. }
  destruct (forallb is_ts l); [intros H; inversion H; reflexivity|].
  destruct (forallb is_td l); [intros H; inversion H; reflexivity|].
  destruct c0;
    repeat match goal with |- (if ?b then _ else _) = _ -> _ => destruct b end;
    try discriminate; intros H; inversion H; reflexivity.
Qed.

Lemma pd_index_length s ix : pd_index s = Some ix -> length (ilabels ix) = length (splabels s).
Proof.
  unfold pd_index. destruct (spkind s) eqn:K.
  - intros H; inversion H; reflexivity.
  - destruct (splabels s) as [|c r] eqn:L.
    + cbn. intros H; inversion H; reflexivity.
    + destruct (pd_infer (c :: r)) as [[d cs]|] eqn:P; [|discriminate].
      apply pd_infer_length in P. destruct d; intros H; inversion H; subst; cbn [ilabels]; assumption.
  - destruct (splabels s) as [|c r] eqn:L.
    + cbn. intros H; inversion H; reflexivity.
    + destruct (pd_infer (c :: r)) as [[d cs]|] eqn:P; [|discriminate].
      apply pd_infer_length in P. destruct d; intros H; inversion H; subst; cbn [ilabels]; assumption.
  - destruct (splabels s) as [|c r] eqn:L.
    + intros H; inversion H; reflexivity.
    + destruct (pd_infer (c :: r)) as [[d cs]|] eqn:P; [|discriminate].
      apply pd_infer_length in P. destruct d; intros H; inversion H; subst; cbn [ilabels]; assumption.
  - intros H; inversion H; reflexivity.
Qed.

(* ------------------------------------------------------------------ model_to_dataframe *)
Definition the_series (m : fmodel) (k : string) : series :=
  match getvar m k with Some s => s | None => mkSeries NObj [] end.

(* what the container invariants (C09) give for a live model with n periods *)
Record wf_model (m : fmodel) (n : nat) : Prop := {
  wf_nodup : NoDup (fnames m);
  wf_nostatus : ~ In "status" (fnames m);
  wf_noiter : ~ In "iterations" (fnames m);
  wf_vars : forall k, In k (fnames m) -> exists s, assoc_s k (fvars m) = Some s /\ length (scells s) = n;
  wf_status : length (scells (fstatus m)) = n;
  wf_iters : length (scells (fiters m)) = n }.

Definition export_cols (st it ii : bool) (m : fmodel) : list pcolumn :=
  map (fun k => col_of (k, the_series m k)) (export_names ii m)
  ++ (if st then [col_of ("status", fstatus m)] else [])
  ++ (if it then [col_of ("iterations", fiters m)] else []).

Lemma col_of_name k s : pcname (col_of (k, s)) = k.
Proof. unfold col_of. cbn [fst snd]. destruct (pd_of_series s). reflexivity. Qed.

Lemma pd_of_series_length s : length (snd (pd_of_series s)) = length (scells s).
Proof.
  unfold pd_of_series. destruct (sdt s); try reflexivity.
  destruct (forallb is_none (scells s)); [reflexivity|].
  destruct (forallb is_str_or_none (scells s)); [apply map_length|reflexivity].
Qed.

Lemma col_of_cells_length k s : length (pccells (col_of (k, s))) = length (scells s).
Proof.
  unfold col_of. cbn [fst snd]. pose proof (pd_of_series_length s) as H.
  destruct (pd_of_series s) as [d cs]. exact H.
Qed.

Lemma export_names_In ii m k : In k (export_names ii m) -> In k (fnames m).
Proof. unfold export_names. destruct ii; [auto|]. intros H. apply filter_In in H. tauto. Qed.

Lemma export_names_NoDup ii m : NoDup (fnames m) -> NoDup (export_names ii m).
Proof. unfold export_names. destruct ii; [auto|]. apply NoDup_filter. Qed.

Lemma getvar_name m k : k <> "status" -> k <> "iterations" -> getvar m k = assoc_s k (fvars m).
Proof.
  intros H1 H2. unfold getvar.
  destruct (String.eqb k "status") eqn:E1; [apply String.eqb_eq in E1; contradiction|].
  destruct (String.eqb k "iterations") eqn:E2; [apply String.eqb_eq in E2; contradiction|]. reflexivity.
Qed.

Lemma wf_getvar m n k : wf_model m n -> In k (fnames m) ->
  exists s, getvar m k = Some s /\ the_series m k = s /\ length (scells s) = n.
Proof.
  intros W Hk. destruct (wf_vars m n W k Hk) as [s [Hs Hl]].
  assert (E : getvar m k = Some s).
  { rewrite getvar_name; [assumption| |]; intros ->.
    - apply (wf_nostatus m n W Hk).
    - apply (wf_noiter m n W Hk). }
  exists s. unfold the_series. rewrite E. auto.
Qed.

Lemma lookup_all_ok m ks : (forall k, In k ks -> exists s, getvar m k = Some s) ->
  lookup_all m ks = Ret (map (fun k => (k, the_series m k)) ks).
Proof.
  induction ks as [|k r IH]; intros H; [reflexivity|]. cbn [lookup_all map].
  destruct (H k (or_introl eq_refl)) as [s Hs]. unfold the_series at 1. rewrite Hs.
  rewrite IH; [reflexivity|]. intros k' Hk'. apply H. right; assumption.
Qed.

Lemma set_col_append c l : ~ In (pcname c) (map pcname l) -> set_col c l = l ++ [c].
Proof.
  induction l as [|a l IH]; intros H; [reflexivity|]. cbn [set_col app].
  destruct (String.eqb (pcname c) (pcname a)) eqn:E.
  - apply String.eqb_eq in E. exfalso. apply H. left. symmetry; assumption.
  - f_equal. apply IH. intros H'. apply H. right; assumption.
Qed.

Lemma map_col_names (f : string -> series) ks : map pcname (map (fun k => col_of (k, f k)) ks) = ks.
Proof. induction ks as [|k r IH]; [reflexivity|]. cbn [map]. rewrite col_of_name, IH. reflexivity. Qed.

Lemma model_to_table_spec st it ii m ix :
  wf_model m (length (splabels (fspan m))) -> pd_index (fspan m) = Some ix ->
  model_to_table st it ii m = TOk (mkTable ix (export_cols st it ii m)).
Proof.
  intros W Hix. unfold model_to_table.
  pose proof (pd_index_length _ _ Hix) as Hn.
  rewrite dedup_nodup; [|apply export_names_NoDup; apply (wf_nodup _ _ W)|intros x _ []].
  rewrite lookup_all_ok.
  2:{ intros k Hk. apply export_names_In in Hk. destruct (wf_getvar _ _ _ W Hk) as [s [Hs _]]. exists s; assumption. }
  rewrite Hix.
  assert (Hlen : forallb (fun kv : string * series => Nat.eqb (length (scells (snd kv))) (length (ilabels ix)))
                   (map (fun k => (k, the_series m k)) (export_names ii m)) = true).
  { apply forallb_forall. intros kv Hkv. apply in_map_iff in Hkv as [k [<- Hk]]. cbn [snd].
    apply export_names_In in Hk. destruct (wf_getvar _ _ _ W Hk) as [s [_ [-> Hl]]].
    apply Nat.eqb_eq. rewrite Hn. assumption. }
  rewrite Hlen. cbn [negb].
  assert (Hs : Nat.eqb (length (scells (fstatus m))) (length (ilabels ix)) = true)
    by (apply Nat.eqb_eq; rewrite Hn; apply (wf_status _ _ W)).
  assert (Hi : Nat.eqb (length (scells (fiters m))) (length (ilabels ix)) = true)
    by (apply Nat.eqb_eq; rewrite Hn; apply (wf_iters _ _ W)).
  rewrite Hs, Hi. cbn [negb]. rewrite !andb_false_r.
  rewrite map_map. cbn [fst snd].
  unfold export_cols. f_equal. f_equal.
  assert (N1 : ~ In "status" (export_names ii m))
    by (intros H; apply export_names_In in H; apply (wf_nostatus _ _ W H)).
  assert (N2 : ~ In "iterations" (export_names ii m))
    by (intros H; apply export_names_In in H; apply (wf_noiter _ _ W H)).
  destruct st, it; cbn [app]; rewrite ?app_nil_r.
  - rewrite (set_col_append (col_of ("status", fstatus m))).
    2:{ rewrite col_of_name, map_col_names. assumption. }
    rewrite set_col_append.
    2:{ rewrite col_of_name, map_app, map_col_names. cbn [map]. rewrite col_of_name.
        intros H. apply in_app_or in H as [H|[H|[]]]; [contradiction|discriminate]. }
    rewrite <- app_assoc. reflexivity.
  - rewrite set_col_append; [reflexivity|]. rewrite col_of_name, map_col_names. assumption.
  - rewrite set_col_append; [reflexivity|]. rewrite col_of_name, map_col_names. assumption.
  - reflexivity.
Qed.

(* ---- consequences stated in the property's words ---- *)
Definition pdt_of_ndt (d : ndt) : pdt :=
  match d with NFloat => PFloat64 | NInt => PInt64 | NBool => PBool | NStr => PStrDt | NObj => PObject end.

Lemma col_of_typed k s : sdt s <> NObj -> col_of (k, s) = mkCol k (pdt_of_ndt (sdt s)) (scells s).
Proof. intros H. unfold col_of, pd_of_series. cbn [fst snd]. destruct (sdt s); try reflexivity. contradiction. Qed.

Lemma starts_underscore_spec k : starts_underscore k = true <-> exists r, k = String "_"%char r.
Proof.
  destruct k as [|c r]; cbn [starts_underscore].
  - split; [discriminate|intros [r H]; discriminate].
  - split.
    + intros H. apply Ascii.eqb_eq in H. subst. exists r; reflexivity.
    + intros [r' H]. inversion H; subst. apply Ascii.eqb_refl.
Qed.

Lemma find_col_map (f : string -> series) ks tail k : In k ks ->
  find_col k (map (fun k => col_of (k, f k)) ks ++ tail) = Some (col_of (k, f k)).
Proof.
  induction ks as [|a r IH]; intros H; [destruct H|]. cbn [map app find_col]. rewrite col_of_name.
  destruct (String.eqb k a) eqn:E.
  - apply String.eqb_eq in E. subst. reflexivity.
  - destruct H as [H|H]; [subst; rewrite String.eqb_refl in E; discriminate|]. apply IH; assumption.
Qed.

Lemma find_col_skip k l l' : ~ In k (map pcname l) -> find_col k (l ++ l') = find_col k l'.
Proof.
  induction l as [|a r IH]; intros H; [reflexivity|]. cbn [app find_col].
  destruct (String.eqb k (pcname a)) eqn:E.
  - apply String.eqb_eq in E. exfalso. apply H. left. symmetry; assumption.
  - apply IH. intros H'. apply H. right; assumption.
Qed.

Lemma export_cols_names st it ii m :
  map pcname (export_cols st it ii m)
  = export_names ii m ++ (if st then ["status"] else []) ++ (if it then ["iterations"] else []).
Proof.
  unfold export_cols. rewrite !map_app, map_col_names.
  destruct st, it; cbn [map]; rewrite ?col_of_name; reflexivity.
Qed.

Lemma export_cols_var st it ii m k : In k (export_names ii m) ->
  find_col k (export_cols st it ii m) = Some (col_of (k, the_series m k)).
Proof. intros H. unfold export_cols. apply find_col_map. assumption. Qed.

Lemma export_cols_status it ii m : ~ In "status" (fnames m) ->
  find_col "status" (export_cols true it ii m) = Some (col_of ("status", fstatus m)).
Proof.
  intros H. unfold export_cols. rewrite find_col_skip.
  - cbn [app find_col]. rewrite col_of_name, String.eqb_refl. reflexivity.
  - rewrite map_col_names. intros H'. apply export_names_In in H'. contradiction.
Qed.

Lemma export_cols_iterations st ii m : ~ In "iterations" (fnames m) ->
  find_col "iterations" (export_cols st true ii m) = Some (col_of ("iterations", fiters m)).
Proof.
  intros H. unfold export_cols. rewrite find_col_skip.
  - destruct st; cbn [app find_col]; rewrite ?col_of_name; cbn [String.eqb Ascii.eqb Bool.eqb]; rewrite ?col_of_name;
      try rewrite String.eqb_refl; reflexivity.
  - rewrite map_col_names. intros H'. apply export_names_In in H'. contradiction.
Qed.

Lemma export_cols_rows st it ii m n : wf_model m n ->
  forall c, In c (export_cols st it ii m) -> length (pccells c) = n.
Proof.
  intros W c H. unfold export_cols in H. apply in_app_or in H as [H|H].
  - apply in_map_iff in H as [k [<- Hk]]. rewrite col_of_cells_length.
    apply export_names_In in Hk. destruct (wf_getvar _ _ _ W Hk) as [s [_ [-> Hl]]]. assumption.
  - apply in_app_or in H as [H|H].
    + destruct st; [|destruct H]. destruct H as [<-|[]]. rewrite col_of_cells_length. apply (wf_status _ _ W).
    + destruct it; [|destruct H]. destruct H as [<-|[]]. rewrite col_of_cells_length. apply (wf_iters _ _ W).
Qed.

(* ------------------------------------------------------------------ the index is the span *)
Lemma none_to_nan_id cs : existsb is_none cs = false -> map none_to_nan cs = cs.
Proof.
  induction cs as [|c r IH]; [reflexivity|]. cbn [existsb map]. intros H.
  apply orb_false_iff in H as [H1 H2]. rewrite IH by assumption. destruct c; try reflexivity. discriminate.
Qed.

Lemma to_float_cell_id cs : existsb is_none cs = false -> existsb is_int cs = false -> map to_float_cell cs = cs.
Proof.
  induction cs as [|c r IH]; [reflexivity|]. cbn [existsb map]. intros H H'.
  apply orb_false_iff in H as [H1 H2]. apply orb_false_iff in H' as [H3 H4].
  rewrite IH by assumption. destruct c; try reflexivity; discriminate.
Qed.

Lemma all_num_no_flt_int cs :
  forallb is_num_or_none cs = true -> existsb is_none cs = false -> existsb is_flt cs = false -> forallb is_int cs = true.
Proof.
  induction cs as [|c r IH]; [reflexivity|]. cbn [forallb existsb]. intros H1 H2 H3.
  apply andb_true_iff in H1 as [A1 A2]. apply orb_false_iff in H2 as [B1 B2]. apply orb_false_iff in H3 as [C1 C2].
  rewrite IH by assumption. destruct c; try discriminate; reflexivity.
Qed.

Lemma pd_infer_stable cs d cs' : pd_infer cs = Some (d, cs') -> label_stable cs = true -> cs' = cs.
Proof.
  unfold pd_infer, label_stable. destruct cs as [|c0 r]; [intros H _; inversion H; reflexivity|].
  cbv beta iota. set (l := c0 :: r). clearbody l.
  destruct (forallb is_none l) eqn:E1; [intros H _; inversion H; reflexivity|].
  cbn [orb]. intros H S. apply andb_true_iff in S as [S1 S2]. apply negb_true_iff in S1. apply negb_true_iff in S2.
  revert H.
  destruct (forallb is_int l) eqn:E2.
  { destruct (forallb cell_int64 l); [|destruct (forallb cell_uint64 l)]; intros H; inversion H; reflexivity. }
  destruct (forallb is_bool l); [intros H; inversion H; reflexivity|].
  destruct (forallb is_str l); [intros H; inversion H; reflexivity|].
  destruct (forallb is_str_or_none l); [intros H; inversion H; apply none_to_nan_id; assumption|].
  destruct (forallb is_num_or_none l) eqn:E3.
  { destruct (existsb out_int64 l); [discriminate|].
    intros H; inversion H. apply to_float_cell_id; [assumption|].
    destruct (existsb is_int l) eqn:E4; [|reflexivity].
    destruct (existsb is_flt l) eqn:E5; [rewrite andb_true_r in S2; discriminate|].
    rewrite (all_num_no_flt_int l E3 S1 E5) in E2. discriminate. }
  destruct (forallb is_ts l); [intros H; inversion H; reflexivity|].
  destruct (forallb is_td l); [intros H; inversion H; reflexivity|].
  destruct c0;
    repeat match goal with |- (if ?b then _ else _) = _ -> _ => destruct b end;
    try discriminate; intros H; inversion H; reflexivity.
Qed.

Lemma pd_index_stable s ix : pd_index s = Some ix -> span_stable s = true -> ilabels ix = splabels s.
Proof.
  unfold pd_index, span_stable. destruct (spkind s) eqn:K.
  - intros H _; inversion H; reflexivity.
  - destruct (splabels s) as [|c r] eqn:L.
    + cbn. intros H _; inversion H; reflexivity.
    + destruct (pd_infer (c :: r)) as [[d cs]|] eqn:P; [|discriminate].
      intros H S. rewrite <- (pd_infer_stable _ _ _ P S). destruct d; inversion H; reflexivity.
  - destruct (splabels s) as [|c r] eqn:L.
    + cbn. intros H _; inversion H; reflexivity.
    + destruct (pd_infer (c :: r)) as [[d cs]|] eqn:P; [|discriminate].
      intros H S. rewrite <- (pd_infer_stable _ _ _ P S). destruct d; inversion H; reflexivity.
  - destruct (splabels s) as [|c r] eqn:L.
    + intros H _; inversion H; reflexivity.
    + destruct (pd_infer (c :: r)) as [[d cs]|] eqn:P; [|discriminate].
      intros H S. rewrite <- (pd_infer_stable _ _ _ P S). destruct d; inversion H; reflexivity.
  - intros H _; inversion H; reflexivity.
Qed.

(* ------------------------------------------------------------------ linker_to_dataframes *)
Lemma dset_append {V} k (v : V) d : ~ In k (map fst d) -> dset k v d = d ++ [(k, v)].
Proof.
  induction d as [|[k' v'] d IH]; intros H; [reflexivity|]. cbn [dset app].
  destruct (cell_eqb k k') eqn:E.
  - apply cell_eqb_eq in E. exfalso. apply H. left. symmetry; assumption.
  - f_equal. apply IH. intros H'. apply H. right; assumption.
Qed.

Lemma linker_subs_ok st it ii (tab : fmodel -> table) subs : forall acc,
  NoDup (map fst subs) ->
  (forall k, In k (map fst subs) -> ~ In k (map fst acc)) ->
  (forall k m, In (k, m) subs -> model_to_table st it ii m = TOk (tab m)) ->
  linker_subs st it ii subs acc = TOk (acc ++ map (fun km => (fst km, tab (snd km))) subs).
Proof.
  induction subs as [|[k m] r IH]; intros acc Hnd Hdis Htab.
  - cbn [linker_subs map]. rewrite app_nil_r. reflexivity.
  - cbn [linker_subs map fst snd]. rewrite (Htab k m (or_introl eq_refl)). cbn [tbind].
    cbn [map fst] in Hnd, Hdis. inversion Hnd as [|? ? Hk Hr]; subst.
    rewrite dset_append by (apply Hdis; left; reflexivity).
    rewrite IH.
    + rewrite <- app_assoc. reflexivity.
    + assumption.
    + intros k' Hk'. rewrite map_app. cbn [map fst]. intros H. apply in_app_or in H as [H|[H|[]]].
      * apply (Hdis k'); [right; assumption|assumption].
      * subst. contradiction.
    + intros k' m' H. apply (Htab k'). right; assumption.
Qed.

Lemma linker_to_tables_spec st it ii (tab : fmodel -> table) l :
  NoDup (map fst (lsubs l)) -> ~ In (lname l) (map fst (lsubs l)) ->
  model_to_table st it ii (lmodel l) = TOk (tab (lmodel l)) ->
  (forall k m, In (k, m) (lsubs l) -> model_to_table st it ii m = TOk (tab m)) ->
  linker_to_tables st it ii l
  = TOk ((lname l, tab (lmodel l)) :: map (fun km => (fst km, tab (snd km))) (lsubs l)).
Proof.
  intros Hnd Hname H0 Hsubs. unfold linker_to_tables. rewrite H0. cbn [tbind].
  rewrite (linker_subs_ok st it ii tab); try assumption; [reflexivity|].
  intros k Hk. cbn [map fst]. intros [H|[]]. subst. contradiction.
Qed.

(* ------------------------------------------------------------------ from_dataframe after to_dataframe *)
Lemma cast_all_id d cs : Forall (fun c => np_cast d c = TOk c) cs -> cast_all d cs = TOk cs.
Proof.
  induction 1 as [|c r Hc Hr IH]; [reflexivity|]. cbn [cast_all]. rewrite Hc. cbn [tbind]. rewrite IH. reflexivity.
Qed.

Lemma np_cast_obj c : np_cast NObj c = TOk c.
Proof. reflexivity. Qed.

Lemma existsb_pcname (P : string -> bool) cols : existsb (fun col => P (pcname col)) cols = existsb P (map pcname cols).
Proof. induction cols as [|a r IH]; [reflexivity|]. cbn [existsb map]. rewrite IH. reflexivity. Qed.

Lemma existsb_false_iff {A} (P : A -> bool) l : existsb P l = false <-> forall x, In x l -> P x = false.
Proof.
  induction l as [|a r IH]; cbn [existsb].
  - split; [intros _ x []|reflexivity].
  - rewrite orb_false_iff, IH. split.
    + intros [H1 H2] x [<-|H]; auto.
    + intros H. split; [apply H; left; reflexivity|intros x Hx; apply H; right; assumption].
Qed.

Lemma filter_all_id {A} (f : A -> bool) l : (forall x, In x l -> f x = true) -> filter f l = l.
Proof.
  induction l as [|a r IH]; intros H; [reflexivity|]. cbn [filter]. rewrite (H a (or_introl eq_refl)).
  f_equal. apply IH. intros x Hx. apply H. right; assumption.
Qed.

Lemma init_params_pt k : mem_s k init_params = false ->
  mem_s k reserved_params = false /\ mem_s k opaque_params = false /\ String.eqb k "dtype" = false.
Proof.
  intros H. apply mem_s_false in H. unfold init_params in H. split; [|split].
  - apply mem_s_false. intros H'. apply H. apply in_or_app. left. assumption.
  - apply mem_s_false. intros H'. apply H. apply in_or_app. right. apply in_or_app. left. assumption.
  - destruct (String.eqb k "dtype") eqn:E; [|reflexivity]. apply String.eqb_eq in E. exfalso. apply H. subst.
    apply in_or_app. right. apply in_or_app. right. left. reflexivity.
Qed.

Lemma init_params_split cols : existsb (fun col => mem_s (pcname col) init_params) cols = false ->
  existsb (fun col => mem_s (pcname col) reserved_params) cols = false /\
  existsb (fun col => mem_s (pcname col) opaque_params) cols = false /\
  existsb (fun col => String.eqb (pcname col) "dtype") cols = false /\
  filter (fun col => negb (String.eqb (pcname col) "dtype")) cols = cols.
Proof.
  intros H. assert (P := proj1 (existsb_false_iff _ _) H). cbv beta in P.
  split; [|split; [|split]].
  - apply existsb_false_iff. intros x Hx. apply (init_params_pt _ (P x Hx)).
  - apply existsb_false_iff. intros x Hx. apply (init_params_pt _ (P x Hx)).
  - apply existsb_false_iff. intros x Hx. apply (init_params_pt _ (P x Hx)).
  - apply filter_all_id. intros x Hx. destruct (init_params_pt _ (P x Hx)) as [_ [_ E]]. rewrite E. reflexivity.
Qed.

Lemma has_dup_false l : NoDup l -> has_dup l = false.
Proof.
  induction 1 as [|a l Ha Hl IH]; [reflexivity|]. cbn [has_dup]. rewrite IH, orb_false_r.
  apply mem_s_false. assumption.
Qed.

Lemma init_vars_ok c n cols (f : string -> series) names :
  (forall k, In k names -> k <> "status" /\ k <> "iterations") ->
  (forall k, In k names -> find_col k cols = Some (col_of (k, f k))) ->
  (forall k, In k names -> sdt (f k) <> NObj /\ Forall (fun x => np_cast (cdtype c) x = TOk x) (scells (f k))) ->
  init_vars c n cols names = TOk (map (fun k => (k, mkSeries (cdtype c) (scells (f k)))) names).
Proof.
  induction names as [|k r IH]; intros Hn Hf Hc; [reflexivity|]. cbn [init_vars map].
  destruct (Hn k (or_introl eq_refl)) as [N1 N2].
  assert (E : mem_s k ["status"; "iterations"] = false).
  { apply mem_s_false. intros [H|[H|[]]]; congruence. }
  rewrite E, (Hf k (or_introl eq_refl)).
  destruct (Hc k (or_introl eq_refl)) as [T C].
  unfold col_values. rewrite (col_of_typed k (f k) T). cbn [pccells].
  rewrite (cast_all_id _ _ C). cbn [tbind].
  rewrite IH; [reflexivity| | |]; intros k' Hk'; [apply Hn|apply Hf|apply Hc]; right; assumption.
Qed.

Definition fresh_model (sp : span) (names : list string) (vars : list (string * series)) (n : nat) : fmodel :=
  mkModel sp names vars (mkSeries NStr (repeat (CStr "-") n)) (mkSeries NInt (repeat (CInt (-1)) n)).

Lemma from_to_roundtrip st it ii m ix c :
  wf_model m (length (splabels (fspan m))) ->
  cnames c = fnames m ->
  export_names ii m = fnames m ->
  (cstrict c = true -> st = false /\ it = false) ->
  (forall k, In k (fnames m) -> mem_s k init_params = false) ->
  (forall k, In k (fnames m) ->
     sdt (the_series m k) <> NObj /\ Forall (fun x => np_cast (cdtype c) x = TOk x) (scells (the_series m k))) ->
  from_table c (mkTable ix (export_cols st it ii m))
  = TOk (fresh_model (span_of_index ix) (fnames m)
           (map (fun k => (k, mkSeries (cdtype c) (scells (the_series m k)))) (fnames m)) (length (ilabels ix))).
Proof.
  intros W Hc Hall Hstrict Hparams Htyped. unfold from_table. cbn [tcols tindex].
  assert (E1 : existsb (fun col => mem_s (pcname col) init_params) (export_cols st it ii m) = false).
  { rewrite (existsb_pcname (fun k => mem_s k init_params)), export_cols_names, Hall.
    apply existsb_false_iff. intros x Hx. apply in_app_or in Hx as [Hx|Hx]; [apply Hparams; assumption|].
    apply in_app_or in Hx as [Hx|Hx].
    - destruct st; [|destruct Hx]. destruct Hx as [<-|[]]. reflexivity.
    - destruct it; [|destruct Hx]. destruct Hx as [<-|[]]. reflexivity. }
  destruct (init_params_split _ E1) as [P1 [P2 [P3 P4]]]. cbv zeta.
  rewrite P1, P2, P3, P4. rewrite Hc, (has_dup_false _ (wf_nodup _ _ W)).
  assert (E2 : cstrict c && existsb (fun col => negb (mem_s (pcname col) (fnames m))) (export_cols st it ii m) = false).
  { destruct (cstrict c) eqn:S; [|reflexivity]. destruct (Hstrict eq_refl) as [-> ->]. cbn [andb].
    rewrite (existsb_pcname (fun k => negb (mem_s k (fnames m)))), export_cols_names, Hall. cbn [app]. rewrite app_nil_r.
    apply existsb_false_iff. intros x Hx. apply negb_false_iff. apply mem_s_In. assumption. }
  rewrite E2.
  rewrite (init_vars_ok c _ _ (the_series m)).
  - reflexivity.
  - intros k Hk. split; intros ->; [apply (wf_nostatus _ _ W Hk)|apply (wf_noiter _ _ W Hk)].
  - intros k Hk. apply export_cols_var. rewrite Hall. assumption.
  - assumption.
Qed.

Definition cell_has_dtype (d : ndt) (c : cell) : bool :=
  match d, c with
  | NFloat, CFlt _ => true
  | NInt, CInt z => in_int64 z
  | NBool, CBool _ => true
  | NStr, CStr _ => true
  | _, _ => false
  end.

Lemma np_cast_same d c : cell_has_dtype d c = true -> np_cast d c = TOk c.
Proof.
  destruct d, c; cbn [cell_has_dtype np_cast]; intros H; try discriminate; try reflexivity.
  rewrite H. reflexivity.
Qed.

(* ------------------------------------------------------------------ symbols_to_dataframe / dataframe_to_symbols *)
Lemma pd_infer_cases l : l <> [] ->
  (forallb is_none l = true -> pd_infer l = Some (PObject, l)) /\
  (forallb is_none l = false -> forallb is_int l = true -> exists d, pd_infer l = Some (d, l)) /\
  (forallb is_none l = false -> forallb is_int l = false -> forallb is_bool l = false -> forallb is_str l = true ->
     pd_infer l = Some (PStrDt, l)) /\
  (forallb is_none l = false -> forallb is_int l = false -> forallb is_bool l = false -> forallb is_str l = false ->
     forallb is_str_or_none l = true -> pd_infer l = Some (PStrDt, map none_to_nan l)) /\
  (forallb is_none l = false -> forallb is_int l = false -> forallb is_bool l = false -> forallb is_str l = false ->
     forallb is_str_or_none l = false -> forallb is_num_or_none l = true -> existsb out_int64 l = false ->
     pd_infer l = Some (PFloat64, map to_float_cell l)).
Proof.
  intros Hne. destruct l as [|c0 r]; [contradiction|]. unfold pd_infer. set (l := c0 :: r).
  repeat split.
  - intros ->. reflexivity.
  - intros -> ->. destruct (forallb cell_int64 l); [|destruct (forallb cell_uint64 l)]; eexists; reflexivity.
  - intros -> -> -> ->. reflexivity.
  - intros -> -> -> -> ->. reflexivity.
  - intros -> -> -> -> -> -> ->. reflexivity.
Qed.

Lemma type_of_value_value t : type_of_value (type_value t) = Some t.
Proof. destruct t; vm_compute; reflexivity. Qed.

Lemma rne53_small z : Z.abs z <=? two53 = true -> rne53 z = z.
Proof. intros H. unfold rne53. rewrite H. reflexivity. Qed.

(* -- optional text columns: name, equation, code -- *)
Lemma conv_ostr os : map convert_to_str_or_none (map cell_of_ostr os) = os.
Proof. induction os as [|[s|] r IH]; cbn [map cell_of_ostr convert_to_str_or_none]; rewrite ?IH; reflexivity. Qed.

Lemma conv_ostr_nan os : map convert_to_str_or_none (map none_to_nan (map cell_of_ostr os)) = os.
Proof. induction os as [|[s|] r IH]; cbn [map cell_of_ostr none_to_nan convert_to_str_or_none]; rewrite ?IH; reflexivity. Qed.

Lemma ostr_all_str_or_none os : forallb is_str_or_none (map cell_of_ostr os) = true.
Proof. induction os as [|[s|] r IH]; cbn [map forallb cell_of_ostr is_str_or_none andb]; auto. Qed.

Lemma ostr_column name o r :
  exists d cs, mk_column name (map cell_of_ostr (o :: r)) = Some (mkCol name d cs)
               /\ map convert_to_str_or_none cs = o :: r.
Proof.
  unfold mk_column. set (l := map cell_of_ostr (o :: r)).
  assert (Hne : l <> []) by (subst l; discriminate).
  destruct (pd_infer_cases l Hne) as [C1 [_ [C3 [C4 _]]]].
  assert (Ei : forallb is_int l = false) by (subst l; destruct o; reflexivity).
  assert (Eb : forallb is_bool l = false) by (subst l; destruct o; reflexivity).
  destruct (forallb is_none l) eqn:E1.
  - rewrite (C1 eq_refl). eexists; eexists; split; [reflexivity|]. subst l. apply conv_ostr.
  - destruct (forallb is_str l) eqn:E2.
    + rewrite (C3 eq_refl Ei Eb eq_refl). eexists; eexists; split; [reflexivity|]. subst l. apply conv_ostr.
    + rewrite (C4 eq_refl Ei Eb eq_refl (ostr_all_str_or_none _)). eexists; eexists; split; [reflexivity|].
      subst l. apply conv_ostr_nan.
Qed.

(* -- the type column -- *)
Lemma type_column t r :
  exists d, mk_column "type" (map (fun s => CInt (type_value (stype s))) (t :: r))
            = Some (mkCol "type" d (map (fun s => CInt (type_value (stype s))) (t :: r))).
Proof.
  unfold mk_column. set (l := map (fun s => CInt (type_value (stype s))) (t :: r)).
  assert (Hne : l <> []) by (subst l; discriminate).
  destruct (pd_infer_cases l Hne) as [_ [C2 _]].
  assert (En : forallb is_none l = false) by (subst l; reflexivity).
  assert (Ei : forallb is_int l = true).
  { subst l. clear. generalize (t :: r). intros ss. induction ss as [|a ss IH]; [reflexivity|]. cbn [map forallb is_int andb]. assumption. }
  destruct (C2 En Ei) as [d ->]. exists d. reflexivity.
Qed.

Lemma conv_type ss : map type_of_cell (map (fun s => CInt (type_value (stype s))) ss) = map (fun s => TOk (stype s)) ss.
Proof.
  induction ss as [|s r IH]; [reflexivity|]. cbn [map type_of_cell]. rewrite type_of_value_value, IH. reflexivity.
Qed.

(* -- lags / leads -- *)
Definition idx_ok (o : option pidx) : bool :=
  match o with None => true | Some (IInt _) => true | Some (IStr _) => false end.
Definition idx_exact (o : option pidx) : bool :=
  match o with Some (IInt z) => Z.abs z <=? two53 | _ => true end.
Definition idx_col_ok (os : list (option pidx)) : bool :=
  forallb idx_ok os && (negb (existsb is_None os) || forallb idx_exact os).
(* the guard the round trip needs: every lag / lead is None or an int (of any size), and a column that holds a None holds
   only integers that float64 represents exactly *)
Definition sym_wf (ss : list symbol) : bool := idx_col_ok (map slags ss) && idx_col_ok (map sleads ss).

Definition enc_idx (o : option pidx) : cell := match o with Some (IInt z) => CInt z | _ => CNone end.

Lemma idx_cells_enc os : forallb idx_ok os = true -> idx_cells os = Some (map enc_idx os).
Proof.
  unfold idx_cells. induction os as [|o r IH]; [reflexivity|].
  cbn [forallb map all_some]. intros H. apply andb_true_iff in H as [H1 H2].
  destruct o as [[z|s]|]; cbn [idx_ok] in H1; try discriminate; cbn [cell_of_oidx enc_idx]; rewrite (IH H2); reflexivity.
Qed.

Lemma enc_no_big os : forallb idx_exact os = true -> existsb out_int64 (map enc_idx os) = false.
Proof.
  induction os as [|o r IH]; [reflexivity|]. cbn [forallb map existsb]. intros H. apply andb_true_iff in H as [H1 H2].
  rewrite (IH H2), orb_false_r. destruct o as [[z|s]|]; cbn [enc_idx out_int64]; try reflexivity.
  cbn [idx_exact] in H1. apply negb_false_iff. unfold in_int64, int64_min, int64_max. apply Z.leb_le in H1. unfold two53 in H1.
  apply andb_true_iff. split; apply Z.leb_le; lia.
Qed.

Lemma conv_enc os : forallb idx_ok os = true -> map convert_to_int_or_none (map enc_idx os) = map TOk os.
Proof.
  induction os as [|o r IH]; [reflexivity|]. cbn [forallb map]. intros H. apply andb_true_iff in H as [H1 H2].
  rewrite (IH H2). destruct o as [[z|s]|]; cbn [idx_ok] in H1; try discriminate; cbn [enc_idx convert_to_int_or_none]; reflexivity.
Qed.

Lemma conv_enc_float os : forallb idx_ok os = true -> forallb idx_exact os = true ->
  map convert_to_int_or_none (map to_float_cell (map enc_idx os)) = map TOk os.
Proof.
  induction os as [|o r IH]; [reflexivity|]. cbn [forallb map]. intros H H'.
  apply andb_true_iff in H as [H1 H2]. apply andb_true_iff in H' as [H3 H4].
  rewrite (IH H2 H4). destruct o as [[z|s]|]; cbn [idx_ok] in H1; try discriminate;
    cbn [enc_idx to_float_cell convert_to_int_or_none f64_of_Z Z_of_f64].
  - cbn [idx_exact] in H3. rewrite (rne53_small z H3). reflexivity.
  - reflexivity.
Qed.

Lemma enc_no_none_all_int os : forallb idx_ok os = true -> existsb is_None os = false -> forallb is_int (map enc_idx os) = true.
Proof.
  induction os as [|o r IH]; [reflexivity|]. cbn [forallb existsb map]. intros H H'.
  apply andb_true_iff in H as [H1 H2]. apply orb_false_iff in H' as [H3 H4].
  rewrite (IH H2 H4). destruct o as [[z|s]|]; cbn [idx_ok is_None] in *; try discriminate. reflexivity.
Qed.

Lemma enc_str_or_none os : forallb is_str_or_none (map enc_idx os) = true -> forallb is_none (map enc_idx os) = true.
Proof.
  induction os as [|o r IH]; [reflexivity|]. cbn [forallb map]. intros H. apply andb_true_iff in H as [H1 H2].
  rewrite (IH H2). destruct o as [[z|s]|]; cbn [enc_idx is_str_or_none] in H1; try discriminate; reflexivity.
Qed.

Lemma enc_num_or_none os : forallb idx_ok os = true -> forallb is_num_or_none (map enc_idx os) = true.
Proof.
  induction os as [|o r IH]; [reflexivity|]. cbn [forallb map]. intros H. apply andb_true_iff in H as [H1 H2].
  rewrite (IH H2). destruct o as [[z|s]|]; cbn [idx_ok] in H1; try discriminate; cbn [enc_idx is_num_or_none]; reflexivity.
Qed.

Lemma idx_column name o r : idx_col_ok (o :: r) = true ->
  exists cs0 d cs, idx_cells (o :: r) = Some cs0 /\ mk_column name cs0 = Some (mkCol name d cs)
                   /\ map convert_to_int_or_none cs = map TOk (o :: r).
Proof.
  unfold idx_col_ok. intros H. apply andb_true_iff in H as [Hok Hex].
  exists (map enc_idx (o :: r)). rewrite (idx_cells_enc _ Hok).
  unfold mk_column. set (l := map enc_idx (o :: r)).
  assert (Hne : l <> []) by (subst l; discriminate).
  destruct (pd_infer_cases l Hne) as [C1 [C2 [_ [_ C5]]]].
  destruct (forallb is_none l) eqn:E1.
  { rewrite (C1 eq_refl). eexists; eexists; split; [reflexivity|split; [reflexivity|]]. subst l. apply conv_enc; assumption. }
  destruct (forallb is_int l) eqn:E2.
  { destruct (C2 eq_refl eq_refl) as [d ->]. eexists; eexists; split; [reflexivity|split; [reflexivity|]]. subst l. apply conv_enc; assumption. }
  assert (Eb : forallb is_bool l = false) by (subst l; destruct o as [[z|s]|]; reflexivity).
  assert (Es : forallb is_str l = false) by (subst l; destruct o as [[z|s]|]; reflexivity).
  assert (Eo : forallb is_str_or_none l = false).
  { destruct (forallb is_str_or_none l) eqn:E; [|reflexivity]. subst l. rewrite (enc_str_or_none _ E) in E1. discriminate. }
  assert (En : forallb is_num_or_none l = true) by (subst l; apply enc_num_or_none; assumption).
  assert (Hx : forallb idx_exact (o :: r) = true).
  { destruct (existsb is_None (o :: r)) eqn:EN.
    - cbn [negb orb] in Hex. assumption.
    - subst l. rewrite (enc_no_none_all_int _ Hok EN) in E2. discriminate. }
  rewrite (C5 eq_refl eq_refl Eb Es Eo En (enc_no_big _ Hx)). eexists; eexists; split; [reflexivity|split; [reflexivity|]].
  subst l. apply conv_enc_float; assumption.
Qed.

(* -- rows -- *)
Lemma rows_ok ss : forall nm ty lg ld eq cd,
  map convert_to_str_or_none nm = map sname ss ->
  map type_of_cell ty = map (fun s => TOk (stype s)) ss ->
  map convert_to_int_or_none lg = map (fun s => TOk (slags s)) ss ->
  map convert_to_int_or_none ld = map (fun s => TOk (sleads s)) ss ->
  map convert_to_str_or_none eq = map sequation ss ->
  map convert_to_str_or_none cd = map scode ss ->
  rows_to_symbols nm ty lg ld eq cd = TOk ss.
Proof.
  induction ss as [|s r IH]; intros nm ty lg ld eq cd H1 H2 H3 H4 H5 H6.
  - apply map_eq_nil in H1, H2, H3, H4, H5, H6. subst. reflexivity.
  - destruct nm as [|a nm]; [discriminate|]. destruct ty as [|b ty]; [discriminate|].
    destruct lg as [|c lg]; [discriminate|]. destruct ld as [|d ld]; [discriminate|].
    destruct eq as [|e eq]; [discriminate|]. destruct cd as [|f cd]; [discriminate|].
    cbn [map] in *. injection H1 as A1 A2. injection H2 as B1 B2. injection H3 as C1 C2.
    injection H4 as D1 D2. injection H5 as E1 E2. injection H6 as F1 F2.
    cbn [rows_to_symbols]. unfold symbol_of_row. rewrite B1, C1, D1. cbn [tbind].
    rewrite (IH nm ty lg ld eq cd A2 B2 C2 D2 E2 F2). cbn [tbind].
    rewrite A1, E1, F1. destruct s; reflexivity.
Qed.

Lemma symbols_roundtrip_ok ss : sym_wf ss = true -> symbols_roundtrip ss = TOk ss.
Proof.
  intros W. unfold symbols_roundtrip, symbols_to_table. destruct ss as [|s r]; [reflexivity|].
  set (ss := s :: r) in *. unfold sym_wf in W. apply andb_true_iff in W as [Wl Wd].
  destruct (idx_column "lags" (slags s) (map slags r) Wl) as [lg0 [d3 [lg [L1 [L2 L3]]]]].
  destruct (idx_column "leads" (sleads s) (map sleads r) Wd) as [ld0 [d4 [ld [D1 [D2 D3]]]]].
  destruct (ostr_column "name" (sname s) (map sname r)) as [d1 [nm [N1 N2]]].
  destruct (ostr_column "equation" (sequation s) (map sequation r)) as [d5 [eq [Q1 Q2]]].
  destruct (ostr_column "code" (scode s) (map scode r)) as [d6 [cd [K1 K2]]].
  destruct (type_column s r) as [d2 T1].
  change (map slags ss) with (slags s :: map slags r). change (map sleads ss) with (sleads s :: map sleads r).
  rewrite L1, D1.
  rewrite <- (map_map sname cell_of_ostr ss), <- (map_map sequation cell_of_ostr ss), <- (map_map scode cell_of_ostr ss).
  change (map sname ss) with (sname s :: map sname r). change (map sequation ss) with (sequation s :: map sequation r).
  change (map scode ss) with (scode s :: map scode r).
  rewrite N1, Q1, K1, L2, D2. unfold ss at 1. rewrite T1. cbn [tbind].
  unfold table_to_symbols. cbn [tindex ilabels tcols length seq map].
  cbn [find_col pcname String.eqb Ascii.eqb Bool.eqb existsb mem_s symbol_fields negb orb col_values pccells].
  apply rows_ok.
  - assumption.
  - exact (conv_type (s :: r)).
  - rewrite L3. unfold ss. cbn [map]. rewrite map_map. reflexivity.
  - rewrite D3. unfold ss. cbn [map]. rewrite map_map. reflexivity.
  - assumption.
  - assumption.
Qed.

(* ------------------------------------------------------------------ the statements of Props/C19.v *)
Lemma export_columns_in_model_order st it ii m ix :
  wf_model m (length (splabels (fspan m))) -> pd_index (fspan m) = Some ix ->
  exists t, model_to_table st it ii m = TOk t /\ tindex t = ix /\
    map pcname (tcols t)
    = (if ii then fnames m else filter (fun x => negb (starts_underscore x)) (fnames m))
      ++ (if st then ["status"] else []) ++ (if it then ["iterations"] else []).
Proof.
  intros W H. eexists. split; [apply model_to_table_spec; eassumption|]. split; [reflexivity|].
  cbn [tcols]. rewrite export_cols_names. unfold export_names. reflexivity.
Qed.

Lemma export_cells_and_dtypes st it ii m ix k s :
  wf_model m (length (splabels (fspan m))) -> pd_index (fspan m) = Some ix ->
  In k (fnames m) -> (ii = true \/ starts_underscore k = false) ->
  assoc_s k (fvars m) = Some s -> sdt s <> NObj ->
  exists t, model_to_table st it ii m = TOk t /\
            find_col k (tcols t) = Some (mkCol k (pdt_of_ndt (sdt s)) (scells s)).
Proof.
  intros W H Hk Hii Hs Hd. eexists. split; [apply model_to_table_spec; eassumption|]. cbn [tcols].
  assert (Hx : In k (export_names ii m)).
  { unfold export_names. destruct ii; [assumption|]. apply filter_In. split; [assumption|].
    destruct Hii as [Hii|Hii]; [discriminate|]. rewrite Hii. reflexivity. }
  rewrite (export_cols_var st it ii m k Hx).
  destruct (wf_getvar _ _ _ W Hk) as [s' [Hg [-> _]]].
  rewrite getvar_name in Hg.
  - rewrite Hs in Hg. inversion Hg; subst. rewrite col_of_typed by assumption. reflexivity.
  - intros ->. apply (wf_nostatus _ _ W Hk).
  - intros ->. apply (wf_noiter _ _ W Hk).
Qed.

Lemma find_col_none k l : ~ In k (map pcname l) -> find_col k l = None.
Proof.
  induction l as [|a r IH]; intros H; [reflexivity|]. cbn [find_col].
  destruct (String.eqb k (pcname a)) eqn:E.
  - apply String.eqb_eq in E. exfalso. apply H. left. symmetry; assumption.
  - apply IH. intros H'. apply H. right; assumption.
Qed.

Lemma export_status_iterations st it ii m ix :
  wf_model m (length (splabels (fspan m))) -> pd_index (fspan m) = Some ix ->
  exists t, model_to_table st it ii m = TOk t /\
    find_col "status" (tcols t) = (if st then Some (col_of ("status", fstatus m)) else None) /\
    find_col "iterations" (tcols t) = (if it then Some (col_of ("iterations", fiters m)) else None).
Proof.
  intros W H. eexists. split; [apply model_to_table_spec; eassumption|]. cbn [tcols].
  pose proof (wf_nostatus _ _ W) as N1. pose proof (wf_noiter _ _ W) as N2.
  assert (X1 : ~ In "status" (export_names ii m)) by (intros H'; apply export_names_In in H'; contradiction).
  assert (X2 : ~ In "iterations" (export_names ii m)) by (intros H'; apply export_names_In in H'; contradiction).
  split.
  - destruct st; [apply export_cols_status; assumption|].
    apply find_col_none. rewrite export_cols_names. cbn [app]. intros H'.
    apply in_app_or in H' as [H'|H']; [contradiction|]. destruct it; [destruct H' as [H'|[]]; discriminate|destruct H'].
  - destruct it; [apply export_cols_iterations; assumption|].
    apply find_col_none. rewrite export_cols_names. rewrite app_nil_r. intros H'.
    apply in_app_or in H' as [H'|H']; [contradiction|]. destruct st; [destruct H' as [H'|[]]; discriminate|destruct H'].
Qed.

Lemma export_one_row_per_period st it ii m ix :
  wf_model m (length (splabels (fspan m))) -> pd_index (fspan m) = Some ix ->
  exists t, model_to_table st it ii m = TOk t /\
    length (ilabels (tindex t)) = length (splabels (fspan m)) /\
    forall c, In c (tcols t) -> length (pccells c) = length (splabels (fspan m)).
Proof.
  intros W H. eexists. split; [apply model_to_table_spec; eassumption|]. cbn [tindex tcols]. split.
  - apply pd_index_length. assumption.
  - apply export_cols_rows. assumption.
Qed.

Lemma export_underscore_only_when_requested st it ii m ix :
  wf_model m (length (splabels (fspan m))) -> pd_index (fspan m) = Some ix ->
  exists t, model_to_table st it ii m = TOk t /\
    (forall k, In k (fnames m) -> (In k (map pcname (tcols t)) <-> (ii = true \/ starts_underscore k = false))).
Proof.
  intros W H. eexists. split; [apply model_to_table_spec; eassumption|]. cbn [tcols].
  intros k Hk. rewrite export_cols_names. split.
  - intros H'. apply in_app_or in H' as [H'|H'].
    + unfold export_names in H'. destruct ii; [left; reflexivity|]. apply filter_In in H' as [_ H'].
      right. apply negb_true_iff. assumption.
    + exfalso. apply in_app_or in H' as [H'|H'].
      * destruct st; [|destruct H']. destruct H' as [<-|[]]. apply (wf_nostatus _ _ W Hk).
      * destruct it; [|destruct H']. destruct H' as [<-|[]]. apply (wf_noiter _ _ W Hk).
  - intros H'. apply in_or_app. left. unfold export_names. destruct ii; [assumption|].
    apply filter_In. split; [assumption|]. destruct H' as [H'|H']; [discriminate|]. rewrite H'. reflexivity.
Qed.

Lemma export_index_is_span st it ii m ix :
  wf_model m (length (splabels (fspan m))) -> pd_index (fspan m) = Some ix -> span_stable (fspan m) = true ->
  exists t, model_to_table st it ii m = TOk t /\ ilabels (tindex t) = splabels (fspan m).
Proof.
  intros W H S. eexists. split; [apply model_to_table_spec; eassumption|]. cbn [tindex].
  apply pd_index_stable; assumption.
Qed.

Lemma linker_tables st it ii l (ix : fmodel -> pindex) :
  NoDup (map fst (lsubs l)) -> ~ In (lname l) (map fst (lsubs l)) ->
  (forall m, m = lmodel l \/ In m (map snd (lsubs l)) ->
             wf_model m (length (splabels (fspan m))) /\ pd_index (fspan m) = Some (ix m)) ->
  linker_to_tables st it ii l
  = TOk ((lname l, mkTable (ix (lmodel l)) (export_cols st it ii (lmodel l)))
         :: map (fun km => (fst km, mkTable (ix (snd km)) (export_cols st it ii (snd km)))) (lsubs l)).
Proof.
  intros Hnd Hn Hall.
  apply (linker_to_tables_spec st it ii (fun m => mkTable (ix m) (export_cols st it ii m))); try assumption.
  - destruct (Hall (lmodel l) (or_introl eq_refl)) as [W H]. apply model_to_table_spec; assumption.
  - intros k m Hkm. destruct (Hall m) as [W H].
    + right. apply in_map_iff. exists (k, m). split; [reflexivity|assumption].
    + apply model_to_table_spec; assumption.
Qed.

Lemma from_to_roundtrip_same_dtype st it ii m ix c :
  wf_model m (length (splabels (fspan m))) -> pd_index (fspan m) = Some ix -> span_stable (fspan m) = true ->
  cnames c = fnames m ->
  (ii = true \/ forall k, In k (fnames m) -> starts_underscore k = false) ->
  (cstrict c = true -> st = false /\ it = false) ->
  (forall k, In k (fnames m) -> mem_s k init_params = false) ->
  (forall k s, In k (fnames m) -> assoc_s k (fvars m) = Some s ->
     sdt s = cdtype c /\ sdt s <> NObj /\ forallb (cell_has_dtype (cdtype c)) (scells s) = true) ->
  exists t m', model_to_table st it ii m = TOk t /\ from_table c t = TOk m' /\
    splabels (fspan m') = splabels (fspan m) /\ fnames m' = fnames m /\
    (forall k, In k (fnames m) -> assoc_s k (fvars m') = assoc_s k (fvars m)) /\
    fstatus m' = mkSeries NStr (repeat (CStr "-") (length (splabels (fspan m)))) /\
    fiters m' = mkSeries NInt (repeat (CInt (-1)) (length (splabels (fspan m)))).
Proof.
  intros W H S Hc Hii Hstrict Hparams Htyped.
  assert (Hall : export_names ii m = fnames m).
  { unfold export_names. destruct Hii as [->|Hii]; [reflexivity|]. destruct ii; [reflexivity|].
    apply filter_all_id. intros x Hx. rewrite (Hii x Hx). reflexivity. }
  assert (Hser : forall k, In k (fnames m) -> exists s, assoc_s k (fvars m) = Some s /\ the_series m k = s).
  { intros k Hk. destruct (wf_getvar _ _ _ W Hk) as [s [Hg [Hs _]]]. exists s. split; [|assumption].
    rewrite getvar_name in Hg; [assumption| |]; intros ->; [apply (wf_nostatus _ _ W Hk)|apply (wf_noiter _ _ W Hk)]. }
  eexists. eexists. split; [apply model_to_table_spec; eassumption|]. split.
  - apply from_to_roundtrip; try assumption.
    intros k Hk. destruct (Hser k Hk) as [s [Hs ->]]. destruct (Htyped k s Hk Hs) as [_ [T C]]. split; [assumption|].
    apply Forall_forall. intros x Hx. apply np_cast_same. rewrite forallb_forall in C. apply C. assumption.
  - unfold fresh_model. cbn [fspan fnames fvars fstatus fiters].
    pose proof (pd_index_length _ _ H) as Hn. pose proof (pd_index_stable _ _ H S) as Hl.
    split.
    { unfold span_of_index. destruct (is_time_index (ikd ix)); cbn [splabels]; assumption. }
    split; [reflexivity|]. split.
    { intros k Hk. destruct (Hser k Hk) as [s [Hs Hts]]. rewrite Hs.
      assert (G : forall names, In k names -> (forall k', In k' names -> In k' (fnames m)) ->
                  assoc_s k (map (fun k0 => (k0, mkSeries (cdtype c) (scells (the_series m k0)))) names)
                  = Some (mkSeries (cdtype c) (scells (the_series m k)))).
      { induction names as [|a r IH]; intros Hin Hsub; [destruct Hin|]. cbn [map assoc_s].
        destruct (String.eqb k a) eqn:E.
        - apply String.eqb_eq in E. subst. reflexivity.
        - destruct Hin as [->|Hin]; [rewrite String.eqb_refl in E; discriminate|].
          apply IH; [assumption|]. intros k' Hk'. apply Hsub. right; assumption. }
      rewrite (G (fnames m) Hk (fun k' h => h)). rewrite Hts.
      destruct (Htyped k s Hk Hs) as [<- _]. destruct s; reflexivity. }
    rewrite Hn. split; reflexivity.
Qed.

Lemma from_to_roundtrip_object st it ii m ix c :
  wf_model m (length (splabels (fspan m))) -> pd_index (fspan m) = Some ix -> span_stable (fspan m) = true ->
  cnames c = fnames m -> cdtype c = NObj ->
  (ii = true \/ forall k, In k (fnames m) -> starts_underscore k = false) ->
  (cstrict c = true -> st = false /\ it = false) ->
  (forall k, In k (fnames m) -> mem_s k init_params = false) ->
  (forall k s, In k (fnames m) -> assoc_s k (fvars m) = Some s -> sdt s <> NObj) ->
  exists t m', model_to_table st it ii m = TOk t /\ from_table c t = TOk m' /\
    splabels (fspan m') = splabels (fspan m) /\ fnames m' = fnames m /\
    (forall k s, In k (fnames m) -> assoc_s k (fvars m) = Some s ->
                 assoc_s k (fvars m') = Some (mkSeries NObj (scells s))).
Proof.
  intros W H S Hc Hd Hii Hstrict Hparams Htyped.
  assert (Hall : export_names ii m = fnames m).
  { unfold export_names. destruct Hii as [->|Hii]; [reflexivity|]. destruct ii; [reflexivity|].
    apply filter_all_id. intros x Hx. rewrite (Hii x Hx). reflexivity. }
  assert (Hser : forall k, In k (fnames m) -> exists s, assoc_s k (fvars m) = Some s /\ the_series m k = s).
  { intros k Hk. destruct (wf_getvar _ _ _ W Hk) as [s [Hg [Hs _]]]. exists s. split; [|assumption].
    rewrite getvar_name in Hg; [assumption| |]; intros ->; [apply (wf_nostatus _ _ W Hk)|apply (wf_noiter _ _ W Hk)]. }
  eexists. eexists. split; [apply model_to_table_spec; eassumption|]. split.
  - apply from_to_roundtrip; try assumption.
    intros k Hk. destruct (Hser k Hk) as [s [Hs ->]]. split; [apply (Htyped k s Hk Hs)|].
    apply Forall_forall. intros x _. rewrite Hd. reflexivity.
  - unfold fresh_model. cbn [fspan fnames fvars].
    pose proof (pd_index_stable _ _ H S) as Hl.
    split.
    { unfold span_of_index. destruct (is_time_index (ikd ix)); cbn [splabels]; assumption. }
    split; [reflexivity|].
    intros k s Hk Hs. destruct (Hser k Hk) as [s' [Hs' Hts]]. rewrite Hs in Hs'. injection Hs' as Ess. rewrite <- Ess in Hts.
    assert (G : forall names, In k names ->
                assoc_s k (map (fun k0 => (k0, mkSeries (cdtype c) (scells (the_series m k0)))) names)
                = Some (mkSeries (cdtype c) (scells (the_series m k)))).
    { induction names as [|a r IH]; intros Hin; [destruct Hin|]. cbn [map assoc_s].
      destruct (String.eqb k a) eqn:E.
      - apply String.eqb_eq in E. subst. reflexivity.
      - destruct Hin as [->|Hin]; [rewrite String.eqb_refl in E; discriminate|]. apply IH; assumption. }
    rewrite (G (fnames m) Hk), Hts, Hd. reflexivity.
Qed.

Lemma linker_tables_full st it ii l (ix : fmodel -> pindex) :
  NoDup (map fst (lsubs l)) -> ~ In (lname l) (map fst (lsubs l)) ->
  (forall m, m = lmodel l \/ In m (map snd (lsubs l)) ->
             wf_model m (length (splabels (fspan m))) /\ pd_index (fspan m) = Some (ix m)) ->
  linker_to_tables st it ii l
  = TOk ((lname l, mkTable (ix (lmodel l)) (export_cols st it ii (lmodel l)))
         :: map (fun km => (fst km, mkTable (ix (snd km)) (export_cols st it ii (snd km)))) (lsubs l))
  /\ (forall m, m = lmodel l \/ In m (map snd (lsubs l)) ->
                model_to_table st it ii m = TOk (mkTable (ix m) (export_cols st it ii m))).
Proof.
  intros Hnd Hn Hall. split; [apply linker_tables; assumption|].
  intros m Hm. destruct (Hall m Hm) as [W H]. apply model_to_table_spec; assumption.
Qed.

(* ------------------------------------------------------------------ from_dataframe with a cast that is not the identity *)
Lemma cast_all_map d (g : cell -> cell) cs : Forall (fun c => np_cast d c = TOk (g c)) cs -> cast_all d cs = TOk (map g cs).
Proof.
  induction 1 as [|c r Hc Hr IH]; [reflexivity|]. cbn [cast_all map]. rewrite Hc. cbn [tbind]. rewrite IH. reflexivity.
Qed.

Lemma init_vars_map c n cols (f : string -> series) (g : cell -> cell) names :
  (forall k, In k names -> k <> "status" /\ k <> "iterations") ->
  (forall k, In k names -> find_col k cols = Some (col_of (k, f k))) ->
  (forall k, In k names -> sdt (f k) <> NObj /\ Forall (fun x => np_cast (cdtype c) x = TOk (g x)) (scells (f k))) ->
  init_vars c n cols names = TOk (map (fun k => (k, mkSeries (cdtype c) (map g (scells (f k))))) names).
Proof.
  induction names as [|k r IH]; intros Hn Hf Hc; [reflexivity|]. cbn [init_vars map].
  destruct (Hn k (or_introl eq_refl)) as [N1 N2].
  assert (E : mem_s k ["status"; "iterations"] = false).
  { apply mem_s_false. intros [H|[H|[]]]; congruence. }
  rewrite E, (Hf k (or_introl eq_refl)).
  destruct (Hc k (or_introl eq_refl)) as [T C].
  unfold col_values. rewrite (col_of_typed k (f k) T). cbn [pccells].
  rewrite (cast_all_map _ g _ C). cbn [tbind].
  rewrite IH; [reflexivity| | |]; intros k' Hk'; [apply Hn|apply Hf|apply Hc]; right; assumption.
Qed.

Lemma from_to_map st it ii m ix c (g : cell -> cell) :
  wf_model m (length (splabels (fspan m))) ->
  cnames c = fnames m ->
  export_names ii m = fnames m ->
  (cstrict c = true -> st = false /\ it = false) ->
  (forall k, In k (fnames m) -> mem_s k init_params = false) ->
  (forall k, In k (fnames m) ->
     sdt (the_series m k) <> NObj /\ Forall (fun x => np_cast (cdtype c) x = TOk (g x)) (scells (the_series m k))) ->
  from_table c (mkTable ix (export_cols st it ii m))
  = TOk (fresh_model (span_of_index ix) (fnames m)
           (map (fun k => (k, mkSeries (cdtype c) (map g (scells (the_series m k))))) (fnames m)) (length (ilabels ix))).
Proof.
  intros W Hc Hall Hstrict Hparams Htyped. unfold from_table. cbn [tcols tindex].
  assert (E1 : existsb (fun col => mem_s (pcname col) init_params) (export_cols st it ii m) = false).
  { rewrite (existsb_pcname (fun k => mem_s k init_params)), export_cols_names, Hall.
    apply existsb_false_iff. intros x Hx. apply in_app_or in Hx as [Hx|Hx]; [apply Hparams; assumption|].
    apply in_app_or in Hx as [Hx|Hx].
    - destruct st; [|destruct Hx]. destruct Hx as [<-|[]]. reflexivity.
    - destruct it; [|destruct Hx]. destruct Hx as [<-|[]]. reflexivity. }
  destruct (init_params_split _ E1) as [P1 [P2 [P3 P4]]]. cbv zeta.
  rewrite P1, P2, P3, P4. rewrite Hc, (has_dup_false _ (wf_nodup _ _ W)).
  assert (E2 : cstrict c && existsb (fun col => negb (mem_s (pcname col) (fnames m))) (export_cols st it ii m) = false).
  { destruct (cstrict c) eqn:S; [|reflexivity]. destruct (Hstrict eq_refl) as [-> ->]. cbn [andb].
    rewrite (existsb_pcname (fun k => negb (mem_s k (fnames m)))), export_cols_names, Hall. cbn [app]. rewrite app_nil_r.
    apply existsb_false_iff. intros x Hx. apply negb_false_iff. apply mem_s_In. assumption. }
  rewrite E2.
  rewrite (init_vars_map c _ _ (the_series m) g).
  - reflexivity.
  - intros k Hk. split; intros ->; [apply (wf_nostatus _ _ W Hk)|apply (wf_noiter _ _ W Hk)].
  - intros k Hk. apply export_cols_var. rewrite Hall. assumption.
  - assumption.
Qed.

(* the class default dtype float applied to float / int / bool series: exact while |int| <= 2^53 *)
Definition float_exact (c : cell) : bool :=
  match c with CFlt _ | CBool _ => true | CInt z => Z.abs z <=? two53 | _ => false end.
Definition to_float_exact (c : cell) : cell :=
  match c with CInt z => CFlt (FInt z) | CBool b => CFlt (FInt (if b then 1 else 0)) | _ => c end.

Lemma np_cast_float_exact c : float_exact c = true -> np_cast NFloat c = TOk (to_float_exact c).
Proof.
  destruct c; cbn [float_exact np_cast to_float_exact]; intros H; try discriminate; try reflexivity.
  assert (I : in_int64 z = true).
  { unfold in_int64, int64_min, int64_max. apply Z.leb_le in H. unfold two53 in H. apply andb_true_iff. split; apply Z.leb_le; lia. }
  rewrite I. unfold f64_of_Z. rewrite (rne53_small z H). reflexivity.
Qed.

Lemma from_to_default_float st it ii m ix c :
  wf_model m (length (splabels (fspan m))) -> pd_index (fspan m) = Some ix -> span_stable (fspan m) = true ->
  cnames c = fnames m -> cdtype c = NFloat ->
  (ii = true \/ forall k, In k (fnames m) -> starts_underscore k = false) ->
  (cstrict c = true -> st = false /\ it = false) ->
  (forall k, In k (fnames m) -> mem_s k init_params = false) ->
  (forall k s, In k (fnames m) -> assoc_s k (fvars m) = Some s ->
     sdt s <> NObj /\ forallb float_exact (scells s) = true) ->
  exists t m', model_to_table st it ii m = TOk t /\ from_table c t = TOk m' /\
    splabels (fspan m') = splabels (fspan m) /\ fnames m' = fnames m /\
    (forall k s, In k (fnames m) -> assoc_s k (fvars m) = Some s ->
                 assoc_s k (fvars m') = Some (mkSeries NFloat (map to_float_exact (scells s)))).
Proof.
  intros W H S Hc Hd Hii Hstrict Hparams Htyped.
  assert (Hall : export_names ii m = fnames m).
  { unfold export_names. destruct Hii as [->|Hii]; [reflexivity|]. destruct ii; [reflexivity|].
    apply filter_all_id. intros x Hx. rewrite (Hii x Hx). reflexivity. }
  assert (Hser : forall k, In k (fnames m) -> exists s, assoc_s k (fvars m) = Some s /\ the_series m k = s).
  { intros k Hk. destruct (wf_getvar _ _ _ W Hk) as [s [Hg [Hs _]]]. exists s. split; [|assumption].
    rewrite getvar_name in Hg; [assumption| |]; intros ->; [apply (wf_nostatus _ _ W Hk)|apply (wf_noiter _ _ W Hk)]. }
  eexists. eexists. split; [apply model_to_table_spec; eassumption|]. split.
  - apply (from_to_map st it ii m ix c to_float_exact); try assumption.
    intros k Hk. destruct (Hser k Hk) as [s [Hs ->]]. destruct (Htyped k s Hk Hs) as [T C]. split; [assumption|].
    apply Forall_forall. intros x Hx. rewrite Hd. apply np_cast_float_exact. rewrite forallb_forall in C. apply C. assumption.
  - unfold fresh_model. cbn [fspan fnames fvars].
    pose proof (pd_index_stable _ _ H S) as Hl.
    split.
    { unfold span_of_index. destruct (is_time_index (ikd ix)); cbn [splabels]; assumption. }
    split; [reflexivity|].
    intros k s Hk Hs. destruct (Hser k Hk) as [s' [Hs' Hts]]. rewrite Hs in Hs'. injection Hs' as Ess. rewrite <- Ess in Hts.
    assert (G : forall names, In k names ->
                assoc_s k (map (fun k0 => (k0, mkSeries (cdtype c) (map to_float_exact (scells (the_series m k0))))) names)
                = Some (mkSeries (cdtype c) (map to_float_exact (scells (the_series m k))))).
    { induction names as [|a r IH]; intros Hin; [destruct Hin|]. cbn [map assoc_s].
      destruct (String.eqb k a) eqn:E.
      - apply String.eqb_eq in E. subst. reflexivity.
      - destruct Hin as [->|Hin]; [rewrite String.eqb_refl in E; discriminate|]. apply IH; assumption. }
    rewrite (G (fnames m) Hk), Hts, Hd. reflexivity.
Qed.

(* ------------------------------------------------------------------ shape of symbols_to_dataframe; errors of dataframe_to_symbols *)
Lemma symbols_to_table_shape s r :
  sym_wf (s :: r) = true ->
  exists d1 d2 d3 d4 d5 d6 nm lg ld eq cd,
    symbols_to_table (s :: r)
    = TOk (mkTable (mkIndex KRange PInt64 (map (fun i => CInt (Z.of_nat i)) (seq 0 (length (s :: r)))))
             [mkCol "name" d1 nm; mkCol "type" d2 (map (fun x => CInt (type_value (stype x))) (s :: r));
              mkCol "lags" d3 lg; mkCol "leads" d4 ld; mkCol "equation" d5 eq; mkCol "code" d6 cd]) /\
    map convert_to_str_or_none nm = map sname (s :: r) /\
    map convert_to_int_or_none lg = map (fun x => TOk (slags x)) (s :: r) /\
    map convert_to_int_or_none ld = map (fun x => TOk (sleads x)) (s :: r) /\
    map convert_to_str_or_none eq = map sequation (s :: r) /\
    map convert_to_str_or_none cd = map scode (s :: r).
Proof.
  intros W. unfold symbols_to_table.
  set (ss := s :: r) in *. unfold sym_wf in W. apply andb_true_iff in W as [Wl Wd].
  destruct (idx_column "lags" (slags s) (map slags r) Wl) as [lg0 [d3 [lg [L1 [L2 L3]]]]].
  destruct (idx_column "leads" (sleads s) (map sleads r) Wd) as [ld0 [d4 [ld [D1 [D2 D3]]]]].
  destruct (ostr_column "name" (sname s) (map sname r)) as [d1 [nm [N1 N2]]].
  destruct (ostr_column "equation" (sequation s) (map sequation r)) as [d5 [eq [Q1 Q2]]].
  destruct (ostr_column "code" (scode s) (map scode r)) as [d6 [cd [K1 K2]]].
  destruct (type_column s r) as [d2 T1].
  exists d1, d2, d3, d4, d5, d6, nm, lg, ld, eq, cd.
  change (map slags ss) with (slags s :: map slags r). change (map sleads ss) with (sleads s :: map sleads r).
  rewrite L1, D1.
  rewrite <- (map_map sname cell_of_ostr ss), <- (map_map sequation cell_of_ostr ss), <- (map_map scode cell_of_ostr ss).
  change (map sname ss) with (sname s :: map sname r). change (map sequation ss) with (sequation s :: map sequation r).
  change (map scode ss) with (scode s :: map scode r).
  rewrite N1, Q1, K1, L2, D2. unfold ss at 1. rewrite T1.
  split; [reflexivity|]. split; [exact N2|].
  split; [rewrite L3; unfold ss; cbn [map]; rewrite map_map; reflexivity|].
  split; [rewrite D3; unfold ss; cbn [map]; rewrite map_map; reflexivity|].
  split; [exact Q2|exact K2].
Qed.

Definition sym_exn (e : exn) : bool :=
  match e with KeyError | TypeError | ValueError | OverflowError => true | _ => false end.

Lemma rows_to_symbols_errors nm : forall ty lg ld eq cd e,
  rows_to_symbols nm ty lg ld eq cd = TErr e -> sym_exn e = true.
Proof.
  induction nm as [|a nm IH]; intros ty lg ld eq cd e.
  - destruct ty, lg, ld, eq, cd; cbn [rows_to_symbols]; discriminate.
  - destruct ty as [|b ty], lg as [|c lg], ld as [|d ld], eq as [|x eq], cd as [|f cd]; cbn [rows_to_symbols]; try discriminate.
    unfold symbol_of_row.
    destruct (type_of_cell b) as [t|e1|] eqn:T; cbn [tbind]; [| |discriminate].
    2:{ intros H. inversion H; subst.
        destruct b as [|[]| | | | | | |]; cbn [type_of_cell] in T;
          repeat match type of T with context [match ?x with _ => _ end] => destruct x end; inversion T; reflexivity. }
    destruct (convert_to_int_or_none c) as [l1|e1|] eqn:C1; cbn [tbind]; [| |discriminate].
    2:{ intros H. inversion H; subst.
        destruct c as [|[]| | | | | | |]; cbn [convert_to_int_or_none Z_of_f64] in C1;
          repeat match type of C1 with context [if ?x then _ else _] => destruct x end; inversion C1; reflexivity. }
    destruct (convert_to_int_or_none d) as [l2|e1|] eqn:C2; cbn [tbind]; [| |discriminate].
    2:{ intros H. inversion H; subst.
        destruct d as [|[]| | | | | | |]; cbn [convert_to_int_or_none Z_of_f64] in C2;
          repeat match type of C2 with context [if ?x then _ else _] => destruct x end; inversion C2; reflexivity. }
    destruct (rows_to_symbols nm ty lg ld eq cd) as [rs|e1|] eqn:R; cbn [tbind]; [discriminate| |discriminate].
    intros H. inversion H; subst. apply (IH _ _ _ _ _ _ R).
Qed.

Lemma type_of_cell_errors c e : type_of_cell c = TErr e -> e = ValueError.
Proof.
  destruct c as [|[]| | | | | | |]; cbn [type_of_cell]; intros T;
    repeat match type of T with context [match ?x with _ => _ end] => destruct x end; inversion T; reflexivity.
Qed.

Lemma convert_to_int_errors c e : convert_to_int_or_none c = TErr e -> e = TypeError \/ e = OverflowError \/ e = ValueError.
Proof.
  destruct c as [|[]| | | | | | |]; cbn [convert_to_int_or_none Z_of_f64]; intros C;
    repeat match type of C with context [if ?x then _ else _] => destruct x end; inversion C; auto.
Qed.

Lemma check_field_errors {A} cols name (conv : cell -> tres A) e :
  (forall c e', conv c = TErr e' -> sym_exn e' = true) ->
  check_field cols name conv = TErr e -> sym_exn e = true.
Proof.
  intros Hc. unfold check_field. destruct (find_col name cols) as [col|]; [|intros H; inversion H; reflexivity].
  destruct (pccells col) as [|x r]; [discriminate|].
  destruct (conv x) as [a|e'|] eqn:C; cbn [tbind]; try discriminate.
  intros H. inversion H; subst. apply (Hc x e C).
Qed.

Lemma first_row_raises_errors cols e : first_row_raises cols = TErr e -> sym_exn e = true.
Proof.
  unfold first_row_raises.
  assert (T : forall c e', type_of_cell c = TErr e' -> sym_exn e' = true)
    by (intros c e' H; rewrite (type_of_cell_errors c e' H); reflexivity).
  assert (I : forall c e', convert_to_int_or_none c = TErr e' -> sym_exn e' = true)
    by (intros c e' H; destruct (convert_to_int_errors c e' H) as [-> | [-> | ->]]; reflexivity).
  assert (U : forall (c : cell) e', (TOk tt : tres unit) = TErr e' -> sym_exn e' = true) by (intros c e' H; discriminate).
  destruct (check_field cols "type" type_of_cell) as [[]|e1|] eqn:F1; cbn [tbind]; try discriminate;
    [|intros H; inversion H; subst; apply (check_field_errors _ _ _ _ T F1)].
  destruct (check_field cols "lags" convert_to_int_or_none) as [[]|e1|] eqn:F2; cbn [tbind]; try discriminate;
    [|intros H; inversion H; subst; apply (check_field_errors _ _ _ _ I F2)].
  destruct (check_field cols "leads" convert_to_int_or_none) as [[]|e1|] eqn:F3; cbn [tbind]; try discriminate;
    [|intros H; inversion H; subst; apply (check_field_errors _ _ _ _ I F3)].
  destruct (check_field cols "name" (fun _ => TOk tt)) as [[]|e1|] eqn:F4; cbn [tbind]; try discriminate;
    [|intros H; inversion H; subst; apply (check_field_errors _ _ _ _ U F4)].
  destruct (check_field cols "equation" (fun _ => TOk tt)) as [[]|e1|] eqn:F5; cbn [tbind]; try discriminate;
    [|intros H; inversion H; subst; apply (check_field_errors _ _ _ _ U F5)].
  destruct (check_field cols "code" (fun _ => TOk tt)) as [[]|e1|] eqn:F6; cbn [tbind]; try discriminate;
    [|intros H; inversion H; subst; apply (check_field_errors _ _ _ _ U F6)].
  intros H. inversion H. reflexivity.
Qed.

Lemma table_to_symbols_errors t e : table_to_symbols t = TErr e -> sym_exn e = true.
Proof.
  unfold table_to_symbols. destruct (ilabels (tindex t)); [discriminate|].
  destruct (find_col "type" (tcols t)); [|apply first_row_raises_errors].
  destruct (find_col "lags" (tcols t)); [|apply first_row_raises_errors].
  destruct (find_col "leads" (tcols t)); [|apply first_row_raises_errors].
  destruct (find_col "name" (tcols t)); [|apply first_row_raises_errors].
  destruct (find_col "equation" (tcols t)); [|apply first_row_raises_errors].
  destruct (find_col "code" (tcols t)); [|apply first_row_raises_errors].
  destruct (existsb _ (tcols t)); [apply first_row_raises_errors|].
  apply rows_to_symbols_errors.
Qed.

(* ------------------------------------------------------------------ VectorContainer.to_dataframe *)
Lemma container_to_table_spec sp vars ix :
  pd_index sp = Some ix -> (forall k s, In (k, s) vars -> length (scells s) = length (splabels sp)) ->
  container_to_table sp vars = TOk (mkTable ix (map col_of vars)) /\
  map pcname (map col_of vars) = map fst vars /\
  length (ilabels ix) = length (splabels sp) /\
  (forall k s, In (k, s) vars -> sdt s <> NObj -> In (mkCol k (pdt_of_ndt (sdt s)) (scells s)) (map col_of vars)).
Proof.
  intros Hix Hlen. pose proof (pd_index_length _ _ Hix) as Hn. unfold container_to_table. rewrite Hix.
  assert (E : forallb (fun kv : string * series => Nat.eqb (length (scells (snd kv))) (length (ilabels ix))) vars = true).
  { apply forallb_forall. intros [k s] H. cbn [snd]. apply Nat.eqb_eq. rewrite Hn. apply (Hlen k s H). }
  rewrite E. cbn [negb]. split; [reflexivity|]. split.
  - clear. induction vars as [|[k s] r IH]; [reflexivity|]. cbn [map fst]. rewrite col_of_name, IH. reflexivity.
  - split; [assumption|]. intros k s H T. apply in_map_iff. exists (k, s). split; [apply col_of_typed; assumption|assumption].
Qed.

(* ------------------------------------------------------------------ from_dataframe of ANY table: what the new model holds *)
Definition source_cells (c : mclass) (n : nat) (cols : list pcolumn) (k : string) : list cell :=
  match find_col k cols with Some col => col_values col | None => repeat (cdefault c) n end.

Lemma init_vars_char c n cols names : forall vars,
  init_vars c n cols names = TOk vars ->
  map fst vars = names /\
  forall k s, In (k, s) vars -> sdt s = cdtype c /\ cast_all (cdtype c) (source_cells c n cols k) = TOk (scells s).
Proof.
  induction names as [|k r IH]; intros vars H.
  - cbn [init_vars] in H. inversion H; subst. split; [reflexivity|intros k s []].
  - cbn [init_vars] in H. destruct (mem_s k ["status"; "iterations"]); [discriminate|].
    fold (source_cells c n cols k) in H.
    destruct (cast_all (cdtype c) (source_cells c n cols k)) as [cs|e|] eqn:C; cbn [tbind] in H; try discriminate.
    destruct (init_vars c n cols r) as [rest|e|] eqn:R; cbn [tbind] in H; try discriminate.
    inversion H; subst. destruct (IH rest eq_refl) as [I1 I2]. split.
    + cbn [map fst]. rewrite I1. reflexivity.
    + intros k' s [E|Hin]; [inversion E; subst; split; [reflexivity|assumption]|apply I2; assumption].
Qed.

Lemma from_table_char c t m :
  from_table c t = TOk m ->
  fspan m = span_of_index (tindex t) /\ fnames m = cnames c /\ map fst (fvars m) = cnames c /\
  NoDup (cnames c) /\
  (forall k s, In (k, s) (fvars m) ->
     sdt s = cdtype c /\
     cast_all (cdtype c) (source_cells c (length (ilabels (tindex t))) (tcols t) k) = TOk (scells s)) /\
  fstatus m = mkSeries NStr (repeat (CStr "-") (length (ilabels (tindex t)))) /\
  fiters m = mkSeries NInt (repeat (CInt (-1)) (length (ilabels (tindex t)))) /\
  (cstrict c = true -> forall col, In col (tcols t) -> pcname col <> "dtype" -> In (pcname col) (cnames c)).
Proof.
  unfold from_table. destruct (existsb _ (tcols t)); [discriminate|].
  destruct (existsb _ (tcols t)); [discriminate|].
  destruct (has_dup (cnames c)) eqn:D; [discriminate|]. cbv zeta.
  destruct (cstrict c && existsb (fun col => negb (mem_s (pcname col) (cnames c)))
                                 (filter (fun col => negb (String.eqb (pcname col) "dtype")) (tcols t))) eqn:S; [discriminate|].
  assert (ND : NoDup (cnames c)).
  { clear -D. induction (cnames c) as [|a l IH]; [constructor|]. cbn [has_dup] in D. apply orb_false_iff in D as [D1 D2].
    constructor; [apply mem_s_false; assumption|apply IH; assumption]. }
  assert (ST : cstrict c = true -> forall col, In col (tcols t) -> pcname col <> "dtype" -> In (pcname col) (cnames c)).
  { intros St col Hc Hd. rewrite St in S. cbn [andb] in S.
    assert (Hf : In col (filter (fun col => negb (String.eqb (pcname col) "dtype")) (tcols t))).
    { apply filter_In. split; [assumption|]. apply negb_true_iff. destruct (String.eqb (pcname col) "dtype") eqn:E; [|reflexivity].
      apply String.eqb_eq in E. contradiction. }
    assert (X := proj1 (existsb_false_iff _ _) S col Hf). apply negb_false_iff in X. apply mem_s_In. assumption. }
  destruct (existsb (fun col => String.eqb (pcname col) "dtype") (tcols t)).
  - destruct (cnames c) as [|k r] eqn:N.
    + intros H. inversion H; subst; clear H. cbn [fspan fnames fvars fstatus fiters map].

      split; [reflexivity|]. split; [reflexivity|]. split; [reflexivity|]. split; [assumption|].
      split; [intros k s []|]. split; [reflexivity|]. split; [reflexivity|assumption].
    + destruct (mem_s k ["status"; "iterations"]); discriminate.
  - destruct (init_vars c (length (ilabels (tindex t))) (tcols t) (cnames c)) as [vars|e|] eqn:V; cbn [tbind]; try discriminate.
    intros H. inversion H; subst; clear H. cbn [fspan fnames fvars fstatus fiters].
    destruct (init_vars_char _ _ _ _ _ V) as [I1 I2].
    repeat split; try assumption; try reflexivity.
    + apply (I2 k s H).
    + apply (I2 k s H).
Qed.

Definition from_exn (e : exn) : bool :=
  match e with DuplicateNameError | InitialisationError | ValueError | TypeError => true | _ => false end.

Lemma np_cast_errors d c e : np_cast d c = TErr e -> e = ValueError \/ e = TypeError.
Proof.
  destruct d, c; cbn [np_cast]; intros H; try discriminate;
    repeat match type of H with
           | context [if ?x then _ else _] => destruct x
           | context [match ?x with _ => _ end] => destruct x
           end; inversion H; auto.
Qed.

Lemma cast_all_errors d cs e : cast_all d cs = TErr e -> e = ValueError \/ e = TypeError.
Proof.
  induction cs as [|c r IH]; cbn [cast_all]; [discriminate|].
  destruct (np_cast d c) as [c'|e1|] eqn:C; cbn [tbind]; [| |discriminate].
  - destruct (cast_all d r) as [r'|e2|]; cbn [tbind]; [discriminate| |discriminate].
    intros H. inversion H; subst. apply IH. reflexivity.
  - intros H. inversion H; subst. apply (np_cast_errors _ _ _ C).
Qed.

Lemma from_table_errors c t e : from_table c t = TErr e -> from_exn e = true.
Proof.
  unfold from_table. destruct (existsb _ (tcols t)); [intros H; inversion H; reflexivity|].
  destruct (existsb _ (tcols t)); [discriminate|].
  destruct (has_dup (cnames c)); [intros H; inversion H; reflexivity|]. cbv zeta.
  destruct (cstrict c && _); [intros H; inversion H; reflexivity|].
  destruct (existsb (fun col => String.eqb (pcname col) "dtype") (tcols t)).
  { destruct (cnames c) as [|k r]; [discriminate|]. destruct (mem_s k ["status"; "iterations"]); intros H; inversion H; reflexivity. }
  generalize (cnames c) at 1. intros names.
  destruct (init_vars c (length (ilabels (tindex t))) (tcols t) names) as [vars|e1|] eqn:V; cbn [tbind]; try discriminate.
  intros H. inversion H; subst. clear H. revert e V.
  induction names as [|k r IH]; intros e V; cbn [init_vars] in V; [discriminate|].
  destruct (mem_s k ["status"; "iterations"]); [inversion V; reflexivity|].
  match type of V with tbind ?x _ = _ => destruct x as [cs|e2|] eqn:C end; cbn [tbind] in V; try discriminate.
  - destruct (init_vars c (length (ilabels (tindex t))) (tcols t) r) as [rest|e3|] eqn:R; cbn [tbind] in V; try discriminate.
    inversion V; subst. apply IH. reflexivity.
  - inversion V; subst. destruct (cast_all_errors _ _ _ C) as [-> | ->]; reflexivity.
Qed.

(* ------------------------------------------------------------------ a simpler sufficient guard for the symbols round trip *)
Definition idx_small (o : option pidx) : bool :=
  match o with None => true | Some (IInt z) => Z.abs z <=? two53 | Some (IStr _) => false end.
Definition sym_small (ss : list symbol) : bool :=
  forallb (fun s => idx_small (slags s) && idx_small (sleads s)) ss.

Lemma idx_small_col os : forallb idx_small os = true -> idx_col_ok os = true.
Proof.
  intros H. unfold idx_col_ok. apply andb_true_iff. split.
  - apply forallb_forall. intros o Ho. rewrite forallb_forall in H. specialize (H o Ho).
    destruct o as [[z|s]|]; cbn [idx_small idx_ok] in *; try discriminate; reflexivity.
  - apply orb_true_iff. right. apply forallb_forall. intros o Ho. rewrite forallb_forall in H. specialize (H o Ho).
    destruct o as [[z|s]|]; cbn [idx_small idx_exact] in *; try discriminate; auto.
Qed.

Lemma sym_small_wf ss : sym_small ss = true -> sym_wf ss = true.
Proof.
  intros H. unfold sym_small in H. rewrite forallb_forall in H. unfold sym_wf. apply andb_true_iff. split; apply idx_small_col;
    apply forallb_forall; intros o Ho; apply in_map_iff in Ho as [s [<- Hs]]; specialize (H s Hs); apply andb_true_iff in H; tauto.
Qed.

Lemma symbols_roundtrip_small ss : sym_small ss = true -> symbols_roundtrip ss = TOk ss.
Proof. intros H. apply symbols_roundtrip_ok. apply sym_small_wf. assumption. Qed.

(* ------------------------------------------------------------------ linker export without the name guard: what exactly happens *)
Fixpoint lookup_cell {V} (k : cell) (d : list (cell * V)) : option V :=
  match d with [] => None | (k', v) :: r => if cell_eqb k k' then Some v else lookup_cell k r end.

Lemma lookup_cell_none {V} k (d : list (cell * V)) : ~ In k (map fst d) -> lookup_cell k d = None.
Proof.
  induction d as [|[k' v] r IH]; intros H; [reflexivity|]. cbn [lookup_cell].
  destruct (cell_eqb k k') eqn:E.
  - apply cell_eqb_eq in E. exfalso. apply H. left. symmetry; assumption.
  - apply IH. intros H'. apply H. right; assumption.
Qed.

Lemma linker_subs_general st it ii (tab : fmodel -> table) n subs : forall x accr,
  NoDup (map fst subs) ->
  ~ In n (map fst accr) ->
  (forall k, In k (map fst subs) -> ~ In k (map fst accr)) ->
  (forall k m, In (k, m) subs -> model_to_table st it ii m = TOk (tab m)) ->
  linker_subs st it ii subs ((n, x) :: accr)
  = TOk ((n, match lookup_cell n subs with Some m => tab m | None => x end)
         :: accr ++ map (fun km => (fst km, tab (snd km))) (filter (fun km => negb (cell_eqb (fst km) n)) subs)).
Proof.
  induction subs as [|[k m] r IH]; intros x accr Hnd Hn Hdis Htab.
  - cbn [linker_subs lookup_cell filter map]. rewrite app_nil_r. reflexivity.
  - cbn [linker_subs]. rewrite (Htab k m (or_introl eq_refl)). cbn [tbind].
    cbn [map fst] in Hnd, Hdis. inversion Hnd as [|? ? Hk Hr]; subst.
    cbn [dset lookup_cell filter fst].
    destruct (cell_eqb k n) eqn:E.
    + apply cell_eqb_eq in E. subst k. rewrite (proj2 (cell_eqb_eq n n) eq_refl). cbn [negb].
      rewrite IH; try assumption.
      * rewrite (lookup_cell_none n r Hk). reflexivity.
      * intros k' Hk'. apply Hdis. right; assumption.
      * intros k' m' H. apply (Htab k'). right; assumption.
    + assert (E' : cell_eqb n k = false).
      { apply cell_eqb_neq. intros ->. rewrite (proj2 (cell_eqb_eq k k) eq_refl) in E. discriminate. }
      rewrite E'. cbn [negb map fst snd].
      rewrite dset_append by (apply Hdis; left; reflexivity).
      rewrite IH; try assumption.
      * rewrite <- app_assoc. reflexivity.
      * rewrite map_app. cbn [map fst]. intros H. apply in_app_or in H as [H|[H|[]]]; [contradiction|].
        subst. rewrite (proj2 (cell_eqb_eq n n) eq_refl) in E. discriminate.
      * intros k' Hk'. rewrite map_app. cbn [map fst]. intros H. apply in_app_or in H as [H|[H|[]]].
        -- apply (Hdis k'); [right; assumption|assumption].
        -- subst. contradiction.
      * intros k' m' H. apply (Htab k'). right; assumption.
Qed.

Lemma linker_to_tables_general st it ii (tab : fmodel -> table) l :
  NoDup (map fst (lsubs l)) ->
  model_to_table st it ii (lmodel l) = TOk (tab (lmodel l)) ->
  (forall k m, In (k, m) (lsubs l) -> model_to_table st it ii m = TOk (tab m)) ->
  linker_to_tables st it ii l
  = TOk ((lname l, tab (match lookup_cell (lname l) (lsubs l) with Some m => m | None => lmodel l end))
         :: map (fun km => (fst km, tab (snd km))) (filter (fun km => negb (cell_eqb (fst km) (lname l))) (lsubs l))).
Proof.
  intros Hnd H0 Hsubs. unfold linker_to_tables. rewrite H0. cbn [tbind].
  rewrite (linker_subs_general st it ii tab (lname l) (lsubs l) (tab (lmodel l)) []); try assumption.
  - cbn [app]. destruct (lookup_cell (lname l) (lsubs l)); reflexivity.
  - intros [].
  - intros k _ [].
Qed.

(* ------------------------------------------------------------------ order of periods and the pairing label <-> value *)
Lemma span_of_index_labels ix : splabels (span_of_index ix) = ilabels ix.
Proof. unfold span_of_index. destruct (is_time_index (ikd ix)); reflexivity. Qed.

Lemma span_of_index_kind ix :
  spkind (span_of_index ix) = if is_time_index (ikd ix) then SPandas (ikd ix) (idt ix) else SList.
Proof. unfold span_of_index. destruct (is_time_index (ikd ix)); reflexivity. Qed.

Lemma is_time_index_spec k :
  is_time_index k = true <-> k = KDatetimeIndex \/ k = KMultiIndex \/ k = KPeriodIndex \/ k = KTimedeltaIndex.
Proof. destruct k; cbn; split; intros H; try discriminate; auto; destruct H as [H|[H|[H|H]]]; discriminate. Qed.

(* a span that is a pandas index object is used as the index as it is; one of the four kinds comes back as the same object *)
Lemma pandas_span_roundtrip k d ls :
  pd_index (mkSpan (SPandas k d) ls) = Some (mkIndex k d ls) /\
  (is_time_index k = true -> span_of_index (mkIndex k d ls) = mkSpan (SPandas k d) ls) /\
  (is_time_index k = false -> span_of_index (mkIndex k d ls) = mkSpan SList ls).
Proof. unfold span_of_index. cbn [ikd idt ilabels]. split; [reflexivity|]. split; intros ->; reflexivity. Qed.

Lemma cast_all_rowwise d cs : forall cs', cast_all d cs = TOk cs' -> Forall2 (fun c c' => np_cast d c = TOk c') cs cs'.
Proof.
  induction cs as [|c r IH]; intros cs' H; cbn [cast_all] in H.
  - inversion H. constructor.
  - destruct (np_cast d c) as [c'| |] eqn:C; cbn [tbind] in H; try discriminate.
    destruct (cast_all d r) as [r'| |] eqn:R; cbn [tbind] in H; try discriminate.
    inversion H; subst. constructor; [assumption|apply IH; reflexivity].
Qed.

(* from_dataframe of ANY table: row i of the table is period i of the model — the span is the index in table order (same
   length, same order, duplicates kept) and the i-th cell of a variable is the cast of the i-th cell of its column *)
Lemma from_table_rowwise c t m :
  from_table c t = TOk m ->
  splabels (fspan m) = ilabels (tindex t) /\
  spkind (fspan m) = (if is_time_index (ikd (tindex t)) then SPandas (ikd (tindex t)) (idt (tindex t)) else SList) /\
  forall k s col, In (k, s) (fvars m) -> find_col k (tcols t) = Some col ->
    Forall2 (fun x y => np_cast (cdtype c) x = TOk y) (pccells col) (scells s).
Proof.
  intros H. destruct (from_table_char c t m H) as [Hs [_ [_ [_ [Hv _]]]]].
  rewrite Hs. split; [apply span_of_index_labels|]. split; [apply span_of_index_kind|].
  intros k s col Hin Hc. destruct (Hv k s Hin) as [_ C]. unfold source_cells in C. rewrite Hc in C.
  apply cast_all_rowwise. exact C.
Qed.

(* the round trip, position by position, for every kind of span *)
Lemma from_to_order_and_pairing st it ii m ix c :
  wf_model m (length (splabels (fspan m))) -> pd_index (fspan m) = Some ix -> span_stable (fspan m) = true ->
  cnames c = fnames m ->
  (ii = true \/ forall k, In k (fnames m) -> starts_underscore k = false) ->
  (cstrict c = true -> st = false /\ it = false) ->
  (forall k, In k (fnames m) -> mem_s k init_params = false) ->
  (forall k s, In k (fnames m) -> assoc_s k (fvars m) = Some s ->
     sdt s = cdtype c /\ sdt s <> NObj /\ forallb (cell_has_dtype (cdtype c)) (scells s) = true) ->
  exists t m', model_to_table st it ii m = TOk t /\ from_table c t = TOk m' /\
    length (splabels (fspan m')) = length (splabels (fspan m)) /\
    (forall i, nth_error (splabels (fspan m')) i = nth_error (splabels (fspan m)) i) /\
    (forall k s, In k (fnames m) -> assoc_s k (fvars m) = Some s ->
       exists s', assoc_s k (fvars m') = Some s' /\ forall i, nth_error (scells s') i = nth_error (scells s) i) /\
    (forall k d, spkind (fspan m) = SPandas k d -> is_time_index k = true -> fspan m' = fspan m).
Proof.
  intros W H S Hc Hii Hstrict Hparams Htyped.
  destruct (from_to_roundtrip_same_dtype st it ii m ix c W H S Hc Hii Hstrict Hparams Htyped)
    as [t [m' [E1 [E2 [L [_ [V _]]]]]]].
  exists t, m'. split; [assumption|]. split; [assumption|]. split; [rewrite L; reflexivity|].
  split; [intros i; rewrite L; reflexivity|]. split.
  - intros k s Hk Hs. exists s. split; [rewrite (V k Hk); assumption|reflexivity].
  - intros k d K T.
    rewrite (model_to_table_spec st it ii m ix W H) in E1. inversion E1; subst t. clear E1.
    destruct (from_table_rowwise c _ m' E2) as [R1 [R2 _]]. cbn [tindex] in R1, R2.
    unfold pd_index in H. rewrite K in H. inversion H; subst ix. cbn [ikd idt ilabels] in R1, R2. rewrite T in R2.
    destruct (fspan m') as [k' l'], (fspan m) as [k0 l0]. cbn [spkind splabels] in *. subst. reflexivity.
Qed.

(* ------------------------------------------------------------------ extra positional arguments of from_dataframe *)
Lemma from_dataframe_call_spec n c t :
  from_dataframe_call n c t = (if Nat.eqb n 0 then from_table c t else TErr TypeError).
Proof. destruct n; reflexivity. Qed.

(* ------------------------------------------------------------------ linkers as the constructor builds them (f5ef8bd) *)
Lemma linker_name_free_spec name (subs : list (cell * fmodel)) :
  linker_name_free name subs = true <-> ~ In name (map fst subs).
Proof.
  unfold linker_name_free. rewrite negb_true_iff. split.
  - intros H Hin. apply in_map_iff in Hin as [[k m] [E Hkm]]. cbn [fst] in E. subst k.
    assert (X := proj1 (existsb_false_iff _ _) H (name, m) Hkm). cbn [fst] in X.
    rewrite (proj2 (cell_eqb_eq name name) eq_refl) in X. discriminate.
  - intros H. apply existsb_false_iff. intros [k m] Hkm. cbn [fst]. apply cell_eqb_neq. intros ->.
    apply H. apply in_map_iff. exists (k, m). split; [reflexivity|assumption].
Qed.

Lemma linker_construct_spec name core subs :
  (In name (map fst subs) -> linker_construct name core subs = TErr DuplicateNameError) /\
  (~ In name (map fst subs) -> linker_construct name core subs = TOk (mkLinker name core subs)).
Proof.
  unfold linker_construct. split; intros H.
  - destruct (linker_name_free name subs) eqn:E; [|reflexivity]. apply linker_name_free_spec in E. contradiction.
  - rewrite (proj2 (linker_name_free_spec name subs) H). reflexivity.
Qed.

(* every linker the constructor returns exports the linker's own table and one table per submodel: the name guard of
   linker_tables is discharged by the constructor *)
Lemma linker_tables_constructed st it ii name core subs l (ix : fmodel -> pindex) :
  linker_construct name core subs = TOk l ->
  NoDup (map fst subs) ->
  (forall m, m = core \/ In m (map snd subs) ->
             wf_model m (length (splabels (fspan m))) /\ pd_index (fspan m) = Some (ix m)) ->
  linker_to_tables st it ii l
  = TOk ((name, mkTable (ix core) (export_cols st it ii core))
         :: map (fun km => (fst km, mkTable (ix (snd km)) (export_cols st it ii (snd km)))) subs)
  /\ S (length subs) = length ((name, mkTable (ix core) (export_cols st it ii core))
         :: map (fun km => (fst km, mkTable (ix (snd km)) (export_cols st it ii (snd km)))) subs).
Proof.
  unfold linker_construct. destruct (linker_name_free name subs) eqn:E; [|discriminate].
  intros H Hnd Hall. inversion H; subst l; clear H. apply linker_name_free_spec in E. split.
  - apply (linker_tables st it ii (mkLinker name core subs) ix); assumption.
  - cbn [length]. rewrite map_length. reflexivity.
Qed.

(* symbols whose lags and leads are all integers (of any size): no None in either column, so nothing is rounded *)
Definition idx_int (o : option pidx) : bool := match o with Some (IInt _) => true | _ => false end.
Lemma sym_all_int_wf ss : forallb (fun s => idx_int (slags s) && idx_int (sleads s)) ss = true -> sym_wf ss = true.
Proof.
  intros H. rewrite forallb_forall in H. unfold sym_wf, idx_col_ok.
  assert (G : forall (f : symbol -> option pidx), (forall s, In s ss -> idx_int (f s) = true) ->
              forallb idx_ok (map f ss) && (negb (existsb is_None (map f ss)) || forallb idx_exact (map f ss)) = true).
  { intros f Hf. apply andb_true_iff. split.
    - apply forallb_forall. intros o Ho. apply in_map_iff in Ho as [s [<- Hs]]. specialize (Hf s Hs).
      destruct (f s) as [[z|t]|]; try discriminate; reflexivity.
    - apply orb_true_iff. left. apply negb_true_iff. apply existsb_false_iff. intros o Ho. apply in_map_iff in Ho as [s [<- Hs]].
      specialize (Hf s Hs). destruct (f s) as [[z|t]|]; try discriminate; reflexivity. }
  apply andb_true_iff. split; apply G; intros s Hs; specialize (H s Hs); apply andb_true_iff in H; tauto.
Qed.

Lemma symbols_roundtrip_all_int ss :
  forallb (fun s => idx_int (slags s) && idx_int (sleads s)) ss = true -> symbols_roundtrip ss = TOk ss.
Proof. intros H. apply symbols_roundtrip_ok. apply sym_all_int_wf. assumption. Qed.
