(* Table.v — C19: tabular export / import (fsic/tools.py, BaseModel.from_dataframe, BaseLinker.to_dataframes).
   Definitions only, total, executable (extracted to OCaml for the correspondence K_table).

   A table = an index (kind, dtype, labels) + ordered named typed columns.  The fsic-side logic is modelled
   exactly (column selection and order, underscore filter, status / iterations, the dict semantics of
   linker_to_dataframes, from_dataframe's index handling, ModelInterface.__init__'s treatment of the columns,
   symbols_to_dataframe / dataframe_to_symbols with convert_to_int_or_none / convert_to_str_or_none / Type(...)).
   pandas / NumPy themselves are *modelled functions* (DESIGN.md Appendix D), validated only by K:
     pd_infer      what pandas makes of a list of Python objects (a column of DataFrame(list of dicts), an Index built
                   from a list / tuple / ndarray span): None -> NaN next to str or numbers, int + None -> float64, ...
     pd_of_series  DataFrame({k: ndarray}) keeps float64 / int64 / bool, turns <U arrays into the `str` dtype
     col_values    Series.values / iterrows cells
     np_cast       ndarray.astype(model dtype) cell by cell
   Floats are exact: an integral float is `FInt z`, any other finite float m / 2^e with m odd is `FFrac m e`. *)
From Coq Require Import String Ascii List ZArith Bool.
From Coq Require DecimalString.
Import ListNotations.
Require Import PyBase Generated Symbols.
Open Scope string_scope.
Open Scope Z_scope.

(* ------------------------------------------------------------------ floats and cells *)
Inductive f64 : Type := FInt (z : Z) | FFrac (m : Z) (e : positive) | FNegZero | FNaN | FPInf | FNInf.

(* a component of a tuple label (a level value of a MultiIndex): int or str *)
Inductive atom : Type := AInt (z : Z) | AStr (s : string).
Definition atom_eqb (a b : atom) : bool :=
  match a, b with AInt x, AInt y => x =? y | AStr x, AStr y => String.eqb x y | _, _ => false end.

(* a Python object in a cell or a span label *)
Inductive cell : Type :=
| CNone | CFlt (f : f64) | CInt (z : Z) | CBool (b : bool) | CStr (s : string)
| CTup (a b : atom) | CPer (freq ord : Z) | CTs (ns : Z) | CTd (ns : Z).
  (* labels only: 2-tuple (a row of a two-level MultiIndex), pandas Period, Timestamp, Timedelta *)

Definition f64_eqb (a b : f64) : bool :=
  match a, b with
  | FInt x, FInt y => x =? y
  | FFrac m e, FFrac m' e' => (m =? m') && Pos.eqb e e'
  | FNegZero, FNegZero | FNaN, FNaN | FPInf, FPInf | FNInf, FNInf => true
  | _, _ => false
  end.
Definition cell_eqb (a b : cell) : bool :=
  match a, b with
  | CNone, CNone => true
  | CFlt x, CFlt y => f64_eqb x y
  | CInt x, CInt y => x =? y
  | CBool x, CBool y => Bool.eqb x y
  | CStr x, CStr y => String.eqb x y
  | CTup a b, CTup c d => atom_eqb a c && atom_eqb b d
  | CPer f o, CPer f' o' => (f =? f') && (o =? o')
  | CTs x, CTs y => x =? y
  | CTd x, CTd y => x =? y
  | _, _ => false
  end.

Definition two53 : Z := 9007199254740992.
Definition int64_min : Z := -9223372036854775808.
Definition int64_max : Z := 9223372036854775807.
Definition uint64_max : Z := 18446744073709551615.
Definition in_int64 (z : Z) : bool := (int64_min <=? z) && (z <=? int64_max).
Definition in_uint64 (z : Z) : bool := (0 <=? z) && (z <=? uint64_max).

(* int -> float64, round to nearest, ties to even (exact up to 2^53) *)
Definition rne53 (z : Z) : Z :=
  let a := Z.abs z in
  if a <=? two53 then z else
  let k := Z.log2 a - 52 in
  let q := Z.shiftr a k in
  let r := a - Z.shiftl q k in
  let half := Z.shiftl 1 (k - 1) in
  let q' := if (half <? r) || ((r =? half) && Z.odd q) then q + 1 else q in
  Z.sgn z * Z.shiftl q' k.
Definition f64_of_Z (z : Z) : f64 := FInt (rne53 z).
(* int(float) for a finite float: truncation towards zero *)
Definition Z_of_f64 (f : f64) : option Z :=
  match f with
  | FInt z => Some z
  | FFrac m e => Some (Z.quot m (Z.pow_pos 2 e))
  | FNegZero => Some 0
  | _ => None
  end.
Definition f64_nonzero (f : f64) : bool :=
  match f with FInt z => negb (z =? 0) | FNegZero => false | _ => true end.

(* ------------------------------------------------------------------ dtypes *)
Inductive ndt : Type := NFloat | NInt | NBool | NStr | NObj.               (* NumPy dtype kind of a model series *)
Inductive pdt : Type := PFloat64 | PInt64 | PUInt64 | PBool | PStrDt | PObject | PPeriod (freq : Z) | PDatetime | PTimedelta.
(* the class of the pandas index object: the tag from_dataframe's isinstance test looks at *)
Inductive ikind : Type := KRange | KIndex | KPeriodIndex | KDatetimeIndex | KMultiIndex | KTimedeltaIndex.
Inductive skind : Type := SRange | SList | STuple | SNdarray | SPandas (k : ikind) (d : pdt).

Definition ndt_eqb (a b : ndt) : bool :=
  match a, b with NFloat, NFloat | NInt, NInt | NBool, NBool | NStr, NStr | NObj, NObj => true | _, _ => false end.

Record series : Type := mkSeries { sdt : ndt; scells : list cell }.
Record span : Type := mkSpan { spkind : skind; splabels : list cell }.
Record pindex : Type := mkIndex { ikd : ikind; idt : pdt; ilabels : list cell }.
Record pcolumn : Type := mkCol { pcname : string; pcdt : pdt; pccells : list cell }.
Record table : Type := mkTable { tindex : pindex; tcols : list pcolumn }.

(* the part of a BaseModel / BaseLinker instance the export reads *)
Record fmodel : Type := mkModel {
  fspan : span;
  fnames : list string;                     (* self.names *)
  fvars : list (string * series);           (* the container's series other than status / iterations *)
  fstatus : series;
  fiters : series }.

(* ------------------------------------------------------------------ pandas: inference over a list of Python objects *)
Definition is_none (c : cell) : bool := match c with CNone => true | _ => false end.
Definition is_int (c : cell) : bool := match c with CInt _ => true | _ => false end.
Definition is_flt (c : cell) : bool := match c with CFlt _ => true | _ => false end.
Definition is_str (c : cell) : bool := match c with CStr _ => true | _ => false end.
Definition is_bool (c : cell) : bool := match c with CBool _ => true | _ => false end.
Definition is_ts (c : cell) : bool := match c with CTs _ => true | _ => false end.
Definition is_td (c : cell) : bool := match c with CTd _ => true | _ => false end.
Definition is_per (f : Z) (c : cell) : bool := match c with CPer f' _ => f =? f' | _ => false end.
Definition cell_int64 (c : cell) : bool := match c with CInt z => in_int64 z | _ => false end.
Definition cell_uint64 (c : cell) : bool := match c with CInt z => in_uint64 z | _ => false end.
Definition is_num_or_none (c : cell) : bool :=
  match c with CInt _ | CFlt _ | CNone => true | _ => false end.
Definition out_int64 (c : cell) : bool := match c with CInt z => negb (in_int64 z) | _ => false end.
Definition is_per_any (c : cell) : bool := match c with CPer _ _ => true | _ => false end.
Definition is_str_or_none (c : cell) : bool := match c with CStr _ | CNone => true | _ => false end.

(* value of a cell once its list has been found to be float64 *)
Definition to_float_cell (c : cell) : cell :=
  match c with CInt z => CFlt (f64_of_Z z) | CNone => CFlt FNaN | _ => c end.
Definition none_to_nan (c : cell) : cell := match c with CNone => CFlt FNaN | _ => c end.

(* -> (dtype, cells);  None = a combination this development does not tabulate (K skips it) *)
Definition pd_infer (cs : list cell) : option (pdt * list cell) :=
  match cs with
  | [] => Some (PObject, [])
  | c0 :: _ =>
    if forallb is_none cs then Some (PObject, cs)
    else if forallb is_int cs then
      (if forallb cell_int64 cs then Some (PInt64, cs)
       else if forallb cell_uint64 cs then Some (PUInt64, cs)
       else Some (PObject, cs))
    else if forallb is_bool cs then Some (PBool, cs)
    else if forallb is_str cs then Some (PStrDt, cs)
    else if forallb is_str_or_none cs then Some (PStrDt, map none_to_nan cs)
    else if forallb is_num_or_none cs then
      (* an int outside int64 next to None / floats: float64 or object depending on the order of the cells — not tabulated *)
      (if existsb out_int64 cs then None else Some (PFloat64, map to_float_cell cs))
    else if forallb is_ts cs then Some (PDatetime, cs)
    else if forallb is_td cs then Some (PTimedelta, cs)
    else match c0 with
         | CPer f _ => if forallb (is_per f) cs then Some (PPeriod f, cs)
                       else if existsb is_none cs then None else Some (PObject, cs)
         | _ => (* dates next to None become NaT: not tabulated; any other mixture stays an object list *)
                if existsb is_none cs && (existsb is_ts cs || existsb is_td cs || existsb is_per_any cs) then None else Some (PObject, cs)
         end
  end.

(* pandas.Index(span) as built by DataFrame(..., index=span) *)
Definition pd_index (s : span) : option pindex :=
  match spkind s with
  | SRange => Some (mkIndex KRange PInt64 (splabels s))
  | SPandas k d => Some (mkIndex k d (splabels s))
  | SList | STuple | SNdarray =>
    match splabels s, spkind s with
    | [], SNdarray => Some (mkIndex KIndex PFloat64 [])          (* np.array([]) is a float64 array *)
    | _, _ =>
    match pd_infer (splabels s) with
    | Some (PPeriod f, cs) => Some (mkIndex KPeriodIndex (PPeriod f) cs)
    | Some (PDatetime, cs) => Some (mkIndex KDatetimeIndex PDatetime cs)
    | Some (PTimedelta, cs) => Some (mkIndex KTimedeltaIndex PTimedelta cs)
    | Some (d, cs) => Some (mkIndex KIndex d cs)
    | None => None
    end
    end
  end.

(* label lists pandas leaves alone when it builds an Index: None only alone, ints and floats not mixed *)
Definition label_stable (cs : list cell) : bool :=
  (forallb is_none cs || negb (existsb is_none cs))
  && negb (existsb is_int cs && existsb is_flt cs && forallb is_num_or_none cs).
(* spans whose labels the export keeps: ranges and pandas index objects always, lists / tuples / arrays when label_stable *)
Definition span_stable (s : span) : bool :=
  match spkind s with SRange | SPandas _ _ => true | _ => label_stable (splabels s) end.

(* DataFrame({k: ndarray}): one column from one NumPy array *)
Definition pd_of_series (s : series) : pdt * list cell :=
  match sdt s with
  | NFloat => (PFloat64, scells s)
  | NInt => (PInt64, scells s)
  | NBool => (PBool, scells s)
  | NStr => (PStrDt, scells s)
  | NObj => (* an object array is inferred: text (with None -> NaN) becomes the str dtype, anything else stays object *)
            if forallb is_none (scells s) then (PObject, scells s)
            else if forallb is_str_or_none (scells s) then (PStrDt, map none_to_nan (scells s))
            else (PObject, scells s)
  end.

(* ------------------------------------------------------------------ model_to_dataframe *)
Definition starts_underscore (s : string) : bool :=
  match s with String c _ => Ascii.eqb c "_"%char | EmptyString => false end.

Fixpoint assoc_s {A} (k : string) (l : list (string * A)) : option A :=
  match l with [] => None | (k', v) :: r => if String.eqb k k' then Some v else assoc_s k r end.
Definition mem_s (x : string) (l : list string) : bool := existsb (String.eqb x) l.

(* model[k]: status and iterations are container variables too *)
Definition getvar (m : fmodel) (k : string) : option series :=
  if String.eqb k "status" then Some (fstatus m)
  else if String.eqb k "iterations" then Some (fiters m)
  else assoc_s k (fvars m).

(* {k: ... for k in names}: a dict keeps the first position of a repeated key *)
Fixpoint dedup (seen : list string) (l : list string) : list string :=
  match l with
  | [] => []
  | x :: r => if mem_s x seen then dedup seen r else x :: dedup (x :: seen) r
  end.

Definition export_names (include_internal : bool) (m : fmodel) : list string :=
  if include_internal then fnames m else filter (fun x => negb (starts_underscore x)) (fnames m).

Fixpoint lookup_all (m : fmodel) (ks : list string) : outcome (list (string * series)) :=
  match ks with
  | [] => Ret []
  | k :: r => match getvar m k with
              | None => Raise KeyError
              | Some s => match lookup_all m r with Ret l => Ret ((k, s) :: l) | Raise e => Raise e end
              end
  end.

Definition col_of (ks : string * series) : pcolumn :=
  let '(d, cs) := pd_of_series (snd ks) in mkCol (fst ks) d cs.

(* df[name] = array: replaces the column in place when it exists, else appends *)
Fixpoint set_col (c : pcolumn) (l : list pcolumn) : list pcolumn :=
  match l with
  | [] => [c]
  | c' :: r => if String.eqb (pcname c) (pcname c') then c :: r else c' :: set_col c r
  end.

Inductive tres (A : Type) : Type := TOk (a : A) | TErr (e : exn) | TUnmodelled.
Arguments TOk {A} a.
Arguments TErr {A} e.
Arguments TUnmodelled {A}.
Definition tbind {A B} (a : tres A) (f : A -> tres B) : tres B :=
  match a with TOk x => f x | TErr e => TErr e | TUnmodelled => TUnmodelled end.

Definition model_to_table (status iterations include_internal : bool) (m : fmodel) : tres table :=
  let names := dedup [] (export_names include_internal m) in
  match lookup_all m names with
  | Raise e => TErr e
  | Ret kvs =>
    match pd_index (fspan m) with
    | None => TUnmodelled
    | Some ix =>
      let n := length (ilabels ix) in
      if negb (forallb (fun kv => Nat.eqb (length (scells (snd kv))) n) kvs) then TErr ValueError
      else
        let cols := map col_of kvs in
        if status && negb (Nat.eqb (length (scells (fstatus m))) n) then TErr ValueError else
        let cols1 := if status then set_col (col_of ("status", fstatus m)) cols else cols in
        if iterations && negb (Nat.eqb (length (scells (fiters m))) n) then TErr ValueError else
        let cols2 := if iterations then set_col (col_of ("iterations", fiters m)) cols1 else cols1 in
        TOk (mkTable ix cols2)
    end
  end.

(* ------------------------------------------------------------------ VectorContainer.to_dataframe (containers.py) *)
(* DataFrame({k: self[k] for k in self.index}, index=self.span): every variable of the container in creation order (for a
   model object that includes status and iterations, which come first); `vars` = the container's index with its series *)
Definition container_to_table (sp : span) (vars : list (string * series)) : tres table :=
  match pd_index sp with
  | None => TUnmodelled
  | Some ix =>
    let n := length (ilabels ix) in
    if negb (forallb (fun kv => Nat.eqb (length (scells (snd kv))) n) vars) then TErr ValueError
    else TOk (mkTable ix (map col_of vars))
  end.

(* ------------------------------------------------------------------ linker_to_dataframes *)
Record flinker : Type := mkLinker {
  lname : cell;                               (* linker.name (any hashable) *)
  lmodel : fmodel;                            (* the linker's own variables *)
  lsubs : list (cell * fmodel) }.             (* linker.submodels, in dict order *)

(* BaseLinker.__init__ (since f5ef8bd): `if name in submodels: raise DuplicateNameError`, before anything else; otherwise the
   linker exists with that name and those submodels.  (`in` on dict keys; labels here are compared structurally: the
   generator does not mix 1 / 1.0 / True as keys) *)
Definition linker_name_free (name : cell) (subs : list (cell * fmodel)) : bool :=
  negb (existsb (fun km => cell_eqb name (fst km)) subs).
Definition linker_construct (name : cell) (core : fmodel) (subs : list (cell * fmodel)) : tres flinker :=
  if linker_name_free name subs then TOk (mkLinker name core subs) else TErr DuplicateNameError.

Fixpoint dset {V} (k : cell) (v : V) (d : list (cell * V)) : list (cell * V) :=
  match d with
  | [] => [(k, v)]
  | (k', v') :: r => if cell_eqb k k' then (k', v) :: r else (k', v') :: dset k v r
  end.

Fixpoint linker_subs (st it ii : bool) (subs : list (cell * fmodel)) (acc : list (cell * table))
  : tres (list (cell * table)) :=
  match subs with
  | [] => TOk acc
  | (k, m) :: r => tbind (model_to_table st it ii m) (fun t => linker_subs st it ii r (dset k t acc))
  end.

Definition linker_to_tables (st it ii : bool) (l : flinker) : tres (list (cell * table)) :=
  tbind (model_to_table st it ii (lmodel l)) (fun t => linker_subs st it ii (lsubs l) [(lname l, t)]).

(* ------------------------------------------------------------------ BaseModel.from_dataframe *)
Record mclass : Type := mkClass {
  cnames : list string;        (* NAMES *)
  cdtype : ndt;                (* dtype= *)
  cdefault : cell;             (* default_value= *)
  cstrict : bool }.

(* Series.values / the cells iterrows yields: nothing changes any more *)
Definition col_values (c : pcolumn) : list cell := pccells c.

(* text that float() / int() certainly reject: first character is a letter other than n, N, i, I *)
Definition plain_text (s : string) : bool :=
  match s with
  | EmptyString => true
  | String c _ =>
    let n := nat_of_ascii c in
    ((((65 <=? n) && (n <=? 90)) || ((97 <=? n) && (n <=? 122)))
     && negb (Nat.eqb n 110 || Nat.eqb n 78 || Nat.eqb n 105 || Nat.eqb n 73))%nat
  end.

Definition string_of_Z (z : Z) : string := DecimalString.NilZero.string_of_int (Z.to_int z).

(* ndarray.astype(dtype), one cell *)
Definition np_cast (d : ndt) (c : cell) : tres cell :=
  match d, c with
  | NObj, _ => TOk c
  | NFloat, CFlt f => TOk (CFlt f)
  | NFloat, CInt z => if in_int64 z then TOk (CFlt (f64_of_Z z)) else TUnmodelled
  | NFloat, CBool b => TOk (CFlt (FInt (if b then 1 else 0)))
  | NFloat, CNone => TOk (CFlt FNaN)
  | NFloat, CStr s => if plain_text s then TErr ValueError else TUnmodelled
  | NInt, CInt z => if in_int64 z then TOk (CInt z) else TUnmodelled
  | NInt, CBool b => TOk (CInt (if b then 1 else 0))
  | NInt, CFlt f => match Z_of_f64 f with
                    | Some z => if in_int64 z then TOk (CInt z) else TUnmodelled
                    | None => TUnmodelled
                    end
  | NInt, CNone => TErr TypeError
  | NInt, CStr s => if plain_text s then TErr ValueError else TUnmodelled
  | NBool, CBool b => TOk (CBool b)
  | NBool, CInt z => TOk (CBool (negb (z =? 0)))
  | NBool, CFlt f => TOk (CBool (f64_nonzero f))
  | NBool, CStr s => TOk (CBool (negb (String.eqb s "")))
  | NBool, CNone => TOk (CBool false)
  | NStr, CStr s => TOk (CStr s)
  | NStr, CInt z => TOk (CStr (string_of_Z z))
  | NStr, CBool b => TOk (CStr (if b then "True" else "False"))
  | NStr, CNone => TOk (CStr "None")
  | NStr, CFlt (FInt z) => if Z.abs z <? 1000000000000000 then TOk (CStr (string_of_Z z ++ ".0")) else TUnmodelled
  | NStr, CFlt FNegZero => TOk (CStr "-0.0")
  | NStr, CFlt FNaN => TOk (CStr "nan")
  | NStr, CFlt FPInf => TOk (CStr "inf")
  | NStr, CFlt FNInf => TOk (CStr "-inf")
  | _, _ => TUnmodelled
  end.

Fixpoint cast_all (d : ndt) (cs : list cell) : tres (list cell) :=
  match cs with
  | [] => TOk []
  | c :: r => tbind (np_cast d c) (fun c' => tbind (cast_all d r) (fun r' => TOk (c' :: r')))
  end.

Fixpoint find_col (k : string) (cols : list pcolumn) : option pcolumn :=
  match cols with [] => None | c :: r => if String.eqb k (pcname c) then Some c else find_col k r end.

Fixpoint has_dup (l : list string) : bool :=
  match l with [] => false | x :: r => mem_s x r || has_dup r end.

(* names of __init__ parameters: a column called like one of them is passed as that parameter *)
(* columns named like a parameter of __init__ are passed as that parameter by cls(index, **columns):
   span, self        already bound: TypeError at the call ("multiple values for argument");
   dtype             the array becomes dtype=: astype(array) raises TypeError at the first variable;
   strict, engine, default_value   not tabulated (strict / engine cannot be variables of a model at all; a variable called
                     default_value would make its column the fill value of every variable the table lacks) *)
Definition reserved_params : list string := ["span"; "self"].
Definition opaque_params : list string := ["strict"; "engine"; "default_value"].
Definition init_params : list string := reserved_params ++ opaque_params ++ ["dtype"].

(* isinstance(index, (DatetimeIndex, MultiIndex, PeriodIndex, TimedeltaIndex)): the four-way test of from_dataframe *)
Definition is_time_index (k : ikind) : bool :=
  match k with KDatetimeIndex | KMultiIndex | KPeriodIndex | KTimedeltaIndex => true | KRange | KIndex => false end.

(* one of the four kinds: the pandas index object itself becomes the span; anything else: list(index).
   Either way the labels keep their order and multiplicity — nothing is sorted, nothing is dropped *)
Definition span_of_index (ix : pindex) : span :=
  if is_time_index (ikd ix) then mkSpan (SPandas (ikd ix) (idt ix)) (ilabels ix)
  else mkSpan SList (ilabels ix).

Fixpoint init_vars (c : mclass) (n : nat) (cols : list pcolumn) (names : list string)
  : tres (list (string * series)) :=
  match names with
  | [] => TOk []
  | k :: r =>
    if mem_s k ["status"; "iterations"] then TErr DuplicateNameError
    else
      let src := match find_col k cols with Some col => col_values col | None => repeat (cdefault c) n end in
      tbind (cast_all (cdtype c) src) (fun cs =>
      tbind (init_vars c n cols r) (fun rest => TOk ((k, mkSeries (cdtype c) cs) :: rest)))
  end.

Definition from_table (c : mclass) (t : table) : tres fmodel :=
  if existsb (fun col => mem_s (pcname col) reserved_params) (tcols t) then TErr TypeError
  else if existsb (fun col => mem_s (pcname col) opaque_params) (tcols t) then TUnmodelled
  else if has_dup (cnames c) then TErr DuplicateNameError
  else
    let ivals := filter (fun col => negb (String.eqb (pcname col) "dtype")) (tcols t) in       (* **initial_values *)
    if cstrict c && existsb (fun col => negb (mem_s (pcname col) (cnames c))) ivals then TErr InitialisationError
    else
      let sp := span_of_index (tindex t) in
      let n := length (ilabels (tindex t)) in
      let fresh vars := mkModel sp (cnames c) vars (mkSeries NStr (repeat (CStr "-") n)) (mkSeries NInt (repeat (CInt (-1)) n)) in
      if existsb (fun col => String.eqb (pcname col) "dtype") (tcols t) then
        match cnames c with
        | [] => TOk (fresh [])
        | k :: _ => if mem_s k ["status"; "iterations"] then TErr DuplicateNameError else TErr TypeError
        end
      else tbind (init_vars c n (tcols t) (cnames c)) (fun vars => TOk (fresh vars)).

(* cls.from_dataframe(data, *args, **kwargs) -> cls(index, *args, **columns, **kwargs): __init__ takes the span as its only
   positional parameter, so any further positional argument fails at the call (TypeError) before anything is built *)
Definition from_dataframe_call (nargs : nat) (c : mclass) (t : table) : tres fmodel :=
  match nargs with O => from_table c t | S _ => TErr TypeError end.

(* what K's table-validation pass evaluates: the cells from_dataframe feeds to astype for one exported series *)
Definition cast_series (d : ndt) (s : series) : tres (list cell) := cast_all d (snd (pd_of_series s)).

(* ------------------------------------------------------------------ symbols_to_dataframe / dataframe_to_symbols *)
Definition cell_of_ostr (o : option string) : cell := match o with Some s => CStr s | None => CNone end.
Fixpoint all_some {A} (l : list (option A)) : option (list A) :=
  match l with
  | [] => Some []
  | Some x :: r => match all_some r with Some r' => Some (x :: r') | None => None end
  | None :: _ => None
  end.

(* the parser never leaves a text index in lags / leads: not tabulated *)
Definition cell_of_oidx (o : option pidx) : option cell :=
  match o with
  | None => Some CNone
  | Some (IInt z) => Some (CInt z)
  | Some (IStr _) => None
  end.
Definition is_None {A} (o : option A) : bool := match o with None => true | Some _ => false end.
Definition idx_cells (os : list (option pidx)) : option (list cell) := all_some (map cell_of_oidx os).

Definition mk_column (name : string) (cs : list cell) : option pcolumn :=
  match pd_infer cs with Some (d, cs') => Some (mkCol name d cs') | None => None end.

(* DataFrame([s._asdict() for s in symbols]) *)
Definition symbols_to_table (ss : list symbol) : tres table :=
  let n := length ss in
  let ix := mkIndex KRange PInt64 (map (fun i => CInt (Z.of_nat i)) (seq 0 n)) in
  match ss with
  | [] => TOk (mkTable ix [])
  | _ =>
    match idx_cells (map slags ss), idx_cells (map sleads ss) with
    | Some lg, Some ld =>
      match mk_column "name" (map (fun s => cell_of_ostr (sname s)) ss),
            mk_column "type" (map (fun s => CInt (type_value (stype s))) ss),
            mk_column "lags" lg, mk_column "leads" ld,
            mk_column "equation" (map (fun s => cell_of_ostr (sequation s)) ss),
            mk_column "code" (map (fun s => cell_of_ostr (scode s)) ss) with
      | Some c1, Some c2, Some c3, Some c4, Some c5, Some c6 => TOk (mkTable ix [c1; c2; c3; c4; c5; c6])
      | _, _, _, _, _, _ => TUnmodelled
      end
    | _, _ => TUnmodelled
    end
  end.

(* Type(x): lookup by value; an unknown value raises ValueError *)
Definition type_of_value (z : Z) : option ptype := find (fun t => type_value t =? z) all_types.
Definition type_of_cell (c : cell) : tres ptype :=
  match c with
  | CInt z | CFlt (FInt z) => match type_of_value z with Some t => TOk t | None => TErr ValueError end
  | CBool b => match type_of_value (if b then 1 else 0) with Some t => TOk t | None => TErr ValueError end
  | _ => TErr ValueError
  end.

(* convert_to_int_or_none *)
Definition convert_to_int_or_none (c : cell) : tres (option pidx) :=
  match c with
  | CNone => TOk None
  | CFlt FNaN => TOk None                       (* isinstance(field, float) and np.isnan(field): floats only *)
  | CFlt FPInf | CFlt FNInf => TErr OverflowError
  | CFlt f => match Z_of_f64 f with Some z => TOk (Some (IInt z)) | None => TUnmodelled end
  | CInt z => TOk (Some (IInt z))               (* int(field): any Python int, also one an object column holds *)
  | CBool b => TOk (Some (IInt (if b then 1 else 0)))
  | CStr s => if plain_text s then TErr ValueError else TUnmodelled       (* int('abc') *)
  | CTup _ _ => TErr TypeError
  | _ => TUnmodelled                            (* int() of a Period / Timestamp / Timedelta: not tabulated *)
  end.

(* convert_to_str_or_none *)
Definition convert_to_str_or_none (c : cell) : option string :=
  match c with CStr s => Some s | _ => None end.

Definition symbol_of_row (nm ty lg ld eq cd : cell) : tres symbol :=
  tbind (type_of_cell ty) (fun t =>
  tbind (convert_to_int_or_none lg) (fun lags =>
  tbind (convert_to_int_or_none ld) (fun leads =>
  TOk (mkSymbol (convert_to_str_or_none nm) t lags leads (convert_to_str_or_none eq) (convert_to_str_or_none cd))))).

Fixpoint rows_to_symbols (nm ty lg ld eq cd : list cell) : tres (list symbol) :=
  match nm, ty, lg, ld, eq, cd with
  | [], [], [], [], [], [] => TOk []
  | a :: nm', b :: ty', c :: lg', d :: ld', e :: eq', f :: cd' =>
    tbind (symbol_of_row a b c d e f) (fun s =>
    tbind (rows_to_symbols nm' ty' lg' ld' eq' cd') (fun r => TOk (s :: r)))
  | _, _, _, _, _, _ => TUnmodelled
  end.

Definition symbol_fields : list string := ["name"; "type"; "lags"; "leads"; "equation"; "code"].

(* When a field column is missing or an extra column is present EVERY row raises, so the first row decides, in the order of
   the loop body: entry['type'] (KeyError), Type(...) (ValueError), lags, leads (KeyError, then TypeError / OverflowError of the
   converter), name, equation, code (KeyError), and only then the Symbol constructor with its unexpected keyword (TypeError) *)
Definition check_field {A} (cols : list pcolumn) (name : string) (conv : cell -> tres A) : tres unit :=
  match find_col name cols with
  | None => TErr KeyError
  | Some c => match pccells c with
              | [] => TUnmodelled
              | x :: _ => tbind (conv x) (fun _ => TOk tt)
              end
  end.
Definition first_row_raises (cols : list pcolumn) : tres (list symbol) :=
  tbind (check_field cols "type" type_of_cell) (fun _ =>
  tbind (check_field cols "lags" convert_to_int_or_none) (fun _ =>
  tbind (check_field cols "leads" convert_to_int_or_none) (fun _ =>
  tbind (check_field cols "name" (fun _ => TOk tt)) (fun _ =>
  tbind (check_field cols "equation" (fun _ => TOk tt)) (fun _ =>
  tbind (check_field cols "code" (fun _ => TOk tt)) (fun _ => TErr TypeError)))))).

Definition table_to_symbols (t : table) : tres (list symbol) :=
  match ilabels (tindex t) with
  | [] => TOk []                                  (* no rows: the loop body never runs *)
  | _ =>
    match find_col "type" (tcols t), find_col "lags" (tcols t), find_col "leads" (tcols t),
          find_col "name" (tcols t), find_col "equation" (tcols t), find_col "code" (tcols t) with
    | Some ty, Some lg, Some ld, Some nm, Some eq, Some cd =>
      if existsb (fun c => negb (mem_s (pcname c) symbol_fields)) (tcols t) then first_row_raises (tcols t)
      else rows_to_symbols (col_values nm) (col_values ty) (col_values lg) (col_values ld) (col_values eq) (col_values cd)
    | _, _, _, _, _, _ => first_row_raises (tcols t)
    end
  end.

Definition symbols_roundtrip (ss : list symbol) : tres (list symbol) :=
  tbind (symbols_to_table ss) table_to_symbols.

(* ------------------------------------------------------------------ decimal text <-> Z (used by the extracted driver only) *)
Fixpoint digits_to_Z (s : string) (acc : Z) : Z :=
  match s with
  | EmptyString => acc
  | String c r => digits_to_Z r (10 * acc + Z.of_nat (nat_of_ascii c - 48)%nat)
  end.
Definition Z_of_string (s : string) : Z :=
  match s with
  | String "-"%char r => - digits_to_Z r 0
  | _ => digits_to_Z s 0
  end.
