(* TableExamples.v — instances showing that the hypotheses of the C19 theorems are satisfiable, and the refutation
   witnesses (by vm_compute) for the cases in which the faithful model breaks the property's text. *)
From Coq Require Import String Ascii List ZArith Bool Lia.
Import ListNotations.
Require Import PyBase Generated Symbols Table TableFacts.
Open Scope string_scope.
Open Scope Z_scope.
Open Scope list_scope.

(* ------------------------------------------------------------------ a model with every dtype and underscore names *)
Definition ex_span : span := mkSpan SRange [CInt 2000; CInt 2001; CInt 2002].
Definition ex_X : series := mkSeries NFloat [CFlt (FInt 1); CFlt (FFrac 5 1); CFlt FNaN].
Definition ex_Y : series := mkSeries NFloat [CFlt (FInt 2); CFlt FNegZero; CFlt FPInf].
Definition ex_I : series := mkSeries NInt [CInt 1; CInt (-2); CInt 9007199254740993].
Definition ex_B : series := mkSeries NBool [CBool true; CBool false; CBool true].
Definition ex_S : series := mkSeries NStr [CStr "a"; CStr ""; CStr "bcd"].
Definition ex_model : fmodel :=
  mkModel ex_span ["X"; "_Y"; "I"; "_B"; "S"]
          [("X", ex_X); ("_Y", ex_Y); ("I", ex_I); ("_B", ex_B); ("S", ex_S)]
          (mkSeries NStr [CStr "."; CStr "F"; CStr "-"]) (mkSeries NInt [CInt 3; CInt 100; CInt (-1)]).

Example ex_model_wf : wf_model ex_model (length (splabels (fspan ex_model))).
Proof.
  constructor.
  - repeat constructor; cbn; intuition discriminate.
  - cbn. intuition discriminate.
  - cbn. intuition discriminate.
  - intros k H. cbn in H.
    destruct H as [<-|[<-|[<-|[<-|[<-|[]]]]]]; eexists; split; reflexivity.
  - reflexivity.
  - reflexivity.
Qed.

Example ex_model_index : pd_index (fspan ex_model) = Some (mkIndex KRange PInt64 [CInt 2000; CInt 2001; CInt 2002]).
Proof. reflexivity. Qed.

Example ex_model_span_stable : span_stable (fspan ex_model) = true.
Proof. reflexivity. Qed.

(* the default export: no underscore names, status and iterations last; dtypes kept *)
Example ex_export_default :
  model_to_table true true false ex_model
  = TOk (mkTable (mkIndex KRange PInt64 [CInt 2000; CInt 2001; CInt 2002])
                 [mkCol "X" PFloat64 (scells ex_X); mkCol "I" PInt64 (scells ex_I); mkCol "S" PStrDt (scells ex_S);
                  mkCol "status" PStrDt [CStr "."; CStr "F"; CStr "-"]; mkCol "iterations" PInt64 [CInt 3; CInt 100; CInt (-1)]]).
Proof. vm_compute. reflexivity. Qed.

Example ex_export_internal_only_data :
  match model_to_table false false true ex_model with
  | TOk t => map pcname (tcols t) = ["X"; "_Y"; "I"; "_B"; "S"]
  | _ => False
  end.
Proof. vm_compute. reflexivity. Qed.

(* stable label lists of several kinds; label lists pandas rewrites *)
Example label_stable_examples :
  label_stable [CInt 1; CInt 2] = true /\ label_stable [CStr "a"; CStr "b"] = true /\
  label_stable [CStr "a"; CInt 1; CTup (AInt 2) (AInt 3); CFlt (FFrac 5 1)] = true /\ label_stable [CNone; CNone] = true /\
  label_stable [CPer 1 30; CPer 1 31] = true /\ label_stable [CFlt (FInt 1); CFlt (FFrac 1 1)] = true /\
  label_stable [CInt 1; CNone] = false /\ label_stable [CInt 1; CFlt (FFrac 1 1)] = false.
Proof. vm_compute. repeat split; reflexivity. Qed.

(* ------------------------------------------------------------------ refutation: a None label next to others *)
Definition none_span : span := mkSpan SList [CInt 1; CNone].
Example none_label_becomes_nan :
  pd_index none_span = Some (mkIndex KIndex PFloat64 [CFlt (FInt 1); CFlt FNaN]).
Proof. vm_compute. reflexivity. Qed.

Definition none_model : fmodel :=
  mkModel none_span ["X"] [("X", mkSeries NFloat [CFlt (FInt 0); CFlt (FInt 0)])]
          (mkSeries NStr [CStr "-"; CStr "-"]) (mkSeries NInt [CInt (-1); CInt (-1)]).

Lemma export_index_none_refuted :
  exists m, wf_model m (length (splabels (fspan m))) /\
    exists t, model_to_table true true false m = TOk t /\ ilabels (tindex t) <> splabels (fspan m).
Proof.
  exists none_model. split.
  - constructor.
    + repeat constructor; cbn; intuition discriminate.
    + cbn. intuition discriminate.
    + cbn. intuition discriminate.
    + intros k H. cbn in H. destruct H as [<-|[]]. eexists; split; reflexivity.
    + reflexivity.
    + reflexivity.
  - eexists. split; [vm_compute; reflexivity|]. cbn. discriminate.
Qed.

(* ------------------------------------------------------------------ linker: instance and refutation *)
Definition sub_model (v : Z) : fmodel :=
  mkModel ex_span ["X"; "_u"]
          [("X", mkSeries NFloat [CFlt (FInt v); CFlt (FInt v); CFlt (FInt v)]); ("_u", ex_Y)]
          (mkSeries NStr [CStr "-"; CStr "."; CStr "."]) (mkSeries NInt [CInt (-1); CInt 4; CInt 2]).
Definition core_model : fmodel :=
  mkModel ex_span ["G"] [("G", ex_X)] (mkSeries NStr [CStr "-"; CStr "."; CStr "."]) (mkSeries NInt [CInt (-1); CInt 1; CInt 1]).
Definition ex_linker : flinker := mkLinker (CStr "_") core_model [(CStr "a", sub_model 1); (CInt 2, sub_model 2)].

Lemma sub_model_wf v : wf_model (sub_model v) 3.
Proof.
  constructor.
  - repeat constructor; cbn; intuition discriminate.
  - cbn. intuition discriminate.
  - cbn. intuition discriminate.
  - intros k H. cbn in H. destruct H as [<-|[<-|[]]]; eexists; split; reflexivity.
  - reflexivity.
  - reflexivity.
Qed.

Lemma core_model_wf : wf_model core_model 3.
Proof.
  constructor.
  - repeat constructor; cbn; intuition discriminate.
  - cbn. intuition discriminate.
  - cbn. intuition discriminate.
  - intros k H. cbn in H. destruct H as [<-|[]]; eexists; split; reflexivity.
  - reflexivity.
  - reflexivity.
Qed.

(* the hypotheses of the linker theorem hold for ex_linker *)
Example ex_linker_hyps :
  NoDup (map fst (lsubs ex_linker)) /\ ~ In (lname ex_linker) (map fst (lsubs ex_linker)) /\
  (forall m, m = lmodel ex_linker \/ In m (map snd (lsubs ex_linker)) ->
             wf_model m (length (splabels (fspan m))) /\
             pd_index (fspan m) = Some (mkIndex KRange PInt64 [CInt 2000; CInt 2001; CInt 2002])).
Proof.
  split; [|split].
  - repeat constructor; cbn; intuition discriminate.
  - cbn. intuition discriminate.
  - intros m [->|H].
    + split; [apply core_model_wf|reflexivity].
    + cbn in H. destruct H as [<-|[<-|[]]]; (split; [apply sub_model_wf|reflexivity]).
Qed.

Example ex_linker_keys :
  match linker_to_tables true true false ex_linker with
  | TOk ts => map fst ts = [CStr "_"; CStr "a"; CInt 2]
              /\ map (fun kt => map pcname (tcols (snd kt))) ts
                 = [["G"; "status"; "iterations"]; ["X"; "status"; "iterations"]; ["X"; "status"; "iterations"]]
  | _ => False
  end.
Proof. vm_compute. split; reflexivity. Qed.

(* a submodel keyed like the linker (the default name is '_'): since f5ef8bd the constructor refuses it, so the export never
   meets such a linker; ex_linker is what the constructor returns for its arguments *)
Example linker_constructor_refuses_clash :
  linker_construct (CStr "_") core_model [(CStr "a", sub_model 1); (CStr "_", sub_model 2)] = TErr DuplicateNameError /\
  linker_construct (CStr "_") core_model [(CStr "a", sub_model 1); (CInt 2, sub_model 2)] = TOk ex_linker.
Proof. vm_compute. split; reflexivity. Qed.

(* ------------------------------------------------------------------ from_dataframe: instance and refutations *)
Definition float_model : fmodel :=
  mkModel ex_span ["X"; "_Y"] [("X", ex_X); ("_Y", ex_Y)]
          (mkSeries NStr [CStr "."; CStr "F"; CStr "-"]) (mkSeries NInt [CInt 3; CInt 100; CInt (-1)]).
Definition float_class : mclass := mkClass ["X"; "_Y"] NFloat (CFlt (FInt 0)) false.

Lemma float_model_wf : wf_model float_model 3.
Proof.
  constructor.
  - repeat constructor; cbn; intuition discriminate.
  - cbn. intuition discriminate.
  - cbn. intuition discriminate.
  - intros k H. cbn in H. destruct H as [<-|[<-|[]]]; eexists; split; reflexivity.
  - reflexivity.
  - reflexivity.
Qed.

(* every hypothesis of the round-trip theorem holds for float_model / float_class with include_internal *)
Example roundtrip_hyps :
  cnames float_class = fnames float_model /\
  (forall k, In k (fnames float_model) -> mem_s k init_params = false) /\
  (forall k s, In k (fnames float_model) -> assoc_s k (fvars float_model) = Some s ->
     sdt s = cdtype float_class /\ sdt s <> NObj /\ forallb (cell_has_dtype (cdtype float_class)) (scells s) = true).
Proof.
  split; [reflexivity|]. split.
  - intros k H. cbn in H. destruct H as [<-|[<-|[]]]; reflexivity.
  - intros k s H Hs. cbn in H. destruct H as [<-|[<-|[]]]; cbn in Hs; inversion Hs; subst;
      (split; [reflexivity|split; [discriminate|reflexivity]]).
Qed.

Example roundtrip_instance :
  match model_to_table true true true float_model with
  | TOk t => match from_table float_class t with
             | TOk m' => fspan m' = mkSpan SList (splabels ex_span) /\ fvars m' = fvars float_model
                         /\ fstatus m' = mkSeries NStr [CStr "-"; CStr "-"; CStr "-"]
             | _ => False
             end
  | _ => False
  end.
Proof. vm_compute. repeat split; reflexivity. Qed.

(* the NAMES guard of the round trip is necessary: a variable added at run time is exported but is not a variable of the
   model rebuilt by a class that does not list it (documented behaviour of from_dataframe) *)
Definition extra_model : fmodel :=
  mkModel ex_span ["X"; "I"] [("X", ex_X); ("I", ex_I)]
          (mkSeries NStr [CStr "-"; CStr "-"; CStr "-"]) (mkSeries NInt [CInt (-1); CInt (-1); CInt (-1)]).
Lemma from_to_extra_variable_refuted :
  exists m c t m', (forall k, In k (cnames c) -> In k (fnames m)) /\ cstrict c = false /\
    model_to_table false false false m = TOk t /\ find_col "I" (tcols t) <> None /\
    from_table c t = TOk m' /\ assoc_s "I" (fvars m') = None.
Proof.
  exists extra_model, (mkClass ["X"] NFloat (CFlt (FInt 0)) false). eexists. eexists.
  split; [intros k [<-|[]]; cbn; auto|]. split; [reflexivity|].
  split; [vm_compute; reflexivity|]. split; [cbn; discriminate|].
  split; [vm_compute; reflexivity|]. reflexivity.
Qed.

(* the dtype guard is necessary: an integer variable rebuilt with the class default dtype float: rounded beyond 2^53 *)
Definition int_model : fmodel :=
  mkModel ex_span ["I"] [("I", ex_I)]
          (mkSeries NStr [CStr "-"; CStr "-"; CStr "-"]) (mkSeries NInt [CInt (-1); CInt (-1); CInt (-1)]).
Lemma from_to_int_as_float_refuted :
  exists m c t m', cnames c = fnames m /\ model_to_table false false false m = TOk t /\ from_table c t = TOk m' /\
    assoc_s "I" (fvars m) = Some (mkSeries NInt [CInt 1; CInt (-2); CInt 9007199254740993]) /\
    assoc_s "I" (fvars m') = Some (mkSeries NFloat [CFlt (FInt 1); CFlt (FInt (-2)); CFlt (FInt 9007199254740992)]).
Proof.
  exists int_model, (mkClass ["I"] NFloat (CFlt (FInt 0)) false). eexists. eexists.
  split; [reflexivity|]. split; [vm_compute; reflexivity|]. split; [vm_compute; reflexivity|]. split; reflexivity.
Qed.

(* the dtype guard is necessary: a text variable rebuilt with the class default dtype float: ValueError *)
Definition str_model : fmodel :=
  mkModel ex_span ["S"] [("S", ex_S)]
          (mkSeries NStr [CStr "-"; CStr "-"; CStr "-"]) (mkSeries NInt [CInt (-1); CInt (-1); CInt (-1)]).
Lemma from_to_str_as_float_refuted :
  exists m c t, cnames c = fnames m /\ model_to_table false false false m = TOk t /\ from_table c t = TErr ValueError.
Proof.
  exists str_model, (mkClass ["S"] NFloat (CFlt (FInt 0)) false). eexists.
  split; [reflexivity|]. split; [vm_compute; reflexivity|]. vm_compute. reflexivity.
Qed.

(* strict=True and the status column: InitialisationError, so the data columns have to be exported alone *)
Example strict_with_status_raises :
  match model_to_table true false true float_model with
  | TOk t => from_table (mkClass ["X"; "_Y"] NFloat (CFlt (FInt 0)) true) t = TErr InitialisationError
  | _ => False
  end.
Proof. vm_compute. reflexivity. Qed.

(* ------------------------------------------------------------------ symbols: instances and refutations *)
(* parse_model("Y = exp(X[-1])\n`foo = 1`"): endogenous, function, exogenous and verbatim symbols *)
Definition ex_symbols : list symbol :=
  [mkSymbol (Some "Y") TEndogenous (Some (IInt 0)) (Some (IInt 0)) (Some "Y[t] = exp(X[t-1])") (Some "self._Y[t] = np.exp(self._X[t-1])");
   mkSymbol (Some "exp") TFunction None None None None;
   mkSymbol (Some "X") TExogenous (Some (IInt (-1))) (Some (IInt 0)) None None;
   mkSymbol None TVerbatim None None (Some "`foo = 1`") (Some "foo = 1")].

Example ex_symbols_wf : sym_wf ex_symbols = true.
Proof. vm_compute. reflexivity. Qed.

Example ex_symbols_table :
  match symbols_to_table ex_symbols with
  | TOk t => map (fun c => (pcname c, pcdt c)) (tcols t)
             = [("name", PStrDt); ("type", PInt64); ("lags", PFloat64); ("leads", PFloat64); ("equation", PStrDt); ("code", PStrDt)]
             /\ find_col "lags" (tcols t) = Some (mkCol "lags" PFloat64 [CFlt (FInt 0); CFlt FNaN; CFlt (FInt (-1)); CFlt FNaN])
             /\ find_col "name" (tcols t) = Some (mkCol "name" PStrDt [CStr "Y"; CStr "exp"; CStr "X"; CFlt FNaN])
  | _ => False
  end.
Proof. vm_compute. repeat split; reflexivity. Qed.

(* lags = 0 and lags = None are kept apart; only-function lists (all-None columns) round-trip *)
Example ex_symbols_zero_vs_none :
  sym_wf [mkSymbol (Some "X") TExogenous (Some (IInt 0)) None None None; mkSymbol (Some "f") TFunction None (Some (IInt 0)) None None] = true
  /\ sym_wf [mkSymbol (Some "f") TFunction None None None None] = true
  /\ sym_wf [mkSymbol (Some "X") TExogenous (Some (IInt (-9007199254740993))) (Some (IInt 0)) None None] = true
  /\ sym_wf [mkSymbol (Some "X") TExogenous (Some (IInt (-9007199254740992))) (Some (IInt 0)) None None; mkSymbol (Some "f") TFunction None None None None] = true
  /\ sym_wf [mkSymbol (Some "X") TExogenous (Some (IInt (-9007199254740993))) (Some (IInt 0)) None None; mkSymbol (Some "f") TFunction None None None None] = false.
Proof. vm_compute. repeat split; reflexivity. Qed.

(* parse_model("Y = X[-9007199254740993] + exp(X)") restricted to X and exp: the lag comes back rounded *)
Definition big_lag_symbols : list symbol :=
  [mkSymbol (Some "X") TExogenous (Some (IInt (-9007199254740993))) (Some (IInt 0)) None None;
   mkSymbol (Some "exp") TFunction None None None None].
Lemma symbols_roundtrip_rounding_refuted :
  exists ss ss', symbols_roundtrip ss = TOk ss' /\ ss' <> ss /\
    map slags ss = [Some (IInt (-9007199254740993)); None] /\ map slags ss' = [Some (IInt (-9007199254740992)); None].
Proof.
  exists big_lag_symbols. eexists. split; [vm_compute; reflexivity|]. split; [discriminate|]. split; reflexivity.
Qed.

(* parse_model("Y = X[18446744073709551616]") and X[-9223372036854775809]: lags / leads outside int64 (an object column
   of Python ints) come back exactly since 0a27206 *)
Example symbols_roundtrip_outside_int64 :
  let ss := [mkSymbol (Some "Y") TEndogenous (Some (IInt 0)) (Some (IInt 0)) (Some "e") (Some "c");
             mkSymbol (Some "X") TExogenous (Some (IInt (-9223372036854775809))) (Some (IInt 18446744073709551616)) None None] in
  symbols_roundtrip ss = TOk ss /\ sym_wf ss = true.
Proof. vm_compute. split; reflexivity. Qed.

(* the enum values of Type are read from the regenerated table: Type(x) inverts them *)
Example type_values_invert : forall t, type_of_value (type_value t) = Some t.
Proof. exact type_of_value_value. Qed.

(* a frame without one of the six columns: KeyError; with an extra column: TypeError; unknown type value: ValueError *)
Example table_to_symbols_error_examples :
  let ix := mkIndex KRange PInt64 [CInt 0] in
  let base := [mkCol "name" PStrDt [CStr "X"]; mkCol "type" PInt64 [CInt 2]; mkCol "lags" PInt64 [CInt 0];
               mkCol "leads" PInt64 [CInt 0]; mkCol "equation" PObject [CNone]; mkCol "code" PObject [CNone]] in
  table_to_symbols (mkTable ix (tl base)) = TErr KeyError /\
  table_to_symbols (mkTable ix (base ++ [mkCol "extra" PInt64 [CInt 1]])) = TErr TypeError /\
  table_to_symbols (mkTable ix (mkCol "type" PInt64 [CInt 10] :: base)) = TErr ValueError /\
  table_to_symbols (mkTable ix base) = TOk [mkSymbol (Some "X") TExogenous (Some (IInt 0)) (Some (IInt 0)) None None].
Proof. vm_compute. repeat split; reflexivity. Qed.

(* ------------------------------------------------------------------ the class default dtype on an int / bool model *)
Definition intbool_model : fmodel :=
  mkModel ex_span ["I"; "B"]
          [("I", mkSeries NInt [CInt 1; CInt (-2); CInt 9007199254740992]); ("B", ex_B)]
          (mkSeries NStr [CStr "-"; CStr "-"; CStr "-"]) (mkSeries NInt [CInt (-1); CInt (-1); CInt (-1)]).
Example default_float_hyps :
  forall k s, In k (fnames intbool_model) -> assoc_s k (fvars intbool_model) = Some s ->
    sdt s <> NObj /\ forallb float_exact (scells s) = true.
Proof.
  intros k s H Hs. cbn in H. destruct H as [<-|[<-|[]]]; cbn in Hs; inversion Hs; subst; (split; [discriminate|reflexivity]).
Qed.
Example default_float_instance :
  match model_to_table false false false intbool_model with
  | TOk t => match from_table (mkClass ["I"; "B"] NFloat (CFlt (FInt 0)) true) t with
             | TOk m' => fvars m' = [("I", mkSeries NFloat [CFlt (FInt 1); CFlt (FInt (-2)); CFlt (FInt 9007199254740992)]);
                                     ("B", mkSeries NFloat [CFlt (FInt 1); CFlt (FInt 0); CFlt (FInt 1)])]
             | _ => False
             end
  | _ => False
  end.
Proof. vm_compute. reflexivity. Qed.

(* the simpler guard holds for the parsed example list; the container export hypotheses hold for a plain container *)
Example ex_symbols_small : sym_small ex_symbols = true.
Proof. vm_compute. reflexivity. Qed.

Example ex_container_hyps :
  pd_index ex_span = Some (mkIndex KRange PInt64 [CInt 2000; CInt 2001; CInt 2002]) /\
  forall k s, In (k, s) [("status", ex_S); ("X", ex_X); ("B", ex_B)] -> length (scells s) = length (splabels ex_span).
Proof.
  split; [reflexivity|]. intros k s [H|[H|[H|[]]]]; inversion H; subst; reflexivity.
Qed.

(* ------------------------------------------------------------------ MultiIndex span, not lexsorted, repeated first-level values *)
Definition mi_span : span :=
  mkSpan (SPandas KMultiIndex PObject)
         [CTup (AInt 2000) (AStr "spring"); CTup (AInt 2000) (AStr "summer"); CTup (AInt 2000) (AStr "autumn");
          CTup (AInt 2001) (AStr "spring")].
Definition mi_model : fmodel :=
  mkModel mi_span ["H"] [("H", mkSeries NFloat [CFlt (FInt 0); CFlt (FInt 1); CFlt (FInt 4); CFlt (FInt 9)])]
          (mkSeries NStr [CStr "-"; CStr "-"; CStr "-"; CStr "-"]) (mkSeries NInt [CInt (-1); CInt (-1); CInt (-1); CInt (-1)]).
Lemma mi_model_wf : wf_model mi_model 4.
Proof.
  constructor.
  - repeat constructor; cbn; intuition discriminate.
  - cbn. intuition discriminate.
  - cbn. intuition discriminate.
  - intros k H. cbn in H. destruct H as [<-|[]]; eexists; split; reflexivity.
  - reflexivity.
  - reflexivity.
Qed.
Example mi_roundtrip :
  match model_to_table false false false mi_model with
  | TOk t => match from_table (mkClass ["H"] NFloat (CFlt (FInt 0)) true) t with
             | TOk m' => fspan m' = mi_span /\ fvars m' = fvars mi_model
             | _ => False
             end
  | _ => False
  end.
Proof. vm_compute. split; reflexivity. Qed.

(* the same labels as a plain list of tuples: an object Index, and list(index) comes back in the same order *)
Example tuple_list_roundtrip :
  match pd_index (mkSpan SList (splabels mi_span)) with
  | Some ix => ikd ix = KIndex /\ span_of_index ix = mkSpan SList (splabels mi_span)
  | None => False
  end.
Proof. vm_compute. split; reflexivity. Qed.

(* TimedeltaIndex / DatetimeIndex / PeriodIndex in non-monotonic order with a repeated label: kept as they are *)
Example kept_kinds_unsorted :
  span_of_index (mkIndex KTimedeltaIndex PTimedelta [CTd 3; CTd 1; CTd 1]) = mkSpan (SPandas KTimedeltaIndex PTimedelta) [CTd 3; CTd 1; CTd 1] /\
  span_of_index (mkIndex KDatetimeIndex PDatetime [CTs 5; CTs 2]) = mkSpan (SPandas KDatetimeIndex PDatetime) [CTs 5; CTs 2] /\
  span_of_index (mkIndex KPeriodIndex (PPeriod 1) [CPer 1 32; CPer 1 30]) = mkSpan (SPandas KPeriodIndex (PPeriod 1)) [CPer 1 32; CPer 1 30] /\
  span_of_index (mkIndex KIndex PObject [CInt 3; CStr "a"; CInt 3]) = mkSpan SList [CInt 3; CStr "a"; CInt 3] /\
  span_of_index (mkIndex KRange PInt64 [CInt 3; CInt 2]) = mkSpan SList [CInt 3; CInt 2].
Proof. repeat split; reflexivity. Qed.

(* ------------------------------------------------------------------ the remaining round-trip guards are necessary too *)
(* strict=True together with the status column *)
Lemma from_to_strict_with_status_refuted :
  exists m c t, cnames c = fnames m /\ cstrict c = true /\
    model_to_table true false true m = TOk t /\ from_table c t = TErr InitialisationError.
Proof.
  exists float_model, (mkClass ["X"; "_Y"] NFloat (CFlt (FInt 0)) true). eexists.
  split; [reflexivity|]. split; [reflexivity|]. split; [vm_compute; reflexivity|]. vm_compute. reflexivity.
Qed.

(* a variable called like the positional parameter of __init__: TypeError at the call; called dtype: TypeError in astype *)
Definition span_named_model (nm : string) : fmodel :=
  mkModel ex_span ["X"; nm] [("X", ex_X); (nm, ex_Y)]
          (mkSeries NStr [CStr "-"; CStr "-"; CStr "-"]) (mkSeries NInt [CInt (-1); CInt (-1); CInt (-1)]).
Lemma from_to_parameter_name_refuted :
  exists m1 m2 c1 c2 t1 t2,
    cnames c1 = fnames m1 /\ In "span" (fnames m1) /\ model_to_table false false true m1 = TOk t1 /\ from_table c1 t1 = TErr TypeError /\
    cnames c2 = fnames m2 /\ In "dtype" (fnames m2) /\ model_to_table false false true m2 = TOk t2 /\ from_table c2 t2 = TErr TypeError.
Proof.
  exists (span_named_model "span"), (span_named_model "dtype"),
         (mkClass ["X"; "span"] NFloat (CFlt (FInt 0)) false), (mkClass ["X"; "dtype"] NFloat (CFlt (FInt 0)) false).
  eexists. eexists.
  split; [reflexivity|]. split; [cbn; auto|]. split; [vm_compute; reflexivity|]. split; [vm_compute; reflexivity|].
  split; [reflexivity|]. split; [cbn; auto|]. split; [vm_compute; reflexivity|]. vm_compute. reflexivity.
Qed.

(* every hypothesis of the round-trip theorem at once, for one model and class *)
Lemma roundtrip_hypotheses_satisfiable :
  exists m c ix,
    wf_model m (length (splabels (fspan m))) /\ pd_index (fspan m) = Some ix /\ span_stable (fspan m) = true /\
    cnames c = fnames m /\ cstrict c = true /\
    (forall k, In k (fnames m) -> mem_s k init_params = false) /\
    (forall k s, In k (fnames m) -> assoc_s k (fvars m) = Some s ->
       sdt s = cdtype c /\ sdt s <> NObj /\ forallb (cell_has_dtype (cdtype c)) (scells s) = true) /\
    exists k, In k (fnames m) /\ starts_underscore k = true.
Proof.
  exists float_model, (mkClass ["X"; "_Y"] NFloat (CFlt (FInt 0)) true). eexists.
  split; [apply float_model_wf|]. split; [reflexivity|]. split; [reflexivity|]. split; [reflexivity|]. split; [reflexivity|].
  destruct roundtrip_hyps as [_ [H1 H2]]. split; [exact H1|]. split; [exact H2|].
  exists "_Y". split; [cbn; auto|reflexivity].
Qed.

(* "reproduces the span" is about the LABELS: the kind of the span object changes for everything that is not one of the four
   kept pandas kinds — a range comes back as a list, a list of Timestamps as a DatetimeIndex (labels identical, in order) *)
Lemma span_kind_changes :
  (exists ix, pd_index (mkSpan SRange [CInt 2000; CInt 2001]) = Some ix /\
              span_of_index ix = mkSpan SList [CInt 2000; CInt 2001]) /\
  (exists ix, pd_index (mkSpan SNdarray [CStr "a"; CStr "b"]) = Some ix /\
              span_of_index ix = mkSpan SList [CStr "a"; CStr "b"]) /\
  (exists ix, pd_index (mkSpan SList [CTs 5; CTs 2]) = Some ix /\
              span_of_index ix = mkSpan (SPandas KDatetimeIndex PDatetime) [CTs 5; CTs 2]).
Proof. repeat split; eexists; split; vm_compute; reflexivity. Qed.

(* dataframe_to_symbols: the order of the errors is the order of the loop body (first row) *)
Example table_to_symbols_error_order :
  let ix := mkIndex KRange PInt64 [CInt 0] in
  let col n d c := mkCol n d [c] in
  let base ty := [col "name" PStrDt (CStr "X"); col "type" PInt64 (CInt ty); col "lags" PInt64 (CInt 0);
                  col "leads" PInt64 (CInt 0); col "equation" PObject CNone; col "code" PObject CNone] in
  table_to_symbols (mkTable ix (base 99 ++ [col "extra" PInt64 (CInt 1)])) = TErr ValueError /\
  table_to_symbols (mkTable ix (base 2 ++ [col "extra" PInt64 (CInt 1)])) = TErr TypeError /\
  table_to_symbols (mkTable ix (firstn 5 (base 99))) = TErr ValueError /\
  table_to_symbols (mkTable ix (firstn 5 (base 2))) = TErr KeyError /\
  table_to_symbols (mkTable ix (tl (tl (base 2)) ++ [col "extra" PInt64 (CInt 1)])) = TErr KeyError /\
  table_to_symbols (mkTable ix ([col "lags" PStrDt (CStr "a"); col "extra" PInt64 (CInt 1)] ++ base 2)) = TErr ValueError.
Proof. vm_compute. repeat split; reflexivity. Qed.

(* ------------------------------------------------------------------ span_stable is necessary for the round trip of the labels *)
Lemma from_to_span_stable_necessary :
  exists m c t m',
    wf_model m (length (splabels (fspan m))) /\ span_stable (fspan m) = false /\ cnames c = fnames m /\ cstrict c = false /\
    model_to_table false false true m = TOk t /\ from_table c t = TOk m' /\
    splabels (fspan m) = [CInt 1; CNone] /\ splabels (fspan m') = [CFlt (FInt 1); CFlt FNaN] /\
    fvars m' = fvars m.
Proof.
  exists none_model, (mkClass ["X"] NFloat (CFlt (FInt 0)) false). eexists. eexists.
  split.
  { constructor.
    - repeat constructor; cbn; intuition discriminate.
    - cbn. intuition discriminate.
    - cbn. intuition discriminate.
    - intros k H. cbn in H. destruct H as [<-|[]]. eexists; split; reflexivity.
    - reflexivity.
    - reflexivity. }
  split; [reflexivity|]. split; [reflexivity|]. split; [reflexivity|].
  split; [vm_compute; reflexivity|]. split; [vm_compute; reflexivity|]. repeat split; reflexivity.
Qed.
