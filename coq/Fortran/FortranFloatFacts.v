(* FortranFloatFacts.v — the agreement theorems AT BINARY64 (Coq's primitive floats; exp / log / ** from one oracle table shared
   by both evaluators).  No hypothesis about the arithmetic is left: where Fortran reads (-x) * y as -(x * y), FSemFacts.neg_sym
   asks the two products to coincide at the values the run meets, which for concrete data is a closed computation.  The
   hypotheses (pass_ok, run_ok_prog, solve_ok_prog, regime_from) are met by float programs and float data below. *)
From Coq Require Import PrimFloat ZArith List Bool Lia.
Import ListNotations.
Require Import PyBase Solver SolverF FSem FSemFacts FBenignFacts FSolve FSolveFacts FSolveSim FSolveRun FPassFacts FSolveAll FSolveAllG
               FPassSolve FortranF.
Open Scope Z_scope.

Notation Fpass_ok orc := (pass_ok float PrimFloat.add PrimFloat.sub PrimFloat.mul PrimFloat.div PrimFloat.opp PrimFloat.abs PrimFloat.ltb
                                  PrimFloat.is_nan PrimFloat.is_infinity f_of_int (look1 (o_exp orc)) (look1 (o_log orc)) (look2 (o_pow orc)) fzero).
Notation Frun_ok_prog orc := (run_ok_prog float PrimFloat.add PrimFloat.sub PrimFloat.mul PrimFloat.div PrimFloat.opp PrimFloat.abs PrimFloat.ltb
                                  PrimFloat.is_nan PrimFloat.is_infinity f_of_int (look1 (o_exp orc)) (look1 (o_log orc)) (look2 (o_pow orc))
                                  f_round4 (fun _ => poison) (fun _ => poison) (fun _ _ => poison) fzero 1%float fisfin).
Notation Fsolve_ok_prog orc := (solve_ok_prog float PrimFloat.add PrimFloat.sub PrimFloat.mul PrimFloat.div PrimFloat.opp PrimFloat.abs PrimFloat.ltb
                                  PrimFloat.is_nan PrimFloat.is_infinity f_of_int (look1 (o_exp orc)) (look1 (o_log orc)) (look2 (o_pow orc))
                                  f_round4 (fun _ => poison) (fun _ => poison) (fun _ _ => poison) fzero 1%float fisfin).
Notation Fw_solve_t := (w_solve_t float PrimFloat.sub PrimFloat.abs PrimFloat.ltb fisfin fzero).
Notation Fw_solve := (w_solve float PrimFloat.sub PrimFloat.abs PrimFloat.ltb fisfin fzero).
Notation Fsolve_t_M := (solve_t_M float PrimFloat.sub PrimFloat.abs PrimFloat.ltb fisfin fzero).
Notation Fpy_solve := (py_solve float PrimFloat.sub PrimFloat.abs PrimFloat.ltb fisfin fzero).

(* one evaluation pass at binary64 *)
Theorem F_pass_agree orc catch n m lg ld t p (prog : list feqn) (v : vals float) :
  shape n m v -> py_pos n t = Some p ->
  prog_scoped float PrimFloat.add PrimFloat.sub PrimFloat.mul PrimFloat.div f_of_int (look2 (o_pow orc)) m lg ld prog -> lg <= Z.of_nat p -> Z.of_nat p + ld < Z.of_nat n ->
  Fpass_ok orc catch prog p v ->
  F_py_pass orc catch prog n t v = (F_f_pass orc prog (Z.of_nat p + 1) v, None).
Proof.
  exact (pass_agree float PrimFloat.add PrimFloat.sub PrimFloat.mul PrimFloat.div PrimFloat.opp PrimFloat.abs PrimFloat.ltb
           PrimFloat.is_nan PrimFloat.is_infinity f_of_int (look1 (o_exp orc)) (look1 (o_log orc)) (look2 (o_pow orc))
           f_round4 (fun _ => poison) (fun _ => poison) (fun _ _ => poison) fzero 1%float catch n m lg ld t p prog v).
Qed.

(* FortranEngine.solve_t = BaseModel.solve_t at binary64 *)
Theorem F_solve_t_engines_agree orc (prog : list feqn) fm d (o : fopts) t (s : fstate) p n m :
  shape n m (vals_of s) -> length (status s) = n -> (0 < m)%nat ->
  rows_ok m (check d) -> rows_ok m (endo d) ->
  fm_endo fm = endo_nums d -> fm_lags fm = Z.of_nat (lags d) -> fm_leads fm = Z.of_nat (leads d) ->
  prog_scoped float PrimFloat.add PrimFloat.sub PrimFloat.mul PrimFloat.div f_of_int (look2 (o_pow orc)) m (Z.of_nat (lags d)) (Z.of_nat (leads d)) prog ->
  py_pos n t = Some p -> feasible d n p = true ->
  errors o <> EInvalid -> min_iter o <= max_iter o ->
  (offset o = 0 \/ 0 <= Z.of_nat p + offset o < Z.of_nat n) ->
  let v0 := seeded float fzero d o (vals_of s) p in
  all_finite float fisfin (get_check float fzero d v0 p) = true ->
  Frun_ok_prog orc (is_raise (errors o) && catch_first o) prog d o p v0 (Z.to_nat (max_iter o)) 0 ->
  agree float (Fw_solve_t (F_f_pass orc prog) fm d o t s) (Fsolve_t_M (F_py_hook orc prog n) (no_hook float) (no_hook float) d o t s).
Proof.
  exact (solve_t_engines_agree float PrimFloat.add PrimFloat.sub PrimFloat.mul PrimFloat.div PrimFloat.opp PrimFloat.abs PrimFloat.ltb
           PrimFloat.is_nan PrimFloat.is_infinity f_of_int (look1 (o_exp orc)) (look1 (o_log orc)) (look2 (o_pow orc))
           f_round4 (fun _ => poison) (fun _ => poison) (fun _ _ => poison) fzero 1%float fisfin prog fm d o t s p n m).
Qed.

(* FortranEngine.solve = SolverMixin.solve at binary64 *)
Theorem F_solve_engines_agree orc (prog : list feqn) fm d (o : fopts) n m ec fc fl ps (s : fstate) :
  (0 < m)%nat -> rows_ok m (check d) -> rows_ok m (endo d) ->
  fm_endo fm = endo_nums d -> fm_lags fm = Z.of_nat (lags d) -> fm_leads fm = Z.of_nat (leads d) ->
  prog_scoped float PrimFloat.add PrimFloat.sub PrimFloat.mul PrimFloat.div f_of_int (look2 (o_pow orc)) m (Z.of_nat (lags d)) (Z.of_nat (leads d)) prog ->
  min_iter o <= max_iter o ->
  w_ec (errors o) = Some ec -> w_fc fl = Some fc ->
  fail_raise o = match fl with FRaise => true | _ => false end ->
  shape n m (vals_of s) -> length (status s) = n ->
  Fsolve_ok_prog orc prog fm d o n ec ps (vals_of s) ->
  agree float (Fw_solve (F_f_pass orc prog) fm d o fl ps s) (Fpy_solve (F_py_hook orc prog n) (no_hook float) (no_hook float) d o ps s).
Proof.
  intros H1 H2 H3 H4 H5 H6 H7 H8 H9 H10 H11.
  exact (solve_engines_agree float PrimFloat.add PrimFloat.sub PrimFloat.mul PrimFloat.div PrimFloat.opp PrimFloat.abs PrimFloat.ltb
           PrimFloat.is_nan PrimFloat.is_infinity f_of_int (look1 (o_exp orc)) (look1 (o_log orc)) (look2 (o_pow orc))
           f_round4 (fun _ => poison) (fun _ => poison) (fun _ _ => poison) fzero 1%float fisfin prog fm d o n m ec fc fl
           H1 H2 H3 H4 H5 H6 H7 H8 H9 H10 H11 ps s).
Qed.

(* ------------------------------------------------------------------ float witnesses *)
(* Y = -{a} * Y[-1] + 0.5 * X  (a leading minus that Fortran regroups, an exact decimal literal); a = -0.5, X = 1, Y[0] = 1:
   rows 0 = Y, 1 = X, 2 = a *)
Definition fprogw : list feqn :=
  [(0%nat, EBin OAdd (EBin OMul (ENeg (EVar 2%nat 0)) (EVar 0%nat (-1))) (EBin OMul (EDec 0.5%float 0.5%float) (EVar 1%nat 0)))].
Definition fdescw : mdesc := mkDesc [0%nat] [0%nat] 1 0.
Definition ffmodw : fmod := mkFmod 1 0 [1].
Definition fstatew : fstate :=
  mkState [[1; 0; 0; 0]; [1; 1; 1; 1]; [-0.5; -0.5; -0.5; -0.5]]%float [Unsolved; Unsolved; Unsolved; Unsolved] [-1; -1; -1; -1] [].
Definition foptsw : fopts := mkOpts 0 100 0x1p-7%float 0 true ERaise true.
Definition no_orc : oracles := mkOr [] [] [].

Lemma fprogw_scoped : prog_scoped float PrimFloat.add PrimFloat.sub PrimFloat.mul PrimFloat.div f_of_int (look2 []) 3 1 0 fprogw.
Proof.
  constructor; [|constructor]. split; [cbn; lia|]. split; [vm_compute; intuition auto|].
  intros j k H. cbn in H. destruct H as [H|[H|[H|[]]]]; inversion H; subst; cbn; split; lia.
Qed.

(* run_ok_prog at binary64: the hypotheses of F_solve_t_engines_agree hold for this program and data (sign symmetry included: a
   closed float computation), so its conclusion does; and the run is not trivial *)
Example F_solve_t_engines_agree_instance :
  agree float (Fw_solve_t (F_f_pass no_orc fprogw) ffmodw fdescw foptsw (-3) fstatew)
              (Fsolve_t_M (F_py_hook no_orc fprogw 4) (no_hook float) (no_hook float) fdescw foptsw (-3) fstatew) /\
  snd (Fw_solve_t (F_f_pass no_orc fprogw) ffmodw fdescw foptsw (-3) fstatew) = Ret true /\
  nth 1 (iters (fst (Fw_solve_t (F_f_pass no_orc fprogw) ffmodw fdescw foptsw (-3) fstatew))) 0 = 2.
Proof.
  split; [|split; vm_compute; reflexivity].
  apply (F_solve_t_engines_agree no_orc fprogw ffmodw fdescw foptsw (-3) fstatew 1%nat 4%nat 3%nat).
  - split; [reflexivity|]. repeat constructor.
  - reflexivity.
  - lia.
  - repeat constructor.
  - repeat constructor.
  - reflexivity.
  - reflexivity.
  - reflexivity.
  - exact fprogw_scoped.
  - reflexivity.
  - reflexivity.
  - discriminate.
  - cbn; lia.
  - left; reflexivity.
  - reflexivity.
  - vm_compute. intuition auto.
Qed.

(* solve_ok_prog at binary64: periods 1, 2, 3 *)
Example F_solve_engines_agree_instance :
  agree float (Fw_solve (F_f_pass no_orc fprogw) ffmodw fdescw foptsw FRaise [1; 2; 3]%nat fstatew)
              (Fpy_solve (F_py_hook no_orc fprogw 4) (no_hook float) (no_hook float) fdescw foptsw [1; 2; 3]%nat fstatew) /\
  snd (Fw_solve (F_f_pass no_orc fprogw) ffmodw fdescw foptsw FRaise [1; 2; 3]%nat fstatew) = Ret [true; true; true].
Proof.
  split; [|vm_compute; reflexivity].
  apply (F_solve_engines_agree no_orc fprogw ffmodw fdescw foptsw 4%nat 3%nat 0 0 FRaise).
  - lia.
  - repeat constructor.
  - repeat constructor.
  - reflexivity.
  - reflexivity.
  - reflexivity.
  - exact fprogw_scoped.
  - cbn; lia.
  - reflexivity.
  - reflexivity.
  - reflexivity.
  - split; [reflexivity|]. repeat constructor.
  - reflexivity.
  - cbn [solve_ok_prog]. split; [|split; [|split; [|exact I]]]; vm_compute; intuition (auto with arith).
Qed.

(* regime_from at binary64 with a non-finite pass: Y = Y * Y * X from 1e200 under errors='skip' — the first pass overflows to
   +inf, both engines record 'S' with 1 iteration and return False *)
Definition fprogq : list feqn := [(0%nat, EBin OMul (EBin OMul (EVar 0%nat 0) (EVar 0%nat 0)) (EVar 1%nat 0))].
Definition fdescq : mdesc := mkDesc [0%nat] [0%nat] 0 0.
Definition ffmodq : fmod := mkFmod 0 0 [1].
Definition fstateq : fstate := mkState [[1e200; 1e200; 1e200]; [1; 1; 1]]%float [Unsolved; Unsolved; Unsolved] [-1; -1; -1] [].
Definition foptsq : fopts := mkOpts 0 3 0x1p-30%float 0 true ESkip true.

Example F_regime_instance_skip :
  agree float (Fw_solve_t (F_f_pass no_orc fprogq) ffmodq fdescq foptsq 1 fstateq)
              (Fsolve_t_M (F_py_hook no_orc fprogq 3) (no_hook float) (no_hook float) fdescq foptsq 1 fstateq) /\
  snd (Fw_solve_t (F_f_pass no_orc fprogq) ffmodq fdescq foptsq 1 fstateq) = Ret false /\
  nth 1 (status (fst (Fw_solve_t (F_f_pass no_orc fprogq) ffmodq fdescq foptsq 1 fstateq))) Unsolved = Skipped /\
  nth 1 (iters (fst (Fw_solve_t (F_f_pass no_orc fprogq) ffmodq fdescq foptsq 1 fstateq))) 0 = 1.
Proof.
  split; [|repeat split; vm_compute; reflexivity].
  apply (w_solve_t_refines float PrimFloat.sub PrimFloat.abs PrimFloat.ltb fisfin fzero (F_f_pass no_orc fprogq) (F_py_hook no_orc fprogq 3)
           (no_hook float) (no_hook float) ffmodq fdescq foptsq 1 fstateq 1%nat 3%nat 2%nat).
  - split; [reflexivity|]. repeat constructor.
  - reflexivity.
  - lia.
  - repeat constructor.
  - repeat constructor.
  - reflexivity.
  - reflexivity.
  - reflexivity.
  - reflexivity.
  - reflexivity.
  - discriminate.
  - cbn; lia.
  - left; reflexivity.
  - intros v Hv. apply (f_pass_shape float PrimFloat.add PrimFloat.sub PrimFloat.mul PrimFloat.div PrimFloat.opp PrimFloat.abs PrimFloat.ltb
                          f_of_int (look1 []) (look1 []) (look2 []) f_round4 (fun _ => poison) (fun _ => poison) (fun _ _ => poison) fzero 1%float). exact Hv.
  - intros i k Hi. change (Z.to_nat (max_iter foptsq)) with 3%nat in Hi. destruct i as [|[|[|i]]]; try lia; vm_compute; reflexivity.
  - reflexivity.
  - reflexivity.
  - change (Z.to_nat (max_iter foptsq)) with 3%nat. unfold regime_from. split; [|split; [|split]].
    + intros i Hi. destruct i as [|[|[|[|i]]]]; try lia; vm_compute; reflexivity.
    + intros _. vm_compute. reflexivity.
    + intros E. discriminate E.
    + intros E. discriminate E.
Qed.

(* the commonest uses of literals that are in the common subset (FBenignFacts.benign): integer constant arithmetic 2*3*X and
   (1+2)*X, a negated / abs'ed exact decimal abs(-1.5)*X, max / min against an exact decimal max(X, 0.0), min(1.5, X).
   rows 0 = Y, 1 = X; X = 2:  6*2 + 3*2 + 1.5*2 + 2 - 1.5 = 21.5 in both engines *)
Definition fprogl : list feqn :=
  [(0%nat, EBin OSub
             (EBin OAdd
                (EBin OAdd
                   (EBin OAdd (EBin OMul (EBin OMul (EInt 2) (EInt 3)) (EVar 1%nat 0))
                              (EBin OMul (EPar (EBin OAdd (EInt 1) (EInt 2))) (EVar 1%nat 0)))
                   (EBin OMul (EAbs (ENeg (EDec 1.5%float 1.5%float))) (EVar 1%nat 0)))
                (EMM MMax (EVar 1%nat 0) (EDec 0%float 0%float)))
             (EMM MMin (EDec 1.5%float 1.5%float) (EVar 1%nat 0)))].
Definition fvalsl : vals float := [[0; 0; 0]; [2; 2; 2]]%float.

Example F_common_literal_uses_agree :
  prog_scoped float PrimFloat.add PrimFloat.sub PrimFloat.mul PrimFloat.div f_of_int (look2 []) 2 0 0 fprogl /\
  F_f_compiles fprogl = true /\
  F_py_pass no_orc true fprogl 3 1 fvalsl = (F_f_pass no_orc fprogl 2 fvalsl, None) /\
  nth 1 (nth 0 (F_f_pass no_orc fprogl 2 fvalsl) []) 0%float = 21.5%float.
Proof.
  assert (Hsc : prog_scoped float PrimFloat.add PrimFloat.sub PrimFloat.mul PrimFloat.div f_of_int (look2 []) 2 0 0 fprogl).
  { constructor; [|constructor]. split; [cbn; lia|]. split; [vm_compute; intuition auto|].
    intros j k H. cbn in H. repeat (destruct H as [H|H]; [inversion H; subst; cbn; split; lia|]). destruct H. }
  split; [exact Hsc|]. split; [vm_compute; reflexivity|]. split; [|vm_compute; reflexivity].
  apply (F_pass_agree no_orc true 3%nat 2%nat 0 0 1 1%nat fprogl fvalsl); auto; try lia.
  - split; [reflexivity|]. repeat constructor.
  - vm_compute. intuition auto.
Qed.
