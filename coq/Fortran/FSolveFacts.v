(* FSolveFacts.v — the wrapper over the template refines the Python engine (theorems about FSolve.v, for every number
   type, every arithmetic and every equations block). *)
From Coq Require Import ZArith List Bool Lia ZifyBool.
Import ListNotations.
Require Import PyBase Solver SolverFacts FSem FSolve.
Open Scope Z_scope.

(* ---- the regenerated constants are what the state machines below were read against ---- *)
Lemma template_codes :
  c_fail_raise = 0 /\ c_ec_raise = 0 /\ c_ec_skip = 1 /\ c_ec_ignore = 2 /\ c_ec_replace = 3 /\
  c_below = 11 /\ c_above = 12 /\ c_lags = 13 /\ c_leads = 14 /\
  c_num_raise = 21 /\ c_num_skip = 22 /\ c_pre_existing = 31 /\ c_off_pre = 41 /\ c_off_post = 42.
Proof. repeat split; reflexivity. Qed.

Lemma wrapper_codes :
  w_t_ok = 0 /\ w_t_raise = 21 /\ w_t_skip = 22 /\
  w_s_ok = 0 /\ w_s_raise = 21 /\ w_s_pre = 31 /\ w_s_offpre = 41 /\ w_s_offpost = 42 /\ w_s_skip = 22 /\
  w_e_index = [11; 12; 13; 14].
Proof. repeat split; reflexivity. Qed.

Lemma wrapper_options :
  w_ec ERaise = Some 0 /\ w_ec ESkip = Some 1 /\ w_ec EIgnore = Some 2 /\ w_ec EReplace = Some 3 /\ w_ec EInvalid = None /\
  w_fc FRaise = Some 0 /\ w_fc FIgnore = Some 2 /\ w_fc FOther = None.
Proof. repeat split; reflexivity. Qed.

(* the wrapper's numbers are the template's numbers *)
Lemma wrapper_codes_are_template_codes :
  w_t_raise = c_num_raise /\ w_t_skip = c_num_skip /\ w_s_raise = c_num_raise /\ w_s_skip = c_num_skip /\
  w_s_pre = c_pre_existing /\ w_s_offpre = c_off_pre /\ w_s_offpost = c_off_post /\
  w_e_index = [c_below; c_above; c_lags; c_leads] /\
  w_ec ERaise = Some c_ec_raise /\ w_ec ESkip = Some c_ec_skip /\ w_ec EIgnore = Some c_ec_ignore /\ w_ec EReplace = Some c_ec_replace /\
  w_fc FRaise = Some c_fail_raise.
Proof. repeat split; reflexivity. Qed.

(* n periods, m variables: a rectangular values matrix *)
Definition shape {num} (n m : nat) (v : list (list num)) : Prop := length v = m /\ Forall (fun row => length row = n) v.
Definition endo_nums (d : mdesc) : list Z := map (fun i => Z.of_nat i + 1) (endo d).
Definition rows_ok (m : nat) (l : list nat) : Prop := Forall (fun i => (i < m)%nat) l.

Section Facts.
  Variable num : Type.
  Variables (sub : num -> num -> num) (absf : num -> num) (ltb : num -> num -> bool)
            (isfin : num -> bool) (zero : num).
  Variable evf : Z -> vals num -> vals num.

  Notation vals := (vals num).
  Notation fread := (fread num zero).
  Notation fwrite := (fwrite num).
  Notation cell := (cell num zero).
  Notation set_cell := (set_cell num).
  Notation all_finite := (all_finite num isfin).
  Notation conv := (conv num sub absf ltb).
  Notation get_check := (get_check num zero).
  Notation copy_endo := (copy_endo num zero).
  Notation col_of := (col_of num zero).
  Notation t_evaluate := (t_evaluate num evf).
  Notation t_loop := (t_loop num sub absf ltb isfin zero evf).
  Notation t_solve_t := (t_solve_t num sub absf ltb isfin zero evf).
  Notation t_copy := (t_copy num zero).
  Notation t_zero := (t_zero num isfin zero).
  Notation w_solve_t := (w_solve_t num sub absf ltb isfin zero evf).

  (* ---------------- the flat array inside its bounds ---------------- *)
  Lemma shape_ncols n m (v : vals) : shape n m v -> (0 < m)%nat -> ncols_of num v = Z.of_nat n.
  Proof.
    intros [Hl Hr] Hm. unfold ncols_of. destruct v as [|r v']; cbn [length] in Hl; [lia|].
    cbn [hd]. inversion Hr; subst. congruence.
  Qed.
  Lemma shape_nrows n m (v : vals) : shape n m v -> nrows_of num v = Z.of_nat m.
  Proof. intros [Hl _]. unfold nrows_of. congruence. Qed.

  Lemma in_range_ok n m (v : vals) i q :
    shape n m v -> (i < m)%nat -> (q < n)%nat -> in_range num v (Z.of_nat i + 1) (Z.of_nat q + 1) = true.
  Proof.
    intros Hs Hi Hq. unfold in_range. rewrite (shape_nrows _ _ _ Hs), (shape_ncols _ _ _ Hs) by lia.
    repeat (apply andb_true_intro; split); lia.
  Qed.

  Lemma fread_in n m (v : vals) i q :
    shape n m v -> (i < m)%nat -> (q < n)%nat -> fread v (Z.of_nat i + 1) (Z.of_nat q + 1) = cell v i q.
  Proof.
    intros Hs Hi Hq. unfold FSem.fread. rewrite (in_range_ok _ _ _ _ _ Hs Hi Hq).
    replace (Z.of_nat i + 1 - 1) with (Z.of_nat i) by lia. replace (Z.of_nat q + 1 - 1) with (Z.of_nat q) by lia.
    rewrite !Nat2Z.id. reflexivity.
  Qed.
  Lemma fwrite_in n m (v : vals) i q x :
    shape n m v -> (i < m)%nat -> (q < n)%nat -> fwrite v (Z.of_nat i + 1) (Z.of_nat q + 1) x = set_cell v i q x.
  Proof.
    intros Hs Hi Hq. unfold FSem.fwrite. rewrite (in_range_ok _ _ _ _ _ Hs Hi Hq).
    replace (Z.of_nat i + 1 - 1) with (Z.of_nat i) by lia. replace (Z.of_nat q + 1 - 1) with (Z.of_nat q) by lia.
    rewrite !Nat2Z.id. reflexivity.
  Qed.

  Lemma upd_Forall {A} (P : A -> Prop) i x (l : list A) :
    Forall P l -> ((i < length l)%nat -> P x) -> Forall P (upd i x l).
  Proof.
    revert i; induction l as [|a l IH]; intros [|i] Hl Hx; cbn [upd]; auto.
    - inversion Hl; subst. constructor; auto. apply Hx. cbn [length]; lia.
    - inversion Hl; subst. constructor; auto. apply IH; auto. intros H. apply Hx. cbn [length]; lia.
  Qed.
  Lemma set_cell_shape n m (v : vals) i q x : shape n m v -> shape n m (set_cell v i q x).
  Proof.
    intros [Hl Hr]. unfold Solver.set_cell. split; [rewrite upd_length; exact Hl|].
    apply upd_Forall; [exact Hr|]. intros Hi. rewrite upd_length.
    rewrite Forall_forall in Hr. apply Hr. apply nth_In. exact Hi.
  Qed.

  Lemma cell_set_cell n m (v : vals) i q x i' q' :
    shape n m v -> (i < m)%nat -> (q < n)%nat ->
    cell (set_cell v i q x) i' q' = if (i =? i')%nat && (q =? q')%nat then x else cell v i' q'.
  Proof.
    intros [Hl Hr] Hi Hq. unfold Solver.cell, Solver.set_cell.
    assert (Hrow : length (nth i v []) = n).
    { rewrite Forall_forall in Hr. apply Hr. apply nth_In. lia. }
    destruct (Nat.eq_dec i i') as [<-|Hne].
    - rewrite Nat.eqb_refl. cbn [andb]. rewrite nth_upd_eq by lia.
      destruct (Nat.eq_dec q q') as [<-|Hq'].
      + rewrite Nat.eqb_refl. apply nth_upd_eq. lia.
      + replace (q =? q')%nat with false by (symmetry; apply Nat.eqb_neq; exact Hq'). apply nth_upd_neq. exact Hq'.
    - replace (i =? i')%nat with false by (symmetry; apply Nat.eqb_neq; exact Hne). cbn [andb].
      rewrite nth_upd_neq by exact Hne. reflexivity.
  Qed.

  Lemma upd_same {A} i (l : list A) dflt : (i < length l)%nat -> upd i (nth i l dflt) l = l.
  Proof.
    revert i; induction l as [|a l IH]; intros [|i] H; cbn [upd nth length] in *; try lia; auto. f_equal. apply IH. lia.
  Qed.
  Lemma set_cell_same n m (v : vals) i q : shape n m v -> (i < m)%nat -> (q < n)%nat -> set_cell v i q (cell v i q) = v.
  Proof.
    intros [Hl Hr] Hi Hq. unfold Solver.set_cell, Solver.cell.
    assert (Hrow : length (nth i v []) = n).
    { rewrite Forall_forall in Hr. apply Hr. apply nth_In. lia. }
    rewrite upd_same by lia. apply upd_same. lia.
  Qed.

  (* ---------------- columns read by the template = vectors read by the Python code ---------------- *)
  Lemma col_check n m (v : vals) (d : mdesc) p :
    shape n m v -> (p < n)%nat -> rows_ok m (check d) -> col_of v (cv_of d) (Z.of_nat p + 1) = get_check d v p.
  Proof.
    intros Hs Hp Hc. unfold FSolve.col_of, cv_of, Solver.get_check. rewrite map_map. apply map_ext_in.
    intros i Hi. unfold rows_ok in Hc. rewrite Forall_forall in Hc. apply (fread_in n m); auto.
  Qed.
  Lemma col_endo n m (v : vals) (d : mdesc) p :
    shape n m v -> (p < n)%nat -> rows_ok m (endo d) ->
    col_of v (endo_nums d) (Z.of_nat p + 1) = map (fun i => cell v i p) (endo d).
  Proof.
    intros Hs Hp Hc. unfold FSolve.col_of, endo_nums. rewrite map_map. apply map_ext_in.
    intros i Hi. unfold rows_ok in Hc. rewrite Forall_forall in Hc. apply (fread_in n m); auto.
  Qed.

  (* ---------------- the offset copy ---------------- *)
  Lemma copy_fold_shape n m p q (l : list nat) : forall v : vals,
    shape n m v -> shape n m (fold_left (fun v i => set_cell v i p (cell v i q)) l v).
  Proof. induction l as [|a l IH]; intros v Hs; cbn [fold_left]; auto. apply IH. apply set_cell_shape. exact Hs. Qed.
  Lemma copy_endo_shape n m d (v : vals) p q : shape n m v -> shape n m (copy_endo d v p q).
  Proof. apply copy_fold_shape. Qed.

  Lemma t_copy_eq n m (fm : fmod) d (v : vals) p q :
    shape n m v -> (p < n)%nat -> (q < n)%nat -> rows_ok m (endo d) -> fm_endo fm = endo_nums d ->
    t_copy fm v (Z.of_nat p + 1) (Z.of_nat q + 1) = copy_endo d v p q.
  Proof.
    intros Hs Hp Hq Hr Hfe. unfold FSolve.t_copy, Solver.copy_endo. rewrite Hfe. unfold endo_nums.
    unfold rows_ok in Hr. revert v Hs. induction (endo d) as [|a l IH]; intros v Hs; cbn [map fold_left]; [reflexivity|].
    inversion Hr; subst.
    rewrite (fread_in n m) by auto. rewrite (fwrite_in n m) by auto.
    apply IH; auto. apply set_cell_shape. exact Hs.
  Qed.

  (* after the copy, column p already holds what a second copy would write *)
  Lemma copy_fold_facts n m p q (l : list nat) : p <> q -> (p < n)%nat -> (q < n)%nat -> rows_ok m l ->
    forall v : vals, shape n m v ->
    let w := fold_left (fun v i => set_cell v i p (cell v i q)) l v in
    (forall i, cell w i q = cell v i q) /\
    (forall i, In i l -> cell w i p = cell v i q) /\
    (forall i, ~ In i l -> cell w i p = cell v i p).
  Proof.
    intros Hpq Hp Hq Hr. unfold rows_ok in Hr. induction l as [|a l IH]; intros v Hs; cbn [fold_left].
    - repeat split; auto. intros i [].
    - inversion Hr as [|? ? Ha Hl]; subst.
      set (v' := set_cell v a p (cell v a q)).
      assert (Hs' : shape n m v') by (apply set_cell_shape; exact Hs).
      destruct (IH Hl v' Hs') as (F1 & F2 & F3).
      assert (Cq : forall i, cell v' i q = cell v i q).
      { intros i. unfold v'. rewrite (cell_set_cell n m) by auto.
        replace (p =? q)%nat with false by (symmetry; apply Nat.eqb_neq; exact Hpq). rewrite andb_false_r. reflexivity. }
      repeat split.
      + intros i. rewrite F1. apply Cq.
      + intros i [<-|Hi].
        * destruct (in_dec Nat.eq_dec a l) as [Hin|Hnin].
          -- rewrite F2 by exact Hin. apply Cq.
          -- rewrite F3 by exact Hnin. unfold v'. rewrite (cell_set_cell n m) by auto. rewrite !Nat.eqb_refl. reflexivity.
        * rewrite F2 by exact Hi. apply Cq.
      + intros i Hi. rewrite F3 by (intros H; apply Hi; right; exact H).
        unfold v'. rewrite (cell_set_cell n m) by auto.
        replace (a =? i)%nat with false by (symmetry; apply Nat.eqb_neq; intros ->; apply Hi; left; reflexivity). reflexivity.
  Qed.

  Lemma copy_fold_fix n m p q (l : list nat) : (p < n)%nat -> rows_ok m l -> forall v : vals, shape n m v ->
    (forall i, In i l -> cell v i p = cell v i q) ->
    fold_left (fun v i => set_cell v i p (cell v i q)) l v = v.
  Proof.
    intros Hp Hr. unfold rows_ok in Hr. induction l as [|a l IH]; intros v Hs H; cbn [fold_left]; [reflexivity|].
    inversion Hr; subst. rewrite <- (H a) by (left; reflexivity). rewrite (set_cell_same n m) by auto.
    apply IH; auto. intros i Hi. apply H. right. exact Hi.
  Qed.

  Lemma copy_endo_idem n m d (v : vals) p q :
    p <> q -> (p < n)%nat -> (q < n)%nat -> rows_ok m (endo d) -> shape n m v ->
    copy_endo d (copy_endo d v p q) p q = copy_endo d v p q.
  Proof.
    intros Hpq Hp Hq Hr Hs. unfold Solver.copy_endo at 1.
    apply (copy_fold_fix n m); auto.
    - apply copy_endo_shape. exact Hs.
    - intros i Hi. destruct (copy_fold_facts n m p q (endo d) Hpq Hp Hq Hr v Hs) as (F1 & F2 & _).
      unfold Solver.copy_endo. rewrite F2 by exact Hi. rewrite F1. reflexivity.
  Qed.

  (* ---------------- index arithmetic ---------------- *)
  Lemma t_index_pos n t p : py_pos n t = Some p -> t_index (Z.of_nat n) (t + 1) = Z.of_nat p + 1.
  Proof.
    unfold py_pos, t_index. destruct ((t <? - Z.of_nat n) || (Z.of_nat n <=? t)) eqn:E; [discriminate|].
    apply orb_false_iff in E as [E1 E2]. intros H; inversion H; subst; clear H.
    destruct (t <? 0) eqn:E3; destruct (t + 1 <? 1) eqn:E4; lia.
  Qed.
  Lemma t_index_idem n p : t_index (Z.of_nat n) (Z.of_nat p + 1) = Z.of_nat p + 1.
  Proof. unfold t_index. destruct (Z.of_nat p + 1 <? 1) eqn:E; lia. Qed.

  Lemma t_guard_feasible (fm : fmod) d n p :
    fm_lags fm = Z.of_nat (lags d) -> fm_leads fm = Z.of_nat (leads d) -> (p < n)%nat ->
    t_guard fm (Z.of_nat n) (Z.of_nat p + 1) = if feasible d n p then 0 else if (p <? lags d)%nat then c_lags else c_leads.
  Proof.
    intros Hl Hd Hp. unfold t_guard, feasible. rewrite Hl, Hd.
    destruct (Z.of_nat p + 1 <? 1) eqn:E1; [lia|].
    destruct (Z.of_nat n <? Z.of_nat p + 1) eqn:E2; [lia|].
    destruct (Z.of_nat p + 1 <=? Z.of_nat (lags d)) eqn:E3.
    - replace (lags d <=? p)%nat with false by lia. cbn [andb]. replace (p <? lags d)%nat with true by lia. reflexivity.
    - replace (lags d <=? p)%nat with true by lia. cbn [andb].
      destruct (Z.of_nat n - Z.of_nat (leads d) <? Z.of_nat p + 1) eqn:E4.
      + replace (p + leads d <? n)%nat with false by lia. replace (p <? lags d)%nat with false by lia. reflexivity.
      + replace (p + leads d <? n)%nat with true by lia. reflexivity.
  Qed.

End Facts.
