(* FWrapGreedyFacts.v — the greedy line filling of FWrap.v (= textwrap.wrap) never splits, drops or reorders a word as long
   as every word fits the width; it does split a longer one (the kept finding, now derived from the model of wrap itself). *)
From Coq Require Import Ascii String List Bool Arith Lia.
Import ListNotations.
Require Import FText FTextFacts FWrapFacts FParse FWrap.
Open Scope nat_scope.

Definition words (chs : list str) : list str := filter (fun c => negb (all_blank c)) chs.

Lemma words_app a b : words (a ++ b) = words a ++ words b.
Proof. unfold words. apply filter_app. Qed.
Lemma words_rev l : words (rev l) = rev (words l).
Proof.
  induction l as [|c l IH]; [reflexivity|]. cbn [rev]. rewrite words_app, IH. unfold words at 2 3. cbn [filter].
  destruct (negb (all_blank c)); cbn [rev app]; [reflexivity|rewrite app_nil_r; reflexivity].
Qed.

Lemma fill_spec width : forall chs cur_len cur cur' len' rest,
  fill width cur_len cur chs = (cur', len', rest) ->
  rev cur' ++ rest = rev cur ++ chs /\ length rest <= length chs /\
  (forall c r, chs = c :: r -> cur_len + length c <= width -> length rest < length chs).
Proof.
  induction chs as [|c r IH]; intros cur_len cur cur' len' rest H; cbn [fill] in H.
  - inversion H; subst. repeat split; auto. intros c r E; discriminate.
  - destruct (cur_len + length c <=? width) eqn:E.
    + destruct (IH _ _ _ _ _ H) as (H1 & H2 & _). repeat split.
      * rewrite H1. cbn [rev]. rewrite <- app_assoc. reflexivity.
      * cbn [length]. lia.
      * intros c0 r0 E0 _. cbn [length]. lia.
    + inversion H; subst. repeat split; auto. intros c0 r0 E0 Hle. inversion E0; subst. apply Nat.leb_gt in E. lia.
Qed.

Definition fits (width : nat) (chs : list str) : Prop := Forall (fun c => length c <= width) chs.

(* one round: the words of the line followed by the words left are the words it started from, and it makes progress *)
Lemma wrap_round_spec width first chs line rest :
  fits width chs -> chs <> [] -> wrap_round width first chs = (line, rest) ->
  words line ++ words rest = words chs /\ length rest < length chs /\ fits width rest.
Proof.
  intros Hfit Hne H. unfold wrap_round in H.
  set (chs1 := match chs with c :: r => if negb first && all_blank c then r else chs | [] => [] end) in H.
  assert (H1 : words chs1 = words chs /\ length chs1 <= length chs /\ fits width chs1 /\ (chs1 = chs \/ length chs1 < length chs)).
  { unfold chs1. destruct chs as [|c r]; [contradiction|]. destruct (negb first && all_blank c) eqn:E.
    - apply andb_true_iff in E as [_ E]. unfold words at 2. cbn [filter]. rewrite E. cbn [negb].
      inversion Hfit; subst. split; [reflexivity|]. split; [cbn [length]; lia|]. split; [assumption|]. right; cbn [length]; lia.
    - split; [reflexivity|]. split; [lia|]. split; [exact Hfit|]. left; reflexivity. }
  destruct H1 as (Hw1 & Hl1 & Hf1 & Hprog).
  destruct (fill width 0 [] chs1) as [[cur cur_len] rest0] eqn:Ef.
  destruct (fill_spec width chs1 0 [] cur cur_len rest0 Ef) as (Hrev & Hlen & Hstep). cbn [rev app] in Hrev.
  assert (Hrest0 : fits width rest0).
  { unfold fits in *. rewrite Forall_forall in *. intros x Hx. apply Hf1. rewrite <- Hrev. apply in_or_app. right. exact Hx. }
  assert (Hnolong : (let '(cur2, rest2) :=
                       match rest0 with
                       | c :: r => if width <? length c
                                   then let e := long_end c (width - cur_len) in (firstn e c :: cur, skipn e c :: r)
                                   else (cur, rest0)
                       | [] => (cur, rest0)
                       end in (cur2, rest2)) = (cur, rest0)).
  { destruct rest0 as [|c r]; [reflexivity|]. inversion Hrest0; subst.
    replace (width <? length c) with false by (symmetry; apply Nat.ltb_ge; assumption). reflexivity. }
  destruct rest0 as [|c0 r0].
  - cbv iota beta in H. inversion H; subst. repeat split; auto.
    + rewrite app_nil_r in Hrev. rewrite app_nil_r. rewrite <- Hw1, <- Hrev.
      destruct cur as [|c r]; [reflexivity|]. destruct (all_blank c) eqn:Eb; [|reflexivity].
      cbn [rev]. rewrite words_app. unfold words at 3. cbn [filter]. rewrite Eb. cbn [negb]. rewrite app_nil_r. reflexivity.
    + destruct chs; [contradiction|]. cbn [length]. lia.
  - inversion Hrest0 as [|? ? Hc0 Hr0]; subst.
    replace (width <? length c0) with false in H by (symmetry; apply Nat.ltb_ge; assumption).
    inversion H; subst. repeat split; auto.
    + rewrite <- Hw1, <- Hrev, words_app. f_equal.
      destruct cur as [|c r]; [reflexivity|]. destruct (all_blank c) eqn:Eb; [|reflexivity].
      cbn [rev]. rewrite words_app. unfold words at 3. cbn [filter]. rewrite Eb. cbn [negb]. rewrite app_nil_r. reflexivity.
    + (* progress: the first chunk of chs1 fits an empty line *)
      destruct chs1 as [|c1 r1] eqn:E1.
      * cbn [fill] in Ef. inversion Ef.
      * assert (Hc1 : length c1 <= width) by (inversion Hf1; assumption).
        specialize (Hstep c1 r1 eq_refl ltac:(lia)). destruct Hprog as [Hp|Hp]; [rewrite <- Hp; exact Hstep|lia].
Qed.

(* THE WRAP THEOREM: when every chunk fits the width, the lines are made of whole chunks and their words, read line after
   line, are exactly the words of the text, in order *)
Theorem wrap_keeps_words width : forall fuel first chs,
  fits width chs -> length chs < fuel ->
  words (concat (wrap_chunks fuel width first chs)) = words chs.
Proof.
  induction fuel as [|f IH]; intros first chs Hfit Hfuel; [lia|].
  cbn [wrap_chunks]. destruct chs as [|c r] eqn:Ec; [reflexivity|]. rewrite <- Ec in *.
  destruct (wrap_round width first chs) as [line rest] eqn:Er.
  assert (Hne : chs <> []) by (rewrite Ec; discriminate).
  destruct (wrap_round_spec width first chs line rest Hfit Hne Er) as (Hw & Hl & Hf).
  destruct line as [|l0 ls].
  - rewrite IH by (auto; lia). cbn [words filter app] in Hw. exact Hw.
  - cbn [concat]. rewrite words_app. rewrite IH by (auto; lia). exact Hw.
Qed.

Lemma chunks_from_length : forall l cur b, length (chunks_from l cur b) <= length l + 1.
Proof.
  induction l as [|c r IH]; intros cur b; cbn [chunks_from length].
  - destruct cur; cbn [length]; lia.
  - destruct (Bool.eqb (is_blank c) b).
    + specialize (IH (c :: cur) b). lia.
    + destruct cur; [specialize (IH [c] (is_blank c)); lia|]. cbn [length]. specialize (IH [c] (is_blank c)). lia.
Qed.

(* the same about textwrap.wrap on strings: the lines are concatenations of whole chunks of the text *)
Theorem wrap_whole_words width (text : str) :
  fits width (chunks_of text) ->
  exists ls : list (list str), wrap width text = map (@concat ascii) ls /\ words (concat ls) = words (chunks_of text).
Proof.
  intros Hfit. exists (wrap_chunks (2 * length text + 2) width true (chunks_of text)). split; [reflexivity|].
  apply wrap_keeps_words; [exact Hfit|]. unfold chunks_of. pose proof (chunks_from_length text [] false). lia.
Qed.

(* the hypothesis is met by a statement of ordinary shape, and the lines are what textwrap.wrap returns *)
Example wrap_example :
  let code := lit "solved_values(1, index) = solved_values(2, index) + solved_values(3, index-1) * solved_values(4, index) - solved_values(5, index+1) / solved_values(6, index)" in
  fits 100 (chunks_of code) /\
  wrap 100 code = [lit "solved_values(1, index) = solved_values(2, index) + solved_values(3, index-1) * solved_values(4,";
                   lit "index) - solved_values(5, index+1) / solved_values(6, index)"].
Proof.
  cbv zeta. split; [|vm_compute; reflexivity].
  unfold fits. apply Forall_forall. intros c Hc. vm_compute in Hc.
  repeat (destruct Hc as [<-|Hc]; [vm_compute; repeat constructor|]). destruct Hc.
Qed.

(* KEPT FINDING, now derived from the model of wrap: a blank-free run of more than `width` characters is cut inside a token,
   and the resulting block is no statement of the Fortran grammar although the unwrapped code is *)
Example wrap_splits_long_word :
  let names := [lit "Y"; lit "X"] in
  let eq := lit "Y[t] = abs(abs(abs(abs(abs(abs(abs(abs(abs(abs(abs(abs(abs(abs(abs(abs(abs(abs(abs(abs(abs(abs(abs(abs(abs(abs(X[t]))))))))))))))))))))))))))" in
  exists code blk,
    rewrite names eq = Some code /\ equation_block names 100 eq = Some blk /\
    (exists t, parse_stmt code = Some (0, t)) /\          (* the code itself is a statement of the grammar ...            *)
    parse_stmt (stmt_of_block blk) = None /\               (* ... the block written for it is not: `abs` is cut in two       *)
    ~ fits 100 (chunks_of code).                            (* and indeed a chunk of the code exceeds the width              *)
Proof.
  cbv zeta. eexists. eexists. split; [vm_compute; reflexivity|]. split; [vm_compute; reflexivity|].
  split; [eexists; vm_compute; reflexivity|]. split; [vm_compute; reflexivity|].
  intros Hfit. unfold fits in Hfit. rewrite Forall_forall in Hfit.
  match type of Hfit with forall x, In x ?l -> _ => let l' := eval vm_compute in l in change l with l' in Hfit end.
  specialize (Hfit _ (or_intror (or_intror (or_intror (or_intror (or_intror (or_intror (or_introl eq_refl)))))))).
  vm_compute in Hfit. repeat (apply le_S_n in Hfit). inversion Hfit.
Qed.
