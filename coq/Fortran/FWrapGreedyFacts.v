(* FWrapGreedyFacts.v — the greedy line filling of FWrap.v (= textwrap.wrap) never splits, drops or reorders a word as long
   as every word fits the width; it does split a longer one (the kept finding, now derived from the model of wrap itself). *)
From Coq Require Import Ascii String List Bool Arith Lia.
Import ListNotations.
Require Import FText FTextFacts FWrapFacts FParse FWrap.
Open Scope nat_scope.

Definition words (chs : list str) : list str := filter (fun c => negb (all_blank c)) chs.

Lemma words_app a b : words (a ++ b) = words a ++ words b.
Proof. unfold words. apply filter_app. Qed.
Lemma words_rev l : words (rev l) = rev (words l).
Proof.
  induction l as [|c l IH]; [reflexivity|]. cbn [rev]. rewrite words_app, IH. unfold words at 2 3. cbn [filter].
  destruct (negb (all_blank c)); cbn [rev app]; [reflexivity|rewrite app_nil_r; reflexivity].
Qed.

Lemma fill_spec width : forall chs cur_len cur cur' len' rest,
  fill width cur_len cur chs = (cur', len', rest) ->
  rev cur' ++ rest = rev cur ++ chs /\ length rest <= length chs /\
  (forall c r, chs = c :: r -> cur_len + length c <= width -> length rest < length chs).
Proof.
  induction chs as [|c r IH]; intros cur_len cur cur' len' rest H; cbn [fill] in H.
  - inversion H; subst. repeat split; auto. intros c r E; discriminate.
  - destruct (cur_len + length c <=? width) eqn:E.
    + destruct (IH _ _ _ _ _ H) as (H1 & H2 & _). repeat split.
      * rewrite H1. cbn [rev]. rewrite <- app_assoc. reflexivity.
      * cbn [length]. lia.
      * intros c0 r0 E0 _. cbn [length]. lia.
    + inversion H; subst. repeat split; auto. intros c0 r0 E0 Hle. inversion E0; subst. apply Nat.leb_gt in E. lia.
Qed.

Definition fits (width : nat) (chs : list str) : Prop := Forall (fun c => length c <= width) chs.

(* one round: the words of the line followed by the words left are the words it started from, and it makes progress — whatever
   the lengths of the chunks (break_long_words=False: a chunk longer than the width is never cut by textwrap) *)
Lemma wrap_round_spec width first chs line rest :
  chs <> [] -> wrap_round width first chs = (line, rest) ->
  words line ++ words rest = words chs /\ length rest < length chs.
Proof.
  intros Hne H. unfold wrap_round in H.
  set (chs1 := match chs with c :: r => if negb first && all_blank c then r else chs | [] => [] end) in H.
  assert (H1 : words chs1 = words chs /\ (chs1 = chs \/ length chs1 < length chs)).
  { unfold chs1. destruct chs as [|c r]; [contradiction|]. destruct (negb first && all_blank c) eqn:E.
    - apply andb_true_iff in E as [_ E]. unfold words at 2. cbn [filter]. rewrite E. cbn [negb].
      split; [reflexivity|]. right; cbn [length]; lia.
    - split; [reflexivity|]. left; reflexivity. }
  destruct H1 as (Hw1 & Hprog).
  destruct (fill width 0 [] chs1) as [[cur cur_len] rest0] eqn:Ef.
  destruct (fill_spec width chs1 0 [] cur cur_len rest0 Ef) as (Hrev & Hlen & Hstep). cbn [rev app] in Hrev.
  assert (Hdrop : forall cur2 : list str,
            words (rev (match cur2 with c :: r => if all_blank c then r else cur2 | [] => [] end)) = words (rev cur2)).
  { intros cur2. destruct cur2 as [|c r]; [reflexivity|]. destruct (all_blank c) eqn:Eb; [|reflexivity].
    cbn [rev]. rewrite words_app. unfold words at 3. cbn [filter]. rewrite Eb. cbn [negb]. rewrite app_nil_r. reflexivity. }
  assert (Hl1 : length chs1 <= length chs) by (destruct Hprog as [->|Hp]; lia).
  destruct rest0 as [|c0 r0].
  - cbv iota beta in H. inversion H; subst. rewrite (Hdrop cur). split.
    + rewrite app_nil_r in Hrev. rewrite app_nil_r, <- Hw1, <- Hrev. reflexivity.
    + destruct chs; [contradiction|]. cbn [length]. lia.
  - destruct ((width <? length c0) && match cur with [] => true | _ :: _ => false end) eqn:Elong.
    + apply andb_true_iff in Elong as [_ Ecur]. destruct cur as [|x cur']; [|discriminate].
      inversion H; subst. cbn [rev app] in *. split.
      * rewrite <- Hw1, <- Hrev. change (c0 :: rest) with ([c0] ++ rest). rewrite words_app. f_equal.
        destruct (all_blank c0) eqn:Eb; cbn [rev app]; unfold words; cbn [filter]; rewrite Eb; reflexivity.
      * rewrite <- Hrev in Hl1. cbn [length] in Hl1. lia.
    + inversion H; subst. rewrite (Hdrop cur). split.
      * rewrite <- Hw1, <- Hrev, words_app. reflexivity.
      * assert (Hlt : length (c0 :: r0) < length chs1).
        { destruct cur as [|x cur'].
          - (* nothing was taken although the first chunk fits an empty line: impossible *)
            cbn [rev app] in Hrev. apply andb_false_iff in Elong as [E|E]; [|discriminate].
            apply Nat.ltb_ge in E. apply (Hstep c0 r0); [symmetry; exact Hrev|lia].
          - rewrite <- Hrev, app_length, rev_length. cbn [length]. lia. }
        lia.
Qed.

(* THE WRAP THEOREM: the lines textwrap produces are made of whole chunks and their words, read line after line, are exactly the
   words of the text, in order — no hypothesis on the lengths *)
Theorem wrap_keeps_words width : forall fuel first chs,
  length chs < fuel ->
  words (concat (wrap_chunks fuel width first chs)) = words chs.
Proof.
  induction fuel as [|f IH]; intros first chs Hfuel; [lia|].
  cbn [wrap_chunks]. destruct chs as [|c r] eqn:Ec; [reflexivity|]. rewrite <- Ec in *.
  destruct (wrap_round width first chs) as [line rest] eqn:Er.
  assert (Hne : chs <> []) by (rewrite Ec; discriminate).
  destruct (wrap_round_spec width first chs line rest Hne Er) as (Hw & Hl).
  destruct line as [|l0 ls].
  - rewrite IH by lia. cbn [words filter app] in Hw. exact Hw.
  - cbn [concat]. rewrite words_app. rewrite IH by lia. exact Hw.
Qed.

Lemma chunks_from_length : forall l cur b, length (chunks_from l cur b) <= length l + 1.
Proof.
  induction l as [|c r IH]; intros cur b; cbn [chunks_from length].
  - destruct cur; cbn [length]; lia.
  - destruct (Bool.eqb (is_blank c) b).
    + specialize (IH (c :: cur) b). lia.
    + destruct cur; [specialize (IH [c] (is_blank c)); lia|]. cbn [length]. specialize (IH [c] (is_blank c)). lia.
Qed.

(* ---- the cut of over-long lines ---- *)
Lemma rfind_cut_spec : forall l pos limit best h,
  rfind_cut l pos limit best = Some h ->
  (best = Some h) \/ (pos <= h /\ exists c, nth_error l (h - pos) = Some c /\ is_cut_char c = true).
Proof.
  induction l as [|c r IH]; intros pos limit best h H; cbn [rfind_cut] in H; [left; exact H|].
  destruct (pos <? limit); [|left; exact H].
  destruct (IH _ _ _ _ H) as [Hb|(Hle & c' & Hn & Hc)].
  - destruct (is_cut_char c) eqn:Ec; [|left; exact Hb].
    inversion Hb; subst. right. split; [lia|]. exists c. rewrite Nat.sub_diag. split; [reflexivity|exact Ec].
  - right. split; [lia|]. exists c'. split; [|exact Hc].
    replace (h - pos) with (S (h - S pos)) by lia. exact Hn.
Qed.

(* every piece but the last ends with `(`, `)` or `,`, and the pieces put together are the line *)
Definition ends_at_cut (piece : str) : Prop := exists c, last piece c = c /\ piece <> [] /\ is_cut_char (last piece " "%char) = true.

Lemma split_long_nonempty fuel width line : split_long fuel width line <> [].
Proof.
  destruct fuel; cbn [split_long]; [discriminate|].
  destruct (width <? length line); [|discriminate]. destruct (rfind_cut line 0 width None); discriminate.
Qed.

Lemma split_long_spec : forall fuel width line,
  concat (split_long fuel width line) = line /\
  Forall (fun piece => is_cut_char (last piece " "%char) = true) (removelast (split_long fuel width line)).
Proof.
  induction fuel as [|f IH]; intros width line; cbn [split_long].
  - cbn [concat removelast]. rewrite app_nil_r. split; [reflexivity|constructor].
  - destruct (width <? length line); [|cbn [concat removelast]; rewrite app_nil_r; split; [reflexivity|constructor]].
    destruct (rfind_cut line 0 width None) as [h|] eqn:E; [|cbn [concat removelast]; rewrite app_nil_r; split; [reflexivity|constructor]].
    destruct (IH width (skipn (S h) line)) as [Hc Hf]. split.
    + cbn [concat]. rewrite Hc. apply firstn_skipn.
    + destruct (rfind_cut_spec _ _ _ _ _ E) as [Hb|(_ & c & Hn & Hcc)]; [discriminate|]. rewrite Nat.sub_0_r in Hn.
      assert (Hlast : last (firstn (S h) line) " "%char = c).
      { clear - Hn. revert h Hn. induction line as [|x l IHl]; intros h Hn; [destruct h; discriminate|].
        destruct h as [|h]; cbn [nth_error] in Hn.
        - inversion Hn; subst. reflexivity.
        - destruct l as [|y l']; [destruct h; discriminate Hn|]. specialize (IHl h Hn).
          cbn [firstn] in IHl |- *. cbn [last] in IHl |- *. exact IHl. }
      destruct (split_long f width (skipn (S h) line)) as [|p ps] eqn:Es.
      * exfalso. revert Es. apply split_long_nonempty.
      * cbn [removelast]. constructor; [rewrite Hlast; exact Hcc|exact Hf].
Qed.

(* _wrap_code: the lines are the lines of textwrap.wrap (whole chunks, words in order), each possibly cut further after a
   parenthesis or comma: every line break of the generated module lies between two tokens *)
Theorem wrap_breaks_between_tokens width (text : str) :
  exists ls : list (list str),
    wrap width text = flat_map (fun line => split_long (length line) width line) (map (@concat ascii) ls) /\
    words (concat ls) = words (chunks_of text) /\
    forall line, concat (split_long (length line) width line) = line /\
                 Forall (fun piece => is_cut_char (last piece " "%char) = true) (removelast (split_long (length line) width line)).
Proof.
  exists (wrap_chunks (2 * length text + 2) width true (chunks_of text)). split; [reflexivity|]. split.
  - apply wrap_keeps_words. unfold chunks_of. pose proof (chunks_from_length text [] false). lia.
  - intros line. apply split_long_spec.
Qed.

(* a statement of ordinary shape: the lines are what _wrap_code returns *)
Example wrap_example :
  let code := lit "solved_values(1, index) = solved_values(2, index) + solved_values(3, index-1) * solved_values(4, index) - solved_values(5, index+1) / solved_values(6, index)" in
  wrap 100 code = [lit "solved_values(1, index) = solved_values(2, index) + solved_values(3, index-1) * solved_values(4,";
                   lit "index) - solved_values(5, index+1) / solved_values(6, index)"].
Proof. vm_compute. reflexivity. Qed.

(* REPAIRED (fix 45adc65; before it the block below was no statement of the grammar: `abs` was cut in two): a blank-free run of
   120 characters — 26 nested calls — is cut after a parenthesis, and the block written for it parses to the very tree of the code *)
Example wrap_long_run_parses :
  let names := [lit "Y"; lit "X"] in
  let eq := lit "Y[t] = abs(abs(abs(abs(abs(abs(abs(abs(abs(abs(abs(abs(abs(abs(abs(abs(abs(abs(abs(abs(abs(abs(abs(abs(abs(abs(X[t]))))))))))))))))))))))))))" in
  exists code blk t,
    rewrite names eq = Some code /\ equation_block names 100 eq = Some blk /\
    ~ fits 100 (chunks_of code) /\
    parse_stmt code = Some (0, t) /\ parse_stmt (stmt_of_block blk) = Some (0, t) /\
    Forall (fun l => length l <= 100) (wrap 100 code).
Proof.
  cbv zeta. eexists. eexists. eexists. split; [vm_compute; reflexivity|]. split; [vm_compute; reflexivity|].
  split.
  { intros Hfit. unfold fits in Hfit. rewrite Forall_forall in Hfit.
    match type of Hfit with forall x, In x ?l -> _ => let l' := eval vm_compute in l in change l with l' in Hfit end.
    specialize (Hfit _ (or_intror (or_intror (or_intror (or_intror (or_intror (or_intror (or_introl eq_refl)))))))).
    vm_compute in Hfit. repeat (apply le_S_n in Hfit). inversion Hfit. }
  split; [vm_compute; reflexivity|]. split; [vm_compute; reflexivity|].
  apply Forall_forall. intros l Hl. vm_compute in Hl.
  repeat (destruct Hl as [<-|Hl]; [vm_compute; repeat constructor|]). destruct Hl.
Qed.
