(* FPassFacts.v — one evaluation pass: the {equations} block of the Fortran module (FSem.f_pass) computes what the generated
   Python _evaluate (FSem.py_pass) computes, on every program of benign expressions (FBenignFacts.benign: the expression
   subset common to both back-ends), for every number type and arithmetic (the sign symmetry of * and / is asked only at the values a pass meets).  Then the end-to-end
   statements: FortranEngine.solve_t / _evaluate over the compiled module = the pure-Python class. *)
From Coq Require Import ZArith List Bool Lia ZifyBool.
Import ListNotations.
Require Import PyBase Solver SolverFacts FSem FSemFacts FBenignFacts FSolve FSolveFacts FSolveSim FSolveRun.
Open Scope Z_scope.

Section Pass.
  Variable num : Type.
  Variables (add sub mul div : num -> num -> num) (neg absf : num -> num) (ltb : num -> num -> bool).
  Variables (is_nan is_inf : num -> bool).
  Variable of_int : Z -> num.
  Variables (fexp flog : num -> num) (fpow : num -> num -> num).
  Variable round4 : num -> num.
  Variables (exp4 log4 : num -> num) (pow4 : num -> num -> num).
  Variables (zero one : num).
  Variable isfin : num -> bool.

  Notation vals := (vals num).
  Notation expr := (expr num).
  Notation eqn := (eqn num).
  Notation py_eval := (py_eval num add sub mul div neg absf ltb is_nan is_inf of_int fexp flog fpow).
  Notation py_pass := (py_pass num add sub mul div neg absf ltb is_nan is_inf of_int fexp flog fpow).
  Notation py_hook := (py_hook num add sub mul div neg absf ltb is_nan is_inf of_int fexp flog fpow).
  Notation f_eval := (f_eval num add sub mul div neg absf ltb of_int fexp flog fpow round4 exp4 log4 pow4 one).
  Notation f_pass := (f_pass num add sub mul div neg absf ltb of_int fexp flog fpow round4 exp4 log4 pow4 zero one).
  Notation lf_sem := (lf_sem num add sub mul div neg absf ltb of_int fexp flog fpow).
  Notation mm_det := (mm_det num add sub mul div neg absf ltb of_int fexp flog fpow).
  Notation quiet := (quiet num add sub mul div neg absf ltb is_nan is_inf of_int fexp flog fpow).
  Notation literal_free := (literal_free num).
  Notation reads := (reads num).
  Notation f_regroup := (f_regroup num).
  Notation rd_py := (rd_py num).
  Notation rd_f := (rd_f num zero).
  Notation fread := (fread num zero).
  Notation fwrite := (fwrite num).
  Notation cell := (cell num zero).
  Notation set_cell := (set_cell num).

  Notation neg_sym := (neg_sym num add sub mul div neg absf ltb of_int fexp flog fpow).

  (* ---- a program inside the model's declared structure: m variables, every lag within `lg`, every lead within `ld` ---- *)
  Definition eqn_scoped (m : nat) (lg ld : Z) (q : eqn) : Prop :=
    (fst q < m)%nat /\ benign num add sub mul div of_int fpow (snd q) /\
    forall j k, In (j, k) (reads (snd q)) -> (j < m)%nat /\ - lg <= k <= ld.
  Definition prog_scoped (m : nat) (lg ld : Z) (prog : list eqn) : Prop := Forall (eqn_scoped m lg ld) prog.

  (* along the statements of one pass: max / min never meet a NaN or a tie of zeros of opposite sign; where Fortran reads
     (-x) * y as -(x * y) the two products are the same number (FSemFacts.neg_sym: a closed computation for binary64 data); and
     (when numpy warnings are errors) no operation turns finite arguments into inf / NaN *)
  Fixpoint pass_ok (catch : bool) (prog : list eqn) (p : nat) (v : vals) : Prop :=
    match prog with
    | [] => True
    | (i, e) :: r =>
        let rd := rd_f v (Z.of_nat p + 1) in
        mm_det rd e /\ neg_sym rd e /\ (catch = false \/ quiet rd e) /\ pass_ok catch r p (set_cell v i p (lf_sem rd e))
    end.

  (* ---- reading: self._X[t + k] = solved_values(number of X, index + k) ---- *)
  Lemma py_pos_shift n t p k : py_pos n t = Some p -> 0 <= Z.of_nat p + k < Z.of_nat n ->
    py_pos n (t + k) = Some (Z.to_nat (Z.of_nat p + k)).
  Proof.
    intros Hp Hk. unfold py_pos in Hp.
    destruct ((t <? - Z.of_nat n) || (Z.of_nat n <=? t)) eqn:E; [discriminate|].
    apply orb_false_iff in E as [E1 E2]. inversion Hp as [Hp']; clear Hp.
    destruct (t <? 0) eqn:E3.
    - rewrite py_pos_neg by lia. f_equal. lia.
    - rewrite py_pos_nonneg by lia. f_equal. lia.
  Qed.

  Lemma rd_agree n m (v : vals) t p j k :
    shape n m v -> py_pos n t = Some p -> (j < m)%nat -> 0 <= Z.of_nat p + k < Z.of_nat n ->
    rd_py v n t j k = Some (rd_f v (Z.of_nat p + 1) j k).
  Proof.
    intros Hs Hp Hj Hk. unfold FSem.rd_py, FSem.rd_f. rewrite (py_pos_shift n t p k Hp Hk).
    set (q := Z.to_nat (Z.of_nat p + k)).
    replace (Z.of_nat p + 1 + k) with (Z.of_nat q + 1) by (unfold q; lia).
    assert (Hq : (q < n)%nat) by (unfold q; lia).
    rewrite (fread_in num zero n m v j q Hs Hj Hq). unfold Solver.cell.
    destruct Hs as [Hl Hr].
    assert (Hjl : (j < length v)%nat) by lia.
    rewrite (nth_error_nth' v [] Hjl).
    assert (Hrow : length (nth j v []) = n).
    { rewrite Forall_forall in Hr. apply Hr. apply nth_In. lia. }
    assert (Hql : (q < length (nth j v []))%nat) by lia.
    rewrite (nth_error_nth' (nth j v []) zero Hql). reflexivity.
  Qed.

  (* ---- THE PASS: statement by statement both engines store the same REAL(8) value in the same cell ---- *)
  Theorem pass_agree catch n m lg ld t p : forall (prog : list eqn) (v : vals),
    shape n m v -> py_pos n t = Some p ->
    prog_scoped m lg ld prog -> lg <= Z.of_nat p -> Z.of_nat p + ld < Z.of_nat n ->
    pass_ok catch prog p v ->
    py_pass catch prog n t v = (f_pass prog (Z.of_nat p + 1) v, None).
  Proof.
    induction prog as [|[i e] r IH]; intros v Hs Hp Hsc Hlg Hld Hok; cbn [FSem.py_pass FSem.f_pass]; [reflexivity|].
    inversion Hsc as [|? ? Hq Hr]; subst. destruct Hq as (Hi & Hlf & Hrd). cbn [fst snd] in *.
    cbn [pass_ok] in Hok. destruct Hok as (Hmm & Hns & Hq & Hok).
    assert (Hreads : forall j k, In (j, k) (reads e) -> rd_py v n t j k = Some (rd_f v (Z.of_nat p + 1) j k)).
    { intros j k Hin. destruct (Hrd j k Hin) as [Hj Hk]. apply (rd_agree n m); auto. lia. }
    destruct (benign_agree_local num add sub mul div neg absf ltb is_nan is_inf of_int fexp flog fpow round4 exp4 log4 pow4 zero one
                catch (rd_py v n t) (rd_f v (Z.of_nat p + 1)) e Hlf Hreads Hmm Hns Hq) as [Pe Fe].
    rewrite Pe, Fe, Hp. cbn [FSem.tof FSem.to8].
    rewrite (fwrite_in num n m v i p _ Hs Hi (py_pos_lt _ _ _ Hp)).
    apply IH; auto. apply set_cell_shape. exact Hs.
  Qed.

  Lemma fwrite_shape n m (v : vals) r c x : shape n m v -> shape n m (fwrite v r c x).
  Proof.
    intros Hs. unfold FSem.fwrite. destruct (in_range num v r c); [apply set_cell_shape; exact Hs|].
    match goal with |- context [if ?b then _ else _] => destruct b end; [apply set_cell_shape; exact Hs|exact Hs].
  Qed.
  Lemma f_pass_shape n m idx : forall (prog : list eqn) (v : vals), shape n m v -> shape n m (f_pass prog idx v).
  Proof.
    induction prog as [|[i e] r IH]; intros v Hs; cbn [FSem.f_pass]; [exact Hs|].
    destruct (f_eval (rd_f v idx) (f_regroup e)); [|apply IH; exact Hs]. apply IH. apply fwrite_shape. exact Hs.
  Qed.

  (* ================================================================== end to end: solve_t *)
  Notation w_solve_t := (w_solve_t num sub absf ltb isfin zero).
  Notation w_evaluate := (w_evaluate num).
  Notation solve_t_M := (solve_t_M num sub absf ltb isfin zero).
  Notation no_hook := (no_hook num).

  (* the passes that run: along the statements of pass j+1 max / min stay clear of NaN and of zeros of opposite sign and
     (when numpy warnings are errors) nothing leaves the finite range; the pass leaves finite check / endogenous values;
     unless it ends the iteration the same is asked of the next pass *)
  Fixpoint run_ok_prog (catch : bool) (prog : list eqn) (d : mdesc) (o : opts num) (p : nat) (v1 : vals) (n' j : nat) : Prop :=
    match n' with
    | O => True
    | S n'' =>
        let vj := iterv num (f_pass prog) p v1 j in
        let c0 := chk num zero (f_pass prog) d p v1 j in
        let c1 := chk num zero (f_pass prog) d p v1 (S j) in
        pass_ok catch prog p vj /\
        all_finite num isfin c1 = true /\ endo_fin num isfin zero (f_pass prog) d p v1 (S j) = true /\
        (if Z.of_nat (S j) <? min_iter o then run_ok_prog catch prog d o p v1 n'' (S j)
         else if conv num sub absf ltb (tol o) c1 c0 then True else run_ok_prog catch prog d o p v1 n'' (S j))
    end.

  Lemma run_ok_of_prog (prog : list eqn) d o t p n m v1 :
    prog_scoped m (Z.of_nat (lags d)) (Z.of_nat (leads d)) prog ->
    py_pos n t = Some p -> (lags d <= p)%nat -> (p + leads d < n)%nat ->
    forall n' j, shape n m (iterv num (f_pass prog) p v1 j) ->
    run_ok_prog (is_raise (errors o) && catch_first o) prog d o p v1 n' j ->
    run_ok num sub absf ltb isfin zero (f_pass prog) (py_hook prog n) d o t p v1 n' j.
  Proof.
    intros Hsc Hpos Hl1 Hl2. induction n' as [|n' IH]; intros j Hs Hr; cbn [run_ok]; [exact I|].
    cbn [run_ok_prog] in Hr. destruct Hr as (Hok & Hc & He & Hnext).
    assert (Hs' : shape n m (iterv num (f_pass prog) p v1 (S j))) by (cbn [iterv]; apply f_pass_shape; exact Hs).
    split; [|split; [exact Hc|split; [exact He|]]].
    - unfold FSem.py_hook.
      apply (pass_agree _ n m (Z.of_nat (lags d)) (Z.of_nat (leads d)) t p prog); auto; lia.
    - destruct (Z.of_nat (S j) <? min_iter o); [apply IH; assumption|].
      destruct (conv num sub absf ltb (tol o) _ _); [exact I|apply IH; assumption].
  Qed.

  (* FortranEngine.solve_t over the module generated from `prog` = solve_t of the class generated from `prog` (same return
     value / exception class, same values, statuses and iteration counts): literal-free program, feasible period (either
     spelling of t), every option of the lattice, offsets inside the span, finite values along the passes
     that run *)
  Theorem solve_t_engines_agree (prog : list eqn) fm d o t s p n m :
    shape n m (vals_of s) -> length (status s) = n -> (0 < m)%nat ->
    rows_ok m (check d) -> rows_ok m (endo d) ->
    fm_endo fm = endo_nums d -> fm_lags fm = Z.of_nat (lags d) -> fm_leads fm = Z.of_nat (leads d) ->
    prog_scoped m (Z.of_nat (lags d)) (Z.of_nat (leads d)) prog ->
    py_pos n t = Some p -> feasible d n p = true ->
    errors o <> EInvalid -> min_iter o <= max_iter o ->
    (offset o = 0 \/ 0 <= Z.of_nat p + offset o < Z.of_nat n) ->
    let v0 := seeded num zero d o (vals_of s) p in
    all_finite num isfin (get_check num zero d v0 p) = true ->
    run_ok_prog (is_raise (errors o) && catch_first o) prog d o p v0 (Z.to_nat (max_iter o)) 0 ->
    agree num (w_solve_t (f_pass prog) fm d o t s) (solve_t_M (py_hook prog n) no_hook no_hook d o t s).
  Proof.
    intros Hs Hlen Hm Hchk Hend Hfe Hfl Hfd Hsc Hpos Hfeas Hinv Hmm Hoff v0 Hf0 Hrun.
    assert (Hshape : forall v, shape n m v -> shape n m (f_pass prog (Z.of_nat p + 1) v)) by (intros v Hv; apply f_pass_shape; exact Hv).
    assert (Hs0 : shape n m v0) by (apply seeded_shape; exact Hs).
    assert (Hf12 : (lags d <= p)%nat /\ (p + leads d < n)%nat).
    { unfold feasible in Hfeas. apply andb_true_iff in Hfeas as [Hf1 Hf2]. split; lia. }
    destruct Hf12 as [Hf1 Hf2].
    apply (w_solve_t_refines_run num sub absf ltb isfin zero (f_pass prog) (py_hook prog n) no_hook no_hook fm d o t s p n m); auto.
    apply (run_ok_of_prog prog d o t p n m v0 Hsc Hpos Hf1 Hf2); [exact Hs0|exact Hrun].
  Qed.

  (* ================================================================== end to end: _evaluate *)
  Theorem evaluate_engines_agree (prog : list eqn) fm (lg ld : nat) t s p n m :
    shape n m (vals_of s) -> length (status s) = n -> (0 < m)%nat ->
    fm_lags fm = Z.of_nat lg -> fm_leads fm = Z.of_nat ld ->
    prog_scoped m (Z.of_nat lg) (Z.of_nat ld) prog ->
    py_pos n t = Some p -> (lg <= p)%nat -> (p + ld < n)%nat ->
    pass_ok false prog p (vals_of s) ->
    w_evaluate (f_pass prog) fm t s = (setvals num s (f_pass prog (Z.of_nat p + 1) (vals_of s)), Ret tt) /\
    py_pass false prog n t (vals_of s) = (f_pass prog (Z.of_nat p + 1) (vals_of s), None).
  Proof.
    intros Hs Hlen Hm Hfl Hfd Hsc Hpos Hlg Hld Hok. split.
    - unfold FSolve.w_evaluate, FSolve.t_evaluate. rewrite (shape_ncols num n m _ Hs Hm), (t_index_pos n t p Hpos).
      unfold t_guard. rewrite Hfl, Hfd.
      replace (Z.of_nat p + 1 <? 1) with false by lia.
      replace (Z.of_nat n <? Z.of_nat p + 1) with false by (pose proof (py_pos_lt _ _ _ Hpos); lia).
      replace (Z.of_nat p + 1 <=? Z.of_nat lg) with false by lia.
      replace (Z.of_nat n - Z.of_nat ld <? Z.of_nat p + 1) with false by lia.
      reflexivity.
    - apply (pass_agree false n m (Z.of_nat lg) (Z.of_nat ld)); auto; lia.
  Qed.
End Pass.
