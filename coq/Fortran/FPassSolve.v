(* FPassSolve.v — end to end for `solve`: FortranEngine.solve over the module generated from a literal-free program =
   SolverMixin.solve of the class generated from the same program (FSolveAll.w_solve_refines + FPassFacts.pass_agree). *)
From Coq Require Import ZArith List Bool Lia ZifyBool.
Import ListNotations.
Require Import PyBase Solver SolverFacts FSem FSemFacts FSolve FSolveFacts FSolveSim FSolveRun FPassFacts FSolveAll.
Open Scope Z_scope.

Section PassSolve.
  Variable num : Type.
  Variables (add sub mul div : num -> num -> num) (neg absf : num -> num) (ltb : num -> num -> bool).
  Variables (is_nan is_inf : num -> bool).
  Variable of_int : Z -> num.
  Variables (fexp flog : num -> num) (fpow : num -> num -> num).
  Variable round4 : num -> num.
  Variables (exp4 log4 : num -> num) (pow4 : num -> num -> num).
  Variables (zero one : num).
  Variable isfin : num -> bool.

  Notation vals := (vals num).
  Notation eqn := (eqn num).
  Notation py_hook := (py_hook num add sub mul div neg absf ltb is_nan is_inf of_int fexp flog fpow).
  Notation f_pass := (f_pass num add sub mul div neg absf ltb of_int fexp flog fpow round4 exp4 log4 pow4 zero one).
  Notation pass_ok := (pass_ok num add sub mul div neg absf ltb is_nan is_inf of_int fexp flog fpow zero).
  Notation pass_agree := (pass_agree num add sub mul div neg absf ltb is_nan is_inf of_int fexp flog fpow round4 exp4 log4 pow4
                                     zero one).
  Notation f_pass_shape := (f_pass_shape num add sub mul div neg absf ltb of_int fexp flog fpow round4 exp4 log4 pow4 zero one).

  Variables (prog : list eqn) (fm : fmod) (d : mdesc) (o : opts num) (n m : nat) (ec fc : Z) (fl : failmode).
  Notation evf := (f_pass prog).
  Notation N := (Z.to_nat (max_iter o)).
  Notation period_args := (period_args num sub absf ltb isfin zero evf fm d o ec).

  Notation run_ok_prog := (run_ok_prog num add sub mul div neg absf ltb is_nan is_inf of_int fexp flog fpow round4 exp4 log4 pow4
                                       zero one isfin).
  (* what one period needs: room for the lags / leads, an in-span offset, finite check values to start from, and along the
     passes that run: benign max / min, no numpy warning, finite check / endogenous values *)
  Definition period_ok_prog (p : nat) (v : vals) : Prop :=
    (p < n)%nat /\ feasible d n p = true /\ (offset o = 0 \/ 0 <= Z.of_nat p + offset o < Z.of_nat n) /\
    all_finite num isfin (get_check num zero d (seeded num zero d o v p) p) = true /\
    run_ok_prog (is_raise (errors o) && catch_first o) prog d o p (seeded num zero d o v p) N 0.
  Fixpoint solve_ok_prog (ps : list nat) (v : vals) : Prop :=
    match ps with
    | [] => True
    | p :: r => period_ok_prog p v /\ solve_ok_prog r (fo_vals (period_args p v))
    end.

  Hypothesis Hm : (0 < m)%nat.
  Hypothesis Hchk : rows_ok m (check d).
  Hypothesis Hend : rows_ok m (endo d).
  Hypothesis Hfe : fm_endo fm = endo_nums d.
  Hypothesis Hfl : fm_lags fm = Z.of_nat (lags d).
  Hypothesis Hfd : fm_leads fm = Z.of_nat (leads d).
  Hypothesis Hsc : prog_scoped num add sub mul div of_int fpow m (Z.of_nat (lags d)) (Z.of_nat (leads d)) prog.
  Hypothesis Hmm : min_iter o <= max_iter o.
  Hypothesis Hec : w_ec (errors o) = Some ec.
  Hypothesis Hfc : w_fc fl = Some fc.
  Hypothesis Hfr : fail_raise o = match fl with FRaise => true | _ => false end.

  Lemma evf_shape : forall idx v, shape n m v -> shape n m (evf idx v).
  Proof. intros idx v H. apply f_pass_shape. exact H. Qed.

  Lemma period_ok_of_prog p v : shape n m v -> period_ok_prog p v ->
    period_ok num sub absf ltb isfin zero evf (py_hook prog n) d o n p v.
  Proof.
    intros Hs (Hp & Hfeas & Hoff & Hf0 & Hrun).
    split; [exact Hp|]. split; [exact Hfeas|]. split; [exact Hoff|]. split; [exact Hf0|].
    assert (Hf12 : (lags d <= p)%nat /\ (p + leads d < n)%nat).
    { unfold feasible in Hfeas. apply andb_true_iff in Hfeas as [Hf1 Hf2]. split; lia. }
    destruct Hf12 as [Hf1 Hf2].
    apply (run_ok_of_prog num add sub mul div neg absf ltb is_nan is_inf of_int fexp flog fpow round4 exp4 log4 pow4 zero one isfin
             prog d o (Z.of_nat p) p n m _ Hsc); auto.
    - rewrite (py_pos_nonneg n (Z.of_nat p)) by lia. rewrite Nat2Z.id. reflexivity.
    - cbn [iterv]. apply seeded_shape. exact Hs.
  Qed.

  Lemma solve_ok_of_prog : forall ps v, shape n m v -> solve_ok_prog ps v ->
    solve_ok num sub absf ltb isfin zero evf (py_hook prog n) fm d o n ec ps v.
  Proof.
    induction ps as [|p r IH]; intros v Hs Hok; cbn [solve_ok]; [exact I|].
    cbn [solve_ok_prog] in Hok. destruct Hok as [Hp Hr].
    pose proof (period_ok_of_prog p v Hs Hp) as Hpo. split; [exact Hpo|].
    apply IH; [|exact Hr].
    destruct (period_spec num sub absf ltb isfin zero evf (py_hook prog n) fm d o n m ec fl Hm Hchk Hend Hfe Hfl Hfd Hmm
                evf_shape Hec Hfr p v (repeat Unsolved n) [] [] Hs (repeat_length _ _) Hpo) as (v' & b & k & lg' & Hpa & Hs' & _).
    unfold FSolveAll.period_args in Hpa |- *. rewrite Hpa. exact Hs'.
  Qed.

  (* END TO END, solve: same list of return values or the same exception class, same values, statuses, iteration counts *)
  Theorem solve_engines_agree ps s :
    shape n m (vals_of s) -> length (status s) = n -> solve_ok_prog ps (vals_of s) ->
    agree num (w_solve num sub absf ltb isfin zero evf fm d o fl ps s)
              (py_solve num sub absf ltb isfin zero (py_hook prog n) (no_hook num) (no_hook num) d o ps s).
  Proof.
    intros Hs Hlen Hok.
    apply (w_solve_refines num sub absf ltb isfin zero evf (py_hook prog n) fm d o n m ec fc fl Hm Hchk Hend Hfe Hfl Hfd Hmm
             evf_shape Hec Hfc Hfr ps s Hs Hlen).
    apply solve_ok_of_prog; assumption.
  Qed.
End PassSolve.
