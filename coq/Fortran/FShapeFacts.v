(* FShapeFacts.v — the template's routines keep the values matrix rectangular, whatever they are given (no hypothesis on
   indexes, codes or finiteness). *)
From Coq Require Import ZArith List Bool Lia.
Import ListNotations.
Require Import PyBase Solver FSem FSolve FSolveFacts.
Open Scope Z_scope.

Section Shape.
  Variable num : Type.
  Variables (sub : num -> num -> num) (absf : num -> num) (ltb : num -> num -> bool)
            (isfin : num -> bool) (zero : num).
  Variable evf : Z -> vals num -> vals num.
  Variables (n m : nat).
  Hypothesis Hshape : forall idx v, shape n m v -> shape n m (evf idx v).

  Notation vals := (vals num).
  Notation fwrite := (fwrite num).
  Notation t_loop := (t_loop num sub absf ltb isfin zero evf).
  Notation t_solve_t := (t_solve_t num sub absf ltb isfin zero evf).

  Lemma fwrite_keeps_shape (v : vals) r c x : shape n m v -> shape n m (fwrite v r c x).
  Proof.
    intros Hs. unfold FSem.fwrite. destruct (in_range num v r c); [apply set_cell_shape; exact Hs|].
    match goal with |- context [if ?b then _ else _] => destruct b end; [apply set_cell_shape; exact Hs|exact Hs].
  Qed.

  Lemma t_zero_shape fm (v : vals) idx : shape n m v -> shape n m (t_zero num isfin zero fm v idx).
  Proof.
    unfold t_zero. generalize (fm_endo fm). intros l. revert v.
    induction l as [|r l IH]; intros v Hs; cbn [fold_left]; [exact Hs|].
    apply IH. destruct (isfin (fread num zero v r idx)); [exact Hs|apply fwrite_keeps_shape; exact Hs].
  Qed.

  Lemma t_copy_shape fm (v : vals) idx loc : shape n m v -> shape n m (t_copy num zero fm v idx loc).
  Proof.
    unfold t_copy. generalize (fm_endo fm). intros l. revert v.
    induction l as [|r l IH]; intros v Hs; cbn [fold_left]; [exact Hs|].
    apply IH. apply fwrite_keeps_shape. exact Hs.
  Qed.

  Lemma t_evaluate_shape fm (v : vals) t : shape n m v -> shape n m (fst (t_evaluate num evf fm v t)).
  Proof.
    intros Hs. unfold t_evaluate. destruct (_ =? 0); cbn [fst]; [apply Hshape; exact Hs|exact Hs].
  Qed.

  Lemma t_loop_shape fm ec min_it max_it tl cv idx : forall k' k (v : vals) cur code,
    shape n m v -> shape n m (fo_vals (t_loop fm ec min_it max_it tl cv idx k' k v cur code)).
  Proof.
    induction k' as [|k' IH]; intros k v cur code Hs; cbn [FSolve.t_loop]; [exact Hs|].
    pose proof (t_evaluate_shape fm v idx Hs) as He.
    destruct (t_evaluate num evf fm v idx) as [v' c']. cbn [fst] in He.
    destruct (negb (c' =? 0)); [exact He|].
    assert (Hz : shape n m (if k <? max_it then t_zero num isfin zero fm v' idx else v')).
    { destruct (k <? max_it); [apply t_zero_shape; exact He|exact He]. }
    repeat match goal with
           | |- context [if ?b then _ else _] => destruct b
           end; cbn [fo_vals]; try exact He; try (apply IH; assumption).
  Qed.

  Theorem t_solve_t_shape fm (v : vals) t min_it max_it tl offset cv ec :
    shape n m v -> shape n m (fo_vals (t_solve_t fm v t min_it max_it tl offset cv ec)).
  Proof.
    intros Hs. unfold FSolve.t_solve_t.
    destruct (negb (_ =? 0)); [exact Hs|].
    destruct (offset =? 0).
    - destruct (_ && _); [exact Hs|]. apply t_loop_shape. exact Hs.
    - destruct (_ <? 1); [exact Hs|]. destruct (_ <? _); [exact Hs|].
      pose proof (t_copy_shape fm v (t_index (ncols_of num v) t) (t_index (ncols_of num v) t + offset) Hs) as Hc.
      destruct (_ && _); [exact Hc|]. apply t_loop_shape. exact Hc.
  Qed.
End Shape.
