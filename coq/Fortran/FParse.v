(* FParse.v — from the TEXT of a generated Fortran assignment to the syntax tree FSem.f_eval interprets.

     lex          characters -> tokens (integer and decimal literals, names, + - * / ** ( ) , =)
     parse_stmt   `solved_values(n, index) = <expression>`  ->  (row of the left-hand side, tree)
                  following the expression grammar gfortran applies (matchexp.c, with the GNU extension that lets a unary
                  minus follow an arithmetic operator):
                      level-2       ::= [-] add-operand { ( + or - ) ext-add-operand }
                      ext-add-op    ::= - ext-add-op | add-operand
                      add-operand   ::= mult-operand { ( * or / ) ext-mult-operand }
                      ext-mult-op   ::= - ext-mult-op | mult-operand
                      mult-operand  ::= primary [ ** ext-mult-op ]
                      primary       ::= literal | solved_values(n, index[+-k]) | f(level-2 {, level-2}) | ( level-2 )
     sexpr        number-type-free trees (a decimal literal is kept as mantissa and scale: 0.125 = 125 / 10^3)
     to_expr      sexpr -> FSem.expr, given the binary64 / binary32 values of the decimal literals
     s_regroup    FSem.f_regroup on sexpr (the Python parse of the same text, re-read the Fortran way)

   K ties text and tree per case: parse_stmt (generated statement) = s_regroup (tree the script was rendered from), and the
   float part of K evaluates to_expr of that very tree.  Definitions only. *)
From Coq Require Import Ascii String List Bool ZArith Arith.
Import ListNotations.
Require Import FText FSem.
Open Scope char_scope.

Inductive sexpr : Type :=
| SVar (i : nat) (k : Z)
| SInt (z : Z)
| SDec (mant : Z) (scale : nat)
| SDec8 (mant : Z) (scale : nat)          (* a literal with a double-precision exponent letter or kind suffix: 0.1d0, 0.1_8 *)
| SNeg (e : sexpr)
| SPar (e : sexpr)
| SBin (o : binop) (a b : sexpr)
| SAbs (e : sexpr)
| SExp (e : sexpr)
| SLog (e : sexpr)
| SMM (m : mmop) (a b : sexpr).

Section ToExpr.
  Variable num : Type.
  Variable dec : Z -> nat -> num * num.          (* (binary64 value, binary32 value) of mantissa / 10^scale *)
  Fixpoint to_expr (s : sexpr) : expr num :=
    match s with
    | SVar i k => EVar i k
    | SInt z => EInt z
    | SDec m sc => EDec (fst (dec m sc)) (snd (dec m sc))
    | SDec8 m sc => EDec (fst (dec m sc)) (fst (dec m sc))          (* REAL(8): the Fortran value is the binary64 value *)
    | SNeg a => ENeg (to_expr a)
    | SPar a => EPar (to_expr a)
    | SBin o a b => EBin o (to_expr a) (to_expr b)
    | SAbs a => EAbs (to_expr a)
    | SExp a => EExp (to_expr a)
    | SLog a => ELog (to_expr a)
    | SMM m a b => EMM m (to_expr a) (to_expr b)
    end.
End ToExpr.

Fixpoint s_regroup (e : sexpr) : sexpr :=
  match e with
  | SVar _ _ | SInt _ | SDec _ _ | SDec8 _ _ => e
  | SNeg a => SNeg (s_regroup a)
  | SPar a => SPar (s_regroup a)
  | SBin o a b =>
      let a' := s_regroup a in let b' := s_regroup b in
      if is_mul o then match a' with SNeg x => SNeg (SBin o x b') | _ => SBin o a' b' end
      else SBin o a' b'
  | SAbs a => SAbs (s_regroup a)
  | SExp a => SExp (s_regroup a)
  | SLog a => SLog (s_regroup a)
  | SMM m a b => SMM m (s_regroup a) (s_regroup b)
  end.

(* table of decimal literals recorded by the harness: (mantissa, scale, binary64 value, binary32 value) *)
Fixpoint dlook {num} (dflt : num) (tab : list (Z * nat * num * num)) (m : Z) (s : nat) : num * num :=
  match tab with
  | [] => (dflt, dflt)
  | (m', s', d8, d4) :: r => if Z.eqb m m' && Nat.eqb s s' then (d8, d4) else dlook dflt r m s
  end.

(* ------------------------------------------------------------------ tokens *)
Inductive tok : Type :=
| TInt (z : Z) | TDecT (m : Z) (s : nat) | TDec8 (m : Z) (s : nat) | TId (name : str)
| TPlus | TMinus | TStar | TSlash | TPow | TLp | TRp | TComma | TEq.

Definition digit_val (c : ascii) : Z := Z.of_nat (code_of c - 48).
Definition digits_val (ds : str) : Z := fold_left (fun acc c => (acc * 10 + digit_val c)%Z) ds 0%Z.

(* what may follow the digits of a literal: an exponent part `e+3` / `d-3` and a kind suffix `_8` / `_dp`; returns (decimal exponent,
   double precision?, rest).  A `d` exponent letter or a kind suffix other than `_4` makes the constant REAL(8). *)
Definition lex_suffix (l : str) : Z * bool * str :=
  let '(ex, dbl, r1) :=
    match l with
    | c :: r =>
        if ascii_eqb c "d" || ascii_eqb c "D" || ascii_eqb c "e" || ascii_eqb c "E" then
          let isd := ascii_eqb c "d" || ascii_eqb c "D" in
          match r with
          | sg :: r2 =>
              if (ascii_eqb sg "+" || ascii_eqb sg "-") && match r2 with d :: _ => is_digit d | [] => false end then
                let ds := take_while is_digit r2 in
                ((if ascii_eqb sg "-" then - digits_val ds else digits_val ds)%Z, isd, drop_while is_digit r2)
              else if is_digit sg then (digits_val (take_while is_digit r), isd, drop_while is_digit r)
              else (0%Z, false, l)
          | [] => (0%Z, false, l)
          end
        else (0%Z, false, l)
    | [] => (0%Z, false, l)
    end in
  match r1 with
  | u :: k :: r3 =>
      if ascii_eqb u "_" && is_id_char k then
        let kind := take_while is_id_char (k :: r3) in
        (ex, negb (str_eqb kind (lit "4")), drop_while is_id_char (k :: r3))
      else (ex, dbl, r1)
  | _ => (ex, dbl, r1)
  end.
(* mantissa / 10^scale * 10^ex as (mantissa', scale') *)
Definition dec_norm (m : Z) (sc : nat) (ex : Z) : Z * nat :=
  if (ex <=? Z.of_nat sc)%Z then (m, Z.to_nat (Z.of_nat sc - ex)) else ((m * 10 ^ (ex - Z.of_nat sc))%Z, O).
Definition dec_tok (m : Z) (sc : nat) (ex : Z) (dbl : bool) : tok :=
  let '(m', sc') := dec_norm m sc ex in if dbl then TDec8 m' sc' else TDecT m' sc'.

Fixpoint lex (fuel : nat) (l : str) : option (list tok) :=
  match fuel with
  | O => match l with [] => Some [] | _ => None end
  | S f =>
      match l with
      | [] => Some []
      | c :: r =>
          let cons t rest := match lex f rest with Some ts => Some (t :: ts) | None => None end in
          if is_blank c then lex f r
          else if is_digit c then
            let ds := take_while is_digit l in
            match drop_while is_digit l with
            | d :: r2 => if ascii_eqb d "." then
                           let fs := take_while is_digit r2 in
                           let '(ex, dbl, rest) := lex_suffix (drop_while is_digit r2) in
                           cons (dec_tok (digits_val (ds ++ fs)) (length fs) ex dbl) rest
                         else let '(ex, dbl, rest) := lex_suffix (d :: r2) in
                              if Nat.eqb (length rest) (length (d :: r2)) then cons (TInt (digits_val ds)) (d :: r2)     (* no suffix *)
                              else if ascii_eqb d "_" then cons (TInt (digits_val ds)) rest                                (* integer kind *)
                              else cons (dec_tok (digits_val ds) 0 ex dbl) rest                                            (* 2d0, 2e3 *)
            | [] => cons (TInt (digits_val ds)) []
            end
          else if ascii_eqb c "." then
            match r with
            | d :: _ => if is_digit d then
                          let fs := take_while is_digit r in
                          let '(ex, dbl, rest) := lex_suffix (drop_while is_digit r) in
                          cons (dec_tok (digits_val fs) (length fs) ex dbl) rest
                        else None
            | [] => None
            end
          else if is_id_start c then cons (TId (c :: take_while is_id_char r)) (drop_while is_id_char r)
          else if ascii_eqb c "*" then
            match r with
            | d :: r2 => if ascii_eqb d "*" then cons TPow r2 else cons TStar r
            | [] => cons TStar r
            end
          else if ascii_eqb c "+" then cons TPlus r
          else if ascii_eqb c "-" then cons TMinus r
          else if ascii_eqb c "/" then cons TSlash r
          else if ascii_eqb c "(" then cons TLp r
          else if ascii_eqb c ")" then cons TRp r
          else if ascii_eqb c "," then cons TComma r
          else if ascii_eqb c "=" then cons TEq r
          else None
      end
  end.

(* ------------------------------------------------------------------ the expression grammar *)
Definition pres : Type := option (sexpr * list tok).

(* solved_values( n , index [+-k] )  — the opening parenthesis already consumed *)
Definition p_term (ts : list tok) : pres :=
  match ts with
  | TInt n :: TComma :: TId idx :: r =>
      if str_eqb idx (lit "index") && (1 <=? n)%Z then
        let row := Z.to_nat (n - 1) in
        match r with
        | TRp :: r' => Some (SVar row 0, r')
        | TPlus :: TInt k :: TRp :: r' => Some (SVar row k, r')
        | TMinus :: TInt k :: TRp :: r' => Some (SVar row (- k), r')
        | _ => None
        end
      else None
  | _ => None
  end.

Fixpoint p_primary (f : nat) (ts : list tok) {struct f} : pres :=
  match f with
  | O => None
  | S f' =>
      match ts with
      | TInt z :: r => Some (SInt z, r)
      | TDecT m s :: r => Some (SDec m s, r)
      | TDec8 m s :: r => Some (SDec8 m s, r)
      | TLp :: r => match p_level2 f' r with Some (e, TRp :: r') => Some (SPar e, r') | _ => None end
      | TId name :: TLp :: r =>
          if str_eqb name (lit "solved_values") then p_term r
          else if str_eqb name (lit "abs") then match p_level2 f' r with Some (e, TRp :: r') => Some (SAbs e, r') | _ => None end
          else if str_eqb name (lit "exp") then match p_level2 f' r with Some (e, TRp :: r') => Some (SExp e, r') | _ => None end
          else if str_eqb name (lit "log") then match p_level2 f' r with Some (e, TRp :: r') => Some (SLog e, r') | _ => None end
          else if str_eqb name (lit "max") || str_eqb name (lit "min") then
            match p_level2 f' r with
            | Some (a, TComma :: r1) =>
                match p_level2 f' r1 with
                | Some (b, TRp :: r2) => Some (SMM (if str_eqb name (lit "max") then MMax else MMin) a b, r2)
                | _ => None
                end
            | _ => None
            end
          else None
      | _ => None
      end
  end
with p_mult (f : nat) (ts : list tok) {struct f} : pres :=
  match f with
  | O => None
  | S f' =>
      match p_primary f' ts with
      | Some (a, TPow :: r) => match p_ext_mult f' r with Some (b, r') => Some (SBin OPow a b, r') | None => None end
      | other => other
      end
  end
with p_ext_mult (f : nat) (ts : list tok) {struct f} : pres :=
  match f with
  | O => None
  | S f' =>
      match ts with
      | TMinus :: r => match p_ext_mult f' r with Some (e, r') => Some (SNeg e, r') | None => None end
      | _ => p_mult f' ts
      end
  end
with p_mul_tail (f : nat) (acc : sexpr) (ts : list tok) {struct f} : pres :=
  match f with
  | O => None
  | S f' =>
      match ts with
      | TStar :: r => match p_ext_mult f' r with Some (b, r') => p_mul_tail f' (SBin OMul acc b) r' | None => None end
      | TSlash :: r => match p_ext_mult f' r with Some (b, r') => p_mul_tail f' (SBin ODiv acc b) r' | None => None end
      | _ => Some (acc, ts)
      end
  end
with p_add_operand (f : nat) (ts : list tok) {struct f} : pres :=
  match f with
  | O => None
  | S f' => match p_mult f' ts with Some (a, r) => p_mul_tail f' a r | None => None end
  end
with p_ext_add (f : nat) (ts : list tok) {struct f} : pres :=
  match f with
  | O => None
  | S f' =>
      match ts with
      | TMinus :: r => match p_ext_add f' r with Some (e, r') => Some (SNeg e, r') | None => None end
      | _ => p_add_operand f' ts
      end
  end
with p_add_tail (f : nat) (acc : sexpr) (ts : list tok) {struct f} : pres :=
  match f with
  | O => None
  | S f' =>
      match ts with
      | TPlus :: r => match p_ext_add f' r with Some (b, r') => p_add_tail f' (SBin OAdd acc b) r' | None => None end
      | TMinus :: r => match p_ext_add f' r with Some (b, r') => p_add_tail f' (SBin OSub acc b) r' | None => None end
      | _ => Some (acc, ts)
      end
  end
with p_level2 (f : nat) (ts : list tok) {struct f} : pres :=
  match f with
  | O => None
  | S f' =>
      match ts with
      | TMinus :: r => match p_add_operand f' r with Some (a, r') => p_add_tail f' (SNeg a) r' | None => None end
      | _ => match p_add_operand f' ts with Some (a, r') => p_add_tail f' a r' | None => None end
      end
  end.

(* `solved_values(n, index) = expression`, nothing after it *)
Definition parse_tokens (ts : list tok) : option (nat * sexpr) :=
  match ts with
  | TId name :: TLp :: r =>
      if str_eqb name (lit "solved_values") then
        match p_term r with
        | Some (SVar row 0%Z, TEq :: r') =>
            match p_level2 (4 * length r' + 8) r' with
            | Some (e, []) => Some (row, e)
            | _ => None
            end
        | _ => None
        end
      else None
  | _ => None
  end.
Definition parse_stmt (l : str) : option (nat * sexpr) :=
  match lex (S (length l)) l with Some ts => parse_tokens ts | None => None end.

(* the statement of one entry of equation_code as the compiler reads it: drop the comment line, join the continuation lines *)
Definition stmt_of_block (blk : str) : str :=
  logical false (match plain_lines blk [] with _comment :: code => code | [] => [] end).

Fixpoint sexpr_eqb (a b : sexpr) : bool :=
  match a, b with
  | SVar i k, SVar j l => Nat.eqb i j && Z.eqb k l
  | SInt x, SInt y => Z.eqb x y
  | SDec m s, SDec m' s' => Z.eqb m m' && Nat.eqb s s'
  | SDec8 m s, SDec8 m' s' => Z.eqb m m' && Nat.eqb s s'
  | SNeg x, SNeg y | SPar x, SPar y | SAbs x, SAbs y | SExp x, SExp y | SLog x, SLog y => sexpr_eqb x y
  | SBin o x1 x2, SBin o' y1 y2 =>
      (match o, o' with OAdd, OAdd | OSub, OSub | OMul, OMul | ODiv, ODiv | OPow, OPow => true | _, _ => false end)
      && sexpr_eqb x1 y1 && sexpr_eqb x2 y2
  | SMM m x1 x2, SMM m' y1 y2 =>
      (match m, m' with MMax, MMax | MMin, MMin => true | _, _ => false end) && sexpr_eqb x1 y1 && sexpr_eqb x2 y2
  | _, _ => false
  end.

(* the per-case tie: the block's statement parses to (row, the regrouped tree) *)
Definition block_matches (blk : str) (row : nat) (tree : sexpr) : bool :=
  match parse_stmt (stmt_of_block blk) with
  | Some (r, e) => Nat.eqb r row && sexpr_eqb e (s_regroup tree)
  | None => false
  end.
