(* FSolveAll.v — FortranEngine.solve (one call of the template's `solve` over all periods, then the wrapper's result loop)
   refines SolverMixin.solve of the pure-Python class (a loop of solve_t calls): theorems about FSolve.w_solve /
   FSolve.py_solve for every number type, arithmetic and equations block, while the values of the passes that run stay
   finite. *)
From Coq Require Import ZArith List Bool Lia ZifyBool.
Import ListNotations.
Require Import PyBase Solver SolverFacts FSem FSolve FSolveFacts FSolveSim FSolveRun.
Open Scope Z_scope.

Section SolveAll.
  Variable num : Type.
  Variables (sub : num -> num -> num) (absf : num -> num) (ltb : num -> num -> bool)
            (isfin : num -> bool) (zero : num).
  Variable evf : Z -> vals num -> vals num.
  Variable ev : hook num.

  Notation vals := (vals num).
  Notation all_finite := (all_finite num isfin).
  Notation get_check := (get_check num zero).
  Notation t_solve_t := (t_solve_t num sub absf ltb isfin zero evf).
  Notation t_solve_loop := (t_solve_loop num sub absf ltb isfin zero evf).
  Notation w_solve := (w_solve num sub absf ltb isfin zero evf).
  Notation w_results := (w_results num).
  Notation solve_t_M := (solve_t_M num sub absf ltb isfin zero ev (no_hook num) (no_hook num)).
  Notation py_solve := (py_solve num sub absf ltb isfin zero ev (no_hook num) (no_hook num)).
  Notation py_solve_loop := (py_solve_loop num sub absf ltb isfin zero ev (no_hook num) (no_hook num)).
  Notation loop := (Solver.loop num sub absf ltb isfin zero ev (no_hook num)).
  Notation seeded := (seeded num zero).
  Notation iterv := (iterv num evf).
  Notation chk := (chk num zero evf).

  Variables (fm : fmod) (d : mdesc) (o : opts num) (n m : nat) (ec fc : Z) (fl : failmode).
  Hypothesis Hm : (0 < m)%nat.
  Hypothesis Hchk : rows_ok m (check d).
  Hypothesis Hend : rows_ok m (endo d).
  Hypothesis Hfe : fm_endo fm = endo_nums d.
  Hypothesis Hfl : fm_lags fm = Z.of_nat (lags d).
  Hypothesis Hfd : fm_leads fm = Z.of_nat (leads d).
  Hypothesis Hmm : min_iter o <= max_iter o.
  Hypothesis Hshape : forall idx v, shape n m v -> shape n m (evf idx v).
  Hypothesis Hec : w_ec (errors o) = Some ec.
  Hypothesis Hfc : w_fc fl = Some fc.
  (* `failures` is the same word in both calls *)
  Hypothesis Hfr : fail_raise o = match fl with FRaise => true | _ => false end.

  Notation N := (Z.to_nat (max_iter o)).

  (* what one period needs, given the store it starts from: room for the lags / leads, an in-span offset, finite check values
     to start from, and passes that evaluate without raising and stay finite — as far as they run (FSolveRun.run_ok) *)
  Definition period_ok (p : nat) (v : vals) : Prop :=
    (p < n)%nat /\ feasible d n p = true /\ (offset o = 0 \/ 0 <= Z.of_nat p + offset o < Z.of_nat n) /\
    all_finite (get_check d (seeded d o v p) p) = true /\
    run_ok num sub absf ltb isfin zero evf ev d o (Z.of_nat p) p (seeded d o v p) N 0.

  Definition period_args (p : nat) (v : vals) : fout num :=
    t_solve_t fm v (Z.of_nat p + 1) (min_iter o) (max_iter o) (tol o) (offset o) (cv_of d) ec.

  (* every period of the list, each on the store the previous ones leave *)
  Fixpoint solve_ok (ps : list nat) (v : vals) : Prop :=
    match ps with
    | [] => True
    | p :: r => period_ok p v /\ solve_ok r (fo_vals (period_args p v))
    end.

  Lemma ec_raise_iff : (ec =? c_ec_raise) = is_raise (errors o).
  Proof. destruct (errors o); vm_compute in Hec; inversion Hec; reflexivity. Qed.

  (* one period: the template's solve_t and BaseModel.solve_t produce the same store, verdict and pass count *)
  Lemma period_spec p (v : vals) st it lg :
    shape n m v -> length st = n -> period_ok p v ->
    exists v' b k lg',
      period_args p v = mkFout v' b (Z.of_nat k) 0 /\ shape n m v' /\
      solve_t_M d o (Z.of_nat p) (mkState v st it lg) =
      (mkState v' (upd p (if b then Solved else Failed) st) (upd p (Z.of_nat k) it) lg',
       if b then Ret true else if fail_raise o then Raise NonConvergenceError else Ret false).
  Proof.
    intros Hs Hlen (Hp & Hfeas & Hoff & Hchk0 & Hrun).
    set (v0 := seeded d o v p) in *.
    assert (Hs0 : shape n m v0) by (apply seeded_shape; exact Hs).
    assert (Hg : t_guard fm (Z.of_nat n) (Z.of_nat p + 1) = 0).
    { rewrite (t_guard_feasible fm d n p Hfl Hfd Hp), Hfeas. reflexivity. }
    assert (Haft : forall em cf k w, no_hook num (Z.of_nat p) em cf k w = (w, None)) by reflexivity.
    destruct (sim_run num sub absf ltb isfin zero evf ev (no_hook num) fm d o (Z.of_nat p) p n m ec v0 Haft
                (Hshape (Z.of_nat p + 1)) Hp Hm Hg Hchk Hend Hfe N 0%nat (lg ++ [EvBefore (Z.of_nat p)]) 0 Hs0 Hchk0 Hrun)
      as (i & x & k & lg' & Hloop & Hx & Hsim).
    cbn [FSolveSim.iterv] in Hloop, Hsim. unfold FSolveSim.chk in Hloop, Hsim. cbn [FSolveSim.iterv] in Hloop, Hsim.
    change (Z.of_nat 1) with 1 in Hsim.
    assert (HN : (if (N =? 0)%nat then 0 else 0) = 0) by (destruct (N =? 0)%nat; reflexivity). rewrite HN in Hsim.
    exists (iterv p v0 i), (st_eqb x Solved), k, lg'. split; [|split].
    - unfold period_args.
      rewrite (t_solve_t_spec num sub absf ltb isfin zero evf fm d o (Z.of_nat p + 1) p n m ec v Hs Hm Hp Hchk Hend Hfe
                 (t_index_idem n p) Hg Hoff).
      fold v0. rewrite ec_raise_iff, Hchk0, andb_false_r. exact Hsim.
    - apply (iterv_shape num evf p n m v0 (Hshape (Z.of_nat p + 1)) Hs0).
    - assert (Hlt : (max_iter o <? min_iter o) = false) by lia.
      unfold Solver.solve_t_M. cbn [status vals_of log iters]. rewrite Hlt, Hlen.
      rewrite (py_pos_nonneg n (Z.of_nat p)) by lia. rewrite Nat2Z.id, Hfeas. cbn [negb]. cbv zeta.
      assert (Hpre : (if offset o =? 0 then @inl vals exn v
                      else if Z.of_nat p + offset o <? 0 then inr IndexError
                           else if Z.of_nat n <=? Z.of_nat p + offset o then inr IndexError
                                else inl (copy_endo num zero d v p (Z.to_nat (Z.of_nat p + offset o)))) = inl v0).
      { unfold v0, FSolveSim.seeded. destruct (offset o =? 0) eqn:Eo; [reflexivity|].
        replace (Z.of_nat p + offset o <? 0) with false by lia.
        replace (Z.of_nat n <=? Z.of_nat p + offset o) with false by lia. reflexivity. }
      rewrite Hpre, Hchk0, andb_false_r. unfold no_hook at 1. rewrite Hloop. cbn [finish].
      destruct Hx as [-> | ->]; cbn [st_eqb andb]; [reflexivity|]. destruct (fail_raise o); reflexivity.
  Qed.

  Lemma fc_raise_iff : (fc =? c_fail_raise) = fail_raise o.
  Proof. rewrite Hfr. destruct fl; vm_compute in Hfc; inversion Hfc; reflexivity. Qed.

  (* the two loops, from any intermediate point: ps = periods left, v = store so far, (st, it) = statuses / iteration
     counts recorded so far, acc = return values so far *)
  Lemma solve_sim : forall ps (v : vals) st it lgF lgP acc,
    shape n m v -> length st = n -> solve_ok ps v ->
    let '(v', rs) := t_solve_loop fm v (map (fun p => Z.of_nat p + 1) ps) (min_iter o) (max_iter o) (tol o) (offset o)
                                  (cv_of d) fc ec in
    agree num (w_results o (match fl with FRaise => true | _ => false end) ps rs (mkState v' st it lgF) acc)
              (py_solve_loop d o ps (mkState v st it lgP) acc).
  Proof.
    destruct wrapper_codes as (_ & _ & _ & Ws & _).
    induction ps as [|p r IH]; intros v st it lgF lgP acc Hs Hlen Hok.
    - cbn [map FSolve.t_solve_loop FSolve.w_results FSolve.py_solve_loop]. split; [reflexivity|]. repeat split.
    - cbn [solve_ok] in Hok. destruct Hok as [Hp Hr].
      destruct (period_spec p v st it lgP Hs Hlen Hp) as (v1 & b & k & lg' & Hpa & Hs1 & Hpy).
      cbn [map FSolve.t_solve_loop FSolve.py_solve_loop]. fold (period_args p v). rewrite Hpa in *. cbn [fo_code fo_conv fo_iter fo_vals] in *.
      rewrite Hpy. change (0 =? 0) with true. cbv iota. cbn [andb]. rewrite fc_raise_iff.
      assert (Hlen1 : length (upd p (if b then Solved else Failed) st) = n) by (rewrite upd_length; exact Hlen).
      destruct b; cbn [negb andb].
      + specialize (IH v1 (upd p Solved st) (upd p (Z.of_nat k) it) lgF lg' (acc ++ [true]) Hs1 Hlen1 Hr).
        destruct (t_solve_loop fm v1 (map (fun p0 => Z.of_nat p0 + 1) r) (min_iter o) (max_iter o) (tol o) (offset o) (cv_of d) fc ec)
          as [v' rs]. cbn [FSolve.w_results]. unfold stampz. cbn [vals_of status iters log]. exact IH.
      + destruct (fail_raise o) eqn:Efr.
        * cbn [FSolve.w_results]. rewrite Ws. change (0 =? 0) with true. cbv iota. rewrite <- Hfr.
          unfold stampz. cbn [vals_of status iters log fst snd]. split; [reflexivity|]. repeat split.
        * specialize (IH v1 (upd p Failed st) (upd p (Z.of_nat k) it) lgF lg' (acc ++ [false]) Hs1 Hlen1 Hr).
          destruct (t_solve_loop fm v1 (map (fun p0 => Z.of_nat p0 + 1) r) (min_iter o) (max_iter o) (tol o) (offset o) (cv_of d) fc ec)
            as [v' rs]. cbn [FSolve.w_results]. rewrite Ws. change (0 =? 0) with true. cbv iota. rewrite <- Hfr. rewrite <- Hfr in IH.
          unfold stampz. cbn [vals_of status iters log]. exact IH.
  Qed.

  (* FortranEngine.solve = SolverMixin.solve: same list of return values or the same exception class, same values,
     statuses and iteration counts *)
  Theorem w_solve_refines ps s :
    shape n m (vals_of s) -> length (status s) = n -> solve_ok ps (vals_of s) ->
    agree num (w_solve fm d o fl ps s) (py_solve d o ps s).
  Proof.
    intros Hs Hlen Hok. unfold FSolve.w_solve, FSolve.py_solve.
    assert (Hlt : (max_iter o <? min_iter o) = false) by lia. rewrite Hlt, Hfc, Hec.
    pose proof (solve_sim ps (vals_of s) (status s) (iters s) (log s) (log s) [] Hs Hlen Hok) as H.
    destruct (t_solve_loop fm (vals_of s) (map (fun p => Z.of_nat p + 1) ps) (min_iter o) (max_iter o) (tol o) (offset o)
                           (cv_of d) fc ec) as [v' rs].
    unfold setvals. destruct s as [v st it lg]. exact H.
  Qed.
End SolveAll.
