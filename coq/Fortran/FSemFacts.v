(* FSemFacts.v — the two evaluators of FSem.v agree on literal-free expressions (for every number type and arithmetic). *)
From Coq Require Import ZArith List Bool Lia.
Import ListNotations.
Require Import PyBase Solver FSem.
Open Scope Z_scope.

Section Facts.
  Variable num : Type.
  Variables (add sub mul div : num -> num -> num) (neg absf : num -> num) (ltb : num -> num -> bool).
  Variables (is_nan is_inf : num -> bool).
  Variable of_int : Z -> num.
  Variables (fexp flog : num -> num) (fpow : num -> num -> num).
  Variable round4 : num -> num.
  Variables (exp4 log4 : num -> num) (pow4 : num -> num -> num).
  Variables (zero one : num).

  Notation expr := (expr num).
  Notation py_eval := (py_eval num add sub mul div neg absf ltb is_nan is_inf of_int fexp flog fpow).
  Notation f_eval := (f_eval num add sub mul div neg absf ltb of_int fexp flog fpow round4 exp4 log4 pow4 one).
  Notation lf_sem := (lf_sem num add sub mul div neg absf ltb of_int fexp flog fpow).
  Notation fop := (fop num add sub mul div fpow).
  Notation warns := (warns num is_nan is_inf).
  Notation literal_free := (literal_free num).
  Notation reads := (reads num).
  Notation f_regroup := (f_regroup num).

  (* the two operands of a max / min are strictly ordered one way or the other, or they are the very same value
     (excludes: a NaN operand, and +0.0 against -0.0 — there builtin max(a, b) = "b if b > a else a" keeps a while
     MAX(a, b) = "a > b ? a : b" keeps b) *)
  Definition ordered_or_same (x y : num) : Prop :=
    (ltb x y = true /\ ltb y x = false) \/ (ltb x y = false /\ ltb y x = true) \/ (ltb x y = false /\ ltb y x = false /\ x = y).

  Fixpoint mm_det (rd : nat -> Z -> num) (e : expr) : Prop :=
    match e with
    | EVar _ _ | EInt _ | EDec _ _ => True
    | ENeg a | EPar a | EAbs a | EExp a | ELog a => mm_det rd a
    | EBin _ a b => mm_det rd a /\ mm_det rd b
    | EMM _ a b => mm_det rd a /\ mm_det rd b /\ ordered_or_same (lf_sem rd a) (lf_sem rd b)
    end.

  (* no operation of the expression makes numpy warn (it does not turn finite arguments into inf / NaN) *)
  Fixpoint quiet (rd : nat -> Z -> num) (e : expr) : Prop :=
    match e with
    | EVar _ _ | EInt _ | EDec _ _ => True
    | ENeg a | EPar a | EAbs a => quiet rd a
    | EBin o a b => quiet rd a /\ quiet rd b /\ warns (fop o (lf_sem rd a) (lf_sem rd b)) [lf_sem rd a; lf_sem rd b] = false
    | EExp a => quiet rd a /\ warns (fexp (lf_sem rd a)) [lf_sem rd a] = false
    | ELog a => quiet rd a /\ warns (flog (lf_sem rd a)) [lf_sem rd a] = false
    | EMM _ a b => quiet rd a /\ quiet rd b
    end.

  Lemma mm_same m x y : ordered_or_same x y ->
    (match m with MMax => if ltb x y then y else x | MMin => if ltb y x then y else x end)
    = (match m with MMax => if ltb y x then x else y | MMin => if ltb x y then x else y end).
  Proof.
    intros [[H1 H2]|[[H1 H2]|[H1 [H2 H3]]]]; destruct m; rewrite H1, H2; auto.
  Qed.

  (* both evaluators compute the common reading on a literal-free expression *)
  Lemma literal_free_both catch (rdp : nat -> Z -> option num) (rdf : nat -> Z -> num) (e : expr) :
    literal_free e = true ->
    (forall i k, In (i, k) (reads e) -> rdp i k = Some (rdf i k)) ->
    mm_det rdf e ->
    (catch = false \/ quiet rdf e) ->
    py_eval catch rdp e = inl (PF (lf_sem rdf e)) /\ f_eval rdf e = Some (F8 (lf_sem rdf e)).
  Proof.
    induction e as [i k|z|d8 d4|a IHa|a IHa|o a IHa b IHb|a IHa|a IHa|a IHa|m a IHa b IHb];
      intros Hlf Hrd Hmm Hq; cbn [FSem.literal_free] in Hlf; try discriminate.
    - cbn [FSem.py_eval FSem.f_eval FSem.lf_sem]. rewrite (Hrd i k) by (left; reflexivity). auto.
    - destruct (IHa Hlf Hrd Hmm) as [P F]. { destruct Hq as [Hq|Hq]; [left; exact Hq|right; exact Hq]. }
      cbn [FSem.py_eval FSem.f_eval FSem.lf_sem]. rewrite P, F. auto.
    - destruct (IHa Hlf Hrd Hmm) as [P F]. { destruct Hq as [Hq|Hq]; [left; exact Hq|right; exact Hq]. }
      cbn [FSem.py_eval FSem.f_eval FSem.lf_sem]. rewrite P, F. auto.
    - apply andb_true_iff in Hlf as [La Lb]. cbn [mm_det] in Hmm. destruct Hmm as [Ma Mb].
      cbn [FSem.reads] in Hrd.
      destruct (IHa La) as [Pa Fa]; auto.
      { intros i k H. apply Hrd. apply in_or_app. left. exact H. }
      { destruct Hq as [Hq|Hq]; [left; exact Hq|right; apply Hq]. }
      destruct (IHb Lb) as [Pb Fb]; auto.
      { intros i k H. apply Hrd. apply in_or_app. right. exact H. }
      { destruct Hq as [Hq|Hq]; [left; exact Hq|right; apply Hq]. }
      cbn [FSem.py_eval FSem.f_eval FSem.lf_sem]. rewrite Pa, Pb, Fa, Fb. split.
      + cbn [FSem.py_bin FSem.tof]. unfold FSem.pfloat.
        destruct Hq as [->|Hq]; [reflexivity|]. cbn [quiet] in Hq. destruct Hq as (_ & _ & Hw). rewrite Hw, andb_false_r. reflexivity.
      + destruct o; reflexivity.
    - destruct (IHa Hlf Hrd Hmm) as [P F]. { destruct Hq as [Hq|Hq]; [left; exact Hq|right; exact Hq]. }
      cbn [FSem.py_eval FSem.f_eval FSem.lf_sem]. rewrite P, F. auto.
    - destruct (IHa Hlf Hrd Hmm) as [P F]. { destruct Hq as [Hq|Hq]; [left; exact Hq|right; apply Hq]. }
      cbn [FSem.py_eval FSem.f_eval FSem.lf_sem]. rewrite P, F. split; [|reflexivity].
      cbn [FSem.tof]. unfold FSem.pfloat.
      destruct Hq as [->|Hq]; [reflexivity|]. cbn [quiet] in Hq. destruct Hq as (_ & Hw). rewrite Hw, andb_false_r. reflexivity.
    - destruct (IHa Hlf Hrd Hmm) as [P F]. { destruct Hq as [Hq|Hq]; [left; exact Hq|right; apply Hq]. }
      cbn [FSem.py_eval FSem.f_eval FSem.lf_sem]. rewrite P, F. split; [|reflexivity].
      cbn [FSem.tof]. unfold FSem.pfloat.
      destruct Hq as [->|Hq]; [reflexivity|]. cbn [quiet] in Hq. destruct Hq as (_ & Hw). rewrite Hw, andb_false_r. reflexivity.
    - apply andb_true_iff in Hlf as [La Lb]. cbn [mm_det] in Hmm. destruct Hmm as (Ma & Mb & Hord).
      cbn [FSem.reads] in Hrd.
      destruct (IHa La) as [Pa Fa]; auto.
      { intros i k H. apply Hrd. apply in_or_app. left. exact H. }
      { destruct Hq as [Hq|Hq]; [left; exact Hq|right; apply Hq]. }
      destruct (IHb Lb) as [Pb Fb]; auto.
      { intros i k H. apply Hrd. apply in_or_app. right. exact H. }
      { destruct Hq as [Hq|Hq]; [left; exact Hq|right; apply Hq]. }
      cbn [FSem.py_eval FSem.f_eval]. rewrite Pa, Pb, Fa, Fb. split.
      + f_equal. unfold FSem.py_mm, FSem.py_lt. cbn [FSem.tof].
        pose proof (mm_same m _ _ Hord) as Hs. destruct m; cbn [FSem.lf_sem].
        * destruct (ltb (lf_sem rdf a) (lf_sem rdf b)); rewrite <- Hs; reflexivity.
        * destruct (ltb (lf_sem rdf b) (lf_sem rdf a)); rewrite <- Hs; reflexivity.
      + cbn [FSem.f_mm FSem.to8 FSem.is8 orb]. destruct m; reflexivity.
  Qed.

  (* ---------------- Fortran's reading of a leading minus ---------------- *)
  (* the sign symmetry of * and / AT THE VALUES THE EXPRESSION MEETS: wherever Fortran reads (-x) * y as -(x * y), the two
     products are the same number (for binary64 this is a closed computation on the data of a run — no fact about the
     arithmetic as a whole is assumed) *)
  Fixpoint neg_sym (rd : nat -> Z -> num) (e : expr) : Prop :=
    match e with
    | EVar _ _ | EInt _ | EDec _ _ => True
    | ENeg a | EPar a | EAbs a | EExp a | ELog a => neg_sym rd a
    | EBin o a b =>
        neg_sym rd a /\ neg_sym rd b /\
        match o with
        | OMul => match f_regroup a with
                  | ENeg x => mul (neg (lf_sem rd x)) (lf_sem rd b) = neg (mul (lf_sem rd x) (lf_sem rd b))
                  | _ => True
                  end
        | ODiv => match f_regroup a with
                  | ENeg x => div (neg (lf_sem rd x)) (lf_sem rd b) = neg (div (lf_sem rd x) (lf_sem rd b))
                  | _ => True
                  end
        | _ => True
        end
    | EMM _ a b => neg_sym rd a /\ neg_sym rd b
    end.

  Lemma regroup_sem_local rd (e : expr) : neg_sym rd e -> lf_sem rd (f_regroup e) = lf_sem rd e.
  Proof.
    induction e as [i k|z|d8 d4|a IHa|a IHa|o a IHa b IHb|a IHa|a IHa|a IHa|m a IHa b IHb];
      cbn [FSem.f_regroup FSem.lf_sem neg_sym]; intros H; try (rewrite IHa by exact H; reflexivity); try reflexivity.
    - destruct H as (Ha & Hb & Hs). specialize (IHa Ha). specialize (IHb Hb).
      destruct (is_mul o) eqn:Eo.
      + destruct (f_regroup a) eqn:Ea; cbn [FSem.lf_sem] in *; try (rewrite IHa, IHb; reflexivity).
        rewrite IHb, <- IHa. destruct o; cbn [is_mul] in Eo; try discriminate; cbn [FSem.fop]; symmetry; exact Hs.
      + cbn [FSem.lf_sem]. rewrite IHa, IHb. reflexivity.
    - destruct H as [Ha Hb]. destruct m; rewrite IHa, IHb by assumption; reflexivity.
  Qed.

  Lemma regroup_mm_det_local rd (e : expr) : neg_sym rd e -> mm_det rd e -> mm_det rd (f_regroup e).
  Proof.
    induction e as [i k|z|d8 d4|a IHa|a IHa|o a IHa b IHb|a IHa|a IHa|a IHa|m a IHa b IHb];
      cbn [FSem.f_regroup mm_det neg_sym]; auto.
    - intros (Na & Nb & _) [Ma Mb]. specialize (IHa Na Ma). specialize (IHb Nb Mb). destruct (is_mul o).
      + destruct (f_regroup a) eqn:Ea; cbn [mm_det] in *; auto.
      + cbn [mm_det]. auto.
    - intros [Na Nb] (Ma & Mb & Ho). rewrite !regroup_sem_local by assumption. auto.
  Qed.

  Section Regroup.
    (* sign symmetry of IEEE multiplication and division *)
    Hypothesis neg_mul : forall x y, mul (neg x) y = neg (mul x y).
    Hypothesis neg_div : forall x y, div (neg x) y = neg (div x y).

    Lemma neg_sym_global rd (e : expr) : neg_sym rd e.
    Proof.
      induction e as [i k|z|d8 d4|a IHa|a IHa|o a IHa b IHb|a IHa|a IHa|a IHa|m a IHa b IHb]; cbn [neg_sym]; auto.
      split; [exact IHa|]. split; [exact IHb|]. destruct o; auto; destruct (f_regroup a); auto.
    Qed.

    Lemma regroup_sem rd (e : expr) : lf_sem rd (f_regroup e) = lf_sem rd e.
    Proof.
      induction e as [i k|z|d8 d4|a IHa|a IHa|o a IHa b IHb|a IHa|a IHa|a IHa|m a IHa b IHb];
        cbn [FSem.f_regroup FSem.lf_sem]; try congruence.
      - destruct (is_mul o) eqn:Eo.
        + destruct (f_regroup a) eqn:Ea; cbn [FSem.lf_sem] in *; try congruence.
          rewrite <- IHa, IHb. destruct o; cbn [is_mul] in Eo; try discriminate; cbn [FSem.fop]; symmetry; auto.
        + cbn [FSem.lf_sem]. congruence.
      - destruct m; rewrite IHa, IHb; reflexivity.
    Qed.

    Lemma regroup_literal_free (e : expr) : literal_free (f_regroup e) = literal_free e.
    Proof.
      induction e as [i k|z|d8 d4|a IHa|a IHa|o a IHa b IHb|a IHa|a IHa|a IHa|m a IHa b IHb];
        cbn [FSem.f_regroup FSem.literal_free]; try congruence.
      destruct (is_mul o).
      - destruct (f_regroup a) eqn:Ea; cbn [FSem.literal_free] in *; congruence.
      - cbn [FSem.literal_free]. congruence.
    Qed.

    Lemma regroup_reads (e : expr) ik : In ik (reads (f_regroup e)) <-> In ik (reads e).
    Proof.
      induction e as [i k|z|d8 d4|a IHa|a IHa|o a IHa b IHb|a IHa|a IHa|a IHa|m a IHa b IHb];
        cbn [FSem.f_regroup FSem.reads]; try tauto.
      - destruct (is_mul o).
        + destruct (f_regroup a) eqn:Ea; cbn [FSem.reads] in *; rewrite !in_app_iff in *; tauto.
        + cbn [FSem.reads]. rewrite !in_app_iff. tauto.
      - rewrite !in_app_iff. tauto.
    Qed.

    Lemma regroup_mm_det rd (e : expr) : mm_det rd e -> mm_det rd (f_regroup e).
    Proof.
      induction e as [i k|z|d8 d4|a IHa|a IHa|o a IHa b IHb|a IHa|a IHa|a IHa|m a IHa b IHb];
        cbn [FSem.f_regroup mm_det]; auto.
      - intros [Ma Mb]. specialize (IHa Ma). specialize (IHb Mb). destruct (is_mul o).
        + destruct (f_regroup a) eqn:Ea; cbn [mm_det] in *; auto.
        + cbn [mm_det]. auto.
      - intros (Ma & Mb & Ho). rewrite !regroup_sem. auto.
    Qed.

    (* THE agreement theorem: on a literal-free expression the Python class and the compiled Fortran (which regroups a
       leading minus) compute the same REAL(8) value, namely lf_sem. *)
    Theorem literal_free_agree catch (rdp : nat -> Z -> option num) (rdf : nat -> Z -> num) (e : expr) :
      literal_free e = true ->
      (forall i k, In (i, k) (reads e) -> rdp i k = Some (rdf i k)) ->
      mm_det rdf e ->
      (catch = false \/ quiet rdf e) ->
      py_eval catch rdp e = inl (PF (lf_sem rdf e)) /\ f_eval rdf (f_regroup e) = Some (F8 (lf_sem rdf e)).
    Proof.
      intros Hlf Hrd Hmm Hq. split.
      - apply (literal_free_both catch rdp rdf e Hlf Hrd Hmm Hq).
      - rewrite <- (regroup_sem rdf e).
        apply (literal_free_both false rdp rdf (f_regroup e)).
        + rewrite regroup_literal_free. exact Hlf.
        + intros i k H. apply Hrd. apply regroup_reads. exact H.
        + apply regroup_mm_det. exact Hmm.
        + left. reflexivity.
    Qed.
  End Regroup.

  (* ---------------- whether the module compiles does not depend on the data ---------------- *)
  Definition fv_static (a b : option (fv num)) : Prop :=
    match a, b with
    | None, None => True
    | Some (FI x), Some (FI y) => x = y
    | Some (F4 _), Some (F4 _) | Some (F8 _), Some (F8 _) => True
    | _, _ => False
    end.
End Facts.
