(* FEvalEdge.v — _evaluate(t) with t outside the span: IndexError from both engines, nothing stored (the template's codes
   11 / 12; the generated Python fails at its first read or at its first store). *)
From Coq Require Import ZArith List Bool Lia ZifyBool.
Import ListNotations.
Require Import PyBase Solver FSem FSemFacts FBenignFacts FSolve FSolveFacts.
Open Scope Z_scope.

Section EvalEdge.
  Variable num : Type.
  Variables (add sub mul div : num -> num -> num) (neg absf : num -> num) (ltb : num -> num -> bool).
  Variables (is_nan is_inf : num -> bool).
  Variable of_int : Z -> num.
  Variables (fexp flog : num -> num) (fpow : num -> num -> num).
  Variable evf : Z -> vals num -> vals num.

  Notation expr := (expr num).
  Notation py_eval := (py_eval num add sub mul div neg absf ltb is_nan is_inf of_int fexp flog fpow).
  Notation py_pass := (py_pass num add sub mul div neg absf ltb is_nan is_inf of_int fexp flog fpow).
  Notation benign := (benign num add sub mul div of_int fpow).
  Notation lit_atom := (lit_atom num add sub mul div of_int fpow).
  Notation dec_atom := (dec_atom num).

  Lemma atom_val (e : expr) : lit_atom e -> exists pa, forall rdp, py_eval false rdp e = inl pa.
  Proof.
    intros [H|H].
    - exists (PI (ival num e)). intros rdp. apply (int_atom_both num add sub mul div neg absf ltb is_nan is_inf of_int fexp flog fpow
                                                   (fun x => x) (fun x => x) (fun x => x) (fun x _ => x) (of_int 1) false rdp (fun _ _ => of_int 0) e H).
    - exists (PF (lf_sem num add sub mul div neg absf ltb of_int fexp flog fpow (fun _ _ => of_int 0) e)). intros rdp.
      apply (dec_atom_both num add sub mul div neg absf ltb is_nan is_inf of_int fexp flog fpow
               (fun x => x) (fun x => x) (fun x => x) (fun x _ => x) (of_int 1) false rdp (fun _ _ => of_int 0) e H).
  Qed.

  (* without the warnings filter a benign expression yields a float64 or fails at a read *)
  Lemma benign_val_or_index (e : expr) : benign e -> forall rdp,
    (exists x, py_eval false rdp e = inl (PF x)) \/ py_eval false rdp e = inr tag_index.
  Proof.
    induction e as [i k|z|d8 d4|a IHa|a IHa|o a IHa b IHb|a IHa|a IHa|a IHa|m a IHa b IHb]; cbn [FBenignFacts.benign]; intros Hb rdp; try contradiction.
    - cbn [FSem.py_eval]. destruct (rdp i k); [left; eexists; reflexivity|right; reflexivity].
    - cbn [FSem.py_eval]. destruct (IHa Hb rdp) as [[x ->]| ->]; [left; eexists; reflexivity|right; reflexivity].
    - cbn [FSem.py_eval]. apply IHa. exact Hb.
    - assert (Hab : (benign a \/ lit_atom a) /\ (benign b \/ lit_atom b) /\ (benign a \/ benign b)).
      { destruct o; try exact Hb. destruct Hb as [H1 H2]. auto. }
      destruct Hab as (Ha & Hb' & Hab). cbn [FSem.py_eval].
      assert (Va : (exists pa, py_eval false rdp a = inl pa /\ (benign a -> exists x, pa = PF x)) \/ py_eval false rdp a = inr tag_index).
      { destruct Ha as [Ha|Ha].
        - destruct (IHa Ha rdp) as [[x Hx]|Hx]; [left; exists (PF x); split; [exact Hx|intros _; eexists; reflexivity]|right; exact Hx].
        - destruct (atom_val a Ha) as [pa Hp]. left. exists pa. split; [apply Hp|].
          intros Hben. destruct (IHa Hben rdp) as [[x Hx]|Hx]; rewrite Hp in Hx; inversion Hx. eexists; reflexivity. }
      assert (Vb : (exists pb, py_eval false rdp b = inl pb /\ (benign b -> exists x, pb = PF x)) \/ py_eval false rdp b = inr tag_index).
      { destruct Hb' as [Hb'|Hb'].
        - destruct (IHb Hb' rdp) as [[x Hx]|Hx]; [left; exists (PF x); split; [exact Hx|intros _; eexists; reflexivity]|right; exact Hx].
        - destruct (atom_val b Hb') as [pb Hp]. left. exists pb. split; [apply Hp|].
          intros Hben. destruct (IHb Hben rdp) as [[x Hx]|Hx]; rewrite Hp in Hx; inversion Hx. eexists; reflexivity. }
      destruct Va as [(pa & Pa & Fa)|Pa]; rewrite Pa; [|right; reflexivity].
      destruct Vb as [(pb & Pb & Fb)|Pb]; rewrite Pb; [|right; reflexivity].
      left. destruct Hab as [H|H].
      + destruct (Fa H) as [x ->]. destruct pb; eexists; reflexivity.
      + destruct (Fb H) as [y ->]. destruct pa; eexists; reflexivity.
    - cbn [FSem.py_eval]. destruct (IHa Hb rdp) as [[x ->]| ->]; [left; eexists; reflexivity|right; reflexivity].
    - cbn [FSem.py_eval]. destruct (IHa Hb rdp) as [[x ->]| ->]; [left; eexists; reflexivity|right; reflexivity].
    - cbn [FSem.py_eval]. destruct (IHa Hb rdp) as [[x ->]| ->]; [left; eexists; reflexivity|right; reflexivity].
    - destruct Hb as (Ha & Hb & _). cbn [FSem.py_eval].
      assert (Va : (exists x, py_eval false rdp a = inl (PF x)) \/ py_eval false rdp a = inr tag_index).
      { destruct Ha as [Ha|Ha]; [apply IHa; exact Ha|]. left.
        destruct (dec_atom_both num add sub mul div neg absf ltb is_nan is_inf of_int fexp flog fpow
                    (fun x => x) (fun x => x) (fun x => x) (fun x _ => x) (of_int 1) false rdp (fun _ _ => of_int 0) a Ha) as [P _]. eexists; exact P. }
      assert (Vb : (exists x, py_eval false rdp b = inl (PF x)) \/ py_eval false rdp b = inr tag_index).
      { destruct Hb as [Hb|Hb]; [apply IHb; exact Hb|]. left.
        destruct (dec_atom_both num add sub mul div neg absf ltb is_nan is_inf of_int fexp flog fpow
                    (fun x => x) (fun x => x) (fun x => x) (fun x _ => x) (of_int 1) false rdp (fun _ _ => of_int 0) b Hb) as [P _]. eexists; exact P. }
      destruct Va as [[x ->]| ->]; [|right; reflexivity].
      destruct Vb as [[y ->]| ->]; [|right; reflexivity].
      left. unfold FSem.py_mm. destruct m; match goal with |- context [if ?c then _ else _] => destruct c end; eexists; reflexivity.
  Qed.

  (* t outside the span (both spellings exhausted): IndexError from both, nothing changes *)
  Theorem evaluate_out_of_span (prog : list (eqn num)) fm t s n m i e r :
    shape n m (vals_of s) -> length (status s) = n -> (0 < m)%nat ->
    prog = (i, e) :: r -> benign e ->
    py_pos n t = None ->
    w_evaluate num evf fm t s = (s, Raise IndexError) /\
    py_pass false prog n t (vals_of s) = (vals_of s, Some tag_index).
  Proof.
    intros Hs Hlen Hm -> Hb Hpos. split.
    - unfold FSolve.w_evaluate, FSolve.t_evaluate. rewrite (shape_ncols num n m _ Hs Hm).
      unfold py_pos in Hpos. destruct ((t <? - Z.of_nat n) || (Z.of_nat n <=? t)) eqn:E; [|discriminate].
      unfold t_index, t_guard.
      destruct (t + 1 <? 1) eqn:E1.
      + replace (t + 1 + Z.of_nat n <? 1) with true by lia. reflexivity.
      + replace (t + 1 <? 1) with false by lia. replace (Z.of_nat n <? t + 1) with true by lia. reflexivity.
    - cbn [FSem.py_pass]. destruct (benign_val_or_index e Hb (rd_py num (vals_of s) n t)) as [[x ->]| ->]; [|reflexivity].
      rewrite Hpos. reflexivity.
  Qed.
End EvalEdge.
