(* FortranExamples.v — concrete instances: refutation witnesses for the parts of the C07 statement the current tree breaks
   (finding #6 and relatives), and non-trivial instances that meet the hypotheses of the agreement theorems. *)
From Coq Require Import PrimFloat ZArith List Bool Lia.
Import ListNotations.
Require Import PyBase Solver SolverF FSem FSemFacts FBenignFacts FSolve FSolveFacts FSolveSim FSolveRun FPassFacts FSolveAll FSolveAllG FPassSolve FortranF.
Open Scope Z_scope.

Definition no_or : oracles := mkOr [] [] [].
Definition rd1 (x : float) : nat -> Z -> float := fun _ _ => x.
Definition rd1p (x : float) : nat -> Z -> option float := fun _ _ => Some x.

(* ------------------------------------------------------------------ finding #6: literals *)
(* `1 / 2 * X` with X = 1: the Python class computes 0.5, the compiled Fortran 0 (integer division) *)
Definition e_half_x : fexpr := EBin OMul (EBin ODiv (EInt 1) (EInt 2)) (EVar 0%nat 0).
Lemma integer_division_witness :
  F_py_eval no_or true (rd1p 1%float) e_half_x = inl (PF 0.5%float) /\
  F_f_eval no_or (rd1 1%float) (f_regroup float e_half_x) = Some (F8 0%float).
Proof. split; vm_compute; reflexivity. Qed.

(* `0.1 * X` with X = 1: 0x1.999999999999ap-4 in Python, the binary32 constant 0x1.99999ap-4 in Fortran *)
Definition e_tenth_x : fexpr := EBin OMul (EDec 0x1.999999999999ap-4%float 0x1.99999ap-4%float) (EVar 0%nat 0).
Lemma real4_literal_witness :
  F_py_eval no_or true (rd1p 1%float) e_tenth_x = inl (PF 0x1.999999999999ap-4%float) /\
  F_f_eval no_or (rd1 1%float) (f_regroup float e_tenth_x) = Some (F8 0x1.99999ap-4%float) /\
  f_round4 0x1.999999999999ap-4%float = 0x1.99999ap-4%float.
Proof. repeat split; vm_compute; reflexivity. Qed.

(* `min(1, X)` and `exp(2)`: the Python class evaluates them, gfortran rejects the module *)
Definition e_min1x : fexpr := EMM MMin (EInt 1) (EVar 0%nat 0).
Definition e_exp2 : fexpr := EExp (EInt 2).
Lemma mixed_kind_witness :
  F_py_eval no_or true (rd1p 3%float) e_min1x = inl (PI 1) /\ F_f_compiles [(0%nat, e_min1x)] = false /\
  F_f_compiles [(0%nat, e_exp2)] = false.
Proof. repeat split; vm_compute; reflexivity. Qed.

(* the statement "both evaluators agree on every expression of the grammar" is false *)
Lemma eval_agree_refuted :
  exists (e : fexpr) (x : float),
    F_f_compiles [(0%nat, e)] = true /\
    exists a b, F_py_eval no_or true (rd1p x) e = inl (PF a) /\ F_f_eval no_or (rd1 x) (f_regroup float e) = Some (F8 b) /\
                feq_bits a b = false /\ fisfin a = true /\ fisfin b = true.
Proof.
  exists e_half_x, 1%float. split; [vm_compute; reflexivity|].
  exists 0.5%float, 0%float. repeat split; vm_compute; reflexivity.
Qed.

(* ------------------------------------------------------------------ state machines: Y = {a} * Y[-1] + X *)
(* rows: 0 = Y, 1 = X, 2 = a ; four periods *)
Definition prog1 : list feqn := [(0%nat, EBin OAdd (EBin OMul (EVar 2%nat 0) (EVar 0%nat (-1))) (EVar 1%nat 0))].
Definition desc1 : mdesc := mkDesc [0%nat] [0%nat] 1 0.
Definition fmod1 : fmod := mkFmod 1 0 [1].
Definition state1 : fstate :=
  mkState [[1; 0; 0; 0]; [1; 1; 1; 1]; [0.5; 0.5; 0.5; 0.5]]%float
          [Unsolved; Unsolved; Unsolved; Unsolved] [-1; -1; -1; -1] [].
Definition opts1 (mx off : Z) (fr : bool) (em : errmode) : fopts := mkOpts 0 mx 0x1p-30%float off fr em true.

(* period 0 has no room for the lag: IndexError from both engines, nothing changes (since fix 1354783; before, FortranEngineError) *)
Lemma infeasible_period_instance :
  obs_eqb (F_solve_t no_or prog1 fmod1 desc1 (opts1 100 (-1) true ESkip) 0 state1) (state1, XB (Raise IndexError)) = true /\
  obs_eqb (P_solve_t no_or prog1 desc1 (opts1 100 (-1) true ESkip) 0 state1) (state1, XB (Raise IndexError)) = true /\
  feasible desc1 4 0 = false.
Proof. repeat split; vm_compute; reflexivity. Qed.

(* _evaluate(0) called directly: the generated Python reads Y[-1] (the LAST period) and returns; the Fortran engine raises *)
Lemma evaluate_infeasible_witness :
  snd (P_evaluate no_or prog1 0 state1) = XU (Ret tt) /\
  snd (F_evaluate no_or prog1 fmod1 0 state1) = XU (Raise IndexError).
Proof. split; vm_compute; reflexivity. Qed.

(* max_iter = 0 on a feasible period: 'F' / 0 iterations / False from both engines (since fix 131915c; before, FortranEngineError) *)
Lemma max_iter_zero_instance :
  snd (P_solve_t no_or prog1 desc1 (opts1 0 0 false ERaise) 1 state1) = XB (Ret false) /\
  nth 1 (status (fst (P_solve_t no_or prog1 desc1 (opts1 0 0 false ERaise) 1 state1))) Unsolved = Failed /\
  obs_eqb (F_solve_t no_or prog1 fmod1 desc1 (opts1 0 0 false ERaise) 1 state1)
          (let '(s, x) := P_solve_t no_or prog1 desc1 (opts1 0 0 false ERaise) 1 state1 in (s, x)) = true /\
  nth 1 (iters (fst (F_solve_t no_or prog1 fmod1 desc1 (opts1 0 0 false ERaise) 1 state1))) 7 = 0 /\
  snd (F_solve_t no_or prog1 fmod1 desc1 (opts1 0 0 true ERaise) 1 state1) = XB (Raise NonConvergenceError).
Proof. repeat split; vm_compute; reflexivity. Qed.

(* solve(offset=-2, errors='skip') from period 1: both raise IndexError at period 1 and neither has touched the values — the
   template's loop stops there whatever `errors` is (fix b027373; before it the template went on to period 3, whose offset
   period exists, and the wrapper stored the values solved there).  General statement: FSolveAllG.w_solve_refinesG, case sc_off *)
Lemma solve_offset_instance :
  let o := opts1 100 (-2) true ESkip in
  snd (P_solve no_or prog1 desc1 o [1; 2; 3]%nat state1) = XL (Raise IndexError) /\
  snd (F_solve no_or prog1 fmod1 desc1 o FRaise [1; 2; 3]%nat state1) = XL (Raise IndexError) /\
  list_eqb (list_eqb feq_bits) (vals_of (fst (P_solve no_or prog1 desc1 o [1; 2; 3]%nat state1))) (vals_of state1) = true /\
  list_eqb (list_eqb feq_bits) (vals_of (fst (F_solve no_or prog1 fmod1 desc1 o FRaise [1; 2; 3]%nat state1))) (vals_of state1) = true.
Proof. cbv zeta. repeat split; vm_compute; reflexivity. Qed.

(* on the feasible period 1 with max_iter >= 1 the two engines agree bit for bit (the instance the theorems cover) *)
Lemma agree_instance :
  let o := opts1 100 0 true ERaise in
  obs_eqb (F_solve_t no_or prog1 fmod1 desc1 o 1 state1)
          (let '(s, x) := P_solve_t no_or prog1 desc1 o 1 state1 in (s, x)) = true /\
  snd (P_solve_t no_or prog1 desc1 o 1 state1) = XB (Ret true) /\
  nth 1 (iters (fst (P_solve_t no_or prog1 desc1 o 1 state1))) 0 = 2.
Proof. cbv zeta. repeat split; vm_compute; reflexivity. Qed.

(* ------------------------------------------------------------------ the hypotheses of the agreement theorems are satisfiable *)
(* an instance over the integers (exact arithmetic; every value "finite"): Y = {a} * Y[-1] + X with a = 2, period 1,
   max_iter = 2: every hypothesis of FPassFacts.solve_t_engines_agree is discharged, so its conclusion holds *)
Section ZInstance.
  Let zt : Z -> bool := fun _ => true.
  Let zf : Z -> bool := fun _ => false.
  Let zid : Z -> Z := fun x => x.
  Definition zprog : list (eqn Z) := [(0%nat, EBin OAdd (EBin OMul (EVar 2%nat 0) (EVar 0%nat (-1))) (EVar 1%nat 0))].
  Definition zstate : mstate Z :=
    mkState [[1; 0; 0; 0]; [1; 1; 1; 1]; [2; 2; 2; 2]] [Unsolved; Unsolved; Unsolved; Unsolved] [-1; -1; -1; -1] [].
  Definition zopts : opts Z := mkOpts 0 2 1 0 true ERaise true.

  Lemma z_neg_mul x y : Z.opp x * y = Z.opp (x * y).
  Proof. apply Z.mul_opp_l. Qed.
  Lemma z_neg_div x y : Z.quot (Z.opp x) y = Z.opp (Z.quot x y).
  Proof. destruct (Z.eq_dec y 0) as [->|H]; [destruct x; reflexivity|apply Z.quot_opp_l; exact H]. Qed.

  Example solve_t_engines_agree_instance :
    agree Z
      (w_solve_t Z Z.sub Z.abs Z.ltb zt 0
         (f_pass Z Z.add Z.sub Z.mul Z.quot Z.opp Z.abs Z.ltb zid zid zid Z.pow zid zid zid Z.pow 0 1 zprog)
         fmod1 desc1 zopts 1 zstate)
      (solve_t_M Z Z.sub Z.abs Z.ltb zt 0
         (py_hook Z Z.add Z.sub Z.mul Z.quot Z.opp Z.abs Z.ltb zf zf zid zid zid Z.pow zprog 4) (no_hook Z) (no_hook Z)
         desc1 zopts 1 zstate).
  Proof.
    apply (solve_t_engines_agree Z Z.add Z.sub Z.mul Z.quot Z.opp Z.abs Z.ltb zf zf zid zid zid Z.pow zid zid zid Z.pow 0 1 zt
             zprog fmod1 desc1 zopts 1 zstate 1%nat 4%nat 3%nat).
    - split; [reflexivity|]. repeat constructor.
    - reflexivity.
    - lia.
    - repeat constructor.
    - repeat constructor.
    - reflexivity.
    - reflexivity.
    - reflexivity.
    - constructor; [|constructor]. split; [cbn; lia|]. split; [vm_compute; intuition auto|].
      intros j k H. cbn in H. destruct H as [H|[H|[H|[]]]]; inversion H; subst; cbn; split; lia.
    - reflexivity.
    - reflexivity.
    - discriminate.
    - cbn; lia.
    - left; reflexivity.
    - reflexivity.
    - vm_compute. intuition auto.
  Qed.

  (* ... and the run is not trivial: two passes, converged, Y[1] = 2 * 1 + 1 *)
  Example solve_t_engines_agree_instance_run :
    let r := w_solve_t Z Z.sub Z.abs Z.ltb zt 0
               (f_pass Z Z.add Z.sub Z.mul Z.quot Z.opp Z.abs Z.ltb zid zid zid Z.pow zid zid zid Z.pow 0 1 zprog)
               fmod1 desc1 zopts 1 zstate in
    snd r = Ret true /\ nth 1 (iters (fst r)) 0 = 2 /\ nth 1 (nth 0 (vals_of (fst r)) []) 0 = 3.
  Proof. cbv zeta. repeat split; vm_compute; reflexivity. Qed.
  (* the hypotheses of FPassSolve.solve_engines_agree are satisfiable: solve over the periods 1, 2, 3 *)
  Example solve_engines_agree_instance :
    agree Z
      (w_solve Z Z.sub Z.abs Z.ltb zt 0
         (f_pass Z Z.add Z.sub Z.mul Z.quot Z.opp Z.abs Z.ltb zid zid zid Z.pow zid zid zid Z.pow 0 1 zprog)
         fmod1 desc1 zopts FRaise [1; 2; 3]%nat zstate)
      (py_solve Z Z.sub Z.abs Z.ltb zt 0
         (py_hook Z Z.add Z.sub Z.mul Z.quot Z.opp Z.abs Z.ltb zf zf zid zid zid Z.pow zprog 4) (no_hook Z) (no_hook Z)
         desc1 zopts [1; 2; 3]%nat zstate).
  Proof.
    apply (solve_engines_agree Z Z.add Z.sub Z.mul Z.quot Z.opp Z.abs Z.ltb zf zf zid zid zid Z.pow zid zid zid Z.pow 0 1 zt
             zprog fmod1 desc1 zopts 4%nat 3%nat 0 0 FRaise).
    - lia.
    - repeat constructor.
    - repeat constructor.
    - reflexivity.
    - reflexivity.
    - reflexivity.
    - constructor; [|constructor]. split; [cbn; lia|]. split; [vm_compute; intuition auto|].
      intros j k H. cbn in H. destruct H as [H|[H|[H|[]]]]; inversion H; subst; cbn; split; lia.
    - cbn; lia.
    - reflexivity.
    - reflexivity.
    - reflexivity.
    - split; [reflexivity|]. repeat constructor.
    - reflexivity.
    - cbn [solve_ok_prog]. split; [|split; [|split; [|exact I]]]; vm_compute; intuition (auto with arith).
  Qed.

  Example solve_engines_agree_instance_run :
    let r := w_solve Z Z.sub Z.abs Z.ltb zt 0
               (f_pass Z Z.add Z.sub Z.mul Z.quot Z.opp Z.abs Z.ltb zid zid zid Z.pow zid zid zid Z.pow 0 1 zprog)
               fmod1 desc1 zopts FRaise [1; 2; 3]%nat zstate in
    snd r = Ret [true; true; true] /\ iters (fst r) = [-1; 2; 2; 2] /\ nth 0 (vals_of (fst r)) [] = [1; 3; 7; 15].
  Proof. cbv zeta. repeat split; vm_compute; reflexivity. Qed.

  (* ... and those of FPassFacts.evaluate_engines_agree, with the negative spelling of the period *)
  Example evaluate_engines_agree_instance :
    w_evaluate Z (f_pass Z Z.add Z.sub Z.mul Z.quot Z.opp Z.abs Z.ltb zid zid zid Z.pow zid zid zid Z.pow 0 1 zprog) fmod1 (-2) zstate
    = (setvals Z zstate (f_pass Z Z.add Z.sub Z.mul Z.quot Z.opp Z.abs Z.ltb zid zid zid Z.pow zid zid zid Z.pow 0 1 zprog 3 (vals_of zstate)), Ret tt) /\
    py_pass Z Z.add Z.sub Z.mul Z.quot Z.opp Z.abs Z.ltb zf zf zid zid zid Z.pow false zprog 4 (-2) (vals_of zstate)
    = (f_pass Z Z.add Z.sub Z.mul Z.quot Z.opp Z.abs Z.ltb zid zid zid Z.pow zid zid zid Z.pow 0 1 zprog 3 (vals_of zstate), None).
  Proof.
    apply (evaluate_engines_agree Z Z.add Z.sub Z.mul Z.quot Z.opp Z.abs Z.ltb zf zf zid zid zid Z.pow zid zid zid Z.pow 0 1
             zprog fmod1 1%nat 0%nat (-2) zstate 2%nat 4%nat 3%nat).
    - split; [reflexivity|]. repeat constructor.
    - reflexivity.
    - lia.
    - reflexivity.
    - reflexivity.
    - constructor; [|constructor]. split; [cbn; lia|]. split; [vm_compute; intuition auto|].
      intros j k H. cbn in H. destruct H as [H|[H|[H|[]]]]; inversion H; subst; cbn; split; lia.
    - reflexivity.
    - lia.
    - lia.
    - vm_compute. intuition auto.
  Qed.
  (* a program with benign literals meets the hypotheses too: Y = 2 * Y[-1] + 0.5 * X - X / 4 (over the integers 0.5 is
     played by the exactly representable "decimal" 3) *)
  Definition zprog_lit : list (eqn Z) :=
    [(0%nat, EBin OSub (EBin OAdd (EBin OMul (EInt 2) (EVar 0%nat (-1))) (EBin OMul (EDec 3 3) (EVar 1%nat 0)))
                        (EBin ODiv (EVar 1%nat 0) (EInt 4)))].
  Example benign_instance :
    prog_scoped Z Z.add Z.sub Z.mul Z.quot zid Z.pow 3 1 0 zprog_lit /\
    literal_free Z (snd (hd (0%nat, EInt 0) zprog_lit)) = false /\
    py_pass Z Z.add Z.sub Z.mul Z.quot Z.opp Z.abs Z.ltb zf zf zid zid zid Z.pow true zprog_lit 4 1 (vals_of zstate)
    = (f_pass Z Z.add Z.sub Z.mul Z.quot Z.opp Z.abs Z.ltb zid zid zid Z.pow zid zid zid Z.pow 0 1 zprog_lit 2 (vals_of zstate), None) /\
    nth 1 (nth 0 (f_pass Z Z.add Z.sub Z.mul Z.quot Z.opp Z.abs Z.ltb zid zid zid Z.pow zid zid zid Z.pow 0 1 zprog_lit 2 (vals_of zstate)) []) 0 = 5.
  Proof.
    split; [|split; [reflexivity|split; [|vm_compute; reflexivity]]].
    - constructor; [|constructor]. split; [cbn; lia|]. split; [vm_compute; intuition auto|].
      intros j k H. cbn in H. destruct H as [H|[H|[H|[]]]]; inversion H; subst; cbn; split; lia.
    - apply (pass_agree Z Z.add Z.sub Z.mul Z.quot Z.opp Z.abs Z.ltb zf zf zid zid zid Z.pow zid zid zid Z.pow 0 1
               true 4%nat 3%nat 1 0 1 1%nat zprog_lit (vals_of zstate)).
      + split; [reflexivity|]. repeat constructor.
      + reflexivity.
      + constructor; [|constructor]. split; [cbn; lia|]. split; [vm_compute; intuition auto|].
        intros j k H. cbn in H. destruct H as [H|[H|[H|[]]]]; inversion H; subst; cbn; split; lia.
      + lia.
      + lia.
      + vm_compute. intuition auto.
  Qed.
End ZInstance.

(* ------------------------------------------------------------------ the regime theorem beyond the finite regime *)
(* an instance of FSolveSim.w_solve_t_refines in which a pass leaves the "finite" range (integers of magnitude below 1000
   play the finite numbers): Y = Y * Y * X from Y = 2 under errors='skip' — 4, 16, 256, 65536: pass 4 is not finite, both
   engines record 'S' with 4 iterations and return False *)
Section ZSkip.
  Let zfin : Z -> bool := fun x => Z.abs x <? 1000.
  Let zf : Z -> bool := fun _ => false.
  Let zid : Z -> Z := fun x => x.
  Definition zprog_sq : list (eqn Z) := [(0%nat, EBin OMul (EBin OMul (EVar 0%nat 0) (EVar 0%nat 0)) (EVar 1%nat 0))].
  Definition zdesc_sq : mdesc := mkDesc [0%nat] [0%nat] 0 0.
  Definition zfmod_sq : fmod := mkFmod 0 0 [1].
  Definition zstate_sq : mstate Z := mkState [[2; 2; 2; 2]; [1; 1; 1; 1]] [Unsolved; Unsolved; Unsolved; Unsolved] [-1; -1; -1; -1] [].
  Definition zopts_skip : opts Z := mkOpts 0 5 1 0 true ESkip true.
  Notation zevf := (f_pass Z Z.add Z.sub Z.mul Z.quot Z.opp Z.abs Z.ltb zid zid zid Z.pow zid zid zid Z.pow 0 1 zprog_sq).
  Notation zev := (py_hook Z Z.add Z.sub Z.mul Z.quot Z.opp Z.abs Z.ltb zf zf zid zid zid Z.pow zprog_sq 4).

  Example regime_instance_skip :
    agree Z (w_solve_t Z Z.sub Z.abs Z.ltb zfin 0 zevf zfmod_sq zdesc_sq zopts_skip 1 zstate_sq)
            (solve_t_M Z Z.sub Z.abs Z.ltb zfin 0 zev (no_hook Z) (no_hook Z) zdesc_sq zopts_skip 1 zstate_sq) /\
    snd (w_solve_t Z Z.sub Z.abs Z.ltb zfin 0 zevf zfmod_sq zdesc_sq zopts_skip 1 zstate_sq) = Ret false /\
    nth 1 (status (fst (w_solve_t Z Z.sub Z.abs Z.ltb zfin 0 zevf zfmod_sq zdesc_sq zopts_skip 1 zstate_sq))) Unsolved = Skipped /\
    nth 1 (iters (fst (w_solve_t Z Z.sub Z.abs Z.ltb zfin 0 zevf zfmod_sq zdesc_sq zopts_skip 1 zstate_sq))) 0 = 4.
  Proof.
    split; [|repeat split; vm_compute; reflexivity].
    apply (w_solve_t_refines Z Z.sub Z.abs Z.ltb zfin 0 zevf zev (no_hook Z) (no_hook Z) zfmod_sq zdesc_sq zopts_skip 1 zstate_sq
             1%nat 4%nat 2%nat).
    - split; [reflexivity|]. repeat constructor.
    - reflexivity.
    - lia.
    - repeat constructor.
    - repeat constructor.
    - reflexivity.
    - reflexivity.
    - reflexivity.
    - reflexivity.
    - reflexivity.
    - discriminate.
    - cbn; lia.
    - left; reflexivity.
    - intros v Hv. apply (f_pass_shape Z Z.add Z.sub Z.mul Z.quot Z.opp Z.abs Z.ltb zid zid zid Z.pow zid zid zid Z.pow 0 1). exact Hv.
    - intros i k Hi. change (Z.to_nat (max_iter zopts_skip)) with 5%nat in Hi.
      destruct i as [|[|[|[|[|i]]]]]; try lia; vm_compute; reflexivity.
    - reflexivity.
    - reflexivity.
    - change (Z.to_nat (max_iter zopts_skip)) with 5%nat. unfold regime_from. split; [|split; [|split]].
      + intros i Hi. destruct i as [|[|[|[|[|[|i]]]]]]; try lia; vm_compute; reflexivity.
      + intros _. vm_compute. reflexivity.
      + intros E. discriminate E.
      + intros E. discriminate E.
  Qed.
  (* ... and of FSolveAllG.w_solve_refinesG: solve over the periods 1 and 2, both end 'S' *)
  Ltac five_cases i := destruct i as [|[|[|[|[|[|i]]]]]]; try lia; vm_compute; reflexivity.
  Example solve_all_statuses_instance :
    agree Z (w_solve Z Z.sub Z.abs Z.ltb zfin 0 zevf zfmod_sq zdesc_sq zopts_skip FRaise [1; 2]%nat zstate_sq)
            (py_solve Z Z.sub Z.abs Z.ltb zfin 0 zev (no_hook Z) (no_hook Z) zdesc_sq zopts_skip [1; 2]%nat zstate_sq) /\
    snd (w_solve Z Z.sub Z.abs Z.ltb zfin 0 zevf zfmod_sq zdesc_sq zopts_skip FRaise [1; 2]%nat zstate_sq) = Ret [false; false] /\
    status (fst (w_solve Z Z.sub Z.abs Z.ltb zfin 0 zevf zfmod_sq zdesc_sq zopts_skip FRaise [1; 2]%nat zstate_sq))
    = [Unsolved; Skipped; Skipped; Unsolved].
  Proof.
    split; [|split; vm_compute; reflexivity].
    apply (w_solve_refinesG Z Z.sub Z.abs Z.ltb zfin 0 zevf zev zfmod_sq zdesc_sq zopts_skip 4%nat 2%nat 1 0 FRaise).
    - lia.
    - repeat constructor.
    - repeat constructor.
    - reflexivity.
    - reflexivity.
    - reflexivity.
    - cbn; lia.
    - intros idx v Hv. apply (f_pass_shape Z Z.add Z.sub Z.mul Z.quot Z.opp Z.abs Z.ltb zid zid zid Z.pow zid zid zid Z.pow 0 1). exact Hv.
    - reflexivity.
    - reflexivity.
    - reflexivity.
    - split; [reflexivity|]. repeat constructor.
    - reflexivity.
    - cbn [solve_okG]. split.
      + split; [lia|]. right. split; [reflexivity|]. right. left. split; [left; reflexivity|]. split.
        * intros i k Hi. change (Z.to_nat (max_iter zopts_skip)) with 5%nat in Hi. five_cases i.
        * change (Z.to_nat (max_iter zopts_skip)) with 5%nat. unfold regime_from. split; [|split; [|split]].
          -- intros i Hi. five_cases i.
          -- intros _. vm_compute. reflexivity.
          -- intros E. discriminate E.
          -- intros E. discriminate E.
      + match goal with |- context [if ?b then _ else _] => let x := eval vm_compute in b in change b with x end. cbv iota.
        split; [|exact I].
        split; [lia|]. right. split; [reflexivity|]. right. left. split; [left; reflexivity|]. split.
        * intros i k Hi. change (Z.to_nat (max_iter zopts_skip)) with 5%nat in Hi. five_cases i.
        * change (Z.to_nat (max_iter zopts_skip)) with 5%nat. unfold regime_from. split; [|split; [|split]].
          -- intros i Hi. five_cases i.
          -- intros _. vm_compute. reflexivity.
          -- intros E. discriminate E.
          -- intros E. discriminate E.
  Qed.
  (* mixed outcomes in ONE solve (max_iter = 2, errors='skip', failures='ignore'): from 0 the iteration converges at once ('.'),
     from 2 it is still moving after two passes ('F'), from 40 the first pass leaves the finite range ('S') *)
  Definition zstate_mix : mstate Z := mkState [[0; 2; 40; 0]; [1; 1; 1; 1]] [Unsolved; Unsolved; Unsolved; Unsolved] [-1; -1; -1; -1] [].
  Definition zopts_mix : opts Z := mkOpts 0 2 1 0 false ESkip true.
  Ltac three_cases i := destruct i as [|[|[|i]]]; try lia; vm_compute; reflexivity.
  Ltac mix_period :=
    split; [lia|]; right; split; [reflexivity|]; right; left; split; [left; reflexivity|]; split;
    [ let i := fresh "i" in let k := fresh "k" in let Hi := fresh "Hi" in
      intros i k Hi; change (Z.to_nat (max_iter zopts_mix)) with 2%nat in Hi; three_cases i
    | change (Z.to_nat (max_iter zopts_mix)) with 2%nat; unfold regime_from; split; [|split; [|split]];
      [ let i := fresh "i" in let Hi := fresh "Hi" in intros i Hi; three_cases i
      | intros _; vm_compute; reflexivity
      | let E := fresh "E" in intros E; discriminate E
      | let E := fresh "E" in intros E; discriminate E ] ].
  Ltac next_period :=
    match goal with |- context [if ?b then _ else _] => let x := eval vm_compute in b in change b with x end; cbv iota.
  Example solve_mixed_statuses_instance :
    agree Z (w_solve Z Z.sub Z.abs Z.ltb zfin 0 zevf zfmod_sq zdesc_sq zopts_mix FIgnore [0; 1; 2; 3]%nat zstate_mix)
            (py_solve Z Z.sub Z.abs Z.ltb zfin 0 zev (no_hook Z) (no_hook Z) zdesc_sq zopts_mix [0; 1; 2; 3]%nat zstate_mix) /\
    snd (w_solve Z Z.sub Z.abs Z.ltb zfin 0 zevf zfmod_sq zdesc_sq zopts_mix FIgnore [0; 1; 2; 3]%nat zstate_mix) = Ret [true; false; false; true] /\
    status (fst (w_solve Z Z.sub Z.abs Z.ltb zfin 0 zevf zfmod_sq zdesc_sq zopts_mix FIgnore [0; 1; 2; 3]%nat zstate_mix))
    = [Solved; Failed; Skipped; Solved] /\
    iters (fst (w_solve Z Z.sub Z.abs Z.ltb zfin 0 zevf zfmod_sq zdesc_sq zopts_mix FIgnore [0; 1; 2; 3]%nat zstate_mix)) = [1; 2; 1; 1].
  Proof.
    split; [|repeat split; vm_compute; reflexivity].
    apply (w_solve_refinesG Z Z.sub Z.abs Z.ltb zfin 0 zevf zev zfmod_sq zdesc_sq zopts_mix 4%nat 2%nat 1 2 FIgnore).
    - lia.
    - repeat constructor.
    - repeat constructor.
    - reflexivity.
    - reflexivity.
    - reflexivity.
    - cbn; lia.
    - intros idx v Hv. apply (f_pass_shape Z Z.add Z.sub Z.mul Z.quot Z.opp Z.abs Z.ltb zid zid zid Z.pow zid zid zid Z.pow 0 1). exact Hv.
    - reflexivity.
    - reflexivity.
    - reflexivity.
    - split; [reflexivity|]. repeat constructor.
    - reflexivity.
    - cbn [solve_okG]. split; [mix_period|]. next_period.
      split; [mix_period|]. next_period.
      split; [mix_period|]. next_period.
      split; [mix_period|]. next_period. exact I.
  Qed.
End ZSkip.

(* solve() of a model without periods: SolutionError ('Object `span` is empty') from both engines (fix e0867c1; before it
   FortranEngine.solve raised IndexError 'Too few periods (0) ... for the lags').  General statement: w_solve_se_refines *)
Definition state_empty : fstate := mkState [[]; []; []] [] [] [].
Lemma empty_span_instance :
  snd (P_solve_se no_or prog1 desc1 (opts1 100 0 true ERaise) None None state_empty) = XL (Raise (SolutionError None)) /\
  snd (F_solve_se no_or prog1 fmod1 desc1 (opts1 100 0 true ERaise) FRaise None None state_empty) = XL (Raise (SolutionError None)).
Proof. split; vm_compute; reflexivity. Qed.
