(* FTextFacts.v — theorems about the text layer of build_fortran_definition (FText.v). *)
From Coq Require Import Ascii String List Bool Arith Lia ZArith DecimalString.
Import ListNotations.
Require Import FText.
Open Scope nat_scope.

(* ================================================================== numbering *)
Lemma str_eqb_eq a b : str_eqb a b = true <-> a = b.
Proof. unfold str_eqb. destruct (list_eq_dec ascii_dec a b); split; auto; discriminate. Qed.
Lemma str_eqb_neq a b : a <> b -> str_eqb a b = false.
Proof. intros H. destruct (str_eqb a b) eqn:E; auto. apply str_eqb_eq in E. contradiction. Qed.

Lemma number_of_from_notin k names x : ~ In x names -> number_of_from k names x = None.
Proof.
  revert k; induction names as [|y r IH]; intros k H; cbn [number_of_from]; auto.
  rewrite IH by (intros H1; apply H; right; exact H1).
  rewrite str_eqb_neq; auto. intros ->. apply H. left. reflexivity.
Qed.

Lemma number_index_from k names x :
  NoDup names -> number_of_from (S k) names x = option_map S (index_of_from k names x).
Proof.
  revert k; induction names as [|y r IH]; intros k Hnd; cbn [number_of_from index_of_from option_map]; auto.
  inversion Hnd as [|? ? Hy Hr]; subst.
  destruct (str_eqb x y) eqn:E.
  - apply str_eqb_eq in E. subst y. rewrite number_of_from_notin by exact Hy. reflexivity.
  - rewrite (IH (S k) Hr). destruct (index_of_from (S k) r x); reflexivity.
Qed.

Lemma index_of_from_shift k names x : index_of_from (S k) names x = option_map S (index_of_from k names x).
Proof.
  revert k; induction names as [|y r IH]; intros k; cbn [index_of_from option_map]; auto.
  destruct (str_eqb x y); auto.
Qed.

Lemma index_of_nth names x i : index_of names x = Some i -> nth_error names i = Some x.
Proof.
  unfold index_of. revert i; induction names as [|y r IH]; intros i; cbn [index_of_from]; [discriminate|].
  destruct (str_eqb x y) eqn:E.
  - intros H; inversion H; subst. apply str_eqb_eq in E. subst. reflexivity.
  - rewrite index_of_from_shift. destruct (index_of_from 0 r x) as [j|] eqn:Ej; cbn [option_map]; [|discriminate].
    intros H; inversion H; subst. cbn [nth_error]. apply IH. reflexivity.
Qed.

Lemma nth_index_of names x i : NoDup names -> nth_error names i = Some x -> index_of names x = Some i.
Proof.
  unfold index_of. revert i; induction names as [|y r IH]; intros i Hnd H; [destruct i; discriminate|].
  inversion Hnd as [|? ? Hy Hr]; subst. cbn [index_of_from]. destruct i as [|i]; cbn [nth_error] in H.
  - inversion H; subst. rewrite (proj2 (str_eqb_eq x x) eq_refl). reflexivity.
  - assert (Hin : In x r) by (eapply nth_error_In; exact H).
    rewrite str_eqb_neq by (intros ->; contradiction).
    rewrite index_of_from_shift, (IH i Hr H). reflexivity.
Qed.

(* the number written into the Fortran module for a variable = its position in the Python class's NAMES, plus one *)
Theorem numbering_matches_names endo exo par err x i :
  let names := all_names endo exo par err in
  NoDup names ->
  (number_of names x = Some (S i) <-> nth_error names i = Some x) /\ number_of names x <> Some 0.
Proof.
  intros names Hnd. unfold number_of. rewrite (number_index_from 0 names x Hnd). fold (index_of names x). split.
  - split.
    + destruct (index_of names x) as [j|] eqn:E; cbn [option_map]; [|discriminate].
      intros H; inversion H; subst. apply index_of_nth. exact E.
    + intros H. rewrite (nth_index_of names x i Hnd H). reflexivity.
  - destruct (index_of names x); cbn [option_map]; discriminate.
Qed.

(* with a repeated name the dictionary keeps the LAST number while list.index finds the FIRST position *)
Example numbering_duplicate_differs :
  number_of [lit "Y"; lit "X"; lit "Y"] (lit "Y") = Some 3 /\ index_of [lit "Y"; lit "X"; lit "Y"] (lit "Y") = Some 0.
Proof. split; reflexivity. Qed.

(* ================================================================== right-to-left splicing = one pass left to right *)
Definition render_term (n i : str) : str := n ++ "["%char :: i ++ ["]"%char].
Fixpoint render_segs (sg : list seg) (tl : str) : str :=
  match sg with [] => tl | (g, n, i) :: r => g ++ render_term n i ++ render_segs r tl end.

Lemma firstn_app_length {A} (a b : list A) : firstn (length a) (a ++ b) = a.
Proof. induction a as [|x a IH]; cbn [length firstn app]; [destruct b; reflexivity|]. f_equal. exact IH. Qed.
Lemma skipn_app_length {A} (a b : list A) : skipn (length a) (a ++ b) = b.
Proof. induction a as [|x a IH]; cbn [length skipn app]; auto. Qed.

Lemma render_term_length n i : length (render_term n i) = length n + 1 + length i + 1.
Proof. unfold render_term. rewrite app_length. cbn [length]. rewrite app_length. cbn [length]. lia. Qed.

Lemma splice_stream names : forall sg tl pre,
  fold_left (rewrite_step names) (rev (spans (length pre) sg)) (Some (pre ++ render_segs sg tl))
  = option_map (app pre) (stream names sg tl).
Proof.
  induction sg as [|[[g n] i] r IH]; intros tl pre; cbn [spans rev fold_left render_segs stream option_map].
  - reflexivity.
  - rewrite fold_left_app. cbn [fold_left].
    set (pre' := pre ++ g ++ render_term n i).
    assert (Hlen : length pre + length g + length n + 1 + length i + 1 = length pre').
    { unfold pre'. rewrite !app_length, render_term_length. lia. }
    replace (pre ++ g ++ render_term n i ++ render_segs r tl) with (pre' ++ render_segs r tl)
      by (unfold pre'; rewrite <- !app_assoc; reflexivity).
    rewrite Hlen. rewrite IH.
    destruct (stream names r tl) as [rest|]; cbn [option_map rewrite_step].
    + destruct (number_of names n) as [k|]; [|reflexivity]. cbn [option_map]. f_equal. unfold splice.
      rewrite skipn_app_length.
      replace (pre' ++ rest) with ((pre ++ g) ++ (render_term n i ++ rest))
        by (unfold pre'; rewrite <- !app_assoc; reflexivity).
      replace (length pre + length g) with (length (pre ++ g)) by (rewrite app_length; reflexivity).
      rewrite firstn_app_length. rewrite <- !app_assoc. reflexivity.
    + destruct (number_of names n); reflexivity.
Qed.

(* ---- the matcher and the scanner partition their input ---- *)
Lemma ascii_eqb_eq a b : ascii_eqb a b = true -> a = b.
Proof.
  unfold ascii_eqb, code_of. intros H. apply Nat.eqb_eq in H.
  rewrite <- (ascii_nat_embedding a), <- (ascii_nat_embedding b). congruence.
Qed.

Lemma take_drop_while p (l : str) : take_while p l ++ drop_while p l = l.
Proof. induction l as [|c r IH]; cbn [take_while drop_while]; auto. destruct (p c); cbn [app]; congruence. Qed.

Lemma find_close_spec l idx : find_close l = Some idx -> exists rest, l = idx ++ "]"%char :: rest.
Proof.
  revert idx; induction l as [|c r IH]; intros idx; cbn [find_close]; [discriminate|].
  destruct (ascii_eqb c "]") eqn:E.
  - intros H; inversion H; subst. apply ascii_eqb_eq in E. subst. exists r. reflexivity.
  - destruct (code_of c =? 10); [discriminate|].
    destruct (find_close r) as [i|]; [|discriminate]. intros H; inversion H; subst.
    destruct (IH i eq_refl) as [rest ->]. exists rest. reflexivity.
Qed.

Lemma match_here_spec l name idx len :
  match_here l = Some (name, idx, len) ->
  len = length name + 1 + length idx + 1 /\ l = render_term name idx ++ skipn len l.
Proof.
  unfold match_here. destruct l as [|c r]; [discriminate|].
  destruct (is_id_start c); [|discriminate].
  destruct (drop_while is_id_char r) as [|b r2] eqn:Ed; [discriminate|].
  destruct (ascii_eqb b "[") eqn:Eb; [|discriminate]. apply ascii_eqb_eq in Eb. subst b.
  destruct (find_close r2) as [i|] eqn:Ef; [|discriminate].
  intros H; inversion H; subst; clear H. split; [reflexivity|].
  destruct (find_close_spec _ _ Ef) as [rest ->].
  assert (Hl : c :: r = render_term (c :: take_while is_id_char r) idx ++ rest).
  { unfold render_term. cbn [app]. f_equal. rewrite <- app_assoc. cbn [app].
    rewrite <- (take_drop_while is_id_char r) at 1. rewrite Ed. rewrite <- app_assoc. reflexivity. }
  rewrite Hl at 2.
  assert (Hlen : length (c :: take_while is_id_char r) + 1 + length idx + 1
                = length (render_term (c :: take_while is_id_char r) idx))
    by (rewrite render_term_length; reflexivity).
  cbn [length Nat.add] in Hlen. rewrite Hlen. rewrite skipn_app_length. exact Hl.
Qed.

Lemma scan_render : forall fuel l sg tl, scan fuel l = (sg, tl) -> render_segs sg tl = l.
Proof.
  induction fuel as [|f IH]; intros l sg tl; cbn [scan].
  - intros H; inversion H; subst. reflexivity.
  - destruct l as [|c r]; [intros H; inversion H; subst; reflexivity|].
    destruct (match_here (c :: r)) as [[[name idx] len]|] eqn:Em.
    + destruct (scan f (skipn len (c :: r))) as [sg' tl'] eqn:Es. intros H; inversion H; subst; clear H.
      cbn [render_segs app]. rewrite (IH _ _ _ Es).
      destruct (match_here_spec _ _ _ _ Em) as [_ Hl]. symmetry. exact Hl.
    + destruct (scan f r) as [sg' tl'] eqn:Es. specialize (IH _ _ _ Es).
      destruct sg' as [|[[g n] i] sg'']; intros H; inversion H; subst; clear H; cbn [render_segs app] in *; congruence.
Qed.

(* THE CODE'S ALGORITHM (match spans taken on the original equation, replacements spliced in from the right) yields the
   one-pass rewriting: gap, rewritten term, gap, rewritten term, ..., tail *)
Theorem rewrite_is_stream names (eq : str) :
  rewrite names eq = stream names (fst (segments eq)) (snd (segments eq)).
Proof.
  unfold rewrite. destruct (segments eq) as [sg tl] eqn:Es. cbn [fst snd].
  unfold segments in Es. pose proof (scan_render _ _ _ _ Es) as Hr.
  pose proof (splice_stream names sg tl []) as H. cbn [length app] in H. rewrite Hr in H.
  etransitivity; [exact H|]. destruct (stream names sg tl); reflexivity.
Qed.

(* ================================================================== the segmentation of a well-formed equation *)
Definition no_bracket (g : str) : Prop := forall c, In c g -> ascii_eqb c "[" = false.
Definition ends_non_id (g : str) : Prop := g = [] \/ exists g' c, g = g' ++ [c] /\ is_id_char c = false.
Definition ident (n : str) : Prop := exists c r, n = c :: r /\ is_id_start c = true /\ forallb is_id_char r = true.
Definition idx_ok (i : str) : Prop := forall c, In c i -> ascii_eqb c "]" = false /\ (code_of c =? 10) = false.

Fixpoint wf_segs (sg : list seg) : Prop :=
  match sg with
  | [] => True
  | (g, n, i) :: r => no_bracket g /\ ends_non_id g /\ ident n /\ idx_ok i /\ wf_segs r
  end.

Lemma is_id_start_char c : is_id_start c = true -> is_id_char c = true.
Proof. unfold is_id_char. intros ->. reflexivity. Qed.

Lemma take_while_all p (a b : str) : forallb p a = true -> (match b with [] => True | c :: _ => p c = false end) ->
  take_while p (a ++ b) = a /\ drop_while p (a ++ b) = b.
Proof.
  induction a as [|x a IH]; cbn [forallb app take_while drop_while]; intros Ha Hb.
  - destruct b as [|c r]; cbn [take_while drop_while]; [auto|]. rewrite Hb. auto.
  - apply andb_true_iff in Ha as [Hx Ha]. rewrite Hx. destruct (IH Ha Hb) as [-> ->]. auto.
Qed.

Lemma find_close_ok i rest : idx_ok i -> find_close (i ++ "]"%char :: rest) = Some i.
Proof.
  induction i as [|c r IH]; intros H; cbn [app find_close].
  - reflexivity.
  - destruct (H c (or_introl eq_refl)) as [H1 H2]. rewrite H1, H2.
    rewrite IH; [reflexivity|]. intros c' Hc'. apply H. right. exact Hc'.
Qed.

Lemma bracket_not_id : is_id_char "["%char = false.
Proof. reflexivity. Qed.

Lemma match_here_term n i rest : ident n -> idx_ok i ->
  match_here (render_term n i ++ rest) = Some (n, i, length n + 1 + length i + 1).
Proof.
  intros (c & r & -> & Hc & Hr) Hi. unfold render_term, match_here. cbn [app]. rewrite Hc.
  rewrite <- app_assoc. cbn [app].
  destruct (take_while_all is_id_char r ("["%char :: (i ++ ["]"%char]) ++ rest) Hr bracket_not_id) as [Ht Hd].
  rewrite Ht, Hd. change (ascii_eqb "[" "[") with true. cbv iota.
  rewrite <- app_assoc. cbn [app]. rewrite (find_close_ok i rest Hi). reflexivity.
Qed.

(* inside a gap (no bracket, and not ending in an identifier character when a term follows) no match can start *)
Lemma drop_while_gap (g rest : str) :
  (exists g' c, g = g' ++ [c] /\ is_id_char c = false) ->
  exists d r, drop_while is_id_char (g ++ rest) = d :: r /\ In d g /\ is_id_char d = false.
Proof.
  intros (g' & c & -> & Hc). induction g' as [|x g' IH]; cbn [app drop_while].
  - rewrite Hc. exists c, rest. split; [reflexivity|]. split; [left; reflexivity|exact Hc].
  - destruct (is_id_char x) eqn:Ex.
    + destruct IH as (d & r & H1 & H2 & H3). exists d, r. split; [exact H1|]. split; [right; exact H2|exact H3].
    + exists x, ((g' ++ [c]) ++ rest). split; [reflexivity|]. split; [left; reflexivity|exact Ex].
Qed.

Lemma match_here_gap c g rest :
  no_bracket (c :: g) -> (exists g' c', c :: g = g' ++ [c'] /\ is_id_char c' = false) ->
  match_here ((c :: g) ++ rest) = None.
Proof.
  intros Hnb Hend. unfold match_here. cbn [app]. destruct (is_id_start c) eqn:Ec; [|reflexivity].
  assert (Hg : exists g' c', g = g' ++ [c'] /\ is_id_char c' = false).
  { destruct Hend as (g' & c' & Heq & Hc'). destruct g' as [|x g'].
    - cbn [app] in Heq. inversion Heq; subst. apply is_id_start_char in Ec. congruence.
    - cbn [app] in Heq. inversion Heq; subst. exists g', c'. auto. }
  destruct (drop_while_gap g rest Hg) as (d & r & Hd & Hin & _). rewrite Hd.
  rewrite (Hnb d (or_intror Hin)). reflexivity.
Qed.

Lemma match_here_tail (l : str) : no_bracket l -> match_here l = None.
Proof.
  intros Hnb. unfold match_here. destruct l as [|c r]; [reflexivity|]. destruct (is_id_start c); [|reflexivity].
  destruct (drop_while is_id_char r) as [|b r2] eqn:Ed; [reflexivity|].
  assert (Hin : In b r).
  { rewrite <- (take_drop_while is_id_char r), Ed. apply in_or_app. right. left. reflexivity. }
  rewrite (Hnb b (or_intror Hin)). reflexivity.
Qed.

Lemma scan_tail : forall fuel tl, no_bracket tl -> scan fuel tl = ([], tl).
Proof.
  induction fuel as [|f IH]; intros tl H; cbn [scan]; [reflexivity|].
  destruct tl as [|c r]; [reflexivity|]. rewrite (match_here_tail _ H).
  rewrite IH by (intros x Hx; apply H; right; exact Hx). reflexivity.
Qed.

Lemma scan_gap : forall g fuel rest, no_bracket g -> ends_non_id g ->
  (forall sg tl, scan fuel rest = (sg, tl) -> sg <> []) ->
  scan (length g + fuel) (g ++ rest) =
  (match fst (scan fuel rest) with (g0, n, i) :: r => (g ++ g0, n, i) :: r | [] => [] end, snd (scan fuel rest)).
Proof.
  induction g as [|c g IH]; intros fuel rest Hnb Hend Hne; cbn [length app plus].
  - destruct (scan fuel rest) as [sg tl] eqn:E. cbn [fst snd]. destruct sg as [|[[g0 n] i] r]; [exfalso; eapply Hne; eauto|reflexivity].
  - cbn [scan].
    assert (Hend' : exists g' c', c :: g = g' ++ [c'] /\ is_id_char c' = false).
    { destruct Hend as [H|H]; [discriminate|exact H]. }
    change (c :: g ++ rest) with ((c :: g) ++ rest). rewrite (match_here_gap c g rest Hnb Hend'). cbn [app].
    assert (Hnb' : no_bracket g) by (intros x Hx; apply Hnb; right; exact Hx).
    assert (Hend'' : ends_non_id g).
    { destruct Hend' as (g' & c' & Heq & Hc'). destruct g' as [|x g'].
      - cbn [app] in Heq. inversion Heq; subst. left. reflexivity.
      - cbn [app] in Heq. inversion Heq; subst. right. exists g', c'. auto. }
    rewrite (IH fuel rest Hnb' Hend'' Hne).
    destruct (scan fuel rest) as [sg tl] eqn:E. cbn [fst snd].
    destruct sg as [|[[g0 n] i] r]; [exfalso; eapply Hne; eauto|reflexivity].
Qed.

(* a well-formed equation is segmented into exactly its gaps, terms and tail *)
Lemma scan_wf : forall sg tl fuel, wf_segs sg -> no_bracket tl -> length (render_segs sg tl) <= fuel ->
  scan fuel (render_segs sg tl) = (sg, tl).
Proof.
  induction sg as [|[[g n] i] r IH]; intros tl fuel Hwf Htl Hfuel; cbn [render_segs].
  - apply scan_tail. exact Htl.
  - cbn [wf_segs] in Hwf. destruct Hwf as (Hnb & Hend & Hn & Hi & Hr).
    cbn [render_segs] in Hfuel. rewrite !app_length, render_term_length in Hfuel.
    set (rest := render_term n i ++ render_segs r tl).
    assert (Hrest : forall f, length (render_segs r tl) <= f ->
                    scan (S f) rest = (([], n, i) :: r, tl)).
    { intros f Hf. unfold rest. cbn [scan].
      destruct (render_term n i ++ render_segs r tl) as [|c0 r0] eqn:El.
      - destruct Hn as (c & r' & -> & _). unfold render_term in El. cbn [app] in El. discriminate.
      - rewrite <- El. rewrite (match_here_term n i _ Hn Hi).
        replace (length n + 1 + length i + 1) with (length (render_term n i)) by apply render_term_length.
        rewrite skipn_app_length. rewrite (IH tl f Hr Htl Hf). reflexivity. }
    destruct (Nat.le_exists_sub (length g + 1) fuel) as (f & Hf & _); [lia|].
    replace fuel with (length g + S f) by lia.
    rewrite (scan_gap g (S f) rest Hnb Hend).
    + rewrite (Hrest f) by lia. cbn [fst snd]. rewrite app_nil_r. reflexivity.
    + intros sg' tl' H. rewrite (Hrest f) in H by lia. inversion H; subst. discriminate.
Qed.

(* every term NAME[idx] of a well-formed equation becomes solved_values(number of NAME, idx with t -> index); every gap and
   the tail are copied unchanged; an unknown NAME is a KeyError *)
Theorem rewrite_terms names sg tl :
  wf_segs sg -> no_bracket tl ->
  rewrite names (render_segs sg tl) = stream names sg tl.
Proof.
  intros Hwf Htl. rewrite rewrite_is_stream. unfold segments.
  rewrite (scan_wf sg tl _ Hwf Htl (le_n _)). reflexivity.
Qed.

(* the hypotheses are met by an equation of the grammar; the result is the expected Fortran statement *)
Ltac nb_tac := let c := fresh "c" in let H := fresh "H" in
  intros c H; vm_compute in H; repeat (destruct H as [<-|H]; [reflexivity|]); destruct H.
Ltac iok_tac := let c := fresh "c" in let H := fresh "H" in
  intros c H; vm_compute in H; repeat (destruct H as [<-|H]; [split; reflexivity|]); destruct H.

Example rewrite_example :
  let names := [lit "Y"; lit "C"; lit "alpha"] in
  let sg := [([], lit "Y", lit "t"); (lit " = ", lit "alpha", lit "t"); (lit " * exp(", lit "C", lit "t-1")] in
  wf_segs sg /\ no_bracket (lit ") + 2") /\
  render_segs sg (lit ") + 2") = lit "Y[t] = alpha[t] * exp(C[t-1]) + 2" /\
  rewrite names (lit "Y[t] = alpha[t] * exp(C[t-1]) + 2")
  = Some (lit "solved_values(1, index) = solved_values(3, index) * exp(solved_values(2, index-1)) + 2").
Proof.
  cbv zeta. split; [|split; [|split]].
  - cbn [wf_segs].
    split; [nb_tac|]. split; [left; reflexivity|]. split; [exists "Y"%char, []; repeat split|]. split; [iok_tac|].
    split; [nb_tac|]. split; [right; exists (lit " ="), " "%char; split; reflexivity|].
    split; [exists "a"%char, (lit "lpha"); repeat split|]. split; [iok_tac|].
    split; [nb_tac|]. split; [right; exists (lit " * exp"), "("%char; split; reflexivity|].
    split; [exists "C"%char, []; repeat split|]. split; [iok_tac|]. exact I.
  - nb_tac.
  - reflexivity.
  - vm_compute. reflexivity.
Qed.

(* ================================================================== the index text: t -> index, t-k -> index-k, t+k -> index+k *)
Lemma replace_t_no_t (l : str) : (forall c, In c l -> ascii_eqb c "t" = false) -> replace_t l = l.
Proof.
  induction l as [|c r IH]; intros H; cbn [replace_t]; [reflexivity|].
  rewrite (H c (or_introl eq_refl)). f_equal. apply IH. intros x Hx. apply H. right. exact Hx.
Qed.

Lemma uint_digits (u : Decimal.uint) : forall c, In c (lit (NilEmpty.string_of_uint u)) -> is_digit c = true.
Proof.
  induction u as [|u IH|u IH|u IH|u IH|u IH|u IH|u IH|u IH|u IH|u IH]; intros c H; cbn [NilEmpty.string_of_uint lit list_ascii_of_string] in H;
    try (destruct H as [<-|H]; [reflexivity|apply IH; exact H]). destruct H.
Qed.

Lemma dec_digits n : forall c, In c (dec n) -> is_digit c = true.
Proof.
  unfold dec, NilZero.string_of_uint. intros c H.
  destruct (Nat.to_uint n) as [|u|u|u|u|u|u|u|u|u|u];
    [cbn in H; destruct H as [<-|[]]; reflexivity
    |exact (uint_digits (Decimal.D0 u) c H)|exact (uint_digits (Decimal.D1 u) c H)|exact (uint_digits (Decimal.D2 u) c H)
    |exact (uint_digits (Decimal.D3 u) c H)|exact (uint_digits (Decimal.D4 u) c H)|exact (uint_digits (Decimal.D5 u) c H)
    |exact (uint_digits (Decimal.D6 u) c H)|exact (uint_digits (Decimal.D7 u) c H)|exact (uint_digits (Decimal.D8 u) c H)
    |exact (uint_digits (Decimal.D9 u) c H)].
Qed.

Lemma digit_not_t c : is_digit c = true -> ascii_eqb c "t" = false.
Proof.
  unfold is_digit, ascii_eqb, code_of. intros H. apply andb_true_iff in H as [H1 H2].
  apply Nat.leb_le in H2. apply Nat.eqb_neq. change (nat_of_ascii "t") with 116. lia.
Qed.

Lemma replace_t_dec n : replace_t (dec n) = dec n.
Proof. apply replace_t_no_t. intros c H. apply digit_not_t. apply (dec_digits n). exact H. Qed.

(* str.replace('t', 'index') on the index text of a term at lag / lead k *)
Theorem replace_t_idx_text k : replace_t (idx_text k) = f_idx_text k.
Proof.
  destruct k as [|q|q]; cbn [idx_text f_idx_text].
  - reflexivity.
  - change (lit "t+" ++ dec (Pos.to_nat q)) with ("t"%char :: "+"%char :: dec (Pos.to_nat q)).
    cbn [replace_t]. change (ascii_eqb "t" "t") with true. change (ascii_eqb "+" "t") with false. cbv iota.
    rewrite replace_t_dec. reflexivity.
  - change (lit "t-" ++ dec (Pos.to_nat q)) with ("t"%char :: "-"%char :: dec (Pos.to_nat q)).
    cbn [replace_t]. change (ascii_eqb "t" "t") with true. change (ascii_eqb "-" "t") with false. cbv iota.
    rewrite replace_t_dec. reflexivity.
Qed.

(* THE TERM: `NAME[t+k]`, NAME at position i of the Python class's NAMES, is replaced by `solved_values(i+1, index+k)` *)
Theorem term_rewritten endo exo par err x i k :
  let names := all_names endo exo par err in
  NoDup names -> nth_error names i = Some x ->
  rewrite_step names (Some (render_term x (idx_text k))) (0, length (render_term x (idx_text k)), x, idx_text k)
  = Some (lit "solved_values(" ++ dec (S i) ++ lit ", " ++ f_idx_text k ++ lit ")").
Proof.
  intros names Hnd Hx. unfold rewrite_step.
  destruct (numbering_matches_names endo exo par err x i Hnd) as [[_ Hn] _]. fold names in Hn. rewrite (Hn Hx).
  unfold splice. cbn [firstn]. rewrite skipn_all. rewrite app_nil_r. cbn [app]. unfold term_f. rewrite replace_t_idx_text. reflexivity.
Qed.

(* the index text of a term is index text in the sense of wf_segs (no closing bracket, no line feed) *)
Lemma idx_text_ok k : idx_ok (idx_text k).
Proof.
  assert (Hd : forall n c, In c (dec n) -> ascii_eqb c "]" = false /\ (code_of c =? 10) = false).
  { intros n c H. pose proof (dec_digits n c H) as Hc. unfold is_digit in Hc. apply andb_true_iff in Hc as [H1 H2].
    apply Nat.leb_le in H1. apply Nat.leb_le in H2. unfold ascii_eqb. change (code_of "]") with 93.
    split; apply Nat.eqb_neq; lia. }
  destruct k as [|q|q]; intros c H; cbn [idx_text] in H.
  - destruct H as [<-|[]]. split; reflexivity.
  - change (lit "t+" ++ dec (Pos.to_nat q)) with ("t"%char :: "+"%char :: dec (Pos.to_nat q)) in H.
    destruct H as [<-|[<-|H]]; [split; reflexivity|split; reflexivity|apply (Hd _ _ H)].
  - change (lit "t-" ++ dec (Pos.to_nat q)) with ("t"%char :: "-"%char :: dec (Pos.to_nat q)) in H.
    destruct H as [<-|[<-|H]]; [split; reflexivity|split; reflexivity|apply (Hd _ _ H)].
Qed.
