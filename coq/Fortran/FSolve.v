(* FSolve.v — hand model of the state machines of fsic/fortran.py:

     t_evaluate / t_solve_t / t_solve   the three subroutines of FORTRAN_TEMPLATE (fortran.py:592-890)
     w_evaluate / w_solve_t / w_solve   FortranEngine._evaluate / solve_t / solve (fortran.py:101-528): argument passing,
                                        Python-side pre-checks, the mapping of error codes to statuses and exceptions
     py_solve                           SolverMixin.solve of the pure-Python class: a loop of Solver.solve_t_M

   The integer constants of the template's modules and the literal codes the wrapper tests are looked up in
   Gen/Generated.v (regenerated from the working tree on every check).  Definitions only; same Section parameters as
   Solver.v (generic number type). *)
From Coq Require Import ZArith List Bool String.
Import ListNotations.
Require Import PyBase Solver FSem.
Require Fsic.Gen.Generated.
Open Scope Z_scope.

(* ---- constants of the template (modules failure_codes / error_codes) ---- *)
Fixpoint zlookup (k : string) (l : list (string * Z)) : Z :=
  match l with [] => -999 | (k', v) :: r => if String.eqb k k' then v else zlookup k r end.
Definition fconst (k : string) : Z := zlookup k Generated.fortran_template_constants.

Definition c_fail_raise : Z := fconst "failure_control_raise".
Definition c_ec_raise : Z := fconst "error_control_raise".
Definition c_ec_skip : Z := fconst "error_control_skip".
Definition c_ec_ignore : Z := fconst "error_control_ignore".
Definition c_ec_replace : Z := fconst "error_control_replace".
Definition c_below : Z := fconst "index_error_below".
Definition c_above : Z := fconst "index_error_above".
Definition c_lags : Z := fconst "index_error_lags".
Definition c_leads : Z := fconst "index_error_leads".
Definition c_num_raise : Z := fconst "numerical_error_raise".
Definition c_num_skip : Z := fconst "numerical_error_skip".
Definition c_pre_existing : Z := fconst "pre_existing_non_finite_value".
Definition c_off_pre : Z := fconst "offset_predates_span".
Definition c_off_post : Z := fconst "offset_postdates_span".

(* ---- what the wrapper passes and tests (FortranEngine._ERROR_OPTIONS / _FAILURE_OPTIONS, literal codes in the source) ---- *)
Definition wopt (k : string) (l : list (string * Z)) : option Z :=
  match find (fun q => String.eqb k (fst q)) l with Some q => Some (snd q) | None => None end.
Definition w_ec (e : errmode) : option Z :=
  match e with
  | ERaise => wopt "raise" Generated.fortran_engine_error_options
  | ESkip => wopt "skip" Generated.fortran_engine_error_options
  | EIgnore => wopt "ignore" Generated.fortran_engine_error_options
  | EReplace => wopt "replace" Generated.fortran_engine_error_options
  | EInvalid => None
  end.
(* failures: 'raise' / 'ignore' are the keys of _FAILURE_OPTIONS; anything else is a KeyError in solve() *)
Inductive failmode : Type := FRaise | FIgnore | FOther.
Definition w_fc (f : failmode) : option Z :=
  match f with
  | FRaise => wopt "raise" Generated.fortran_engine_failure_options
  | FIgnore => wopt "ignore" Generated.fortran_engine_failure_options
  | FOther => None
  end.
(* literal codes tested by the wrapper, looked up by WHAT THE BRANCH DOES ("<exception raised>/<errors value required>/<status
   assigned>#<occurrence>", regenerated from the source by gen_constants.py) — the order of the elif branches does not matter *)
Definition wk (k : string) (l : list (string * Z)) : Z := zlookup k l.
Definition w_t_ok : Z := wk "//SOLVED#0" Generated.fortran_wrapper_solve_t_keyed.                       (* error_code == 0 *)
Definition w_t_raise : Z := wk "SolutionError/raise/ERROR#0" Generated.fortran_wrapper_solve_t_keyed.   (* == 21 and errors == 'raise' *)
Definition w_t_skip : Z := wk "/skip/SKIPPED#0" Generated.fortran_wrapper_solve_t_keyed.                (* == 22 and errors == 'skip' *)
Definition w_s_ok : Z := wk "//FAILED#0" Generated.fortran_wrapper_solve_keyed.                         (* not converged and error_code == 0 *)
Definition w_s_raise : Z := wk "SolutionError/raise/ERROR#0" Generated.fortran_wrapper_solve_keyed.     (* 21 *)
Definition w_s_pre : Z := wk "SolutionError/raise/#0" Generated.fortran_wrapper_solve_keyed.            (* 31 *)
(* two branches raise IndexError (41, 42): the same action, told apart only by their messages *)
Definition w_s_offpre : Z := Z.min (wk "IndexError//#0" Generated.fortran_wrapper_solve_keyed) (wk "IndexError//#1" Generated.fortran_wrapper_solve_keyed).
Definition w_s_offpost : Z := Z.max (wk "IndexError//#0" Generated.fortran_wrapper_solve_keyed) (wk "IndexError//#1" Generated.fortran_wrapper_solve_keyed).
Definition w_s_skip : Z := wk "/skip/SKIPPED#0" Generated.fortran_wrapper_solve_keyed.                  (* 22 *)
Definition w_e_index : list Z := Generated.fortran_wrapper_evaluate_index_codes.   (* (11, 12, 13, 14) -> IndexError *)
Definition w_t_index : list Z := Generated.fortran_wrapper_solve_t_index_codes.    (* the same tuple in solve_t ... *)
Definition w_s_index : list Z := Generated.fortran_wrapper_solve_index_codes.      (* ... and in solve (fix 1354783) *)

(* INTENT(OUT) `iteration` is never assigned on the early returns of solve_t; the ctypes adapter presets the cell to this
   value.  No wrapper path stores it. *)
Definition undef_iter : Z := -999.

Definition is_skip (e : errmode) : bool := match e with ESkip => true | _ => false end.

Section FSolve.
  Variable num : Type.
  Variables (sub : num -> num -> num) (absf : num -> num) (ltb : num -> num -> bool)
            (isfin : num -> bool) (zero : num).

  Notation vals := (vals num).
  Notation fread := (fread num zero).
  Notation fwrite := (fwrite num).
  Notation all_finite := (all_finite num isfin).
  Notation conv := (conv num sub absf ltb).

  (* module structure: lags, leads and the `endogenous` index array (one-based variable numbers) *)
  Record fmod := mkFmod { fm_lags : Z; fm_leads : Z; fm_endo : list Z }.

  (* the {equations} block of subroutine evaluate: (index, solved_values) -> solved_values *)
  Variable evf : Z -> vals -> vals.

  (* index = t; if (index < 1) index = index + ncols *)
  Definition t_index (ncols t : Z) : Z := if t <? 1 then t + ncols else t.
  (* the four index tests shared by evaluate and solve_t; 0 = passed *)
  Definition t_guard (fm : fmod) (ncols index : Z) : Z :=
    if index <? 1 then c_below
    else if ncols <? index then c_above
    else if index <=? fm_lags fm then c_lags
    else if ncols - fm_leads fm <? index then c_leads
    else 0.

  (* subroutine evaluate(initial_values, t, solved_values, error_code, nrows, ncols) *)
  Definition t_evaluate (fm : fmod) (v : vals) (t : Z) : vals * Z :=
    let ncols := ncols_of num v in
    let index := t_index ncols t in
    let g := t_guard fm ncols index in
    if g =? 0 then (evf index v, 0) else (v, g).

  Record fout := mkFout { fo_vals : vals; fo_conv : bool; fo_iter : Z; fo_code : Z }.

  Definition col_of (v : vals) (rows : list Z) (index : Z) : list num := map (fun r => fread v r index) rows.
  (* solved_values(endogenous, index) = solved_values(endogenous, offset_location) *)
  Definition t_copy (fm : fmod) (v : vals) (index loc : Z) : vals :=
    fold_left (fun v r => fwrite v r index (fread v r loc)) (fm_endo fm) v.
  (* do i = 1, size(endogenous): if not finite then solved_values(endogenous(i), index) = 0.0 *)
  Definition t_zero (fm : fmod) (v : vals) (index : Z) : vals :=
    fold_left (fun v r => if isfin (fread v r index) then v else fwrite v r index zero) (fm_endo fm) v.

  (* do iteration = k, max_iter  (n = trips left; `code` = error_code as it stands on entry) *)
  Fixpoint t_loop (fm : fmod) (ec min_it max_it : Z) (tl : num) (cv : list Z) (index : Z)
           (n : nat) (k : Z) (v : vals) (cur : list num) (code : Z) : fout :=
    match n with
    | O => mkFout v false (k - 1) code                      (* loop exhausted: iteration = iteration - 1 *)
    | S n' =>
        let prev := cur in
        let '(v', c') := t_evaluate fm v index in
        let cur' := col_of v' cv index in
        if negb (c' =? 0) then mkFout v' false k c' else
        let rest := fun (w : vals) => t_loop fm ec min_it max_it tl cv index n' (k + 1) w cur' c' in
        let judge :=
          if k <? min_it then rest v'
          else if conv tl cur' prev then mkFout v' true k c'
          else rest v' in
        if negb (all_finite (col_of v' (fm_endo fm) index)) then
          if ec =? c_ec_raise then mkFout v' false k c_num_raise
          else if ec =? c_ec_skip then mkFout v' false k c_num_skip
          else if ec =? c_ec_ignore then rest v'
          else if ec =? c_ec_replace then rest (if k <? max_it then t_zero fm v' index else v')
          else judge
        else judge
    end.

  (* subroutine solve_t *)
  Definition t_solve_t (fm : fmod) (v : vals) (t min_it max_it : Z) (tl : num) (offset : Z) (cv : list Z) (ec : Z) : fout :=
    let ncols := ncols_of num v in
    let index := t_index ncols t in
    let g := t_guard fm ncols index in
    if negb (g =? 0) then mkFout v false undef_iter g else
    let pre : vals + Z :=
      if offset =? 0 then inl v
      else let loc := index + offset in
           if loc <? 1 then inr c_off_pre
           else if ncols <? loc then inr c_off_post
           else inl (t_copy fm v index loc) in
    match pre with
    | inr c => mkFout v false undef_iter c
    | inl v0 =>
        let cur := col_of v0 cv index in
        if (ec =? c_ec_raise) && negb (all_finite cur) then mkFout v0 false undef_iter c_pre_existing
        else t_loop fm ec min_it max_it tl cv index (Z.to_nat max_it) 1 v0 cur 0       (* error_code = 0 before the DO loop (fix 131915c) *)
    end.

  (* subroutine solve: per-period results (converged, iteration, error_code); entries of periods never reached stay
     (.false., -1, -1) *)
  Fixpoint t_solve_loop (fm : fmod) (v : vals) (ts : list Z) (min_it max_it : Z) (tl : num) (offset : Z) (cv : list Z)
           (fc ec : Z) : vals * list (bool * Z * Z) :=
    match ts with
    | [] => (v, [])
    | t :: r =>
        let o := t_solve_t fm v t min_it max_it tl offset cv ec in
        let stop := if fo_code o =? 0 then negb (fo_conv o) && (fc =? c_fail_raise)
                    else if (c_below <=? fo_code o) && (fo_code o <=? c_leads) then true        (* indexing errors always stop (fix 1354783) *)
                    else if (fo_code o =? c_off_pre) || (fo_code o =? c_off_post) then true     (* so does an offset outside the span (fix b027373) *)
                    else ec =? c_ec_raise in
        let here := ((fo_code o =? 0) && fo_conv o, fo_iter o, fo_code o) in
        if stop then (fo_vals o, here :: map (fun _ => (false, -1, -1)) r)
        else let '(v', l) := t_solve_loop fm (fo_vals o) r min_it max_it tl offset cv fc ec in (v', here :: l)
    end.

  (* ------------------------------------------------------------------ the Python wrapper *)
  Notation mstate := (mstate num).
  Notation opts := (opts num).

  Definition stampz (s : mstate) (v : vals) (p : nat) (x : st) (k : Z) : mstate :=
    mkState v (upd p x (status s)) (upd p k (iters s)) (log s).
  Definition setvals (s : mstate) (v : vals) : mstate := mkState v (status s) (iters s) (log s).

  Definition cv_of (d : mdesc) : list Z := map (fun i => Z.of_nat i + 1) (check d).   (* names.index(x) + 1 *)

  (* FortranEngine._evaluate(t) *)
  Definition w_evaluate (fm : fmod) (t : Z) (s : mstate) : mstate * outcome unit :=
    let '(v', c) := t_evaluate fm (vals_of s) (t + 1) in
    if c =? 0 then (setvals s v', Ret tt)
    else if existsb (Z.eqb c) w_e_index then (s, Raise IndexError)
    else (s, Raise (SolutionError None)).

  (* FortranEngine.solve_t(t, ...) *)
  Definition w_solve_t (fm : fmod) (d : mdesc) (o : opts) (t : Z) (s : mstate) : mstate * outcome bool :=
    if max_iter o <? min_iter o then (s, Raise ValueError) else
    match w_ec (errors o) with
    | None => (s, Raise ValueError)                         (* errors not in _ERROR_OPTIONS *)
    | Some ec =>
      let n := List.length (status s) in
      match py_pos n t with
      | None => (s, Raise IndexError)                       (* t outside the span: NumPy's IndexError (outside every property's scope) *)
      | Some p =>
        (* a period without room for the instance's lags / leads: IndexError before anything is copied (fix 1354783) *)
        if negb (feasible d n p) then (s, Raise IndexError) else
        let pre : vals + exn :=
          if offset o =? 0 then inl (vals_of s)
          else let q := Z.of_nat p + offset o in
               if q <? 0 then inr IndexError
               else if Z.of_nat n <=? q then inr IndexError
               else inl (copy_endo num zero d (vals_of s) p (Z.to_nat q)) in     (* copied by the wrapper, in Python *)
        match pre with
        | inr e => (s, Raise e)
        | inl v0 =>
          let cur := get_check num zero d v0 p in
          if is_raise (errors o) && negb (all_finite cur)
          then (setvals s v0, Raise (SolutionError None))
          else
            let r := t_solve_t fm v0 (t + 1) (min_iter o) (max_iter o) (tol o) (offset o) (cv_of d) ec in
            let s1 := setvals s (fo_vals r) in                                   (* self.values = solved_values *)
            if fo_code r =? w_t_ok then
              let x := if fo_conv r then Solved else Failed in
              let s2 := stampz s (fo_vals r) p x (fo_iter r) in
              if st_eqb x Failed && fail_raise o then (s2, Raise NonConvergenceError)
              else (s2, Ret (st_eqb x Solved))
            else if (fo_code r =? w_t_raise) && is_raise (errors o)
            then (stampz s (fo_vals r) p ErrorSt (fo_iter r), Raise (SolutionError None))
            else if (fo_code r =? w_t_skip) && is_skip (errors o)
            then (stampz s (fo_vals r) p Skipped (fo_iter r), Ret false)
            else if existsb (Z.eqb (fo_code r)) w_t_index then (s1, Raise IndexError)        (* compiled lags / leads larger than the instance's *)
            else (s1, Raise FortranEngineError)
        end
      end
    end.

  (* the result loop of FortranEngine.solve: positions, (converged, iteration, error_code) per period *)
  Fixpoint w_results (o : opts) (fr : bool) (ps : list nat) (rs : list (bool * Z * Z)) (s : mstate) (acc : list bool)
    : mstate * outcome (list bool) :=
    match ps, rs with
    | p :: ps', (cvg, it, c) :: rs' =>
        if cvg then w_results o fr ps' rs' (stampz s (vals_of s) p Solved it) (acc ++ [true])
        else if c =? w_s_ok then
          let s' := stampz s (vals_of s) p Failed it in
          if fr then (s', Raise NonConvergenceError) else w_results o fr ps' rs' s' (acc ++ [false])
        else if (c =? w_s_raise) && is_raise (errors o) then (stampz s (vals_of s) p ErrorSt it, Raise (SolutionError None))
        else if (c =? w_s_pre) && is_raise (errors o) then (s, Raise (SolutionError None))
        else if c =? w_s_offpre then (s, Raise IndexError)
        else if c =? w_s_offpost then (s, Raise IndexError)
        else if (c =? w_s_skip) && is_skip (errors o) then w_results o fr ps' rs' (stampz s (vals_of s) p Skipped it) (acc ++ [false])
        else if existsb (Z.eqb c) w_s_index then (s, Raise IndexError)
        else (s, Raise FortranEngineError)
    | _, _ => (s, Ret acc)
    end.

  (* the periods of solve(start=, end=): a label GIVEN by the caller has been looked up (Some position; the lookup itself is the
     subject of C05); the defaults are positions already — `lags` and `len(span) - 1 - leads` of the instance — with IndexError
     when the span is too short for them (SolverMixin.iter_periods since 7cd6323, FortranEngine.solve since 084a032) *)
  Definition sel_positions (d : mdesc) (n : nat) (start stop : option nat) : list nat + exn :=
    match (match start with Some a => inl a | None => if (n <=? lags d)%nat then inr IndexError else inl (lags d) end) with
    | inr e => inr e
    | inl a =>
        match (match stop with Some b => inl b | None => if (n <=? leads d)%nat then inr IndexError else inl (n - 1 - leads d)%nat end) with
        | inr e => inr e
        | inl b => inl (seq a (S b - a))
        end
    end.

  (* FortranEngine.solve(start=, end=, ...) once start / end have been located: ps = the positions start..end *)
  Definition w_solve (fm : fmod) (d : mdesc) (o : opts) (fl : failmode) (ps : list nat) (s : mstate)
    : mstate * outcome (list bool) :=
    if max_iter o <? min_iter o then (s, Raise ValueError) else
    match w_fc fl, w_ec (errors o) with
    | Some fc, Some ec =>
        let '(v', rs) := t_solve_loop fm (vals_of s) (map (fun p => Z.of_nat p + 1) ps)
                                      (min_iter o) (max_iter o) (tol o) (offset o) (cv_of d) fc ec in
        w_results o (match fl with FRaise => true | _ => false end) ps rs (setvals s v') []
    | _, _ => (s, Raise KeyError)                          (* self._FAILURE_OPTIONS[failures] / self._ERROR_OPTIONS[errors] *)
    end.

  Definition w_solve_se (fm : fmod) (d : mdesc) (o : opts) (fl : failmode) (start stop : option nat) (s : mstate)
    : mstate * outcome (list bool) :=
    if max_iter o <? min_iter o then (s, Raise ValueError) else
    if (List.length (status s) =? 0)%nat then (s, Raise (SolutionError None)) else       (* `span` is empty (fix e0867c1) *)
    match sel_positions d (List.length (status s)) start stop with
    | inr e => (s, Raise e)
    | inl ps => w_solve fm d o fl ps s
    end.

  (* ------------------------------------------------------------------ the pure-Python class: SolverMixin.solve *)
  Variables (ev before after : hook num).
  Notation solve_t_M := (solve_t_M num sub absf ltb isfin zero ev before after).

  Fixpoint py_solve_loop (d : mdesc) (o : opts) (ps : list nat) (s : mstate) (acc : list bool) : mstate * outcome (list bool) :=
    match ps with
    | [] => (s, Ret acc)
    | p :: r =>
        match solve_t_M d o (Z.of_nat p) s with
        | (s', Ret b) => py_solve_loop d o r s' (acc ++ [b])
        | (s', Raise e) => (s', Raise e)
        end
    end.
  Definition py_solve (d : mdesc) (o : opts) (ps : list nat) (s : mstate) : mstate * outcome (list bool) :=
    if max_iter o <? min_iter o then (s, Raise ValueError) else py_solve_loop d o ps s [].
  Definition py_solve_se (d : mdesc) (o : opts) (start stop : option nat) (s : mstate) : mstate * outcome (list bool) :=
    if max_iter o <? min_iter o then (s, Raise ValueError) else
    if (List.length (status s) =? 0)%nat then (s, Raise (SolutionError None)) else       (* iter_periods: `span` is empty *)
    match sel_positions d (List.length (status s)) start stop with
    | inr e => (s, Raise e)
    | inl ps => py_solve d o ps s
    end.

End FSolve.

Arguments mkFout {num}. Arguments fo_vals {num}. Arguments fo_conv {num}. Arguments fo_iter {num}. Arguments fo_code {num}.
