(* FSolveAllG.v — FortranEngine.solve refines SolverMixin.solve beyond the finite regime: periods that end 'E' (numerical
   error under errors='raise'), 'S' (errors='skip'), with pre-existing non-finite check values, or with an offset that leaves
   the span (whatever `errors` is, fix b027373), besides the '.' / 'F' periods of FSolveAll.v.  Hypotheses are asked of a period
   only if the solve reaches it. *)
From Coq Require Import ZArith List Bool Lia ZifyBool.
Import ListNotations.
Require Import PyBase Solver SolverFacts FSem FSolve FSolveFacts FSolveSim FSolveRun FShapeFacts FSolveAll.
Open Scope Z_scope.

Section SolveAllG.
  Variable num : Type.
  Variables (sub : num -> num -> num) (absf : num -> num) (ltb : num -> num -> bool)
            (isfin : num -> bool) (zero : num).
  Variable evf : Z -> vals num -> vals num.
  Variable ev : hook num.

  Notation vals := (vals num).
  Notation all_finite := (all_finite num isfin).
  Notation get_check := (get_check num zero).
  Notation t_solve_t := (t_solve_t num sub absf ltb isfin zero evf).
  Notation t_solve_loop := (t_solve_loop num sub absf ltb isfin zero evf).
  Notation w_solve := (w_solve num sub absf ltb isfin zero evf).
  Notation w_results := (w_results num).
  Notation solve_t_M := (solve_t_M num sub absf ltb isfin zero ev (no_hook num) (no_hook num)).
  Notation py_solve := (py_solve num sub absf ltb isfin zero ev (no_hook num) (no_hook num)).
  Notation py_solve_loop := (py_solve_loop num sub absf ltb isfin zero ev (no_hook num) (no_hook num)).
  Notation loop := (Solver.loop num sub absf ltb isfin zero ev (no_hook num)).
  Notation seeded := (seeded num zero).
  Notation iterv := (iterv num evf).
  Notation chk := (chk num zero evf).

  Variables (fm : fmod) (d : mdesc) (o : opts num) (n m : nat) (ec fc : Z) (fl : failmode).
  Hypothesis Hm : (0 < m)%nat.
  Hypothesis Hchk : rows_ok m (check d).
  Hypothesis Hend : rows_ok m (endo d).
  Hypothesis Hfe : fm_endo fm = endo_nums d.
  Hypothesis Hfl : fm_lags fm = Z.of_nat (lags d).
  Hypothesis Hfd : fm_leads fm = Z.of_nat (leads d).
  Hypothesis Hmm : min_iter o <= max_iter o.
  Hypothesis Hshape : forall idx v, shape n m v -> shape n m (evf idx v).
  Hypothesis Hec : w_ec (errors o) = Some ec.
  Hypothesis Hfc : w_fc fl = Some fc.
  Hypothesis Hfr : fail_raise o = match fl with FRaise => true | _ => false end.

  Notation N := (Z.to_nat (max_iter o)).
  Notation period_args := (period_args num sub absf ltb isfin zero evf fm d o ec).

  Definition off_ok (p : nat) : Prop := offset o = 0 \/ 0 <= Z.of_nat p + offset o < Z.of_nat n.

  (* the four ways a period can go *)
  (* 1. the passes that run stay finite (FSolveRun.run_ok): '.' or 'F' *)
  Definition sc_run (p : nat) (v : vals) : Prop :=
    off_ok p /\ all_finite (get_check d (seeded d o v p) p) = true /\
    run_ok num sub absf ltb isfin zero evf ev d o (Z.of_nat p) p (seeded d o v p) N 0.
  (* 2. the regime of FSolveSim (non-finite passes allowed): '.', 'F', 'S' or 'E' *)
  Definition sc_regime (p : nat) (v : vals) : Prop :=
    off_ok p /\
    (forall i k, (i < N)%nat -> ev (Z.of_nat p) (errors o) (catch_first o) k (iterv p (seeded d o v p) i)
                              = (evf (Z.of_nat p + 1) (iterv p (seeded d o v p) i), None)) /\
    regime_from num sub absf ltb isfin zero evf d o p (seeded d o v p) 0 N.
  (* 3. pre-existing non-finite check values under errors='raise' *)
  Definition sc_pre (p : nat) (v : vals) : Prop :=
    off_ok p /\ errors o = ERaise /\ all_finite (get_check d (seeded d o v p) p) = false.
  (* 4. the offset leaves the span: IndexError from both, nothing copied, whatever `errors` is (fix b027373) *)
  Definition sc_off (p : nat) : Prop :=
    offset o <> 0 /\ (Z.of_nat p + offset o < 0 \/ Z.of_nat n <= Z.of_nat p + offset o).

  (* 5. the period has no room for the lags / leads: IndexError from both, whatever the options (fix 1354783) *)
  Definition period_okG (p : nat) (v : vals) : Prop :=
    (p < n)%nat /\
    (feasible d n p = false \/ (feasible d n p = true /\ (sc_run p v \/ sc_regime p v \/ sc_pre p v \/ sc_off p))).

  (* whether the template's solve loop stops after this period *)
  Definition stops (r : fout num) : bool :=
    if fo_code r =? 0 then negb (fo_conv r) && fail_raise o
    else if (c_below <=? fo_code r) && (fo_code r <=? c_leads) then true
    else if (fo_code r =? c_off_pre) || (fo_code r =? c_off_post) then true
    else is_raise (errors o).

  (* every period the solve reaches, on the store the previous ones leave *)
  Fixpoint solve_okG (ps : list nat) (v : vals) : Prop :=
    match ps with
    | [] => True
    | p :: r => period_okG p v /\ (if stops (period_args p v) then True else solve_okG r (fo_vals (period_args p v)))
    end.

  (* ---- what one period produces on both sides ---- *)
  Definition PR (p : nat) (v : vals) (st : list Solver.st) (it : list Z) (lg : list event) : Prop :=
    (exists v' b k lg',
        period_args p v = mkFout v' b (Z.of_nat k) 0 /\
        solve_t_M d o (Z.of_nat p) (mkState v st it lg) =
        (mkState v' (upd p (if b then Solved else Failed) st) (upd p (Z.of_nat k) it) lg',
         if b then Ret true else if fail_raise o then Raise NonConvergenceError else Ret false))
    \/ (errors o = ESkip /\ exists v' k lg',
        period_args p v = mkFout v' false (Z.of_nat k) c_num_skip /\
        solve_t_M d o (Z.of_nat p) (mkState v st it lg) = (mkState v' (upd p Skipped st) (upd p (Z.of_nat k) it) lg', Ret false))
    \/ (errors o = ERaise /\ exists v' k lg',
        period_args p v = mkFout v' false (Z.of_nat k) c_num_raise /\
        solve_t_M d o (Z.of_nat p) (mkState v st it lg) =
        (mkState v' (upd p ErrorSt st) (upd p (Z.of_nat k) it) lg', Raise (SolutionError None)))
    \/ (errors o = ERaise /\ exists v' x,
        period_args p v = mkFout v' false x c_pre_existing /\
        solve_t_M d o (Z.of_nat p) (mkState v st it lg) = (mkState v' st it lg, Raise (SolutionError None)))
    \/ (exists x c, (c = c_off_pre \/ c = c_off_post) /\
        period_args p v = mkFout v false x c /\
        solve_t_M d o (Z.of_nat p) (mkState v st it lg) = (mkState v st it lg, Raise IndexError))
    \/ (exists x c, (c = c_lags \/ c = c_leads) /\
        period_args p v = mkFout v false x c /\
        solve_t_M d o (Z.of_nat p) (mkState v st it lg) = (mkState v st it lg, Raise IndexError)).

  Lemma ec_raise_iffG : (ec =? c_ec_raise) = is_raise (errors o).
  Proof. destruct (errors o); vm_compute in Hec; inversion Hec; reflexivity. Qed.

  Lemma pre_eq p (v : vals) : off_ok p ->
    (if offset o =? 0 then @inl vals exn v
     else if Z.of_nat p + offset o <? 0 then inr IndexError
          else if Z.of_nat n <=? Z.of_nat p + offset o then inr IndexError
               else inl (copy_endo num zero d v p (Z.to_nat (Z.of_nat p + offset o)))) = inl (seeded d o v p).
  Proof.
    intros Hoff. unfold FSolveSim.seeded. destruct (offset o =? 0) eqn:Eo; [reflexivity|].
    replace (Z.of_nat p + offset o <? 0) with false by (unfold off_ok in Hoff; lia).
    replace (Z.of_nat n <=? Z.of_nat p + offset o) with false by (unfold off_ok in Hoff; lia). reflexivity.
  Qed.

  Lemma guard0 p : (p < n)%nat -> feasible d n p = true -> t_guard fm (Z.of_nat n) (Z.of_nat p + 1) = 0.
  Proof. intros Hp Hf. rewrite (t_guard_feasible fm d n p Hfl Hfd Hp), Hf. reflexivity. Qed.

  Lemma py_head p (v : vals) st it lg : (p < n)%nat -> length st = n -> feasible d n p = true ->
    solve_t_M d o (Z.of_nat p) (mkState v st it lg) =
    (let pre : vals + exn :=
       if offset o =? 0 then inl v
       else if Z.of_nat p + offset o <? 0 then inr IndexError
            else if Z.of_nat n <=? Z.of_nat p + offset o then inr IndexError
                 else inl (copy_endo num zero d v p (Z.to_nat (Z.of_nat p + offset o))) in
     match pre with
     | inr e => (mkState v st it lg, Raise e)
     | inl v0 =>
         if is_raise (errors o) && negb (all_finite (get_check d v0 p))
         then (mkState v0 st it lg, Raise (SolutionError None))
         else finish num o (mkState v st it lg) p
                (loop d o (Z.of_nat p) p N 1 v0 (get_check d v0 p) (lg ++ [EvBefore (Z.of_nat p)]))
     end).
  Proof.
    intros Hp Hlen Hfeas. assert (Hlt : (max_iter o <? min_iter o) = false) by lia.
    unfold Solver.solve_t_M. cbn [status vals_of log iters]. rewrite Hlt, Hlen.
    rewrite (py_pos_nonneg n (Z.of_nat p)) by lia. rewrite Nat2Z.id, Hfeas. cbn [negb]. reflexivity.
  Qed.

  Lemma period_cases p (v : vals) st it lg :
    shape n m v -> length st = n -> period_okG p v -> PR p v st it lg.
  Proof.
    intros Hs Hlen (Hp & [Hinf|(Hfeas & Hsc)]).
    { (* no room for the lags / leads *)
      do 5 right. exists undef_iter, (if (p <? lags d)%nat then c_lags else c_leads). split; [|split].
      - destruct (p <? lags d)%nat; [left|right]; reflexivity.
      - unfold FSolveAll.period_args, FSolve.t_solve_t. rewrite (shape_ncols num n m v Hs Hm), t_index_idem.
        rewrite (t_guard_feasible fm d n p Hfl Hfd Hp), Hinf. destruct (p <? lags d)%nat; reflexivity.
      - assert (Hlt : (max_iter o <? min_iter o) = false) by lia.
        unfold Solver.solve_t_M. cbn [status vals_of log iters]. rewrite Hlt, Hlen.
        rewrite (py_pos_nonneg n (Z.of_nat p)) by lia. rewrite Nat2Z.id, Hinf. reflexivity. }
    pose proof (guard0 p Hp Hfeas) as Hg.
    destruct Hsc as [Hrun|[Hreg|[Hpre|Hoffs]]].
    - (* finite run: FSolveAll.period_spec *)
      left. destruct Hrun as (Hoff & Hf0 & Hrun).
      destruct (period_spec num sub absf ltb isfin zero evf ev fm d o n m ec fl Hm Hchk Hend Hfe Hfl Hfd Hmm Hshape Hec Hfr
                  p v st it lg Hs Hlen (conj Hp (conj Hfeas (conj Hoff (conj Hf0 Hrun))))) as (v' & b & k & lg' & H1 & _ & H2).
      exists v', b, k, lg'. split; assumption.
    - (* the regime *)
      destruct Hreg as (Hoff & Hev & Hreg).
      set (v0 := seeded d o v p) in *.
      assert (Hs0 : shape n m v0) by (apply seeded_shape; exact Hs).
      assert (Haft : forall em cf k w, no_hook num (Z.of_nat p) em cf k w = (w, None)) by reflexivity.
      assert (Hnf : is_raise (errors o) && negb (all_finite (get_check d v0 p)) = false).
      { destruct Hreg as (_ & R2 & _). destruct (errors o) eqn:E; try reflexivity.
        cbn [is_raise andb]. unfold FSolveSim.chk in R2. cbn [FSolveSim.iterv] in R2. rewrite R2 by (left; reflexivity). reflexivity. }
      pose proof (sim num sub absf ltb isfin zero evf ev (no_hook num) fm d o (Z.of_nat p) p n m ec v0 N Hev Haft
                    (Hshape (Z.of_nat p + 1)) Hp Hm Hg Hchk Hend Hfe Hec N 0%nat (lg ++ [EvBefore (Z.of_nat p)]) 0
                    ltac:(lia) Hs0 Hreg) as Hsim.
      pose proof (loop_results num sub absf ltb isfin zero evf ev (no_hook num) d o (Z.of_nat p) p n m ec v0 N Hev Haft Hp Hm Hec
                    N 0%nat (lg ++ [EvBefore (Z.of_nat p)]) ltac:(lia) Hreg) as Hres.
      cbn [FSolveSim.iterv] in Hsim, Hres. unfold FSolveSim.chk in Hsim, Hres. cbn [FSolveSim.iterv] in Hsim, Hres.
      change (Z.of_nat 1) with 1 in Hsim.
      rewrite fo_of_code0 in Hsim.
      assert (Hpa : period_args p v = fo_of num (loop d o (Z.of_nat p) p N 1 v0 (get_check d v0 p) (lg ++ [EvBefore (Z.of_nat p)])) false 0).
      { unfold FSolveAll.period_args.
        rewrite (t_solve_t_spec num sub absf ltb isfin zero evf fm d o (Z.of_nat p + 1) p n m ec v Hs Hm Hp Hchk Hend Hfe
                   (t_index_idem n p) Hg Hoff).
        fold v0. rewrite ec_raise_iffG, Hnf. exact Hsim. }
      unfold PR. rewrite Hpa. rewrite (py_head p v st it lg Hp Hlen Hfeas). cbv zeta. rewrite (pre_eq p v Hoff). fold v0. rewrite Hnf.
      remember (loop d o (Z.of_nat p) p N 1 v0 (get_check d v0 p) (lg ++ [EvBefore (Z.of_nat p)])) as r eqn:Er.
      destruct Hres as [v' k lg'|v' k lg'|v' k lg' He|v' k lg' He|v' lg' He]; cbn [fo_of finish stamp status iters vals_of].
      + left. exists v', true, k, lg'. split; reflexivity.
      + left. exists v', false, k, lg'. split; [reflexivity|]. cbn [st_eqb andb]. destruct (fail_raise o); reflexivity.
      + right. left. split; [exact He|]. exists v', k, lg'. split; reflexivity.
      + right. right. left. split; [exact He|]. exists v', k, lg'. split; reflexivity.
      + rewrite He in Hec. vm_compute in Hec. discriminate.
    - (* pre-existing non-finite value *)
      destruct Hpre as (Hoff & Her & Hnf).
      right. right. right. left. split; [exact Her|]. exists (seeded d o v p), undef_iter. split.
      + unfold FSolveAll.period_args.
        rewrite (t_solve_t_spec num sub absf ltb isfin zero evf fm d o (Z.of_nat p + 1) p n m ec v Hs Hm Hp Hchk Hend Hfe
                   (t_index_idem n p) Hg Hoff).
        rewrite ec_raise_iffG, Her, Hnf. reflexivity.
      + rewrite (py_head p v st it lg Hp Hlen Hfeas). cbv zeta. rewrite (pre_eq p v Hoff). rewrite Her, Hnf. reflexivity.
    - (* offset outside the span *)
      destruct Hoffs as (Hne & Hout).
      right. right. right. right. left.
      exists undef_iter, (if Z.of_nat p + 1 + offset o <? 1 then c_off_pre else c_off_post). split; [|split].
      + destruct (Z.of_nat p + 1 + offset o <? 1); [left|right]; reflexivity.
      + unfold FSolveAll.period_args, FSolve.t_solve_t. rewrite (shape_ncols num n m v Hs Hm), t_index_idem, Hg.
        change (negb (0 =? 0)) with false. cbv iota. replace (offset o =? 0) with false by lia.
        destruct (Z.of_nat p + 1 + offset o <? 1) eqn:E1; [reflexivity|].
        replace (Z.of_nat n <? Z.of_nat p + 1 + offset o) with true by lia. reflexivity.
      + rewrite (py_head p v st it lg Hp Hlen Hfeas). cbv zeta. replace (offset o =? 0) with false by lia.
        destruct (Z.of_nat p + offset o <? 0) eqn:E1; [reflexivity|].
        replace (Z.of_nat n <=? Z.of_nat p + offset o) with true by lia. reflexivity.
  Qed.

  Lemma fc_raise_iffG : (fc =? c_fail_raise) = fail_raise o.
  Proof. rewrite Hfr. destruct fl; vm_compute in Hfc; inversion Hfc; reflexivity. Qed.

  Lemma stops_spec (r : fout num) :
    (if fo_code r =? 0 then negb (fo_conv r) && (fc =? c_fail_raise)
     else if (c_below <=? fo_code r) && (fo_code r <=? c_leads) then true
     else if (fo_code r =? c_off_pre) || (fo_code r =? c_off_post) then true else ec =? c_ec_raise) = stops r.
  Proof. unfold stops. rewrite fc_raise_iffG, ec_raise_iffG. reflexivity. Qed.

  (* the two loops, from any intermediate point *)
  Lemma solve_simG : forall ps (v : vals) st it lgF lgP acc,
    shape n m v -> length st = n -> solve_okG ps v ->
    let '(v', rs) := t_solve_loop fm v (map (fun p => Z.of_nat p + 1) ps) (min_iter o) (max_iter o) (tol o) (offset o)
                                  (cv_of d) fc ec in
    agree num (w_results o (match fl with FRaise => true | _ => false end) ps rs (mkState v' st it lgF) acc)
              (py_solve_loop d o ps (mkState v st it lgP) acc).
  Proof.
    destruct wrapper_codes as (_ & _ & _ & Ws & Wr & Wp & Wop & Woq & Wsk & _).
    destruct template_codes as (_ & _ & _ & _ & _ & _ & _ & _ & _ & Cnr & Cns & Cpe & Cop & Coq).
    induction ps as [|p r IH]; intros v st it lgF lgP acc Hs Hlen Hok.
    - cbn [map FSolve.t_solve_loop FSolve.w_results FSolve.py_solve_loop]. split; [reflexivity|]. repeat split.
    - cbn [solve_okG] in Hok. destruct Hok as [Hp Hr].
      pose proof (period_cases p v st it lgP Hs Hlen Hp) as Hpr.
      pose proof (t_solve_t_shape num sub absf ltb isfin zero evf n m Hshape fm v (Z.of_nat p + 1) (min_iter o) (max_iter o) (tol o)
                    (offset o) (cv_of d) ec Hs) as Hs1.
      cbn [map FSolve.t_solve_loop FSolve.py_solve_loop]. fold (period_args p v) in *.
      rewrite (stops_spec (period_args p v)).
      destruct Hpr as [(v1 & b & k & lg' & Hpa & Hpy)|[(He & v1 & k & lg' & Hpa & Hpy)|[(He & v1 & k & lg' & Hpa & Hpy)|
                       [(He & v1 & x & Hpa & Hpy)|[(x & c & Hc & Hpa & Hpy)|(x & c & Hc & Hpa & Hpy)]]]]];
        rewrite Hpa in *; rewrite Hpy; unfold stops in *; cbn [fo_code fo_conv fo_iter fo_vals] in *.
      + (* '.' or 'F' *)
        change (0 =? 0) with true in *. cbv iota in *.
        assert (Hlen1 : length (upd p (if b then Solved else Failed) st) = n) by (rewrite upd_length; exact Hlen).
        destruct b; cbn [negb andb] in *.
        * specialize (IH v1 (upd p Solved st) (upd p (Z.of_nat k) it) lgF lg' (acc ++ [true]) Hs1 Hlen1 Hr).
          destruct (t_solve_loop fm v1 (map (fun p0 => Z.of_nat p0 + 1) r) (min_iter o) (max_iter o) (tol o) (offset o) (cv_of d) fc ec)
            as [v' rs]. cbn [FSolve.w_results]. unfold stampz. cbn [vals_of status iters log]. exact IH.
        * destruct (fail_raise o) eqn:Efr.
          -- cbn [FSolve.w_results]. rewrite Ws. change (0 =? 0) with true. cbv iota. rewrite <- Hfr.
             unfold stampz. cbn [vals_of status iters log fst snd]. split; [reflexivity|]. repeat split.
          -- specialize (IH v1 (upd p Failed st) (upd p (Z.of_nat k) it) lgF lg' (acc ++ [false]) Hs1 Hlen1 Hr).
             destruct (t_solve_loop fm v1 (map (fun p0 => Z.of_nat p0 + 1) r) (min_iter o) (max_iter o) (tol o) (offset o) (cv_of d) fc ec)
               as [v' rs]. cbn [FSolve.w_results]. rewrite Ws. change (0 =? 0) with true. cbv iota. rewrite <- Hfr. rewrite <- Hfr in IH.
             unfold stampz. cbn [vals_of status iters log]. exact IH.
      + (* 'S' *)
        rewrite Cns in *. change (22 =? 0) with false in *. cbv iota in *. rewrite He in *. cbn [is_raise] in *.
        assert (Hlen1 : length (upd p Skipped st) = n) by (rewrite upd_length; exact Hlen).
        specialize (IH v1 (upd p Skipped st) (upd p (Z.of_nat k) it) lgF lg' (acc ++ [false]) Hs1 Hlen1 Hr).
        destruct (t_solve_loop fm v1 (map (fun p0 => Z.of_nat p0 + 1) r) (min_iter o) (max_iter o) (tol o) (offset o) (cv_of d) fc ec)
          as [v' rs]. cbn [FSolve.w_results]. rewrite Ws, Wr, Wp, Wop, Woq, Wsk.
        change (22 =? 0) with false. change (22 =? 21) with false. change (22 =? 31) with false. change (22 =? 41) with false.
        change (22 =? 42) with false. change (22 =? 22) with true. rewrite He. cbn [andb is_raise is_skip].
        unfold stampz. cbn [vals_of status iters log]. exact IH.
      + (* 'E' *)
        rewrite Cnr in *. change (21 =? 0) with false in *. cbv iota in *. rewrite He in *. cbn [is_raise] in *.
        cbn [FSolve.w_results]. rewrite Ws, Wr. change (21 =? 0) with false. change (21 =? 21) with true. rewrite He. cbn [andb is_raise].
        unfold stampz. cbn [vals_of status iters log fst snd]. split; [reflexivity|]. repeat split.
      + (* pre-existing *)
        rewrite Cpe in *. change (31 =? 0) with false in *. cbv iota in *. rewrite He in *. cbn [is_raise] in *.
        cbn [FSolve.w_results]. rewrite Ws, Wr, Wp. change (31 =? 0) with false. change (31 =? 21) with false. change (31 =? 31) with true.
        rewrite He. cbn [andb is_raise fst snd]. split; [reflexivity|]. repeat split.
      + (* offset *)
        destruct template_codes as (_ & _ & _ & _ & _ & Cb & _ & _ & Cd & _).
        destruct Hc as [-> | ->]; rewrite ?Cop, ?Coq, ?Cb, ?Cd in *.
        * change (41 =? 0) with false in *. change ((11 <=? 41) && (41 <=? 14)) with false in *.
          change ((41 =? 41) || (41 =? 42)) with true in *. cbv iota in *.
          cbn [FSolve.w_results]. rewrite Ws, Wr, Wp, Wop. change (41 =? 0) with false. change (41 =? 21) with false. change (41 =? 31) with false.
          change (41 =? 41) with true. cbn [andb fst snd]. split; [reflexivity|]. repeat split.
        * change (42 =? 0) with false in *. change ((11 <=? 42) && (42 <=? 14)) with false in *.
          change ((42 =? 41) || (42 =? 42)) with true in *. cbv iota in *.
          cbn [FSolve.w_results]. rewrite Ws, Wr, Wp, Wop, Woq. change (42 =? 0) with false. change (42 =? 21) with false. change (42 =? 31) with false.
          change (42 =? 41) with false. change (42 =? 42) with true. cbn [andb fst snd]. split; [reflexivity|]. repeat split.
      + (* no room for the lags / leads *)
        destruct template_codes as (_ & _ & _ & _ & _ & Cb & Ca & Cl & Cd & _).
        assert (Wi : w_s_index = [11; 12; 13; 14]) by reflexivity.
        destruct Hc as [-> | ->]; [rewrite Cl in *|rewrite Cd in *]; rewrite ?Cb, ?Cd, ?Cl in *.
        * change (13 =? 0) with false in *. change ((11 <=? 13) && (13 <=? 14)) with true in *. cbv iota in *.
          cbn [FSolve.w_results]. rewrite Ws, Wr, Wp, Wop, Woq, Wsk, Wi.
          change (13 =? 0) with false. change (13 =? 21) with false. change (13 =? 31) with false. change (13 =? 41) with false.
          change (13 =? 42) with false. change (13 =? 22) with false. cbn [andb existsb Z.eqb Pos.eqb orb fst snd]. split; [reflexivity|]. repeat split.
        * change (14 =? 0) with false in *. change ((11 <=? 14) && (14 <=? 14)) with true in *. cbv iota in *.
          cbn [FSolve.w_results]. rewrite Ws, Wr, Wp, Wop, Woq, Wsk, Wi.
          change (14 =? 0) with false. change (14 =? 21) with false. change (14 =? 31) with false. change (14 =? 41) with false.
          change (14 =? 42) with false. change (14 =? 22) with false. cbn [andb existsb Z.eqb Pos.eqb orb fst snd]. split; [reflexivity|]. repeat split.
  Qed.

  (* FortranEngine.solve = SolverMixin.solve: same list of return values or the same exception class, same values,
     statuses ('.', 'F', 'S', 'E') and iteration counts *)
  Theorem w_solve_refinesG ps s :
    shape n m (vals_of s) -> length (status s) = n -> solve_okG ps (vals_of s) ->
    agree num (w_solve fm d o fl ps s) (py_solve d o ps s).
  Proof.
    intros Hs Hlen Hok. unfold FSolve.w_solve, FSolve.py_solve.
    assert (Hlt : (max_iter o <? min_iter o) = false) by lia. rewrite Hlt, Hfc, Hec.
    pose proof (solve_simG ps (vals_of s) (status s) (iters s) (log s) (log s) [] Hs Hlen Hok) as H.
    destruct (t_solve_loop fm (vals_of s) (map (fun p => Z.of_nat p + 1) ps) (min_iter o) (max_iter o) (tol o) (offset o)
                           (cv_of d) fc ec) as [v' rs].
    unfold setvals. destruct s as [v st it lg]. exact H.
  Qed.

  (* the same from the arguments start= / end= (None = default, Some = the position a given label was found at): both engines
     select the same periods — SolutionError on an empty span (fix e0867c1), the defaults by position, IndexError when the span
     is too short for the lags / leads — and then
     agree as above (SolverMixin.iter_periods since 7cd6323, FortranEngine.solve since 084a032) *)
  Theorem w_solve_se_refines start stop s :
    shape n m (vals_of s) -> length (status s) = n ->
    (forall ps, sel_positions d n start stop = inl ps -> solve_okG ps (vals_of s)) ->
    agree num (w_solve_se num sub absf ltb isfin zero evf fm d o fl start stop s)
              (py_solve_se num sub absf ltb isfin zero ev (no_hook num) (no_hook num) d o start stop s).
  Proof.
    intros Hs Hlen Hok. unfold FSolve.w_solve_se, FSolve.py_solve_se.
    assert (Hlt : (max_iter o <? min_iter o) = false) by lia. rewrite Hlt, Hlen.
    destruct (n =? 0)%nat; [split; [reflexivity|]; repeat split|].
    destruct (sel_positions d n start stop) as [ps|e] eqn:E.
    - apply w_solve_refinesG; auto.
    - split; [reflexivity|]. repeat split.
  Qed.
End SolveAllG.
