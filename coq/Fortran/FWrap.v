(* FWrap.v — fsic.fortran._wrap_code (fix 45adc65): textwrap.wrap(code, width, break_long_words=False, break_on_hyphens=False)
   (CPython 3.12 textwrap.TextWrapper: drop_whitespace, no indents, no max_lines; chunks are the runs of whitespace / of
   non-whitespace) followed by the cut of over-long lines after a parenthesis or comma, on texts whose only whitespace is the
   blank — K compares the model's lines with the lines in the generated module, case by case.

     chunks_of     _split: maximal runs of blanks / of non-blanks
     fill          the inner loop of _wrap_chunks: chunks are added while the line does not exceed the width
     split_long    the cut of a line that is still longer than the width
     wrap_chunks   the outer loop: one line per round; a blank chunk is dropped at the start of every line but the first and at
                   the end of every line
     wrap          the lines as strings

   Definitions only. *)
From Coq Require Import Ascii String List Bool Arith.
Import ListNotations.
Require Import FText.
Open Scope nat_scope.

Definition all_blank (c : str) : bool := forallb is_blank c.       (* chunk.strip() == '' *)

(* maximal runs: (current run, reversed; whether it is a run of blanks) *)
Fixpoint chunks_from (l : str) (cur : str) (blank : bool) : list str :=
  match l with
  | [] => match cur with [] => [] | _ => [rev cur] end
  | c :: r =>
      if Bool.eqb (is_blank c) blank then chunks_from r (c :: cur) blank
      else match cur with
           | [] => chunks_from r [c] (is_blank c)
           | _ => rev cur :: chunks_from r [c] (is_blank c)
           end
  end.
Definition chunks_of (l : str) : list str := chunks_from l [] false.

(* while chunks: if cur_len + len(chunk) <= width: take it *)
Fixpoint fill (width cur_len : nat) (cur : list str) (chs : list str) : list str * nat * list str :=
  match chs with
  | c :: r => if cur_len + length c <=? width then fill width (cur_len + length c) (c :: cur) r else (cur, cur_len, chs)
  | [] => (cur, cur_len, [])
  end.

(* _handle_long_word with break_long_words=False: a chunk longer than the width goes on a line of its own, unbroken *)

(* one round of the outer loop: (the chunks of the line in order, the chunks left) *)
Definition wrap_round (width : nat) (first : bool) (chs : list str) : list str * list str :=
  let chs1 := match chs with c :: r => if negb first && all_blank c then r else chs | [] => [] end in
  let '(cur, cur_len, rest) := fill width 0 [] chs1 in
  let '(cur2, rest2) :=
    match rest with
    | c :: r => if (width <? length c) && match cur with [] => true | _ => false end then (c :: cur, r) else (cur, rest)
    | [] => (cur, rest)
    end in
  let cur3 := match cur2 with c :: r => if all_blank c then r else cur2 | [] => [] end in
  (rev cur3, rest2).

Fixpoint wrap_chunks (fuel width : nat) (first : bool) (chs : list str) : list (list str) :=
  match fuel with
  | O => []
  | S f =>
      match chs with
      | [] => []
      | _ => let '(line, rest) := wrap_round width first chs in
             match line with
             | [] => wrap_chunks f width first rest                    (* `if cur_line:` — nothing appended, `lines` stays as it is *)
             | _ => line :: wrap_chunks f width false rest
             end
      end
  end.

(* textwrap.wrap(text, width, break_long_words=False, break_on_hyphens=False) *)
Definition wrap_words (width : nat) (text : str) : list str :=
  map (fun line => concat line) (wrap_chunks (2 * length text + 2) width true (chunks_of text)).

(* fsic.fortran._wrap_code (fix 45adc65): a line still longer than the width is cut after the last `(`, `)` or `,` among its first
   `width` characters — always between two tokens — as often as needed *)
Definition is_cut_char (c : ascii) : bool := ascii_eqb c "(" || ascii_eqb c ")" || ascii_eqb c ",".
Fixpoint rfind_cut (l : str) (pos limit : nat) (best : option nat) : option nat :=
  match l with
  | [] => best
  | c :: r => if pos <? limit then rfind_cut r (S pos) limit (if is_cut_char c then Some pos else best) else best
  end.
Fixpoint split_long (fuel width : nat) (line : str) : list str :=
  match fuel with
  | O => [line]
  | S f => if width <? length line
           then match rfind_cut line 0 width None with
                | Some h => firstn (S h) line :: split_long f width (skipn (S h) line)
                | None => [line]
                end
           else [line]
  end.

Definition wrap (width : nat) (text : str) : list str :=
  flat_map (fun line => split_long (length line) width line) (wrap_words width text).

(* ---- the whole text pipeline of build_fortran_definition for one equation / one index array: no oracle left ---- *)
Definition equation_block (names : list str) (width : nat) (eq : str) : option str :=
  match rewrite names eq with
  | Some code => Some (block eq (wrap width code))
  | None => None
  end.
Definition array_def_block (width : nat) (nums : list nat) (name : str) : str :=
  wrapped_def (wrap width (int_array_def nums name)).
