(* FSolveRun.v — FortranEngine.solve_t = BaseModel.solve_t with hypotheses on the passes that actually RUN only: finiteness
   (and the evaluation oracle) are asked of pass 1, of pass 2 unless pass 1 ended the iteration, and so on — nothing is asked
   of passes after the one that converged. *)
From Coq Require Import ZArith List Bool Lia ZifyBool.
Import ListNotations.
Require Import PyBase Solver SolverFacts FSem FSolve FSolveFacts FSolveSim.
Open Scope Z_scope.

Section Run.
  Variable num : Type.
  Variables (sub : num -> num -> num) (absf : num -> num) (ltb : num -> num -> bool)
            (isfin : num -> bool) (zero : num).
  Variable evf : Z -> vals num -> vals num.
  Variables (ev before after : hook num).

  Notation vals := (vals num).
  Notation all_finite := (all_finite num isfin).
  Notation conv := (conv num sub absf ltb).
  Notation get_check := (get_check num zero).
  Notation t_loop := (t_loop num sub absf ltb isfin zero evf).
  Notation t_solve_t := (t_solve_t num sub absf ltb isfin zero evf).
  Notation w_solve_t := (w_solve_t num sub absf ltb isfin zero evf).
  Notation solve_t_M := (solve_t_M num sub absf ltb isfin zero ev before after).
  Notation loop := (Solver.loop num sub absf ltb isfin zero ev after).
  Notation seeded := (seeded num zero).
  Notation iterv := (iterv num evf).
  Notation chk := (chk num zero evf).
  Notation endo_fin := (endo_fin num isfin zero evf).

  Section Loop.
    Variables (fm : fmod) (d : mdesc) (o : opts num) (t : Z) (p n m : nat) (ec : Z) (v1 : vals).
    Notation idx := (Z.of_nat p + 1).
    Hypothesis Haft : forall em cf k v, after t em cf k v = (v, None).
    Hypothesis Hshape : forall v, shape n m v -> shape n m (evf idx v).
    Hypothesis Hp : (p < n)%nat.
    Hypothesis Hm : (0 < m)%nat.
    Hypothesis Hguard : t_guard fm (Z.of_nat n) idx = 0.
    Hypothesis Hchk : rows_ok m (check d).
    Hypothesis Hend : rows_ok m (endo d).
    Hypothesis Hfe : fm_endo fm = endo_nums d.

    (* pass j+1 evaluates without raising and leaves finite check / endogenous values; unless it ends the iteration (it is
       judged, i.e. j+1 >= min_iter, and converged) the same is asked of the next pass, n' passes at most *)
    Fixpoint run_ok (n' j : nat) : Prop :=
      match n' with
      | O => True
      | S n'' =>
          ev t (errors o) (catch_first o) (S j) (iterv p v1 j) = (evf idx (iterv p v1 j), None) /\
          all_finite (chk d p v1 (S j)) = true /\ endo_fin d p v1 (S j) = true /\
          (if Z.of_nat (S j) <? min_iter o then run_ok n'' (S j)
           else if conv (tol o) (chk d p v1 (S j)) (chk d p v1 j) then True else run_ok n'' (S j))
      end.

    Lemma sim_run : forall n' j lg code,
      shape n m (iterv p v1 j) -> all_finite (chk d p v1 j) = true -> run_ok n' j ->
      exists i x k lg',
        loop d o t p n' (S j) (iterv p v1 j) (chk d p v1 j) lg = LDone (iterv p v1 i) x k lg' /\ (x = Solved \/ x = Failed) /\
        t_loop fm ec (min_iter o) (max_iter o) (tol o) (cv_of d) idx n' (Z.of_nat (S j)) (iterv p v1 j) (chk d p v1 j) code
        = mkFout (iterv p v1 i) (st_eqb x Solved) (Z.of_nat k) (if (n' =? 0)%nat then code else 0).
    Proof.
      induction n' as [|n' IH]; intros j lg code Hs Hf Hr.
      - exists j, Failed, (S j - 1)%nat, lg. cbn [Solver.loop FSolve.t_loop Nat.eqb st_eqb].
        split; [reflexivity|]. split; [right; reflexivity|]. f_equal. lia.
      - cbn [run_ok] in Hr. destruct Hr as (Hev & Hc & He & Hnext).
        rewrite (loop_step num sub absf ltb isfin zero evf ev after d o t p Haft n' (S j) (iterv p v1 j) (chk d p v1 j) lg Hev).
        rewrite (t_loop_step num sub absf ltb isfin zero evf fm d o p n m ec Hshape Hp Hm Hguard Hchk Hend Hfe n' _ _ _ code Hs).
        change (evf idx (iterv p v1 j)) with (iterv p v1 (S j)).
        change (get_check d (iterv p v1 (S j)) p) with (chk d p v1 (S j)).
        change (Solver.all_finite num isfin (map (fun i => cell num zero (iterv p v1 (S j)) i p) (endo d))) with (endo_fin d p v1 (S j)).
        rewrite Hf, Hc, He. cbn [negb Nat.eqb].
        replace (Z.of_nat (S j) + 1) with (Z.of_nat (S (S j))) by lia.
        assert (Hs' : shape n m (iterv p v1 (S j))) by (cbn [FSolveSim.iterv]; apply Hshape; exact Hs).
        assert (Hrec : run_ok n' (S j) ->
                  exists i x k lg',
                    loop d o t p n' (S (S j)) (iterv p v1 (S j)) (chk d p v1 (S j)) (lg ++ [EvPass t (S j)])
                    = LDone (iterv p v1 i) x k lg' /\ (x = Solved \/ x = Failed) /\
                    t_loop fm ec (min_iter o) (max_iter o) (tol o) (cv_of d) idx n' (Z.of_nat (S (S j))) (iterv p v1 (S j)) (chk d p v1 (S j)) 0
                    = mkFout (iterv p v1 i) (st_eqb x Solved) (Z.of_nat k) 0).
        { intros Hr. destruct (IH (S j) (lg ++ [EvPass t (S j)]) 0 Hs' Hc Hr) as (i & x & k & lg' & H1 & H2 & H3).
          exists i, x, k, lg'. split; [exact H1|]. split; [exact H2|]. rewrite H3. destruct (n' =? 0)%nat; reflexivity. }
        destruct (Z.of_nat (S j) <? min_iter o); [exact (Hrec Hnext)|].
        destruct (conv (tol o) (chk d p v1 (S j)) (chk d p v1 j)); [|exact (Hrec Hnext)].
        exists (S j), Solved, (S j), ((lg ++ [EvPass t (S j)]) ++ [EvAfter t (S j)]).
        split; [reflexivity|]. split; [left; reflexivity|reflexivity].
    Qed.
  End Loop.

  (* FortranEngine.solve_t = BaseModel.solve_t: feasible period (either spelling of t), every option of the lattice with
     in-span offset, finite check values at the start, and `run_ok` for the passes that run *)
  Theorem w_solve_t_refines_run fm d o t s p n m :
    shape n m (vals_of s) -> length (status s) = n -> (0 < m)%nat ->
    rows_ok m (check d) -> rows_ok m (endo d) ->
    fm_endo fm = endo_nums d -> fm_lags fm = Z.of_nat (lags d) -> fm_leads fm = Z.of_nat (leads d) ->
    py_pos n t = Some p -> feasible d n p = true ->
    errors o <> EInvalid -> min_iter o <= max_iter o ->
    (offset o = 0 \/ 0 <= Z.of_nat p + offset o < Z.of_nat n) ->
    (forall v, shape n m v -> shape n m (evf (Z.of_nat p + 1) v)) ->
    let v0 := seeded d o (vals_of s) p in
    (forall em cf k v, before t em cf k v = (v, None)) ->
    (forall em cf k v, after t em cf k v = (v, None)) ->
    all_finite (get_check d v0 p) = true ->
    run_ok d o t p v0 (Z.to_nat (max_iter o)) 0 ->
    agree num (w_solve_t fm d o t s) (solve_t_M d o t s).
  Proof.
    intros Hs Hlen Hm Hchk Hend Hfe Hfl Hfd Hpos Hfeas Hinv Hmm Hoff Hshape v0 Hbef Haft Hf0 Hrun.
    pose proof (py_pos_lt _ _ _ Hpos) as Hp.
    destruct (w_ec_valid num o Hinv) as (ec & Hec & Hecr).
    assert (Hlt : (max_iter o <? min_iter o) = false) by lia.
    assert (Hs0 : shape n m v0) by (apply seeded_shape; exact Hs).
    assert (Hg : t_guard fm (Z.of_nat n) (Z.of_nat p + 1) = 0).
    { rewrite (t_guard_feasible fm d n p Hfl Hfd Hp), Hfeas. reflexivity. }
    assert (Hpre : (if offset o =? 0 then @inl vals exn (vals_of s)
                    else if Z.of_nat p + offset o <? 0 then inr IndexError
                         else if Z.of_nat n <=? Z.of_nat p + offset o then inr IndexError
                              else inl (copy_endo num zero d (vals_of s) p (Z.to_nat (Z.of_nat p + offset o)))) = inl v0).
    { unfold v0, FSolveSim.seeded. destruct (offset o =? 0) eqn:Eo; [reflexivity|].
      replace (Z.of_nat p + offset o <? 0) with false by lia.
      replace (Z.of_nat n <=? Z.of_nat p + offset o) with false by lia. reflexivity. }
    destruct (sim_run fm d o t p n m ec v0 Haft Hshape Hp Hm Hg Hchk Hend Hfe (Z.to_nat (max_iter o)) 0%nat
                (log s ++ [EvBefore t]) 0 Hs0 Hf0 Hrun) as (i & x & k & lg' & Hloop & Hx & Htl).
    cbn [FSolveSim.iterv] in Hloop, Htl. unfold FSolveSim.chk in Hloop, Htl. cbn [FSolveSim.iterv] in Hloop, Htl.
    change (Z.of_nat 1) with 1 in Htl.
    assert (HN : (if (Z.to_nat (max_iter o) =? 0)%nat then 0 else 0) = 0) by (destruct (Z.to_nat (max_iter o) =? 0)%nat; reflexivity). rewrite HN in Htl.
    assert (Hts : t_solve_t fm v0 (t + 1) (min_iter o) (max_iter o) (tol o) (offset o) (cv_of d) ec
                  = mkFout (iterv p v0 i) (st_eqb x Solved) (Z.of_nat k) 0).
    { rewrite (t_solve_t_spec num sub absf ltb isfin zero evf fm d o (t + 1) p n m ec v0 Hs0 Hm Hp Hchk Hend Hfe
                 (t_index_pos n t p Hpos) Hg Hoff).
      replace (seeded d o v0 p) with v0 by (symmetry; apply (seeded_idem num zero n m d o (vals_of s) p Hs Hp Hend Hoff)).
      rewrite Hf0, andb_false_r. exact Htl. }
    unfold FSolve.w_solve_t, Solver.solve_t_M, agree. rewrite Hlt, Hec, Hlen, Hpos, Hfeas. cbn [negb]. cbv zeta.
    rewrite Hpre, Hf0, andb_false_r, Hts, Hbef, Hloop.
    destruct wrapper_codes as (W0 & _). cbn [fo_code fo_conv fo_vals fo_iter finish]. rewrite W0.
    change (0 =? 0) with true. cbv iota.
    destruct Hx as [-> | ->]; cbn [st_eqb andb].
    - cbn [fst snd]. split; [reflexivity|]. repeat split.
    - destruct (fail_raise o); cbn [fst snd]; (split; [reflexivity|]; repeat split).
  Qed.
End Run.
