(* FText.v — the text layer of fsic.fortran.build_fortran_definition (fortran.py:917-1016):

     numbering        variables_to_numbers = {x: i for i, x in enumerate(chain(endogenous, exogenous, parameters, errors), 1)}
     scan / spans     pattern.finditer(equation) for the pattern  NAME [ INDEX ]  (NAME = identifier, INDEX = lazy any-text
                      up to the first closing bracket on the same line) — hand-modelled matcher
     rewrite          the right-to-left replacement  code[:start] + solved_values(n, idx.replace('t','index')) + code[end:]
     block            '! ' + equation + '\n' + '  &\n&  '.join(textwrap.wrap(code, width))   then textwrap.indent(., '  ')
                      (textwrap.wrap is an oracle: the model receives its list of lines)
     int_array_def    create_integer_array_definition before wrapping
     lag_of / lead_of the lags / leads written into module `structure`

   Strings are lists of Latin-1 characters.  Definitions only. *)
From Coq Require Import Ascii String List Bool ZArith Arith DecimalString.
Import ListNotations.
Open Scope char_scope.
Open Scope nat_scope.

Definition str : Type := list ascii.
Definition lit (x : string) : str := list_ascii_of_string x.

Definition code_of (c : ascii) : nat := nat_of_ascii c.
Definition is_id_start (c : ascii) : bool :=
  let n := code_of c in (n =? 95) || ((65 <=? n) && (n <=? 90)) || ((97 <=? n) && (n <=? 122)).
Definition is_digit (c : ascii) : bool := let n := code_of c in (48 <=? n) && (n <=? 57).
Definition is_id_char (c : ascii) : bool := is_id_start c || is_digit c.
Definition ascii_eqb (a b : ascii) : bool := code_of a =? code_of b.

Fixpoint take_while (p : ascii -> bool) (l : str) : str :=
  match l with c :: r => if p c then c :: take_while p r else [] | [] => [] end.
Fixpoint drop_while (p : ascii -> bool) (l : str) : str :=
  match l with c :: r => if p c then drop_while p r else l | [] => [] end.

(* the lazy INDEX group and the closing bracket: the text up to the first ']' provided no line feed comes before it
   (the dot of the pattern does not match a line feed) *)
Fixpoint find_close (l : str) : option str :=
  match l with
  | [] => None
  | c :: r => if ascii_eqb c "]" then Some []
              else if code_of c =? 10 then None
              else match find_close r with Some i => Some (c :: i) | None => None end
  end.

(* an attempt of the pattern at the head of l: (name, index text, length of the match) *)
Definition match_here (l : str) : option (str * str * nat) :=
  match l with
  | c :: r =>
      if is_id_start c then
        let name := c :: take_while is_id_char r in
        match drop_while is_id_char r with
        | b :: r2 => if ascii_eqb b "[" then
                       match find_close r2 with
                       | Some idx => Some (name, idx, length name + 1 + length idx + 1)
                       | None => None
                       end
                     else None
        | [] => None
        end
      else None
  | [] => None
  end.

(* finditer as a segmentation: (text before the match, name, index text) for every match, and the text after the last one *)
Definition seg : Type := (str * str * str)%type.
Fixpoint scan (fuel : nat) (l : str) : list seg * str :=
  match fuel, l with
  | S f, c :: r =>
      match match_here l with
      | Some (name, idx, len) => let '(sg, tl) := scan f (skipn len l) in (([], name, idx) :: sg, tl)
      | None => let '(sg, tl) := scan f r in
                match sg with
                | [] => ([], c :: tl)
                | (g, n, i) :: sg' => ((c :: g, n, i) :: sg', tl)
                end
      end
  | _, _ => ([], l)
  end.
Definition segments (l : str) : list seg * str := scan (length l) l.

(* match.span() of every match: start and end offsets in the equation *)
Fixpoint spans (pos : nat) (sg : list seg) : list (nat * nat * str * str) :=
  match sg with
  | [] => []
  | (g, n, i) :: r => let st := pos + length g in let en := st + length n + 1 + length i + 1 in
                      (st, en, n, i) :: spans en r
  end.

(* ---- numbering ---- *)
Definition str_eqb (a b : str) : bool := if list_eq_dec ascii_dec a b then true else false.
(* dict comprehension over enumerate(..., start=1): a later duplicate overwrites an earlier one *)
Fixpoint number_of_from (k : nat) (names : list str) (x : str) : option nat :=
  match names with
  | [] => None
  | y :: r => match number_of_from (S k) r x with
              | Some j => Some j
              | None => if str_eqb x y then Some k else None
              end
  end.
Definition number_of (names : list str) (x : str) : option nat := number_of_from 1 names x.
(* list.index: the first occurrence, zero-based *)
Fixpoint index_of_from (k : nat) (names : list str) (x : str) : option nat :=
  match names with
  | [] => None
  | y :: r => if str_eqb x y then Some k else index_of_from (S k) r x
  end.
Definition index_of (names : list str) (x : str) : option nat := index_of_from 0 names x.
(* NAMES of the Python class and the chain() of the Fortran builder *)
Definition all_names (endo exo par err : list str) : list str := endo ++ exo ++ par ++ err.

Definition dec (n : nat) : str := lit (NilZero.string_of_uint (Nat.to_uint n)).

(* str.replace('t', 'index') *)
Fixpoint replace_t (l : str) : str :=
  match l with [] => [] | c :: r => if ascii_eqb c "t" then lit "index" ++ replace_t r else c :: replace_t r end.

Definition term_f (n : nat) (idx : str) : str := lit "solved_values(" ++ dec n ++ lit ", " ++ replace_t idx ++ lit ")".

(* for match in reversed(list(finditer)): code = code[:start] + variable + code[end:]     (None = KeyError: unknown name) *)
Definition splice (code : str) (st en : nat) (repl : str) : str := firstn st code ++ repl ++ skipn en code.
Definition rewrite_step (names : list str) (acc : option str) (m : nat * nat * str * str) : option str :=
  let '(st, en, n, i) := m in
  match acc, number_of names n with
  | Some code, Some k => Some (splice code st en (term_f k i))
  | _, _ => None
  end.
Definition rewrite (names : list str) (eq : str) : option str :=
  fold_left (rewrite_step names) (rev (spans 0 (fst (segments eq)))) (Some eq).

(* the same result produced in one pass from left to right (proved equal to `rewrite` in FTextFacts.v) *)
Fixpoint stream (names : list str) (sg : list seg) (tl : str) : option str :=
  match sg with
  | [] => Some tl
  | (g, n, i) :: r => match number_of names n, stream names r tl with
                      | Some k, Some rest => Some (g ++ term_f k i ++ rest)
                      | _, _ => None
                      end
  end.

(* ---- assembling the block ---- *)
Definition nl : ascii := ascii_of_nat 10.
Fixpoint join (sep : str) (ls : list str) : str :=
  match ls with [] => [] | [x] => x | x :: r => x ++ sep ++ join sep r end.
Definition is_space (c : ascii) : bool := existsb (Nat.eqb (code_of c)) [9; 10; 11; 12; 13; 28; 29; 30; 31; 32; 133; 160].
Fixpoint split_lines (l : str) (cur : str) : list str :=        (* on line feeds, keeping them (splitlines(True)) *)
  match l with
  | [] => match cur with [] => [] | _ => [rev cur] end
  | c :: r => if code_of c =? 10 then rev (c :: cur) :: split_lines r [] else split_lines r (c :: cur)
  end.
(* textwrap.indent(text, prefix): the prefix goes in front of every line that does not consist solely of whitespace *)
Definition indent (prefix : str) (text : str) : str :=
  concat (map (fun ln => if forallb is_space ln then ln else prefix ++ ln) (split_lines text [])).
Definition cont_sep : str := lit "  &" ++ [nl] ++ lit "&  ".
(* one entry of equation_code *)
Definition block (equation : str) (wrapped : list str) : str :=
  indent (lit "  ") (lit "! " ++ equation ++ [nl] ++ join cont_sep wrapped).

(* create_integer_array_definition, the line before it is wrapped *)
Definition int_array_def (nums : list nat) (name : str) : str :=
  lit "integer, dimension(" ++ dec (length nums) ++ lit ") :: " ++ name ++
  match nums with [] => [] | _ => lit " = (/ " ++ join (lit ", ") (map dec nums) ++ lit " /)" end.
Definition wrapped_def (wrapped : list str) : str := indent (lit "  ") (join cont_sep wrapped).

(* lags = max(abs(min(s.lags ...)), min_lags) ; leads = max(abs(max(s.leads ...)), min_leads) ; 0 for no symbols *)
Open Scope Z_scope.
Definition zmin_list (l : list Z) : Z := match l with [] => 0 | x :: r => fold_left Z.min r x end.
Definition zmax_list (l : list Z) : Z := match l with [] => 0 | x :: r => fold_left Z.max r x end.
Definition lag_of (sym_lags : list Z) (min_lags : Z) : Z := Z.max (Z.abs (zmin_list sym_lags)) min_lags.
Definition lead_of (sym_leads : list Z) (min_leads : Z) : Z := Z.max (Z.abs (zmax_list sym_leads)) min_leads.

(* ---- the index text of a term at lag / lead k, before and after str.replace('t', 'index') ---- *)
(* the text fsic.parser writes between the brackets of a term at lag / lead k *)
Definition idx_text (k : Z) : str :=
  match k with
  | Z0 => lit "t"
  | Zpos q => lit "t+" ++ dec (Pos.to_nat q)
  | Zneg q => lit "t-" ++ dec (Pos.to_nat q)
  end.
Definition f_idx_text (k : Z) : str :=
  match k with
  | Z0 => lit "index"
  | Zpos q => lit "index+" ++ dec (Pos.to_nat q)
  | Zneg q => lit "index-" ++ dec (Pos.to_nat q)
  end.


(* ---- free-form continuation lines as the compiler reads them: a line whose last non-blank character is `&` continues on
   the next line, from just after that line's first non-blank character when it is `&` ---- *)
Open Scope nat_scope.
Definition is_blank (c : ascii) : bool := code_of c =? 32.
Fixpoint plain_lines (l cur : str) : list str :=          (* split on line feeds, dropping them *)
  match l with
  | [] => [rev cur]
  | c :: r => if code_of c =? 10 then rev cur :: plain_lines r [] else plain_lines r (c :: cur)
  end.
Definition rstrip (l : str) : str := rev (drop_while is_blank (rev l)).
(* (the line without its continuation mark, whether it is continued) *)
Definition split_cont (l : str) : str * bool :=
  match rev (rstrip l) with
  | c :: r => if ascii_eqb c "&" then (rev r, true) else (l, false)
  | [] => (l, false)
  end.
Definition cont_start (l : str) : str :=
  match drop_while is_blank l with
  | c :: r => if ascii_eqb c "&" then r else l
  | [] => l
  end.
(* the statement a sequence of physical lines denotes *)
Fixpoint logical (continued : bool) (lines : list str) : str :=
  match lines with
  | [] => []
  | l :: r => let '(body, c) := split_cont (if continued then cont_start l else l) in body ++ logical c r
  end.
(* the lines of textwrap.wrap put side by side, four blanks between neighbours *)
Fixpoint glue (ws : list str) : str :=
  match ws with [] => [] | [w] => w | w :: r => w ++ lit "    " ++ glue r end.
