(* FortranF.v — the models of FSem.v / FSolve.v / Solver.v instantiated with the kernel's binary64 floats, and the in-Coq
   comparison used by the correspondence check K of C07 (both engines against their own models).  Definitions only. *)
From Coq Require Import PrimFloat FloatOps Uint63 ZArith List Bool.
From Coq Require SpecFloat.
Import ListNotations.
Require Import PyBase Solver SolverF FSem FSolve.
Open Scope Z_scope.

(* exact for |z| < 2^53 *)
Definition f_of_int (z : Z) : float :=
  if z <? 0 then PrimFloat.opp (PrimFloat.of_uint63 (Uint63.of_Z (- z))) else PrimFloat.of_uint63 (Uint63.of_Z z).

(* nearest binary32 value (round to nearest even, subnormals and overflow as IEEE 754), returned as a binary64 *)
Definition f_round4 (x : float) : float :=
  match Prim2SF x with
  | SpecFloat.S754_finite s m e =>
      SF2Prim (SpecFloat.binary_normalize 24 128 (if s then Zneg m else Zpos m) e s)
  | _ => x
  end.

(* oracle tables for exp / log / ** recorded by the harness; a missing entry yields `poison` *)
Definition poison : float := 0x1.5555555555555p+1000%float.
Definition tab1 : Type := list (float * float).
Definition tab2 : Type := list (float * float * float).
Fixpoint look1 (t : tab1) (x : float) : float :=
  match t with [] => poison | (a, r) :: q => if feq_bits a x then r else look1 q x end.
Fixpoint look2 (t : tab2) (x y : float) : float :=
  match t with [] => poison | (a, b, r) :: q => if feq_bits a x && feq_bits b y then r else look2 q x y end.

Record oracles := mkOr { o_exp : tab1; o_log : tab1; o_pow : tab2 }.

Definition fexpr : Type := expr float.
Definition feqn : Type := eqn float.

Definition F_py_eval (orc : oracles) (catch : bool) (rd : nat -> Z -> option float) (e : fexpr) : pres float :=
  py_eval float PrimFloat.add PrimFloat.sub PrimFloat.mul PrimFloat.div PrimFloat.opp PrimFloat.abs PrimFloat.ltb
          PrimFloat.is_nan PrimFloat.is_infinity f_of_int (look1 (o_exp orc)) (look1 (o_log orc)) (look2 (o_pow orc)) catch rd e.
Definition F_py_pass (orc : oracles) (catch : bool) (prog : list feqn) (n : nat) (t : Z) (v : vals float) :=
  py_pass float PrimFloat.add PrimFloat.sub PrimFloat.mul PrimFloat.div PrimFloat.opp PrimFloat.abs PrimFloat.ltb
          PrimFloat.is_nan PrimFloat.is_infinity f_of_int (look1 (o_exp orc)) (look1 (o_log orc)) (look2 (o_pow orc)) catch prog n t v.
Definition F_py_hook (orc : oracles) (prog : list feqn) (n : nat) : hook float :=
  fun t em cf _ v => F_py_pass orc (is_raise em && cf) prog n t v.

(* single-precision transcendental results are compile-time constants of gfortran (MPFR): not tabulated, never compared *)
Definition F_f_eval (orc : oracles) (rd : nat -> Z -> float) (e : fexpr) : option (fv float) :=
  f_eval float PrimFloat.add PrimFloat.sub PrimFloat.mul PrimFloat.div PrimFloat.opp PrimFloat.abs PrimFloat.ltb
         f_of_int (look1 (o_exp orc)) (look1 (o_log orc)) (look2 (o_pow orc)) f_round4
         (fun _ => poison) (fun _ => poison) (fun _ _ => poison) 1%float rd e.
Definition F_f_pass (orc : oracles) (prog : list feqn) (index : Z) (v : vals float) : vals float :=
  f_pass float PrimFloat.add PrimFloat.sub PrimFloat.mul PrimFloat.div PrimFloat.opp PrimFloat.abs PrimFloat.ltb
         f_of_int (look1 (o_exp orc)) (look1 (o_log orc)) (look2 (o_pow orc)) f_round4
         (fun _ => poison) (fun _ => poison) (fun _ _ => poison) fzero 1%float prog index v.
Definition F_f_compiles (prog : list feqn) : bool :=
  f_compiles float PrimFloat.add PrimFloat.sub PrimFloat.mul PrimFloat.div PrimFloat.opp PrimFloat.abs PrimFloat.ltb
             f_of_int (fun x => x) (fun x => x) (fun x _ => x) f_round4 (fun x => x) (fun x => x) (fun x _ => x) fzero 1%float prog.

(* ---- the three entry points, both engines ---- *)
Inductive entry : Type := EEvaluate (t : Z) | ESolveT (t : Z) | ESolve (ps : list nat)
                        | ESolveSE (start stop : option nat).     (* solve(start=, end=): None = default, Some = located position *)
Inductive xout : Type :=
| XU (r : outcome unit) | XB (r : outcome bool) | XL (r : outcome (list bool))
| XNoCompile.                                  (* gfortran rejects the generated module *)

Definition tag_exn (tg : Z) : exn :=
  if tg =? tag_index then IndexError else OtherError.     (* ZeroDivisionError etc.: a class the properties do not name *)

Definition P_evaluate (orc : oracles) (prog : list feqn) (t : Z) (s : fstate) : fstate * xout :=
  (* a direct call of the generated _evaluate(t): no warnings filter, exceptions surface as they are *)
  match F_py_pass orc false prog (length (status s)) t (vals_of s) with
  | (v', None) => (mkState v' (status s) (iters s) (log s), XU (Ret tt))
  | (v', Some tg) => (mkState v' (status s) (iters s) (log s), XU (Raise (tag_exn tg)))
  end.
Definition P_solve_t (orc : oracles) (prog : list feqn) (d : mdesc) (o : fopts) (t : Z) (s : fstate) : fstate * xout :=
  let n := length (status s) in
  let '(s', r) := solve_t_M float PrimFloat.sub PrimFloat.abs PrimFloat.ltb fisfin fzero
                            (F_py_hook orc prog n) (no_hook float) (no_hook float) d o t s in
  (s', XB r).
Definition P_solve (orc : oracles) (prog : list feqn) (d : mdesc) (o : fopts) (ps : list nat) (s : fstate) : fstate * xout :=
  let n := length (status s) in
  let '(s', r) := py_solve float PrimFloat.sub PrimFloat.abs PrimFloat.ltb fisfin fzero
                           (F_py_hook orc prog n) (no_hook float) (no_hook float) d o ps s in
  (s', XL r).

Definition P_solve_se (orc : oracles) (prog : list feqn) (d : mdesc) (o : fopts) (start stop : option nat) (s : fstate) : fstate * xout :=
  let n := length (status s) in
  let '(s', r) := py_solve_se float PrimFloat.sub PrimFloat.abs PrimFloat.ltb fisfin fzero
                              (F_py_hook orc prog n) (no_hook float) (no_hook float) d o start stop s in
  (s', XL r).

Definition F_evaluate (orc : oracles) (prog : list feqn) (fm : fmod) (t : Z) (s : fstate) : fstate * xout :=
  let '(s', r) := w_evaluate float (F_f_pass orc prog) fm t s in (s', XU r).
Definition F_solve_t (orc : oracles) (prog : list feqn) (fm : fmod) (d : mdesc) (o : fopts) (t : Z) (s : fstate) : fstate * xout :=
  let '(s', r) := w_solve_t float PrimFloat.sub PrimFloat.abs PrimFloat.ltb fisfin fzero (F_f_pass orc prog) fm d o t s in (s', XB r).
Definition F_solve (orc : oracles) (prog : list feqn) (fm : fmod) (d : mdesc) (o : fopts) (fl : failmode) (ps : list nat)
           (s : fstate) : fstate * xout :=
  let '(s', r) := w_solve float PrimFloat.sub PrimFloat.abs PrimFloat.ltb fisfin fzero (F_f_pass orc prog) fm d o fl ps s in (s', XL r).

Definition F_solve_se (orc : oracles) (prog : list feqn) (fm : fmod) (d : mdesc) (o : fopts) (fl : failmode) (start stop : option nat)
           (s : fstate) : fstate * xout :=
  let '(s', r) := w_solve_se float PrimFloat.sub PrimFloat.abs PrimFloat.ltb fisfin fzero (F_f_pass orc prog) fm d o fl start stop s in (s', XL r).

(* ---- comparison with the observations ---- *)
Definition state_eqb_nolog (a b : fstate) : bool :=
  list_eqb (list_eqb feq_bits) (vals_of a) (vals_of b)
  && list_eqb st_eqb (status a) (status b)
  && list_eqb Z.eqb (iters a) (iters b).
Definition oc_eqb {A} (eq : A -> A -> bool) (a b : outcome A) : bool :=
  match a, b with Ret x, Ret y => eq x y | Raise x, Raise y => exn_eqb x y | _, _ => false end.
Definition xout_eqb (a b : xout) : bool :=
  match a, b with
  | XU x, XU y => oc_eqb (fun _ _ => true) x y
  | XB x, XB y => oc_eqb Bool.eqb x y
  | XL x, XL y => oc_eqb (list_eqb Bool.eqb) x y
  | XNoCompile, XNoCompile => true
  | _, _ => false
  end.

Record ccase := mkCC {
  cc_prog : list feqn; cc_desc : mdesc; cc_fmod : fmod; cc_opts : fopts; cc_fail : failmode;
  cc_entry : entry; cc_state : fstate;
  cc_por : oracles; cc_for : oracles;                        (* oracle tables for the Python / the Fortran model *)
  cc_py : option (fstate * xout);                            (* observation of the Python engine (None: not compared) *)
  cc_f : option (fstate * xout) }.                           (* observation of the Fortran engine *)

Definition run_py (c : ccase) : fstate * xout :=
  match cc_entry c with
  | EEvaluate t => P_evaluate (cc_por c) (cc_prog c) t (cc_state c)
  | ESolveT t => P_solve_t (cc_por c) (cc_prog c) (cc_desc c) (cc_opts c) t (cc_state c)
  | ESolve ps => P_solve (cc_por c) (cc_prog c) (cc_desc c) (cc_opts c) ps (cc_state c)
  | ESolveSE a b => P_solve_se (cc_por c) (cc_prog c) (cc_desc c) (cc_opts c) a b (cc_state c)
  end.
Definition run_f (c : ccase) : fstate * xout :=
  if negb (F_f_compiles (cc_prog c)) then (cc_state c, XNoCompile) else
  match cc_entry c with
  | EEvaluate t => F_evaluate (cc_for c) (cc_prog c) (cc_fmod c) t (cc_state c)
  | ESolveT t => F_solve_t (cc_for c) (cc_prog c) (cc_fmod c) (cc_desc c) (cc_opts c) t (cc_state c)
  | ESolve ps => F_solve (cc_for c) (cc_prog c) (cc_fmod c) (cc_desc c) (cc_opts c) (cc_fail c) ps (cc_state c)
  | ESolveSE a b => F_solve_se (cc_for c) (cc_prog c) (cc_fmod c) (cc_desc c) (cc_opts c) (cc_fail c) a b (cc_state c)
  end.
Definition obs_eqb (m x : fstate * xout) : bool := state_eqb_nolog (fst m) (fst x) && xout_eqb (snd m) (snd x).
Definition check_cc (c : ccase) : bool :=
  match cc_py c with Some x => obs_eqb (run_py c) x | None => true end
  && match cc_f c with Some x => obs_eqb (run_f c) x | None => true end.
