(* FBenignFacts.v — THE EXPRESSION SUBSET COMMON TO BOTH BACK-ENDS, with literals: an expression is `benign` when every
   literal in it (an integer literal that fits INTEGER(4), or a decimal literal that is exactly representable in binary32)
   is an immediate operand of + - * / whose other operand is a REAL(8) expression; everything else is built from variables
   with + - * / **, unary minus, parentheses, abs, exp, log, max, min.  On it both evaluators compute FSem.lf_sem.
   (Outside it: 1/2, 0.1*X, min(1,X), exp(2), 2**X, X**2 — the kept findings and the powi class.) *)
From Coq Require Import ZArith List Bool Lia.
Import ListNotations.
Require Import PyBase Solver FSem FSemFacts.
Open Scope Z_scope.

Section Benign.
  Variable num : Type.
  Variables (add sub mul div : num -> num -> num) (neg absf : num -> num) (ltb : num -> num -> bool).
  Variables (is_nan is_inf : num -> bool).
  Variable of_int : Z -> num.
  Variables (fexp flog : num -> num) (fpow : num -> num -> num).
  Variable round4 : num -> num.
  Variables (exp4 log4 : num -> num) (pow4 : num -> num -> num).
  Variables (zero one : num).

  Notation expr := (expr num).
  Notation py_eval := (py_eval num add sub mul div neg absf ltb is_nan is_inf of_int fexp flog fpow).
  Notation f_eval := (f_eval num add sub mul div neg absf ltb of_int fexp flog fpow round4 exp4 log4 pow4 one).
  Notation lf_sem := (lf_sem num add sub mul div neg absf ltb of_int fexp flog fpow).
  Notation fop := (fop num add sub mul div fpow).
  Notation warns := (warns num is_nan is_inf).
  Notation reads := (reads num).
  Notation f_regroup := (f_regroup num).
  Notation mm_det := (mm_det num add sub mul div neg absf ltb of_int fexp flog fpow).
  Notation quiet := (quiet num add sub mul div neg absf ltb is_nan is_inf of_int fexp flog fpow).
  Notation literal_free := (literal_free num).

  (* LITERAL-ONLY SUBEXPRESSIONS the two languages read as the same binary64 number once they meet a REAL(8) operand:

     int_atom   integer literals that fit INTEGER(4), combined by + - * (and parentheses): Python computes with ints, Fortran with
                INTEGER(4); at each operator the integer result converts to the number the REAL(8) reading gives (for binary64 this
                is a closed computation on the literals: sums and products of 32-bit integers below 2^53 are exact).  Integer
                division, ** and results beyond INTEGER(4) are outside (kept findings / compile errors)
     dec_atom   a decimal literal that is exactly representable in binary32, possibly under unary minus, abs( ) and parentheses
                (negation and abs are exact in either precision): -1.5, abs(-0.25)                                              *)
  Fixpoint ival (e : expr) : Z :=
    match e with
    | EInt z => z
    | EPar a => ival a
    | EBin OAdd a b => ival a + ival b
    | EBin OSub a b => ival a - ival b
    | EBin OMul a b => ival a * ival b
    | _ => 0
    end.
  Fixpoint int_atom (e : expr) : Prop :=
    match e with
    | EInt z => int32 z = true
    | EPar a => int_atom a
    | EBin o a b =>
        match o with
        | OAdd | OSub | OMul =>
            int_atom a /\ int_atom b /\ of_int (ival (EBin o a b)) = fop o (of_int (ival a)) (of_int (ival b))
        | _ => False
        end
    | _ => False
    end.
  Fixpoint dec_atom (e : expr) : Prop :=
    match e with
    | EDec d8 d4 => d4 = d8
    | EPar a | ENeg a | EAbs a => dec_atom a
    | _ => False
    end.
  Definition lit_atom (e : expr) : Prop := int_atom e \/ dec_atom e.

  Fixpoint benign (e : expr) : Prop :=
    match e with
    | EVar _ _ => True
    | EInt _ | EDec _ _ => False
    | ENeg a | EPar a | EAbs a | EExp a | ELog a => benign a
    | EBin o a b =>
        match o with
        | OPow => benign a /\ benign b
        | _ => (benign a \/ lit_atom a) /\ (benign b \/ lit_atom b) /\ (benign a \/ benign b)
        end
    | EMM _ a b => (benign a \/ dec_atom a) /\ (benign b \/ dec_atom b) /\ (benign a \/ benign b)     (* max(X, 0.0), min(1.5, X) *)
    end.

  Lemma literal_free_benign (e : expr) : literal_free e = true -> benign e.
  Proof.
    induction e as [i k|z|d8 d4|a IHa|a IHa|o a IHa b IHb|a IHa|a IHa|a IHa|m a IHa b IHb];
      cbn [FSem.literal_free benign]; intros H; try discriminate; auto.
    - apply andb_true_iff in H as [Ha Hb]. destruct o; auto.
    - apply andb_true_iff in H as [Ha Hb]. auto.
  Qed.

  Lemma int_atom_both catch (rdp : nat -> Z -> option num) (rdf : nat -> Z -> num) (e : expr) :
    int_atom e ->
    py_eval catch rdp e = inl (PI (ival e)) /\ f_eval rdf e = Some (FI (ival e)) /\ of_int (ival e) = lf_sem rdf e.
  Proof.
    induction e as [i k|z|d8 d4|a IHa|a IHa|o a IHa b IHb|a IHa|a IHa|a IHa|m a IHa b IHb]; cbn [int_atom]; intros H; try contradiction.
    - cbn [FSem.py_eval FSem.f_eval FSem.lf_sem ival]. rewrite H. auto.
    - cbn [FSem.py_eval FSem.f_eval FSem.lf_sem ival]. apply IHa. exact H.
    - destruct o; try contradiction; destruct H as (Ha & Hb & Hh);
        destruct (IHa Ha) as (Pa & Fa & Sa); destruct (IHb Hb) as (Pb & Fb & Sb);
        cbn [FSem.py_eval FSem.f_eval FSem.lf_sem]; rewrite Pa, Pb, Fa, Fb; cbn [FSem.py_bin FSem.f_bin ival];
        (split; [reflexivity|]); (split; [reflexivity|]); rewrite <- Sa, <- Sb; exact Hh.
  Qed.

  Lemma dec_atom_both catch (rdp : nat -> Z -> option num) (rdf : nat -> Z -> num) (e : expr) :
    dec_atom e ->
    py_eval catch rdp e = inl (PF (lf_sem rdf e)) /\ f_eval rdf e = Some (F4 (lf_sem rdf e)).
  Proof.
    induction e as [i k|z|d8 d4|a IHa|a IHa|o a IHa b IHb|a IHa|a IHa|a IHa|m a IHa b IHb]; cbn [dec_atom]; intros H; try contradiction.
    - subst d4. cbn [FSem.py_eval FSem.f_eval FSem.lf_sem]. auto.
    - destruct (IHa H) as [P F]. cbn [FSem.py_eval FSem.f_eval FSem.lf_sem]. rewrite P, F. auto.
    - cbn [FSem.py_eval FSem.f_eval FSem.lf_sem]. apply IHa. exact H.
    - destruct (IHa H) as [P F]. cbn [FSem.py_eval FSem.f_eval FSem.lf_sem]. rewrite P, F. auto.
  Qed.

  (* an atom: both evaluators produce a value that converts to lf_sem, and neither needs the store *)
  Lemma atom_both catch (rdp : nat -> Z -> option num) (rdf : nat -> Z -> num) (e : expr) :
    lit_atom e ->
    exists pa fa, py_eval catch rdp e = inl pa /\ f_eval rdf e = Some fa /\
                  tof num of_int pa = lf_sem rdf e /\ to8 num of_int fa = lf_sem rdf e /\ is8 num fa = false.
  Proof.
    intros [H|H].
    - destruct (int_atom_both catch rdp rdf e H) as (P & F & S). exists (PI (ival e)), (FI (ival e)). cbn [FSem.tof FSem.to8 FSem.is8]. auto.
    - destruct (dec_atom_both catch rdp rdf e H) as (P & F). exists (PF (lf_sem rdf e)), (F4 (lf_sem rdf e)). cbn [FSem.tof FSem.to8 FSem.is8]. auto.
  Qed.

  (* py_bin / f_bin when at least one operand is a REAL(8) value *)
  Lemma py_bin_float catch o (pa pb : pv num) :
    (match pa, pb with PI _, PI _ => False | _, _ => True end) ->
    py_bin num add sub mul div is_nan is_inf of_int fpow catch o pa pb
    = pfloat num is_nan is_inf catch (fop o (tof num of_int pa) (tof num of_int pb)) [tof num of_int pa; tof num of_int pb].
  Proof. destruct pa, pb; intros H; try contradiction; reflexivity. Qed.

  Lemma f_bin_8 o (fa fb : fv num) : o <> OPow -> is8 num fa || is8 num fb = true ->
    f_bin num add sub mul div of_int fpow round4 pow4 one o fa fb
    = Some (F8 (fop o (to8 num of_int fa) (to8 num of_int fb))).
  Proof.
    intros Ho H. destruct fa, fb; cbn [FSem.is8 orb] in H; try discriminate; destruct o; try contradiction; reflexivity.
  Qed.

  Lemma benign_both catch (rdp : nat -> Z -> option num) (rdf : nat -> Z -> num) (e : expr) :
    benign e ->
    (forall i k, In (i, k) (reads e) -> rdp i k = Some (rdf i k)) ->
    mm_det rdf e ->
    (catch = false \/ quiet rdf e) ->
    py_eval catch rdp e = inl (PF (lf_sem rdf e)) /\ f_eval rdf e = Some (F8 (lf_sem rdf e)).
  Proof.
    induction e as [i k|z|d8 d4|a IHa|a IHa|o a IHa b IHb|a IHa|a IHa|a IHa|m a IHa b IHb];
      intros Hb Hrd Hmm Hq; cbn [benign] in Hb; try contradiction.
    - cbn [FSem.py_eval FSem.f_eval FSem.lf_sem]. rewrite (Hrd i k) by (left; reflexivity). auto.
    - destruct (IHa Hb Hrd Hmm) as [P F]. { destruct Hq as [Hq|Hq]; [left; exact Hq|right; exact Hq]. }
      cbn [FSem.py_eval FSem.f_eval FSem.lf_sem]. rewrite P, F. auto.
    - destruct (IHa Hb Hrd Hmm) as [P F]. { destruct Hq as [Hq|Hq]; [left; exact Hq|right; exact Hq]. }
      cbn [FSem.py_eval FSem.f_eval FSem.lf_sem]. rewrite P, F. auto.
    - (* binary operator *)
      cbn [FSemFacts.mm_det] in Hmm. destruct Hmm as [Ma Mb]. cbn [FSem.reads] in Hrd.
      assert (Hrda : forall i k, In (i, k) (reads a) -> rdp i k = Some (rdf i k)) by (intros i k H; apply Hrd; apply in_or_app; left; exact H).
      assert (Hrdb : forall i k, In (i, k) (reads b) -> rdp i k = Some (rdf i k)) by (intros i k H; apply Hrd; apply in_or_app; right; exact H).
      assert (Hqa : catch = false \/ quiet rdf a) by (destruct Hq as [Hq|Hq]; [left; exact Hq|right; apply Hq]).
      assert (Hqb : catch = false \/ quiet rdf b) by (destruct Hq as [Hq|Hq]; [left; exact Hq|right; apply Hq]).
      assert (Hw : catch = false \/ warns (fop o (lf_sem rdf a) (lf_sem rdf b)) [lf_sem rdf a; lf_sem rdf b] = false)
        by (destruct Hq as [Hq|Hq]; [left; exact Hq|right; apply Hq]).
      (* each operand: a REAL(8) expression, or an atom *)
      assert (Ha : (benign a \/ lit_atom a) /\ (benign b \/ lit_atom b) /\ (benign a \/ benign b) /\ (o = OPow -> benign a /\ benign b)).
      { destruct o; try (destruct Hb as (H1 & H2 & H3); repeat split; auto; discriminate).
        destruct Hb as [H1 H2]. repeat split; auto. }
      destruct Ha as (Ha & Hb' & Hab & Hpow).
      assert (Ea : exists pa fa, py_eval catch rdp a = inl pa /\ f_eval rdf a = Some fa /\
                                 tof num of_int pa = lf_sem rdf a /\ to8 num of_int fa = lf_sem rdf a /\
                                 (benign a -> pa = PF (lf_sem rdf a) /\ fa = F8 (lf_sem rdf a))).
      { destruct Ha as [Ha|Ha].
        - destruct (IHa Ha Hrda Ma Hqa) as [P F]. exists (PF (lf_sem rdf a)), (F8 (lf_sem rdf a)). repeat split; auto.
        - destruct (atom_both catch rdp rdf a Ha) as (pa & fa & H1 & H2 & H3 & H4 & H5). exists pa, fa.
          split; [exact H1|]. split; [exact H2|]. split; [exact H3|]. split; [exact H4|].
          intros Hben. destruct (IHa Hben Hrda Ma Hqa) as [P F]. rewrite P in H1. rewrite F in H2. inversion H1. inversion H2. split; reflexivity. }
      assert (Eb : exists pb fb, py_eval catch rdp b = inl pb /\ f_eval rdf b = Some fb /\
                                 tof num of_int pb = lf_sem rdf b /\ to8 num of_int fb = lf_sem rdf b /\
                                 (benign b -> pb = PF (lf_sem rdf b) /\ fb = F8 (lf_sem rdf b))).
      { destruct Hb' as [Hb'|Hb'].
        - destruct (IHb Hb' Hrdb Mb Hqb) as [P F]. exists (PF (lf_sem rdf b)), (F8 (lf_sem rdf b)). repeat split; auto.
        - destruct (atom_both catch rdp rdf b Hb') as (pb & fb & H1 & H2 & H3 & H4 & H5). exists pb, fb.
          split; [exact H1|]. split; [exact H2|]. split; [exact H3|]. split; [exact H4|].
          intros Hben. destruct (IHb Hben Hrdb Mb Hqb) as [P F]. rewrite P in H1. rewrite F in H2. inversion H1. inversion H2. split; reflexivity. }
      destruct Ea as (pa & fa & Pa & Fa & Ta & T8a & Ba). destruct Eb as (pb & fb & Pb & Fb & Tb & T8b & Bb).
      cbn [FSem.py_eval FSem.f_eval FSem.lf_sem]. rewrite Pa, Pb, Fa, Fb. split.
      + rewrite py_bin_float.
        * rewrite Ta, Tb. unfold FSem.pfloat. destruct Hw as [->|Hw]; [reflexivity|]. rewrite Hw, andb_false_r. reflexivity.
        * destruct Hab as [H|H]; [destruct (Ba H) as [-> _]; exact I|destruct (Bb H) as [-> _]; destruct pa; exact I].
      + assert (His8 : is8 num fa || is8 num fb = true).
        { destruct Hab as [H|H]; [destruct (Ba H) as [_ ->]; reflexivity|destruct (Bb H) as [_ ->]; cbn [FSem.is8]; apply orb_true_r]. }
        destruct o; try (rewrite f_bin_8; [rewrite T8a, T8b; reflexivity|discriminate|exact His8]).
        destruct (Hpow eq_refl) as [H1 H2]. destruct (Ba H1) as [_ ->]. destruct (Bb H2) as [_ ->]. reflexivity.
    - destruct (IHa Hb Hrd Hmm) as [P F]. { destruct Hq as [Hq|Hq]; [left; exact Hq|right; exact Hq]. }
      cbn [FSem.py_eval FSem.f_eval FSem.lf_sem]. rewrite P, F. auto.
    - destruct (IHa Hb Hrd Hmm) as [P F]. { destruct Hq as [Hq|Hq]; [left; exact Hq|right; apply Hq]. }
      cbn [FSem.py_eval FSem.f_eval FSem.lf_sem]. rewrite P, F. split; [|reflexivity].
      cbn [FSem.tof]. unfold FSem.pfloat.
      destruct Hq as [->|Hq]; [reflexivity|]. cbn [FSemFacts.quiet] in Hq. destruct Hq as (_ & Hw). rewrite Hw, andb_false_r. reflexivity.
    - destruct (IHa Hb Hrd Hmm) as [P F]. { destruct Hq as [Hq|Hq]; [left; exact Hq|right; apply Hq]. }
      cbn [FSem.py_eval FSem.f_eval FSem.lf_sem]. rewrite P, F. split; [|reflexivity].
      cbn [FSem.tof]. unfold FSem.pfloat.
      destruct Hq as [->|Hq]; [reflexivity|]. cbn [FSemFacts.quiet] in Hq. destruct Hq as (_ & Hw). rewrite Hw, andb_false_r. reflexivity.
    - destruct Hb as (Ba & Bb & Bab). cbn [FSemFacts.mm_det] in Hmm. destruct Hmm as (Ma & Mb & Hord). cbn [FSem.reads] in Hrd.
      assert (Hrda : forall i k, In (i, k) (reads a) -> rdp i k = Some (rdf i k)) by (intros i k H; apply Hrd; apply in_or_app; left; exact H).
      assert (Hrdb : forall i k, In (i, k) (reads b) -> rdp i k = Some (rdf i k)) by (intros i k H; apply Hrd; apply in_or_app; right; exact H).
      assert (Hqa : catch = false \/ quiet rdf a) by (destruct Hq as [Hq|Hq]; [left; exact Hq|right; apply Hq]).
      assert (Hqb : catch = false \/ quiet rdf b) by (destruct Hq as [Hq|Hq]; [left; exact Hq|right; apply Hq]).
      assert (Ea : py_eval catch rdp a = inl (PF (lf_sem rdf a)) /\
                   (f_eval rdf a = Some (F8 (lf_sem rdf a)) \/ (f_eval rdf a = Some (F4 (lf_sem rdf a)) /\ ~ benign a))).
      { destruct Ba as [Ba|Ba].
        - destruct (IHa Ba Hrda Ma Hqa) as [P F]. auto.
        - destruct (dec_atom_both catch rdp rdf a Ba) as [P F]. split; [exact P|]. right. split; [exact F|].
          intros Hben. destruct (IHa Hben Hrda Ma Hqa) as [_ F']. rewrite F in F'. discriminate. }
      assert (Eb : py_eval catch rdp b = inl (PF (lf_sem rdf b)) /\
                   (f_eval rdf b = Some (F8 (lf_sem rdf b)) \/ (f_eval rdf b = Some (F4 (lf_sem rdf b)) /\ ~ benign b))).
      { destruct Bb as [Bb|Bb].
        - destruct (IHb Bb Hrdb Mb Hqb) as [P F]. auto.
        - destruct (dec_atom_both catch rdp rdf b Bb) as [P F]. split; [exact P|]. right. split; [exact F|].
          intros Hben. destruct (IHb Hben Hrdb Mb Hqb) as [_ F']. rewrite F in F'. discriminate. }
      destruct Ea as [Pa Fa]. destruct Eb as [Pb Fb].
      cbn [FSem.py_eval FSem.f_eval]. rewrite Pa, Pb. split.
      + f_equal. unfold FSem.py_mm, FSem.py_lt. cbn [FSem.tof].
        pose proof (mm_same num ltb m _ _ Hord) as Hs. destruct m; cbn [FSem.lf_sem].
        * destruct (ltb (lf_sem rdf a) (lf_sem rdf b)); rewrite <- Hs; reflexivity.
        * destruct (ltb (lf_sem rdf b) (lf_sem rdf a)); rewrite <- Hs; reflexivity.
      + destruct Fa as [Fa|[Fa Na]]; destruct Fb as [Fb|[Fb Nb]]; rewrite Fa, Fb;
          try (cbn [FSem.f_mm FSem.to8 FSem.is8 orb]; destruct m; reflexivity).
        exfalso. destruct Bab as [H|H]; [exact (Na H)|exact (Nb H)].
  Qed.
  (* ---------------- Fortran's reading of a leading minus keeps the class ---------------- *)
  Lemma regroup_int_atom_id (e : expr) : int_atom e -> f_regroup e = e.
  Proof.
    induction e as [i k|z|d8 d4|a IHa|a IHa|o a IHa b IHb|a IHa|a IHa|a IHa|m a IHa b IHb]; cbn [int_atom FSem.f_regroup]; intros H; try contradiction; auto.
    - rewrite IHa by exact H. reflexivity.
    - destruct o; try contradiction; destruct H as (Ha & Hb & _); rewrite IHa, IHb by assumption; cbn [is_mul]; try reflexivity.
      destruct a; cbn [int_atom] in Ha; try contradiction; reflexivity.
  Qed.
  Lemma regroup_dec_atom_id (e : expr) : dec_atom e -> f_regroup e = e.
  Proof.
    induction e as [i k|z|d8 d4|a IHa|a IHa|o a IHa b IHb|a IHa|a IHa|a IHa|m a IHa b IHb]; cbn [dec_atom FSem.f_regroup]; intros H; try contradiction; auto;
      rewrite IHa by exact H; reflexivity.
  Qed.
  Lemma regroup_atom (e : expr) : lit_atom e -> lit_atom (f_regroup e).
  Proof. intros [H|H]; [rewrite regroup_int_atom_id by exact H; left; exact H|rewrite regroup_dec_atom_id by exact H; right; exact H]. Qed.
  Lemma regroup_dec_atom (e : expr) : dec_atom e -> dec_atom (f_regroup e).
  Proof. intros H. rewrite regroup_dec_atom_id by exact H. exact H. Qed.

  Lemma regroup_benign (e : expr) : benign e -> benign (f_regroup e).
  Proof.
    induction e as [i k|z|d8 d4|a IHa|a IHa|o a IHa b IHb|a IHa|a IHa|a IHa|m a IHa b IHb]; cbn [benign FSem.f_regroup]; auto.
    - intros Hb.
      assert (Hb2 : (benign b \/ lit_atom b) -> (benign (f_regroup b) \/ lit_atom (f_regroup b))).
      { intros [H|H]; [left; apply IHb; exact H|right; apply regroup_atom; exact H]. }
      assert (Ha2 : (benign a \/ lit_atom a) -> (benign (f_regroup a) \/ lit_atom (f_regroup a))).
      { intros [H|H]; [left; apply IHa; exact H|right; apply regroup_atom; exact H]. }
      destruct o; cbn [is_mul].
      + cbn [benign]. destruct Hb as (H1 & H2 & H3). split; [apply Ha2; exact H1|]. split; [apply Hb2; exact H2|].
        destruct H3 as [H3|H3]; [left; apply IHa; exact H3|right; apply IHb; exact H3].
      + cbn [benign]. destruct Hb as (H1 & H2 & H3). split; [apply Ha2; exact H1|]. split; [apply Hb2; exact H2|].
        destruct H3 as [H3|H3]; [left; apply IHa; exact H3|right; apply IHb; exact H3].
      + (* OMul *) destruct Hb as (H1 & H2 & H3).
        assert (G : benign (EBin OMul (f_regroup a) (f_regroup b))).
        { cbn [benign]. split; [apply Ha2; exact H1|]. split; [apply Hb2; exact H2|].
          destruct H3 as [H3|H3]; [left; apply IHa; exact H3|right; apply IHb; exact H3]. }
        destruct (f_regroup a) eqn:Ea; try exact G.
        cbn [benign] in G |- *. destruct G as (G1 & G2 & G3). destruct G1 as [G1|[G1|G1]].
        * split; [left; exact G1|]. split; [exact G2|]. left; exact G1.
        * cbn [int_atom] in G1. contradiction.
        * cbn [dec_atom] in G1. split; [right; right; exact G1|]. split; [exact G2|]. exact G3.
      + (* ODiv *) destruct Hb as (H1 & H2 & H3).
        assert (G : benign (EBin ODiv (f_regroup a) (f_regroup b))).
        { cbn [benign]. split; [apply Ha2; exact H1|]. split; [apply Hb2; exact H2|].
          destruct H3 as [H3|H3]; [left; apply IHa; exact H3|right; apply IHb; exact H3]. }
        destruct (f_regroup a) eqn:Ea; try exact G.
        cbn [benign] in G |- *. destruct G as (G1 & G2 & G3). destruct G1 as [G1|[G1|G1]].
        * split; [left; exact G1|]. split; [exact G2|]. left; exact G1.
        * cbn [int_atom] in G1. contradiction.
        * cbn [dec_atom] in G1. split; [right; right; exact G1|]. split; [exact G2|]. exact G3.
      + cbn [benign]. destruct Hb as (H1 & H2). split; [apply IHa; exact H1|apply IHb; exact H2].
    - intros (Ha & Hb & Hab). split; [|split].
      + destruct Ha as [H|H]; [left; apply IHa; exact H|right; apply regroup_dec_atom; exact H].
      + destruct Hb as [H|H]; [left; apply IHb; exact H|right; apply regroup_dec_atom; exact H].
      + destruct Hab as [H|H]; [left; apply IHa; exact H|right; apply IHb; exact H].
  Qed.

  (* ---------------- "the Fortran source compiles", as far as the kinds of the expressions go ---------------- *)
  (* whatever the store holds, a benign expression has a REAL(8) value in the Fortran reading: no operator meets operands whose
     kinds gfortran rejects (that the TEXT is well-formed Fortran is the subject of FParse / FWrap and of K) *)
  Lemma benign_f_eval_some (e : expr) : benign e -> forall rd, exists x, f_eval rd e = Some (F8 x).
  Proof.
    induction e as [i k|z|d8 d4|a IHa|a IHa|o a IHa b IHb|a IHa|a IHa|a IHa|m a IHa b IHb]; cbn [benign]; intros Hb rd; try contradiction.
    - eexists. reflexivity.
    - destruct (IHa Hb rd) as [x Hx]. cbn [FSem.f_eval]. rewrite Hx. eexists. reflexivity.
    - cbn [FSem.f_eval]. apply IHa. exact Hb.
    - assert (Hab : (benign a \/ lit_atom a) /\ (benign b \/ lit_atom b) /\ (benign a \/ benign b) /\ (o = OPow -> benign a /\ benign b)).
      { destruct o; try (destruct Hb as (H1 & H2 & H3); repeat split; auto; discriminate). destruct Hb as [H1 H2]. repeat split; auto. }
      destruct Hab as (Ha & Hb' & Hab & Hpow).
      assert (Va : exists fa, f_eval rd a = Some fa /\ (benign a -> exists x, fa = F8 x)).
      { destruct Ha as [Ha|Ha].
        - destruct (IHa Ha rd) as [x Hx]. exists (F8 x). split; [exact Hx|]. intros _. eexists. reflexivity.
        - destruct (atom_both false (fun _ _ => None) rd a Ha) as (pa & fa & _ & H2 & _). exists fa. split; [exact H2|].
          intros Hben. destruct (IHa Hben rd) as [x Hx]. rewrite H2 in Hx. inversion Hx. eexists. reflexivity. }
      assert (Vb : exists fb, f_eval rd b = Some fb /\ (benign b -> exists x, fb = F8 x)).
      { destruct Hb' as [Hb'|Hb'].
        - destruct (IHb Hb' rd) as [x Hx]. exists (F8 x). split; [exact Hx|]. intros _. eexists. reflexivity.
        - destruct (atom_both false (fun _ _ => None) rd b Hb') as (pb & fb & _ & H2 & _). exists fb. split; [exact H2|].
          intros Hben. destruct (IHb Hben rd) as [x Hx]. rewrite H2 in Hx. inversion Hx. eexists. reflexivity. }
      destruct Va as (fa & Fa & Ba). destruct Vb as (fb & Fb & Bb).
      cbn [FSem.f_eval]. rewrite Fa, Fb.
      assert (His8 : is8 num fa || is8 num fb = true).
      { destruct Hab as [H|H]; [destruct (Ba H) as [x ->]; reflexivity|destruct (Bb H) as [x ->]; cbn [FSem.is8]; apply orb_true_r]. }
      destruct o; try (rewrite f_bin_8; [eexists; reflexivity|discriminate|exact His8]).
      destruct (Hpow eq_refl) as [H1 H2]. destruct (Ba H1) as [x ->]. destruct (Bb H2) as [y ->]. eexists. reflexivity.
    - destruct (IHa Hb rd) as [x Hx]. cbn [FSem.f_eval]. rewrite Hx. eexists. reflexivity.
    - destruct (IHa Hb rd) as [x Hx]. cbn [FSem.f_eval]. rewrite Hx. eexists. reflexivity.
    - destruct (IHa Hb rd) as [x Hx]. cbn [FSem.f_eval]. rewrite Hx. eexists. reflexivity.
    - destruct Hb as (Ha & Hb & Hab).
      assert (Va : (exists x, f_eval rd a = Some (F8 x)) \/ ((exists x, f_eval rd a = Some (F4 x)) /\ ~ benign a)).
      { destruct Ha as [Ha|Ha]; [left; apply IHa; exact Ha|].
        destruct (dec_atom_both false (fun _ _ => None) rd a Ha) as [_ F]. right. split; [eexists; exact F|].
        intros Hben. destruct (IHa Hben rd) as [x Hx]. rewrite F in Hx. discriminate. }
      assert (Vb : (exists x, f_eval rd b = Some (F8 x)) \/ ((exists x, f_eval rd b = Some (F4 x)) /\ ~ benign b)).
      { destruct Hb as [Hb|Hb]; [left; apply IHb; exact Hb|].
        destruct (dec_atom_both false (fun _ _ => None) rd b Hb) as [_ F]. right. split; [eexists; exact F|].
        intros Hben. destruct (IHb Hben rd) as [x Hx]. rewrite F in Hx. discriminate. }
      cbn [FSem.f_eval].
      destruct Va as [[x Hx]|[[x Hx] Na]]; destruct Vb as [[y Hy]|[[y Hy] Nb]]; rewrite Hx, Hy;
        try (cbn [FSem.f_mm FSem.to8 FSem.is8 orb]; destruct m; eexists; reflexivity).
      exfalso. destruct Hab as [H|H]; [exact (Na H)|exact (Nb H)].
  Qed.

  (* a program of benign equations is accepted: FSem.f_compiles = true *)
  Theorem benign_compiles (prog : list (eqn num)) :
    Forall (fun q => benign (snd q)) prog ->
    f_compiles num add sub mul div neg absf ltb of_int fexp flog fpow round4 exp4 log4 pow4 zero one prog = true.
  Proof.
    intros H. unfold f_compiles. apply forallb_forall. intros q Hq. rewrite Forall_forall in H.
    destruct (benign_f_eval_some (f_regroup (snd q)) (regroup_benign (snd q) (H q Hq)) (fun _ _ => zero)) as [x ->]. reflexivity.
  Qed.

  Lemma regroup_reads_in (e : expr) ik : In ik (reads (f_regroup e)) <-> In ik (reads e).
  Proof.
    induction e as [i k|z|d8 d4|a IHa|a IHa|o a IHa b IHb|a IHa|a IHa|a IHa|m a IHa b IHb];
      cbn [FSem.f_regroup FSem.reads]; try tauto.
    - destruct (is_mul o).
      + destruct (f_regroup a) eqn:Ea; cbn [FSem.reads] in *; rewrite !in_app_iff in *; tauto.
      + cbn [FSem.reads]. rewrite !in_app_iff. tauto.
    - rewrite !in_app_iff. tauto.
  Qed.

  Notation neg_sym := (neg_sym num add sub mul div neg absf ltb of_int fexp flog fpow).

  (* THE agreement theorem on the common subset, with the sign symmetry asked only at the values the expression meets *)
  Theorem benign_agree_local catch (rdp : nat -> Z -> option num) (rdf : nat -> Z -> num) (e : expr) :
    benign e ->
    (forall i k, In (i, k) (reads e) -> rdp i k = Some (rdf i k)) ->
    mm_det rdf e -> neg_sym rdf e ->
    (catch = false \/ quiet rdf e) ->
    py_eval catch rdp e = inl (PF (lf_sem rdf e)) /\ f_eval rdf (f_regroup e) = Some (F8 (lf_sem rdf e)).
  Proof.
    intros Hb Hrd Hmm Hns Hq. split.
    - apply (benign_both catch rdp rdf e Hb Hrd Hmm Hq).
    - rewrite <- (regroup_sem_local num add sub mul div neg absf ltb of_int fexp flog fpow rdf e Hns).
      apply (benign_both false rdp rdf (f_regroup e)).
      + apply regroup_benign. exact Hb.
      + intros i k H. apply Hrd. apply regroup_reads_in. exact H.
      + apply (regroup_mm_det_local num add sub mul div neg absf ltb of_int fexp flog fpow); assumption.
      + left. reflexivity.
  Qed.

  Section Regroup.
    Hypothesis neg_mul : forall x y, mul (neg x) y = neg (mul x y).
    Hypothesis neg_div : forall x y, div (neg x) y = neg (div x y).

    (* THE agreement theorem on the common subset: the class generated by fsic.parser and the compiled Fortran (which
       regroups a leading minus) compute the same REAL(8) value, lf_sem *)
    Theorem benign_agree catch (rdp : nat -> Z -> option num) (rdf : nat -> Z -> num) (e : expr) :
      benign e ->
      (forall i k, In (i, k) (reads e) -> rdp i k = Some (rdf i k)) ->
      mm_det rdf e ->
      (catch = false \/ quiet rdf e) ->
      py_eval catch rdp e = inl (PF (lf_sem rdf e)) /\ f_eval rdf (f_regroup e) = Some (F8 (lf_sem rdf e)).
    Proof.
      intros Hb Hrd Hmm Hq. split.
      - apply (benign_both catch rdp rdf e Hb Hrd Hmm Hq).
      - rewrite <- (regroup_sem num add sub mul div neg absf ltb of_int fexp flog fpow neg_mul neg_div rdf e).
        apply (benign_both false rdp rdf (f_regroup e)).
        + apply regroup_benign. exact Hb.
        + intros i k H. apply Hrd. apply regroup_reads_in. exact H.
        + apply (regroup_mm_det num add sub mul div neg absf ltb of_int fexp flog fpow neg_mul neg_div). exact Hmm.
        + left. reflexivity.
    Qed.
  End Regroup.
End Benign.
