(* FParseFacts.v — facts about the Fortran-text parser of FParse.v. *)
From Coq Require Import Ascii String List Bool ZArith Arith.
Import ListNotations.
Require Import FText FSem FParse.
Open Scope Z_scope.

(* re-reading the Python tree the Fortran way commutes with giving the decimal literals their values: the tree K compares
   the parsed text with is the tree FSem.f_pass evaluates *)
Theorem regroup_to_expr num (dec : Z -> nat -> num * num) (s : sexpr) :
  to_expr num dec (s_regroup s) = f_regroup num (to_expr num dec s).
Proof.
  induction s as [i k|z|m sc|a IHa|a IHa|o a IHa b IHb|a IHa|a IHa|a IHa|m a IHa b IHb];
    cbn [s_regroup to_expr f_regroup]; try congruence.
  destruct (is_mul o).
  - rewrite <- IHa, <- IHb. destruct (s_regroup a); reflexivity.
  - cbn [to_expr]. congruence.
Qed.

(* the grammar at work: a leading minus takes the whole product, a minus after an operator only its operand, ** associates to
   the right and binds tighter than the sign in front of it *)
Example parse_leading_minus :
  parse_stmt (lit "solved_values(1, index) = -solved_values(2, index-1)*0.5 + max(solved_values(3, index), solved_values(4, index+2)) ** -2")
  = Some (0%nat, SBin OAdd (SNeg (SBin OMul (SVar 1 (-1)) (SDec 5 1)))
                           (SBin OPow (SMM MMax (SVar 2 0) (SVar 3 2)) (SNeg (SInt 2)))).
Proof. vm_compute. reflexivity. Qed.

Example parse_pow_right_assoc :
  parse_stmt (lit "solved_values(2, index) = -solved_values(1, index) ** 2 ** 3 / (solved_values(1, index) - 1.25) * -solved_values(3, index)")
  = Some (1%nat, SNeg (SBin OMul (SBin ODiv (SBin OPow (SVar 0 0) (SBin OPow (SInt 2) (SInt 3)))
                                             (SPar (SBin OSub (SVar 0 0) (SDec 125 2))))
                                  (SNeg (SVar 2 0)))).
Proof. vm_compute. reflexivity. Qed.

(* the parsed statement is the regrouped Python tree: `-a * b` (Python: (-a) * b) *)
Example parse_is_regrouped_python_tree :
  parse_stmt (lit "solved_values(1, index) = -solved_values(2, index) * solved_values(3, index)")
  = Some (0%nat, s_regroup (SBin OMul (SNeg (SVar 1 0)) (SVar 2 0))).
Proof. vm_compute. reflexivity. Qed.

(* a token split by a continuation (kept finding) is no statement of the grammar *)
Example parse_split_token :
  parse_stmt (lit "solved_values(1, index) = abs(ab    s(solved_values(2, index)))") = None.
Proof. vm_compute. reflexivity. Qed.

(* the whole path from an entry of the equations block: comment line dropped, continuation lines joined, parsed *)
Example block_matches_example :
  block_matches (block (lit "Y[t] = -X[t] * Z[t-1]") [lit "solved_values(1, index) = -solved_values(2, index) *"; lit "solved_values(3, index-1)"])
                0 (SBin OMul (SNeg (SVar 1 0)) (SVar 2 (-1))) = true.
Proof. vm_compute. reflexivity. Qed.
