(* FParseFacts.v — facts about the Fortran-text parser of FParse.v. *)
From Coq Require Import Ascii String List Bool ZArith Arith Lia DecimalString DecimalNat.
Import ListNotations.
Require Import FText FTextFacts FSem FParse.
Open Scope Z_scope.

(* re-reading the Python tree the Fortran way commutes with giving the decimal literals their values: the tree K compares
   the parsed text with is the tree FSem.f_pass evaluates *)
Theorem regroup_to_expr num (dec : Z -> nat -> num * num) (s : sexpr) :
  to_expr num dec (s_regroup s) = f_regroup num (to_expr num dec s).
Proof.
  induction s as [i k|z|m sc|m sc|a IHa|a IHa|o a IHa b IHb|a IHa|a IHa|a IHa|m a IHa b IHb];
    cbn [s_regroup to_expr f_regroup]; try congruence.
  destruct (is_mul o).
  - rewrite <- IHa, <- IHb. destruct (s_regroup a); reflexivity.
  - cbn [to_expr]. congruence.
Qed.

(* the grammar at work: a leading minus takes the whole product, a minus after an operator only its operand, ** associates to
   the right and binds tighter than the sign in front of it *)
Example parse_leading_minus :
  parse_stmt (lit "solved_values(1, index) = -solved_values(2, index-1)*0.5 + max(solved_values(3, index), solved_values(4, index+2)) ** -2")
  = Some (0%nat, SBin OAdd (SNeg (SBin OMul (SVar 1 (-1)) (SDec 5 1)))
                           (SBin OPow (SMM MMax (SVar 2 0) (SVar 3 2)) (SNeg (SInt 2)))).
Proof. vm_compute. reflexivity. Qed.

Example parse_pow_right_assoc :
  parse_stmt (lit "solved_values(2, index) = -solved_values(1, index) ** 2 ** 3 / (solved_values(1, index) - 1.25) * -solved_values(3, index)")
  = Some (1%nat, SNeg (SBin OMul (SBin ODiv (SBin OPow (SVar 0 0) (SBin OPow (SInt 2) (SInt 3)))
                                             (SPar (SBin OSub (SVar 0 0) (SDec 125 2))))
                                  (SNeg (SVar 2 0)))).
Proof. vm_compute. reflexivity. Qed.

(* the parsed statement is the regrouped Python tree: `-a * b` (Python: (-a) * b) *)
Example parse_is_regrouped_python_tree :
  parse_stmt (lit "solved_values(1, index) = -solved_values(2, index) * solved_values(3, index)")
  = Some (0%nat, s_regroup (SBin OMul (SNeg (SVar 1 0)) (SVar 2 0))).
Proof. vm_compute. reflexivity. Qed.

(* a token split by a continuation (kept finding) is no statement of the grammar *)
Example parse_split_token :
  parse_stmt (lit "solved_values(1, index) = abs(ab    s(solved_values(2, index)))") = None.
Proof. vm_compute. reflexivity. Qed.

(* the whole path from an entry of the equations block: comment line dropped, continuation lines joined, parsed *)
Example block_matches_example :
  block_matches (block (lit "Y[t] = -X[t] * Z[t-1]") [lit "solved_values(1, index) = -solved_values(2, index) *"; lit "solved_values(3, index-1)"])
                0 (SBin OMul (SNeg (SVar 1 0)) (SVar 2 (-1))) = true.
Proof. vm_compute. reflexivity. Qed.

(* ================================================================== the rewritten term is read back as its variable node *)
Lemma digits_acc (u : Decimal.uint) : forall acc : nat,
  fold_left (fun a c => a * 10 + digit_val c) (lit (NilEmpty.string_of_uint u)) (Z.of_nat acc) = Z.of_nat (Nat.of_uint_acc u acc).
Proof.
  induction u as [|u IH|u IH|u IH|u IH|u IH|u IH|u IH|u IH|u IH|u IH]; intros acc;
    cbn [NilEmpty.string_of_uint lit list_ascii_of_string fold_left Nat.of_uint_acc]; try reflexivity;
    rewrite <- IH; f_equal; rewrite Nat.tail_mul_spec; unfold digit_val, code_of;
    match goal with |- context [nat_of_ascii ?c] => let v := eval vm_compute in (nat_of_ascii c) in change (nat_of_ascii c) with v end; lia.
Qed.

Lemma digits_val_dec n : digits_val (dec n) = Z.of_nat n.
Proof.
  unfold digits_val, dec, NilZero.string_of_uint.
  rewrite <- (Unsigned.of_to n) at 2. unfold Nat.of_uint.
  destruct (Nat.to_uint n) as [|u|u|u|u|u|u|u|u|u|u]; try (apply (digits_acc _ 0%nat)). reflexivity.
Qed.

(* ------------------------------------------------------------------ lexing, token by token *)
Definition lcons (t : tok) (r : option (list tok)) : option (list tok) :=
  match r with Some ts => Some (t :: ts) | None => None end.

Lemma digit_not_blank c : is_digit c = true -> is_blank c = false.
Proof.
  unfold is_digit, is_blank, code_of. intros H. apply andb_true_iff in H as [H1 H2].
  apply Nat.leb_le in H1. apply Nat.eqb_neq. lia.
Qed.

Lemma id_start_facts c : is_id_start c = true -> is_blank c = false /\ is_digit c = false /\ ascii_eqb c "." = false.
Proof.
  unfold is_id_start, is_blank, is_digit, ascii_eqb, code_of. change (nat_of_ascii ".") with 46%nat.
  intros H. repeat split.
  - apply Nat.eqb_neq. intros E. rewrite E in H. discriminate.
  - destruct (48 <=? nat_of_ascii c)%nat eqn:E1; [|reflexivity]. destruct (nat_of_ascii c <=? 57)%nat eqn:E2; [|reflexivity].
    apply Nat.leb_le in E1. apply Nat.leb_le in E2. exfalso.
    apply orb_true_iff in H as [H|H]; [apply orb_true_iff in H as [H|H]|].
    + apply Nat.eqb_eq in H. lia.
    + apply andb_true_iff in H as [H3 H4]. apply Nat.leb_le in H3. lia.
    + apply andb_true_iff in H as [H3 H4]. apply Nat.leb_le in H3. lia.
  - apply Nat.eqb_neq. intros E. rewrite E in H. discriminate.
Qed.

Definition ends_token (p : ascii -> bool) (rest : str) : Prop := match rest with [] => True | d :: _ => p d = false end.

Lemma lex_int f (ds rest : str) :
  ds <> [] -> forallb is_digit ds = true -> ends_token is_digit rest -> ends_token (fun d => ascii_eqb d ".") rest ->
  ends_token (fun d => ascii_eqb d "d" || ascii_eqb d "D" || ascii_eqb d "e" || ascii_eqb d "E" || ascii_eqb d "_") rest ->
  lex (S f) (ds ++ rest) = lcons (TInt (digits_val ds)) (lex f rest).
Proof.
  intros Hne Hd He Hdot Hsuf. destruct ds as [|c ds']; [contradiction|].
  assert (Hc : is_digit c = true) by (cbn [forallb] in Hd; apply andb_true_iff in Hd as [Hc _]; exact Hc).
  destruct (take_while_all is_digit (c :: ds') rest Hd) as [Ht Hdr].
  { destruct rest; [exact I|exact He]. }
  change ((c :: ds') ++ rest) with (c :: ds' ++ rest) in *.
  cbn [lex]. rewrite (digit_not_blank c Hc), Hc. rewrite Ht, Hdr.
  destruct rest as [|d r2]; [reflexivity|]. cbn [ends_token] in Hdot, Hsuf. rewrite Hdot.
  apply orb_false_iff in Hsuf as [Hsuf Hu]. 
  assert (Hls : lex_suffix (d :: r2) = (0%Z, false, d :: r2)).
  { unfold lex_suffix. rewrite Hsuf. destruct r2 as [|k r3]; [reflexivity|]. rewrite Hu. reflexivity. }
  rewrite Hls. rewrite Nat.eqb_refl. reflexivity.
Qed.

Lemma lex_id f c (cs rest : str) :
  is_id_start c = true -> forallb is_id_char cs = true -> ends_token is_id_char rest ->
  lex (S f) ((c :: cs) ++ rest) = lcons (TId (c :: cs)) (lex f rest).
Proof.
  intros Hc Hcs He. destruct (id_start_facts c Hc) as (H1 & H2 & H3).
  destruct (take_while_all is_id_char cs rest Hcs) as [Ht Hdr].
  { destruct rest; [exact I|exact He]. }
  change ((c :: cs) ++ rest) with (c :: cs ++ rest).
  cbn [lex]. rewrite H1, H2, H3, Hc, Ht, Hdr. reflexivity.
Qed.

Lemma dec_nonempty n : dec n <> [].
Proof.
  unfold dec, NilZero.string_of_uint. destruct (Nat.to_uint n) eqn:E; try discriminate.
Qed.
Lemma dec_all_digits n : forallb is_digit (dec n) = true.
Proof. apply forallb_forall. intros c H. apply (dec_digits n c H). Qed.

(* the tokens of `solved_values(n, index+k)` *)
Definition term_toks (n : nat) (k : Z) : list tok :=
  [TId (lit "solved_values"); TLp; TInt (Z.of_nat n); TComma; TId (lit "index")]
  ++ match k with Z0 => [] | Zpos q => [TPlus; TInt (Zpos q)] | Zneg q => [TMinus; TInt (Zpos q)] end
  ++ [TRp].

Lemma lex_lp f r : lex (S f) ("("%char :: r) = lcons TLp (lex f r). Proof. reflexivity. Qed.
Lemma lex_comma f r : lex (S f) (","%char :: r) = lcons TComma (lex f r). Proof. reflexivity. Qed.
Lemma lex_blank f r : lex (S f) (" "%char :: r) = lex f r. Proof. reflexivity. Qed.
Lemma lex_plus f r : lex (S f) ("+"%char :: r) = lcons TPlus (lex f r). Proof. reflexivity. Qed.
Lemma lex_minus f r : lex (S f) ("-"%char :: r) = lcons TMinus (lex f r). Proof. reflexivity. Qed.
Lemma lex_rp_end f : lex (S f) [")"%char] = Some [TRp]. Proof. destruct f; reflexivity. Qed.

Lemma lex_term n k fuel : (10 <= fuel)%nat ->
  lex fuel (lit "solved_values(" ++ dec n ++ lit ", " ++ f_idx_text k ++ lit ")") = Some (term_toks n k).
Proof.
  intros Hf. do 10 (destruct fuel as [|fuel]; [lia|]). clear Hf.
  change (lit "solved_values(" ++ dec n ++ lit ", " ++ f_idx_text k ++ lit ")")
    with (("s"%char :: lit "olved_values") ++ "("%char :: dec n ++ ","%char :: " "%char :: f_idx_text k ++ [")"%char]).
  rewrite lex_id by reflexivity.
  rewrite lex_lp.
  rewrite (lex_int _ (dec n)); [|apply dec_nonempty|apply dec_all_digits|reflexivity|reflexivity|reflexivity].
  rewrite digits_val_dec.
  rewrite lex_comma, lex_blank.
  destruct k as [|q|q]; cbn [f_idx_text term_toks app].
  - change (lit "index" ++ [")"%char]) with (("i"%char :: lit "ndex") ++ [")"%char]).
    rewrite lex_id by reflexivity. rewrite lex_rp_end. reflexivity.
  - change ((lit "index+" ++ dec (Pos.to_nat q)) ++ [")"%char]) with (("i"%char :: lit "ndex") ++ "+"%char :: dec (Pos.to_nat q) ++ [")"%char]).
    rewrite lex_id by reflexivity.
    rewrite lex_plus.
    rewrite (lex_int _ (dec (Pos.to_nat q))); [|apply dec_nonempty|apply dec_all_digits|reflexivity|reflexivity|reflexivity].
    rewrite digits_val_dec, positive_nat_Z, lex_rp_end. reflexivity.
  - change ((lit "index-" ++ dec (Pos.to_nat q)) ++ [")"%char]) with (("i"%char :: lit "ndex") ++ "-"%char :: dec (Pos.to_nat q) ++ [")"%char]).
    rewrite lex_id by reflexivity.
    rewrite lex_minus.
    rewrite (lex_int _ (dec (Pos.to_nat q))); [|apply dec_nonempty|apply dec_all_digits|reflexivity|reflexivity|reflexivity].
    rewrite digits_val_dec, positive_nat_Z, lex_rp_end. reflexivity.
Qed.

Lemma p_term_toks i k rest :
  p_primary 1 (term_toks (S i) k ++ rest) = Some (SVar i k, rest).
Proof.
  unfold term_toks. cbn [app p_primary].
  assert (E : str_eqb (lit "solved_values") (lit "solved_values") = true) by reflexivity. rewrite E.
  unfold p_term.
  assert (E2 : str_eqb (lit "index") (lit "index") = true) by reflexivity. rewrite E2.
  assert (E3 : (1 <=? Z.of_nat (S i)) = true) by (apply Z.leb_le; lia). rewrite E3. cbn [andb].
  assert (E4 : Z.to_nat (Z.of_nat (S i) - 1) = i) by lia. rewrite E4.
  destruct k; reflexivity.
Qed.

(* WRITER AND READER AGREE, for every variable position and every lag / lead: the text build_fortran_definition writes for
   `NAME[t+k]` (NAME at position i of the Python class's variable order) is read by the Fortran expression grammar as the variable
   node (row i, period t + k) — the node the Python-side tree carries *)
Theorem term_text_reads_back i k :
  let txt := term_f (S i) (idx_text k) in
  match lex (S (length txt)) txt with Some ts => p_primary 1 ts | None => None end = Some (SVar i k, []).
Proof.
  cbv zeta. unfold term_f. rewrite replace_t_idx_text.
  rewrite lex_term.
  - rewrite <- (app_nil_r (term_toks (S i) k)). apply p_term_toks.
  - rewrite app_length. cbn [lit list_ascii_of_string length]. lia.
Qed.

(* kind suffixes and exponent letters are read (the natural repair of the REAL(4) findings would write them): 0.1d0 and 0.1_8
   are REAL(8) constants, 1.5e-3 a REAL(4) one, 2_8 an integer *)
Example parse_kind_suffixes :
  parse_stmt (lit "solved_values(1, index) = 0.1d0 * solved_values(2, index) + 0.1_8 - 1.5e-3 * 2_8 + 25d-1 + .5D0")
  = Some (0%nat, SBin OAdd (SBin OAdd (SBin OSub (SBin OAdd (SBin OMul (SDec8 1 1) (SVar 1 0)) (SDec8 1 1))
                                                 (SBin OMul (SDec 15 4) (SInt 2)))
                                      (SDec8 25 1))
                           (SDec8 5 1)).
Proof. vm_compute. reflexivity. Qed.
