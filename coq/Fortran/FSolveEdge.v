(* FSolveEdge.v — the edges of FortranEngine.solve_t: where it rejects exactly as BaseModel.solve_t does, and where the two
   agree on rejections that used to differ (fixes 1354783, 131915c). *)
From Coq Require Import ZArith List Bool Lia ZifyBool.
Import ListNotations.
Require Import PyBase Solver SolverFacts FSem FSolve FSolveFacts FSolveSim.
Open Scope Z_scope.

Section Edge.
  Variable num : Type.
  Variables (sub : num -> num -> num) (absf : num -> num) (ltb : num -> num -> bool)
            (isfin : num -> bool) (zero : num).
  Variable evf : Z -> vals num -> vals num.
  Variables (ev before after : hook num).

  Notation vals := (vals num).
  Notation all_finite := (all_finite num isfin).
  Notation get_check := (get_check num zero).
  Notation w_solve_t := (w_solve_t num sub absf ltb isfin zero evf).
  Notation t_solve_t := (t_solve_t num sub absf ltb isfin zero evf).
  Notation solve_t_M := (solve_t_M num sub absf ltb isfin zero ev before after).
  Notation seeded := (seeded num zero).

  (* ---- both reject alike ---- *)
  Theorem both_reject_min_gt_max fm d o t s :
    max_iter o < min_iter o ->
    w_solve_t fm d o t s = (s, Raise ValueError) /\ solve_t_M d o t s = (s, Raise ValueError).
  Proof.
    intros H. split; [|apply min_gt_max_rejected; exact H].
    unfold FSolve.w_solve_t. replace (max_iter o <? min_iter o) with true by lia. reflexivity.
  Qed.

  Theorem both_reject_offset_out_of_span fm d o t s p :
    min_iter o <= max_iter o -> errors o <> EInvalid ->
    py_pos (length (status s)) t = Some p -> feasible d (length (status s)) p = true ->
    offset o <> 0 ->
    (Z.of_nat p + offset o < 0 \/ Z.of_nat (length (status s)) <= Z.of_nat p + offset o) ->
    w_solve_t fm d o t s = (s, Raise IndexError) /\ solve_t_M d o t s = (s, Raise IndexError).
  Proof.
    intros Hmm Hinv Hp Hfeas Hoff Hout. split; [|apply (offset_out_of_span_rejected num sub absf ltb isfin zero ev before after d o t s p); auto].
    destruct (w_ec_valid num o Hinv) as (ec & Hec & _).
    unfold FSolve.w_solve_t. replace (max_iter o <? min_iter o) with false by lia. rewrite Hec, Hp, Hfeas. cbn [negb].
    replace (offset o =? 0) with false by lia.
    destruct (Z.of_nat p + offset o <? 0) eqn:E1; [reflexivity|].
    replace (Z.of_nat (length (status s)) <=? Z.of_nat p + offset o) with true by lia. reflexivity.
  Qed.

  (* pre-existing NaN / infinity among the check values under errors='raise': SolutionError (not chained) from both, the
     store holding the offset copy in both *)
  Theorem both_reject_pre_existing fm d o t s p :
    min_iter o <= max_iter o -> errors o = ERaise ->
    py_pos (length (status s)) t = Some p -> feasible d (length (status s)) p = true ->
    (offset o = 0 \/ 0 <= Z.of_nat p + offset o < Z.of_nat (length (status s))) ->
    all_finite (get_check d (seeded d o (vals_of s) p) p) = false ->
    w_solve_t fm d o t s = (setvals num s (seeded d o (vals_of s) p), Raise (SolutionError None)) /\
    solve_t_M d o t s = (with_vals num s (seeded d o (vals_of s) p) (log s), Raise (SolutionError None)).
  Proof.
    intros Hmm Her Hp Hfeas Hoff Hnf.
    assert (Hpre : (if offset o =? 0 then @inl vals exn (vals_of s)
                    else if Z.of_nat p + offset o <? 0 then inr IndexError
                         else if Z.of_nat (length (status s)) <=? Z.of_nat p + offset o then inr IndexError
                              else inl (copy_endo num zero d (vals_of s) p (Z.to_nat (Z.of_nat p + offset o))))
                   = inl (seeded d o (vals_of s) p)).
    { unfold FSolveSim.seeded. destruct (offset o =? 0) eqn:Eo; [reflexivity|].
      replace (Z.of_nat p + offset o <? 0) with false by lia.
      replace (Z.of_nat (length (status s)) <=? Z.of_nat p + offset o) with false by lia. reflexivity. }
    split.
    - unfold FSolve.w_solve_t. replace (max_iter o <? min_iter o) with false by lia. rewrite Her.
      change (w_ec ERaise) with (Some 0). cbv iota. rewrite Hp, Hfeas. cbn [negb]. cbv zeta. rewrite Hpre, Hnf. reflexivity.
    - unfold Solver.solve_t_M. replace (max_iter o <? min_iter o) with false by lia. rewrite Hp, Hfeas. cbn [negb]. cbv zeta.
      rewrite Hpre, Hnf, Her. reflexivity.
  Qed.

  (* ---- a period without room for the lags / leads: IndexError from both, nothing changes (holds since fix 1354783; before,
     FortranEngine.solve_t raised FortranEngineError after copying the offset values) ---- *)
  Theorem both_reject_infeasible fm d o t s p :
    min_iter o <= max_iter o -> errors o <> EInvalid ->
    py_pos (length (status s)) t = Some p -> feasible d (length (status s)) p = false ->
    w_solve_t fm d o t s = (s, Raise IndexError) /\ solve_t_M d o t s = (s, Raise IndexError).
  Proof.
    intros Hmm Hinv Hp Hfeas. split.
    - destruct (w_ec_valid num o Hinv) as (ec & Hec & _).
      unfold FSolve.w_solve_t. replace (max_iter o <? min_iter o) with false by lia. rewrite Hec, Hp, Hfeas. reflexivity.
    - unfold Solver.solve_t_M. replace (max_iter o <? min_iter o) with false by lia. rewrite Hp, Hfeas. reflexivity.
  Qed.

  (* ---- max_iter < 1: no pass runs; 'F' with 0 iterations from both, NonConvergenceError under failures='raise' (holds since fix
     131915c; before, the template's error_code kept its initial -1 and the wrapper raised FortranEngineError) ---- *)
  Theorem max_iter_zero_agree fm d o t s p n m :
    shape n m (vals_of s) -> length (status s) = n -> (0 < m)%nat ->
    rows_ok m (check d) -> rows_ok m (endo d) ->
    fm_endo fm = endo_nums d -> fm_lags fm = Z.of_nat (lags d) -> fm_leads fm = Z.of_nat (leads d) ->
    min_iter o <= max_iter o -> max_iter o <= 0 -> errors o <> EInvalid ->
    py_pos n t = Some p -> feasible d n p = true ->
    (offset o = 0 \/ 0 <= Z.of_nat p + offset o < Z.of_nat n) ->
    is_raise (errors o) && negb (all_finite (get_check d (seeded d o (vals_of s) p) p)) = false ->
    (forall em cf k v, before t em cf k v = (v, None)) ->
    let out := if fail_raise o then Raise NonConvergenceError else Ret false in
    w_solve_t fm d o t s =
      (mkState (seeded d o (vals_of s) p) (upd p Failed (status s)) (upd p 0 (iters s)) (log s), out) /\
    solve_t_M d o t s =
      (mkState (seeded d o (vals_of s) p) (upd p Failed (status s)) (upd p 0 (iters s)) (log s ++ [EvBefore t]), out).
  Proof.
    intros Hs Hlen Hm Hchk Hend Hfe Hfl Hfd Hmm Hmax Hinv Hp Hfeas Hoff Hnf Hbef out.
    pose proof (py_pos_lt _ _ _ Hp) as Hpn.
    set (v0 := seeded d o (vals_of s) p) in *.
    assert (Hs0 : shape n m v0) by (apply seeded_shape; exact Hs).
    assert (Hpre : (if offset o =? 0 then @inl vals exn (vals_of s)
                    else if Z.of_nat p + offset o <? 0 then inr IndexError
                         else if Z.of_nat n <=? Z.of_nat p + offset o then inr IndexError
                              else inl (copy_endo num zero d (vals_of s) p (Z.to_nat (Z.of_nat p + offset o))))
                   = inl v0).
    { unfold v0, FSolveSim.seeded. destruct (offset o =? 0) eqn:Eo; [reflexivity|].
      replace (Z.of_nat p + offset o <? 0) with false by lia.
      replace (Z.of_nat n <=? Z.of_nat p + offset o) with false by lia. reflexivity. }
    assert (HN : Z.to_nat (max_iter o) = 0%nat) by lia.
    split.
    - destruct (w_ec_valid num o Hinv) as (ec & Hec & Hecr).
      assert (Hg : t_guard fm (Z.of_nat n) (Z.of_nat p + 1) = 0).
      { rewrite (t_guard_feasible fm d n p Hfl Hfd Hpn), Hfeas. reflexivity. }
      unfold FSolve.w_solve_t. replace (max_iter o <? min_iter o) with false by lia. rewrite Hec, Hlen, Hp, Hfeas. cbn [negb]. cbv zeta.
      rewrite Hpre, Hnf.
      rewrite (t_solve_t_spec num sub absf ltb isfin zero evf fm d o (t + 1) p n m ec v0 Hs0 Hm Hpn Hchk Hend Hfe
                 (t_index_pos n t p Hp) Hg Hoff).
      replace (seeded d o v0 p) with v0 by (symmetry; apply (seeded_idem num zero n m d o (vals_of s) p Hs Hpn Hend Hoff)).
      rewrite Hecr, Hnf, HN. cbn [FSolve.t_loop fo_code fo_vals fo_conv fo_iter].
      destruct wrapper_codes as (W0 & _). rewrite W0. change (0 =? 0) with true. cbv iota. cbn [st_eqb andb].
      unfold stampz, out. change (1 - 1) with 0. destruct (fail_raise o); reflexivity.
    - unfold Solver.solve_t_M. replace (max_iter o <? min_iter o) with false by lia. rewrite Hlen, Hp, Hfeas. cbn [negb]. cbv zeta.
      rewrite Hpre, Hnf, Hbef, HN. cbn [Solver.loop Solver.finish Nat.sub st_eqb andb stamp Z.of_nat].
      unfold out. destruct (fail_raise o); reflexivity.
  Qed.
End Edge.
