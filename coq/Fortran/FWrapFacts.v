(* FWrapFacts.v — the continuation lines build_fortran_definition emits denote the lines of textwrap.wrap put side by side:
   only blanks are inserted at a line break.  Hence no token is split or glued PROVIDED wrap broke the code at blanks — which
   it does not when a blank-free run exceeds the width (kept finding: witness at the end). *)
From Coq Require Import Ascii String List Bool Arith Lia.
Import ListNotations.
Require Import FText FTextFacts.
Open Scope nat_scope.

Definition sp : ascii := " "%char.
Definition amp : ascii := "&"%char.
Definition no_nl (l : str) : Prop := forall c, In c l -> (code_of c =? 10) = false.
Definition no_amp (l : str) : Prop := forall c, In c l -> ascii_eqb c amp = false.

(* what follows the first line: for every further line w,  `  &` LF prefix `&  ` w *)
Definition tail_of (prefix : str) (rest : list str) : str :=
  concat (map (fun w => [sp; sp; amp; nl] ++ prefix ++ [amp; sp; sp] ++ w) rest).

Lemma join_shape w0 rest : join cont_sep (w0 :: rest) = w0 ++ tail_of [] rest.
Proof.
  revert w0; induction rest as [|w r IH]; intros w0.
  - cbn [join tail_of map concat]. rewrite app_nil_r. reflexivity.
  - change (join cont_sep (w0 :: w :: r)) with (w0 ++ cont_sep ++ join cont_sep (w :: r)).
    rewrite IH. unfold tail_of. cbn [map concat app]. change cont_sep with [sp; sp; amp; nl; amp; sp; sp].
    cbn [app]. reflexivity.
Qed.

(* ---- textwrap.indent ---- *)
Lemma split_lines_nl a : forall r cur, no_nl a ->
  split_lines (a ++ nl :: r) cur = (rev cur ++ a ++ [nl]) :: split_lines r [].
Proof.
  induction a as [|c a IH]; intros r cur H; cbn [app split_lines].
  - change (code_of nl =? 10) with true. cbv iota. cbn [rev]. reflexivity.
  - rewrite (H c (or_introl eq_refl)). rewrite IH by (intros x Hx; apply H; right; exact Hx).
    cbn [rev]. rewrite <- app_assoc. reflexivity.
Qed.
Lemma split_lines_last a : forall cur, no_nl a -> rev cur ++ a <> [] -> split_lines a cur = [rev cur ++ a].
Proof.
  induction a as [|c a IH]; intros cur H Hne; cbn [split_lines].
  - rewrite app_nil_r in *. destruct cur as [|x cur]; [contradiction|reflexivity].
  - rewrite (H c (or_introl eq_refl)). rewrite IH.
    + cbn [rev]. rewrite <- app_assoc. reflexivity.
    + intros x Hx; apply H; right; exact Hx.
    + cbn [rev]. rewrite <- app_assoc. cbn [app]. destruct (rev cur); discriminate.
Qed.

Lemma amp_not_space : is_space amp = false.
Proof. reflexivity. Qed.
Lemma forallb_app_false {A} (f : A -> bool) a x b : f x = false -> forallb f (a ++ x :: b) = false.
Proof. intros H. rewrite forallb_app. cbn [forallb]. rewrite H. cbn [andb]. apply andb_false_r. Qed.

Lemma indent_shape prefix : forall rest h,
  no_nl h -> Forall no_nl rest -> forallb is_space h = false ->
  indent prefix (h ++ tail_of [] rest) = prefix ++ h ++ tail_of prefix rest.
Proof.
  induction rest as [|w r IH]; intros h Hh Hr Hns.
  - unfold tail_of. cbn [map concat]. rewrite !app_nil_r. unfold indent.
    rewrite (split_lines_last h [] Hh) by (cbn [rev app]; intros ->; discriminate).
    cbn [rev app map concat]. rewrite Hns. rewrite app_nil_r. reflexivity.
  - inversion Hr as [|? ? Hw Hr']; subst.
    unfold tail_of. cbn [map concat]. fold (tail_of [] r). fold (tail_of prefix r). cbn [app].
    replace (h ++ sp :: sp :: amp :: nl :: amp :: sp :: sp :: w ++ tail_of [] r)
      with ((h ++ [sp; sp; amp]) ++ nl :: ((amp :: sp :: sp :: w) ++ tail_of [] r))
      by (rewrite <- app_assoc; reflexivity).
    unfold indent. rewrite split_lines_nl.
    + cbn [rev app map concat].
      assert (Hl : forallb is_space ((h ++ [sp; sp; amp]) ++ [nl]) = false).
      { rewrite <- app_assoc. cbn [app]. replace (h ++ sp :: sp :: amp :: [nl]) with ((h ++ [sp; sp]) ++ amp :: [nl]) by (rewrite <- app_assoc; reflexivity).
        apply forallb_app_false. reflexivity. }
      rewrite Hl. change (concat (map (fun ln : list ascii => if forallb is_space ln then ln else prefix ++ ln)
                                       (split_lines (amp :: sp :: sp :: w ++ tail_of [] r) [])))
                    with (indent prefix ((amp :: sp :: sp :: w) ++ tail_of [] r)).
      rewrite (IH (amp :: sp :: sp :: w)).
      * rewrite <- !app_assoc. cbn [app]. reflexivity.
      * intros c [<-|[<-|[<-|Hc]]]; try reflexivity. apply Hw. exact Hc.
      * exact Hr'.
      * reflexivity.
    + intros c Hc. apply in_app_or in Hc as [Hc|Hc]; [apply Hh; exact Hc|].
      destruct Hc as [<-|[<-|[<-|[]]]]; reflexivity.
Qed.

(* ---- the physical lines ---- *)
Lemma plain_lines_nl a : forall r cur, no_nl a -> plain_lines (a ++ nl :: r) cur = (rev cur ++ a) :: plain_lines r [].
Proof.
  induction a as [|c a IH]; intros r cur H; cbn [app plain_lines].
  - change (code_of nl =? 10) with true. cbv iota. rewrite app_nil_r. reflexivity.
  - rewrite (H c (or_introl eq_refl)). rewrite IH by (intros x Hx; apply H; right; exact Hx).
    cbn [rev]. rewrite <- app_assoc. reflexivity.
Qed.
Lemma plain_lines_last a : forall cur, no_nl a -> plain_lines a cur = [rev cur ++ a].
Proof.
  induction a as [|c a IH]; intros cur H; cbn [plain_lines].
  - rewrite app_nil_r. reflexivity.
  - rewrite (H c (or_introl eq_refl)). rewrite IH by (intros x Hx; apply H; right; exact Hx).
    cbn [rev]. rewrite <- app_assoc. reflexivity.
Qed.

(* ---- continuation marks ---- *)
Lemma split_cont_marked x : split_cont (x ++ [amp]) = (x, true).
Proof.
  unfold split_cont, rstrip. rewrite rev_app_distr. cbn [rev app drop_while].
  change (is_blank amp) with false. cbv iota. rewrite rev_involutive. cbn [rev app].
  change (ascii_eqb amp "&") with true. cbv iota. rewrite rev_involutive. reflexivity.
Qed.

Lemma drop_while_in p (l : str) c r : drop_while p l = c :: r -> In c l.
Proof.
  induction l as [|x l IH]; cbn [drop_while]; [discriminate|].
  destruct (p x); [intros H; right; apply IH; exact H|intros H; inversion H; subst; left; reflexivity].
Qed.

Lemma split_cont_unmarked l : no_amp l -> split_cont l = (l, false).
Proof.
  intros H. unfold split_cont, rstrip. rewrite rev_involutive.
  destruct (drop_while is_blank (rev l)) as [|c r] eqn:E; [reflexivity|].
  assert (Hin : In c l) by (apply in_rev; eapply drop_while_in; exact E).
  change (ascii_eqb c "&") with (ascii_eqb c amp). rewrite (H c Hin). reflexivity.
Qed.

Lemma cont_start_marked x : cont_start (sp :: sp :: amp :: x) = x.
Proof. reflexivity. Qed.

(* the statement denoted by the lines that follow a continued line *)
Lemma logical_tail : forall rest,
  Forall no_nl rest -> Forall no_amp rest -> forall h, no_nl h ->
  (rest = [] -> no_amp h) ->
  logical true (plain_lines ([sp; sp; amp] ++ h ++ tail_of [sp; sp] rest) [])
  = h ++ concat (map (fun w => [sp; sp] ++ [sp; sp] ++ w) rest).
Proof.
  induction rest as [|w r IH]; intros Hn Ha h Hh Hlast.
  - unfold tail_of. cbn [map concat]. rewrite !app_nil_r.
    rewrite plain_lines_last by (intros c [<-|[<-|[<-|Hc]]]; try reflexivity; apply Hh; exact Hc).
    cbn [rev app logical]. rewrite cont_start_marked. rewrite (split_cont_unmarked h (Hlast eq_refl)). rewrite app_nil_r. reflexivity.
  - inversion Hn as [|? ? Hnw Hnr]; subst. inversion Ha as [|? ? Haw Har]; subst.
    unfold tail_of. cbn [map concat]. fold (tail_of [sp; sp] r). cbn [app].
    replace (sp :: sp :: amp :: h ++ sp :: sp :: amp :: nl :: sp :: sp :: amp :: sp :: sp :: w ++ tail_of [sp; sp] r)
      with (([sp; sp; amp] ++ h ++ [sp; sp; amp]) ++ nl :: ([sp; sp; amp] ++ (sp :: sp :: w) ++ tail_of [sp; sp] r))
      by (cbn [app]; rewrite <- !app_assoc; reflexivity).
    rewrite plain_lines_nl.
    + cbn [rev]. rewrite app_nil_l. cbn [logical]. cbn [app]. rewrite cont_start_marked.
      replace (h ++ [sp; sp; amp]) with ((h ++ [sp; sp]) ++ [amp]) by (rewrite <- app_assoc; reflexivity).
      rewrite split_cont_marked.
      change (sp :: sp :: amp :: sp :: sp :: w ++ tail_of [sp; sp] r) with ([sp; sp; amp] ++ (sp :: sp :: w) ++ tail_of [sp; sp] r).
      rewrite (IH Hnr Har (sp :: sp :: w)).
      * rewrite <- !app_assoc. cbn [app]. reflexivity.
      * intros c [<-|[<-|Hc]]; try reflexivity. apply Hnw. exact Hc.
      * intros _ c [<-|[<-|Hc]]; try reflexivity. apply Haw. exact Hc.
    + intros c Hc. cbn [app] in Hc. destruct Hc as [<-|[<-|[<-|Hc]]]; try reflexivity.
      apply in_app_or in Hc as [Hc|Hc]; [apply Hh; exact Hc|]. destruct Hc as [<-|[<-|[<-|[]]]]; reflexivity.
Qed.

Lemma glue_shape w0 rest : glue (w0 :: rest) = w0 ++ concat (map (fun w => [sp; sp] ++ [sp; sp] ++ w) rest).
Proof.
  revert w0; induction rest as [|w r IH]; intros w0.
  - cbn [glue map concat]. rewrite app_nil_r. reflexivity.
  - change (glue (w0 :: w :: r)) with (w0 ++ lit "    " ++ glue (w :: r)). rewrite IH. cbn [map concat]. reflexivity.
Qed.

(* THE CONTINUATION THEOREM: the indented, `&`-joined block of lines denotes the lines side by side (blanks between them) *)
Theorem continuation_denotes_glue w0 rest :
  Forall no_nl (w0 :: rest) -> Forall no_amp (w0 :: rest) -> forallb is_space w0 = false ->
  logical false (plain_lines (wrapped_def (w0 :: rest)) []) = lit "  " ++ glue (w0 :: rest).
Proof.
  intros Hn Ha Hns. inversion Hn as [|? ? Hn0 Hnr]; subst. inversion Ha as [|? ? Ha0 Har]; subst.
  unfold wrapped_def. rewrite join_shape. rewrite (indent_shape (lit "  ") rest w0 Hn0 Hnr Hns).
  rewrite glue_shape. change (lit "  ") with [sp; sp].
  destruct rest as [|w r].
  - unfold tail_of. cbn [map concat]. rewrite !app_nil_r.
    rewrite plain_lines_last by (intros c [<-|[<-|Hc]]; try reflexivity; apply Hn0; exact Hc).
    cbn [rev app logical]. rewrite split_cont_unmarked by (intros c [<-|[<-|Hc]]; try reflexivity; apply Ha0; exact Hc).
    rewrite app_nil_r. reflexivity.
  - inversion Hnr as [|? ? Hnw Hnr']; subst. inversion Har as [|? ? Haw Har']; subst.
    unfold tail_of. cbn [map concat]. fold (tail_of [sp; sp] r). cbn [app].
    replace (sp :: sp :: w0 ++ sp :: sp :: amp :: nl :: sp :: sp :: amp :: sp :: sp :: w ++ tail_of [sp; sp] r)
      with (([sp; sp] ++ w0 ++ [sp; sp; amp]) ++ nl :: ([sp; sp; amp] ++ (sp :: sp :: w) ++ tail_of [sp; sp] r))
      by (cbn [app]; rewrite <- !app_assoc; reflexivity).
    rewrite plain_lines_nl.
    + cbn [rev]. rewrite app_nil_l. cbn [logical].
      replace ([sp; sp] ++ w0 ++ [sp; sp; amp]) with (([sp; sp] ++ w0 ++ [sp; sp]) ++ [amp]) by (rewrite <- !app_assoc; reflexivity).
      rewrite split_cont_marked.
      rewrite (logical_tail r Hnr' Har' (sp :: sp :: w)).
      * rewrite <- !app_assoc. cbn [app]. reflexivity.
      * intros c [<-|[<-|Hc]]; try reflexivity. apply Hnw. exact Hc.
      * intros _ c [<-|[<-|Hc]]; try reflexivity. apply Haw. exact Hc.
    + intros c Hc. cbn [app] in Hc. destruct Hc as [<-|[<-|Hc]]; try reflexivity.
      apply in_app_or in Hc as [Hc|Hc]; [apply Hn0; exact Hc|]. destruct Hc as [<-|[<-|[<-|[]]]]; reflexivity.
Qed.

(* one entry of equation_code = the commented equation on a line of its own, then the continuation lines of the code *)
Theorem block_is_comment_then_code eq ws : no_nl eq ->
  block eq ws = lit "  ! " ++ eq ++ [nl] ++ wrapped_def ws.
Proof.
  intros He. unfold block, wrapped_def, indent.
  replace (lit "! " ++ eq ++ [nl] ++ join cont_sep ws) with ((lit "! " ++ eq) ++ nl :: join cont_sep ws)
    by (rewrite <- app_assoc; reflexivity).
  rewrite split_lines_nl by (intros c Hc; apply in_app_or in Hc as [Hc|Hc]; [destruct Hc as [<-|[<-|[]]]; reflexivity|apply He; exact Hc]).
  cbn [rev map concat]. rewrite app_nil_l.
  assert (Hl : forallb is_space ((lit "! " ++ eq) ++ [nl]) = false) by reflexivity.
  rewrite Hl. rewrite <- !app_assoc. reflexivity.
Qed.

(* the hypotheses are satisfiable, and the result is what one expects *)
Example continuation_example :
  logical false (plain_lines (wrapped_def [lit "a = b +"; lit "c *"; lit "d"]) []) = lit "  a = b +    c *    d".
Proof. vm_compute. reflexivity. Qed.

(* KEPT FINDING: when textwrap.wrap breaks inside a token (a blank-free run longer than the width: break_long_words), the
   statement the compiler reads has blanks inside that token: `abs(ab` / `s(x))` denotes `abs(ab    s(x))`, not `abs(abs(x))` *)
Example continuation_splits_token :
  logical false (plain_lines (wrapped_def [lit "y = abs(ab"; lit "s(x))"]) []) = lit "  y = abs(ab    s(x))" /\
  lit "y = abs(ab" ++ lit "s(x))" = lit "y = abs(abs(x))".
Proof. split; vm_compute; reflexivity. Qed.
