(* FSolveSim.v — FortranEngine.solve_t over the template's solve_t refines BaseModel.solve_t (theorems about FSolve.v, for
   every number type, every arithmetic and every equations block): loop simulation, then the wrapper. *)
From Coq Require Import ZArith List Bool Lia ZifyBool.
Import ListNotations.
Require Import PyBase Solver SolverFacts FSem FSolve FSolveFacts.
Open Scope Z_scope.

Section Facts.
  Variable num : Type.
  Variables (sub : num -> num -> num) (absf : num -> num) (ltb : num -> num -> bool)
            (isfin : num -> bool) (zero : num).
  Variable evf : Z -> vals num -> vals num.

  Notation vals := (vals num).
  Notation fread := (fread num zero).
  Notation fwrite := (fwrite num).
  Notation cell := (cell num zero).
  Notation set_cell := (set_cell num).
  Notation all_finite := (all_finite num isfin).
  Notation conv := (conv num sub absf ltb).
  Notation get_check := (get_check num zero).
  Notation copy_endo := (copy_endo num zero).
  Notation col_of := (col_of num zero).
  Notation t_evaluate := (t_evaluate num evf).
  Notation t_loop := (t_loop num sub absf ltb isfin zero evf).
  Notation t_solve_t := (t_solve_t num sub absf ltb isfin zero evf).
  Notation t_copy := (t_copy num zero).
  Notation t_zero := (t_zero num isfin zero).
  Notation w_solve_t := (w_solve_t num sub absf ltb isfin zero evf).
  Notation shape_ncols := (shape_ncols num).
  Notation col_check := (col_check num zero).
  Notation col_endo := (col_endo num zero).

  (* ================================================================== the iteration loops *)
  Section Sim.
    Variables (ev after : hook num).
    Variables (fm : fmod) (d : mdesc) (o : opts num) (t : Z) (p n m : nat) (ec : Z) (v1 : vals) (N : nat).
    Notation idx := (Z.of_nat p + 1).
    Fixpoint iterv (j : nat) : vals := match j with O => v1 | S j' => evf idx (iterv j') end.
    (* the evaluation oracle of the Python loop is the {equations} block — on the stores the iteration visits *)
    Hypothesis Hev : forall i k, (i < N)%nat -> ev t (errors o) (catch_first o) k (iterv i) = (evf idx (iterv i), None).
    Hypothesis Haft : forall em cf k v, after t em cf k v = (v, None).
    Hypothesis Hshape : forall v, shape n m v -> shape n m (evf idx v).
    Hypothesis Hp : (p < n)%nat.
    Hypothesis Hm : (0 < m)%nat.
    Hypothesis Hguard : t_guard fm (Z.of_nat n) idx = 0.
    Hypothesis Hchk : rows_ok m (check d).
    Hypothesis Hend : rows_ok m (endo d).
    Hypothesis Hfe : fm_endo fm = endo_nums d.
    Hypothesis Hec : w_ec (errors o) = Some ec.

    Notation loop := (Solver.loop num sub absf ltb isfin zero ev after).

    Definition chk (j : nat) : list num := get_check d (iterv j) p.
    Definition endo_fin (j : nat) : bool := all_finite (map (fun i => cell (iterv j) i p) (endo d)).

    Lemma iterv_shape : shape n m v1 -> forall j, shape n m (iterv j).
    Proof. intros H j. induction j as [|j IH]; cbn [iterv]; auto. Qed.

    Lemma t_evaluate_ok v : shape n m v -> t_evaluate fm v idx = (evf idx v, 0).
    Proof.
      intros Hs. unfold FSolve.t_evaluate. rewrite (shape_ncols _ _ _ Hs Hm). rewrite t_index_idem. rewrite Hguard. reflexivity.
    Qed.

    Lemma loop_step n' k v cur lg :
      ev t (errors o) (catch_first o) k v = (evf idx v, None) ->
      loop d o t p (S n') k v cur lg =
      (if negb (all_finite cur) then loop d o t p n' (S k) (evf idx v) (get_check d (evf idx v) p) (lg ++ [EvPass t k])
       else if negb (all_finite (get_check d (evf idx v) p)) then
         match errors o with
         | ERaise => LRaise (evf idx v) (Some (ErrorSt, k)) (SolutionError None) (lg ++ [EvPass t k])
         | ESkip => LDone (evf idx v) Skipped k (lg ++ [EvPass t k])
         | EIgnore => match n' with
                      | O => LDone (evf idx v) Failed k (lg ++ [EvPass t k])
                      | _ => loop d o t p n' (S k) (evf idx v) (get_check d (evf idx v) p) (lg ++ [EvPass t k])
                      end
         | EReplace => match n' with
                       | O => LDone (evf idx v) Failed k (lg ++ [EvPass t k])
                       | _ => loop d o t p n' (S k) (evf idx v)
                                   (replace_nonfinite num isfin zero (get_check d (evf idx v) p)) (lg ++ [EvPass t k])
                       end
         | EInvalid => LRaise (evf idx v) None ValueError (lg ++ [EvPass t k])
         end
       else if Z.of_nat k <? min_iter o then loop d o t p n' (S k) (evf idx v) (get_check d (evf idx v) p) (lg ++ [EvPass t k])
       else if conv (tol o) (get_check d (evf idx v) p) cur
            then LDone (evf idx v) Solved k ((lg ++ [EvPass t k]) ++ [EvAfter t k])
       else loop d o t p n' (S k) (evf idx v) (get_check d (evf idx v) p) (lg ++ [EvPass t k])).
    Proof. intros Hv. cbn [Solver.loop]. rewrite Hv. cbv beta iota. rewrite Haft. reflexivity. Qed.

    Lemma t_loop_step n' k v cur code : shape n m v ->
      t_loop fm ec (min_iter o) (max_iter o) (tol o) (cv_of d) idx (S n') k v cur code =
      (if negb (all_finite (map (fun i => cell (evf idx v) i p) (endo d))) then
         if ec =? c_ec_raise then mkFout (evf idx v) false k c_num_raise
         else if ec =? c_ec_skip then mkFout (evf idx v) false k c_num_skip
         else if ec =? c_ec_ignore
              then t_loop fm ec (min_iter o) (max_iter o) (tol o) (cv_of d) idx n' (k + 1) (evf idx v) (get_check d (evf idx v) p) 0
         else if ec =? c_ec_replace
              then t_loop fm ec (min_iter o) (max_iter o) (tol o) (cv_of d) idx n' (k + 1)
                          (if k <? max_iter o then t_zero fm (evf idx v) idx else evf idx v) (get_check d (evf idx v) p) 0
         else if k <? min_iter o
              then t_loop fm ec (min_iter o) (max_iter o) (tol o) (cv_of d) idx n' (k + 1) (evf idx v) (get_check d (evf idx v) p) 0
         else if conv (tol o) (get_check d (evf idx v) p) cur then mkFout (evf idx v) true k 0
         else t_loop fm ec (min_iter o) (max_iter o) (tol o) (cv_of d) idx n' (k + 1) (evf idx v) (get_check d (evf idx v) p) 0
       else if k <? min_iter o
            then t_loop fm ec (min_iter o) (max_iter o) (tol o) (cv_of d) idx n' (k + 1) (evf idx v) (get_check d (evf idx v) p) 0
       else if conv (tol o) (get_check d (evf idx v) p) cur then mkFout (evf idx v) true k 0
       else t_loop fm ec (min_iter o) (max_iter o) (tol o) (cv_of d) idx n' (k + 1) (evf idx v) (get_check d (evf idx v) p) 0).
    Proof.
      intros Hs. cbn [FSolve.t_loop]. rewrite (t_evaluate_ok v Hs). cbv beta iota zeta.
      change (negb (0 =? 0)) with false. cbv iota.
      assert (Hs' : shape n m (evf idx v)) by (apply Hshape; exact Hs).
      rewrite (col_check n m _ d p Hs' Hp Hchk). rewrite Hfe. rewrite (col_endo n m _ d p Hs' Hp Hend).
      reflexivity.
    Qed.

    (* what the Python loop can return when neither the evaluation nor the post-hook raises *)
    Inductive loop_result : lres num -> Prop :=
    | LR_solved v k lg : loop_result (LDone v Solved k lg)
    | LR_failed v k lg : loop_result (LDone v Failed k lg)
    | LR_skipped v k lg : errors o = ESkip -> loop_result (LDone v Skipped k lg)
    | LR_error v k lg : errors o = ERaise -> loop_result (LRaise v (Some (ErrorSt, k)) (SolutionError None) lg)
    | LR_invalid v lg : errors o = EInvalid -> loop_result (LRaise v None ValueError lg).

    (* the template's view of a Python loop result; `first` = no pass ran before the loop ended (error_code still as on entry) *)
    Definition fo_of (r : lres num) (first : bool) (code : Z) : fout num :=
      match r with
      | LDone v' Solved k _ => mkFout v' true (Z.of_nat k) 0
      | LDone v' Failed k _ => mkFout v' false (Z.of_nat k) (if first then code else 0)
      | LDone v' Skipped k _ => mkFout v' false (Z.of_nat k) c_num_skip
      | LDone v' _ k _ => mkFout v' false (Z.of_nat k) 0
      | LRaise v' (Some (_, k)) _ _ => mkFout v' false (Z.of_nat k) c_num_raise
      | LRaise v' None _ _ => mkFout v' false 0 0
      end.

    Lemma fo_of_code0 r first : fo_of r first 0 = fo_of r false 0.
    Proof. destruct r as [v' [] k lg|v' [[x k]|] e lg]; destruct first; reflexivity. Qed.

    Lemma fo_of_later r c c' : fo_of r false c = fo_of r false c'.
    Proof. destruct r as [v' [] k lg|v' [[x k]|] e lg]; reflexivity. Qed.

    (* the regime in which the two loops coincide, for the passes j+1 .. j+n' *)
    Definition regime_from (j n' : nat) : Prop :=
      (forall i, (j < i <= j + n')%nat -> endo_fin i = all_finite (chk i)) /\
      (errors o = ERaise \/ errors o = ESkip -> all_finite (chk j) = true) /\
      (errors o = EReplace -> forall i, (j <= i <= j + n')%nat -> all_finite (chk i) = true) /\
      (errors o = EIgnore -> forall i, (j < i <= j + n')%nat -> all_finite (chk (i - 1)) = false -> all_finite (chk i) = true ->
                             conv (tol o) (chk i) (chk (i - 1)) = false).

    Lemma regime_next j n' : regime_from j (S n') ->
      (errors o = ERaise \/ errors o = ESkip -> all_finite (chk (S j)) = true) -> regime_from (S j) n'.
    Proof.
      intros (R1 & R2 & R3 & R4) H. repeat split.
      - intros i Hi. apply R1. lia.
      - exact H.
      - intros E i Hi. apply R3; auto. lia.
      - intros E i Hi. apply R4; auto. lia.
    Qed.

    Lemma ec_of_mode :
      match errors o with
      | ERaise => ec = 0 | ESkip => ec = 1 | EIgnore => ec = 2 | EReplace => ec = 3 | EInvalid => False
      end.
    Proof. destruct (errors o); vm_compute in Hec; congruence. Qed.

    Lemma sim : forall n' j lg code,
      (j + n' <= N)%nat -> shape n m (iterv j) -> regime_from j n' ->
      t_loop fm ec (min_iter o) (max_iter o) (tol o) (cv_of d) idx n' (Z.of_nat (S j)) (iterv j) (chk j) code
      = fo_of (loop d o t p n' (S j) (iterv j) (chk j) lg) (n' =? 0)%nat code.
    Proof.
      destruct template_codes as (_ & Cr & Cs & Ci & Cp & _ & _ & _ & _ & Cnr & Cns & _).
      induction n' as [|n' IH]; intros j lg code HN Hs Hr.
      - cbn [FSolve.t_loop Solver.loop fo_of Nat.eqb]. f_equal. lia.
      - rewrite (t_loop_step n' _ _ _ code Hs).
        rewrite (loop_step n' (S j) (iterv j) (chk j) lg (Hev j _ ltac:(lia))).
        change (evf idx (iterv j)) with (iterv (S j)). fold (chk (S j)). fold (endo_fin (S j)).
        cbn [Nat.eqb].
        assert (Hs' : shape n m (iterv (S j))) by (cbn [iterv]; apply Hshape; exact Hs).
        destruct Hr as (R1 & R2 & R3 & R4).
        assert (HR : regime_from j (S n')) by (repeat split; assumption).
        rewrite (R1 (S j)) by lia.
        replace (Z.of_nat (S j) + 1) with (Z.of_nat (S (S j))) by lia.
        pose proof ec_of_mode as Hmode.
        destruct (all_finite (chk (S j))) eqn:B; cbn [negb].
        + (* the new check vector is finite: both judge the pass, unless Python skips it because the previous one was not *)
          destruct (all_finite (chk j)) eqn:A; cbn [negb].
          * destruct (Z.of_nat (S j) <? min_iter o) eqn:Emin.
            -- rewrite (IH (S j) (lg ++ [EvPass t (S j)]) 0 ltac:(lia) Hs') by (apply regime_next; auto).
               destruct n'; [reflexivity|apply fo_of_later].
            -- destruct (conv (tol o) (chk (S j)) (chk j)) eqn:Ec; [reflexivity|].
               rewrite (IH (S j) (lg ++ [EvPass t (S j)]) 0 ltac:(lia) Hs') by (apply regime_next; auto).
               destruct n'; [reflexivity|apply fo_of_later].
          * (* previous vector not finite: only possible under 'ignore' *)
            destruct (errors o) eqn:E; try contradiction;
              try (exfalso; assert (Hft : false = true) by (apply R2; auto); discriminate Hft).
            -- assert (Hc : conv (tol o) (chk (S j)) (chk j) = false).
               { specialize (R4 eq_refl (S j)). replace (S j - 1)%nat with j in R4 by lia. apply R4; auto. lia. }
               rewrite Hc.
               assert (Hsame : (if Z.of_nat (S j) <? min_iter o
                                then t_loop fm ec (min_iter o) (max_iter o) (tol o) (cv_of d) idx n' (Z.of_nat (S (S j))) (iterv (S j)) (chk (S j)) 0
                                else t_loop fm ec (min_iter o) (max_iter o) (tol o) (cv_of d) idx n' (Z.of_nat (S (S j))) (iterv (S j)) (chk (S j)) 0)
                               = t_loop fm ec (min_iter o) (max_iter o) (tol o) (cv_of d) idx n' (Z.of_nat (S (S j))) (iterv (S j)) (chk (S j)) 0)
                 by (destruct (Z.of_nat (S j) <? min_iter o); reflexivity).
               rewrite Hsame.
               rewrite (IH (S j) (lg ++ [EvPass t (S j)]) 0 ltac:(lia) Hs') by (apply regime_next; auto; intros [H|H]; congruence).
               destruct n'; [reflexivity|apply fo_of_later].
            -- rewrite (R3 eq_refl j) in A by lia. discriminate.
        + (* the new check vector is not finite *)
          destruct (errors o) eqn:E; try contradiction.
          * (* raise *) subst ec. rewrite Cr. cbn [Z.eqb]. rewrite (R2 (or_introl eq_refl)). cbn [negb fo_of]. rewrite Cnr. reflexivity.
          * (* skip *) subst ec. rewrite Cr, Cs. cbn [Z.eqb Pos.eqb]. rewrite (R2 (or_intror eq_refl)). cbn [negb fo_of]. rewrite Cns. reflexivity.
          * (* ignore *) subst ec. rewrite Cr, Cs, Ci. cbn [Z.eqb Pos.eqb].
            destruct (all_finite (chk j)) eqn:A; cbn [negb].
            -- destruct n' as [|n''].
               ++ cbn [FSolve.t_loop fo_of]. f_equal. lia.
               ++ rewrite (IH (S j) (lg ++ [EvPass t (S j)]) 0 ltac:(lia) Hs') by (apply regime_next; auto; intros [H|H]; congruence).
                  apply fo_of_later.
            -- rewrite (IH (S j) (lg ++ [EvPass t (S j)]) 0 ltac:(lia) Hs') by (apply regime_next; auto; intros [H|H]; congruence).
               destruct n'; [reflexivity|apply fo_of_later].
          * (* replace: excluded by the regime *) rewrite (R3 eq_refl (S j)) in B by lia. discriminate.
    Qed.

    (* what the Python loop returns inside the regime *)
    Lemma loop_results : forall n' j lg,
      (j + n' <= N)%nat -> regime_from j n' -> loop_result (loop d o t p n' (S j) (iterv j) (chk j) lg).
    Proof.
      induction n' as [|n' IH]; intros j lg HN Hr.
      - cbn [Solver.loop]. constructor.
      - rewrite (loop_step n' (S j) (iterv j) (chk j) lg (Hev j _ ltac:(lia))).
        change (evf idx (iterv j)) with (iterv (S j)). fold (chk (S j)).
        destruct Hr as (R1 & R2 & R3 & R4).
        assert (HR : regime_from j (S n')) by (repeat split; assumption).
        destruct (all_finite (chk j)) eqn:A; cbn [negb].
        + destruct (all_finite (chk (S j))) eqn:B; cbn [negb].
          * destruct (Z.of_nat (S j) <? min_iter o).
            -- apply IH; [lia|]. apply regime_next; auto.
            -- destruct (conv (tol o) (chk (S j)) (chk j)); [constructor|]. apply IH; [lia|]. apply regime_next; auto.
          * destruct (errors o) eqn:E.
            -- constructor; exact E.
            -- constructor; exact E.
            -- destruct n'; [constructor|]. apply IH; [lia|]. apply regime_next; auto. intros [H|H]; congruence.
            -- rewrite (R3 eq_refl (S j)) in B by lia. discriminate.
            -- constructor; exact E.
        + apply IH; [lia|]. apply regime_next; auto.
          intros H. exfalso. assert (X : false = true) by (apply R2; exact H). discriminate X.
    Qed.

    (* all check / endogenous values of passes j .. j+n' finite: the loop ends '.' or 'F', on a store of the iteration *)
    Lemma loop_finite : forall n' j lg,
      (j + n' <= N)%nat ->
      (forall i, (j <= i <= j + n')%nat -> all_finite (chk i) = true) ->
      exists i x k lg', loop d o t p n' (S j) (iterv j) (chk j) lg = LDone (iterv i) x k lg' /\ (x = Solved \/ x = Failed).
    Proof.
      induction n' as [|n' IH]; intros j lg HN Hf.
      - cbn [Solver.loop]. exists j, Failed, (S j - 1)%nat, lg. split; [reflexivity|right; reflexivity].
      - rewrite (loop_step n' (S j) (iterv j) (chk j) lg (Hev j _ ltac:(lia))).
        change (evf idx (iterv j)) with (iterv (S j)). fold (chk (S j)).
        rewrite (Hf j) by lia. rewrite (Hf (S j)) by lia. cbn [negb].
        assert (Hnext : exists i x k lg', loop d o t p n' (S (S j)) (iterv (S j)) (chk (S j)) (lg ++ [EvPass t (S j)])
                                          = LDone (iterv i) x k lg' /\ (x = Solved \/ x = Failed)).
        { apply IH; [lia|]. intros i Hi. apply Hf. lia. }
        destruct (Z.of_nat (S j) <? min_iter o); [exact Hnext|].
        destruct (conv (tol o) (chk (S j)) (chk j)); [|exact Hnext].
        exists (S j), Solved, (S j), ((lg ++ [EvPass t (S j)]) ++ [EvAfter t (S j)]). split; [reflexivity|left; reflexivity].
    Qed.
  End Sim.

  (* all values of the check and endogenous variables of period p stay finite over the first N passes *)
  Definition stays_finite (d : mdesc) (p : nat) (v1 : vals) (N : nat) : Prop :=
    forall i, (i <= N)%nat -> all_finite (chk d p v1 i) = true /\ endo_fin d p v1 i = true.
  Lemma finite_regime_from d o p v1 N j n' : stays_finite d p v1 N -> (j + n' <= N)%nat -> regime_from d o p v1 j n'.
  Proof.
    intros H HN. repeat split.
    - intros i Hi. destruct (H i ltac:(lia)) as [-> ->]. reflexivity.
    - intros _. apply (H j). lia.
    - intros _ i Hi. apply (H i). lia.
    - intros _ i Hi Hf. destruct (H (i - 1)%nat ltac:(lia)) as [Hc _]. rewrite Hc in Hf. discriminate.
  Qed.
  Lemma finite_regime d o p v1 N : stays_finite d p v1 N -> regime_from d o p v1 0 N.
  Proof. intros H. apply (finite_regime_from d o p v1 N 0 N H). lia. Qed.

  (* ================================================================== subroutine solve_t as a whole *)
  (* the values the iteration starts from: the endogenous values of period p + offset copied into period p *)
  Definition seeded (d : mdesc) (o : opts num) (v : vals) (p : nat) : vals :=
    if offset o =? 0 then v else copy_endo d v p (Z.to_nat (Z.of_nat p + offset o)).

  Lemma seeded_shape n m d o (v : vals) p : shape n m v -> shape n m (seeded d o v p).
  Proof. intros H. unfold seeded. destruct (offset o =? 0); [exact H|]. apply copy_endo_shape. exact H. Qed.

  Lemma seeded_idem n m d o (v : vals) p :
    shape n m v -> (p < n)%nat -> rows_ok m (endo d) -> (offset o = 0 \/ 0 <= Z.of_nat p + offset o < Z.of_nat n) ->
    seeded d o (seeded d o v p) p = seeded d o v p.
  Proof.
    intros Hs Hp Hr Ho. unfold seeded. destruct (offset o =? 0) eqn:E; [reflexivity|].
    apply (copy_endo_idem num zero n m); auto; lia.
  Qed.

  Lemma t_solve_t_spec fm d o T p n m ec (v : vals) :
    shape n m v -> (0 < m)%nat -> (p < n)%nat -> rows_ok m (check d) -> rows_ok m (endo d) -> fm_endo fm = endo_nums d ->
    t_index (Z.of_nat n) T = Z.of_nat p + 1 ->
    t_guard fm (Z.of_nat n) (Z.of_nat p + 1) = 0 ->
    (offset o = 0 \/ 0 <= Z.of_nat p + offset o < Z.of_nat n) ->
    t_solve_t fm v T (min_iter o) (max_iter o) (tol o) (offset o) (cv_of d) ec =
    (if (ec =? c_ec_raise) && negb (all_finite (get_check d (seeded d o v p) p))
     then mkFout (seeded d o v p) false undef_iter c_pre_existing
     else t_loop fm ec (min_iter o) (max_iter o) (tol o) (cv_of d) (Z.of_nat p + 1) (Z.to_nat (max_iter o)) 1
                 (seeded d o v p) (get_check d (seeded d o v p) p) 0).
  Proof.
    intros Hs Hm Hp Hchk Hend Hfe Hidx Hg Hoff. unfold FSolve.t_solve_t. rewrite (shape_ncols _ _ _ Hs Hm), Hidx, Hg.
    change (negb (0 =? 0)) with false. cbv iota. unfold seeded.
    destruct (offset o =? 0) eqn:Eo.
    - rewrite (col_check n m v d p Hs Hp Hchk). reflexivity.
    - replace (Z.of_nat p + 1 + offset o <? 1) with false by lia.
      replace (Z.of_nat n <? Z.of_nat p + 1 + offset o) with false by lia.
      replace (Z.of_nat p + 1 + offset o) with (Z.of_nat (Z.to_nat (Z.of_nat p + offset o)) + 1) by lia.
      assert (Hq : (Z.to_nat (Z.of_nat p + offset o) < n)%nat) by lia.
      rewrite (t_copy_eq num zero n m fm d v p (Z.to_nat (Z.of_nat p + offset o)) Hs Hp Hq Hend Hfe).
      rewrite (col_check n m _ d p (copy_endo_shape num zero n m d v p _ Hs) Hp Hchk). reflexivity.
  Qed.

  Section Main.
    Variables (ev before after : hook num).
    Notation solve_t_M := (solve_t_M num sub absf ltb isfin zero ev before after).

    Definition same_nolog (a b : mstate num) : Prop :=
      vals_of a = vals_of b /\ status a = status b /\ iters a = iters b.
    (* same return value or exception class, same values / statuses / iteration counts *)
    Definition agree {A} (x y : mstate num * outcome A) : Prop := snd x = snd y /\ same_nolog (fst x) (fst y).

    Lemma w_ec_valid (o : opts num) : errors o <> EInvalid -> exists ec, w_ec (errors o) = Some ec /\
      (ec =? c_ec_raise) = is_raise (errors o).
    Proof. destruct (errors o); intros H; try contradiction; eexists; split; reflexivity. Qed.

    (* FortranEngine.solve_t = BaseModel.solve_t on a feasible period, for all options of the lattice with max_iter >= 1,
       while the passes stay inside the regime (in particular: while all values stay finite) *)
    Theorem w_solve_t_refines fm d o t s p n m :
      shape n m (vals_of s) -> length (status s) = n -> (0 < m)%nat ->
      rows_ok m (check d) -> rows_ok m (endo d) ->
      fm_endo fm = endo_nums d -> fm_lags fm = Z.of_nat (lags d) -> fm_leads fm = Z.of_nat (leads d) ->
      py_pos n t = Some p -> feasible d n p = true ->
      errors o <> EInvalid -> min_iter o <= max_iter o ->
      (offset o = 0 \/ 0 <= Z.of_nat p + offset o < Z.of_nat n) ->
      (forall v, shape n m v -> shape n m (evf (Z.of_nat p + 1) v)) ->
      let v0 := seeded d o (vals_of s) p in
      let N := Z.to_nat (max_iter o) in
      (forall i k, (i < N)%nat -> ev t (errors o) (catch_first o) k (iterv p v0 i) = (evf (Z.of_nat p + 1) (iterv p v0 i), None)) ->
      (forall em cf k v, before t em cf k v = (v, None)) ->
      (forall em cf k v, after t em cf k v = (v, None)) ->
      regime_from d o p v0 0 N ->
      agree (w_solve_t fm d o t s) (solve_t_M d o t s).
    Proof.
      intros Hs Hlen Hm Hchk Hend Hfe Hfl Hfd Hpos Hfeas Hinv Hmm Hoff Hshape v0 N Hev Hbef Haft Hreg.
      pose proof (py_pos_lt _ _ _ Hpos) as Hp.
      destruct (w_ec_valid o Hinv) as (ec & Hec & Hecr).
      assert (Hlt : (max_iter o <? min_iter o) = false) by lia.
      assert (Hs0 : shape n m v0) by (apply seeded_shape; exact Hs).
      assert (Hg : t_guard fm (Z.of_nat n) (Z.of_nat p + 1) = 0).
      { rewrite (t_guard_feasible fm d n p Hfl Hfd Hp), Hfeas. reflexivity. }
      assert (Hpre : (if offset o =? 0 then @inl vals exn (vals_of s)
                      else if Z.of_nat p + offset o <? 0 then inr IndexError
                           else if Z.of_nat n <=? Z.of_nat p + offset o then inr IndexError
                                else inl (copy_endo d (vals_of s) p (Z.to_nat (Z.of_nat p + offset o)))) = inl v0).
      { unfold v0, seeded. destruct (offset o =? 0) eqn:Eo; [reflexivity|].
        replace (Z.of_nat p + offset o <? 0) with false by lia.
        replace (Z.of_nat n <=? Z.of_nat p + offset o) with false by lia. reflexivity. }
      unfold FSolve.w_solve_t, Solver.solve_t_M, agree. rewrite Hlt, Hec, Hlen, Hpos, Hfeas. cbn [negb]. cbv zeta.
      rewrite Hpre.
      destruct (is_raise (errors o) && negb (all_finite (get_check d v0 p))) eqn:Epre.
      { cbn [fst snd]. split; [reflexivity|]. repeat split. }
      assert (Hts : t_solve_t fm v0 (t + 1) (min_iter o) (max_iter o) (tol o) (offset o) (cv_of d) ec
                    = t_loop fm ec (min_iter o) (max_iter o) (tol o) (cv_of d) (Z.of_nat p + 1) N 1 v0 (get_check d v0 p) 0).
      { rewrite (t_solve_t_spec fm d o (t + 1) p n m ec v0 Hs0 Hm Hp Hchk Hend Hfe (t_index_pos n t p Hpos) Hg Hoff).
        replace (seeded d o v0 p) with v0 by (symmetry; apply (seeded_idem n m d o (vals_of s) p Hs Hp Hend Hoff)).
        rewrite Hecr, Epre. reflexivity. }
      rewrite Hts.
      pose proof (sim ev after fm d o t p n m ec v0 N Hev Haft Hshape Hp Hm Hg Hchk Hend Hfe Hec N 0%nat
                      (log s ++ [EvBefore t]) 0 ltac:(lia) Hs0 Hreg) as Hsim.
      pose proof (loop_results ev after d o t p n m ec v0 N Hev Haft Hp Hm Hec N 0%nat
                      (log s ++ [EvBefore t]) ltac:(lia) Hreg) as Hres.
      cbn [iterv] in Hsim, Hres. unfold chk in Hsim, Hres. cbn [iterv] in Hsim, Hres.
      change (Z.of_nat 1) with 1 in Hsim. rewrite Hsim. rewrite Hbef.
      rewrite fo_of_code0.
      destruct wrapper_codes as (W0 & W1 & W2 & _).
      destruct template_codes as (_ & _ & _ & _ & _ & _ & _ & _ & _ & Cnr & Cns & _).
      subst N.
      remember (loop num sub absf ltb isfin zero ev after d o t p (Z.to_nat (max_iter o)) 1 v0 (get_check d v0 p)
                     (log s ++ [EvBefore t])) as r eqn:Er.
      destruct Hres as [v' k lg'|v' k lg'|v' k lg' He|v' k lg' He|v' lg' He]; cbn [fo_of finish];
        cbn [fo_code fo_conv fo_vals fo_iter]; rewrite ?W0, ?W1, ?W2, ?Cnr, ?Cns.
      - cbn [Z.eqb st_eqb andb fst snd]. split; [reflexivity|]. repeat split.
      - cbn [Z.eqb st_eqb andb]. destruct (fail_raise o); cbn [fst snd]; (split; [reflexivity|]; repeat split).
      - rewrite He. cbn [Z.eqb Pos.eqb andb is_raise is_skip st_eqb fst snd]. split; [reflexivity|]. repeat split.
      - rewrite He. cbn [Z.eqb Pos.eqb andb is_raise fst snd]. split; [reflexivity|]. repeat split.
      - contradiction.
    Qed.
  End Main.
End Facts.
