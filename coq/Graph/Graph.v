(* Graph.v — fsic.tools.symbols_to_graph (fsic/tools.py:66-86) exactly as coded.  Definitions only.

       G = nx.DiGraph()
       equations = [s.equation for s in symbols if s.equation is not None and s.type == Type.ENDOGENOUS]
       for e in equations:
           lhs, rhs = e.split('=', maxsplit=1)                            # first '='; no '=' -> ValueError (unpacking)
           endogenous = [m.group(0) for m in term_re.finditer(lhs)]       # EVERY match: keywords, functions and
           exogenous  = [m.group(0) for m in term_re.finditer(rhs)]       #   verbatim fragments are not filtered out
           G.add_nodes_from(endogenous, equation=e)
           for n in endogenous:
               for x in exogenous:
                   G.add_edge(x, n)

   The node identifier is group(0), the whole text of the match: for a FUNCTION match that includes the
   blanks the regex swallows before the "(" (`max (X)` -> node "max "); in a normalised equation there are none.

   networkx.DiGraph is modelled by what the property observes of it:
     gnodes : insertion-ordered association list  node -> attribute `equation` (None = no attribute)
     gedges : insertion-ordered list of (source, target) without repetitions
   add_nodes_from(ns, equation=e): a new node is appended with the attribute, an existing one has it updated in place;
   add_edge(u, v): u, then v, are appended without attribute if missing; the pair is appended if missing. *)
From Coq Require Import String Ascii List Bool Arith.
Import ListNotations.
Require Import PyBase PyStr Lex Symbols.
Open Scope string_scope.
Open Scope nat_scope.

(* ---- m.group(0) for every match of term_re.finditer(s) ---- *)
Fixpoint groups0 (s : string) (l : list item) : list string :=
  match l with
  | [] => []
  | Tok p m :: r => substring p (mlen m) s :: groups0 s r
  | Chr _ :: r => groups0 s r
  end.
Definition finditer_group0 (s : string) : list string := groups0 s (scan_items s).

(* ---- the observable part of a DiGraph ---- *)
Record graph : Type := mkGraph { gnodes : list (string * option string); gedges : list (string * string) }.
Definition empty_graph : graph := mkGraph [] [].

Fixpoint has_node (n : string) (ns : list (string * option string)) : bool :=
  match ns with [] => false | (k, _) :: r => String.eqb n k || has_node n r end.
(* G.add_node(n, equation=e) *)
Fixpoint set_node (n : string) (e : string) (ns : list (string * option string)) : list (string * option string) :=
  match ns with
  | [] => [(n, Some e)]
  | (k, a) :: r => if String.eqb n k then (k, Some e) :: r else (k, a) :: set_node n e r
  end.
(* the implicit node creation of add_edge *)
Definition touch_node (n : string) (ns : list (string * option string)) : list (string * option string) :=
  if has_node n ns then ns else (ns ++ [(n, None)])%list.
Definition pair_eqb (a b : string * string) : bool := String.eqb (fst a) (fst b) && String.eqb (snd a) (snd b).
Definition has_edge (e : string * string) (es : list (string * string)) : bool := existsb (pair_eqb e) es.

Definition add_node_attr (e : string) (g : graph) (n : string) : graph := mkGraph (set_node n e (gnodes g)) (gedges g).
Definition add_edge (g : graph) (x n : string) : graph :=
  mkGraph (touch_node n (touch_node x (gnodes g)))
          (if has_edge (x, n) (gedges g) then gedges g else (gedges g ++ [(x, n)])%list).

(* one turn of `for e in equations` *)
Definition graph_step (g : graph) (e : string) : outcome graph :=
  match find_any "=" e with
  | None => Raise ValueError                                   (* lhs, rhs = ['…']  *)
  | Some (lhs, rhs) =>
    let endogenous := finditer_group0 lhs in
    let exogenous := finditer_group0 rhs in
    let g1 := fold_left (add_node_attr e) endogenous g in
    Ret (fold_left (fun g n => fold_left (fun g x => add_edge g x n) exogenous g) endogenous g1)
  end.

Fixpoint graph_loop (g : graph) (equations : list string) : outcome graph :=
  match equations with
  | [] => Ret g
  | e :: rest => match graph_step g e with Ret g' => graph_loop g' rest | Raise x => Raise x end
  end.

(* equations = [s.equation for s in symbols if s.equation is not None and s.type == Type.ENDOGENOUS]   (fix 9d4c57e:
   verbatim blocks keep their code in the same field but define no terms) *)
Fixpoint equations_of (symbols : list symbol) : list string :=
  match symbols with
  | [] => []
  | s :: r => match sequation s, stype s with
              | Some e, TEndogenous => e :: equations_of r
              | _, _ => equations_of r
              end
  end.

Definition symbols_to_graph_M (symbols : list symbol) : outcome graph := graph_loop empty_graph (equations_of symbols).

(* ---- reading the graph ---- *)
Definition node_attr (g : graph) (n : string) : option (option string) :=
  match find (fun kv => String.eqb n (fst kv)) (gnodes g) with Some (_, a) => Some a | None => None end.
Definition is_edge (g : graph) (x n : string) : bool := has_edge (x, n) (gedges g).
Definition in_edges (g : graph) (n : string) : list string :=
  map fst (filter (fun e => String.eqb (snd e) n) (gedges g)).
(* G.edges() as networkx iterates them: node by node in node insertion order, the successors of a node in the order
   in which its out-edges were added *)
Definition nx_edges (g : graph) : list (string * string) :=
  flat_map (fun kv => filter (fun e => String.eqb (fst e) (fst kv)) (gedges g)) (gnodes g).
(* a node identifier that denotes a series at an offset / period: NAME[...]; function names and keywords carry no
   bracket, verbatim fragments start with a backtick *)
Definition varlike_id (s : string) : bool := negb (head_is "`" s) && has_char "[" s.
