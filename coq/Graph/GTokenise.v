(* GTokenise.v — reading a normalised equation TEXT back into its token list (GNorm.neq), executably.  Definitions only.

   `tokenise e` re-lexes the two sides of e with the model of term_re.finditer, turns every match into a token and accepts
   the result only if it is well formed (neq_wf) and reproduces e character by character: so `tokenise e = Some q` is a
   closed, decidable way of saying "e is a well-formed normalised equation", and the theorems of GraphTheorems apply to q. *)
From Coq Require Import String Ascii List Bool Arith ZArith.
Import ListNotations.
Require Import Generated PyBase PyStr Lex Symbols ParseEq GLex GNorm Graph.
Open Scope string_scope.

(* the text between the brackets of Term.__str__: t, t+k, t-k — anything else is a period name *)
Definition parse_tindex (inner : string) : pidx :=
  match inner with
  | String c rest =>
    if Ascii.eqb c "t" then
      match rest with
      | "" => IInt 0
      | _ => match py_int rest with
             | Some z => if String.eqb (idx_body (IInt z)) inner then IInt z else IStr inner
             | None => IStr inner
             end
      end
    else IStr inner
  | "" => IStr inner
  end.

Definition verb_body (whole : string) : string :=
  drop_last (match whole with String _ r => r | "" => "" end).

Definition tok_of_match (m : tmatch) : option ntok :=
  match mkind m with
  | KVariable => match mindex m with Some inner => Some (NTerm (mname m) (parse_tindex inner)) | None => None end
  | KFunction => Some (NFunc (mname m))
  | KKeyword => Some (NKw (mname m))
  | KVerbatim => Some (NVerb (verb_body (mname m)))
  | KParameter | KError | KInvalid => None
  end.
Fixpoint toks_of_items (l : list item) : option (list ntok) :=
  match l with
  | [] => Some []
  | Chr c :: r => match toks_of_items r with Some t => Some (NChr c :: t) | None => None end
  | Tok _ m :: r => match tok_of_match m, toks_of_items r with Some x, Some t => Some (x :: t) | _, _ => None end
  end.

Definition tokenise (e : string) : option neq :=
  match find_any "=" e with
  | None => None
  | Some (l, r) =>
    match toks_of_items (scan_items l), toks_of_items (scan_items r) with
    | Some a, Some b => let q := mkNeq a b in if neq_wf q && String.eqb (neq_text q) e then Some q else None
    | _, _ => None
    end
  end.

(* every equation symbols_to_graph will read is a well-formed normalised equation *)
Definition checked (symbols : list symbol) : bool :=
  forallb (fun e => match tokenise e with Some _ => true | None => false end) (equations_of symbols).
Definition tokenised (symbols : list symbol) : list neq :=
  flat_map (fun e => match tokenise e with Some q => [q] | None => [] end) (equations_of symbols).
