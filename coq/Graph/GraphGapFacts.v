(* GraphGapFacts.v — EMPTY versus NON-EMPTY gaps (`Y=X+Z` / `Y = X + Z`, `X**2` / `X ** 2`, `f(a,b)` / `f(a, b)`, a trailing blank):
   the normaliser never inserts or removes the last blank of a gap, so the equation / code STRINGS of two such layouts differ.
   What is the same:
     strip_nrm            the normaliser touches blank tokens only
     retext_symbols       the symbol loop of parse_equation run on the same terms with other equation / code texts yields the
                          same symbols field by field (name, type, lags, leads, and which symbols carry texts) and raises alike
     gaps_irrelevant      two statements with the same non-blank tokens: the same terms, hence the same symbols up to the two
                          texts, and the texts are renderings of token lists that agree up to blank tokens
   That token lists which agree up to blank tokens are the same Python token stream (same ast) is NOT proved: that last step of
   the clause "the generated code has the same meaning" rests on the oracle's ast.dump(ast.parse(code)). *)
From Coq Require Import String Ascii List Bool Arith Lia ZArith.
Import ListNotations.
Require Import Generated PyBase PyStr Lex Symbols SymbolsFacts Merge ParseEq ParseContribFacts GLex GLexFacts GNorm GNormFacts.
Require Import Layout Denorm DenormInt DenormLex DenormFacts GraphSrcWf GraphTokWf GraphCanonWf GraphCanonText.
Open Scope string_scope.

Definition strip_blanks (l : list ntok) : list ntok := filter (fun x => negb (is_blank_tok x)) l.

Lemma bred_strip a b : bred a b -> strip_blanks a = strip_blanks b.
Proof.
  induction 1 as [|x a b _ IH|c a b Hc _ IH|c a b Hc _ IH]; unfold strip_blanks in *; cbn [filter is_blank_tok].
  - reflexivity.
  - rewrite IH. reflexivity.
  - rewrite Hc. cbn [negb]. exact IH.
  - rewrite Hc. replace (is_space " ") with true by (vm_compute; reflexivity). cbn [negb]. exact IH.
Qed.
Lemma strip_nrm l : strip_blanks (nrm l) = strip_blanks l.
Proof.
  unfold nrm. rewrite <- (bred_strip _ _ (bred_tclose _)), <- (bred_strip _ _ (bred_topen _ false)), <- (bred_strip _ _ (bred_tws l false)). reflexivity.
Qed.
Lemma strip_term_toks l : term_toks (strip_blanks l) = term_toks l.
Proof.
  induction l as [|x l IH]; [reflexivity|]. destruct x as [| | | |c]; unfold strip_blanks in *; cbn [filter is_blank_tok negb term_toks]; rewrite ?IH; try reflexivity.
  destruct (is_space c); cbn [negb term_toks]; exact IH.
Qed.
Lemma lay_terms_term_toks lay side l : lay_terms lay side l = lay_terms lay side (term_toks l).
Proof. induction l as [|x l IH]; [reflexivity|]. destruct x; cbn [lay_terms lay_term tok_term term_toks]; rewrite ?IH; reflexivity. Qed.
Lemma lay_terms_strip lay side l l' : strip_blanks l = strip_blanks l' -> lay_terms lay side l = lay_terms lay side l'.
Proof. intros H. rewrite (lay_terms_term_toks lay side l), (lay_terms_term_toks lay side l'), <- (strip_term_toks l), <- (strip_term_toks l'), H. reflexivity. Qed.

(* ================================================================== the symbol loop does not look into the two texts *)
Section Retext.
  Variables (e c e' c' : string).
  Definition rt (s : symbol) : symbol :=
    mkSymbol (sname s) (stype s) (slags s) (sleads s)
             (match sequation s with Some _ => Some e' | None => None end) (match scode s with Some _ => Some c' | None => None end).
  Definition rt_out (o : outcome symbol) : outcome symbol := match o with Ret s => Ret (rt s) | Raise x => Raise x end.

  Lemma combine_rt a b : tame e c a -> tame e c b -> combine (rt a) (rt b) = rt_out (combine a b).
  Proof.
    intros [Ea Ca] [Eb Cb]. unfold combine, rt, obind. cbn [stype slags sleads sequation scode sname].
    destruct (if type_eqb (stype a) (stype b) then Ret (stype a) else if is_variable_type (stype a) && is_variable_type (stype b) then Ret (type_max (stype a) (stype b)) else Raise SymbolError) as [ty|x]; [|reflexivity].
    destruct (resolve_by_type_pair Z.min (slags a) (slags b)) as [lg|x]; [|reflexivity].
    destruct (resolve_by_type_pair Z.max (sleads a) (sleads b)) as [ld|x]; [|reflexivity].
    destruct Ea as [-> | ->], Eb as [-> | ->], Ca as [-> | ->], Cb as [-> | ->]; cbn [resolve_strings rt_out]; rewrite ?String.eqb_refl; reflexivity.
  Qed.

  Definition rtd (d : list (string * symbol)) : list (string * symbol) := map (fun kv => (fst kv, rt (snd kv))) d.
  Lemma get_rtd k d : dict_get k (rtd d) = match dict_get k d with Some s => Some (rt s) | None => None end.
  Proof. induction d as [|[k0 v0] r IH]; [reflexivity|]. cbn [rtd map dict_get fst snd]. destruct (String.eqb k k0); [reflexivity|exact IH]. Qed.
  Lemma set_rtd k v d : dict_set k (rt v) (rtd d) = rtd (dict_set k v d).
  Proof. induction d as [|[k0 v0] r IH]; [reflexivity|]. cbn [rtd map dict_set fst snd]. destruct (String.eqb k k0); [reflexivity|]. cbn [map fst snd]. f_equal. exact IH. Qed.

  Definition dtame (d : list (string * symbol)) : Prop := forall v, In v (dict_values d) -> tame e c v.

  Lemma dict_combine_rt name sym d : dtame d -> tame e c sym ->
    dict_combine name (rt sym) (rtd d) = match dict_combine name sym d with Ret d' => Ret (rtd d') | Raise x => Raise x end.
  Proof.
    intros Hd Hs. unfold dict_combine. rewrite get_rtd.
    assert (Told : tame e c (match dict_get name d with Some old => old | None => sym end)).
    { destruct (dict_get name d) as [old|] eqn:Eg; [apply Hd, (dict_get_in _ _ _ Eg)|exact Hs]. }
    replace (match match dict_get name d with Some s => Some (rt s) | None => None end with Some old => old | None => rt sym end)
      with (rt (match dict_get name d with Some old => old | None => sym end)) by (destruct (dict_get name d); reflexivity).
    rewrite (combine_rt _ _ Told Hs). destruct (combine _ sym) as [cc|x]; cbn [rt_out]; [rewrite set_rtd; reflexivity|reflexivity].
  Qed.

  Lemma go_rt terms : forall d fs, dtame d ->
    equation_symbols_go e' c' terms (rtd d) fs = match equation_symbols_go e c terms d fs with Ret d' => Ret (rtd d') | Raise x => Raise x end.
  Proof.
    induction terms as [|t rest IH]; intros d fs Hd; [reflexivity|]. cbn [equation_symbols_go].
    assert (COMB : forall sym sym', tame e c sym -> sym' = rt sym ->
              match dict_combine (tname t) sym' (rtd d) with Ret dd => equation_symbols_go e' c' rest dd fs | Raise x => Raise x end
              = match match dict_combine (tname t) sym d with Ret dd => equation_symbols_go e c rest dd fs | Raise x => Raise x end with
                | Ret d' => Ret (rtd d') | Raise x => Raise x end).
    { intros sym sym' Hs ->. rewrite (dict_combine_rt _ _ _ Hd Hs).
      destruct (dict_combine (tname t) sym d) as [dd|x] eqn:Ed; [|reflexivity]. apply IH.
      intros v Hv. unfold dict_combine in Ed.
      destruct (combine (match dict_get (tname t) d with Some old => old | None => sym end) sym) as [cc|] eqn:Ec; [|discriminate]. inversion Ed; subst dd.
      destruct (dict_values_set_in _ _ _ _ Hv) as [->|Hin]; [|apply Hd, Hin].
      refine (combine_tame e c _ sym cc _ Hs Ec). destruct (dict_get (tname t) d) as [old|] eqn:Eg; [apply Hd, (dict_get_in _ _ _ Eg)|exact Hs]. }
    destruct (ttype t); try (apply COMB; [first [split; left; reflexivity | split; right; reflexivity]|reflexivity]).
    apply IH, Hd.
  Qed.

  Theorem retext_symbols terms :
    equation_symbols e' c' terms = match equation_symbols e c terms with Ret l => Ret (map rt l) | Raise x => Raise x end.
  Proof.
    unfold equation_symbols. change (@nil (string * symbol)) with (rtd []) at 1. rewrite (go_rt terms [] [] (fun v (H : In v (dict_values [])) => match H with end)).
    destruct (equation_symbols_go e c terms [] []) as [d|x]; [|reflexivity]. unfold dict_values, rtd. rewrite map_map. cbn [snd]. rewrite <- map_map with (f := snd) (g := rt). reflexivity.
  Qed.
End Retext.

(* ================================================================== empty versus non-empty gaps *)
Theorem gaps_irrelevant lay q1 q2 :
  dq_ok_ws lay q1 = true -> dq_ok_ws lay q2 = true ->
  strip_blanks (nlhs q1) = strip_blanks (nlhs q2) -> strip_blanks (nrhs q1) = strip_blanks (nrhs q2) ->
  let T1 := nrm (whole_toks q1) in let T2 := nrm (whole_toks q2) in
  strip_blanks T1 = strip_blanks T2 /\
  parse_equation_M (denorm_text lay q1) = of_outcome (equation_symbols (nflat T1) (cflat T1) (lneq_terms lay q1)) /\
  parse_equation_M (denorm_text lay q2)
  = of_outcome (match equation_symbols (nflat T1) (cflat T1) (lneq_terms lay q1) with
                | Ret l => Ret (map (rt (nflat T2) (cflat T2)) l) | Raise x => Raise x end).
Proof.
  intros H1 H2 Hl Hr T1 T2. split; [|split].
  - unfold T1, T2. rewrite !strip_nrm. unfold whole_toks, strip_blanks. rewrite !filter_app. cbn [filter is_blank_tok].
    fold (strip_blanks (nlhs q1)) (strip_blanks (nlhs q2)) (strip_blanks (nrhs q1)) (strip_blanks (nrhs q2)). rewrite Hl, Hr. reflexivity.
  - apply (parse_denorm_general lay q1 H1).
  - rewrite (parse_denorm_general lay q2 H2). fold T2.
    assert (ET : lneq_terms lay q2 = lneq_terms lay q1).
    { unfold lneq_terms. rewrite (lay_terms_strip lay TEndogenous _ _ Hl), (lay_terms_strip lay TExogenous _ _ Hr). reflexivity. }
    rewrite ET, (retext_symbols (nflat T1) (cflat T1) (nflat T2) (cflat T2)). reflexivity.
Qed.
