(* GraphEvalWf.v — the rendering GNorm.rstmt of EVERY Eval statement is a well-formed normalised equation (GNorm.neq_wf),
   provided series names are identifiers that are not (prefixed by) keywords, function names likewise, and numerals
   contain no character at which a term could start (no letter — the parser lexes `2e5` as 2 and the series e5 —, no
   backtick, brace or "<").  This discharges the decidable premise of the theorems of GraphEvalFacts for all programs.
   Also: NAME[t+k] determines NAME and k (term_text_inj), so an edge identifies the term. *)
From Coq Require Import String Ascii List Bool Arith Lia ZArith DecimalString Decimal DecimalZ DecimalPos.
Import ListNotations.
Require Import Generated PyBase PyStr Lex Symbols Merge ParseEq GLex GLexFacts GNorm GNormFacts Graph GraphFacts GraphTheorems GraphEvalFacts.
Require Import Solver Eval.
Open Scope string_scope.

Definition name_ok (s : string) : bool := is_ident s && kw_free s.
Definition fname_ok (s : string) : bool := is_fname s && kw_free s.
Definition numeral_ok (s : string) : bool := all_chars inert s.

(* ================================================================== str(int) *)
Definition idxc (c : ascii) : bool := is_digit c || Ascii.eqb c "-" || Ascii.eqb c "t" || Ascii.eqb c "+".
Lemma digit_idxc c : is_digit c = true -> idxc c = true.
Proof. unfold idxc. intros ->. reflexivity. Qed.
Lemma idxc_props : forall c, idxc c = true ->
  negb (Ascii.eqb c "]") && negb (Ascii.eqb c nl) && negb (is_space c) && negb (Ascii.eqb c "=") && negb (Ascii.eqb c "[") = true.
Proof. sweep. Qed.

Lemma uint_chars d : all_chars is_digit (NilEmpty.string_of_uint d) = true.
Proof. induction d; cbn [NilEmpty.string_of_uint all_chars]; [reflexivity|..]; rewrite IHd; reflexivity. Qed.
Lemma nz_uint_chars d : all_chars is_digit (NilZero.string_of_uint d) = true.
Proof. destruct d; [reflexivity|..]; match goal with |- context [NilZero.string_of_uint ?x] => exact (uint_chars x) end. Qed.
Lemma string_of_Z_chars z : all_chars idxc (string_of_Z z) = true.
Proof.
  unfold string_of_Z. destruct (Z.to_int z) as [d|d]; cbn [NilZero.string_of_int all_chars].
  - apply (all_chars_impl is_digit idxc _ digit_idxc (nz_uint_chars d)).
  - rewrite (all_chars_impl is_digit idxc _ digit_idxc (nz_uint_chars d)). reflexivity.
Qed.
Lemma idx_body_chars z : all_chars idxc (idx_body (IInt z)) = true.
Proof.
  unfold idx_body. destruct (0 <? z)%Z; [|destruct (z =? 0)%Z]; rewrite ?all_chars_app, ?string_of_Z_chars; reflexivity.
Qed.

Lemma all_chars_head_not (p q : ascii -> bool) s :
  (forall c, p c = true -> q c = false) -> all_chars p s = true -> head_not q s = true.
Proof.
  intros H. destruct s as [|c s]; cbn [all_chars head_not]; [reflexivity|]. intros E. apply andb_true_iff in E as [E _].
  rewrite (H _ E). reflexivity.
Qed.
Lemma idxc_no (ch : ascii) s : idxc ch = false -> all_chars idxc s = true -> has_char ch s = false.
Proof. apply all_chars_no_char. Qed.
Lemma idxc_not_space c : idxc c = true -> is_space c = false.
Proof.
  intros H. pose proof (idxc_props c H) as P. repeat (apply andb_true_iff in P as [P ?]).
  apply negb_true_iff. assumption.
Qed.

Lemma idx_ok_int z : idx_ok (idx_body (IInt z)) = true.
Proof.
  pose proof (idx_body_chars z) as H. unfold idx_ok.
  rewrite (idxc_no "]" _ eq_refl H). unfold has_nl. rewrite (idxc_no nl _ eq_refl H).
  rewrite (all_chars_head_not idxc is_space _ idxc_not_space H).
  change (rev_str (idx_body (IInt z)) "") with (srev (idx_body (IInt z))).
  rewrite (all_chars_head_not idxc is_space (srev (idx_body (IInt z))) idxc_not_space); [reflexivity|].
  rewrite all_chars_srev. exact H.
Qed.

(* ================================================================== pieces of a rendering *)
Lemma nchars_cons c s : nchars (String c s) = NChr c :: nchars s.
Proof. reflexivity. Qed.
Lemma nflat_nchars s : nflat (nchars s) = s.
Proof. induction s as [|c s IH]; [reflexivity|]. rewrite nchars_cons. cbn [nflat ntok_text append]. rewrite IH. reflexivity. Qed.

Lemma nwf_nchars s : forall pw k, all_chars inert s = true -> nwf_k pw (nchars s) k = true.
Proof.
  induction s as [|c s IH]; intros pw k H; [reflexivity|]. cbn [all_chars] in H. apply andb_true_iff in H as [Hc Hs].
  rewrite nchars_cons. cbn [nwf_k ntok_ok]. rewrite Hc. cbn [orb andb]. apply IH. exact Hs.
Qed.

Lemma nwf_term pw name z k : name_ok name = true -> nwf_k pw [NTerm name (IInt z)] k = true.
Proof.
  unfold name_ok. intros H. apply andb_true_iff in H as [Hi Hk]. cbn [nwf_k ntok_ok]. rewrite Hi, Hk, idx_ok_int. reflexivity.
Qed.
Lemma nwf_func pw name K : fname_ok name = true -> head_is "(" K = true -> nwf_k pw [NFunc name] K = true.
Proof.
  unfold fname_ok. intros H Ho. apply andb_true_iff in H as [Hi Hk]. cbn [nwf_k ntok_ok nflat]. cbn [append]. rewrite Hi, Hk, Ho. reflexivity.
Qed.
Lemma nwf_kw pw kw r : pw = false -> mem_string kw KW = true -> nwf_k pw [NKw kw] (String " " (String "(" r)) = true.
Proof. intros -> Hm. cbn [nwf_k ntok_ok nflat]. cbn [append]. rewrite Hm. reflexivity. Qed.

Lemma nwf_cmp o pw r : nwf_k pw (nchars (" " ++ cmpop_text o ++ " ")) (String "(" r) = true.
Proof. destruct o; vm_compute; reflexivity. Qed.
Lemma nwf_bin o pw k : nwf_k pw (nchars (" " ++ binop_text o ++ " ")) k = true.
Proof. destruct o; apply nwf_nchars; reflexivity. Qed.

Section Wf.
  Variable num : Type.
  Variable vname : nat -> string.
  Variable show : num -> string.
  Variable f1name f2name : nat -> string.
  Hypothesis Hname : forall x, name_ok (vname x) = true.
  Hypothesis Hshow : forall z, numeral_ok (show z) = true.
  Hypothesis Hf1 : forall f, fname_ok (f1name f) = true.
  Hypothesis Hf2 : forall f, fname_ok (f2name f) = true.
  Notation rexpr := (rexpr num vname show f1name f2name).
  Notation rstmt := (rstmt num vname show f1name f2name).

  Lemma rexpr_head (e : expr num) : exists rest, nflat (rexpr e) = String "(" rest.
  Proof. destruct e; cbn [GNorm.rexpr]; rewrite nflat_app, nflat_nchars; cbn [append]; eexists; reflexivity. Qed.

  (* the text that follows a piece, when the next thing is a rendered expression / a blank and a rendered expression *)
  Lemma follow_expr (e : expr num) l k : exists r, nflat (rexpr e ++ l) ++ k = String "(" r.
  Proof. destruct (rexpr_head e) as (r & E). rewrite nflat_app, E. cbn [append]. eexists; reflexivity. Qed.
  Lemma follow_blank_expr (e : expr num) l k : exists r, nflat (nchars " " ++ rexpr e ++ l) ++ k = String " " (String "(" r).
  Proof.
    destruct (follow_expr e l k) as (r & E). rewrite nflat_app, nflat_nchars, sapp_assoc, E. cbn [append]. eexists; reflexivity.
  Qed.

  Ltac split_wf := repeat (rewrite nwf_k_app; apply andb_true_intro; split).
  Ltac chars := apply nwf_nchars; reflexivity.

  Theorem rexpr_nwf (e : expr num) : forall pw k, nwf_k pw (rexpr e) k = true.
  Proof.
    induction e as [x|x z|a IHa|a IHa|o a IHa b IHb|a IHa b IHb|a IHa b IHb|o l IHl r IHr a IHa b IHb|f a IHa|f a IHa b IHb];
      intros pw k; cbn [GNorm.rexpr]; split_wf.
    - chars.
    - apply nwf_nchars. apply Hshow.
    - chars.
    - chars.
    - apply nwf_term, Hname.
    - chars.
    - chars.
    - apply IHa.
    - chars.
    - chars.
    - apply nwf_func; [reflexivity|]. destruct (follow_expr a (nchars ")") k) as (r & ->). reflexivity.
    - apply IHa.
    - chars.
    - chars.
    - apply IHa.
    - apply nwf_bin.
    - apply IHb.
    - chars.
    - chars.
    - apply nwf_func; reflexivity.
    - chars.
    - apply IHa.
    - chars.
    - apply IHb.
    - chars.
    - chars.
    - apply nwf_func; reflexivity.
    - chars.
    - apply IHa.
    - chars.
    - apply IHb.
    - chars.
    - chars.
    - apply IHa.
    - chars.
    - match goal with |- nwf_k _ _ ?K = true => destruct (follow_blank_expr l (nchars (" " ++ cmpop_text o ++ " ") ++ rexpr r ++ nchars " " ++ [NKw "else"] ++ nchars " " ++ rexpr b ++ nchars ")") k) as (r0 & E) end.
      rewrite E. apply nwf_kw; reflexivity.
    - chars.
    - apply IHl.
    - destruct (follow_expr r (nchars " " ++ [NKw "else"] ++ nchars " " ++ rexpr b ++ nchars ")") k) as (r0 & ->). apply nwf_cmp.
    - apply IHr.
    - chars.
    - destruct (follow_blank_expr b (nchars ")") k) as (r0 & ->). apply nwf_kw; reflexivity.
    - chars.
    - apply IHb.
    - chars.
    - chars.
    - apply nwf_func; [apply Hf1|]. destruct (follow_expr a (nchars ")") k) as (r & ->). reflexivity.
    - apply IHa.
    - chars.
    - chars.
    - apply nwf_func; [apply Hf2|reflexivity].
    - chars.
    - apply IHa.
    - chars.
    - apply IHb.
    - chars.
  Qed.

  Lemma ident_no_eq name : is_ident name = true -> has_char "=" name = false.
  Proof.
    intros H. destruct (ident_nonempty _ H) as (c & r & _ & _ & Hall).
    apply (all_chars_no_char is_idc "=" name eq_refl Hall).
  Qed.

  Theorem rstmt_wf (s : stmt num) : neq_wf (rstmt s) = true.
  Proof.
    destruct s as [y k e]. unfold neq_wf. cbn [GNorm.rstmt nlhs nrhs].
    pose proof (Hname y) as Hy. unfold name_ok in Hy. apply andb_true_iff in Hy as [Hi Hk].
    apply andb_true_intro. split; [apply andb_true_intro; split|].
    - unfold nwf. change (NTerm (vname y) (IInt k) :: nchars " ") with ([NTerm (vname y) (IInt k)] ++ nchars " ")%list.
      rewrite nwf_k_app. apply andb_true_intro. split; [apply nwf_term, Hname|apply nwf_nchars; reflexivity].
    - unfold nwf. rewrite nwf_k_app. apply andb_true_intro. split; [apply nwf_nchars; reflexivity|apply rexpr_nwf].
    - cbn [nflat ntok_text]. rewrite nflat_nchars. unfold term_text. rewrite !has_char_app.
      rewrite (ident_no_eq _ Hi), (idxc_no "=" _ eq_refl (idx_body_chars k)). reflexivity.
  Qed.

  Theorem rstmts_wf (prog : list (stmt num)) : forallb neq_wf (map rstmt prog) = true.
  Proof. induction prog as [|s prog IH]; [reflexivity|]. cbn [map forallb]. rewrite rstmt_wf, IH. reflexivity. Qed.
End Wf.

(* ================================================================== NAME[t+k] determines NAME and k *)
Lemma string_of_Z_inj z z' : string_of_Z z = string_of_Z z' -> z = z'.
Proof.
  unfold string_of_Z. intros H. apply (f_equal NilZero.int_of_string) in H.
  assert (N : forall w, Z.to_int w <> Pos Nil /\ Z.to_int w <> Neg Nil).
  { intros w. destruct w; cbn [Z.to_int]; split; try discriminate; intros E; inversion E as [E']; exact (Unsigned.to_uint_nonnil _ E'). }
  rewrite !NilZero.isi in H by apply N. inversion H as [E]. apply to_int_inj. exact E.
Qed.

Lemma sapp_inj_l a b c : a ++ b = a ++ c -> b = c.
Proof. induction a as [|x a IH]; cbn [append]; [auto|]. intros H. inversion H. auto. Qed.

Lemma neg_string z : (z < 0)%Z -> exists r, string_of_Z z = String "-" r.
Proof. destruct z; try lia. intros _. unfold string_of_Z. cbn [Z.to_int NilZero.string_of_int]. eexists; reflexivity. Qed.

Lemma idx_body_inj z z' : idx_body (IInt z) = idx_body (IInt z') -> z = z'.
Proof.
  unfold idx_body.
  destruct (0 <? z)%Z eqn:P; destruct (0 <? z')%Z eqn:P'; [| destruct (z' =? 0)%Z eqn:Q' | destruct (z =? 0)%Z eqn:Q | ].
  - intros H. apply (sapp_inj_l "t+") in H. apply string_of_Z_inj. exact H.
  - discriminate.
  - intros H. apply (sapp_inj_l "t") in H. destruct (neg_string z') as (r & E); [lia|]. rewrite E in H. discriminate.
  - discriminate.
  - intros H. apply (sapp_inj_l "t") in H. destruct (neg_string z) as (r & E); [lia|]. rewrite E in H. discriminate.
  - destruct (z =? 0)%Z eqn:Q; destruct (z' =? 0)%Z eqn:Q'.
    + lia.
    + intros H. apply (sapp_inj_l "t" "") in H. destruct (neg_string z') as (r & E); [lia|]. rewrite E in H. discriminate.
    + intros H. apply (sapp_inj_l "t" _ "") in H. destruct (neg_string z) as (r & E); [lia|]. rewrite E in H. discriminate.
    + intros H. apply (sapp_inj_l "t") in H. apply string_of_Z_inj. exact H.
Qed.

(* a ++ ch ++ b with no ch in a: the split is unique *)
Lemma split_unique ch a : forall a' b b',
  has_char ch a = false -> has_char ch a' = false -> a ++ String ch b = a' ++ String ch b' -> a = a' /\ b = b'.
Proof.
  induction a as [|x a IH]; intros a' b b' H H' E.
  - destruct a' as [|y a']; cbn [append] in E.
    + injection E as Eb. auto.
    + injection E as Ec Et. subst y. cbn [has_char] in H'. rewrite Ascii.eqb_refl in H'. discriminate.
  - destruct a' as [|y a']; cbn [append] in E.
    + injection E as Ec Et. subst x. cbn [has_char] in H. rewrite Ascii.eqb_refl in H. discriminate.
    + injection E as Ec Et. subst y. cbn [has_char] in H, H'. apply orb_false_iff in H as [_ H]. apply orb_false_iff in H' as [_ H'].
      destruct (IH a' b b' H H' Et) as [-> ->]. auto.
Qed.

Theorem term_text_inj name z name' z' :
  is_ident name = true -> is_ident name' = true ->
  term_text name (IInt z) = term_text name' (IInt z') -> name = name' /\ z = z'.
Proof.
  intros Hi Hi' E. unfold term_text in E. cbn [append] in E.
  assert (N : forall n, is_ident n = true -> has_char "[" n = false).
  { intros n H. destruct (ident_nonempty _ H) as (c & r & _ & _ & Hall). apply (all_chars_no_char is_idc "[" n eq_refl Hall). }
  destruct (split_unique "[" name name' _ _ (N _ Hi) (N _ Hi') E) as [-> E2]. split; [reflexivity|].
  destruct (split_unique "]" (idx_body (IInt z)) (idx_body (IInt z')) "" ""
              (idxc_no "]" _ eq_refl (idx_body_chars z)) (idxc_no "]" _ eq_refl (idx_body_chars z')) E2) as [E3 _].
  apply idx_body_inj. exact E3.
Qed.

(* ================================================================== the edges of a program, term by term *)
Section Exact.
  Variable num : Type.
  Variable vname : nat -> string.
  Variable show : num -> string.
  Variable f1name f2name : nat -> string.
  Hypothesis Hname : forall x, name_ok (vname x) = true.
  Hypothesis Hinj : forall x x', vname x = vname x' -> x = x'.
  Hypothesis Hshow : forall z, numeral_ok (show z) = true.
  Hypothesis Hf1 : forall f, fname_ok (f1name f) = true.
  Hypothesis Hf2 : forall f, fname_ok (f2name f) = true.

  Lemma vname_ident x : is_ident (vname x) = true.
  Proof. pose proof (Hname x) as H. unfold name_ok in H. apply andb_true_iff in H as [H _]. exact H. Qed.

  Lemma tt_inj x k x' k' : tt vname x k = tt vname x' k' -> x = x' /\ k = k'.
  Proof.
    unfold tt. intros E. destruct (term_text_inj _ _ _ _ (vname_ident x) (vname_ident x') E) as [En Ek].
    split; [apply Hinj; exact En|exact Ek].
  Qed.

  (* there is an edge from the term (x, k) to the term (y, ky) iff a statement that assigns (y, ky) reads (x, k) *)
  Theorem program_edges_terms (prog : list (stmt num)) x k y ky :
    is_edge (prog_graph num vname show f1name f2name prog) (tt vname x k) (tt vname y ky) = true
    <-> exists e, In (SAssign y ky e) prog /\ In (x, k) (expr_reads num e).
  Proof.
    pose proof (rstmts_wf num vname show f1name f2name Hname Hshow Hf1 Hf2 prog) as Hw. split.
    - intros He.
      destruct (proj1 (program_edges num vname show f1name f2name prog _ _ Hw) (conj He (varlike_term _ (IInt k) (vname_ident x))))
        as (y' & ky' & e & x0 & k0 & Hs & Hr & En & Ex).
      apply tt_inj in En as [-> ->]. apply tt_inj in Ex as [-> ->]. exists e. auto.
    - intros (e & Hs & Hr). apply (read_has_edge num vname show f1name f2name prog y ky e x k Hw Hs Hr).
  Qed.
End Exact.
