(* GraphSeriesFacts.v — finding #19 repaired (fix b45daa1), stated positively for the graph:
   every variable-like term the graph names as a dependency is a SERIES of the model, i.e. the symbol list holds a symbol of
   that name whose type is ENDOGENOUS / EXOGENOUS / PARAMETER / ERROR (these are the model's NAMES).
     equation_symbols_series     per equation, for EVERY term list: when the symbol loop of parse_equation returns, every
                                 variable / parameter / error term has a symbol of its name with a series type (before the
                                 fix a later FUNCTION term of the same name replaced it)
     merge_series                the cross-equation merge keeps that (combine never turns a series into something else)
     source_script_terms_series  scripts of source statements (dq_ok_ws + sep_ok): every term of every statement
     graph_terms_are_series      … hence every variable-like in-edge of the graph of an accepted script *)
From Coq Require Import String Ascii List Bool Arith ZArith.
Import ListNotations.
Require Import Generated PyBase PyStr Lex Symbols SymbolsFacts Split Merge MergeFacts ParseEq ParseModel ParseContribFacts.
Require Import GLex GNorm GNormFacts Graph GraphFacts GraphTheorems Layout LayoutSplit MergeComm MergePerm Denorm DenormFacts.
Require Import GraphParseFacts GraphScriptFacts GraphSrcWf GraphSrcGraph GraphTokWf GraphSrcGraphWs.
Open Scope string_scope.

Definition is_series (ty : ptype) : bool :=
  match ty with TEndogenous | TExogenous | TParameter | TError => true | _ => false end.

Lemma combine_series a b c : combine a b = Ret c ->
  is_series (stype a) = true \/ is_series (stype b) = true -> is_series (stype c) = true.
Proof.
  intros H Hs. destruct (combine_ret _ _ _ H) as (_ & Ht & _).
  destruct Ht as [[E1 E2]|(_ & Va & Vb & E)].
  - rewrite E2. destruct Hs as [Hs|Hs]; [exact Hs|rewrite E1; exact Hs].
  - rewrite E. destruct (stype a), (stype b); try discriminate; destruct Hs as [Hs|Hs]; try discriminate; vm_compute; reflexivity.
Qed.

(* the symbol table: keys are the names of their symbols; a name is "a series of d" *)
Definition kinv (d : list (string * symbol)) : Prop := forall k v, dict_get k d = Some v -> sname v = Some k.
Definition dser (d : list (string * symbol)) (n : string) : Prop := exists v, dict_get n d = Some v /\ is_series (stype v) = true.
Lemma kinv_nil : kinv [].
Proof. intros k v H. discriminate H. Qed.

Lemma dict_combine_series name sym d d' :
  kinv d -> sname sym = Some name -> dict_combine name sym d = Ret d' ->
  kinv d' /\ (forall n, dser d n -> dser d' n) /\ (is_series (stype sym) = true -> dser d' name).
Proof.
  intros K Hn. unfold dict_combine.
  destruct (combine (match dict_get name d with Some old => old | None => sym end) sym) as [c|] eqn:Ec; [|discriminate].
  intros H; inversion H; subst d'. clear H.
  assert (Hc : sname c = Some name).
  { destruct (combine_ret _ _ _ Ec) as (Hc & _). rewrite Hc. destruct (dict_get name d) as [old|] eqn:Eg; [apply (K _ _ Eg)|exact Hn]. }
  split; [|split].
  - intros k v Hg. destruct (String.eqb_spec k name) as [->|N].
    + rewrite dict_get_set_same in Hg. inversion Hg; subst. exact Hc.
    + rewrite (dict_get_set_other _ _ _ _ N) in Hg. apply (K _ _ Hg).
  - intros n (v & Hg & Hs). destruct (String.eqb_spec n name) as [->|N].
    + exists c. split; [apply dict_get_set_same|]. rewrite Hg in Ec. apply (combine_series _ _ _ Ec). left. exact Hs.
    + exists v. split; [rewrite (dict_get_set_other _ _ _ _ N); exact Hg|exact Hs].
  - intros Hs. exists c. split; [apply dict_get_set_same|]. apply (combine_series _ _ _ Ec). right. exact Hs.
Qed.

(* ================================================================== one equation *)
Lemma go_series eqn code terms : forall d fs d',
  kinv d -> equation_symbols_go eqn code terms d fs = Ret d' ->
  kinv d' /\ (forall n, dser d n -> dser d' n) /\ (forall t, In t terms -> is_series (ttype t) = true -> dser d' (tname t)).
Proof.
  induction terms as [|t rest IH]; intros d fs d' K; cbn [equation_symbols_go].
  - intros H; inversion H; subst. split; [exact K|split; [auto|intros t []]].
  - assert (COMB : forall sym, sname sym = Some (tname t) ->
              match dict_combine (tname t) sym d with Ret dd => equation_symbols_go eqn code rest dd fs | Raise e => Raise e end = Ret d' ->
              kinv d' /\ (forall n, dser d n -> dser d' n) /\ (is_series (stype sym) = true -> dser d' (tname t)) /\
              (forall u, In u rest -> is_series (ttype u) = true -> dser d' (tname u))).
    { intros sym Hn. destruct (dict_combine (tname t) sym d) as [dd|] eqn:Ed; [|discriminate]. intros H.
      destruct (dict_combine_series _ _ _ _ K Hn Ed) as (K1 & P1 & N1). destruct (IH dd fs d' K1 H) as (K2 & P2 & N2).
      split; [exact K2|split; [|split]].
      - intros n Hd. apply P2, P1, Hd.
      - intros Hs. apply P2, N1, Hs.
      - exact N2. }
    destruct (ttype t) eqn:Ety.
    all: try (intros H; match type of H with match dict_combine _ ?sym _ with _ => _ end = _ =>
                          destruct (COMB sym eq_refl H) as (K2 & P2 & N1 & N2) end; split; [exact K2|split; [exact P2|]];
              intros u [<-|Hu] Hs; [apply N1; rewrite Ety in Hs; exact Hs|apply N2; assumption]).
    intros H. destruct (IH d fs d' K H) as (K2 & P2 & N2). split; [exact K2|split; [exact P2|]].
    intros u [<-|Hu] Hs; [rewrite Ety in Hs; discriminate|apply N2; assumption].
Qed.

Theorem equation_symbols_series eqn code terms syms :
  equation_symbols eqn code terms = Ret syms ->
  forall t, In t terms -> is_series (ttype t) = true ->
  exists s, In s syms /\ sname s = Some (tname t) /\ is_series (stype s) = true.
Proof.
  unfold equation_symbols. destruct (equation_symbols_go eqn code terms [] []) as [d|] eqn:E; [|discriminate]. intros H; inversion H; subst.
  destruct (go_series eqn code terms [] [] d kinv_nil E) as (K & _ & N).
  intros t Ht Hs. destruct (N t Ht Hs) as (v & Hg & Hv). exists v. split; [apply (dict_get_in _ _ _ Hg)|split; [apply (K _ _ Hg)|exact Hv]].
Qed.

(* ================================================================== the cross-equation merge *)
Lemma merge_go_series l : forall d vb out, kinv d -> merge_go l d vb = Ret out ->
  forall n, (dser d n \/ exists s, In s l /\ sname s = Some n /\ is_series (stype s) = true) ->
  exists s', In s' out /\ sname s' = Some n /\ is_series (stype s') = true.
Proof.
  induction l as [|s l IH]; intros d vb out K Hgo n Hn; cbn [merge_go] in Hgo.
  - inversion Hgo; subst out. destruct Hn as [(v & Hg & Hv)|(s & [] & _)].
    exists v. split; [apply in_or_app; left; apply (dict_get_in _ _ _ Hg)|split; [apply (K _ _ Hg)|exact Hv]].
  - destruct (sname s) as [name|] eqn:En.
    + destruct (dict_combine name s d) as [dd|] eqn:Ed; [|discriminate].
      destruct (dict_combine_series _ _ _ _ K En Ed) as (K1 & P1 & N1).
      apply (IH dd vb out K1 Hgo n). destruct Hn as [Hd|(x & [<-|Hin] & Hx & Hs)].
      * left. apply P1, Hd.
      * left. rewrite En in Hx. inversion Hx; subst. apply N1, Hs.
      * right. exists x. auto.
    + apply (IH d (s :: vb) out K Hgo n). destruct Hn as [Hd|(x & [<-|Hin] & Hx & Hs)]; [left; exact Hd|congruence|right; exists x; auto].
Qed.

Theorem merge_series by_eq out : merge_symbols by_eq = Ret out ->
  forall s n, In s (concat by_eq) -> sname s = Some n -> is_series (stype s) = true ->
  exists s', In s' out /\ sname s' = Some n /\ is_series (stype s') = true.
Proof.
  unfold merge_symbols. intros H s n Hin Hn Hs. apply (merge_go_series _ [] [] out kinv_nil H n). right. exists s. auto.
Qed.

(* ================================================================== source statements *)
Lemma style_type_series side s : side = TEndogenous \/ side = TExogenous -> is_series (style_type side s) = true.
Proof. intros [-> | ->]; destruct s; reflexivity. Qed.

Lemma nterms_lay_terms lay side l name i : side = TEndogenous \/ side = TExogenous -> In (name, i) (nterms l) ->
  exists t, In t (lay_terms lay side l) /\ tname t = name /\ is_series (ttype t) = true.
Proof.
  intros Hside. induction l as [|x l IH]; [intros []|].
  destruct x as [nm j|nm|k|body|c]; cbn [nterms lay_terms lay_term tok_term].
  - intros [E|Hin].
    + inversion E; subst. eexists. split; [left; reflexivity|]. cbn [tname ttype]. split; [reflexivity|apply style_type_series, Hside].
    + destruct (IH Hin) as (t & Ht & R). exists t. split; [right; exact Ht|exact R].
  - intros Hin. destruct (IH Hin) as (t & Ht & R). exists t. split; [right; exact Ht|exact R].
  - intros Hin. destruct (IH Hin) as (t & Ht & R). exists t. split; [right; exact Ht|exact R].
  - intros Hin. destruct (IH Hin) as (t & Ht & R). exists t. split; [right; exact Ht|exact R].
  - intros Hin. apply (IH Hin).
Qed.

Lemma Forall2_in_left {A B} (R : A -> B -> Prop) la : forall lb a, Forall2 R la lb -> In a la -> exists b, In b lb /\ R a b.
Proof.
  induction la as [|x la IH]; intros lb a H Hin; [destruct Hin|]. inversion H as [|? y ? lb' Hxy Hr]; subst.
  destruct Hin as [<-|Hin]; [exists y; split; [left; reflexivity|exact Hxy]|].
  destruct (IH lb' a Hr Hin) as (b & Hb & Rb). exists b. split; [right; exact Hb|exact Rb].
Qed.

Theorem source_script_terms_series lay qs s syms :
  Forall (stmt_src_ws lay) qs ->
  split_M s = (map (denorm_text lay) qs, None) ->
  parse_model_nocheck s = POk syms ->
  forall q name i, In q qs -> In (name, i) (nterms (nlhs q) ++ nterms (nrhs q)) ->
  exists sy, In sy syms /\ sname sy = Some name /\ is_series (stype sy) = true.
Proof.
  intros Hq Hs Hp q name i Hin Hterm. rewrite parse_model_by_statements, Hs in Hp. cbn [fst snd] in Hp.
  destruct (map_p parse_equation_M (map (denorm_text lay) qs)) as [by_eq| |] eqn:Em; cbn [pbind finish_parse] in Hp; try discriminate.
  destruct (merge_symbols by_eq) as [out|] eqn:Eg; cbn [of_outcome] in Hp; [|discriminate]. inversion Hp; subst out.
  destruct (Forall2_in_left _ _ _ (denorm_text lay q) (map_p_ok _ _ _ Em) (in_map _ _ _ Hin)) as (b & Hb & Pb).
  rewrite Forall_forall in Hq. destruct (Hq q Hin) as (y & ky & ws & r & Eq & Hok & _).
  rewrite (parse_denorm_general lay q) in Pb by (rewrite Eq in *; exact Hok).
  destruct (equation_symbols (nflat (nrm (whole_toks q))) (cflat (nrm (whole_toks q))) (lneq_terms lay q)) as [l|] eqn:E; [|discriminate].
  cbn [of_outcome] in Pb. inversion Pb; subst l.
  assert (T : exists t, In t (lneq_terms lay q) /\ tname t = name /\ is_series (ttype t) = true).
  { unfold lneq_terms. apply in_app_or in Hterm as [H|H].
    - destruct (nterms_lay_terms lay TEndogenous _ name i (or_introl eq_refl) H) as (t & Ht & R). exists t. split; [apply in_or_app; left; exact Ht|exact R].
    - destruct (nterms_lay_terms lay TExogenous _ name i (or_intror eq_refl) H) as (t & Ht & R). exists t. split; [apply in_or_app; right; exact Ht|exact R]. }
  destruct T as (t & Ht & <- & Hser).
  destruct (equation_symbols_series _ _ _ _ E t Ht Hser) as (s0 & Hs0 & Hn0 & Hser0).
  apply (merge_series by_eq syms Eg s0 (tname t)); [|exact Hn0|exact Hser0].
  apply in_concat. exists b. split; assumption.
Qed.

(* ================================================================== the graph *)
Lemma nterms_term_toks l : nterms l = nterms (term_toks l).
Proof. induction l as [|x l IH]; [reflexivity|]. destruct x; cbn [nterms term_toks]; rewrite ?IH; reflexivity. Qed.
Lemma nterms_nrm l : nterms (nrm l) = nterms l.
Proof. rewrite (nterms_term_toks (nrm l)), nrm_terms, <- nterms_term_toks. reflexivity. Qed.

Theorem graph_terms_are_series lay qs s syms :
  Forall (stmt_src_ws lay) qs ->
  split_M s = (map (denorm_text lay) qs, None) ->
  parse_model_nocheck s = POk syms ->
  exists g, symbols_to_graph_M syms = Ret g /\
    forall x n, is_edge g x n = true -> varlike_id x = true ->
    exists name i sy, x = term_text name i /\ In sy syms /\ sname sy = Some name /\ is_series (stype sy) = true.
Proof.
  intros Hq Hs Hp. destruct (source_script_graph_ws lay qs s syms Hq Hs Hp) as (g & Hg & He). exists g. split; [exact Hg|].
  intros x n Hedge Hv. apply He in Hedge as (q & Hin & _ & Hx).
  pose proof Hq as Hq0. rewrite Forall_forall in Hq0. destruct (Hq0 q Hin) as (y & ky & ws & r & Eq & Hok & Hsep).
  assert (W : neq_wf (nrm_q q) = true) by (subst q; apply (dq_ok_ws_neq_wf lay _ Hok Hsep)).
  unfold neq_wf in W. apply andb_true_iff in W as [W _]. apply andb_true_iff in W as [_ Wr]. unfold nwf, nrm_q in Wr. cbn [nrhs] in Wr.
  rewrite <- (nids_nrm (nrhs q)) in Hx.
  destruct (proj1 (varlike_ids _ _ _ Wr x) (conj Hx Hv)) as (name & i & Hterm & E). rewrite nterms_nrm in Hterm.
  destruct (source_script_terms_series lay qs s syms Hq Hs Hp q name i Hin (in_or_app _ _ _ (or_intror Hterm))) as (sy & H1 & H2 & H3).
  exists name, i, sy. auto.
Qed.
