(* GraphCanonWf.v — the NORMAL FORM of an accepted source statement, written back in the statement syntax (canonical layout:
   NAME[0], NAME[+k], NAME[-k], NAME['period']), lexes token by token again:
     twf_dwf_canon    token-level well-formedness (GraphTokWf.twf) + the index side conditions  ->  Denorm.dwf_k canon
   Together with GraphTokWf (source -> twf, the normaliser keeps twf) this is the lexical part of "dq_ok canon holds for the
   normal form of every accepted source" (GraphCanonText). *)
From Coq Require Import String Ascii List Bool Arith Lia ZArith.
Import ListNotations.
Require Import Generated PyBase PyStr Lex Symbols Merge ParseEq GLex GLexFacts GNorm GNormFacts GraphEvalWf Denorm DenormInt DenormLex DenormFacts GraphSrcWf GraphTokWf.
Open Scope string_scope.

Lemma dtext_canon_term name i : Denorm.dtext canon (NTerm name i) = name ++ String "[" (ibody true i ++ "]").
Proof. reflexivity. Qed.

Lemma last_word_canon pw x : last_word pw (Denorm.dtext canon x) = last_word pw (ntok_text x).
Proof.
  destruct x as [name i|name|k|body|c]; try reflexivity.
  rewrite dtext_canon_term. cbn [ntok_text]. rewrite last_word_term, last_word_app. cbn [last_word]. rewrite last_word_app. reflexivity.
Qed.

(* ---- what follows a token, read off the canonical text ---- *)
Lemma fo_head_c r : follows_open r = true -> head_is "(" (Denorm.dflat canon r) = true.
Proof. destruct r as [|[name i|name|k|body|c] r]; try discriminate. cbn [follows_open Denorm.dflat Denorm.dtext ntok_text append head_is]. intros H; exact H. Qed.
Lemma fnw_head_c r : follows_nonword r = true -> head_not is_word (Denorm.dflat canon r) = true.
Proof.
  destruct r as [|[name i|name|k|body|c] r]; cbn [follows_nonword]; intros H; try discriminate; try reflexivity.
  cbn [Denorm.dflat Denorm.dtext ntok_text append head_not]. exact H.
Qed.

Lemma canon_blank_prefix r : exists ws, blanks ws = true /\ Denorm.dflat canon r = ws ++ Denorm.dflat canon (skip_blank_toks r).
Proof.
  induction r as [|x r' IH]; [exists ""; split; reflexivity|]. cbn [skip_blank_toks]. destruct (is_blank_tok x) eqn:E.
  - destruct x as [| | | |c]; try discriminate. cbn [is_blank_tok] in E. destruct IH as (ws & B & Eq). exists (String c ws). split.
    + unfold blanks in *. cbn [all_chars]. rewrite E, B. reflexivity.
    + cbn [Denorm.dflat Denorm.dtext ntok_text append]. rewrite Eq. reflexivity.
  - exists "". split; reflexivity.
Qed.

Lemma nbb_head_c r : (forall x, In x r -> good x) -> nb_not_bracket r = true -> negb (head_is "[" (skip_ws (Denorm.dflat canon r))) = true.
Proof.
  intros Hid H. destruct (canon_blank_prefix r) as (ws & B & ->).
  unfold nb_not_bracket, nbh in H. destruct (skip_blank_toks r) as [|y r'] eqn:Er.
  - cbn [Denorm.dflat]. rewrite sapp_nil_r. unfold skip_ws. rewrite <- (sapp_nil_r ws), (span_while_all is_space ws "" B eq_refl). reflexivity.
  - pose proof (skip_blank_head r y r' Er) as Hnb.
    assert (Gy : good y) by (apply Hid, skip_blank_In; rewrite Er; left; reflexivity).
    assert (HEAD : forall c rest, is_space c = false -> Ascii.eqb c "[" = false -> negb (head_is "[" (skip_ws (ws ++ String c rest))) = true).
    { intros c rest S O. unfold skip_ws. rewrite (span_while_all is_space ws (String c rest) B) by (cbn [head_not]; rewrite S; reflexivity).
      cbn [snd head_is]. rewrite O. reflexivity. }
    assert (ALPHA : forall c, is_alpha_ c = true -> is_space c = false /\ Ascii.eqb c "[" = false).
    { intros c Hc. pose proof (fnc_not_space c (idc_fnc _ (alpha_idc _ Hc))) as S. apply negb_true_iff in S.
      pose proof (fnc_not_open c (idc_fnc _ (alpha_idc _ Hc))) as O. apply andb_true_iff in O as [O _]. apply negb_true_iff in O. auto. }
    destruct y as [name i|name|kw|body|c]; cbn [Denorm.dflat good] in *.
    + rewrite dtext_canon_term. destruct (ident_nonempty _ Gy) as (c & r0 & -> & Hc & _). cbn [append]. destruct (ALPHA c Hc). apply HEAD; assumption.
    + cbn [Denorm.dtext ntok_text]. destruct (fname_nonempty _ Gy) as (c & r0 & -> & Hc & _). cbn [append]. destruct (ALPHA c Hc). apply HEAD; assumption.
    + cbn [Denorm.dtext ntok_text]. destruct (KW_idc kw Gy) as [Ha _]. destruct kw as [|c r0]; [discriminate|]. cbn [head_sat] in Ha. cbn [append].
      destruct (ALPHA c Ha). apply HEAD; assumption.
    + cbn [Denorm.dtext ntok_text append]. apply HEAD; reflexivity.
    + cbn [Denorm.dtext ntok_text append]. cbn [is_blank_tok] in Hnb. apply HEAD; [exact Hnb|]. apply negb_true_iff. exact H.
Qed.

Lemma lt_ok_canon r : (forall x, In x r -> good x) ->
  match skip_blank_toks r with y :: _ => is_kw_tok y = false | [] => True end ->
  match skip_blank_toks r with NFunc _ :: r' => follows_open r' = true | _ => True end ->
  lt_ok (Denorm.dflat canon r) = true.
Proof.
  intros Hid Hnk Hfn. destruct (canon_blank_prefix r) as (ws & B & ->).
  destruct (skip_blank_toks r) as [|y r'] eqn:Er.
  - cbn [Denorm.dflat]. apply (lt_ok_nonalpha ws "" B eq_refl eq_refl).
  - pose proof (skip_blank_head r y r' Er) as Hnb.
    assert (Hy : good y) by (apply Hid, skip_blank_In; rewrite Er; left; reflexivity).
    destruct y as [name i|name|kw|body|c]; cbn [Denorm.dflat good] in *.
    + rewrite dtext_canon_term. destruct (ident_nonempty _ Hy) as (c & r0 & En & Hc & Hall). rewrite !sapp_assoc. cbn [append].
      apply lt_ok_name; [exact B|rewrite En; discriminate|exact Hall|reflexivity|reflexivity].
    + cbn [Denorm.dtext ntok_text]. apply (lt_ok_fname ws name _ B Hy). apply fo_head_c, Hfn.
    + discriminate.
    + cbn [Denorm.dtext ntok_text append]. apply (lt_ok_nonalpha ws _ B); reflexivity.
    + cbn [Denorm.dtext ntok_text append]. cbn [is_blank_tok] in Hnb. destruct Hy as [Hy| ->].
      * apply (lt_ok_nonalpha ws _ B); cbn [head_not]; [rewrite Hnb; reflexivity|].
        unfold inert in Hy. apply andb_true_iff in Hy as [Hy _]. apply andb_true_iff in Hy as [Hy _]. apply andb_true_iff in Hy as [Hy _]. exact Hy.
      * apply (lt_ok_nonalpha ws _ B); reflexivity.
Qed.

(* ---- the index side conditions of Denorm.dtok_ok: independent of the layout, kept by the normaliser ---- *)
Definition idx_side (x : ntok) : bool :=
  match x with
  | NTerm _ (IInt k) => short_int k
  | NTerm _ (IStr s) => quoted_by "'" s || quoted_by """" s
  | _ => true
  end.
Lemma dwf_idx_side lay l : forall pw k, dwf_k lay pw l k = true -> forallb idx_side l = true.
Proof.
  induction l as [|x l IH]; intros pw k H; [reflexivity|]. cbn [Denorm.dwf_k] in H. apply andb_true_iff in H as [Hx Hl].
  cbn [forallb]. rewrite (IH _ _ Hl), andb_true_r. destruct x as [name i| | | |]; try reflexivity.
  cbn [Denorm.dtok_ok] in Hx. apply andb_true_iff in Hx as [_ Hx]. destruct i; exact Hx.
Qed.
Lemma idx_side_term_toks l : forallb idx_side l = forallb idx_side (term_toks l).
Proof. induction l as [|x l IH]; [reflexivity|]. destruct x; cbn [term_toks forallb idx_side]; rewrite IH; reflexivity. Qed.
Lemma idx_side_nrm l : forallb idx_side (nrm l) = forallb idx_side l.
Proof. rewrite (idx_side_term_toks (nrm l)), nrm_terms, <- idx_side_term_toks. reflexivity. Qed.

(* ================================================================== twf -> the canonical text lexes token by token *)
Theorem twf_dwf_canon l : forall pw, twf pw l = true -> forallb idx_side l = true -> dwf_k canon pw l "" = true.
Proof.
  induction l as [|x r IH]; intros pw H Hs; [reflexivity|].
  cbn [twf] in H. apply andb_true_iff in H as [Hx Hr]. cbn [forallb] in Hs. apply andb_true_iff in Hs as [Hsx Hsr].
  pose proof (twf_good r _ Hr) as Gr.
  cbn [Denorm.dwf_k]. rewrite sapp_nil_r, last_word_canon. apply andb_true_intro. split; [|apply IH; assumption].
  destruct x as [name i|name|kw|body|c]; cbn [tok_cond ntok_ok Denorm.dtok_ok] in *.
  - cbn [canon lstyle lindex style_ok index_ok all_chars]. rewrite !andb_true_r.
    apply andb_true_iff in Hx as [Hx Hix]. rewrite Hx. cbn [andb].
    destruct i as [z|s0]; cbn [idx_side] in Hsx.
    + rewrite idx_ok_ibody. cbn [andb]. exact Hsx.
    + cbn [ibody idx_body] in *. rewrite Hix. cbn [andb]. exact Hsx.
  - apply andb_true_iff in Hx as [Hx Ho]. rewrite Hx, (fo_head_c r Ho). reflexivity.
  - apply andb_true_iff in Hx as [Hx Hb]. apply andb_true_iff in Hx as [Hx Hw]. rewrite Hx, (fnw_head_c r Hw), (nbb_head_c r Gr Hb). reflexivity.
  - exact Hx.
  - apply orb_true_iff in Hx as [Hx|Hx]; [rewrite Hx; reflexivity|]. apply andb_true_iff in Hx as [Hc Hk]. rewrite Hc. cbn [andb].
    apply orb_true_iff. right. apply (lt_ok_canon r Gr).
    + unfold nb_not_kw, nbh in Hk. destruct (skip_blank_toks r) as [|y r']; [exact I|]. apply negb_true_iff. exact Hk.
    + destruct (twf_skip_blanks r _ Hr) as (pw2 & Hsk). destruct (skip_blank_toks r) as [|[| name | | |] r'] eqn:Er; try exact I.
      cbn [twf tok_cond] in Hsk. apply andb_true_iff in Hsk as [Hf _]. apply andb_true_iff in Hf as [_ Ho]. exact Ho.
Qed.

(* a source right-hand side under the conditions of GraphTokWf: its normal form lexes in the canonical spelling *)
Theorem src_canon_wf lay l : sep_ok lay l = true -> dwf_k lay false l "" = true -> dwf_k canon false (nrm l) "" = true.
Proof.
  intros Hs Hd. apply twf_dwf_canon.
  - apply nrm_twf. apply (src_twf lay l false false (fun E => E) Hs Hd).
  - rewrite idx_side_nrm. apply (dwf_idx_side lay l _ _ Hd).
Qed.
