(* GNormFacts.v — re-lexing a normalised equation gives back exactly its terms:
     finditer_nflat     nwf l = true  ->  finditer_group0 (nflat l) = nids l
     matches_nflat      … and the match records are those of the tokens (kind, name, INDEX text)
     neq_split          the first "=" of a well-formed normalised equation separates its two sides
   for ALL token lists (no bound on length, names, offsets). *)
From Coq Require Import String Ascii List Bool Arith Lia ZArith.
Import ListNotations.
Require Import Generated PyBase PyStr Lex Symbols Merge ParseEq GLex GLexFacts GNorm Graph.
Open Scope string_scope.
Open Scope nat_scope.

(* ---- the piece list of a token list ---- *)
Definition ntok_match (x : ntok) : tmatch :=
  match x with
  | NTerm name i => mkMatch KVariable name (Some (idx_body i)) (String.length (term_text name i))
  | NFunc name => mkMatch KFunction name None (String.length name)
  | NKw k => mkMatch KKeyword k None (String.length k)
  | NVerb body => mkMatch KVerbatim (String "`" (body ++ "`")) None (2 + String.length body)
  | NChr _ => mkMatch KVariable "" None 0
  end.
Definition piece_of (x : ntok) : piece :=
  match x with NChr c => PChr c | _ => PTok (ntok_text x) (ntok_match x) end.
Definition pieces_of (l : list ntok) : list piece := map piece_of l.

Lemma flat_pieces l : flat (pieces_of l) = nflat l.
Proof. induction l as [|x l IH]; [reflexivity|]. unfold pieces_of in *. destruct x; cbn [map piece_of flat nflat ntok_text]; rewrite IH; reflexivity. Qed.
Lemma texts_pieces l : piece_texts (pieces_of l) = nids l.
Proof. induction l as [|x l IH]; [reflexivity|]. unfold pieces_of in *. destruct x; cbn [map piece_of piece_texts nids ntok_text]; rewrite IH; reflexivity. Qed.

Lemma nflat_app a b : nflat (a ++ b) = nflat a ++ nflat b.
Proof. induction a as [|x a IH]; [reflexivity|]. cbn [nflat app]. rewrite IH, sapp_assoc. reflexivity. Qed.
Lemma nids_app a b : nids (a ++ b) = (nids a ++ nids b)%list.
Proof. induction a as [|x a IH]; [reflexivity|]. destruct x; cbn [nids app]; rewrite IH; reflexivity. Qed.
Lemma nterms_app a b : nterms (a ++ b) = (nterms a ++ nterms b)%list.
Proof. induction a as [|x a IH]; [reflexivity|]. destruct x; cbn [nterms app]; rewrite IH; reflexivity. Qed.
Lemma last_word_app pw a b : last_word pw (a ++ b) = last_word (last_word pw a) b.
Proof. revert pw. induction a as [|c a IH]; intros pw; [reflexivity|]. cbn [append last_word]. apply IH. Qed.
Lemma nwf_k_app pw a b k : nwf_k pw (a ++ b) k = nwf_k pw a (nflat b ++ k) && nwf_k (last_word pw (nflat a)) b k.
Proof.
  revert pw. induction a as [|x a IH]; intros pw; [reflexivity|].
  cbn [app nwf_k nflat]. rewrite IH, nflat_app, sapp_assoc, last_word_app, andb_assoc. reflexivity.
Qed.

(* ---- one token ---- *)
Lemma ident_ne name : is_ident name = true -> name <> "".
Proof. destruct name; [discriminate|discriminate]. Qed.
Lemma fname_ne name : is_fname name = true -> name <> "".
Proof. destruct name; [discriminate|discriminate]. Qed.
Lemma app_ne a b : a <> "" -> a ++ b <> "".
Proof. destruct a; [congruence|discriminate]. Qed.

Lemma mem_string_In k l : mem_string k l = true -> In k l.
Proof.
  induction l as [|x l IH]; cbn; [discriminate|]. intros H. apply orb_true_iff in H as [H|H].
  - left. apply String.eqb_eq in H. congruence.
  - right. exact (IH H).
Qed.

Lemma head_is_open rest : head_is "(" rest = true -> exists after, rest = String "(" after.
Proof. destruct rest as [|c r]; cbn; [discriminate|]. intros H. apply Ascii.eqb_eq in H. subst. eexists; reflexivity. Qed.

Lemma ntok_lex pw x rest :
  ntok_ok pw x rest = true ->
  match x with
  | NChr c => match_here pw (String c rest) = None
  | _ => ntok_text x <> "" /\ mlen (ntok_match x) = String.length (ntok_text x)
         /\ match_here pw (ntok_text x ++ rest) = Some (ntok_match x)
  end.
Proof.
  destruct x as [name i|name|k|body|c]; cbn [ntok_ok ntok_text ntok_match mlen]; intros H.
  - apply andb_true_iff in H as [H Hi]. apply andb_true_iff in H as [Hid Hkw].
    split; [apply app_ne, (ident_ne _ Hid)|]. split; [reflexivity|].
    pose proof (match_here_var_idx pw name "" (idx_body i) "" rest Hid Hkw eq_refl eq_refl Hi) as M.
    unfold term_text. rewrite sapp_assoc.
    replace (("[" ++ idx_body i ++ "]") ++ rest) with (idx_text "" (idx_body i) "" ++ rest)
      by (unfold idx_text; cbn [append]; reflexivity).
    rewrite M. f_equal. f_equal. rewrite slen_app. unfold idx_text. cbn [append]. reflexivity.
  - apply andb_true_iff in H as [H Ho]. apply andb_true_iff in H as [Hfn Hkw].
    destruct (head_is_open _ Ho) as (after & ->).
    split; [apply (fname_ne _ Hfn)|]. split; [reflexivity|].
    pose proof (match_here_func pw name "" after Hfn Hkw eq_refl) as M. cbn [append String.length] in M.
    rewrite M, Nat.add_0_r. reflexivity.
  - apply andb_true_iff in H as [H Hb]. apply andb_true_iff in H as [H Hw]. apply andb_true_iff in H as [Hm Hp].
    apply negb_true_iff in Hp. subst pw. pose proof (mem_string_In _ _ Hm) as Hin.
    destruct (KW_idc k Hin) as [Ha _].
    split; [destruct k; [discriminate|discriminate]|]. split; [reflexivity|].
    apply match_here_kw; [exact Hin|]. unfold kw_follow. rewrite Hw, Hb. reflexivity.
  - split; [discriminate|]. split; [cbn [String.length]; rewrite slen_app; cbn [String.length]; lia|].
    cbn [append]. rewrite sapp_assoc. cbn [append]. apply match_here_verb. exact H.
  - apply orb_true_iff in H as [H|H].
    + apply match_here_inert. exact H.
    + apply andb_true_iff in H as [Hc Hl]. apply Ascii.eqb_eq in Hc. subst c. apply match_here_lt. exact Hl.
Qed.

Theorem nwf_lex_ok l : forall pw k, nwf_k pw l k = true -> k = "" -> lex_ok pw (pieces_of l).
Proof.
  induction l as [|x l IH]; intros pw k H Hk; [exact I|]. subst k.
  cbn [nwf_k] in H. apply andb_true_iff in H as [Hx Hr]. rewrite sapp_nil_r in Hx.
  pose proof (ntok_lex pw x (nflat l) Hx) as L.
  destruct x as [name i|name|kw|body|c]; cbn [pieces_of map piece_of lex_ok]; fold (pieces_of l); rewrite flat_pieces.
  1-4: destruct L as (Hne & Hlen & Hm); repeat split; try assumption; apply (IH _ "" Hr eq_refl).
  split; [exact L|]. apply (IH _ "" Hr eq_refl).
Qed.

(* ---- group(0) of every match ---- *)
Lemma substring_0_app t b : substring 0 (String.length t) (t ++ b) = t.
Proof. induction t as [|c t IH]; cbn [String.length append substring]; [destruct b; reflexivity|]. rewrite IH. reflexivity. Qed.
Lemma substring_skip a n s : substring (String.length a) n (a ++ s) = substring 0 n s.
Proof. induction a as [|c a IH]; [reflexivity|]. cbn [String.length append substring]. exact IH. Qed.

Lemma groups0_pieces ps : forall pw prefix, lex_ok pw ps ->
  groups0 (prefix ++ flat ps) (items_of (String.length prefix) ps) = piece_texts ps.
Proof.
  induction ps as [|p ps IH]; intros pw prefix H; [reflexivity|].
  destruct p as [t m|c]; cbn [flat items_of lex_ok groups0 piece_texts] in *.
  - destruct H as (Hne & Hlen & Hm & Hr). rewrite Hlen, substring_skip, substring_0_app. f_equal.
    rewrite <- slen_app, <- sapp_assoc. apply (IH _ (prefix ++ t) Hr).
  - destruct H as (Hm & Hr).
    replace (prefix ++ String c (flat ps)) with ((prefix ++ String c "") ++ flat ps) by (rewrite sapp_assoc; reflexivity).
    replace (S (String.length prefix)) with (String.length (prefix ++ String c "")) by (rewrite slen_app; cbn [String.length]; lia).
    apply (IH _ _ Hr).
Qed.

Theorem finditer_nflat l : nwf l = true -> finditer_group0 (nflat l) = nids l.
Proof.
  intros H. unfold nwf in H. pose proof (nwf_lex_ok l false "" H eq_refl) as L.
  unfold finditer_group0. rewrite <- flat_pieces, (scan_items_pieces _ L).
  rewrite <- texts_pieces. apply (groups0_pieces (pieces_of l) false "" L).
Qed.

Fixpoint nmatches (l : list ntok) : list tmatch :=
  match l with [] => [] | NChr _ :: r => nmatches r | x :: r => ntok_match x :: nmatches r end.
Lemma matches_pieces_of l : piece_matches (pieces_of l) = nmatches l.
Proof. induction l as [|x l IH]; [reflexivity|]. unfold pieces_of in *. destruct x; cbn [map piece_of piece_matches nmatches]; rewrite IH; reflexivity. Qed.
Theorem matches_nflat l : nwf l = true -> matches_of (scan_items (nflat l)) = nmatches l.
Proof.
  intros H. unfold nwf in H. pose proof (nwf_lex_ok l false "" H eq_refl) as L.
  rewrite <- flat_pieces, (matches_pieces _ L). apply matches_pieces_of.
Qed.

(* ---- the "=" that symbols_to_graph splits at ---- *)
Theorem neq_split q : neq_wf q = true -> find_any "=" (neq_text q) = Some (nflat (nlhs q), nflat (nrhs q)).
Proof.
  unfold neq_wf, neq_text. intros H. apply andb_true_iff in H as [_ H]. apply negb_true_iff in H.
  cbn [append]. apply find_any_app. exact H.
Qed.
