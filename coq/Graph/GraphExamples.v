(* GraphExamples.v — instances: the hypotheses of the C20 theorems are satisfiable by non-trivial inputs, and witnesses
   for what does NOT hold of the code as it is. *)
From Coq Require Import String Ascii List Bool Arith ZArith.
Import ListNotations.
Require Import Generated PyBase PyStr Lex Symbols Merge ParseEq ParseModel GLex GNorm Graph GraphFacts GraphTheorems GraphEvalFacts GraphEvalWf.
Require Import Solver Eval.
Open Scope string_scope.

(* ---- two normalised equations with a parameter-turned-series, a function, a keyword pair, a lag, a lead, a named period *)
Definition ex_q1 : neq :=
  mkNeq [NTerm "Y" (IInt 0); NChr " "]
        ([NChr " "; NTerm "exp" (IInt 0); NChr " "; NChr "+"; NChr " "; NFunc "exp"; NChr "("; NTerm "X" (IInt (-1)); NChr ")"; NChr " ";
          NKw "if"; NChr " "; NTerm "e" (IInt 0); NChr " "; NChr ">"; NChr " "; NChr "0"; NChr " "; NKw "else"; NChr " "; NVerb "foo"])%list.
Definition ex_q2 : neq :=
  mkNeq [NTerm "Z" (IInt 1); NChr " "]
        [NChr " "; NTerm "Y" (IInt 1); NChr "*"; NTerm "W" (IStr "'2000'"); NChr " "; NChr "<"; NChr " "; NTerm "Z" (IInt 0)].

Example ex_neqs_wf : forallb neq_wf [ex_q1; ex_q2] = true.
Proof. vm_compute. reflexivity. Qed.
Example ex_neq_texts : map neq_text [ex_q1; ex_q2]
  = ["Y[t] = exp[t] + exp(X[t-1]) if e[t] > 0 else `foo`"; "Z[t+1] = Y[t+1]*W['2000'] < Z[t]"].
Proof. vm_compute. reflexivity. Qed.
Definition ex_symbols : list symbol :=
  [mkSymbol (Some "Y") TEndogenous (Some (IInt 0)) (Some (IInt 1)) (Some (neq_text ex_q1)) (Some "code");
   mkSymbol (Some "exp") TFunction None None None None;
   mkSymbol (Some "Z") TEndogenous (Some (IInt 0)) (Some (IInt 1)) (Some (neq_text ex_q2)) (Some "code")].
Example ex_graph :
  match symbols_to_graph_M ex_symbols with
  | Ret g => map fst (gnodes g) = ["Y[t]"; "exp[t]"; "exp"; "X[t-1]"; "if"; "e[t]"; "else"; "`foo`"; "Z[t+1]"; "Y[t+1]"; "W['2000']"; "Z[t]"]
             /\ in_edges g "Z[t+1]" = ["Y[t+1]"; "W['2000']"; "Z[t]"]
             /\ filter varlike_id (in_edges g "Y[t]") = ["exp[t]"; "X[t-1]"; "e[t]"]
             /\ node_attr g "Z[t+1]" = Some (Some "Z[t+1] = Y[t+1]*W['2000'] < Z[t]") /\ node_attr g "Z[t]" = Some None
  | Raise _ => False
  end.
Proof. vm_compute. repeat split; reflexivity. Qed.

(* ---- a program over Z-valued stores: Y = X[-1] * (2 + Y[-1]);  Z[1] = max(Y, -X) if Y < Z else exp(X[2]) *)
Definition ex_vname (x : nat) : string := nth x ["Y"; "X"; "Z"; "is_open"] "V".
Definition ex_f1 (f : nat) : string := nth f ["exp"; "log"] "np.sqrt".
Definition ex_f2 (f : nat) : string := "pow2".
Definition ex_prog : list (stmt Z) :=
  [SAssign 0 0%Z (EBin OMul (ERead 1 (-1)%Z) (EBin OAdd (ENum 2%Z) (ERead 0 (-1)%Z)));
   SAssign 2 1%Z (EIf CLt (ERead 0 0%Z) (ERead 2 0%Z) (EMax (ERead 0 0%Z) (ENeg (ERead 1 0%Z))) (ECall1 0 (ERead 1 2%Z)))].
Example ex_prog_wf : forallb neq_wf (map (rstmt Z ex_vname string_of_Z ex_f1 ex_f2) ex_prog) = true.
Proof. vm_compute. reflexivity. Qed.
Example ex_prog_texts : map (fun s => neq_text (rstmt Z ex_vname string_of_Z ex_f1 ex_f2 s)) ex_prog
  = ["Y[t] = ((X[t-1]) * ((2) + (Y[t-1])))"; "Z[t+1] = ((max((Y[t]), (-(X[t])))) if (Y[t]) < (Z[t]) else (exp(X[t+2])))"].
Proof. vm_compute. reflexivity. Qed.
Example ex_prog_edges :
  in_edges (prog_graph Z ex_vname string_of_Z ex_f1 ex_f2 ex_prog) "Z[t+1]" = ["max"; "Y[t]"; "X[t]"; "if"; "Z[t]"; "else"; "exp"; "X[t+2]"]
  /\ in_edges (prog_graph Z ex_vname string_of_Z ex_f1 ex_f2 ex_prog) "Y[t]" = ["X[t-1]"; "Y[t-1]"].
Proof. vm_compute. split; reflexivity. Qed.

Example ex_name_conditions :
  forallb name_ok ["Y"; "X"; "is_open"; "not_X"; "Pin"; "alpha_1"] = true /\ name_ok "if" = false /\ name_ok "is" = false /\
  forallb fname_ok ["exp"; "np.sqrt"; "max"] = true /\ forallb numeral_ok ["2"; "0.5"; "-10"; "1."] = true /\ numeral_ok "2e5" = false.
Proof. vm_compute. repeat split; reflexivity. Qed.

(* ---- what does NOT hold of the code as it is ---- *)
(* finding #20: a blank before the index bracket.  The script says Y depends on X one period back; the parser accepts it,
   the normalised equation is "Y[t] = X[t] [-1]", and the graph reports the contemporaneous X instead *)
Example space_before_index_graph_refuted :
  exists script symbols g,
    parse_model_nocheck script = POk symbols /\ symbols_to_graph_M symbols = Ret g /\
    in_edges g "Y[t]" = ["X[t]"] /\ is_edge g "X[t-1]" "Y[t]" = false.
Proof.
  exists "Y = X [-1]". eexists. eexists. split; [vm_compute; reflexivity|]. split; [vm_compute; reflexivity|].
  split; vm_compute; reflexivity.
Qed.
(* without the syntax check, str(term) can glue a keyword to the term that follows it: the normalised equation of
   "Y = 1 if{a}else 2" is not a well-formed token list, and the graph has the node "ifa[t]".  (With check_syntax=True,
   the default, CPython rejects the generated code, so no accepted script is affected.) *)
Example renormalised_keyword_glued_refuted :
  exists script symbols g,
    parse_model_nocheck script = POk symbols /\ symbols_to_graph_M symbols = Ret g /\
    in_edges g "Y[t]" = ["ifa[t]"; "else"] /\ is_edge g "a[t]" "Y[t]" = false.
Proof.
  exists "Y = 1 if{a}else 2". eexists. eexists. split; [vm_compute; reflexivity|]. split; [vm_compute; reflexivity|].
  split; vm_compute; reflexivity.
Qed.
(* a symbol whose equation has no "=": the unpacking `lhs, rhs = e.split('=', maxsplit=1)` raises ValueError *)
Example equation_without_equals_raises :
  symbols_to_graph_M [mkSymbol (Some "Y") TEndogenous None None (Some "Y[t]") None] = Raise ValueError.
Proof. vm_compute. reflexivity. Qed.

(* fix 9d4c57e: a verbatim block keeps its code in the `equation` field; with or without "=" it contributes nothing *)
Definition ex_verbatim_noeq : symbol := mkSymbol None TVerbatim None None (Some ("```" ++ nl_s ++ "pass" ++ nl_s ++ "```")) (Some "pass").
Definition ex_verbatim_eq : symbol := mkSymbol None TVerbatim None None (Some ("```" ++ nl_s ++ "x = Y[t] + 1" ++ nl_s ++ "```")) (Some "x = Y[t] + 1").
Example verbatim_blocks_ignored :
  symbols_to_graph_M (ex_verbatim_noeq :: ex_symbols ++ [ex_verbatim_eq])%list = symbols_to_graph_M ex_symbols /\
  symbols_to_graph_M [ex_verbatim_noeq] = Ret empty_graph.
Proof. vm_compute. split; reflexivity. Qed.
