(* GraphTheorems.v — the statements of property C20 about the graph itself, for every list of symbols whose equations are
   well-formed normalised equations (any number of equations, any tokens, any offsets). *)
From Coq Require Import String Ascii List Bool Arith Lia.
Import ListNotations.
Require Import Generated PyBase PyStr Lex Symbols Merge GLex GLexFacts GNorm GNormFacts Graph GraphFacts.
Open Scope string_scope.
Open Scope nat_scope.

Definition graph_of (qs : list neq) : graph := gbuild empty_graph (map neq_triple qs).

Lemma in_map_triple q qs : In q qs -> In (neq_triple q) (map neq_triple qs).
Proof. apply in_map. Qed.

Theorem graph_total symbols qs :
  equations_of symbols = map neq_text qs -> forallb neq_wf qs = true -> symbols_to_graph_M symbols = Ret (graph_of qs).
Proof. apply graph_of_neqs. Qed.

Theorem edges_exact qs x n :
  is_edge (graph_of qs) x n = true <-> exists q, In q qs /\ In n (nids (nlhs q)) /\ In x (nids (nrhs q)).
Proof.
  unfold is_edge, graph_of. rewrite has_edge_In, gbuild_edges. cbn [empty_graph gedges In]. split.
  - intros [[]|(e & L & R & n' & x' & Hin & Hn & Hx & E)]. inversion E; subst n' x'.
    apply in_map_iff in Hin as (q & Eq & Hq). unfold neq_triple in Eq. inversion Eq; subst. exists q. auto.
  - intros (q & Hq & Hn & Hx). right. exists (neq_text q), (nids (nlhs q)), (nids (nrhs q)), n, x.
    split; [apply (in_map_triple q qs Hq)|auto].
Qed.

Theorem edges_nodup qs : NoDup (gedges (graph_of qs)).
Proof. apply gbuild_edges_nodup. constructor. Qed.

Lemma forallb_In {A} (f : A -> bool) l x : forallb f l = true -> In x l -> f x = true.
Proof. intros H. rewrite forallb_forall in H. apply H. Qed.

Theorem varlike_edges_exact qs x n :
  forallb neq_wf qs = true ->
  (is_edge (graph_of qs) x n = true /\ varlike_id x = true)
  <-> exists q name i, In q qs /\ In n (nids (nlhs q)) /\ In (name, i) (nterms (nrhs q)) /\ x = term_text name i.
Proof.
  intros Hw. rewrite edges_exact. split.
  - intros [(q & Hq & Hn & Hx) Hv]. pose proof (forallb_In _ _ _ Hw Hq) as W. unfold neq_wf in W.
    apply andb_true_iff in W as [W _]. apply andb_true_iff in W as [_ Wr]. unfold nwf in Wr.
    destruct (proj1 (varlike_ids _ _ _ Wr x) (conj Hx Hv)) as (name & i & Hin & E). exists q, name, i. auto.
  - intros (q & name & i & Hq & Hn & Hin & E). pose proof (forallb_In _ _ _ Hw Hq) as W. unfold neq_wf in W.
    apply andb_true_iff in W as [W _]. apply andb_true_iff in W as [_ Wr]. unfold nwf in Wr.
    destruct (proj2 (varlike_ids _ _ _ Wr x) (ex_intro _ name (ex_intro _ i (conj Hin E)))) as [Hx Hv].
    split; [exists q; auto|exact Hv].
Qed.

Lemma node_attr_lookup g n : node_attr g n = nlookup n (gnodes g).
Proof. reflexivity. Qed.

(* one node per left-hand-side term, carrying the (last) normalised equation that has it on the left *)
Theorem lhs_node_carries_equation qs1 q qs2 n :
  In n (nids (nlhs q)) -> (forall q', In q' qs2 -> ~ In n (nids (nlhs q'))) ->
  node_attr (graph_of (qs1 ++ q :: qs2)) n = Some (Some (neq_text q)).
Proof.
  intros Hn Hno. rewrite node_attr_lookup. unfold graph_of. rewrite map_app. cbn [map]. unfold neq_triple at 2.
  apply gbuild_attr_last; [exact Hn|].
  intros e' L' R' Hin. apply in_map_iff in Hin as (q' & Eq & Hq'). unfold neq_triple in Eq. inversion Eq; subst. apply Hno, Hq'.
Qed.

(* a term that is on no left-hand side is a bare node (no attribute) or no node at all *)
Theorem rhs_only_node_has_no_equation qs n :
  (forall q, In q qs -> ~ In n (nids (nlhs q))) -> node_attr (graph_of qs) n = None \/ node_attr (graph_of qs) n = Some None.
Proof.
  intros Hno. rewrite node_attr_lookup. unfold graph_of. rewrite gbuild_attr_rhs.
  - cbn [empty_graph gnodes nlookup find lk_add]. destruct (existsb _ _); auto.
  - intros e L R Hin. apply in_map_iff in Hin as (q & Eq & Hq). unfold neq_triple in Eq. inversion Eq; subst. apply Hno, Hq.
Qed.

Theorem nodes_exact qs n :
  node_attr (graph_of qs) n <> None
  <-> exists q, In q qs /\ (In n (nids (nlhs q)) \/ (nids (nlhs q) <> [] /\ In n (nids (nrhs q)))).
Proof.
  rewrite node_attr_lookup. unfold graph_of. rewrite gbuild_node_iff. cbn [empty_graph gnodes nlookup find]. split.
  - intros [H|(e & L & R & Hin & H)]; [congruence|].
    apply in_map_iff in Hin as (q & Eq & Hq). unfold neq_triple in Eq. inversion Eq; subst. exists q. auto.
  - intros (q & Hq & H). right. exists (neq_text q), (nids (nlhs q)), (nids (nrhs q)). split; [apply (in_map_triple q qs Hq)|exact H].
Qed.

(* ---- G.edges() as networkx lists them (Graph.nx_edges, what the correspondence compares) is the same edge set ---- *)
Lemma nlookup_in n ns : nlookup n ns <> None <-> exists a, In (n, a) ns.
Proof.
  induction ns as [|[k v] r IH]; [split; [intros H; exfalso; apply H; reflexivity|intros (a & [])]|].
  rewrite nlookup_cons. destruct (String.eqb n k) eqn:E.
  - apply String.eqb_eq in E. subst k. split; [intros _; exists v; left; reflexivity|discriminate].
  - rewrite IH. apply String.eqb_neq in E. split; intros (a & H); exists a; [right; exact H|].
    destruct H as [H|H]; [inversion H; congruence|exact H].
Qed.

Lemma nx_edges_in g p : In p (nx_edges g) <-> In p (gedges g) /\ nlookup (fst p) (gnodes g) <> None.
Proof.
  unfold nx_edges. rewrite in_flat_map. split.
  - intros ([k a] & Hk & Hp). apply filter_In in Hp as [Hp E]. cbn [fst] in E. apply String.eqb_eq in E.
    split; [exact Hp|]. apply nlookup_in. exists a. rewrite E. exact Hk.
  - intros [Hp Hn]. apply nlookup_in in Hn as (a & Ha). exists (fst p, a). split; [exact Ha|].
    apply filter_In. split; [exact Hp|]. cbn [fst]. apply String.eqb_refl.
Qed.

Theorem networkx_edge_view qs x n : In (x, n) (nx_edges (graph_of qs)) <-> is_edge (graph_of qs) x n = true.
Proof.
  rewrite nx_edges_in. cbn [fst]. unfold is_edge at 1. rewrite <- has_edge_In. fold (is_edge (graph_of qs) x n). split; [intros [H _]; exact H|].
  intros H. split; [exact H|]. rewrite <- node_attr_lookup. apply nodes_exact.
  apply edges_exact in H as (q & Hq & Hn & Hx). exists q. split; [exact Hq|]. right. split; [|exact Hx].
  intros E. rewrite E in Hn. destruct Hn.
Qed.

(* ---- only ENDOGENOUS symbols contribute (fix 9d4c57e) ---- *)
Lemma equations_of_app a b : equations_of (a ++ b) = (equations_of a ++ equations_of b)%list.
Proof.
  induction a as [|s a IH]; [reflexivity|]. cbn [app equations_of]. destruct (sequation s) as [e|]; [|exact IH].
  destruct (stype s); try exact IH. cbn [app]. rewrite IH. reflexivity.
Qed.
Lemma equations_of_non_endogenous s : stype s <> TEndogenous -> equations_of [s] = [].
Proof. intros H. cbn [equations_of]. destruct (sequation s); [|reflexivity]. destruct (stype s); try reflexivity. congruence. Qed.

(* a symbol of any other type — a verbatim block with its code in the `equation` field, with or without "=", a parameter, a
   function, … — contributes no node, no edge and no failure: the graph is the graph of the list without it *)
Theorem non_endogenous_ignored a s b :
  stype s <> TEndogenous -> symbols_to_graph_M (a ++ s :: b) = symbols_to_graph_M (a ++ b).
Proof.
  intros H. unfold symbols_to_graph_M. change (s :: b) with ([s] ++ b)%list.
  rewrite !equations_of_app, (equations_of_non_endogenous s H). reflexivity.
Qed.

Definition endogenous_sym (s : symbol) : bool := type_eqb (stype s) TEndogenous.
Theorem only_endogenous_matter symbols : symbols_to_graph_M (filter endogenous_sym symbols) = symbols_to_graph_M symbols.
Proof.
  unfold symbols_to_graph_M. f_equal. induction symbols as [|s r IH]; [reflexivity|]. cbn [filter equations_of]. unfold endogenous_sym at 1.
  destruct (stype s) eqn:E; cbn [type_eqb]; try (destruct (sequation s); exact IH).
  cbn [equations_of]. rewrite E. destruct (sequation s); rewrite IH; reflexivity.
Qed.

(* hence graph_total for symbol lists with verbatim blocks and any other non-endogenous symbols in between *)
Theorem graph_total_endogenous symbols qs :
  equations_of (filter endogenous_sym symbols) = map neq_text qs -> forallb neq_wf qs = true ->
  symbols_to_graph_M symbols = Ret (graph_of qs).
Proof. intros He Hw. rewrite <- only_endogenous_matter. apply (graph_total _ qs He Hw). Qed.
