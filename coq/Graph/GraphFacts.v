(* GraphFacts.v — what symbols_to_graph_M builds, for ALL symbol lists whose equations are well-formed normalised
   equations (token lists of any length):
     gbuild_edges        the edge set is exactly  { (x, n) | some equation has n among its left-hand ids and x among its
                         right-hand ids },  without repetitions (gbuild_edges_nodup)
     gbuild_attr_last    a left-hand id carries the (last) equation that defines it
     gbuild_attr_rhs     an id that is on no left-hand side carries no equation
     gbuild_node_iff     the nodes are exactly the left-hand ids and the right-hand ids of equations that have both sides
     graph_of_neqs       symbols_to_graph_M on such a list returns (never raises) the graph described above
     varlike_ids         the variable-like ids of a token list are exactly the texts NAME[...] of its variable terms *)
From Coq Require Import String Ascii List Bool Arith Lia.
Import ListNotations.
Require Import Generated PyBase PyStr Lex Symbols Merge GLex GLexFacts GNorm GNormFacts Graph.
Open Scope string_scope.
Open Scope nat_scope.

(* equation text, ids of its left-hand side, ids of its right-hand side *)
Definition triple : Type := (string * list string * list string)%type.
Definition gstep (g : graph) (t : triple) : graph :=
  let '(e, L, R) := t in
  fold_left (fun g n => fold_left (fun g x => add_edge g x n) R g) L (fold_left (add_node_attr e) L g).
Definition gbuild (g : graph) (ts : list triple) : graph := fold_left gstep ts g.

(* ================================================================== edges *)
Lemma pair_eqb_eq a b : pair_eqb a b = true <-> a = b.
Proof.
  destruct a as [a1 a2], b as [b1 b2]. unfold pair_eqb. cbn [fst snd]. rewrite andb_true_iff, !String.eqb_eq.
  split; [intros [-> ->]; reflexivity|intros E; inversion E; auto].
Qed.
Lemma has_edge_In e es : has_edge e es = true <-> In e es.
Proof.
  unfold has_edge. rewrite existsb_exists. split.
  - intros (y & Hy & E). apply pair_eqb_eq in E. subst. exact Hy.
  - intros H. exists e. split; [exact H|apply pair_eqb_eq; reflexivity].
Qed.
Lemma add_edge_edges g x n p : In p (gedges (add_edge g x n)) <-> In p (gedges g) \/ p = (x, n).
Proof.
  unfold add_edge. cbn [gedges]. destruct (has_edge (x, n) (gedges g)) eqn:E.
  - split; [auto|]. intros [H| ->]; [exact H|apply has_edge_In; exact E].
  - rewrite in_app_iff. cbn [In]. split; intros [H|H]; auto. destruct H as [H|[]]; auto.
Qed.
Lemma add_edge_nodup g x n : NoDup (gedges g) -> NoDup (gedges (add_edge g x n)).
Proof.
  intros H. unfold add_edge. cbn [gedges]. destruct (has_edge (x, n) (gedges g)) eqn:E; [exact H|].
  assert (Hn : ~ In (x, n) (gedges g)) by (intros Hi; apply has_edge_In in Hi; congruence).
  clear E. induction (gedges g) as [|a l IH]; cbn [app].
  - constructor; [intros []|constructor].
  - inversion H as [|? ? Ha Hl]; subst. constructor.
    + rewrite in_app_iff. intros [Hi|[Hi|[]]]; [exact (Ha Hi)|]. subst a. apply Hn. left. reflexivity.
    + apply IH; [exact Hl|]. intros Hi. apply Hn. right. exact Hi.
Qed.

Lemma inner_edges R : forall g n p,
  In p (gedges (fold_left (fun g x => add_edge g x n) R g)) <-> In p (gedges g) \/ exists x, In x R /\ p = (x, n).
Proof.
  induction R as [|x R IH]; intros g n p; cbn [fold_left].
  - split; [auto|]. intros [H|(x & [] & _)]. exact H.
  - rewrite IH, add_edge_edges. split.
    + intros [[H|H]|(y & Hy & E)]; [auto| |].
      * right. exists x. split; [left; reflexivity|exact H].
      * right. exists y. split; [right; exact Hy|exact E].
    + intros [H|(y & [->|Hy] & E)]; [auto|auto|]. right. exists y. auto.
Qed.
Lemma inner_nodup R : forall g n, NoDup (gedges g) -> NoDup (gedges (fold_left (fun g x => add_edge g x n) R g)).
Proof. induction R as [|x R IH]; intros g n H; cbn [fold_left]; [exact H|]. apply IH, add_edge_nodup, H. Qed.
Lemma attr_edges e L : forall g, gedges (fold_left (add_node_attr e) L g) = gedges g.
Proof. induction L as [|a L IH]; intros g; cbn [fold_left]; [reflexivity|]. rewrite IH. reflexivity. Qed.
Lemma outer_edges R L : forall g p,
  In p (gedges (fold_left (fun g n => fold_left (fun g x => add_edge g x n) R g) L g))
  <-> In p (gedges g) \/ exists n x, In n L /\ In x R /\ p = (x, n).
Proof.
  induction L as [|a L IH]; intros g p; cbn [fold_left].
  - split; [auto|]. intros [H|(n & x & [] & _)]. exact H.
  - rewrite IH, inner_edges. split.
    + intros [[H|(x & Hx & E)]|(n & x & Hn & Hx & E)]; [auto| |].
      * right. exists a, x. split; [left; reflexivity|auto].
      * right. exists n, x. split; [right; exact Hn|auto].
    + intros [H|(n & x & [->|Hn] & Hx & E)]; [auto| |].
      * left. right. exists x. auto.
      * right. exists n, x. auto.
Qed.
Lemma outer_nodup R L : forall g, NoDup (gedges g) ->
  NoDup (gedges (fold_left (fun g n => fold_left (fun g x => add_edge g x n) R g) L g)).
Proof. induction L as [|a L IH]; intros g H; cbn [fold_left]; [exact H|]. apply IH, inner_nodup, H. Qed.

Lemma gstep_edges g e L R p :
  In p (gedges (gstep g (e, L, R))) <-> In p (gedges g) \/ exists n x, In n L /\ In x R /\ p = (x, n).
Proof. unfold gstep. rewrite outer_edges, attr_edges. reflexivity. Qed.
Lemma gstep_nodup g t : NoDup (gedges g) -> NoDup (gedges (gstep g t)).
Proof. destruct t as [[e L] R]. intros H. unfold gstep. apply outer_nodup. rewrite attr_edges. exact H. Qed.

Theorem gbuild_edges ts : forall g p,
  In p (gedges (gbuild g ts)) <-> In p (gedges g) \/ exists e L R n x, In (e, L, R) ts /\ In n L /\ In x R /\ p = (x, n).
Proof.
  unfold gbuild. induction ts as [|[[e L] R] ts IH]; intros g p; cbn [fold_left].
  - split; [auto|]. intros [H|(e & L & R & n & x & [] & _)]. exact H.
  - rewrite IH, gstep_edges. split.
    + intros [[H|(n & x & Hn & Hx & E)]|(e' & L' & R' & n & x & Hin & Hn & Hx & E)]; [auto| |].
      * right. exists e, L, R, n, x. split; [left; reflexivity|auto].
      * right. exists e', L', R', n, x. split; [right; exact Hin|auto].
    + intros [H|(e' & L' & R' & n & x & [Heq|Hin] & Hn & Hx & E)]; [auto| |].
      * inversion Heq; subst. left. right. exists n, x. auto.
      * right. exists e', L', R', n, x. auto.
Qed.
Theorem gbuild_edges_nodup ts : forall g, NoDup (gedges g) -> NoDup (gedges (gbuild g ts)).
Proof. unfold gbuild. induction ts as [|t ts IH]; intros g H; cbn [fold_left]; [exact H|]. apply IH, gstep_nodup, H. Qed.

(* ================================================================== nodes and their attribute *)
Definition nlookup (n : string) (ns : list (string * option string)) : option (option string) :=
  match find (fun kv => String.eqb n (fst kv)) ns with Some (_, a) => Some a | None => None end.
(* a node that exists keeps its attribute; a missing one is created without attribute when b *)
Definition lk_add (cur : option (option string)) (b : bool) : option (option string) :=
  match cur with Some a => Some a | None => if b then Some None else None end.

Lemma nlookup_cons n k a r : nlookup n ((k, a) :: r) = if String.eqb n k then Some a else nlookup n r.
Proof. unfold nlookup. cbn [find fst]. destruct (String.eqb n k); reflexivity. Qed.
Lemma has_node_lookup n ns : has_node n ns = match nlookup n ns with Some _ => true | None => false end.
Proof.
  induction ns as [|[k a] r IH]; [reflexivity|]. cbn [has_node]. rewrite nlookup_cons.
  destruct (String.eqb n k); [reflexivity|exact IH].
Qed.
Lemma lookup_set_same n e ns : nlookup n (set_node n e ns) = Some (Some e).
Proof.
  induction ns as [|[k a] r IH]; cbn [set_node].
  - rewrite nlookup_cons, String.eqb_refl. reflexivity.
  - destruct (String.eqb n k) eqn:E; rewrite nlookup_cons, E; [reflexivity|exact IH].
Qed.
Lemma lookup_set_other n n' e ns : String.eqb n' n = false -> nlookup n' (set_node n e ns) = nlookup n' ns.
Proof.
  intros Hne. induction ns as [|[k a] r IH]; cbn [set_node].
  - rewrite nlookup_cons, Hne. reflexivity.
  - destruct (String.eqb n k) eqn:E; rewrite !nlookup_cons.
    + apply String.eqb_eq in E. subst k. rewrite Hne. reflexivity.
    + rewrite IH. reflexivity.
Qed.
Lemma lookup_app n a b : nlookup n (a ++ b) = match nlookup n a with Some x => Some x | None => nlookup n b end.
Proof.
  induction a as [|[k v] a IH]; [reflexivity|]. cbn [app]. rewrite !nlookup_cons.
  destruct (String.eqb n k); [reflexivity|exact IH].
Qed.
Lemma lookup_touch n' n ns : nlookup n' (touch_node n ns) = lk_add (nlookup n' ns) (String.eqb n' n).
Proof.
  unfold touch_node, lk_add. rewrite has_node_lookup. destruct (nlookup n ns) as [a|] eqn:E.
  - destruct (nlookup n' ns) as [b|] eqn:E'; [reflexivity|].
    destruct (String.eqb n' n) eqn:En; [|reflexivity]. apply String.eqb_eq in En. subst n'. congruence.
  - rewrite lookup_app. destruct (nlookup n' ns); [reflexivity|]. rewrite nlookup_cons. reflexivity.
Qed.
Lemma lk_add_add c b1 b2 : lk_add (lk_add c b1) b2 = lk_add c (b1 || b2).
Proof. destruct c, b1, b2; reflexivity. Qed.
Lemma lk_add_false c : lk_add c false = c.
Proof. destruct c; reflexivity. Qed.

Lemma attrs_lookup e L : forall g n,
  nlookup n (gnodes (fold_left (add_node_attr e) L g)) = if mem_string n L then Some (Some e) else nlookup n (gnodes g).
Proof.
  induction L as [|a L IH]; intros g n; cbn [fold_left]; [reflexivity|].
  rewrite IH. unfold mem_string. cbn [existsb]. fold (mem_string n L).
  destruct (mem_string n L); [rewrite orb_true_r; reflexivity|]. rewrite orb_false_r.
  unfold add_node_attr. cbn [gnodes]. destruct (String.eqb n a) eqn:E.
  - apply String.eqb_eq in E. subst. apply lookup_set_same.
  - apply lookup_set_other. exact E.
Qed.
Lemma add_edge_lookup g x n n' :
  nlookup n' (gnodes (add_edge g x n)) = lk_add (nlookup n' (gnodes g)) (String.eqb n' x || String.eqb n' n).
Proof. unfold add_edge. cbn [gnodes]. rewrite !lookup_touch, lk_add_add. reflexivity. Qed.

Definition nonnil {A} (l : list A) : bool := match l with [] => false | _ => true end.
Lemma inner_lookup R : forall g n n',
  nlookup n' (gnodes (fold_left (fun g x => add_edge g x n) R g))
  = lk_add (nlookup n' (gnodes g)) (nonnil R && (mem_string n' R || String.eqb n' n)).
Proof.
  induction R as [|x R IH]; intros g n n'; cbn [fold_left].
  - cbn [nonnil andb]. rewrite lk_add_false. reflexivity.
  - rewrite IH, add_edge_lookup, lk_add_add. f_equal. unfold mem_string. cbn [existsb nonnil andb]. fold (mem_string n' R).
    remember (String.eqb n' x) as a. remember (String.eqb n' n) as c.
    destruct R as [|y R].
    + cbn. destruct a, c; reflexivity.
    + remember (mem_string n' (y :: R)) as m. cbn [nonnil andb]. destruct a, c, m; reflexivity.
Qed.
Lemma outer_lookup R L : forall g n',
  nlookup n' (gnodes (fold_left (fun g n => fold_left (fun g x => add_edge g x n) R g) L g))
  = lk_add (nlookup n' (gnodes g)) (nonnil L && nonnil R && (mem_string n' R || mem_string n' L)).
Proof.
  induction L as [|a L IH]; intros g n'; cbn [fold_left].
  - cbn [nonnil andb]. rewrite lk_add_false. reflexivity.
  - rewrite IH, inner_lookup, lk_add_add. f_equal.
    replace (mem_string n' (a :: L)) with (String.eqb n' a || mem_string n' L) by reflexivity.
    remember (String.eqb n' a) as c. remember (mem_string n' R) as m. remember (nonnil R) as r.
    destruct L as [|b L].
    + cbn. destruct r, m, c; reflexivity.
    + remember (mem_string n' (b :: L)) as m2. cbn [nonnil andb]. destruct r, m, c, m2; reflexivity.
Qed.

Theorem gstep_lookup g e L R n :
  nlookup n (gnodes (gstep g (e, L, R)))
  = if mem_string n L then Some (Some e) else lk_add (nlookup n (gnodes g)) (nonnil L && nonnil R && mem_string n R).
Proof.
  unfold gstep. rewrite outer_lookup, attrs_lookup. destruct (mem_string n L); [reflexivity|]. rewrite orb_false_r. reflexivity.
Qed.

Lemma mem_string_iff k l : mem_string k l = true <-> In k l.
Proof.
  unfold mem_string. rewrite existsb_exists. split.
  - intros (y & Hy & E). apply String.eqb_eq in E. subst. exact Hy.
  - intros H. exists k. split; [exact H|apply String.eqb_refl].
Qed.

Lemma gbuild_app g a b : gbuild g (a ++ b)%list = gbuild (gbuild g a) b.
Proof. unfold gbuild. apply fold_left_app. Qed.

(* once defined, an attribute survives every equation that does not define the node again *)
Lemma gbuild_keeps ts : forall g n a,
  nlookup n (gnodes g) = Some a -> (forall e L R, In (e, L, R) ts -> ~ In n L) -> nlookup n (gnodes (gbuild g ts)) = Some a.
Proof.
  unfold gbuild. induction ts as [|[[e L] R] ts IH]; intros g n a H Hno; cbn [fold_left]; [exact H|].
  apply IH; [|intros e' L' R' Hin; apply (Hno e' L' R'); right; exact Hin].
  rewrite gstep_lookup. destruct (mem_string n L) eqn:E.
  - exfalso. apply (Hno e L R); [left; reflexivity|]. apply mem_string_iff. exact E.
  - rewrite H. reflexivity.
Qed.

Theorem gbuild_attr_last g ts1 e L R ts2 n :
  In n L -> (forall e' L' R', In (e', L', R') ts2 -> ~ In n L') ->
  nlookup n (gnodes (gbuild g (ts1 ++ (e, L, R) :: ts2)%list)) = Some (Some e).
Proof.
  intros Hn Hno. rewrite gbuild_app. change ((e, L, R) :: ts2) with ([(e, L, R)] ++ ts2)%list. rewrite gbuild_app.
  apply gbuild_keeps; [|exact Hno]. unfold gbuild. cbn [fold_left]. rewrite gstep_lookup.
  apply mem_string_iff in Hn. rewrite Hn. reflexivity.
Qed.

(* a node that is on no left-hand side never carries an equation *)
Theorem gbuild_attr_rhs ts : forall g n,
  (forall e L R, In (e, L, R) ts -> ~ In n L) ->
  nlookup n (gnodes (gbuild g ts)) = lk_add (nlookup n (gnodes g))
                                            (existsb (fun t => nonnil (snd (fst t)) && nonnil (snd t) && mem_string n (snd t)) ts).
Proof.
  unfold gbuild. induction ts as [|[[e L] R] ts IH]; intros g n Hno; cbn [fold_left existsb].
  - rewrite lk_add_false. reflexivity.
  - rewrite IH; [|intros e' L' R' Hin; apply (Hno e' L' R'); right; exact Hin].
    rewrite gstep_lookup. destruct (mem_string n L) eqn:E.
    + exfalso. apply (Hno e L R); [left; reflexivity|]. apply mem_string_iff. exact E.
    + rewrite lk_add_add. reflexivity.
Qed.

(* which ids are nodes at all *)
Theorem gbuild_node_iff ts : forall g n,
  nlookup n (gnodes (gbuild g ts)) <> None
  <-> nlookup n (gnodes g) <> None \/ exists e L R, In (e, L, R) ts /\ (In n L \/ (L <> [] /\ In n R)).
Proof.
  unfold gbuild. induction ts as [|[[e L] R] ts IH]; intros g n; cbn [fold_left].
  - split; [auto|]. intros [H|(e & L & R & [] & _)]. exact H.
  - rewrite IH, gstep_lookup. split.
    + intros [H|(e' & L' & R' & Hin & H)].
      * destruct (mem_string n L) eqn:E.
        { right. exists e, L, R. split; [left; reflexivity|]. left. apply mem_string_iff. exact E. }
        destruct (nlookup n (gnodes g)) as [a|]; [left; discriminate|].
        cbn [lk_add] in H. destruct (nonnil L && nonnil R && mem_string n R) eqn:B; [|congruence].
        apply andb_true_iff in B as [B B3]. apply andb_true_iff in B as [B1 B2].
        right. exists e, L, R. split; [left; reflexivity|]. right. split; [destruct L; [discriminate|discriminate]|].
        apply mem_string_iff. exact B3.
      * right. exists e', L', R'. split; [right; exact Hin|exact H].
    + intros [H|(e' & L' & R' & [Heq|Hin] & H)].
      * left. destruct (mem_string n L); [discriminate|]. destruct (nlookup n (gnodes g)); [discriminate|congruence].
      * inversion Heq; subst. left. destruct H as [H|[Hl H]].
        { apply mem_string_iff in H. rewrite H. discriminate. }
        destruct (mem_string n L'); [discriminate|]. destruct (nlookup n (gnodes g)); [discriminate|].
        apply mem_string_iff in H. rewrite H. destruct L'; [congruence|]. destruct R'; [discriminate|]. discriminate.
      * right. exists e', L', R'. auto.
Qed.

(* ================================================================== symbols_to_graph_M on normalised equations *)
Definition neq_triple (q : neq) : triple := (neq_text q, nids (nlhs q), nids (nrhs q)).

Lemma graph_step_neq g q : neq_wf q = true -> graph_step g (neq_text q) = Ret (gstep g (neq_triple q)).
Proof.
  intros H. unfold graph_step. rewrite (neq_split q H).
  unfold neq_wf in H. apply andb_true_iff in H as [H _]. apply andb_true_iff in H as [Hl Hr].
  rewrite (finditer_nflat _ Hl), (finditer_nflat _ Hr). reflexivity.
Qed.
Lemma graph_loop_neqs qs : forall g, forallb neq_wf qs = true -> graph_loop g (map neq_text qs) = Ret (gbuild g (map neq_triple qs)).
Proof.
  induction qs as [|q qs IH]; intros g H; [reflexivity|]. cbn [forallb] in H. apply andb_true_iff in H as [Hq Hr].
  cbn [map graph_loop]. rewrite (graph_step_neq g q Hq). unfold gbuild. cbn [fold_left]. apply (IH _ Hr).
Qed.

Theorem graph_of_neqs symbols qs :
  equations_of symbols = map neq_text qs -> forallb neq_wf qs = true ->
  symbols_to_graph_M symbols = Ret (gbuild empty_graph (map neq_triple qs)).
Proof. intros He Hw. unfold symbols_to_graph_M. rewrite He. apply graph_loop_neqs. exact Hw. Qed.

(* ================================================================== variable-like ids *)
Lemma has_char_all_false p ch s : p ch = false -> all_chars p s = true -> has_char ch s = false.
Proof. apply all_chars_no_char. Qed.

Lemma varlike_term name i : is_ident name = true -> varlike_id (term_text name i) = true.
Proof.
  intros H. destruct (ident_nonempty _ H) as (c & r & -> & Hc & _). unfold varlike_id, term_text.
  rewrite has_char_app. cbn [append has_char head_is]. rewrite Ascii.eqb_refl, orb_true_r, andb_true_r.
  pose proof (alpha_not_tick c Hc) as T. apply andb_true_iff in T as [T _]. apply andb_true_iff in T as [T _]. exact T.
Qed.

Lemma fnc_not_bracket : is_fnc "[" = false. Proof. vm_compute. reflexivity. Qed.
Lemma idc_not_bracket : is_idc "[" = false. Proof. vm_compute. reflexivity. Qed.

(* for a token in a well-formed list: its id is variable-like iff it is a variable term *)
Lemma varlike_tok pw x rest : ntok_ok pw x rest = true -> is_term_tok x = true ->
  varlike_id (ntok_text x) = match x with NTerm _ _ => true | _ => false end.
Proof.
  destruct x as [name i|name|k|body|c]; cbn [ntok_ok ntok_text is_term_tok]; intros H Ht; try discriminate.
  - apply andb_true_iff in H as [H _]. apply andb_true_iff in H as [H _]. apply varlike_term. exact H.
  - apply andb_true_iff in H as [H _]. apply andb_true_iff in H as [H _].
    destruct (fname_nonempty _ H) as (c & r & -> & _ & Hall).
    unfold varlike_id. rewrite (has_char_all_false is_fnc "[" _ fnc_not_bracket Hall). apply andb_false_r.
  - apply andb_true_iff in H as [H _]. apply andb_true_iff in H as [H _]. apply andb_true_iff in H as [H _].
    apply mem_string_In in H. destruct (KW_idc k H) as [_ Hall].
    unfold varlike_id. rewrite (has_char_all_false is_idc "[" _ idc_not_bracket Hall). apply andb_false_r.
  - reflexivity.
Qed.

Theorem varlike_ids l : forall pw k, nwf_k pw l k = true ->
  forall x, (In x (nids l) /\ varlike_id x = true) <-> exists name i, In (name, i) (nterms l) /\ x = term_text name i.
Proof.
  induction l as [|t l IH]; intros pw k H x.
  - split; [intros [[] _]|intros (? & ? & [] & _)].
  - cbn [nwf_k] in H. apply andb_true_iff in H as [Ht Hr]. specialize (IH _ _ Hr x).
    destruct t as [name i|name|kw|body|c]; cbn [nids nterms In].
    + split.
      * intros [[E|Hin] Hv]; [exists name, i; split; [left; reflexivity|symmetry; exact E]|].
        destruct (proj1 IH (conj Hin Hv)) as (n' & i' & Hin' & E). exists n', i'. split; [right; exact Hin'|exact E].
      * intros (n' & i' & [E|Hin] & ->).
        { inversion E; subst. split; [left; reflexivity|]. apply (varlike_tok pw (NTerm n' i') _ Ht eq_refl). }
        destruct (proj2 IH (ex_intro _ n' (ex_intro _ i' (conj Hin eq_refl)))) as [Hi Hv]. split; [right; exact Hi|exact Hv].
    + pose proof (varlike_tok pw (NFunc name) _ Ht eq_refl) as V. cbn [ntok_text] in *. split.
      * intros [[E|Hin] Hv]; [subst x; congruence|]. apply IH. auto.
      * intros Hx. apply IH in Hx as [Hi Hv]. auto.
    + pose proof (varlike_tok pw (NKw kw) _ Ht eq_refl) as V. cbn [ntok_text] in *. split.
      * intros [[E|Hin] Hv]; [subst x; congruence|]. apply IH. auto.
      * intros Hx. apply IH in Hx as [Hi Hv]. auto.
    + pose proof (varlike_tok pw (NVerb body) _ Ht eq_refl) as V. cbn [ntok_text] in *. split.
      * intros [[E|Hin] Hv]; [subst x; congruence|]. apply IH. auto.
      * intros Hx. apply IH in Hx as [Hi Hv]. auto.
    + exact IH.
Qed.
