(* GraphTokWf.v — source statements with ANY runs of blanks: the normalised equation the parser produces is well formed.

   GraphSrcWf.src_to_norm needs the statement to be in normal spacing already (dq_ok).  Here the blank runs are arbitrary
   (dq_ok_ws): the parser's normaliser acts on the token list as DenormFacts.nrm (collapse blank runs, drop blanks after "("
   and before ")"), and we show that nrm keeps a token list lexable token by token.  The argument is on token lists only:
     twf          well-formedness stated on the TOKENS that follow a token (not on the text that follows it)
     src_twf      dwf_k /\ sep_ok  ->  twf              (source spelling, any layout of the terms)
     tws_twf, topen_twf, tclose_twf, nrm_twf            the three passes of the normaliser keep twf
     twf_nwf      twf -> nwf_k                          (normalised spelling)
   hence  dq_ok_ws lay q /\ sep_ok (nrhs q)  ->  neq_wf (nrm_q q)  and  neq_text (nrm_q q) is the equation text produced. *)
From Coq Require Import String Ascii List Bool Arith Lia ZArith.
Import ListNotations.
Require Import Generated PyBase PyStr Lex Symbols Merge ParseEq GLex GLexFacts GNorm GNormFacts GraphEvalWf Denorm DenormInt DenormLex DenormFacts GraphSrcWf.
Open Scope string_scope.

(* ================================================================== token-level well-formedness *)
(* the first token that is not a blank *)
Definition nbh (l : list ntok) : option ntok := match skip_blank_toks l with y :: _ => Some y | [] => None end.
Definition follows_open (r : list ntok) : bool := match r with NChr c :: _ => Ascii.eqb c "(" | _ => false end.
Definition follows_nonword (r : list ntok) : bool :=
  match r with [] => true | NChr c :: _ => negb (is_word c) | NVerb _ :: _ => true | _ => false end.
Definition nb_not_bracket (r : list ntok) : bool := match nbh r with Some (NChr c) => negb (Ascii.eqb c "[") | _ => true end.
Definition nb_not_kw (r : list ntok) : bool := match nbh r with Some y => negb (is_kw_tok y) | None => true end.

Definition tok_cond (pw : bool) (x : ntok) (r : list ntok) : bool :=
  match x with
  | NFunc name => is_fname name && kw_free name && follows_open r
  | NKw k => mem_string k KW && negb pw && follows_nonword r && nb_not_bracket r
  | NChr c => inert c || (Ascii.eqb c "<" && nb_not_kw r)
  | _ => ntok_ok pw x ""
  end.
Fixpoint twf (pw : bool) (l : list ntok) : bool :=
  match l with [] => true | x :: r => tok_cond pw x r && twf (last_word pw (ntok_text x)) r end.

Lemma space_not_word : forall c, is_space c = true -> negb (is_word c) = true.
Proof. sweep. Qed.
Lemma space_word_false c : is_space c = true -> is_word c = false.
Proof. intros H. apply negb_true_iff. apply space_not_word, H. Qed.

Lemma nbh_cons x r : nbh (x :: r) = if is_blank_tok x then nbh r else Some x.
Proof. unfold nbh. cbn [skip_blank_toks]. destruct (is_blank_tok x); reflexivity. Qed.

Lemma skip_blank_head r : forall y r', skip_blank_toks r = y :: r' -> is_blank_tok y = false.
Proof.
  induction r as [|z r0 IH]; intros y r' Er; [discriminate|]. cbn [skip_blank_toks] in Er.
  destruct (is_blank_tok z) eqn:E; [apply (IH _ _ Er)|inversion Er; subst; exact E].
Qed.
Lemma skip_blank_In r : forall x, In x (skip_blank_toks r) -> In x r.
Proof.
  induction r as [|y r' IH]; [intros x []|]. intros x Hx. cbn [skip_blank_toks] in Hx.
  destruct (is_blank_tok y); [right; apply IH, Hx|exact Hx].
Qed.

Lemma twf_chr_pw c r pw pw' : twf pw (NChr c :: r) = twf pw' (NChr c :: r).
Proof. reflexivity. Qed.

Lemma tok_cond_pass pw x r r' :
  nbh r' = nbh r -> (follows_open r = true -> follows_open r' = true) -> (follows_nonword r = true -> follows_nonword r' = true) ->
  tok_cond pw x r = true -> tok_cond pw x r' = true.
Proof.
  intros Hn Ho Hw. destruct x as [name i|name|k|body|c]; cbn [tok_cond]; unfold nb_not_bracket, nb_not_kw; rewrite ?Hn; intros H.
  - exact H.
  - apply andb_true_iff in H as [H1 H2]. rewrite H1, (Ho H2). reflexivity.
  - apply andb_true_iff in H as [H H4]. apply andb_true_iff in H as [H H3]. rewrite H, (Hw H3). cbn [andb]. exact H4.
  - exact H.
  - exact H.
Qed.
Lemma tok_cond_chr pw c r r' : nbh r' = nbh r -> tok_cond pw (NChr c) r = true -> tok_cond pw (NChr c) r' = true.
Proof. intros Hn. cbn [tok_cond]. unfold nb_not_kw. rewrite Hn. intros H; exact H. Qed.

(* ================================================================== the three passes keep the first non-blank token *)
Lemma nbh_tws l : forall f, nbh (tws f l) = nbh l.
Proof.
  induction l as [|x l IH]; intros f; [reflexivity|].
  destruct x as [name i|name|k|body|c]; cbn [tws]; rewrite ?nbh_cons; cbn [is_blank_tok]; try reflexivity.
  destruct (is_space c) eqn:E.
  - destruct f; [apply IH|]. rewrite nbh_cons. cbn [is_blank_tok]. replace (is_space " ") with true by (vm_compute; reflexivity). apply IH.
  - rewrite nbh_cons. cbn [is_blank_tok]. rewrite E. reflexivity.
Qed.
Lemma nbh_topen l : forall f, nbh (topen f l) = nbh l.
Proof.
  induction l as [|x l IH]; intros f; [reflexivity|].
  destruct x as [name i|name|k|body|c]; cbn [topen]; rewrite ?nbh_cons; cbn [is_blank_tok]; try reflexivity.
  destruct (is_space c) eqn:E.
  - destruct f; cbn [andb]; [apply IH|]. rewrite nbh_cons. cbn [is_blank_tok]. rewrite E. apply IH.
  - rewrite andb_false_r. rewrite nbh_cons. cbn [is_blank_tok]. rewrite E. reflexivity.
Qed.
Lemma nbh_tclose l : nbh (tclose l) = nbh l.
Proof.
  induction l as [|x l IH]; [reflexivity|].
  destruct x as [name i|name|k|body|c]; cbn [tclose]; rewrite ?nbh_cons; cbn [is_blank_tok]; try reflexivity.
  destruct (is_space c) eqn:E; cbn [andb].
  - destruct (starts_close (tclose l)); [exact IH|]. rewrite nbh_cons. cbn [is_blank_tok]. rewrite E. exact IH.
  - rewrite nbh_cons. cbn [is_blank_tok]. rewrite E. reflexivity.
Qed.

Lemma fo_tws r : follows_open r = true -> follows_open (tws false r) = true.
Proof. destruct r as [|[name i|name|k|body|c] r]; try discriminate. cbn [follows_open]. intros H. apply Ascii.eqb_eq in H. subst c. reflexivity. Qed.
Lemma fnw_tws r : follows_nonword r = true -> follows_nonword (tws false r) = true.
Proof.
  destruct r as [|[name i|name|k|body|c] r]; cbn [follows_nonword tws]; intros H; try discriminate; try reflexivity.
  destruct (is_space c); cbn [follows_nonword]; [reflexivity|exact H].
Qed.
Lemma fo_topen r f : follows_open r = true -> follows_open (topen f r) = true.
Proof. destruct r as [|[name i|name|k|body|c] r]; try discriminate. cbn [follows_open]. intros H. apply Ascii.eqb_eq in H. subst c. destruct f; reflexivity. Qed.
Lemma fnw_topen r : follows_nonword r = true -> follows_nonword (topen false r) = true.
Proof. destruct r as [|[name i|name|k|body|c] r]; cbn [follows_nonword topen andb]; intros H; try discriminate; try reflexivity. exact H. Qed.
Lemma fo_tclose r : follows_open r = true -> follows_open (tclose r) = true.
Proof. destruct r as [|[name i|name|k|body|c] r]; try discriminate. cbn [follows_open]. intros H. apply Ascii.eqb_eq in H. subst c. reflexivity. Qed.
Lemma fnw_tclose r : follows_nonword r = true -> follows_nonword (tclose r) = true.
Proof.
  destruct r as [|[name i|name|k|body|c] r]; cbn [follows_nonword tclose]; intros H; try discriminate; try reflexivity.
  destruct (is_space c); cbn [andb]; [|cbn [follows_nonword]; exact H].
  destruct (starts_close (tclose r)) eqn:S; [|cbn [follows_nonword]; exact H].
  destruct (tclose r) as [|[| | | |d] t]; try discriminate S. cbn [starts_close] in S. apply Ascii.eqb_eq in S. subst d. reflexivity.
Qed.

(* ================================================================== the three passes keep twf *)
Lemma tws_twf l : forall f pw, (f = true -> pw = false) -> twf pw l = true -> twf pw (tws f l) = true.
Proof.
  induction l as [|x l IH]; intros f pw Hf H; [reflexivity|].
  cbn [twf] in H. apply andb_true_iff in H as [Hx Hl].
  assert (STEP : is_blank_tok x = false -> twf pw (x :: tws false l) = true).
  { intros _. cbn [twf]. apply andb_true_intro. split.
    - apply (tok_cond_pass pw x l (tws false l) (nbh_tws l false) (fo_tws l) (fnw_tws l) Hx).
    - apply IH; [intros D; discriminate D|exact Hl]. }
  destruct x as [name i|name|k|body|c]; cbn [tws]; try (apply STEP; reflexivity).
  destruct (is_space c) eqn:E; [|apply STEP; exact E].
  assert (E2 : last_word pw (ntok_text (NChr c)) = false) by (cbn [ntok_text last_word]; apply space_word_false, E).
  rewrite E2 in Hl. destruct f.
  - change (twf pw (tws true l) = true). rewrite (Hf eq_refl). apply IH; [reflexivity|exact Hl].
  - change (twf pw (NChr " " :: tws true l) = true). cbn [twf]. apply andb_true_intro. split; [reflexivity|].
    assert (E1 : last_word pw (ntok_text (NChr " ")) = false) by reflexivity. rewrite E1. apply IH; [reflexivity|exact Hl].
Qed.

Lemma topen_twf l : forall f pw, (f = true -> pw = false) -> twf pw l = true -> twf pw (topen f l) = true.
Proof.
  induction l as [|x l IH]; intros f pw Hf H; [reflexivity|].
  cbn [twf] in H. apply andb_true_iff in H as [Hx Hl].
  assert (STEP : is_blank_tok x = false -> twf pw (x :: topen false l) = true).
  { intros _. cbn [twf]. apply andb_true_intro. split.
    - apply (tok_cond_pass pw x l (topen false l) (nbh_topen l false) (fo_topen l false) (fnw_topen l) Hx).
    - apply IH; [intros D; discriminate D|exact Hl]. }
  destruct x as [name i|name|k|body|c]; cbn [topen]; try (apply STEP; reflexivity).
  destruct (f && is_space c) eqn:E.
  - change (twf pw (topen true l) = true). apply andb_true_iff in E as [Ef Es]. subst f.
    assert (E2 : last_word pw (ntok_text (NChr c)) = false) by (cbn [ntok_text last_word]; apply space_word_false, Es).
    rewrite E2 in Hl. rewrite (Hf eq_refl). apply IH; [reflexivity|exact Hl].
  - change (twf pw (NChr c :: topen (Ascii.eqb c "(") l) = true). cbn [twf]. apply andb_true_intro. split.
    + apply (tok_cond_chr pw c l _ (nbh_topen l _) Hx).
    + apply IH; [|exact Hl]. intros Ec. apply Ascii.eqb_eq in Ec. subst c. reflexivity.
Qed.

Lemma tclose_twf l : forall pw, twf pw l = true -> twf pw (tclose l) = true.
Proof.
  induction l as [|x l IH]; intros pw H; [reflexivity|].
  cbn [twf] in H. apply andb_true_iff in H as [Hx Hl].
  assert (STEP : is_blank_tok x = false -> twf pw (x :: tclose l) = true).
  { intros _. cbn [twf]. apply andb_true_intro. split.
    - apply (tok_cond_pass pw x l (tclose l) (nbh_tclose l) (fo_tclose l) (fnw_tclose l) Hx).
    - apply IH; exact Hl. }
  destruct x as [name i|name|k|body|c]; cbn [tclose]; try (apply STEP; reflexivity).
  destruct (is_space c && starts_close (tclose l)) eqn:E.
  - change (twf pw (tclose l) = true). apply andb_true_iff in E as [Es Sc]. pose proof (IH _ Hl) as T.
    destruct (tclose l) as [|[| | | |d] t]; try discriminate Sc. rewrite (twf_chr_pw d t pw (last_word pw (ntok_text (NChr c)))). exact T.
  - change (twf pw (NChr c :: tclose l) = true). cbn [twf]. apply andb_true_intro. split.
    + apply (tok_cond_chr pw c l _ (nbh_tclose l) Hx).
    + apply IH; exact Hl.
Qed.

Theorem nrm_twf l pw : twf pw l = true -> twf pw (nrm l) = true.
Proof.
  intros H. unfold nrm. apply tclose_twf. apply topen_twf; [intros D; discriminate D|]. apply tws_twf; [intros D; discriminate D|exact H].
Qed.

(* ================================================================== source spelling -> twf *)
Lemma alpha_not_open_head c s : is_alpha_ c = true -> head_is "(" (String c s) = false.
Proof.
  intros Hc. cbn [head_is]. pose proof (fnc_not_open c (idc_fnc _ (alpha_idc _ Hc))) as O. apply andb_true_iff in O as [_ O].
  apply negb_true_iff in O. exact O.
Qed.

Lemma norm_follows_open r : (forall x, In x r -> good x) -> head_is "(" (nflat r) = true -> follows_open r = true.
Proof.
  intros Hg. destruct r as [|x r]; [discriminate|]. pose proof (Hg x (or_introl eq_refl)) as G.
  destruct x as [name i|name|kw|body|c]; cbn [good nflat ntok_text follows_open] in *.
  - destruct (ident_nonempty _ G) as (c & r0 & -> & Hc & _). unfold term_text. cbn [append]. rewrite (alpha_not_open_head c _ Hc). intros D; discriminate D.
  - destruct (fname_nonempty _ G) as (c & r0 & -> & Hc & _). cbn [append]. rewrite (alpha_not_open_head c _ Hc). intros D; discriminate D.
  - destruct (KW_idc kw G) as [Ha _]. destruct kw as [|c r0]; [discriminate|]. cbn [head_sat] in Ha. cbn [append]. rewrite (alpha_not_open_head c _ Ha). intros D; discriminate D.
  - cbn [append head_is]. intros D; discriminate D.
  - cbn [append head_is]. intros H; exact H.
Qed.

Lemma norm_follows_nonword r : (forall x, In x r -> good x) -> head_not is_word (nflat r) = true -> follows_nonword r = true.
Proof.
  intros Hg. destruct r as [|x r]; [reflexivity|]. pose proof (Hg x (or_introl eq_refl)) as G.
  destruct x as [name i|name|kw|body|c]; cbn [good nflat ntok_text follows_nonword] in *.
  - unfold term_text. rewrite !sapp_assoc. rewrite (name_head_word name _ G). intros D; discriminate D.
  - destruct (fname_nonempty _ G) as (c & r0 & -> & Hc & _). cbn [append head_not]. rewrite (idc_word c (alpha_idc c Hc)). intros D; discriminate D.
  - destruct (KW_idc kw G) as [Ha _]. destruct kw as [|c r0]; [discriminate|]. cbn [head_sat] in Ha. cbn [append head_not]. rewrite (idc_word c (alpha_idc c Ha)). intros D; discriminate D.
  - reflexivity.
  - cbn [append head_not]. intros H; exact H.
Qed.

Lemma norm_nb_not_bracket r : negb (head_is "[" (skip_ws (nflat r))) = true -> nb_not_bracket r = true.
Proof.
  intros H. rewrite <- (sapp_nil_r (nflat r)) in H.
  rewrite (skip_ws_blank_toks nflat ntok_text (fun x r0 => eq_refl) (fun c => eq_refl) r "") in H.
  unfold nb_not_bracket, nbh. destruct (skip_blank_toks r) as [|y r'] eqn:Er; [reflexivity|].
  pose proof (skip_blank_head r y r' Er) as Hnb. destruct y as [name i|name|kw|body|c]; try reflexivity.
  cbn [is_blank_tok] in Hnb. cbn [nflat ntok_text append] in H. unfold skip_ws in H. cbn [span_while] in H. rewrite Hnb in H. cbn [snd head_is] in H. exact H.
Qed.

Theorem src_twf lay l : forall pw pw', (pw' = true -> pw = true) ->
  sep_ok lay l = true -> dwf_k lay pw l "" = true -> twf pw' l = true.
Proof.
  induction l as [|x r IH]; intros pw pw' Hpw Hsep Hd; [reflexivity|].
  cbn [Denorm.dwf_k] in Hd. apply andb_true_iff in Hd as [Hx Hr]. cbn [sep_ok] in Hsep. apply andb_true_iff in Hsep as [Hsx Hsr].
  pose proof (dwf_good lay r _ _ Hr) as Gr. rewrite sapp_nil_r in Hx. cbn [twf].
  apply andb_true_intro. split.
  - destruct x as [name i|name|kw|body|c]; cbn [Denorm.dtok_ok ntok_ok tok_cond] in *.
    + apply andb_true_iff in Hx as [Hx Hq]. apply andb_true_iff in Hx as [Hx Hix]. apply andb_true_iff in Hx as [Hid _].
      rewrite Hid, Hsx. cbn [andb]. destruct i as [z|s0]; [apply idx_ok_int|]. cbn [idx_body].
      destruct (lindex (lay name (IStr s0))) as [[[w1 w2] plus]|]; cbn [index_ok ibody] in Hix.
      * apply andb_true_iff in Hix as [Hix _]. apply andb_true_iff in Hix as [Hix _]. exact Hix.
      * discriminate.
    + apply andb_true_iff in Hx as [Hx Ho]. rewrite Hx. cbn [andb]. apply (norm_follows_open r Gr).
      rewrite <- (sapp_nil_r (nflat r)). apply (head_open_same lay r "" Gr). rewrite sapp_nil_r. exact Ho.
    + apply andb_true_iff in Hx as [Hx Hb]. apply andb_true_iff in Hx as [Hx Hw]. apply andb_true_iff in Hx as [Hm Hp].
      rewrite Hm. apply negb_true_iff in Hp. assert (Hp' : pw' = false) by (destruct pw'; [specialize (Hpw eq_refl); congruence|reflexivity]).
      rewrite Hp'. cbn [negb andb].
      assert (Hst : match r with y :: _ => styled lay y = false | [] => True end) by (destruct r as [|y r']; [exact I|apply negb_true_iff; exact Hsx]).
      rewrite <- (sapp_nil_r (dflat lay r)) in Hw, Hb.
      destruct (kw_follow_same lay r "" Hsr Gr Hst Hw Hb) as [A B]. rewrite sapp_nil_r in A, B.
      rewrite (norm_follows_nonword r Gr A), (norm_nb_not_bracket r B). reflexivity.
    + exact Hx.
    + apply orb_true_iff in Hx as [Hx|Hx]; [rewrite Hx; reflexivity|]. apply andb_true_iff in Hx as [Hc _]. rewrite Hc in *. cbn [andb].
      apply orb_true_iff. right. unfold nb_not_kw, nbh. destruct (skip_blank_toks r); exact Hsx.
  - apply (IH (last_word pw (dtext lay x)) (last_word pw' (ntok_text x))); [|exact Hsr|exact Hr].
    destruct x as [name i|name|kw|body|c]; cbn [Denorm.dtext ntok_text].
    + rewrite last_word_term. discriminate.
    + pose proof (dtok_good lay pw _ _ Hx) as G. cbn [good] in G. destruct (fname_nonempty _ G) as (c & r0 & -> & _ & _). intros H. exact H.
    + pose proof (dtok_good lay pw _ _ Hx) as G. cbn [good] in G. destruct (KW_idc kw G) as [Ha _]. destruct kw; [discriminate|]. intros H; exact H.
    + intros H; exact H.
    + intros H; exact H.
Qed.

(* ================================================================== twf -> nwf (normalised spelling) *)
Lemma tok_cond_good pw x r : tok_cond pw x r = true -> good x.
Proof.
  destruct x as [name i|name|k|body|c]; cbn [tok_cond ntok_ok good]; intros H.
  - apply andb_true_iff in H as [H _]. apply andb_true_iff in H as [H _]. exact H.
  - apply andb_true_iff in H as [H _]. apply andb_true_iff in H as [H _]. exact H.
  - apply andb_true_iff in H as [H _]. apply andb_true_iff in H as [H _]. apply andb_true_iff in H as [H _]. apply mem_string_In in H. exact H.
  - exact I.
  - apply orb_true_iff in H as [H|H]; [left; exact H|]. apply andb_true_iff in H as [H _]. apply Ascii.eqb_eq in H. right. exact H.
Qed.
Lemma twf_good l : forall pw, twf pw l = true -> forall x, In x l -> good x.
Proof.
  induction l as [|y l IH]; intros pw H x Hin; [destruct Hin|]. cbn [twf] in H. apply andb_true_iff in H as [Hy Hl].
  destruct Hin as [<-|Hin]; [apply (tok_cond_good pw y l Hy)|apply (IH _ Hl x Hin)].
Qed.
Lemma twf_skip_blanks r : forall pw, twf pw r = true -> exists pw2, twf pw2 (skip_blank_toks r) = true.
Proof.
  induction r as [|x r IH]; intros pw H; [exists pw; exact H|]. cbn [skip_blank_toks]. destruct (is_blank_tok x); [|exists pw; exact H].
  cbn [twf] in H. apply andb_true_iff in H as [_ Hr]. apply (IH _ Hr).
Qed.

Lemma fo_head r : follows_open r = true -> head_is "(" (nflat r) = true.
Proof. destruct r as [|[name i|name|k|body|c] r]; try discriminate. cbn [follows_open nflat ntok_text append head_is]. intros H; exact H. Qed.
Lemma fnw_head r : follows_nonword r = true -> head_not is_word (nflat r) = true.
Proof.
  destruct r as [|[name i|name|k|body|c] r]; cbn [follows_nonword]; intros H; try discriminate; try reflexivity.
  cbn [nflat ntok_text append head_not]. exact H.
Qed.
Lemma nbb_head r : (forall x, In x r -> good x) -> nb_not_bracket r = true -> negb (head_is "[" (skip_ws (nflat r))) = true.
Proof.
  intros Hid H. rewrite <- (sapp_nil_r (nflat r)).
  rewrite (skip_ws_blank_toks nflat ntok_text (fun x r0 => eq_refl) (fun c => eq_refl) r "").
  unfold nb_not_bracket, nbh in H. destruct (skip_blank_toks r) as [|y r'] eqn:Er; [reflexivity|].
  pose proof (skip_blank_head r y r' Er) as Hnb.
  assert (Gy : good y) by (apply Hid, skip_blank_In; rewrite Er; left; reflexivity).
  destruct y as [name i|name|kw|body|c]; cbn [nflat ntok_text good] in *.
  - destruct (ident_nonempty _ Gy) as (c & r0 & -> & Hc & _).
    unfold term_text. cbn [append]. unfold skip_ws. cbn [span_while].
    pose proof (fnc_not_space c (idc_fnc _ (alpha_idc _ Hc))) as S. apply negb_true_iff in S. rewrite S. cbn [snd head_is].
    pose proof (fnc_not_open c (idc_fnc _ (alpha_idc _ Hc))) as O. apply andb_true_iff in O as [O _]. exact O.
  - destruct (fname_nonempty _ Gy) as (c & r0 & -> & Hc & _).
    cbn [append]. unfold skip_ws. cbn [span_while].
    pose proof (fnc_not_space c (idc_fnc _ (alpha_idc _ Hc))) as S. apply negb_true_iff in S. rewrite S. cbn [snd head_is].
    pose proof (fnc_not_open c (idc_fnc _ (alpha_idc _ Hc))) as O. apply andb_true_iff in O as [O _]. exact O.
  - destruct (KW_idc kw Gy) as [Ha _]. destruct kw as [|c r0]; [discriminate|]. cbn [head_sat] in Ha.
    cbn [append]. unfold skip_ws. cbn [span_while].
    pose proof (fnc_not_space c (idc_fnc _ (alpha_idc _ Ha))) as S. apply negb_true_iff in S. rewrite S. cbn [snd head_is].
    pose proof (fnc_not_open c (idc_fnc _ (alpha_idc _ Ha))) as O. apply andb_true_iff in O as [O _]. exact O.
  - cbn [append]. unfold skip_ws. cbn [span_while]. replace (is_space "`") with false by (vm_compute; reflexivity). reflexivity.
  - cbn [is_blank_tok] in Hnb. cbn [append]. unfold skip_ws. cbn [span_while]. rewrite Hnb. cbn [snd head_is]. exact H.
Qed.

Theorem twf_nwf l : forall pw, twf pw l = true -> nwf_k pw l "" = true.
Proof.
  induction l as [|x r IH]; intros pw H; [reflexivity|].
  cbn [twf] in H. apply andb_true_iff in H as [Hx Hr]. pose proof (twf_good r _ Hr) as Gr.
  cbn [nwf_k]. rewrite sapp_nil_r. apply andb_true_intro. split; [|apply IH, Hr].
  destruct x as [name i|name|kw|body|c]; cbn [tok_cond ntok_ok] in *.
  - exact Hx.
  - apply andb_true_iff in Hx as [Hx Ho]. rewrite Hx, (fo_head r Ho). reflexivity.
  - apply andb_true_iff in Hx as [Hx Hb]. apply andb_true_iff in Hx as [Hx Hw]. rewrite Hx, (fnw_head r Hw), (nbb_head r Gr Hb). reflexivity.
  - exact Hx.
  - apply orb_true_iff in Hx as [Hx|Hx]; [rewrite Hx; reflexivity|]. apply andb_true_iff in Hx as [Hc Hk]. rewrite Hc. cbn [andb].
    apply orb_true_iff. right. rewrite <- (sapp_nil_r (nflat r)). apply (lt_ok_norm r "" Gr).
    + unfold nb_not_kw, nbh in Hk. destruct (skip_blank_toks r) as [|y r']; [reflexivity|]. apply negb_true_iff. exact Hk.
    + destruct (twf_skip_blanks r _ Hr) as (pw2 & Hsk). destruct (skip_blank_toks r) as [|[| name | | |] r'] eqn:Er; try exact I.
      cbn [twf tok_cond] in Hsk. apply andb_true_iff in Hsk as [Hf _]. apply andb_true_iff in Hf as [_ Ho].
      rewrite sapp_nil_r. apply (fo_head r' Ho).
Qed.

(* ================================================================== the statement-level theorem *)
Theorem src_to_norm_ws lay l : sep_ok lay l = true -> dwf_k lay false l "" = true -> nwf (nrm l) = true.
Proof. intros Hs Hd. unfold nwf. apply twf_nwf, nrm_twf. apply (src_twf lay l false false (fun E => E) Hs Hd). Qed.

(* the normaliser works on the two sides separately *)
Lemma tws_whole l r : forall f, tws f (l ++ NChr "=" :: r) = (tws f l ++ NChr "=" :: tws false r)%list.
Proof.
  induction l as [|x l IH]; intros f; [reflexivity|]. destruct x as [name i|name|k|body|c]; cbn [app tws]; rewrite ?IH; try reflexivity.
  destruct (is_space c); [destruct f|]; cbn [app]; rewrite ?IH; reflexivity.
Qed.
Lemma topen_whole l r : forall f, topen f (l ++ NChr "=" :: r) = (topen f l ++ NChr "=" :: topen false r)%list.
Proof.
  induction l as [|x l IH]; intros f.
  - cbn [app topen]. replace (is_space "=") with false by (vm_compute; reflexivity). rewrite andb_false_r. reflexivity.
  - destruct x as [name i|name|k|body|c]; cbn [app topen]; rewrite ?IH; try reflexivity.
    destruct (f && is_space c); cbn [app]; rewrite ?IH; reflexivity.
Qed.
Lemma starts_close_whole a X : starts_close (a ++ NChr "=" :: X) = starts_close a.
Proof. destruct a as [|x a]; reflexivity. Qed.
Lemma tclose_whole l r : tclose (l ++ NChr "=" :: r) = (tclose l ++ NChr "=" :: tclose r)%list.
Proof.
  induction l as [|x l IH]; [reflexivity|]. destruct x as [name i|name|k|body|c]; cbn [app tclose]; rewrite ?IH; try reflexivity.
  rewrite starts_close_whole. destruct (is_space c && starts_close (tclose l)); reflexivity.
Qed.
Lemma nrm_whole l r : nrm (l ++ NChr "=" :: r) = (nrm l ++ NChr "=" :: nrm r)%list.
Proof. unfold nrm. rewrite tws_whole, topen_whole, tclose_whole. reflexivity. Qed.

Definition nrm_q (q : neq) : neq := mkNeq (nrm (nlhs q)) (nrm (nrhs q)).

Lemma nrm_q_text q : neq_text (nrm_q q) = nflat (nrm (whole_toks q)).
Proof. unfold neq_text, nrm_q, whole_toks. cbn [nlhs nrhs]. rewrite nrm_whole, nflat_app. reflexivity. Qed.

Lemma tws_blanks ws : forallb (fun x => match x with NChr c => is_space c | _ => false end) ws = true -> tws true ws = [].
Proof.
  induction ws as [|x l IH]; [reflexivity|]. cbn [forallb]. intros H. apply andb_true_iff in H as [Hx Hl].
  destruct x as [| | | |c]; try discriminate. cbn [tws]. rewrite Hx. apply IH, Hl.
Qed.
Lemma nrm_lhs y i ws : forallb (fun x => match x with NChr c => is_space c | _ => false end) ws = true ->
  nrm (NTerm y i :: ws) = NTerm y i :: match ws with [] => [] | _ => [NChr " "] end.
Proof.
  intros H. unfold nrm. cbn [tws]. destruct ws as [|x l]; [reflexivity|].
  cbn [forallb] in H. apply andb_true_iff in H as [Hx Hl]. destruct x as [| | | |c]; try discriminate.
  cbn [tws]. rewrite Hx, (tws_blanks l Hl). reflexivity.
Qed.

(* a source statement under dq_ok_ws (any runs of blanks, continuation lines) whose right-hand side is separated:
   the normalised equation the parser produces is well formed *)
Theorem dq_ok_ws_neq_wf lay q : dq_ok_ws lay q = true -> sep_ok lay (nrhs q) = true -> neq_wf (nrm_q q) = true.
Proof.
  intros H Hsep. destruct q as [l r]. destruct l as [|[y [ky|s]| | | |] ws]; try discriminate.
  destruct (dq_ok_ws_parts lay y ky ws r H) as (Hid & Hkw & _ & _ & Hws & Hrhs & _).
  unfold neq_wf, nrm_q. cbn [nlhs nrhs]. rewrite (nrm_lhs y (IInt ky) ws Hws).
  apply andb_true_intro. split; [apply andb_true_intro; split|].
  - unfold nwf. cbn [nwf_k ntok_ok]. rewrite Hid, Hkw, idx_ok_int. cbn [andb]. destruct ws; reflexivity.
  - apply (src_to_norm_ws lay r Hsep Hrhs).
  - cbn [nflat ntok_text]. unfold term_text. rewrite !has_char_app.
    destruct (ident_nonempty _ Hid) as (c & r0 & _ & _ & Hall).
    rewrite (all_chars_no_char is_idc "=" y eq_refl Hall), (idxc_no "=" _ eq_refl (idx_body_chars ky)). destruct ws; reflexivity.
Qed.

(* what the parser does with such a statement, in terms of nrm_q: the equation text stored is neq_text (nrm_q q) *)
Theorem parse_denorm_nrm_q lay q :
  dq_ok_ws lay q = true ->
  parse_equation_M (denorm_text lay q)
  = of_outcome (equation_symbols (neq_text (nrm_q q)) (cflat (nrm (whole_toks q))) (lneq_terms lay q)).
Proof. intros H. rewrite nrm_q_text. apply (parse_denorm_general lay q H). Qed.

(* both facts together: whatever the layout, what the parser stores is the text of a well-formed normalised equation *)
Theorem normal_form_wellformed lay q :
  dq_ok_ws lay q = true -> sep_ok lay (nrhs q) = true ->
  neq_wf (nrm_q q) = true /\
  parse_equation_M (denorm_text lay q)
  = of_outcome (equation_symbols (neq_text (nrm_q q)) (cflat (nrm (whole_toks q))) (lneq_terms lay q)).
Proof. intros H Hs. split; [apply (dq_ok_ws_neq_wf lay q H Hs)|apply (parse_denorm_nrm_q lay q H)]. Qed.
