(* GraphEvalFacts.v — the graph of a program against the evaluation semantics (Eval.eval_expr), for ALL programs:
     rstmt_lhs_ids / rexpr_terms   the ids of a rendered statement are its assigned term and exactly its read terms
     program_edges                 variable-like edge  x' -> n'  iff some statement assigns n' and reads x'
     no_edge_no_influence          two stores that agree on the cells of the in-edges of y give the same value, the same
                                   exception and the same access log when y's expression is evaluated
     unlinked_cell_no_influence    overwriting a cell of a series that has no edge into y changes nothing
     edge_is_read                  every in-edge term is read whenever a conditional-free expression evaluates to a value
     rexpr_nwf / rstmt_wf          the rendering of every statement is a well-formed normalised equation (names are
                                   identifiers that are not keywords, numerals contain no letter, "=", "<", "{" or backtick) *)
From Coq Require Import String Ascii List Bool Arith Lia ZArith.
Import ListNotations.
Require Import Generated PyBase PyStr Lex Symbols Merge ParseEq GLex GLexFacts GNorm GNormFacts Graph GraphFacts GraphTheorems.
Require Import Solver Eval EvalFacts EvalDeps.
Open Scope string_scope.

Section GraphEval.
  Variable num : Type.
  Variable vname : nat -> string.
  Variable show : num -> string.
  Variable f1name f2name : nat -> string.
  Notation rexpr := (rexpr num vname show f1name f2name).
  Notation rstmt := (rstmt num vname show f1name f2name).
  Definition tt (x : nat) (k : Z) : string := term_text (vname x) (IInt k).
  Definition prog_graph (prog : list (stmt num)) : graph := graph_of (map rstmt prog).

  (* ---------------------------------------------------------------- ids of a rendered statement *)
  Lemma nterms_nchars s : nterms (nchars s) = [].
  Proof. unfold nchars. induction (list_ascii_of_string s) as [|c l IH]; [reflexivity|exact IH]. Qed.
  Lemma nids_nchars s : nids (nchars s) = [].
  Proof. unfold nchars. induction (list_ascii_of_string s) as [|c l IH]; [reflexivity|exact IH]. Qed.

  Definition read_term (xk : nat * Z) : string * pidx := (vname (fst xk), IInt (snd xk)).

  Lemma rexpr_terms (e : expr num) p : In p (nterms (rexpr e)) <-> In p (map read_term (expr_reads num e)).
  Proof.
    induction e as [x|x k|a IHa|a IHa|o a IHa b IHb|a IHa b IHb|a IHa b IHb|o l IHl r IHr a IHa b IHb|f a IHa|f a IHa b IHb];
      cbn [GNorm.rexpr expr_reads]; repeat rewrite ?nterms_app, ?nterms_nchars, ?map_app, ?in_app_iff; cbn [nterms In map];
      rewrite ?IHa, ?IHb, ?IHl, ?IHr; unfold read_term; cbn [fst snd]; tauto.
  Qed.

  Lemma rstmt_lhs_ids y k e : nids (nlhs (rstmt (SAssign y k e))) = [tt y k].
  Proof. cbn [GNorm.rstmt nlhs nids]. rewrite nids_nchars. reflexivity. Qed.
  Lemma rstmt_rhs_terms y k e p : In p (nterms (nrhs (rstmt (SAssign y k e)))) <-> In p (map read_term (expr_reads num e)).
  Proof. cbn [GNorm.rstmt nrhs]. rewrite nterms_app, nterms_nchars. apply rexpr_terms. Qed.

  (* ---------------------------------------------------------------- edges of a program *)
  Theorem program_edges (prog : list (stmt num)) x' n' :
    forallb neq_wf (map rstmt prog) = true ->
    (is_edge (prog_graph prog) x' n' = true /\ varlike_id x' = true)
    <-> exists y ky e x k, In (SAssign y ky e) prog /\ In (x, k) (expr_reads num e) /\ n' = tt y ky /\ x' = tt x k.
  Proof.
    intros Hw. unfold prog_graph. rewrite (varlike_edges_exact _ x' n' Hw). split.
    - intros (q & name & i & Hq & Hn & Hin & E). apply in_map_iff in Hq as ([y ky e] & <- & Hs).
      rewrite rstmt_lhs_ids in Hn. destruct Hn as [Hn|[]]. apply rstmt_rhs_terms in Hin.
      apply in_map_iff in Hin as ([x k] & Er & Hr). unfold read_term in Er. cbn [fst snd] in Er. inversion Er; subst.
      exists y, ky, e, x, k. auto.
    - intros (y & ky & e & x & k & Hs & Hr & -> & ->). exists (rstmt (SAssign y ky e)), (vname x), (IInt k).
      split; [apply in_map; exact Hs|]. split; [rewrite rstmt_lhs_ids; left; reflexivity|].
      split; [|reflexivity]. apply rstmt_rhs_terms. change (vname x, IInt k) with (read_term (x, k)). apply in_map. exact Hr.
  Qed.

  (* every term read by a statement has an edge into the statement's left-hand side *)
  Corollary read_has_edge prog y ky e x k :
    forallb neq_wf (map rstmt prog) = true -> In (SAssign y ky e) prog -> In (x, k) (expr_reads num e) ->
    is_edge (prog_graph prog) (tt x k) (tt y ky) = true.
  Proof.
    intros Hw Hs Hr. apply (proj2 (program_edges prog (tt x k) (tt y ky) Hw)).
    exists y, ky, e, x, k. auto.
  Qed.

  (* ---------------------------------------------------------------- soundness with respect to evaluation *)
  Variables (add sub mul div pow : num -> num -> num) (neg absf : num -> num).
  Variables (ltb leb eqb : num -> num -> bool).
  Variable zero : num.
  Variable fun1 : nat -> num -> num.
  Variable fun2 : nat -> num -> num -> num.
  Variable flagged : list num -> num -> bool.
  Notation eval_expr := (eval_expr num add sub mul div pow neg absf ltb leb eqb zero fun1 fun2 flagged).

  Theorem no_edge_no_influence prog y ky e catch t (v v' : vals num) :
    forallb neq_wf (map rstmt prog) = true -> In (SAssign y ky e) prog ->
    shape v' = shape v ->
    (forall x k q, is_edge (prog_graph prog) (tt x k) (tt y ky) = true ->
                   py_pos (nth x (shape v) 0%nat) (t + k) = Some q -> nth q (nth x v' []) zero = nth q (nth x v []) zero) ->
    eval_expr catch t v' e = eval_expr catch t v e.
  Proof.
    intros Hw Hs Hsh H. apply eval_expr_ext; [exact Hsh|].
    intros x k q Hr Hq. apply (H x k q); [|exact Hq]. apply (read_has_edge prog y ky e x k Hw Hs Hr).
  Qed.

  Corollary unlinked_cell_no_influence prog y ky e catch t (v : vals num) i p z :
    forallb neq_wf (map rstmt prog) = true -> In (SAssign y ky e) prog ->
    (forall k, is_edge (prog_graph prog) (tt i k) (tt y ky) = true -> py_pos (nth i (shape v) 0%nat) (t + k) <> Some p) ->
    eval_expr catch t (set_cell num v i p z) e = eval_expr catch t v e.
  Proof.
    intros Hw Hs H. apply eval_expr_unread_cell. intros k Hr. apply H. apply (read_has_edge prog y ky e i k Hw Hs Hr).
  Qed.

  (* expressions without a conditional *)
  Fixpoint cond_free (e : expr num) : bool :=
    match e with
    | ENum _ | ERead _ _ => true
    | ENeg a | EAbs a | ECall1 _ a => cond_free a
    | EBin _ a b | EMax a b | EMin a b | ECall2 _ a b => cond_free a && cond_free b
    | EIf _ _ _ _ _ => false
    end.

  Lemma reads_logged catch t v (e : expr num) : forall r lg,
    cond_free e = true -> eval_expr catch t v e = (EVal r, lg) ->
    forall x k, In (x, k) (expr_reads num e) -> exists q, In (Acc false x (t + k)%Z (Some q)) lg.
  Proof.
    induction e as [x0|x0 k0|a IHa|a IHa|o a IHa b IHb|a IHa b IHb|a IHa b IHb|o l IHl r0 IHr a IHa b IHb|f a IHa|f a IHa b IHb];
      intros r lg Hc He x k Hin; cbn [Eval.eval_expr] in He; cbn [expr_reads] in Hin; cbn [cond_free] in Hc.
    - destruct Hin.
    - destruct Hin as [E|[]]. inversion E; subst. unfold read in He.
      destruct (py_pos (length (row num v x)) (t + k)) as [q|]; inversion He; subst. exists q. left. reflexivity.
    - destruct (eval_expr catch t v a) as [[xa|c] la] eqn:Ea; inversion He; subst. apply (IHa _ _ Hc eq_refl x k Hin).
    - destruct (eval_expr catch t v a) as [[xa|c] la] eqn:Ea; inversion He; subst. apply (IHa _ _ Hc eq_refl x k Hin).
    - apply andb_true_iff in Hc as [Hca Hcb].
      destruct (eval_expr catch t v a) as [[xa|c] la] eqn:Ea; [|inversion He].
      destruct (eval_expr catch t v b) as [[xb|c] lb] eqn:Eb; [|inversion He].
      unfold guard_op in He. destruct (catch && flagged [xa; xb] (binop_sem num add sub mul div pow o xa xb)); inversion He; subst.
      apply in_app_iff in Hin as [Hin|Hin].
      + destruct (IHa _ _ Hca eq_refl x k Hin) as (q & Hq). exists q. apply in_or_app. left. exact Hq.
      + destruct (IHb _ _ Hcb eq_refl x k Hin) as (q & Hq). exists q. apply in_or_app. right. exact Hq.
    - apply andb_true_iff in Hc as [Hca Hcb].
      destruct (eval_expr catch t v a) as [[xa|c] la] eqn:Ea; [|inversion He].
      destruct (eval_expr catch t v b) as [[xb|c] lb] eqn:Eb; inversion He; subst.
      apply in_app_iff in Hin as [Hin|Hin].
      + destruct (IHa _ _ Hca eq_refl x k Hin) as (q & Hq). exists q. apply in_or_app. left. exact Hq.
      + destruct (IHb _ _ Hcb eq_refl x k Hin) as (q & Hq). exists q. apply in_or_app. right. exact Hq.
    - apply andb_true_iff in Hc as [Hca Hcb].
      destruct (eval_expr catch t v a) as [[xa|c] la] eqn:Ea; [|inversion He].
      destruct (eval_expr catch t v b) as [[xb|c] lb] eqn:Eb; inversion He; subst.
      apply in_app_iff in Hin as [Hin|Hin].
      + destruct (IHa _ _ Hca eq_refl x k Hin) as (q & Hq). exists q. apply in_or_app. left. exact Hq.
      + destruct (IHb _ _ Hcb eq_refl x k Hin) as (q & Hq). exists q. apply in_or_app. right. exact Hq.
    - discriminate.
    - destruct (eval_expr catch t v a) as [[xa|c] la] eqn:Ea; [|inversion He].
      unfold guard_op in He. destruct (catch && flagged [xa] (fun1 f xa)); inversion He; subst. apply (IHa _ _ Hc eq_refl x k Hin).
    - apply andb_true_iff in Hc as [Hca Hcb].
      destruct (eval_expr catch t v a) as [[xa|c] la] eqn:Ea; [|inversion He].
      destruct (eval_expr catch t v b) as [[xb|c] lb] eqn:Eb; [|inversion He].
      unfold guard_op in He. destruct (catch && flagged [xa; xb] (fun2 f xa xb)); inversion He; subst.
      apply in_app_iff in Hin as [Hin|Hin].
      + destruct (IHa _ _ Hca eq_refl x k Hin) as (q & Hq). exists q. apply in_or_app. left. exact Hq.
      + destruct (IHb _ _ Hcb eq_refl x k Hin) as (q & Hq). exists q. apply in_or_app. right. exact Hq.
  Qed.

  (* every variable-like in-edge of a left-hand side is the text of a term that its statement reads; when the statement has
     no conditional and evaluates to a value, the term's cell is in the access log *)
  Theorem edge_is_read prog x' y ky :
    forallb neq_wf (map rstmt prog) = true ->
    is_edge (prog_graph prog) x' (tt y ky) = true -> varlike_id x' = true ->
    exists y' ky' e x k, In (SAssign y' ky' e) prog /\ tt y' ky' = tt y ky /\ x' = tt x k /\ In (x, k) (expr_reads num e) /\
      (cond_free e = true -> forall catch t v r lg, eval_expr catch t v e = (EVal r, lg) ->
                             exists q, In (Acc false x (t + k)%Z (Some q)) lg).
  Proof.
    intros Hw He Hv. destruct (proj1 (program_edges prog x' (tt y ky) Hw) (conj He Hv)) as (y' & ky' & e & x & k & Hs & Hr & En & Ex).
    exists y', ky', e, x, k. repeat split; auto.
    intros Hc catch t v r lg Hev. apply (reads_logged catch t v e r lg Hc Hev x k Hr).
  Qed.
End GraphEval.
