(* GraphCanonText.v — "dq_ok canon holds for the normal form of every accepted source statement":
     normal_form_dq_ok         dq_ok_ws lay q  /\  sep_ok lay (nrhs q)   ->   dq_ok canon (nrm_q q)
     normal_form_reparses      hence parse_equation on the normal form written back in the statement syntax (NAME[0], NAME[+k],
                               NAME[-k]) yields the same equation text and the same code text as the source statement did:
                               the normal form of EVERY such statement is a fixed point, whatever its layout
   The lexical part is GraphCanonWf.src_canon_wf.  The rest are three facts about the TEXT: round brackets / line separators
   (ContSplit.cont_scan), "#", and the numbers of "{" and "}".  The canonical text of the normal form arises from the source
   text by dropping characters other than round brackets (blanks, the braces / angle brackets of parameter / error terms, a
   sign) and inserting characters that are neither brackets, "#" nor line separators (" ", "[0]", "+"): relation `red`. *)
From Coq Require Import String Ascii List Bool Arith Lia ZArith.
Import ListNotations.
Require Import Generated PyBase PyStr Lex Symbols Merge ParseEq GLex GLexFacts GNorm GNormFacts GraphEvalWf.
Require Import Layout LayoutNorm ContSplit Denorm DenormInt DenormLex DenormFacts GraphSrcWf GraphTokWf GraphCanonWf.
Open Scope string_scope.

(* ================================================================== cont_scan as a fold *)
Fixpoint cscan (n : nat) (s : string) : option nat :=
  match s with
  | "" => Some n
  | String c r =>
    if Ascii.eqb c "(" then cscan (S n) r
    else if Ascii.eqb c ")" then (match n with O => None | S m => cscan m r end)
    else if Ascii.eqb c nl then (if Nat.ltb 0 n then cscan n r else None)
    else if is_linesep c then None
    else cscan n r
  end.
Lemma cont_scan_cscan s : forall n, cont_scan n s = match cscan n s with Some O => true | _ => false end.
Proof.
  induction s as [|c s IH]; intros n; cbn [cont_scan cscan]; [destruct n; reflexivity|].
  destruct (Ascii.eqb c "("); [apply IH|]. destruct (Ascii.eqb c ")"); [destruct n; [reflexivity|apply IH]|].
  destruct (Ascii.eqb c nl); [destruct (Nat.ltb 0 n); cbn [andb]; [apply IH|reflexivity]|].
  destruct (is_linesep c); [reflexivity|apply IH].
Qed.
Lemma cscan_app a : forall n b, cscan n (a ++ b) = match cscan n a with Some m => cscan m b | None => None end.
Proof.
  induction a as [|c a IH]; intros n b; [reflexivity|]. cbn [append cscan].
  destruct (Ascii.eqb c "("); [apply IH|]. destruct (Ascii.eqb c ")"); [destruct n; [reflexivity|apply IH]|].
  destruct (Ascii.eqb c nl); [destruct (Nat.ltb 0 n); [apply IH|reflexivity]|]. destruct (is_linesep c); [reflexivity|apply IH].
Qed.

(* ================================================================== dropping and inserting harmless characters *)
Definition droppable (c : ascii) : bool := negb (Ascii.eqb c "(") && negb (Ascii.eqb c ")").
Definition plainc (c : ascii) : bool :=
  negb (Ascii.eqb c "(") && negb (Ascii.eqb c ")") && negb (Ascii.eqb c nl) && negb (is_linesep c) && negb (Ascii.eqb c "#").

Inductive red : string -> string -> Prop :=
| red_nil : red "" ""
| red_keep c a b : red a b -> red (String c a) (String c b)
| red_drop c a b : droppable c = true -> red a b -> red (String c a) b
| red_ins c a b : plainc c = true -> red a b -> red a (String c b).

Lemma red_refl a : red a a.
Proof. induction a; constructor; assumption. Qed.
Lemma red_app a b : red a b -> forall a' b', red a' b' -> red (a ++ a') (b ++ b').
Proof. induction 1; intros a' b' H'; cbn [append]; [exact H'|apply red_keep, IHred, H'|apply red_drop; [assumption|apply IHred, H']|apply red_ins; [assumption|apply IHred, H']]. Qed.
Lemma red_drop_all w : all_chars droppable w = true -> red w "".
Proof. induction w as [|c w IH]; [constructor|]. cbn [all_chars]. intros H. apply andb_true_iff in H as [Hc Hw]. apply red_drop; [exact Hc|apply IH, Hw]. Qed.
Lemma red_ins_all w : all_chars plainc w = true -> red "" w.
Proof. induction w as [|c w IH]; [constructor|]. cbn [all_chars]. intros H. apply andb_true_iff in H as [Hc Hw]. apply red_ins; [exact Hc|apply IH, Hw]. Qed.
Lemma red_swap w w' : all_chars droppable w = true -> all_chars plainc w' = true -> red w w'.
Proof. intros H H'. rewrite <- (sapp_nil_r w). change w' with ("" ++ w'). apply red_app; [apply red_drop_all, H|apply red_ins_all, H']. Qed.

Lemma red_cscan a b : red a b -> forall n m, cscan n a = Some m -> cscan n b = Some m.
Proof.
  induction 1 as [|c a b _ IH|c a b Hc _ IH|c a b Hc _ IH]; intros n m E.
  - exact E.
  - cbn [cscan] in *. destruct (Ascii.eqb c "("); [apply IH, E|]. destruct (Ascii.eqb c ")"); [destruct n; [discriminate|apply IH, E]|].
    destruct (Ascii.eqb c nl); [destruct (Nat.ltb 0 n); [apply IH, E|discriminate]|]. destruct (is_linesep c); [discriminate|apply IH, E].
  - cbn [cscan] in E. unfold droppable in Hc. apply andb_true_iff in Hc as [H1 H2]. apply negb_true_iff in H1, H2. rewrite H1, H2 in E.
    destruct (Ascii.eqb c nl); [destruct (Nat.ltb 0 n); [apply IH, E|discriminate]|]. destruct (is_linesep c); [discriminate|apply IH, E].
  - cbn [cscan]. unfold plainc in Hc. apply andb_true_iff in Hc as [Hc _]. apply andb_true_iff in Hc as [Hc H4]. apply andb_true_iff in Hc as [Hc H3].
    apply andb_true_iff in Hc as [H1 H2]. apply negb_true_iff in H1, H2, H3, H4. rewrite H1, H2, H3, H4. apply IH, E.
Qed.
Lemma red_hash a b : red a b -> has_char "#" b = true -> has_char "#" a = true.
Proof.
  induction 1 as [|c a b _ IH|c a b Hc _ IH|c a b Hc _ IH]; intros E.
  - exact E.
  - cbn [has_char] in *. apply orb_true_iff in E as [E|E]; [rewrite E; reflexivity|rewrite (IH E); apply orb_true_r].
  - cbn [has_char]. rewrite (IH E). apply orb_true_r.
  - cbn [has_char] in E. unfold plainc in Hc. apply andb_true_iff in Hc as [_ H5]. apply negb_true_iff in H5. rewrite H5 in E. apply IH, E.
Qed.

Definition easier (A B : string) : Prop :=
  (forall n m, cscan n A = Some m -> cscan n B = Some m) /\ (has_char "#" B = true -> has_char "#" A = true).
Lemma red_easier a b : red a b -> easier a b.
Proof. intros H. split; [apply (red_cscan a b H)|apply (red_hash a b H)]. Qed.
Lemma easier_refl a : easier a a.
Proof. split; auto. Qed.
Lemma easier_trans a b c : easier a b -> easier b c -> easier a c.
Proof. intros [H1 H2] [H3 H4]. split; [intros n m E; apply H3, H1, E|intros E; apply H2, H4, E]. Qed.
Lemma easier_app a b a' b' : easier a b -> easier a' b' -> easier (a ++ a') (b ++ b').
Proof.
  intros [H1 H2] [H3 H4]. split.
  - intros n m. rewrite !cscan_app. destruct (cscan n a) as [k|] eqn:E; [|discriminate]. rewrite (H1 _ _ E). apply H3.
  - rewrite !has_char_app. intros E. apply orb_true_iff in E as [E|E]; [rewrite (H2 E); reflexivity|rewrite (H4 E); apply orb_true_r].
Qed.

(* ---- the numbers of braces ---- *)
Lemma count_char_app ch a b : count_char ch (a ++ b) = count_char ch a + count_char ch b.
Proof. induction a as [|c a IH]; [reflexivity|]. cbn [append count_char]. rewrite IH. lia. Qed.
Definition bal (A B : string) : Prop :=
  exists k, count_char "{" A = count_char "{" B + k /\ count_char "}" A = count_char "}" B + k.
Lemma bal_refl a : bal a a.
Proof. exists 0. lia. Qed.
Lemma bal_trans a b c : bal a b -> bal b c -> bal a c.
Proof. intros (k & H1 & H2) (j & H3 & H4). exists (j + k). lia. Qed.
Lemma bal_app a b a' b' : bal a b -> bal a' b' -> bal (a ++ a') (b ++ b').
Proof. intros (k & H1 & H2) (j & H3 & H4). exists (k + j). rewrite !count_char_app. lia. Qed.
Definition nobr (s : string) : Prop := count_char "{" s = 0 /\ count_char "}" s = 0.
Lemma nobr_all p s : p "{"%char = false -> p "}"%char = false -> all_chars p s = true -> nobr s.
Proof. intros H1 H2 H. split; apply count_char_absent, (all_chars_no_char p _ s); assumption. Qed.
Lemma bal_nobr a b : nobr a -> nobr b -> bal a b.
Proof. intros [H1 H2] [H3 H4]. exists 0. lia. Qed.
Lemma nobr_app a b : nobr a -> nobr b -> nobr (a ++ b).
Proof. intros [H1 H2] [H3 H4]. split; rewrite count_char_app; lia. Qed.

(* ---- character classes ---- *)
Lemma space_droppable : forall c, is_space c = true -> droppable c = true.
Proof. sweep. Qed.
Lemma idxc_droppable : forall c, idxc c = true -> droppable c = true.
Proof. sweep. Qed.
Lemma idxc_plain : forall c, idxc c = true -> plainc c = true.
Proof. sweep. Qed.
Lemma blanks_drop w : all_chars is_space w = true -> red w "".
Proof. intros H. apply red_drop_all, (all_chars_impl is_space droppable w space_droppable H). Qed.
Lemma blanks_nobr w : all_chars is_space w = true -> nobr w.
Proof. apply nobr_all; reflexivity. Qed.
Lemma idc_nobr w : all_chars is_idc w = true -> nobr w.
Proof. apply nobr_all; reflexivity. Qed.
Lemma idxc_nobr w : all_chars idxc w = true -> nobr w.
Proof. apply nobr_all; reflexivity. Qed.

(* ================================================================== one term *)
Lemma body_rel plus i : red (ibody plus i) (ibody true i) /\ bal (ibody plus i) (ibody true i).
Proof.
  destruct i as [k|s]; [|split; [apply red_refl|apply bal_refl]]. split.
  - apply red_swap; [apply (all_chars_impl idxc droppable _ idxc_droppable), ibody_chars|apply (all_chars_impl idxc plainc _ idxc_plain), ibody_chars].
  - apply bal_nobr; apply idxc_nobr, ibody_chars.
Qed.

(* the index bracket: written with blanks inside / without the "+", or (offset 0 only) not at all *)
Lemma index_rel ix i :
  match ix with Some (w1, w2, _) => all_chars is_space w1 = true /\ all_chars is_space w2 = true | None => i = IInt 0%Z end ->
  red (index_text ix i) (String "[" (ibody true i ++ "]")) /\ bal (index_text ix i) (String "[" (ibody true i ++ "]")).
Proof.
  destruct ix as [[[w1 w2] plus]|]; cbn [index_text].
  - intros [B1 B2]. destruct (body_rel plus i) as [R Bl]. unfold idx_text. cbn [append]. split.
    + apply red_keep. change (ibody true i ++ "]") with ("" ++ ibody true i ++ "" ++ "]").
      apply red_app; [apply blanks_drop, B1|]. apply red_app; [exact R|]. apply red_app; [apply blanks_drop, B2|apply red_refl].
    + change (String "[" (w1 ++ ibody plus i ++ w2 ++ "]")) with ("[" ++ w1 ++ ibody plus i ++ w2 ++ "]").
      change (String "[" (ibody true i ++ "]")) with ("[" ++ "" ++ ibody true i ++ "" ++ "]").
      apply bal_app; [apply bal_refl|]. apply bal_app; [apply bal_nobr; [apply blanks_nobr, B1|split; reflexivity]|].
      apply bal_app; [exact Bl|]. apply bal_app; [apply bal_nobr; [apply blanks_nobr, B2|split; reflexivity]|apply bal_refl].
  - intros ->. split; [apply red_ins_all; reflexivity|apply bal_nobr; split; reflexivity].
Qed.

(* the name: plain, in braces or in angle brackets with blanks inside *)
Lemma style_rel s name : is_ident name = true ->
  match s with SVar => True | SPar w1 w2 | SErr w1 w2 => all_chars is_space w1 = true /\ all_chars is_space w2 = true end ->
  red (style_text s name) name /\ bal (style_text s name) name.
Proof.
  intros Hid. destruct (ident_nonempty _ Hid) as (_ & _ & _ & _ & Hall). pose proof (idc_nobr name Hall) as [N1 N2].
  destruct s as [|w1 w2|w1 w2]; cbn [style_text]; [intros _; split; [apply red_refl|apply bal_refl]| |]; intros [B1 B2]; unfold brk_text.
  - split.
    + apply red_drop; [reflexivity|]. rewrite <- (sapp_nil_r name) at 2. change (name ++ "") with ("" ++ name ++ "" ++ "").
      apply red_app; [apply blanks_drop, B1|]. apply red_app; [apply red_refl|]. apply red_app; [apply blanks_drop, B2|].
      apply red_drop; [reflexivity|constructor].
    + destruct (blanks_nobr w1 B1) as [A1 A2]. destruct (blanks_nobr w2 B2) as [C1 C2]. exists 1.
      cbn [count_char]. rewrite !count_char_app. cbn [count_char]. rewrite A1, A2, C1, C2, N1, N2. split; reflexivity.
  - split.
    + apply red_drop; [reflexivity|]. rewrite <- (sapp_nil_r name) at 2. change (name ++ "") with ("" ++ name ++ "" ++ "").
      apply red_app; [apply blanks_drop, B1|]. apply red_app; [apply red_refl|]. apply red_app; [apply blanks_drop, B2|].
      apply red_drop; [reflexivity|constructor].
    + destruct (blanks_nobr w1 B1) as [A1 A2]. destruct (blanks_nobr w2 B2) as [C1 C2]. exists 0.
      cbn [count_char]. rewrite !count_char_app. cbn [count_char]. rewrite A1, A2, C1, C2, N1, N2. split; reflexivity.
Qed.

Definition rel (A B : string) : Prop := easier A B /\ bal A B.
Lemma rel_refl a : rel a a.
Proof. split; [apply easier_refl|apply bal_refl]. Qed.
Lemma rel_app a b a' b' : rel a b -> rel a' b' -> rel (a ++ a') (b ++ b').
Proof. intros [H1 H2] [H3 H4]. split; [apply easier_app; assumption|apply bal_app; assumption]. Qed.
Lemma rel_trans a b c : rel a b -> rel b c -> rel a c.
Proof. intros [H1 H2] [H3 H4]. split; [apply (easier_trans a b c); assumption|apply (bal_trans a b c); assumption]. Qed.

Lemma term_rel lay name i :
  is_ident name = true ->
  match lstyle (lay name i) with SVar => True | SPar w1 w2 | SErr w1 w2 => all_chars is_space w1 = true /\ all_chars is_space w2 = true end ->
  match lindex (lay name i) with Some (w1, w2, _) => all_chars is_space w1 = true /\ all_chars is_space w2 = true | None => i = IInt 0%Z end ->
  rel (Denorm.dtext lay (NTerm name i)) (Denorm.dtext canon (NTerm name i)).
Proof.
  intros Hid Hs Hi. rewrite dtext_canon_term. cbn [Denorm.dtext].
  destruct (style_rel _ name Hid Hs) as [R1 B1]. destruct (index_rel _ i Hi) as [R2 B2].
  apply rel_app; split; [apply red_easier, R1|exact B1|apply red_easier, R2|exact B2].
Qed.

Lemma tok_rel lay pw x rest : dtok_ok lay pw x rest = true -> rel (Denorm.dtext lay x) (Denorm.dtext canon x).
Proof.
  destruct x as [name i|name|k|body|c]; try (intros _; apply rel_refl).
  cbn [Denorm.dtok_ok]. intros H. apply andb_true_iff in H as [H _]. apply andb_true_iff in H as [H Hix]. apply andb_true_iff in H as [Hid Hst].
  apply (term_rel lay name i Hid).
  - destruct (lstyle (lay name i)) as [|w1 w2|w1 w2]; [exact I| |]; cbn [style_ok] in Hst; apply andb_true_iff in Hst; exact Hst.
  - destruct (lindex (lay name i)) as [[[w1 w2] plus]|]; cbn [index_ok] in Hix.
    + apply andb_true_iff in Hix as [Hix B2]. apply andb_true_iff in Hix as [_ B1]. auto.
    + apply andb_true_iff in Hix as [Hz _]. destruct i as [z|s0]; [|discriminate]. apply Z.eqb_eq in Hz. subst z. reflexivity.
Qed.

Lemma flat_rel lay l : forall pw k, dwf_k lay pw l k = true -> rel (Denorm.dflat lay l) (Denorm.dflat canon l).
Proof.
  induction l as [|x l IH]; intros pw k H; [apply rel_refl|]. cbn [Denorm.dwf_k] in H. apply andb_true_iff in H as [Hx Hl].
  cbn [Denorm.dflat]. apply rel_app; [apply (tok_rel lay pw x _ Hx)|apply (IH _ _ Hl)].
Qed.

(* ================================================================== the normaliser only drops blanks or turns them into " " *)
Inductive bred : list ntok -> list ntok -> Prop :=
| bred_nil : bred [] []
| bred_keep x a b : bred a b -> bred (x :: a) (x :: b)
| bred_drop c a b : is_space c = true -> bred a b -> bred (NChr c :: a) b
| bred_repl c a b : is_space c = true -> bred a b -> bred (NChr c :: a) (NChr " " :: b).

Lemma bred_tws l : forall f, bred l (tws f l).
Proof.
  induction l as [|x l IH]; intros f; [constructor|]. destruct x as [name i|name|k|body|c]; cbn [tws]; try (apply bred_keep, IH).
  destruct (is_space c) eqn:E; [destruct f; [apply bred_drop|apply bred_repl]; [exact E|apply IH|exact E|apply IH]|apply bred_keep, IH].
Qed.
Lemma bred_topen l : forall f, bred l (topen f l).
Proof.
  induction l as [|x l IH]; intros f; [constructor|]. destruct x as [name i|name|k|body|c]; cbn [topen]; try (apply bred_keep, IH).
  destruct (f && is_space c) eqn:E; [apply andb_true_iff in E as [_ E]; apply bred_drop; [exact E|apply IH]|apply bred_keep, IH].
Qed.
Lemma bred_tclose l : bred l (tclose l).
Proof.
  induction l as [|x l IH]; [constructor|]. destruct x as [name i|name|k|body|c]; cbn [tclose]; try (apply bred_keep, IH).
  destruct (is_space c && starts_close (tclose l)) eqn:E; [apply andb_true_iff in E as [E _]; apply bred_drop; [exact E|exact IH]|apply bred_keep, IH].
Qed.

Lemma bred_rel lay a b : bred a b -> rel (Denorm.dflat lay a) (Denorm.dflat lay b).
Proof.
  induction 1 as [|x a b _ IH|c a b Hc _ IH|c a b Hc _ IH]; cbn [Denorm.dflat].
  - apply rel_refl.
  - apply rel_app; [apply rel_refl|exact IH].
  - cbn [Denorm.dtext ntok_text]. change (Denorm.dflat lay b) with ("" ++ Denorm.dflat lay b). apply rel_app; [|exact IH]. split.
    + apply red_easier, red_drop; [apply space_droppable, Hc|constructor].
    + apply bal_nobr; [apply (blanks_nobr (String c "")); cbn [all_chars]; rewrite Hc; reflexivity|split; reflexivity].
  - cbn [Denorm.dtext ntok_text]. apply rel_app; [|exact IH]. split.
    + apply red_easier, red_drop; [apply space_droppable, Hc|]. apply red_ins; [reflexivity|constructor].
    + apply bal_nobr; [apply (blanks_nobr (String c "")); cbn [all_chars]; rewrite Hc; reflexivity|split; reflexivity].
Qed.
Lemma nrm_rel lay l : rel (Denorm.dflat lay l) (Denorm.dflat lay (nrm l)).
Proof.
  unfold nrm. apply (rel_trans _ (Denorm.dflat lay (tws false l))); [apply bred_rel, bred_tws|].
  apply (rel_trans _ (Denorm.dflat lay (topen false (tws false l)))); [apply bred_rel, bred_topen|apply bred_rel, bred_tclose].
Qed.

(* ================================================================== the statement *)
Theorem normal_form_dq_ok lay q : dq_ok_ws lay q = true -> sep_ok lay (nrhs q) = true -> dq_ok canon (nrm_q q) = true.
Proof.
  intros H Hsep. destruct q as [l r]. destruct l as [|[y [ky|s]| | | |] ws]; try discriminate.
  destruct (dq_ok_ws_parts lay y ky ws r H) as (Hid & Hkw & Hshort & Hl & Hws & Hrhs & Hscan & Hhash & Hnb & Hcnt).
  cbn [nrhs] in Hsep. set (q := mkNeq (NTerm y (IInt ky) :: ws) r) in *.
  set (ws' := match ws with [] => [] | _ => [NChr " "] end).
  assert (Eq' : nrm_q q = mkNeq (NTerm y (IInt ky) :: ws') (nrm r)) by (unfold nrm_q, q; cbn [nlhs nrhs]; rewrite (nrm_lhs y (IInt ky) ws Hws); reflexivity).
  (* the two texts *)
  assert (REL : rel (denorm_text lay q) (denorm_text canon (nrm_q q))).
  { rewrite Eq'. unfold denorm_text, q. cbn [nlhs nrhs Denorm.dflat]. rewrite !sapp_assoc.
    apply rel_app.
    - apply (term_rel lay y (IInt ky) Hid); unfold lhs_lay_ok in Hl; destruct (lstyle (lay y (IInt ky))); try discriminate; [exact I|].
      destruct (lindex (lay y (IInt ky))) as [[[w1 w2] plus]|]; [|apply Z.eqb_eq in Hl; subst ky; reflexivity].
      destruct w1; [|discriminate]. destruct w2; [|discriminate]. split; reflexivity.
    - apply rel_app; [|apply rel_app; [apply rel_refl|]].
      + (* the blanks before "=" *)
        assert (B : forall ws0, forallb (fun x => match x with NChr c => is_space c | _ => false end) ws0 = true ->
                      exists W, Denorm.dflat lay ws0 = W /\ all_chars is_space W = true).
        { clear. induction ws0 as [|x l IH]; [exists ""; split; reflexivity|]. cbn [forallb]. intros Hws. apply andb_true_iff in Hws as [Hx Hl].
          destruct x as [| | | |c]; try discriminate. destruct (IH Hl) as (W & E & B). exists (String c W). split; [cbn [Denorm.dflat Denorm.dtext ntok_text append]; rewrite E; reflexivity|].
          cbn [all_chars]. rewrite Hx, B. reflexivity. }
        unfold ws'. destruct ws as [|x0 l0]; [apply rel_refl|].
        destruct (B _ Hws) as (W & -> & BW). cbn [Denorm.dflat Denorm.dtext ntok_text append]. split.
        * apply red_easier. rewrite <- (sapp_nil_r W). change " " with ("" ++ " "). apply red_app; [apply blanks_drop, BW|apply red_ins_all; reflexivity].
        * apply bal_nobr; [apply blanks_nobr, BW|split; reflexivity].
      + apply (rel_trans _ (Denorm.dflat canon r)); [apply (flat_rel lay r _ _ Hrhs)|apply nrm_rel]. }
  destruct REL as [[Hcs Hh] (k & Hb1 & Hb2)].
  unfold dq_ok. apply andb_true_intro. split.
  - rewrite Eq' in *. unfold dq_ok_ws. cbn [nlhs nrhs].
    assert (E1 : cont_scan 0 (denorm_text canon (mkNeq (NTerm y (IInt ky) :: ws') (nrm r))) = true).
    { rewrite cont_scan_cscan in Hscan |- *. destruct (cscan 0 (denorm_text lay q)) as [[|n]|] eqn:E; try discriminate. rewrite (Hcs _ _ E). reflexivity. }
    assert (E2 : has_char "#" (denorm_text canon (mkNeq (NTerm y (IInt ky) :: ws') (nrm r))) = false).
    { destruct (has_char "#" (denorm_text canon (mkNeq (NTerm y (IInt ky) :: ws') (nrm r)))) eqn:E; [|reflexivity]. rewrite (Hh eq_refl) in Hhash. discriminate. }
    assert (E3 : nobrace (whole_toks (mkNeq (NTerm y (IInt ky) :: ws') (nrm r))) = true).
    { rewrite <- Eq'. unfold nrm_q, whole_toks. cbn [nlhs nrhs]. rewrite <- nrm_whole. apply nrm_nobrace. exact Hnb. }
    assert (E4 : Nat.eqb (count_char "{" (denorm_text canon (mkNeq (NTerm y (IInt ky) :: ws') (nrm r))))
                         (count_char "}" (denorm_text canon (mkNeq (NTerm y (IInt ky) :: ws') (nrm r)))) = true).
    { apply Nat.eqb_eq in Hcnt. apply Nat.eqb_eq. lia. }
    assert (E5 : forallb (fun x => match x with NChr c => is_space c | _ => false end) ws' = true) by (unfold ws'; destruct ws; reflexivity).
    unfold short_int in Hshort. rewrite Hid, Hkw, Hshort, E5, (src_canon_wf lay r Hsep Hrhs), E1, E2, E3, E4. reflexivity.
  - unfold nrm_q, whole_toks. cbn [nlhs nrhs]. rewrite <- nrm_whole, <- normalise_tokens. apply normalise_is_normal.
Qed.

(* the normal form of every such statement is a fixed point of parse_equation: fed back in the statement syntax it yields the
   same equation text and the same code text *)
Theorem normal_form_reparses lay q :
  dq_ok_ws lay q = true -> sep_ok lay (nrhs q) = true ->
  parse_equation_M (denorm_text lay q)
  = of_outcome (equation_symbols (neq_text (nrm_q q)) (neq_code (nrm_q q)) (lneq_terms lay q)) /\
  parse_equation_M (denorm_text canon (nrm_q q))
  = of_outcome (equation_symbols (neq_text (nrm_q q)) (neq_code (nrm_q q)) (neq_terms (nrm_q q))).
Proof.
  intros H Hsep. split.
  - rewrite (parse_denorm_nrm_q lay q H). unfold neq_code, nrm_q, whole_toks. cbn [nlhs nrhs]. rewrite nrm_whole, cflat_app. reflexivity.
  - apply normal_form_fixed_point_canon. apply (normal_form_dq_ok lay q H Hsep).
Qed.
