(* GLex.v — vocabulary for talking about what term_re.finditer (Lex.scan) does on a text that is given as a
   sequence of pieces: a piece is either the text of one match together with the match record, or one
   character outside every match.  Definitions only.  Proofs: GLexFacts.v. *)
From Coq Require Import String Ascii List Bool Arith.
Import ListNotations.
Require Import Generated PyStr Lex.
Open Scope string_scope.
Open Scope nat_scope.

Inductive piece : Type := PTok (text : string) (m : tmatch) | PChr (c : ascii).

Fixpoint flat (ps : list piece) : string :=
  match ps with
  | [] => ""
  | PTok t _ :: r => t ++ flat r
  | PChr c :: r => String c (flat r)
  end.

(* is the last character of s a \w ?  (pw for the empty string) *)
Fixpoint last_word (pw : bool) (s : string) : bool :=
  match s with "" => pw | String c r => last_word (is_word c) r end.

Fixpoint items_of (pos : nat) (ps : list piece) : list item :=
  match ps with
  | [] => []
  | PTok t m :: r => Tok pos m :: items_of (pos + String.length t) r
  | PChr c :: r => Chr c :: items_of (S pos) r
  end.

(* every piece is what the regex does at its position: a PTok is the match found there (and spans exactly its text),
   a PChr is a position where no alternative matches *)
Fixpoint lex_ok (pw : bool) (ps : list piece) : Prop :=
  match ps with
  | [] => True
  | PTok t m :: r => t <> "" /\ mlen m = String.length t /\ match_here pw (t ++ flat r) = Some m /\ lex_ok (last_word pw t) r
  | PChr c :: r => match_here pw (String c (flat r)) = None /\ lex_ok (is_word c) r
  end.

Fixpoint piece_texts (ps : list piece) : list string :=
  match ps with
  | [] => []
  | PTok t _ :: r => t :: piece_texts r
  | PChr _ :: r => piece_texts r
  end.
Fixpoint piece_matches (ps : list piece) : list tmatch :=
  match ps with
  | [] => []
  | PTok _ m :: r => m :: piece_matches r
  | PChr _ :: r => piece_matches r
  end.
Definition chr_pieces (s : string) : list piece := map PChr (list_ascii_of_string s).

(* ---- character predicates on strings ---- *)
Fixpoint all_chars (p : ascii -> bool) (s : string) : bool :=
  match s with "" => true | String c r => p c && all_chars p r end.
Definition head_not (p : ascii -> bool) (s : string) : bool :=
  match s with "" => true | String c _ => negb (p c) end.
Definition head_sat (p : ascii -> bool) (s : string) : bool :=
  match s with "" => false | String c _ => p c end.

(* an identifier [_A-Za-z][_A-Za-z0-9]* / a function name [_A-Za-z][_A-Za-z0-9.]* *)
Definition is_ident (s : string) : bool := head_sat is_alpha_ s && all_chars is_idc s.
Definition is_fname (s : string) : bool := head_sat is_alpha_ s && all_chars is_fnc s.
(* no keyword is a prefix of w that ends at a word boundary (in particular w is not a keyword): what keeps the
   KEYWORD alternative (and INVALID) of term_re off a name.  For an identifier this says just "not a keyword". *)
Definition kw_free (w : string) : bool :=
  forallb (fun k => match prefix_rest k w with
                    | Some (String c _) => is_word c
                    | Some "" => false
                    | None => true
                    end) KW.

(* a character at which no alternative of term_re can start, whatever follows *)
Definition inert (c : ascii) : bool :=
  negb (is_alpha_ c) && negb (Ascii.eqb c "`") && negb (Ascii.eqb c "{") && negb (Ascii.eqb c "<").
(* "<" followed by `rest` does not start an error term  < name > *)
Definition lt_ok (rest : string) : bool :=
  match try_bracketed "<" ">" KError (String "<" rest) with None => true | Some _ => false end.
