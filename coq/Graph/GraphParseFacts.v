(* GraphParseFacts.v — from the parser model to the graph, inside the model: for every normalised equation q that
   satisfies Denorm.dq_ok and GNorm.neq_wf (no guard about the assigned name being called as a function any more: fix b45daa1), the symbols that
   parse_equation produces for the (de-normalised) statement have exactly one equation, neq_text q, and
   symbols_to_graph_M builds graph_of [q] from them — whose edges are exactly the terms of the right-hand side
   (GraphTheorems).  This is "for every symbol list from the parse model" for single statements of that form. *)
From Coq Require Import String Ascii List Bool Arith Lia ZArith.
Import ListNotations.
Require Import Generated PyBase PyStr Lex Symbols Merge ParseEq ParseModel ParseContribFacts GLex GNorm GNormFacts Graph GraphFacts GraphTheorems.
Require Import Layout Denorm DenormFacts.
Open Scope string_scope.

(* no term of a right-hand side is ENDOGENOUS, so lhs_guard holds of it whatever the names (until fix b45daa1 a function named
   like the assigned variable had to be excluded here: such a statement is now a SymbolError, MergeClashFacts) *)
Lemma lhs_guard_terms lay y l : lhs_guard y (lay_terms lay TExogenous l) = true.
Proof.
  unfold lhs_guard. induction l as [|x l IH]; [reflexivity|].
  destruct x as [name i|name|k|body|c]; cbn [lay_terms lay_term tok_term forallb ttype tname]; rewrite ?IH; try reflexivity.
  destruct (lstyle (lay name i)); reflexivity.
Qed.

Lemma equations_of_tidy syms : (forall v, In v syms -> tidy v) ->
  equations_of syms = equations_of (filter emits syms).
Proof.
  induction syms as [|s syms IH]; intros H; [reflexivity|]. cbn [filter equations_of].
  assert (Hs : tidy s) by (apply H; left; reflexivity).
  rewrite (IH (fun v Hv => H v (or_intror Hv))). unfold tidy in Hs. destruct (emits s) eqn:E.
  - cbn [equations_of]. reflexivity.
  - destruct Hs as (He & _ & _). rewrite He. reflexivity.
Qed.

Theorem reparsed_equations lay y ky ws r syms :
  let q := mkNeq (NTerm y (IInt ky) :: ws) r in
  dq_ok lay q = true ->
  parse_equation_M (denorm_text lay q) = POk syms -> equations_of syms = [neq_text q].
Proof.
  intros q Hq Hp. pose proof (fixed_point_symbols lay q syms Hq Hp) as T.
  rewrite (normal_form_fixed_point lay q Hq) in Hp.
  destruct (equation_symbols (neq_text q) (neq_code q) (lneq_terms lay q)) as [l|] eqn:E; [|discriminate]. inversion Hp; subst l.
  assert (Hparts : lay_terms lay TEndogenous ws = [] /\ lstyle (lay y (IInt ky)) = SVar).
  { unfold dq_ok in Hq. apply andb_true_iff in Hq as [Hq _]. destruct (dq_ok_ws_parts lay y ky ws r Hq) as (_ & _ & _ & Hl & Hws & _).
    split.
    - clear - Hws. induction ws as [|x l IH]; [reflexivity|]. cbn [forallb] in Hws. apply andb_true_iff in Hws as [Hx Hl].
      destruct x; try discriminate. cbn [lay_terms lay_term tok_term]. apply IH, Hl.
    - unfold lhs_lay_ok in Hl. destruct (lstyle (lay y (IInt ky))); [reflexivity|discriminate|discriminate]. }
  destruct Hparts as [Hws Hst].
  assert (G : lhs_guard y (lneq_terms lay q) = true).
  { unfold lneq_terms, q. cbn [nlhs nrhs lay_terms lay_term]. rewrite Hws, Hst. unfold lhs_guard. cbn [app forallb ttype tname style_type].
    rewrite String.eqb_refl. apply (lhs_guard_terms lay y r). }
  assert (HE : has_type TEndogenous (lneq_terms lay q) = true).
  { unfold lneq_terms, q. cbn [nlhs nrhs lay_terms lay_term]. rewrite Hst. reflexivity. }
  destruct (equation_symbols_one _ _ y _ _ G HE E) as [Hone Htidy].
  rewrite (equations_of_tidy syms Htidy). unfold n_emitted in Hone.
  destruct (filter emits syms) as [|s [|s2 rest]] eqn:F; cbn [length] in Hone; try lia.
  assert (Hin : In s syms) by (apply (proj1 (filter_In emits s syms)); rewrite F; left; reflexivity).
  assert (Hem : emits s = true) by (apply (proj2 (proj1 (filter_In emits s syms) ltac:(rewrite F; left; reflexivity)))).
  destruct (T s Hin) as [[He|He] _].
  - exfalso. unfold emits in Hem. rewrite He in Hem. destruct (stype s); discriminate.
  - pose proof (Htidy s Hin) as Ts. unfold tidy in Ts. rewrite Hem in Ts. cbn [equations_of]. rewrite He, Ts. reflexivity.
Qed.

(* the graph of the re-parsed statement is the graph of its normalised equation *)
Theorem reparsed_graph lay y ky ws r syms :
  let q := mkNeq (NTerm y (IInt ky) :: ws) r in
  dq_ok lay q = true -> neq_wf q = true ->
  parse_equation_M (denorm_text lay q) = POk syms -> symbols_to_graph_M syms = Ret (graph_of [q]).
Proof.
  intros q Hq Hw Hp. apply graph_total; [apply (reparsed_equations lay y ky ws r syms Hq Hp)|].
  cbn [forallb]. rewrite Hw. reflexivity.
Qed.
