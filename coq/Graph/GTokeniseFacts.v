(* GTokeniseFacts.v — the executable reader of normalised equations is sound and complete:
     tokenise_sound      tokenise e = Some q  ->  neq_text q = e  /\  neq_wf q = true
     tokenise_complete   neq_wf q = true  ->  tokenise (neq_text q) = Some (the same token list, period-looking indexes re-read)
   so `checked symbols = true` says exactly "every equation of an endogenous symbol is a well-formed normalised equation",
   and graph_of_checked gives the graph of such a symbol list without naming a witness. *)
From Coq Require Import String Ascii List Bool Arith ZArith Lia.
Import ListNotations.
Require Import Generated PyBase PyStr Lex Symbols ParseEq GLex GLexFacts GNorm GNormFacts Graph GraphFacts GraphTheorems GTokenise.
Open Scope string_scope.

Theorem tokenise_sound e q : tokenise e = Some q -> neq_text q = e /\ neq_wf q = true.
Proof.
  unfold tokenise. destruct (find_any "=" e) as [[l r]|]; [|discriminate].
  destruct (toks_of_items (scan_items l)) as [a|]; [|discriminate]. destruct (toks_of_items (scan_items r)) as [b|]; [|discriminate].
  cbn zeta. destruct (neq_wf (mkNeq a b) && String.eqb (neq_text (mkNeq a b)) e) eqn:E; [|discriminate].
  intros H. inversion H; subst q. apply andb_true_iff in E as [W T]. apply String.eqb_eq in T. auto.
Qed.

Lemma tokenised_texts symbols : checked symbols = true ->
  map neq_text (tokenised symbols) = equations_of symbols /\ forallb neq_wf (tokenised symbols) = true.
Proof.
  unfold checked, tokenised. induction (equations_of symbols) as [|e l IH]; [split; reflexivity|].
  cbn [forallb flat_map]. intros H. apply andb_true_iff in H as [He Hl]. destruct (IH Hl) as [IH1 IH2].
  destruct (tokenise e) as [q|] eqn:Et; [|discriminate]. destruct (tokenise_sound e q Et) as [T W].
  cbn [app map forallb]. rewrite T, IH1, W, IH2. split; reflexivity.
Qed.

(* the graph of a checked symbol list: never raises, and is the graph of the equations as read back *)
Theorem graph_of_checked symbols : checked symbols = true ->
  symbols_to_graph_M symbols = Ret (graph_of (tokenised symbols)) /\
  map neq_text (tokenised symbols) = equations_of symbols /\ forallb neq_wf (tokenised symbols) = true.
Proof.
  intros H. destruct (tokenised_texts symbols H) as [T W]. split; [apply (graph_total symbols _ (eq_sym T) W)|split; assumption].
Qed.

(* ================================================================== completeness *)
Definition rho (x : ntok) : ntok := match x with NTerm name i => NTerm name (parse_tindex (idx_body i)) | _ => x end.

Lemma idx_body_parse s : idx_body (parse_tindex s) = s.
Proof.
  unfold parse_tindex. destruct s as [|c rest]; [reflexivity|]. destruct (Ascii.eqb_spec c "t") as [->|]; [|reflexivity].
  destruct rest as [|d r]; [reflexivity|]. destruct (py_int (String d r)) as [z|]; [|reflexivity].
  destruct (String.eqb_spec (idx_body (IInt z)) (String "t" (String d r))) as [E|]; [exact E|reflexivity].
Qed.
Lemma rho_text x : ntok_text (rho x) = ntok_text x.
Proof. destruct x; cbn [rho ntok_text]; try reflexivity. unfold term_text. rewrite idx_body_parse. reflexivity. Qed.
Lemma rho_ok pw x rest : ntok_ok pw (rho x) rest = ntok_ok pw x rest.
Proof. destruct x; cbn [rho ntok_ok]; try reflexivity. rewrite idx_body_parse. reflexivity. Qed.
Lemma rho_flat l : nflat (map rho l) = nflat l.
Proof. induction l as [|x l IH]; [reflexivity|]. cbn [map nflat]. rewrite rho_text, IH. reflexivity. Qed.
Lemma rho_wf l : forall pw k, nwf_k pw (map rho l) k = nwf_k pw l k.
Proof. induction l as [|x l IH]; intros pw k; [reflexivity|]. cbn [map nwf_k]. rewrite rho_ok, rho_flat, rho_text, IH. reflexivity. Qed.

Lemma drop_last_cons d t : t <> "" -> drop_last (String d t) = String d (drop_last t).
Proof. destruct t; [congruence|reflexivity]. Qed.
Lemma drop_last_snoc b c : drop_last (b ++ String c "") = b.
Proof.
  induction b as [|d b IH]; [reflexivity|]. cbn [append]. rewrite drop_last_cons by (destruct b; discriminate). rewrite IH. reflexivity.
Qed.

Lemma tok_of_ntok_match x : is_term_tok x = true -> tok_of_match (ntok_match x) = Some (rho x).
Proof.
  destruct x as [name i|name|k|body|c]; cbn [is_term_tok ntok_match tok_of_match mkind mindex mname rho]; intros H; try reflexivity; [|discriminate].
  unfold verb_body. rewrite drop_last_snoc. reflexivity.
Qed.
Lemma toks_of_pieces l : forall pos, toks_of_items (items_of pos (pieces_of l)) = Some (map rho l).
Proof.
  unfold pieces_of. induction l as [|x l IH]; intros pos; [reflexivity|].
  destruct x as [name i|name|k|body|c]; cbn [map piece_of items_of toks_of_items].
  1-4: rewrite IH; match goal with |- context [tok_of_match (ntok_match ?y)] => rewrite (tok_of_ntok_match y eq_refl) end; reflexivity.
  rewrite IH. reflexivity.
Qed.

Theorem tokenise_complete q : neq_wf q = true -> tokenise (neq_text q) = Some (mkNeq (map rho (nlhs q)) (map rho (nrhs q))).
Proof.
  intros W. unfold tokenise. rewrite (neq_split q W). pose proof W as W0. unfold neq_wf in W0.
  apply andb_true_iff in W0 as [W0 Hno]. apply andb_true_iff in W0 as [Wl Wr]. unfold nwf in Wl, Wr.
  rewrite <- (flat_pieces (nlhs q)), (scan_items_pieces _ (nwf_lex_ok _ false "" Wl eq_refl)), toks_of_pieces.
  rewrite <- (flat_pieces (nrhs q)), (scan_items_pieces _ (nwf_lex_ok _ false "" Wr eq_refl)), toks_of_pieces.
  cbn zeta. unfold neq_wf, neq_text, nwf. cbn [nlhs nrhs]. rewrite !rho_wf, !rho_flat, Wl, Wr, Hno, String.eqb_refl. reflexivity.
Qed.

(* hence the decidable check is exactly "is a well-formed normalised equation" *)
Corollary tokenise_iff e : (exists q, tokenise e = Some q) <-> (exists q, neq_wf q = true /\ neq_text q = e).
Proof.
  split.
  - intros (q & H). destruct (tokenise_sound e q H). exists q. auto.
  - intros (q & W & <-). eexists. apply (tokenise_complete q W).
Qed.
