(* GraphSrcWf.v — closing the gap between source statements and the well-formedness of the normalised equation:
     src_to_norm       a token list that lexes token by token in its SOURCE spelling (Denorm.dwf_k: terms written as NAME,
                       { NAME }, < NAME >, with any index-bracket layout) also lexes token by token in its NORMALISED spelling
                       (GNorm.nwf_k: every term NAME[t+k]), provided the separation conditions `sep_ok` hold
     dq_ok_neq_wf      hence  dq_ok lay q  /\  sep_ok (nrhs q)  ->  neq_wf q
   sep_ok (all decidable, on the token list): names of terms are not keyword-prefixed; a keyword is not directly followed by a
   term written in braces / angle brackets (`if{a}` would glue to `ifa[t]`); the first token after a "<" (and blanks) is no
   keyword (`x < if > y` is read as the error term <if>). *)
From Coq Require Import String Ascii List Bool Arith Lia ZArith.
Import ListNotations.
Require Import Generated PyBase PyStr Lex Symbols Merge ParseEq GLex GLexFacts GNorm GNormFacts GraphEvalWf Denorm DenormInt DenormLex DenormFacts.
Open Scope string_scope.

Definition is_blank_tok (x : ntok) : bool := match x with NChr c => is_space c | _ => false end.
Fixpoint skip_blank_toks (l : list ntok) : list ntok :=
  match l with x :: r => if is_blank_tok x then skip_blank_toks r else l | [] => [] end.
Definition styled (lay : layout) (x : ntok) : bool :=
  match x with NTerm name i => match lstyle (lay name i) with SVar => false | _ => true end | _ => false end.
Definition is_kw_tok (x : ntok) : bool := match x with NKw _ => true | _ => false end.

Fixpoint sep_ok (lay : layout) (l : list ntok) : bool :=
  match l with
  | [] => true
  | x :: r =>
    match x with
    | NTerm name _ => kw_free name
    | NKw _ => match r with y :: _ => negb (styled lay y) | [] => true end
    | NChr c => if Ascii.eqb c "<" then match skip_blank_toks r with y :: _ => negb (is_kw_tok y) | [] => true end else true
    | _ => true
    end && sep_ok lay r
  end.

(* ---- heads of the two spellings ---- *)
Lemma dtext_head_svar lay name i : lstyle (lay name i) = SVar -> is_ident name = true ->
  exists c r r', dtext lay (NTerm name i) = String c r /\ ntok_text (NTerm name i) = String c r' /\ is_alpha_ c = true.
Proof.
  intros Hs Hid. destruct (ident_nonempty _ Hid) as (c & r & -> & Hc & _). cbn [Denorm.dtext ntok_text]. rewrite Hs. cbn [style_text].
  unfold term_text. cbn [append]. eexists. eexists. eexists. repeat split; try reflexivity. exact Hc.
Qed.

(* what source well-formedness says about a token by itself *)
Definition good (x : ntok) : Prop :=
  match x with
  | NTerm name _ => is_ident name = true
  | NFunc name => is_fname name = true
  | NKw k => In k KW
  | NVerb _ => True
  | NChr c => inert c = true \/ c = "<"%char
  end.
Lemma dtok_good lay pw x rest : dtok_ok lay pw x rest = true -> good x.
Proof.
  destruct x as [name i|name|k|body|c]; cbn [Denorm.dtok_ok ntok_ok good]; intros H.
  - apply andb_true_iff in H as [H _]. apply andb_true_iff in H as [H _]. apply andb_true_iff in H as [H _]. exact H.
  - apply andb_true_iff in H as [H _]. apply andb_true_iff in H as [H _]. exact H.
  - apply andb_true_iff in H as [H _]. apply andb_true_iff in H as [H _]. apply andb_true_iff in H as [H _].
    apply mem_string_In in H. exact H.
  - exact I.
  - apply orb_true_iff in H as [H|H]; [left; exact H|]. apply andb_true_iff in H as [H _]. apply Ascii.eqb_eq in H. right. exact H.
Qed.
Lemma dwf_good lay l : forall pw k, dwf_k lay pw l k = true -> forall x, In x l -> good x.
Proof.
  induction l as [|y l IH]; intros pw k H x Hin; [destruct Hin|]. cbn [Denorm.dwf_k] in H. apply andb_true_iff in H as [Hy Hl].
  destruct Hin as [<-|Hin]; [apply (dtok_good lay pw y _ Hy)|apply (IH _ _ Hl x Hin)].
Qed.

Lemma head_open_same lay l k : (forall x, In x l -> good x) ->
  head_is "(" (dflat lay l ++ k) = true -> head_is "(" (nflat l ++ k) = true.
Proof.
  intros Hg. destruct l as [|x r]; [intros H; exact H|]. pose proof (Hg x (or_introl eq_refl)) as G.
  cbn [Denorm.dflat nflat]. destruct x as [name i|name|kw|body|c]; cbn [good Denorm.dtext ntok_text] in *.
  - destruct (ident_nonempty _ G) as (c & r0 & -> & Hc & _).
    destruct (lstyle (lay (String c r0) i)); cbn [style_text]; unfold brk_text, term_text; cbn [append head_is]; intros H; [exact H|discriminate|discriminate].
  - destruct (fname_nonempty _ G) as (c & r0 & -> & _ & _). cbn [append head_is]. intros H; exact H.
  - destruct (KW_idc kw G) as [Ha _]. destruct kw as [|c r0]; [discriminate|]. cbn [append head_is]. intros H; exact H.
  - cbn [append head_is]. intros H; exact H.
  - cbn [append head_is]. intros H; exact H.
Qed.

Lemma name_head_word name r : is_ident name = true -> head_not is_word (name ++ r) = false.
Proof.
  intros H. destruct (ident_nonempty _ H) as (c & r0 & -> & Hc & _). cbn [append head_not].
  rewrite (idc_word c (alpha_idc c Hc)). reflexivity.
Qed.

(* after leading blank tokens the text starts with the next token *)
Lemma skip_ws_blank_toks (flat : list ntok -> string) (text : ntok -> string) :
  (forall x r, flat (x :: r) = text x ++ flat r) -> (forall c, text (NChr c) = String c "") ->
  forall l k, skip_ws (flat l ++ k) = skip_ws (flat (skip_blank_toks l) ++ k).
Proof.
  intros Hf Hc l k. induction l as [|x r IH]; [reflexivity|]. cbn [skip_blank_toks]. destruct (is_blank_tok x) eqn:E; [|reflexivity].
  destruct x as [| | | |c]; try discriminate. cbn [is_blank_tok] in E. rewrite Hf, Hc. cbn [append]. unfold skip_ws in *. cbn [span_while]. rewrite E.
  destruct (span_while is_space (flat r ++ k)) as [a b] eqn:Es. cbn [snd] in *. exact IH.
Qed.

(* "<" blanks FUNCTION-NAME "(" : the identifier run of the name ends at a dot or at the bracket, never before ">" *)
Lemma span_idc_fname name after : all_chars is_fnc name = true -> head_is "(" after = true ->
  head_is "." (snd (span_while is_idc (name ++ after))) = true \/ head_is "(" (snd (span_while is_idc (name ++ after))) = true.
Proof.
  intros Hn Ha. induction name as [|c n IH].
  - cbn [append]. destruct after as [|d r]; [discriminate|]. cbn [head_is] in Ha. apply Ascii.eqb_eq in Ha. subst d.
    cbn [span_while]. replace (is_idc "(") with false by (vm_compute; reflexivity). right. reflexivity.
  - cbn [all_chars] in Hn. apply andb_true_iff in Hn as [Hc Hn]. cbn [append span_while]. destruct (is_idc c) eqn:E.
    + destruct (span_while is_idc (n ++ after)) as [a b] eqn:Es. cbn [snd] in *. apply (IH Hn).
    + unfold is_fnc in Hc. rewrite E in Hc. cbn [orb] in Hc. apply Ascii.eqb_eq in Hc. subst c. left. reflexivity.
Qed.
Lemma lt_ok_fname ws name after : blanks ws = true -> is_fname name = true -> head_is "(" after = true -> lt_ok (ws ++ name ++ after) = true.
Proof.
  intros B Hf Ha. destruct (fname_nonempty _ Hf) as (c & r0 & En & Hc & Hall).
  unfold lt_ok, try_bracketed. rewrite Ascii.eqb_refl.
  assert (Hsp : is_space c = false) by (pose proof (fnc_not_space c (idc_fnc _ (alpha_idc _ Hc))) as S; apply negb_true_iff in S; exact S).
  rewrite (span_while_all is_space ws _ B) by (rewrite En; cbn [append head_not]; rewrite Hsp; reflexivity).
  pose proof (span_idc_fname name after Hall Ha) as SP.
  rewrite En in *. cbn [append] in *. rewrite Hc.
  destruct (span_while is_idc (String c (r0 ++ after))) as [nm rest] eqn:Es. cbn [snd] in SP.
  destruct rest as [|d r1]; [destruct SP; discriminate|]. cbn [head_is] in SP.
  assert (Hd : is_space d = false /\ Ascii.eqb d ">" = false).
  { destruct SP as [E|E]; apply Ascii.eqb_eq in E; subst d; split; vm_compute; reflexivity. }
  destruct Hd as [Hd1 Hd2]. cbn [span_while]. rewrite Hd1, Hd2. reflexivity.
Qed.

Section Src.
  Variable lay : layout.

  (* what a token needs to know about the text that follows it, in both spellings *)
  Lemma kw_follow_same r k : sep_ok lay r = true -> (forall x, In x r -> good x) ->
    match r with y :: _ => styled lay y = false | [] => True end ->
    head_not is_word (dflat lay r ++ k) = true -> negb (head_is "[" (skip_ws (dflat lay r ++ k))) = true ->
    head_not is_word (nflat r ++ k) = true /\ negb (head_is "[" (skip_ws (nflat r ++ k))) = true.
  Proof.
    intros Hsep Hid Hst H1 H2. split.
    - destruct r as [|y r']; [exact H1|]. pose proof (Hid y (or_introl eq_refl)) as G.
      destruct y as [name i|name|kw|body|c]; cbn [good Denorm.dflat nflat Denorm.dtext ntok_text] in *.
      + cbn [styled] in Hst. destruct (lstyle (lay name i)) eqn:Es; try discriminate. cbn [style_text] in H1.
        rewrite sapp_assoc, sapp_assoc in H1. rewrite (name_head_word name _ G) in H1. discriminate.
      + destruct (fname_nonempty _ G) as (c & r0 & -> & _ & _). cbn [append head_not] in *. exact H1.
      + destruct (KW_idc kw G) as [Ha _]. destruct kw as [|c r0]; [discriminate|]. cbn [append head_not] in *. exact H1.
      + cbn [append head_not] in *. exact H1.
      + cbn [append head_not] in *. exact H1.
    - (* skip the blanks, then look at the head of the next token: never "[" unless it is the character "[" itself *)
      rewrite (skip_ws_blank_toks (dflat lay) (dtext lay) (fun x r0 => eq_refl) (fun c => eq_refl) r k) in H2.
      rewrite (skip_ws_blank_toks nflat ntok_text (fun x r0 => eq_refl) (fun c => eq_refl) r k).
      assert (Hid' : forall x, In x (skip_blank_toks r) -> good x).
      { intros x Hx. apply Hid. clear -Hx. induction r as [|y r' IH]; [destruct Hx|]. cbn [skip_blank_toks] in Hx.
        destruct (is_blank_tok y); [right; apply IH, Hx|exact Hx]. }
      destruct (skip_blank_toks r) as [|y r'] eqn:Er; [exact H2|].
      assert (Hnb : is_blank_tok y = false).
      { clear -Er. induction r as [|z r0 IH]; [discriminate|]. cbn [skip_blank_toks] in Er. destruct (is_blank_tok z) eqn:E; [apply IH, Er|inversion Er; subst; exact E]. }
      destruct y as [name i|name|kw|body|c]; cbn [Denorm.dflat nflat Denorm.dtext ntok_text] in *.
      + pose proof (Hid' _ (or_introl eq_refl)) as Hi. cbn [good] in Hi. destruct (ident_nonempty _ Hi) as (c & r0 & -> & Hc & _).
        unfold term_text. cbn [append]. unfold skip_ws. cbn [span_while].
        pose proof (fnc_not_space c (idc_fnc _ (alpha_idc _ Hc))) as S. apply negb_true_iff in S. rewrite S. cbn [snd head_is].
        pose proof (fnc_not_open c (idc_fnc _ (alpha_idc _ Hc))) as O. apply andb_true_iff in O as [O _]. exact O.
      + pose proof (Hid' _ (or_introl eq_refl)) as Hi. cbn [good] in Hi. destruct (fname_nonempty _ Hi) as (c & r0 & -> & Hc & _).
        pose proof (fnc_not_space c (idc_fnc _ (alpha_idc _ Hc))) as S. apply negb_true_iff in S.
        unfold skip_ws in *. cbn [append span_while] in *. rewrite S in *. cbn [snd head_is] in *. exact H2.
      + pose proof (Hid' _ (or_introl eq_refl)) as Hi. cbn [good] in Hi. destruct (KW_idc kw Hi) as [Ha _]. destruct kw as [|c r0]; [discriminate|].
        cbn [head_sat] in Ha. pose proof (fnc_not_space c (idc_fnc _ (alpha_idc _ Ha))) as S. apply negb_true_iff in S.
        unfold skip_ws in *. cbn [append span_while] in *. rewrite S in *. cbn [snd head_is] in *. exact H2.
      + unfold skip_ws in *. cbn [append span_while] in *. replace (is_space "`") with false in * by (vm_compute; reflexivity). cbn [snd head_is] in *. exact H2.
      + cbn [is_blank_tok] in Hnb. unfold skip_ws in *. cbn [append span_while] in *. rewrite Hnb in *. cbn [snd head_is] in *. exact H2.
  Qed.

  (* "<": in the normalised spelling no error term can start there when the next token is no keyword *)
  Lemma lt_ok_norm r k : (forall x, In x r -> good x) ->
    match skip_blank_toks r with y :: _ => is_kw_tok y = false | [] => k = "" end ->
    match skip_blank_toks r with NFunc _ :: r' => head_is "(" (nflat r' ++ k) = true | _ => True end ->
    lt_ok (nflat r ++ k) = true.
  Proof.
    intros Hid Hnk Hfn.
    (* split r into its leading blanks and the rest *)
    assert (SP : exists ws, blanks ws = true /\ nflat r ++ k = ws ++ nflat (skip_blank_toks r) ++ k).
    { clear Hnk Hid Hfn. induction r as [|x r' IH]; [exists ""; split; reflexivity|]. cbn [skip_blank_toks]. destruct (is_blank_tok x) eqn:E.
      - destruct x as [| | | |c]; try discriminate. cbn [is_blank_tok] in E. destruct IH as (ws & B & Eq). exists (String c ws). split.
        + unfold blanks in *. cbn [all_chars]. rewrite E, B. reflexivity.
        + cbn [nflat ntok_text append]. rewrite Eq. reflexivity.
      - exists "". split; reflexivity. }
    destruct SP as (ws & B & ->).
    assert (Hid' : forall x, In x (skip_blank_toks r) -> In x r).
    { clear. induction r as [|y r' IH]; [intros x []|]. intros x Hx. cbn [skip_blank_toks] in Hx. destruct (is_blank_tok y); [right; apply IH, Hx|exact Hx]. }
    destruct (skip_blank_toks r) as [|y r'] eqn:Er.
    - subst k. cbn [nflat append]. apply (lt_ok_nonalpha ws "" B eq_refl eq_refl).
    - assert (Hnb : is_blank_tok y = false).
      { clear -Er. induction r as [|z r0 IH]; [discriminate|]. cbn [skip_blank_toks] in Er. destruct (is_blank_tok z) eqn:E; [apply IH, Er|inversion Er; subst; exact E]. }
      pose proof (Hid y (Hid' y (or_introl eq_refl))) as Hy.
      destruct y as [name i|name|kw|body|c]; cbn [nflat ntok_text] in *.
      + destruct (ident_nonempty _ Hy) as (c & r0 & En & Hc & Hall). unfold term_text. rewrite !sapp_assoc.
        apply lt_ok_name; [exact B|rewrite En; discriminate|exact Hall|reflexivity|reflexivity].
      + rewrite sapp_assoc. apply (lt_ok_fname ws name _ B Hy Hfn).
      + discriminate.
      + cbn [append]. apply (lt_ok_nonalpha ws _ B); reflexivity.
      + cbn [is_blank_tok] in Hnb. destruct Hy as [Hy| ->].
        * cbn [append]. apply (lt_ok_nonalpha ws _ B); cbn [head_not]; [rewrite Hnb; reflexivity|].
          unfold inert in Hy. apply andb_true_iff in Hy as [Hy _]. apply andb_true_iff in Hy as [Hy _]. apply andb_true_iff in Hy as [Hy _]. exact Hy.
        * cbn [append]. apply (lt_ok_nonalpha ws _ B); reflexivity.
  Qed.
End Src.

(* ================================================================== the main induction *)
Lemma last_word_nonempty p q t : t <> "" -> last_word p t = last_word q t.
Proof. destruct t; [congruence|reflexivity]. Qed.
Lemma last_word_term p name i : last_word p (term_text name i) = false.
Proof. unfold term_text. rewrite !last_word_app. reflexivity. Qed.

Lemma dwf_skip_blanks lay r : forall pw k, dwf_k lay pw r k = true -> exists pw2, dwf_k lay pw2 (skip_blank_toks r) k = true.
Proof.
  induction r as [|x r IH]; intros pw k H; [exists pw; exact H|]. cbn [skip_blank_toks]. destruct (is_blank_tok x); [|exists pw; exact H].
  cbn [Denorm.dwf_k] in H. apply andb_true_iff in H as [_ Hr]. apply (IH _ _ Hr).
Qed.

Theorem src_to_norm lay l : forall pw pw', (pw' = true -> pw = true) ->
  sep_ok lay l = true -> dwf_k lay pw l "" = true -> nwf_k pw' l "" = true.
Proof.
  induction l as [|x r IH]; intros pw pw' Hpw Hsep Hd; [reflexivity|].
  cbn [Denorm.dwf_k] in Hd. apply andb_true_iff in Hd as [Hx Hr]. cbn [sep_ok] in Hsep. apply andb_true_iff in Hsep as [Hsx Hsr].
  pose proof (dwf_good lay r _ _ Hr) as Gr. rewrite sapp_nil_r in Hx. cbn [nwf_k]. rewrite sapp_nil_r.
  apply andb_true_intro. split.
  - destruct x as [name i|name|kw|body|c]; cbn [Denorm.dtok_ok ntok_ok] in *.
    + apply andb_true_iff in Hx as [Hx Hq]. apply andb_true_iff in Hx as [Hx Hix]. apply andb_true_iff in Hx as [Hid _].
      rewrite Hid, Hsx. cbn [andb]. destruct i as [z|s0]; [apply idx_ok_int|]. cbn [idx_body].
      destruct (lindex (lay name (IStr s0))) as [[[w1 w2] plus]|]; cbn [index_ok ibody] in Hix.
      * apply andb_true_iff in Hix as [Hix _]. apply andb_true_iff in Hix as [Hix _]. exact Hix.
      * discriminate.
    + apply andb_true_iff in Hx as [Hx Ho]. rewrite Hx. cbn [andb]. rewrite <- (sapp_nil_r (nflat r)). apply (head_open_same lay r "" Gr). rewrite sapp_nil_r. exact Ho.
    + apply andb_true_iff in Hx as [Hx Hb]. apply andb_true_iff in Hx as [Hx Hw]. apply andb_true_iff in Hx as [Hm Hp].
      rewrite Hm. apply negb_true_iff in Hp. assert (Hp' : pw' = false) by (destruct pw'; [specialize (Hpw eq_refl); congruence|reflexivity]).
      rewrite Hp'. cbn [negb andb].
      assert (Hst : match r with y :: _ => styled lay y = false | [] => True end) by (destruct r as [|y r']; [exact I|apply negb_true_iff; exact Hsx]).
      rewrite <- (sapp_nil_r (dflat lay r)) in Hw, Hb.
      destruct (kw_follow_same lay r "" Hsr Gr Hst Hw Hb) as [A B]. rewrite sapp_nil_r in A, B. rewrite A, B. reflexivity.
    + exact Hx.
    + apply orb_true_iff in Hx as [Hx|Hx]; [rewrite Hx; reflexivity|]. apply andb_true_iff in Hx as [Hc _]. rewrite Hc. cbn [andb].
      apply orb_true_iff. right. rewrite Hc in Hsx. rewrite <- (sapp_nil_r (nflat r)). apply (lt_ok_norm r "" Gr).
      * destruct (skip_blank_toks r) as [|y r']; [reflexivity|]. apply negb_true_iff. exact Hsx.
      * destruct (dwf_skip_blanks lay r _ _ Hr) as (pw2 & Hsk). destruct (skip_blank_toks r) as [|[| name | | |] r'] eqn:Er; try exact I.
        cbn [Denorm.dwf_k Denorm.dtok_ok ntok_ok] in Hsk. apply andb_true_iff in Hsk as [Hf Hr']. apply andb_true_iff in Hf as [_ Ho].
        apply (head_open_same lay r' "" (dwf_good lay r' _ _ Hr') Ho).
  - apply (IH (last_word pw (dtext lay x)) (last_word pw' (ntok_text x))); [|exact Hsr|exact Hr].
    destruct x as [name i|name|kw|body|c]; cbn [Denorm.dtext ntok_text].
    + rewrite last_word_term. discriminate.
    + pose proof (dtok_good lay pw _ _ Hx) as G. cbn [good] in G. destruct (fname_nonempty _ G) as (c & r0 & -> & _ & _). intros H. exact H.
    + pose proof (dtok_good lay pw _ _ Hx) as G. cbn [good] in G. destruct (KW_idc kw G) as [Ha _]. destruct kw; [discriminate|]. intros H; exact H.
    + intros H; exact H.
    + intros H; exact H.
Qed.

(* a source statement under dq_ok whose right-hand side is separated has a well-formed normalised equation *)
Theorem dq_ok_neq_wf lay q : dq_ok lay q = true -> sep_ok lay (nrhs q) = true -> neq_wf q = true.
Proof.
  unfold dq_ok. intros H Hsep. apply andb_true_iff in H as [H _].
  destruct q as [l r]. destruct l as [|[y [ky|s]| | | |] ws]; try discriminate.
  destruct (dq_ok_ws_parts lay y ky ws r H) as (Hid & Hkw & _ & _ & Hws & Hrhs & _).
  unfold neq_wf. cbn [nlhs nrhs]. apply andb_true_intro. split; [apply andb_true_intro; split|].
  - unfold nwf. cbn [nwf_k ntok_ok]. rewrite Hid, Hkw, idx_ok_int. cbn [andb].
    clear - Hws. generalize (last_word false (ntok_text (NTerm y (IInt ky)))). induction ws as [|x l IH]; intros p; [reflexivity|].
    cbn [forallb] in Hws. apply andb_true_iff in Hws as [Hx Hl]. destruct x as [| | | |c]; try discriminate.
    cbn [nwf_k ntok_ok]. pose proof (space_inert c Hx) as I. apply andb_true_iff in I as [I _]. rewrite I. cbn [orb andb]. apply IH, Hl.
  - unfold nwf. apply (src_to_norm lay r false false (fun E => E) Hsep Hrhs).
  - cbn [nflat ntok_text]. unfold term_text. rewrite !has_char_app.
    destruct (ident_nonempty _ Hid) as (c & r0 & _ & _ & Hall).
    rewrite (all_chars_no_char is_idc "=" y eq_refl Hall), (idxc_no "=" _ eq_refl (idx_body_chars ky)). cbn [has_char orb].
    assert (Hb : has_char "=" (nflat ws) = false).
    { clear - Hws. induction ws as [|x l IH]; [reflexivity|]. cbn [forallb] in Hws. apply andb_true_iff in Hws as [Hx Hl]. destruct x as [| | | |c]; try discriminate.
      cbn [nflat ntok_text append has_char]. rewrite (IH Hl). pose proof (space_inert c Hx) as I. apply andb_true_iff in I as [_ I]. apply negb_true_iff in I. rewrite I. reflexivity. }
    rewrite Hb. reflexivity.
Qed.
