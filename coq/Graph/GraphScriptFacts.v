(* GraphScriptFacts.v — from the parser model to the graph for SCRIPTS of several statements, inside the model:
     merge_equations     the cross-equation merge neither loses nor invents an equation: the equations of the merged symbol
                         list are, as a set, the equations of the per-statement symbol lists
     script_graph_edges  for a script that the splitter cuts into the statements denorm_text lay q_1 … denorm_text lay q_n
                         (each q_i under dq_ok / neq_wf, its assigned name not used as a function) and that parse_model
                         accepts: symbols_to_graph builds a graph whose edges are exactly
                         { x -> n | some q_i has n among its left-hand ids and x among its right-hand ids }. *)
From Coq Require Import String Ascii List Bool Arith Lia ZArith Permutation.
Import ListNotations.
Require Import Generated PyBase PyStr Lex Symbols SymbolsFacts Split Merge ParseEq ParseModel ParseContribFacts.
Require Import GLex GNorm GNormFacts Graph GraphFacts GraphTheorems Layout LayoutSplit MergeComm MergePerm Denorm DenormFacts GraphParseFacts.
Open Scope string_scope.

(* ================================================================== the merge keeps the set of equations *)
Lemma In_set_keep k v (d : list (string * symbol)) k' s : In (k', s) d -> k' <> k -> In (k', s) (dict_set k v d).
Proof.
  induction d as [|[k0 v0] r IH]; cbn [dict_set In]; [tauto|]. intros [H|H] Hne.
  - inversion H; subst. destruct (String.eqb_spec k k'); [congruence|left; reflexivity].
  - destruct (String.eqb k k0); [right; exact H|right; apply IH; assumption].
Qed.
Lemma In_set_new k v (d : list (string * symbol)) : In (k, v) (dict_set k v d).
Proof.
  induction d as [|[k0 v0] r IH]; cbn [dict_set]; [left; reflexivity|].
  destruct (String.eqb_spec k k0) as [->|]; [left; reflexivity|right; exact IH].
Qed.
Lemma In_get_nodup k s (d : list (string * symbol)) : NoDup (map fst d) -> In (k, s) d -> dict_get k d = Some s.
Proof.
  induction d as [|[k0 v0] r IH]; intros Hn Hin; [destruct Hin|]. cbn [map fst] in Hn. inversion Hn as [|? ? Hk Hr]; subst.
  cbn [dict_get]. destruct Hin as [H|H].
  - inversion H; subst. rewrite String.eqb_refl. reflexivity.
  - destruct (String.eqb_spec k k0) as [->|]; [|apply IH; assumption]. exfalso. apply Hk. apply (in_map fst _ _ H).
Qed.

(* every table entry is named by its key and tidy *)
Definition tinv (d : list (string * symbol)) : Prop :=
  NoDup (map fst d) /\ forall k s, In (k, s) d -> sname s = Some k /\ tidy s.
Definition deq (d : list (string * symbol)) (e : string) : Prop := exists k s, In (k, s) d /\ sequation s = Some e.

(* the equation of a combination: whatever either side had *)
Lemma combine_equation a b c e : combine a b = Ret c ->
  (sequation c = Some e <-> sequation a = Some e \/ sequation b = Some e).
Proof.
  intros H. destruct (combine_ret _ _ _ H) as (_ & _ & He & _).
  destruct (sequation a) as [x|], (sequation b) as [y|]; cbn [resolve_strings] in He.
  - destruct (String.eqb_spec x y) as [->|]; [|discriminate]. inversion He as [E]. split; [intros ->; auto|intros [E1|E1]; exact E1].
  - inversion He as [E]. split; [auto|intros [E1|E1]; [exact E1|discriminate]].
  - inversion He as [E]. split; [auto|intros [E1|E1]; [discriminate|exact E1]].
  - inversion He as [E]. split; [intros E1; discriminate|intros [E1|E1]; discriminate].
Qed.

Lemma combine_tidy x s c : tidy x -> tidy s -> combine x s = Ret c -> tidy c.
Proof.
  intros Tx Ts Hc. destruct (emits s) eqn:Es.
  - pose proof Ts as Ts'. unfold tidy in Ts'. rewrite Es in Ts'. destruct (combine_emitting_r _ _ _ Hc Ts' Es) as [Ec Tc].
    unfold tidy. rewrite Ec. exact Tc.
  - apply (combine_nonemitting_r _ _ _ Hc Tx Ts Es).
Qed.

Lemma merge_go_equations l : forall d v out,
  tinv d -> (forall s, In s l -> tidy s /\ sname s <> None) ->
  merge_go l d v = Ret out ->
  forall e, (exists s, In s out /\ sname s <> None /\ sequation s = Some e)
            <-> deq d e \/ (exists s, In s l /\ sequation s = Some e) \/ (exists s, In s v /\ sname s <> None /\ sequation s = Some e).
Proof.
  induction l as [|s l IH]; intros d v out Hd Hl Hgo e; cbn [merge_go] in Hgo.
  - inversion Hgo; subst out. split.
    + intros (x & Hin & Hn & He). apply in_app_iff in Hin as [Hin|Hin].
      * left. unfold dict_values in Hin. apply in_map_iff in Hin as ([k x'] & E & Hin). cbn [snd] in E. subst x'. exists k, x. auto.
      * right. right. exists x. split; [apply in_rev; exact Hin|auto].
    + intros [(k & x & Hin & He)|[(x & [] & _)|(x & Hin & Hn & He)]].
      * exists x. split; [apply in_or_app; left; apply (in_map snd _ _ Hin)|]. split; [|exact He].
        destruct (proj2 Hd k x Hin) as [Hn _]. congruence.
      * exists x. split; [apply in_or_app; right; apply in_rev in Hin; rewrite rev_involutive in Hin; exact Hin|auto].
  - destruct (Hl s (or_introl eq_refl)) as [Ts Hns]. destruct (sname s) as [name|] eqn:En; [|congruence].
    unfold dict_combine in Hgo.
    destruct (combine match dict_get name d with Some old => old | None => s end s) as [c|] eqn:Ec; [|discriminate].
    assert (Tx : tidy match dict_get name d with Some old => old | None => s end).
    { destruct (dict_get name d) as [old|] eqn:Eg; [apply (proj2 Hd name old (dict_get_In _ _ _ Eg))|exact Ts]. }
    assert (Hd' : tinv (dict_set name c d)).
    { split; [apply set_nodup, (proj1 Hd)|]. intros k x Hin. destruct (In_set _ _ _ _ _ Hin) as [[-> ->]|Hin']; [|apply (proj2 Hd), Hin'].
      split; [|apply (combine_tidy _ _ _ Tx Ts Ec)]. destruct (combine_ret _ _ _ Ec) as (Hn & _). rewrite Hn.
      destruct (dict_get name d) as [old|] eqn:Eg; [apply (proj2 Hd name old (dict_get_In _ _ _ Eg))|exact En]. }
    rewrite (IH (dict_set name c d) v out Hd' (fun x Hx => Hl x (or_intror Hx)) Hgo e).
    (* the equations of the new table: those of the old one and that of s *)
    assert (STEP : deq (dict_set name c d) e <-> deq d e \/ sequation s = Some e).
    { split.
      - intros (k & x & Hin & He). destruct (In_set _ _ _ _ _ Hin) as [[-> ->]|Hin']; [|left; exists k, x; auto].
        apply (combine_equation _ _ _ e Ec) in He as [He|He]; [|right; exact He].
        destruct (dict_get name d) as [old|] eqn:Eg; [left; exists name, old; split; [apply (dict_get_In _ _ _ Eg)|exact He]|right; exact He].
      - intros [(k & x & Hin & He)|He].
        + destruct (String.eqb_spec k name) as [->|Hne].
          * exists name, c. split; [apply In_set_new|]. apply (combine_equation _ _ _ e Ec). left.
            rewrite (In_get_nodup name x d (proj1 Hd) Hin). exact He.
          * exists k, x. split; [apply In_set_keep; assumption|exact He].
        + exists name, c. split; [apply In_set_new|]. apply (combine_equation _ _ _ e Ec). right. exact He. }
    rewrite STEP. split.
    + intros [[H|H]|[(x & Hin & He)|H]]; auto.
      * right. left. exists s. split; [left; reflexivity|exact H].
      * right. left. exists x. split; [right; exact Hin|exact He].
    + intros [H|[(x & [->|Hin] & He)|H]]; auto.
      right. left. exists x. auto.
Qed.

(* for tidy symbols the equations symbols_to_graph reads are the Some-equations *)
Lemma equations_of_In l e : (forall s, In s l -> tidy s) -> (In e (equations_of l) <-> exists s, In s l /\ sequation s = Some e).
Proof.
  intros Ht. induction l as [|s l IH]; [split; [intros []|intros (x & [] & _)]|].
  assert (IH' := IH (fun x Hx => Ht x (or_intror Hx))). cbn [equations_of].
  pose proof (Ht s (or_introl eq_refl)) as Ts. unfold tidy in Ts.
  destruct (sequation s) as [e0|] eqn:Es.
  - destruct (emits s) eqn:Em.
    + rewrite Ts. cbn [In]. rewrite IH'. split.
      * intros [->|(x & Hin & He)]; [exists s; split; [left; reflexivity|exact Es]|exists x; auto].
      * intros (x & [->|Hin] & He); [left; congruence|right; exists x; auto].
    + destruct Ts as (E & _). congruence.
  - replace (match stype s with TEndogenous => equations_of l | _ => equations_of l end) with (equations_of l) by (destruct (stype s); reflexivity).
    rewrite IH'. split.
    + intros (x & Hin & He). exists x. auto.
    + intros (x & [->|Hin] & He); [congruence|exists x; auto].
Qed.

Theorem merge_equations by_eq out :
  (forall s, In s (concat by_eq) -> tidy s /\ sname s <> None) ->
  merge_symbols by_eq = Ret out ->
  forall e, In e (equations_of out) <-> In e (equations_of (concat by_eq)).
Proof.
  intros Hl Hm e. unfold merge_symbols in Hm.
  pose proof (merge_go_equations (concat by_eq) [] [] out (conj (NoDup_nil _) (fun k s (H : In (k, s) []) => match H with end)) Hl Hm e) as M.
  assert (Tout : forall s, In s out -> tidy s /\ sname s <> None).
  { (* the output of a merge of named tidy symbols: table values only *)
    clear M e. revert Hm. generalize (@nil (string * symbol)) at 1 3.
    assert (G : forall l d, tinv d -> (forall s, In s l -> tidy s /\ sname s <> None) -> merge_go l d [] = Ret out ->
                forall s, In s out -> tidy s /\ sname s <> None).
    { induction l as [|s l IH]; intros d Hd Hl' Hgo x Hin; cbn [merge_go] in Hgo.
      - inversion Hgo; subst out. rewrite app_nil_r in Hin. unfold dict_values in Hin. apply in_map_iff in Hin as ([k x'] & E & Hin).
        cbn [snd] in E. subst x'. destruct (proj2 Hd k x Hin) as [Hn Tx]. split; [exact Tx|congruence].
      - destruct (Hl' s (or_introl eq_refl)) as [Ts Hns]. destruct (sname s) as [name|] eqn:En; [|congruence].
        unfold dict_combine in Hgo.
        destruct (combine match dict_get name d with Some old => old | None => s end s) as [c|] eqn:Ec; [|discriminate].
        assert (Tx : tidy match dict_get name d with Some old => old | None => s end).
        { destruct (dict_get name d) as [old|] eqn:Eg; [apply (proj2 Hd name old (dict_get_In _ _ _ Eg))|exact Ts]. }
        apply (IH (dict_set name c d)); [|intros y Hy; apply Hl'; right; exact Hy|exact Hgo|exact Hin].
        split; [apply set_nodup, (proj1 Hd)|]. intros k y Hy. destruct (In_set _ _ _ _ _ Hy) as [[-> ->]|Hy']; [|apply (proj2 Hd), Hy'].
        split; [|apply (combine_tidy _ _ _ Tx Ts Ec)]. destruct (combine_ret _ _ _ Ec) as (Hn & _). rewrite Hn.
        destruct (dict_get name d) as [old|] eqn:Eg; [apply (proj2 Hd name old (dict_get_In _ _ _ Eg))|exact En]. }
    intros d0 Hgo. apply (G (concat by_eq) [] (conj (NoDup_nil _) (fun k s (H : In (k, s) []) => match H with end)) Hl). exact Hgo. }
  rewrite (equations_of_In out e (fun s Hs => proj1 (Tout s Hs))), (equations_of_In (concat by_eq) e (fun s Hs => proj1 (Hl s Hs))).
  split.
  - intros (x & Hin & He). destruct (proj1 M (ex_intro _ x (conj Hin (conj (proj2 (Tout x Hin)) He)))) as [(k & y & [] & _)|[H|(y & [] & _)]]. exact H.
  - intros H. destruct (proj2 M (or_intror (or_introl H))) as (x & Hin & _ & He). exists x. auto.
Qed.
