(* GraphScriptFacts.v — from the parser model to the graph for SCRIPTS of several statements, inside the model:
     merge_equations     the cross-equation merge neither loses nor invents an equation: the equations of the merged symbol
                         list are, as a set, the equations of the per-statement symbol lists
     script_graph_edges  for a script that the splitter cuts into the statements denorm_text lay q_1 … denorm_text lay q_n
                         (each q_i under dq_ok / neq_wf) and that parse_model
                         accepts: symbols_to_graph builds a graph whose edges are exactly
                         { x -> n | some q_i has n among its left-hand ids and x among its right-hand ids }. *)
From Coq Require Import String Ascii List Bool Arith Lia ZArith Permutation.
Import ListNotations.
Require Import Generated PyBase PyStr Lex Symbols SymbolsFacts Split Merge ParseEq ParseModel ParseContribFacts.
Require Import GLex GNorm GNormFacts Graph GraphFacts GraphTheorems Layout LayoutSplit MergeComm MergePerm Denorm DenormFacts GraphParseFacts.
Open Scope string_scope.

(* ================================================================== the merge keeps the set of equations *)
Lemma In_set_keep k v (d : list (string * symbol)) k' s : In (k', s) d -> k' <> k -> In (k', s) (dict_set k v d).
Proof.
  induction d as [|[k0 v0] r IH]; cbn [dict_set In]; [tauto|]. intros [H|H] Hne.
  - inversion H; subst. destruct (String.eqb_spec k k'); [congruence|left; reflexivity].
  - destruct (String.eqb k k0); [right; exact H|right; apply IH; assumption].
Qed.
Lemma In_set_new k v (d : list (string * symbol)) : In (k, v) (dict_set k v d).
Proof.
  induction d as [|[k0 v0] r IH]; cbn [dict_set]; [left; reflexivity|].
  destruct (String.eqb_spec k k0) as [->|]; [left; reflexivity|right; exact IH].
Qed.
Lemma In_get_nodup k s (d : list (string * symbol)) : NoDup (map fst d) -> In (k, s) d -> dict_get k d = Some s.
Proof.
  induction d as [|[k0 v0] r IH]; intros Hn Hin; [destruct Hin|]. cbn [map fst] in Hn. inversion Hn as [|? ? Hk Hr]; subst.
  cbn [dict_get]. destruct Hin as [H|H].
  - inversion H; subst. rewrite String.eqb_refl. reflexivity.
  - destruct (String.eqb_spec k k0) as [->|]; [|apply IH; assumption]. exfalso. apply Hk. apply (in_map fst _ _ H).
Qed.

(* every table entry is named by its key and tidy *)
Definition tinv (d : list (string * symbol)) : Prop :=
  NoDup (map fst d) /\ forall k s, In (k, s) d -> sname s = Some k /\ tidy s.
Definition deq (d : list (string * symbol)) (e : string) : Prop := exists k s, In (k, s) d /\ sequation s = Some e.

(* the equation of a combination: whatever either side had *)
Lemma combine_equation a b c e : combine a b = Ret c ->
  (sequation c = Some e <-> sequation a = Some e \/ sequation b = Some e).
Proof.
  intros H. destruct (combine_ret _ _ _ H) as (_ & _ & He & _).
  destruct (sequation a) as [x|], (sequation b) as [y|]; cbn [resolve_strings] in He.
  - destruct (String.eqb_spec x y) as [->|]; [|discriminate]. inversion He as [E]. split; [intros ->; auto|intros [E1|E1]; exact E1].
  - inversion He as [E]. split; [auto|intros [E1|E1]; [exact E1|discriminate]].
  - inversion He as [E]. split; [auto|intros [E1|E1]; [discriminate|exact E1]].
  - inversion He as [E]. split; [intros E1; discriminate|intros [E1|E1]; discriminate].
Qed.

Lemma combine_tidy x s c : tidy x -> tidy s -> combine x s = Ret c -> tidy c.
Proof.
  intros Tx Ts Hc. destruct (emits s) eqn:Es.
  - pose proof Ts as Ts'. unfold tidy in Ts'. rewrite Es in Ts'. destruct (combine_emitting_r _ _ _ Hc Ts' Es) as [Ec Tc].
    unfold tidy. rewrite Ec. exact Tc.
  - apply (combine_nonemitting_r _ _ _ Hc Tx Ts Es).
Qed.

Lemma merge_go_equations l : forall d v out,
  tinv d -> (forall s, In s l -> tidy s /\ sname s <> None) ->
  merge_go l d v = Ret out ->
  forall e, (exists s, In s out /\ sname s <> None /\ sequation s = Some e)
            <-> deq d e \/ (exists s, In s l /\ sequation s = Some e) \/ (exists s, In s v /\ sname s <> None /\ sequation s = Some e).
Proof.
  induction l as [|s l IH]; intros d v out Hd Hl Hgo e; cbn [merge_go] in Hgo.
  - inversion Hgo; subst out. split.
    + intros (x & Hin & Hn & He). apply in_app_iff in Hin as [Hin|Hin].
      * left. unfold dict_values in Hin. apply in_map_iff in Hin as ([k x'] & E & Hin). cbn [snd] in E. subst x'. exists k, x. auto.
      * right. right. exists x. split; [apply in_rev; exact Hin|auto].
    + intros [(k & x & Hin & He)|[(x & [] & _)|(x & Hin & Hn & He)]].
      * exists x. split; [apply in_or_app; left; apply (in_map snd _ _ Hin)|]. split; [|exact He].
        destruct (proj2 Hd k x Hin) as [Hn _]. congruence.
      * exists x. split; [apply in_or_app; right; apply in_rev in Hin; exact Hin|auto].
  - destruct (Hl s (or_introl eq_refl)) as [Ts Hns]. destruct (sname s) as [name|] eqn:En; [|congruence].
    unfold dict_combine in Hgo.
    destruct (combine match dict_get name d with Some old => old | None => s end s) as [c|] eqn:Ec; [|discriminate].
    assert (Tx : tidy match dict_get name d with Some old => old | None => s end).
    { destruct (dict_get name d) as [old|] eqn:Eg; [apply (proj2 Hd name old (dict_get_In _ _ _ Eg))|exact Ts]. }
    assert (Hd' : tinv (dict_set name c d)).
    { split; [apply set_nodup, (proj1 Hd)|]. intros k x Hin. destruct (In_set _ _ _ _ _ Hin) as [[-> ->]|Hin']; [|apply (proj2 Hd), Hin'].
      split; [|apply (combine_tidy _ _ _ Tx Ts Ec)]. destruct (combine_ret _ _ _ Ec) as (Hn & _). rewrite Hn.
      destruct (dict_get name d) as [old|] eqn:Eg; [apply (proj2 Hd name old (dict_get_In _ _ _ Eg))|exact En]. }
    rewrite (IH (dict_set name c d) v out Hd' (fun x Hx => Hl x (or_intror Hx)) Hgo e).
    (* the equations of the new table: those of the old one and that of s *)
    assert (STEP : deq (dict_set name c d) e <-> deq d e \/ sequation s = Some e).
    { split.
      - intros (k & x & Hin & He). destruct (In_set _ _ _ _ _ Hin) as [[-> ->]|Hin']; [|left; exists k, x; auto].
        apply (combine_equation _ _ _ e Ec) in He as [He|He]; [|right; exact He].
        destruct (dict_get name d) as [old|] eqn:Eg; [left; exists name, old; split; [apply (dict_get_In _ _ _ Eg)|exact He]|right; exact He].
      - intros [(k & x & Hin & He)|He].
        + destruct (String.eqb_spec k name) as [->|Hne].
          * exists name, c. split; [apply In_set_new|]. apply (combine_equation _ _ _ e Ec). left.
            rewrite (In_get_nodup name x d (proj1 Hd) Hin). exact He.
          * exists k, x. split; [apply In_set_keep; assumption|exact He].
        + exists name, c. split; [apply In_set_new|]. apply (combine_equation _ _ _ e Ec). right. exact He. }
    rewrite STEP. split.
    + intros [[H|H]|[(x & Hin & He)|H]].
      * left. exact H.
      * right. left. exists s. split; [left; reflexivity|exact H].
      * right. left. exists x. split; [right; exact Hin|exact He].
      * right. right. exact H.
    + intros [H|[(x & [Ex|Hin] & He)|H]].
      * left. left. exact H.
      * subst x. left. right. exact He.
      * right. left. exists x. split; [exact Hin|exact He].
      * right. right. exact H.
Qed.

(* for tidy symbols the equations symbols_to_graph reads are the Some-equations *)
Lemma equations_of_In l e : (forall s, In s l -> tidy s) -> (In e (equations_of l) <-> exists s, In s l /\ sequation s = Some e).
Proof.
  intros Ht. induction l as [|s l IH]; [split; [intros []|intros (x & [] & _)]|].
  assert (IH' := IH (fun x Hx => Ht x (or_intror Hx))). cbn [equations_of].
  pose proof (Ht s (or_introl eq_refl)) as Ts. unfold tidy in Ts.
  destruct (sequation s) as [e0|] eqn:Es.
  - destruct (emits s) eqn:Em.
    + rewrite Ts. cbn [In]. rewrite IH'. split.
      * intros [E0|(x & Hin & He)]; [subst e0; exists s; split; [left; reflexivity|exact Es]|exists x; split; [right; exact Hin|exact He]].
      * intros (x & [Ex|Hin] & He); [subst x; left; congruence|right; exists x; split; assumption].
    + destruct Ts as (E & _). congruence.
  - replace (match stype s with TEndogenous => equations_of l | _ => equations_of l end) with (equations_of l) by (destruct (stype s); reflexivity).
    rewrite IH'. split.
    + intros (x & Hin & He). exists x. split; [right; exact Hin|exact He].
    + intros (x & [Ex|Hin] & He); [subst x; congruence|exists x; split; assumption].
Qed.

Lemma merge_go_named_tidy out l : forall d, tinv d -> (forall s, In s l -> tidy s /\ sname s <> None) -> merge_go l d [] = Ret out ->
  forall s, In s out -> tidy s /\ sname s <> None.
Proof.
  induction l as [|s l IH]; intros d Hd Hl' Hgo x Hin; cbn [merge_go] in Hgo.
  - inversion Hgo; subst out. rewrite app_nil_r in Hin. unfold dict_values in Hin. apply in_map_iff in Hin as ([k x'] & E & Hin).
    cbn [snd] in E. subst x'. destruct (proj2 Hd k x Hin) as [Hn Tx]. split; [exact Tx|congruence].
  - destruct (Hl' s (or_introl eq_refl)) as [Ts Hns]. destruct (sname s) as [name|] eqn:En; [|congruence].
    unfold dict_combine in Hgo.
    destruct (combine match dict_get name d with Some old => old | None => s end s) as [c|] eqn:Ec; [|discriminate].
    assert (Tx : tidy match dict_get name d with Some old => old | None => s end).
    { destruct (dict_get name d) as [old|] eqn:Eg; [apply (proj2 Hd name old (dict_get_In _ _ _ Eg))|exact Ts]. }
    apply (IH (dict_set name c d)); [|intros y Hy; apply Hl'; right; exact Hy|exact Hgo|exact Hin].
    split; [apply set_nodup, (proj1 Hd)|]. intros k y Hy. destruct (In_set _ _ _ _ _ Hy) as [[-> ->]|Hy']; [|apply (proj2 Hd), Hy'].
    split; [|apply (combine_tidy _ _ _ Tx Ts Ec)]. destruct (combine_ret _ _ _ Ec) as (Hn & _). rewrite Hn.
    destruct (dict_get name d) as [old|] eqn:Eg; [apply (proj2 Hd name old (dict_get_In _ _ _ Eg))|exact En].
Qed.

Lemma tinv_nil : tinv [].
Proof. split; [constructor|intros k s []]. Qed.

Theorem merge_equations by_eq out :
  (forall s, In s (concat by_eq) -> tidy s /\ sname s <> None) ->
  merge_symbols by_eq = Ret out ->
  forall e, In e (equations_of out) <-> In e (equations_of (concat by_eq)).
Proof.
  intros Hl Hm e. unfold merge_symbols in Hm.
  pose proof (merge_go_equations (concat by_eq) [] [] out tinv_nil Hl Hm e) as M.
  pose proof (merge_go_named_tidy out (concat by_eq) [] tinv_nil Hl Hm) as Tout.
  rewrite (equations_of_In out e (fun s Hs => proj1 (Tout s Hs))), (equations_of_In (concat by_eq) e (fun s Hs => proj1 (Hl s Hs))).
  split.
  - intros (x & Hin & He). destruct (proj1 M (ex_intro _ x (conj Hin (conj (proj2 (Tout x Hin)) He)))) as [(k & y & [] & _)|[H|(y & [] & _)]]. exact H.
  - intros H. destruct (proj2 M (or_intror (or_introl H))) as (x & Hin & _ & He). exists x. auto.
Qed.

(* ================================================================== scripts of several statements *)
Lemma map_p_ok {A B} (f : A -> pres B) l : forall bs, map_p f l = POk bs -> Forall2 (fun a b => f a = POk b) l bs.
Proof.
  induction l as [|a l IH]; intros bs H; cbn [map_p] in H.
  - inversion H. constructor.
  - destruct (f a) as [b| |] eqn:Ea; cbn [pbind] in H; try discriminate.
    destruct (map_p f l) as [bs'| |] eqn:El; cbn [pbind] in H; try discriminate. inversion H; subst. constructor; [exact Ea|apply IH; reflexivity].
Qed.

(* the symbols of one equation are all named *)
Lemma equation_symbols_go_named eqn code terms : forall d fs d',
  (forall k s, In (k, s) d -> sname s <> None) -> equation_symbols_go eqn code terms d fs = Ret d' ->
  forall k s, In (k, s) d' -> sname s <> None.
Proof.
  induction terms as [|t rest IH]; intros d fs d' Hd Hgo; cbn [equation_symbols_go] in Hgo; [inversion Hgo; subst; exact Hd|].
  assert (COMB : forall sym, sname sym = Some (tname t) ->
            match dict_combine (tname t) sym d with Ret d0 => equation_symbols_go eqn code rest d0 fs | Raise e => Raise e end = Ret d' ->
            forall k s, In (k, s) d' -> sname s <> None).
  { intros sym Hs Hg. unfold dict_combine in Hg.
    destruct (combine match dict_get (tname t) d with Some old => old | None => sym end sym) as [c|] eqn:Ec; [|discriminate].
    refine (IH _ _ _ _ Hg). intros k s Hin. destruct (In_set _ _ _ _ _ Hin) as [[_ ->]|Hin']; [|apply (Hd k s Hin')].
    destruct (combine_ret _ _ _ Ec) as (Hn & _). rewrite Hn.
    destruct (dict_get (tname t) d) as [old|] eqn:Eg; [apply (Hd _ _ (dict_get_In _ _ _ Eg))|rewrite Hs; discriminate]. }
  destruct (ttype t) eqn:Ety.
  all: try (match type of Hgo with
            | match dict_combine _ ?sym _ with _ => _ end = _ => apply (COMB sym eq_refl Hgo)
            end).
  apply (IH _ _ _ Hd Hgo).
Qed.
Lemma equation_symbols_named eqn code terms syms : equation_symbols eqn code terms = Ret syms -> forall s, In s syms -> sname s <> None.
Proof.
  unfold equation_symbols. destruct (equation_symbols_go eqn code terms [] []) as [d|] eqn:E; [|discriminate]. intros H; inversion H; subst.
  intros s Hin. unfold dict_values in Hin. apply in_map_iff in Hin as ([k s'] & Es & Hin). cbn [snd] in Es. subst s'.
  apply (equation_symbols_go_named eqn code terms [] [] d (fun k s (H0 : In (k, s) []) => match H0 with end) E k s Hin).
Qed.

(* what the parse of one de-normalised statement looks like *)
Definition stmt_ok_q (lay : layout) (q : neq) : Prop :=
  exists y ky ws r, q = mkNeq (NTerm y (IInt ky) :: ws) r /\ dq_ok lay q = true /\ neq_wf q = true.

Lemma reparsed_symbols lay q syms : stmt_ok_q lay q -> parse_equation_M (denorm_text lay q) = POk syms ->
  equations_of syms = [neq_text q] /\ forall s, In s syms -> tidy s /\ sname s <> None.
Proof.
  intros (y & ky & ws & r & -> & Hq & Hw) Hp. split; [apply (reparsed_equations lay y ky ws r syms Hq Hp)|].
  pose proof Hp as Hp0. rewrite (normal_form_fixed_point lay _ Hq) in Hp.
  set (q := mkNeq (NTerm y (IInt ky) :: ws) r) in *.
  destruct (equation_symbols (neq_text q) (neq_code q) (lneq_terms lay q)) as [l|] eqn:E; [|discriminate]. inversion Hp; subst l.
  unfold dq_ok in Hq. apply andb_true_iff in Hq as [Hq _]. destruct (dq_ok_ws_parts lay y ky ws r Hq) as (_ & _ & _ & Hl & Hws & _).
  assert (Hst : lstyle (lay y (IInt ky)) = SVar) by (unfold lhs_lay_ok in Hl; destruct (lstyle (lay y (IInt ky))); [reflexivity|discriminate|discriminate]).
  assert (Hws0 : lay_terms lay TEndogenous ws = []).
  { clear - Hws. induction ws as [|x l IH]; [reflexivity|]. cbn [forallb] in Hws. apply andb_true_iff in Hws as [Hx Hl].
    destruct x; try discriminate. cbn [lay_terms lay_term tok_term]. apply IH, Hl. }
  assert (G : lhs_guard y (lneq_terms lay q) = true).
  { unfold lneq_terms, q. cbn [nlhs nrhs lay_terms lay_term]. rewrite Hws0, Hst. unfold lhs_guard. cbn [app forallb ttype tname style_type].
    rewrite String.eqb_refl. apply (lhs_guard_terms lay y r). }
  assert (HE : has_type TEndogenous (lneq_terms lay q) = true).
  { unfold lneq_terms, q. cbn [nlhs nrhs lay_terms lay_term]. rewrite Hst. reflexivity. }
  destruct (equation_symbols_one _ _ y _ _ G HE E) as [_ Htidy].
  intros s Hin. split; [apply Htidy, Hin|apply (equation_symbols_named _ _ _ _ E s Hin)].
Qed.

(* two well-formed normalised equations with the same text have the same ids on either side *)
Lemma neq_text_ids q q' : neq_wf q = true -> neq_wf q' = true -> neq_text q = neq_text q' ->
  nids (nlhs q) = nids (nlhs q') /\ nids (nrhs q) = nids (nrhs q').
Proof.
  intros W W' E. pose proof (neq_split q W) as S. rewrite E, (neq_split q' W') in S. inversion S as [[El Er]].
  unfold neq_wf in W, W'. apply andb_true_iff in W as [W _]. apply andb_true_iff in W as [Wl Wr].
  apply andb_true_iff in W' as [W' _]. apply andb_true_iff in W' as [Wl' Wr'].
  rewrite <- (finditer_nflat _ Wl), <- (finditer_nflat _ Wr), <- (finditer_nflat _ Wl'), <- (finditer_nflat _ Wr'), El, Er. split; reflexivity.
Qed.

Lemma equations_of_concat_parts lay qs : forall by_eq,
  Forall (stmt_ok_q lay) qs -> Forall2 (fun st b => parse_equation_M st = POk b) (map (denorm_text lay) qs) by_eq ->
  equations_of (concat by_eq) = map neq_text qs /\ forall s, In s (concat by_eq) -> tidy s /\ sname s <> None.
Proof.
  induction qs as [|q qs IH]; intros by_eq Hq H2; cbn [map] in H2.
  - inversion H2; subst. split; [reflexivity|intros s []].
  - inversion H2 as [|? b ? bs Hp Hr]; subst. inversion Hq as [|? ? Hq1 Hqr]; subst.
    destruct (reparsed_symbols lay q b Hq1 Hp) as [Eb Tb]. destruct (IH bs Hqr Hr) as [Er Tr].
    cbn [concat map]. rewrite equations_of_app, Eb, Er. split; [reflexivity|].
    intros s Hin. apply in_app_iff in Hin as [Hin|Hin]; [apply Tb, Hin|apply Tr, Hin].
Qed.

Theorem script_graph_edges lay qs s syms :
  Forall (stmt_ok_q lay) qs ->
  split_M s = (map (denorm_text lay) qs, None) ->
  parse_model_nocheck s = POk syms ->
  exists g, symbols_to_graph_M syms = Ret g /\
    forall x n, is_edge g x n = true <-> exists q, In q qs /\ In n (nids (nlhs q)) /\ In x (nids (nrhs q)).
Proof.
  intros Hq Hs Hp. rewrite parse_model_by_statements, Hs in Hp. cbn [fst snd] in Hp.
  destruct (map_p parse_equation_M (map (denorm_text lay) qs)) as [by_eq| |] eqn:Em; cbn [pbind finish_parse] in Hp; try discriminate.
  destruct (merge_symbols by_eq) as [out|] eqn:Eg; cbn [of_outcome] in Hp; [|discriminate]. inversion Hp; subst out.
  destruct (equations_of_concat_parts lay qs by_eq Hq (map_p_ok _ _ _ Em)) as [Ec Tc].
  pose proof (merge_equations by_eq syms Tc Eg) as M.
  assert (Wq : forall q, In q qs -> neq_wf q = true).
  { intros q Hin. rewrite Forall_forall in Hq. destruct (Hq q Hin) as (? & ? & ? & ? & _ & _ & W). exact W. }
  (* one token list of qs for every equation of the merged symbols *)
  set (pick := fun e => find (fun q => String.eqb (neq_text q) e) qs).
  assert (PK : forall e, In e (equations_of syms) -> exists q, pick e = Some q /\ In q qs /\ neq_text q = e).
  { intros e He. apply M in He. rewrite Ec in He. apply in_map_iff in He as (q & E & Hin). unfold pick.
    destruct (find (fun q0 => String.eqb (neq_text q0) e) qs) as [q0|] eqn:Ef.
    - apply find_some in Ef as [Hin0 E0]. apply String.eqb_eq in E0. exists q0. auto.
    - exfalso. pose proof (find_none _ _ Ef q Hin) as N. cbn beta in N. rewrite E, String.eqb_refl in N. discriminate. }
  assert (EX : exists qs', map neq_text qs' = equations_of syms /\ forall q', In q' qs' -> In q' qs).
  { clear M. induction (equations_of syms) as [|e l IH]; [exists []; split; [reflexivity|intros ? []]|].
    destruct (PK e (or_introl eq_refl)) as (q & _ & Hin & E). destruct (IH (fun e' He' => PK e' (or_intror He'))) as (qs' & Em' & Hs').
    exists (q :: qs'). split; [cbn [map]; rewrite E, Em'; reflexivity|]. intros q' [<-|H]; [exact Hin|apply Hs', H]. }
  destruct EX as (qs' & Em' & Hsub).
  assert (Wf' : forallb neq_wf qs' = true) by (apply forallb_forall; intros q' H'; apply Wq, Hsub, H').
  exists (graph_of qs'). split; [apply (graph_total syms qs' (eq_sym Em') Wf')|].
  intros x n. rewrite edges_exact. split.
  - intros (q' & Hin' & Hn & Hx). exists q'. split; [apply Hsub, Hin'|auto].
  - intros (q & Hin & Hn & Hx).
    assert (He : In (neq_text q) (equations_of syms)) by (apply M; rewrite Ec; apply in_map; exact Hin).
    rewrite <- Em' in He. apply in_map_iff in He as (q' & E & Hin').
    destruct (neq_text_ids q' q (Wq q' (Hsub q' Hin')) (Wq q Hin) E) as [El Er].
    exists q'. split; [exact Hin'|]. rewrite El, Er. auto.
Qed.
