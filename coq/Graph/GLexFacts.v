(* GLexFacts.v — what Lex.scan / Lex.match_here (the model of term_re.finditer) do on a text given piece by piece:
     scan_pieces            lex_ok pw ps  ->  scan pos 0 pw (flat ps) = items_of pos ps
   and, per alternative of the regex, which match is found at the head of a rendered token, for ALL names, index
   texts, blanks and continuations (the only facts used about the keyword list of Generated.v are closed computations):
     match_here_var_idx / match_here_var_bare      NAME[ idx ]  /  NAME
     match_here_bracketed_idx / _bare              { NAME }[ idx ]  < NAME >
     match_here_func                               NAME blanks (          (blanks swallowed)
     match_here_kw                                 keyword at a word boundary
     match_here_verb                               `text`
     match_here_inert / match_here_lt              a character where nothing starts *)
From Coq Require Import String Ascii List Bool Arith Lia.
Import ListNotations.
Require Import Generated PyStr Lex GLex.
Open Scope string_scope.
Open Scope nat_scope.

(* ================================================================== 256-character sweeps *)
Lemma ascii_sweep (P : ascii -> bool) :
  forallb (fun n => P (ascii_of_nat n)) (seq 0 256) = true -> forall c, P c = true.
Proof.
  intros H c. rewrite forallb_forall in H.
  rewrite <- (ascii_nat_embedding c). apply H. apply in_seq.
  pose proof (nat_ascii_bounded c). lia.
Qed.
Lemma sweep_impl (P Q : ascii -> bool) :
  forallb (fun n => implb (P (ascii_of_nat n)) (Q (ascii_of_nat n))) (seq 0 256) = true ->
  forall c, P c = true -> Q c = true.
Proof.
  intros H c Hc. pose proof (ascii_sweep (fun c => implb (P c) (Q c)) H c) as E. cbn in E. rewrite Hc in E. exact E.
Qed.
Ltac sweep := apply sweep_impl; vm_compute; reflexivity.

Lemma alpha_idc c : is_alpha_ c = true -> is_idc c = true.
Proof. unfold is_idc. intros ->. reflexivity. Qed.
Lemma idc_fnc c : is_idc c = true -> is_fnc c = true.
Proof. unfold is_fnc. intros ->. reflexivity. Qed.
Lemma idc_word : forall c, is_idc c = true -> is_word c = true.
Proof. sweep. Qed.
Lemma fnc_not_space : forall c, is_fnc c = true -> negb (is_space c) = true.
Proof. sweep. Qed.
Lemma fnc_not_open : forall c, is_fnc c = true -> negb (Ascii.eqb c "[") && negb (Ascii.eqb c "(") = true.
Proof. sweep. Qed.
Lemma space_not_fnc : forall c, is_space c = true -> negb (is_fnc c) = true.
Proof. sweep. Qed.
Lemma space_not_special : forall c, is_space c = true ->
  negb (Ascii.eqb c "]") && negb (Ascii.eqb c "(") && negb (Ascii.eqb c "[") && negb (Ascii.eqb c "}") && negb (Ascii.eqb c ">") = true.
Proof. sweep. Qed.
Lemma alpha_not_tick : forall c, is_alpha_ c = true ->
  negb (Ascii.eqb c "`") && negb (Ascii.eqb c "{") && negb (Ascii.eqb c "<") = true.
Proof. sweep. Qed.
Lemma space_not_alpha : forall c, is_space c = true -> negb (is_alpha_ c) = true.
Proof. sweep. Qed.

(* ================================================================== strings *)
Lemma slen_app a b : String.length (a ++ b) = String.length a + String.length b.
Proof. induction a as [|c a IH]; cbn; [reflexivity|]. rewrite IH. reflexivity. Qed.
Lemma sapp_assoc a b c : (a ++ b) ++ c = a ++ (b ++ c).
Proof. induction a as [|x a IH]; cbn; [reflexivity|]. rewrite IH. reflexivity. Qed.
Lemma sapp_nil_r a : a ++ "" = a.
Proof. induction a as [|x a IH]; cbn; [reflexivity|]. rewrite IH. reflexivity. Qed.

Lemma all_chars_app p a b : all_chars p (a ++ b) = all_chars p a && all_chars p b.
Proof. induction a as [|c a IH]; cbn; [reflexivity|]. rewrite IH. apply andb_assoc. Qed.
Lemma all_chars_impl (p q : ascii -> bool) s : (forall c, p c = true -> q c = true) -> all_chars p s = true -> all_chars q s = true.
Proof.
  intros H. induction s as [|c s IH]; cbn; [reflexivity|]. intros E. apply andb_true_iff in E as [E1 E2].
  rewrite (H _ E1), (IH E2). reflexivity.
Qed.
Lemma head_not_app p a b : a <> "" -> head_not p (a ++ b) = head_not p a.
Proof. destruct a; [congruence|reflexivity]. Qed.

Lemma span_while_all p a rest :
  all_chars p a = true -> head_not p rest = true -> span_while p (a ++ rest) = (a, rest).
Proof.
  induction a as [|c a IH]; cbn; intros Ha Hr.
  - destruct rest as [|d r]; cbn in *; [reflexivity|]. apply negb_true_iff in Hr. rewrite Hr. reflexivity.
  - apply andb_true_iff in Ha as [Hc Ha]. rewrite Hc, (IH Ha Hr). reflexivity.
Qed.
Lemma span_while_none p s : head_not p s = true -> span_while p s = ("", s).
Proof. intros H. apply (span_while_all p "" s eq_refl H). Qed.

Lemma prefix_rest_self k r : prefix_rest k (k ++ r) = Some r.
Proof. induction k as [|c k IH]; cbn; [destruct r; reflexivity|]. rewrite Ascii.eqb_refl. exact IH. Qed.
Lemma prefix_rest_nil s : prefix_rest "" s = Some s.
Proof. destruct s; reflexivity. Qed.
(* a prefix of a ++ b is a prefix of a, or a followed by a non-empty prefix of b *)
Lemma prefix_rest_app k : forall a b r, prefix_rest k (a ++ b) = Some r ->
  (exists a', a = k ++ a' /\ r = a' ++ b) \/ (exists k', k' <> "" /\ k = a ++ k' /\ prefix_rest k' b = Some r).
Proof.
  induction k as [|c k IH]; intros a b r.
  - rewrite prefix_rest_nil. intros H; inversion H; subst. left. exists a. split; reflexivity.
  - destruct a as [|d a].
    + cbn [append]. intros H. right. exists (String c k). repeat split; [discriminate|exact H].
    + cbn. destruct (Ascii.eqb_spec c d) as [->|]; [|discriminate]. intros H.
      destruct (IH _ _ _ H) as [(a' & -> & ->)|(k' & Hk & -> & Hp)].
      * left. exists a'. split; reflexivity.
      * right. exists k'. repeat split; assumption.
Qed.
Lemma has_char_app ch a b : has_char ch (a ++ b) = has_char ch a || has_char ch b.
Proof. induction a as [|c a IH]; cbn; [reflexivity|]. rewrite IH. apply orb_assoc. Qed.
Lemma find_any_app ch a b : has_char ch a = false -> find_any ch (a ++ String ch b) = Some (a, b).
Proof.
  induction a as [|c a IH]; cbn.
  - intros _. rewrite Ascii.eqb_refl. reflexivity.
  - intros E. apply orb_false_iff in E as [E1 E2]. rewrite E1, (IH E2). reflexivity.
Qed.
Lemma find_on_line_app ch a b : has_char ch a = false -> has_nl a = false -> find_on_line ch (a ++ String ch b) = Some (a, b).
Proof.
  unfold has_nl. induction a as [|c a IH]; cbn.
  - intros _ _. rewrite Ascii.eqb_refl. reflexivity.
  - intros E N. apply orb_false_iff in E as [E1 E2]. apply orb_false_iff in N as [N1 N2].
    rewrite E1, N1, (IH E2 N2). reflexivity.
Qed.
Lemma all_chars_no_char p ch s : p ch = false -> all_chars p s = true -> has_char ch s = false.
Proof.
  intros Hp. induction s as [|c s IH]; cbn; [reflexivity|]. intros E. apply andb_true_iff in E as [E1 E2].
  rewrite (IH E2), orb_false_r. destruct (Ascii.eqb_spec c ch); [subst; congruence|reflexivity].
Qed.

(* ---- reversal and strip ---- *)
Definition srev (s : string) : string := rev_str s "".
Lemma rev_str_acc s : forall acc, rev_str s acc = srev s ++ acc.
Proof.
  unfold srev. induction s as [|c s IH]; intros acc; cbn; [reflexivity|].
  rewrite (IH (String c acc)), (IH (String c "")), sapp_assoc. reflexivity.
Qed.
Lemma srev_app a b : srev (a ++ b) = srev b ++ srev a.
Proof.
  induction a as [|c a IH]; cbn.
  - rewrite sapp_nil_r. reflexivity.
  - change (srev (String c (a ++ b))) with (rev_str (a ++ b) (String c "")).
    change (srev (String c a)) with (rev_str a (String c "")).
    rewrite (rev_str_acc (a ++ b)), (rev_str_acc a), IH, sapp_assoc. reflexivity.
Qed.
Lemma srev_invol s : srev (srev s) = s.
Proof.
  induction s as [|c s IH]; [reflexivity|].
  change (String c s) with (String c "" ++ s) at 1. rewrite srev_app, srev_app, IH. reflexivity.
Qed.
Lemma all_chars_srev p s : all_chars p (srev s) = all_chars p s.
Proof.
  induction s as [|c s IH]; [reflexivity|].
  change (String c s) with (String c "" ++ s) at 1. rewrite srev_app, all_chars_app, IH. cbn. rewrite andb_true_r. apply andb_comm.
Qed.
(* last character of s fails p (true for the empty string) *)
Definition last_not (p : ascii -> bool) (s : string) : bool := head_not p (srev s).

Lemma lstrip_app p w x : all_chars p w = true -> head_not p x = true -> lstrip_by p (w ++ x) = x.
Proof. intros Hw Hx. unfold lstrip_by. rewrite (span_while_all p w x Hw Hx). reflexivity. Qed.
Lemma rstrip_app p x w : all_chars p w = true -> last_not p x = true -> rstrip_by p (x ++ w) = x.
Proof.
  intros Hw Hx. unfold rstrip_by. fold (srev (x ++ w)). rewrite srev_app.
  rewrite lstrip_app; [|rewrite all_chars_srev; exact Hw|exact Hx]. fold (srev (srev x)). apply srev_invol.
Qed.
Lemma strip_app p w1 x w2 :
  all_chars p w1 = true -> all_chars p w2 = true -> head_not p x = true -> last_not p x = true ->
  strip_by p (w1 ++ x ++ w2) = x.
Proof.
  intros H1 H2 Hh Hl. unfold strip_by. destruct x as [|c x].
  - cbn [append]. unfold lstrip_by. rewrite <- (sapp_nil_r w2) at 1.
    rewrite <- (sapp_assoc w1 w2 ""). rewrite (span_while_all p (w1 ++ w2) "" ); [reflexivity| |reflexivity].
    rewrite all_chars_app, H1, H2. reflexivity.
  - rewrite (lstrip_app p w1 (String c x ++ w2) H1); [|exact Hh]. apply rstrip_app; assumption.
Qed.

(* ================================================================== the index group  [ blanks INDEX blanks ] *)
(* INDEX text: no "]", no newline, no blank at either end *)
Definition idx_inner_ok (inner : string) : bool :=
  negb (has_char "]" inner) && negb (has_nl inner) && head_not is_space inner && last_not is_space inner.
Definition blanks (w : string) : bool := all_chars is_space w.

Lemma blanks_no_close w : blanks w = true -> has_char "]" w = false.
Proof.
  unfold blanks. induction w as [|c w IH]; cbn; [reflexivity|]. intros E. apply andb_true_iff in E as [E1 E2].
  rewrite (IH E2), orb_false_r. pose proof (space_not_special c E1) as H.
  repeat (apply andb_true_iff in H as [H ?]). apply negb_true_iff. exact H.
Qed.

Definition idx_text (w1 inner w2 : string) : string := "[" ++ w1 ++ inner ++ w2 ++ "]".
Lemma idx_text_len w1 inner w2 : String.length (idx_text w1 inner w2) = 2 + String.length (w1 ++ inner ++ w2).
Proof. unfold idx_text. cbn [append String.length]. rewrite !slen_app. cbn [String.length]. lia. Qed.

Lemma index_group_idx w1 inner w2 after :
  blanks w1 = true -> blanks w2 = true -> idx_inner_ok inner = true ->
  index_group (idx_text w1 inner w2 ++ after) = Some (inner, String.length (idx_text w1 inner w2)).
Proof.
  intros B1 B2 Hi. unfold idx_inner_ok in Hi.
  apply andb_true_iff in Hi as [Hi Hl]. apply andb_true_iff in Hi as [Hi Hh]. apply andb_true_iff in Hi as [Hc Hn].
  apply negb_true_iff in Hc, Hn.
  rewrite idx_text_len. unfold idx_text, index_group. cbn [append]. rewrite Ascii.eqb_refl.
  replace ((w1 ++ inner ++ w2 ++ "]") ++ after) with ((w1 ++ inner ++ w2) ++ String "]" after)
    by (rewrite !sapp_assoc; reflexivity).
  rewrite find_any_app.
  2:{ rewrite !has_char_app, (blanks_no_close _ B1), (blanks_no_close _ B2), Hc. reflexivity. }
  unfold re_strip. rewrite (strip_app is_space w1 inner w2 B1 B2 Hh Hl). rewrite Hn. reflexivity.
Qed.
Lemma index_group_none s : head_not (fun c => Ascii.eqb c "[") s = true -> index_group s = None.
Proof. destruct s as [|c s]; cbn; [reflexivity|]. intros H. apply negb_true_iff in H. rewrite H. reflexivity. Qed.

(* ================================================================== the keyword alternatives on a name *)
Definition kws_ok (kws : list string) : bool := forallb (fun k => head_sat is_alpha_ k && all_chars is_idc k) kws.
Lemma KW_ok : kws_ok KW = true.
Proof. vm_compute. reflexivity. Qed.

Lemma head_sat_app p a b : a <> "" -> head_sat p (a ++ b) = head_sat p a.
Proof. destruct a; [congruence|reflexivity]. Qed.

(* the continuation of a name: not an identifier character *)
Lemma kw_overrun_impossible k' after r :
  k' <> "" -> all_chars is_idc k' = true -> head_not is_idc after = true -> prefix_rest k' after = Some r -> False.
Proof.
  destruct k' as [|c k']; [congruence|]. intros _ Hk Ha. cbn in Hk. apply andb_true_iff in Hk as [Hc _].
  destruct after as [|d after]; cbn; [discriminate|]. cbn in Ha.
  destruct (Ascii.eqb_spec c d) as [->|]; [|discriminate]. rewrite Hc in Ha. discriminate.
Qed.

Definition kw_free_in (kws : list string) (w : string) : bool :=
  forallb (fun k => match prefix_rest k w with
                    | Some (String c _) => is_word c
                    | Some "" => false
                    | None => true
                    end) kws.

Lemma try_invalid_name kws w after :
  kws_ok kws = true -> all_chars is_fnc w = true -> kw_free_in kws w = true -> head_not is_idc after = true ->
  try_invalid kws (w ++ after) = None.
Proof.
  intros Hk Hw Hf Ha. induction kws as [|k kws IH]; [reflexivity|].
  cbn [kws_ok forallb] in Hk. apply andb_true_iff in Hk as [Hk0 Hk]. apply andb_true_iff in Hk0 as [Hka Hki].
  cbn [kw_free_in forallb] in Hf. apply andb_true_iff in Hf as [Hf0 Hf].
  cbn [try_invalid]. destruct (prefix_rest k (w ++ after)) as [r|] eqn:Ep; [|apply IH; assumption].
  destruct (prefix_rest_app _ _ _ _ Ep) as [(a' & -> & ->)|(k' & Hne & -> & Hp)].
  - rewrite prefix_rest_self in Hf0. destruct a' as [|c a'].
    + discriminate.
    + rewrite all_chars_app in Hw. apply andb_true_iff in Hw as [_ Hw]. cbn in Hw. apply andb_true_iff in Hw as [Hc _].
      cbn [append]. cbn [span_while]. pose proof (fnc_not_space c Hc) as Hs. apply negb_true_iff in Hs. rewrite Hs.
      pose proof (fnc_not_open c Hc) as Ho. apply andb_true_iff in Ho as [Ho _]. apply negb_true_iff in Ho. rewrite Ho.
      apply IH; assumption.
  - exfalso. rewrite all_chars_app in Hki. apply andb_true_iff in Hki as [_ Hki].
    eapply kw_overrun_impossible; eauto.
Qed.

Lemma try_keyword_name kws w after :
  kws_ok kws = true -> kw_free_in kws w = true -> head_not is_idc after = true ->
  try_keyword kws (w ++ after) = None.
Proof.
  intros Hk Hf Ha. induction kws as [|k kws IH]; [reflexivity|].
  cbn [kws_ok forallb] in Hk. apply andb_true_iff in Hk as [Hk0 Hk]. apply andb_true_iff in Hk0 as [Hka Hki].
  cbn [kw_free_in forallb] in Hf. apply andb_true_iff in Hf as [Hf0 Hf].
  cbn [try_keyword]. destruct (prefix_rest k (w ++ after)) as [r|] eqn:Ep; [|apply IH; assumption].
  destruct (prefix_rest_app _ _ _ _ Ep) as [(a' & -> & ->)|(k' & Hne & -> & Hp)].
  - rewrite prefix_rest_self in Hf0. destruct a' as [|c a']; [discriminate|].
    cbn [append]. rewrite Hf0. apply IH; assumption.
  - exfalso. rewrite all_chars_app in Hki. apply andb_true_iff in Hki as [_ Hki].
    eapply kw_overrun_impossible; eauto.
Qed.

(* nothing of the keyword alternatives starts at a character that is not a letter or underscore *)
Lemma try_invalid_nonalpha kws c r : kws_ok kws = true -> is_alpha_ c = false -> try_invalid kws (String c r) = None.
Proof.
  intros Hk Hc. induction kws as [|k kws IH]; [reflexivity|].
  cbn [kws_ok forallb] in Hk. apply andb_true_iff in Hk as [Hk0 Hk]. apply andb_true_iff in Hk0 as [Hka _].
  cbn [try_invalid]. destruct k as [|d k]; [discriminate|]. cbn [head_sat] in Hka. cbn [prefix_rest].
  destruct (Ascii.eqb_spec d c) as [->|]; [congruence|]. apply IH. exact Hk.
Qed.
Lemma try_keyword_nonalpha kws c r : kws_ok kws = true -> is_alpha_ c = false -> try_keyword kws (String c r) = None.
Proof.
  intros Hk Hc. induction kws as [|k kws IH]; [reflexivity|].
  cbn [kws_ok forallb] in Hk. apply andb_true_iff in Hk as [Hk0 Hk]. apply andb_true_iff in Hk0 as [Hka _].
  cbn [try_keyword]. destruct k as [|d k]; [discriminate|]. cbn [head_sat] in Hka. cbn [prefix_rest].
  destruct (Ascii.eqb_spec d c) as [->|]; [congruence|]. apply IH. exact Hk.
Qed.

Lemma try_verbatim_none s : head_not (fun c => Ascii.eqb c "`") s = true -> try_verbatim s = None.
Proof.
  destruct s as [|c [|c1 r]]; cbn; try reflexivity; intros H; apply negb_true_iff in H; rewrite H; reflexivity.
Qed.

Lemma try_function_nonalpha c r : is_alpha_ c = false -> try_function (String c r) = None.
Proof. intros H. unfold try_function. rewrite H. reflexivity. Qed.
Lemma try_bracketed_other op cl k s : head_not (fun c => Ascii.eqb c op) s = true -> try_bracketed op cl k s = None.
Proof. destruct s as [|c s]; cbn; [reflexivity|]. intros H. apply negb_true_iff in H. rewrite H. reflexivity. Qed.
Lemma try_variable_nonalpha c r : is_alpha_ c = false -> try_variable (String c r) = None.
Proof. intros H. unfold try_variable. rewrite H. reflexivity. Qed.

(* a name followed by something that is not "blanks (": the FUNCTION alternative fails *)
Lemma try_function_name w after :
  all_chars is_fnc w = true -> head_not is_fnc after = true -> negb (head_is "(" (skip_ws after)) = true ->
  try_function (w ++ after) = None.
Proof.
  intros Hw Ha Hp. destruct (w ++ after) as [|c s] eqn:E; [reflexivity|].
  unfold try_function. destruct (is_alpha_ c); [|reflexivity]. rewrite <- E.
  rewrite (span_while_all is_fnc w after Hw Ha). unfold skip_ws in Hp.
  destruct (span_while is_space after) as [ws r2]. cbn in Hp.
  destruct r2 as [|d r2]; [reflexivity|]. cbn in Hp. apply negb_true_iff in Hp. rewrite Hp. reflexivity.
Qed.

Lemma kw_free_unfold w : kw_free w = kw_free_in KW w.
Proof. reflexivity. Qed.

Lemma ident_nonempty name : is_ident name = true -> exists c r, name = String c r /\ is_alpha_ c = true /\ all_chars is_idc name = true.
Proof.
  unfold is_ident. destruct name as [|c r]; cbn; [discriminate|]. intros H. apply andb_true_iff in H as [H1 H2].
  exists c, r. auto.
Qed.
Lemma fname_nonempty name : is_fname name = true -> exists c r, name = String c r /\ is_alpha_ c = true /\ all_chars is_fnc name = true.
Proof.
  unfold is_fname. destruct name as [|c r]; cbn; [discriminate|]. intros H. apply andb_true_iff in H as [H1 H2].
  exists c, r. auto.
Qed.
Lemma ident_fname name : is_ident name = true -> is_fname name = true.
Proof.
  unfold is_ident, is_fname. intros H. apply andb_true_iff in H as [H1 H2]. rewrite H1.
  apply (all_chars_impl is_idc is_fnc _ idc_fnc H2).
Qed.

(* ================================================================== VARIABLE *)
Lemma head_not_weaken (p q : ascii -> bool) s : (forall c, q c = true -> p c = true) -> head_not p s = true -> head_not q s = true.
Proof.
  intros H. destruct s as [|c s]; cbn; [reflexivity|]. intros E. apply negb_true_iff in E. apply negb_true_iff.
  destruct (q c) eqn:Eq; [rewrite (H _ Eq) in E; discriminate|reflexivity].
Qed.

Lemma try_variable_name name rest :
  is_ident name = true -> head_not is_idc rest = true ->
  try_variable (name ++ rest) = Some (with_index KVariable name (String.length name) rest).
Proof.
  intros Hid Hr. destruct (ident_nonempty _ Hid) as (c & r & En & Hc & Hall). subst name.
  cbn [append]. unfold try_variable. rewrite Hc.
  change (String c (r ++ rest)) with (String c r ++ rest).
  rewrite (span_while_all is_idc (String c r) rest Hall Hr). reflexivity.
Qed.

Theorem match_here_var_idx pw name w1 inner w2 after :
  is_ident name = true -> kw_free name = true ->
  blanks w1 = true -> blanks w2 = true -> idx_inner_ok inner = true ->
  match_here pw (name ++ idx_text w1 inner w2 ++ after)
  = Some (mkMatch KVariable name (Some inner) (String.length name + String.length (idx_text w1 inner w2))).
Proof.
  intros Hid Hkw B1 B2 Hi. destruct (ident_nonempty _ Hid) as (c & r & En & Hc & Hall).
  assert (Hfn : all_chars is_fnc name = true) by (apply (all_chars_impl is_idc is_fnc _ idc_fnc Hall)).
  set (rest := idx_text w1 inner w2 ++ after).
  assert (Hrest_idc : head_not is_idc rest = true) by reflexivity.
  assert (Hrest_fnc : head_not is_fnc rest = true) by reflexivity.
  unfold match_here.
  rewrite try_verbatim_none.
  2:{ rewrite En. cbn. pose proof (alpha_not_tick c Hc) as H. repeat (apply andb_true_iff in H as [H ?]). exact H. }
  rewrite (try_invalid_name KW name rest KW_ok Hfn Hkw Hrest_idc).
  replace (if pw then None else try_keyword KW (name ++ rest)) with (@None tmatch)
    by (destruct pw; [reflexivity|symmetry; apply (try_keyword_name KW name rest KW_ok Hkw Hrest_idc)]).
  rewrite (try_function_name name rest Hfn Hrest_fnc eq_refl).
  rewrite (try_bracketed_other "{" "}").
  2:{ rewrite En. cbn. pose proof (alpha_not_tick c Hc) as H. repeat (apply andb_true_iff in H as [H ?]). assumption. }
  rewrite (try_bracketed_other "<" ">").
  2:{ rewrite En. cbn. pose proof (alpha_not_tick c Hc) as H. repeat (apply andb_true_iff in H as [H ?]). assumption. }
  cbn [or_else]. rewrite (try_variable_name name rest Hid Hrest_idc).
  unfold with_index, rest. rewrite (index_group_idx w1 inner w2 after B1 B2 Hi). reflexivity.
Qed.

(* what may follow a name written without an index: no identifier/function character, no "[", no "blanks (" *)
Definition bare_follow (after : string) : bool :=
  head_not is_fnc after && head_not (fun c => Ascii.eqb c "[") after && negb (head_is "(" (skip_ws after)).

Theorem match_here_var_bare pw name after :
  is_ident name = true -> kw_free name = true -> bare_follow after = true ->
  match_here pw (name ++ after) = Some (mkMatch KVariable name None (String.length name)).
Proof.
  intros Hid Hkw Hf. destruct (ident_nonempty _ Hid) as (c & r & En & Hc & Hall).
  unfold bare_follow in Hf. apply andb_true_iff in Hf as [Hf Hp]. apply andb_true_iff in Hf as [Hff Hfb].
  assert (Hfn : all_chars is_fnc name = true) by (apply (all_chars_impl is_idc is_fnc _ idc_fnc Hall)).
  assert (Hidc : head_not is_idc after = true) by (apply (head_not_weaken is_fnc is_idc _ idc_fnc Hff)).
  unfold match_here.
  rewrite try_verbatim_none.
  2:{ rewrite En. cbn. pose proof (alpha_not_tick c Hc) as H. repeat (apply andb_true_iff in H as [H ?]). exact H. }
  rewrite (try_invalid_name KW name after KW_ok Hfn Hkw Hidc).
  replace (if pw then None else try_keyword KW (name ++ after)) with (@None tmatch)
    by (destruct pw; [reflexivity|symmetry; apply (try_keyword_name KW name after KW_ok Hkw Hidc)]).
  rewrite (try_function_name name after Hfn Hff Hp).
  rewrite (try_bracketed_other "{" "}").
  2:{ rewrite En. cbn. pose proof (alpha_not_tick c Hc) as H. repeat (apply andb_true_iff in H as [H ?]). assumption. }
  rewrite (try_bracketed_other "<" ">").
  2:{ rewrite En. cbn. pose proof (alpha_not_tick c Hc) as H. repeat (apply andb_true_iff in H as [H ?]). assumption. }
  cbn [or_else]. rewrite (try_variable_name name after Hid Hidc).
  unfold with_index. rewrite (index_group_none after Hfb). reflexivity.
Qed.

(* ================================================================== { NAME } and < NAME > *)
Definition brk_text (op cl : ascii) (w1 name w2 : string) : string := String op (w1 ++ name ++ w2 ++ String cl "").
Lemma brk_text_len op cl w1 name w2 :
  String.length (brk_text op cl w1 name w2) = 2 + String.length w1 + String.length name + String.length w2.
Proof. unfold brk_text. cbn [append String.length]. rewrite !slen_app. cbn [String.length]. lia. Qed.

Lemma blanks_head_not_idc_after w x : blanks w = true -> head_not is_space x = true -> span_while is_space (w ++ x) = (w, x).
Proof. intros. apply span_while_all; assumption. Qed.

Lemma try_bracketed_text op cl k w1 name w2 after :
  is_space cl = false -> is_idc cl = false ->
  is_ident name = true -> blanks w1 = true -> blanks w2 = true ->
  try_bracketed op cl k (brk_text op cl w1 name w2 ++ after)
  = Some (with_index k name (String.length (brk_text op cl w1 name w2)) after).
Proof.
  intros Hcs Hci Hid B1 B2. destruct (ident_nonempty _ Hid) as (c & r & En & Hc & Hall).
  rewrite brk_text_len. unfold brk_text, try_bracketed. cbn [append]. rewrite Ascii.eqb_refl.
  rewrite !sapp_assoc.
  assert (Hsp : is_space c = false).
  { pose proof (fnc_not_space c (idc_fnc _ (alpha_idc _ Hc))) as H. apply negb_true_iff in H. exact H. }
  rewrite (span_while_all is_space w1 (name ++ w2 ++ String cl "" ++ after) B1).
  2:{ rewrite En. cbn [append head_not]. rewrite Hsp. reflexivity. }
  subst name. cbn [append]. rewrite Hc.
  change (String c (r ++ w2 ++ String cl (after))) with (String c r ++ w2 ++ String cl "" ++ after).
  rewrite (span_while_all is_idc (String c r) (w2 ++ String cl "" ++ after) Hall).
  2:{ destruct w2 as [|d w2]; cbn [append head_not].
      - rewrite Hci. reflexivity.
      - unfold blanks in B2. cbn [all_chars] in B2. apply andb_true_iff in B2 as [B2 _].
        pose proof (space_not_fnc d B2) as H. apply negb_true_iff in H.
        unfold is_fnc in H. apply orb_false_iff in H as [H _]. rewrite H. reflexivity. }
  rewrite (span_while_all is_space w2 (String cl "" ++ after) B2).
  2:{ cbn [append head_not]. rewrite Hcs. reflexivity. }
  cbn [append]. rewrite Ascii.eqb_refl. reflexivity.
Qed.

Theorem match_here_par pw w1 name w2 after :
  is_ident name = true -> blanks w1 = true -> blanks w2 = true ->
  match_here pw (brk_text "{" "}" w1 name w2 ++ after)
  = Some (with_index KParameter name (String.length (brk_text "{" "}" w1 name w2)) after).
Proof.
  intros Hid B1 B2.
  pose proof (try_bracketed_text "{" "}" KParameter w1 name w2 after eq_refl eq_refl Hid B1 B2) as Hb.
  remember (brk_text "{" "}" w1 name w2 ++ after) as s eqn:Es.
  assert (Hs : exists rest, s = String "{" rest) by (rewrite Es; unfold brk_text; cbn [append]; eexists; reflexivity).
  destruct Hs as (rest & Hs). clear Es. subst s.
  assert (Hk : (if pw then None else try_keyword KW (String "{" rest)) = None)
    by (destruct pw; [reflexivity|apply try_keyword_nonalpha; [exact KW_ok|reflexivity]]).
  unfold match_here.
  rewrite try_verbatim_none by reflexivity.
  rewrite (try_invalid_nonalpha KW "{" rest KW_ok eq_refl).
  rewrite Hk.
  rewrite (try_function_nonalpha "{" rest eq_refl).
  cbn [or_else]. rewrite Hb. reflexivity.
Qed.

Theorem match_here_err pw w1 name w2 after :
  is_ident name = true -> blanks w1 = true -> blanks w2 = true ->
  match_here pw (brk_text "<" ">" w1 name w2 ++ after)
  = Some (with_index KError name (String.length (brk_text "<" ">" w1 name w2)) after).
Proof.
  intros Hid B1 B2.
  pose proof (try_bracketed_text "<" ">" KError w1 name w2 after eq_refl eq_refl Hid B1 B2) as Hb.
  remember (brk_text "<" ">" w1 name w2 ++ after) as s eqn:Es.
  assert (Hs : exists rest, s = String "<" rest) by (rewrite Es; unfold brk_text; cbn [append]; eexists; reflexivity).
  destruct Hs as (rest & Hs). clear Es. subst s.
  assert (Hk : (if pw then None else try_keyword KW (String "<" rest)) = None)
    by (destruct pw; [reflexivity|apply try_keyword_nonalpha; [exact KW_ok|reflexivity]]).
  unfold match_here.
  rewrite try_verbatim_none by reflexivity.
  rewrite (try_invalid_nonalpha KW "<" rest KW_ok eq_refl).
  rewrite Hk.
  rewrite (try_function_nonalpha "<" rest eq_refl).
  rewrite (try_bracketed_other "{" "}") by reflexivity.
  cbn [or_else]. rewrite Hb. reflexivity.
Qed.

Lemma with_index_idx k name base w1 inner w2 after :
  blanks w1 = true -> blanks w2 = true -> idx_inner_ok inner = true ->
  with_index k name base (idx_text w1 inner w2 ++ after) = mkMatch k name (Some inner) (base + String.length (idx_text w1 inner w2)).
Proof. intros B1 B2 Hi. unfold with_index. rewrite (index_group_idx w1 inner w2 after B1 B2 Hi). reflexivity. Qed.
Lemma with_index_bare k name base after :
  head_not (fun c => Ascii.eqb c "[") after = true -> with_index k name base after = mkMatch k name None base.
Proof. intros H. unfold with_index. rewrite (index_group_none after H). reflexivity. Qed.

(* ================================================================== FUNCTION *)
Lemma try_function_text name ws after :
  is_fname name = true -> blanks ws = true ->
  try_function (name ++ ws ++ String "(" after) = Some (mkMatch KFunction name None (String.length name + String.length ws)).
Proof.
  intros Hfn Bw. destruct (fname_nonempty _ Hfn) as (c & r & En & Hc & Hall). subst name.
  assert (Hrest_fnc : head_not is_fnc (ws ++ String "(" after) = true).
  { destruct ws as [|d ws]; cbn [append head_not]; [reflexivity|]. unfold blanks in Bw. cbn [all_chars] in Bw.
    apply andb_true_iff in Bw as [Bw _]. apply (space_not_fnc d Bw). }
  cbn [append]. unfold try_function. rewrite Hc.
  change (String c (r ++ ws ++ String "(" after)) with (String c r ++ ws ++ String "(" after).
  rewrite (span_while_all is_fnc (String c r) _ Hall Hrest_fnc).
  rewrite (span_while_all is_space ws (String "(" after) Bw eq_refl). rewrite Ascii.eqb_refl. reflexivity.
Qed.

Theorem match_here_func pw name ws after :
  is_fname name = true -> kw_free name = true -> blanks ws = true ->
  match_here pw (name ++ ws ++ String "(" after)
  = Some (mkMatch KFunction name None (String.length name + String.length ws)).
Proof.
  intros Hfn Hkw Bw. destruct (fname_nonempty _ Hfn) as (c & r & En & Hc & Hall).
  set (rest := ws ++ String "(" after).
  assert (Hrest_idc : head_not is_idc rest = true).
  { unfold rest. destruct ws as [|d ws]; cbn; [reflexivity|]. cbn in Bw. apply andb_true_iff in Bw as [Bw _].
    pose proof (space_not_fnc d Bw) as H. apply negb_true_iff in H. unfold is_fnc in H. apply orb_false_iff in H as [H _].
    rewrite H. reflexivity. }
  assert (Hrest_fnc : head_not is_fnc rest = true).
  { unfold rest. destruct ws as [|d ws]; cbn; [reflexivity|]. cbn in Bw. apply andb_true_iff in Bw as [Bw _].
    apply (space_not_fnc d Bw). }
  unfold match_here.
  rewrite try_verbatim_none.
  2:{ rewrite En. cbn. pose proof (alpha_not_tick c Hc) as H. repeat (apply andb_true_iff in H as [H ?]). exact H. }
  rewrite (try_invalid_name KW name rest KW_ok Hall Hkw Hrest_idc).
  replace (if pw then None else try_keyword KW (name ++ rest)) with (@None tmatch)
    by (destruct pw; [reflexivity|symmetry; apply (try_keyword_name KW name rest KW_ok Hkw Hrest_idc)]).
  cbn [or_else]. unfold rest. rewrite (try_function_text name ws after Hfn Bw). reflexivity.
Qed.

(* ================================================================== KEYWORD *)
(* after a keyword: end of text or a non-word character, and not  blanks [  (that would be the INVALID alternative) *)
Definition kw_follow (after : string) : bool :=
  head_not is_word after && negb (head_is "[" (skip_ws after)).

Lemma head_not_word_idc after : head_not is_word after = true -> head_not is_idc after = true.
Proof. apply head_not_weaken. exact idc_word. Qed.

(* every keyword of the list that is a prefix of k ++ after is a prefix of k *)
Lemma try_invalid_kw kws k after :
  kws_ok kws = true -> all_chars is_idc k = true -> kw_follow after = true -> try_invalid kws (k ++ after) = None.
Proof.
  intros Hk Hkk Hf. unfold kw_follow in Hf. apply andb_true_iff in Hf as [Hw Hb].
  pose proof (head_not_word_idc _ Hw) as Hidc.
  induction kws as [|k0 kws IH]; [reflexivity|].
  cbn [kws_ok forallb] in Hk. apply andb_true_iff in Hk as [Hk0 Hk]. apply andb_true_iff in Hk0 as [Hka Hki].
  cbn [try_invalid]. destruct (prefix_rest k0 (k ++ after)) as [r|] eqn:Ep; [|apply IH; assumption].
  destruct (prefix_rest_app _ _ _ _ Ep) as [(a' & -> & ->)|(k' & Hne & -> & Hp)].
  - destruct a' as [|c a'].
    + cbn [append]. unfold skip_ws in Hb. destruct (span_while is_space after) as [ws r2]. cbn in Hb.
      destruct r2 as [|d r2]; [apply IH; assumption|]. cbn in Hb. apply negb_true_iff in Hb. rewrite Hb. apply IH; assumption.
    + rewrite all_chars_app in Hkk. apply andb_true_iff in Hkk as [_ Hkk]. cbn in Hkk. apply andb_true_iff in Hkk as [Hc _].
      cbn [append span_while]. pose proof (fnc_not_space c (idc_fnc _ Hc)) as Hs. apply negb_true_iff in Hs. rewrite Hs.
      pose proof (fnc_not_open c (idc_fnc _ Hc)) as Ho. apply andb_true_iff in Ho as [Ho _]. apply negb_true_iff in Ho. rewrite Ho.
      apply IH; assumption.
  - exfalso. rewrite all_chars_app in Hki. apply andb_true_iff in Hki as [_ Hki].
    eapply kw_overrun_impossible; eauto.
Qed.

Lemma try_keyword_kw kws k after :
  kws_ok kws = true -> In k kws -> all_chars is_idc k = true -> head_not is_word after = true ->
  try_keyword kws (k ++ after) = Some (mkMatch KKeyword k None (String.length k)).
Proof.
  intros Hk Hin Hkk Hw. pose proof (head_not_word_idc _ Hw) as Hidc.
  induction kws as [|k0 kws IH]; [destruct Hin|].
  cbn [kws_ok forallb] in Hk. apply andb_true_iff in Hk as [Hk0 Hk]. apply andb_true_iff in Hk0 as [Hka Hki].
  cbn [try_keyword]. destruct (prefix_rest k0 (k ++ after)) as [r|] eqn:Ep.
  - destruct (prefix_rest_app _ _ _ _ Ep) as [(a' & E & ->)|(k' & Hne & -> & Hp)].
    + destruct a' as [|c a'].
      * rewrite sapp_nil_r in E. subst k0. cbn [append]. destruct after as [|d after]; [reflexivity|].
        cbn [head_not] in Hw. apply negb_true_iff in Hw. rewrite Hw. reflexivity.
      * subst k. rewrite all_chars_app in Hkk. apply andb_true_iff in Hkk as [_ Hkk]. cbn [all_chars] in Hkk. apply andb_true_iff in Hkk as [Hc _].
        cbn [append]. rewrite (idc_word _ Hc).
        destruct Hin as [E|Hin].
        { exfalso. apply (f_equal String.length) in E. rewrite slen_app in E. cbn in E. lia. }
        apply IH; assumption.
    + exfalso. rewrite all_chars_app in Hki. apply andb_true_iff in Hki as [_ Hki].
      eapply kw_overrun_impossible; eauto.
  - destruct Hin as [E|Hin]; [subst k0; rewrite prefix_rest_self in Ep; discriminate|]. apply IH; assumption.
Qed.

Lemma KW_idc k : In k KW -> head_sat is_alpha_ k = true /\ all_chars is_idc k = true.
Proof.
  intros H. pose proof KW_ok as Hk. unfold kws_ok in Hk. rewrite forallb_forall in Hk. specialize (Hk _ H).
  apply andb_true_iff in Hk. exact Hk.
Qed.

Theorem match_here_kw k after :
  In k KW -> kw_follow after = true ->
  match_here false (k ++ after) = Some (mkMatch KKeyword k None (String.length k)).
Proof.
  intros Hin Hf. destruct (KW_idc k Hin) as [Ha Hall].
  pose proof Hf as Hf'. unfold kw_follow in Hf'. apply andb_true_iff in Hf' as [Hw _].
  unfold match_here.
  rewrite try_verbatim_none.
  2:{ destruct k as [|c k]; [discriminate|]. cbn [append head_not]. cbn [head_sat] in Ha. pose proof (alpha_not_tick c Ha) as H.
      repeat (apply andb_true_iff in H as [H ?]). exact H. }
  rewrite (try_invalid_kw KW k after KW_ok Hall Hf). cbn [or_else].
  rewrite (try_keyword_kw KW k after KW_ok Hin Hall Hw). reflexivity.
Qed.

(* ================================================================== VERBATIM *)
Definition verb_body_ok (body : string) : bool :=
  negb (has_char "`" body) && negb (has_nl body) && head_sat (fun _ => true) body.

Theorem match_here_verb pw body after :
  verb_body_ok body = true ->
  match_here pw (String "`" (body ++ String "`" after))
  = Some (mkMatch KVerbatim (String "`" (body ++ "`")) None (2 + String.length body)).
Proof.
  unfold verb_body_ok. intros H. apply andb_true_iff in H as [H Hne]. apply andb_true_iff in H as [Hb Hn].
  apply negb_true_iff in Hb, Hn. destruct body as [|c1 body]; [discriminate|].
  unfold match_here, try_verbatim. cbn [append]. rewrite Ascii.eqb_refl.
  unfold has_nl in Hn. cbn [has_char] in Hn, Hb. apply orb_false_iff in Hn as [Hn1 Hn2]. apply orb_false_iff in Hb as [Hb1 Hb2].
  rewrite Hn1. rewrite (find_on_line_app "`" body after Hb2 Hn2). cbn [or_else]. reflexivity.
Qed.

(* ================================================================== characters where nothing starts *)
Theorem match_here_inert pw c rest : inert c = true -> match_here pw (String c rest) = None.
Proof.
  unfold inert. intros H. apply andb_true_iff in H as [H Hlt]. apply andb_true_iff in H as [H Hbr]. apply andb_true_iff in H as [Ha Ht].
  apply negb_true_iff in Ha.
  unfold match_here.
  rewrite try_verbatim_none by exact Ht.
  rewrite (try_invalid_nonalpha KW c rest KW_ok Ha).
  replace (if pw then None else try_keyword KW (String c rest)) with (@None tmatch)
    by (destruct pw; [reflexivity|symmetry; apply (try_keyword_nonalpha KW c rest KW_ok Ha)]).
  rewrite (try_function_nonalpha c rest Ha).
  rewrite (try_bracketed_other "{" "}") by exact Hbr.
  rewrite (try_bracketed_other "<" ">") by exact Hlt.
  rewrite (try_variable_nonalpha c rest Ha). reflexivity.
Qed.

Theorem match_here_lt pw rest : lt_ok rest = true -> match_here pw (String "<" rest) = None.
Proof.
  unfold lt_ok. intros H. unfold match_here.
  rewrite try_verbatim_none by reflexivity.
  rewrite (try_invalid_nonalpha KW "<" rest KW_ok eq_refl).
  replace (if pw then None else try_keyword KW (String "<" rest)) with (@None tmatch)
    by (destruct pw; [reflexivity|symmetry; apply (try_keyword_nonalpha KW "<" rest KW_ok eq_refl)]).
  rewrite (try_function_nonalpha "<" rest eq_refl).
  rewrite (try_bracketed_other "{" "}") by reflexivity.
  destruct (try_bracketed "<" ">" KError (String "<" rest)); [discriminate|].
  rewrite (try_variable_nonalpha "<" rest eq_refl). reflexivity.
Qed.

(* "<" followed by blanks and then something that is not a letter: no error term starts *)
Lemma lt_ok_nonalpha ws rest : blanks ws = true -> head_not is_space rest = true -> head_not is_alpha_ rest = true -> lt_ok (ws ++ rest) = true.
Proof.
  intros Bw Hs Ha. unfold lt_ok, try_bracketed. rewrite Ascii.eqb_refl.
  rewrite (span_while_all is_space ws rest Bw Hs).
  destruct rest as [|a r]; [reflexivity|]. cbn [head_not] in Ha. apply negb_true_iff in Ha. rewrite Ha. reflexivity.
Qed.
(* "<" blanks NAME followed by something other than  blanks ">" *)
Lemma lt_ok_name ws name after :
  blanks ws = true -> name <> "" -> all_chars is_idc name = true -> head_not is_idc after = true ->
  negb (head_is ">" (skip_ws after)) = true -> lt_ok (ws ++ name ++ after) = true.
Proof.
  intros Bw Hne Hall Hidc Hgt. unfold lt_ok, try_bracketed. rewrite Ascii.eqb_refl.
  destruct name as [|c r]; [congruence|].
  assert (Hc : is_space c = false).
  { cbn [all_chars] in Hall. apply andb_true_iff in Hall as [Hc _]. pose proof (fnc_not_space c (idc_fnc _ Hc)) as H. apply negb_true_iff in H. exact H. }
  rewrite (span_while_all is_space ws (String c r ++ after) Bw).
  2:{ cbn [append head_not]. rewrite Hc. reflexivity. }
  cbn [append]. destruct (is_alpha_ c); [|reflexivity].
  change (String c (r ++ after)) with (String c r ++ after).
  rewrite (span_while_all is_idc (String c r) after Hall Hidc).
  unfold skip_ws in Hgt. destruct (span_while is_space after) as [w2 r3]. cbn in Hgt.
  destruct r3 as [|d r4]; [reflexivity|]. cbn in Hgt. apply negb_true_iff in Hgt. rewrite Hgt. reflexivity.
Qed.

(* ================================================================== scanning piece by piece *)
Lemma scan_skip t : forall pos pw rest,
  scan pos (String.length t) pw (t ++ rest) = scan (pos + String.length t) 0 (last_word pw t) rest.
Proof.
  induction t as [|c t IH]; intros pos pw rest; cbn [String.length append last_word].
  - rewrite Nat.add_0_r. reflexivity.
  - cbn [scan]. rewrite IH. f_equal. lia.
Qed.

Lemma scan_tok pos pw t m rest :
  t <> "" -> mlen m = String.length t -> match_here pw (t ++ rest) = Some m ->
  scan pos 0 pw (t ++ rest) = Tok pos m :: scan (pos + String.length t) 0 (last_word pw t) rest.
Proof.
  intros Hne Hlen Hm. destruct t as [|c t]; [congruence|].
  cbn [append scan]. cbn [append] in Hm. rewrite Hm. f_equal.
  rewrite Hlen. cbn [String.length]. rewrite Nat.sub_succ, Nat.sub_0_r.
  rewrite scan_skip. cbn [last_word]. f_equal. lia.
Qed.

Lemma scan_chr pos pw c rest :
  match_here pw (String c rest) = None -> scan pos 0 pw (String c rest) = Chr c :: scan (S pos) 0 (is_word c) rest.
Proof. intros H. cbn [scan]. rewrite H. reflexivity. Qed.

Theorem scan_pieces ps : forall pos pw, lex_ok pw ps -> scan pos 0 pw (flat ps) = items_of pos ps.
Proof.
  induction ps as [|p ps IH]; intros pos pw H; [reflexivity|].
  destruct p as [t m|c]; cbn [flat items_of lex_ok] in *.
  - destruct H as (Hne & Hlen & Hm & Hr). rewrite (scan_tok pos pw t m (flat ps) Hne Hlen Hm). f_equal. apply IH. exact Hr.
  - destruct H as (Hm & Hr). rewrite (scan_chr pos pw c (flat ps) Hm). f_equal. apply IH. exact Hr.
Qed.

Lemma matches_of_items pos ps : matches_of (items_of pos ps) = piece_matches ps.
Proof. revert pos. induction ps as [|[t m|c] ps IH]; intros pos; cbn; [reflexivity| |]; rewrite IH; reflexivity. Qed.

Corollary scan_items_pieces ps : lex_ok false ps -> scan_items (flat ps) = items_of 0 ps.
Proof. apply scan_pieces. Qed.
Corollary matches_pieces ps : lex_ok false ps -> matches_of (scan_items (flat ps)) = piece_matches ps.
Proof. intros H. rewrite (scan_items_pieces ps H). apply matches_of_items. Qed.
