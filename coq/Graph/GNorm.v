(* GNorm.v — normalised equations as token lists (what parse_equation stores in Symbol.equation), and the
   rendering of an Eval.expr / Eval.stmt as such an equation.  Definitions only.

   In a normalised equation every variable, parameter and error term is printed by Term.__str__ as
   NAME[t], NAME[t+k], NAME[t-k] or NAME[period] (braces and angle brackets are gone), functions and keywords by
   their name, verbatim fragments with their backticks; everything else (numerals, operators, brackets, commas,
   single blanks) is text outside every term. *)
From Coq Require Import String Ascii List Bool Arith ZArith.
Import ListNotations.
Require Import Generated PyBase PyStr Lex Symbols Merge ParseEq GLex Solver Eval.
Open Scope string_scope.

Inductive ntok : Type :=
| NTerm (name : string) (i : pidx)      (* NAME[...] *)
| NFunc (name : string)                 (* function name, directly followed by "(" *)
| NKw (k : string)                      (* Python keyword *)
| NVerb (body : string)                 (* `body` *)
| NChr (c : ascii).                     (* one character outside every term *)

(* the text between the brackets of Term.__str__ *)
Definition idx_body (i : pidx) : string :=
  match i with
  | IInt z => if (0 <? z)%Z then "t+" ++ string_of_Z z else if (z =? 0)%Z then "t" else "t" ++ string_of_Z z
  | IStr s => s
  end.
Definition term_text (name : string) (i : pidx) : string := name ++ "[" ++ idx_body i ++ "]".

Definition ntok_text (x : ntok) : string :=
  match x with
  | NTerm name i => term_text name i
  | NFunc name => name
  | NKw k => k
  | NVerb body => String "`" (body ++ "`")
  | NChr c => String c ""
  end.
Fixpoint nflat (l : list ntok) : string :=
  match l with [] => "" | x :: r => ntok_text x ++ nflat r end.

Definition is_term_tok (x : ntok) : bool := match x with NChr _ => false | _ => true end.
(* group(0) of every match, in order *)
Fixpoint nids (l : list ntok) : list string :=
  match l with
  | [] => []
  | NChr _ :: r => nids r
  | x :: r => ntok_text x :: nids r
  end.
(* the variable / parameter / error terms, in order *)
Fixpoint nterms (l : list ntok) : list (string * pidx) :=
  match l with
  | [] => []
  | NTerm name i :: r => (name, i) :: nterms r
  | _ :: r => nterms r
  end.

(* INDEX text: no "]", no newline, no blank at either end (GLexFacts.idx_inner_ok restated on computable parts) *)
Definition idx_ok (inner : string) : bool :=
  negb (has_char "]" inner) && negb (has_nl inner) && head_not is_space inner && head_not is_space (rev_str inner "").

(* one token is lexed as itself when the text `rest` follows and the character before is / is not a \w *)
Definition ntok_ok (pw : bool) (x : ntok) (rest : string) : bool :=
  match x with
  | NTerm name i => is_ident name && kw_free name && idx_ok (idx_body i)
  | NFunc name => is_fname name && kw_free name && head_is "(" rest
  | NKw k => mem_string k KW && negb pw && head_not is_word rest && negb (head_is "[" (skip_ws rest))
  | NVerb body => negb (has_char "`" body) && negb (has_nl body) && head_sat (fun _ => true) body
  | NChr c => inert c || (Ascii.eqb c "<" && lt_ok rest)
  end.
(* k = the text that follows the whole list *)
Fixpoint nwf_k (pw : bool) (l : list ntok) (k : string) : bool :=
  match l with
  | [] => true
  | x :: r => ntok_ok pw x (nflat r ++ k) && nwf_k (last_word pw (ntok_text x)) r k
  end.
Definition nwf (l : list ntok) : bool := nwf_k false l "".

(* a normalised equation: tokens left and right of the first "=" *)
Record neq : Type := mkNeq { nlhs : list ntok; nrhs : list ntok }.
Definition neq_text (q : neq) : string := nflat (nlhs q) ++ "=" ++ nflat (nrhs q).
Definition neq_wf (q : neq) : bool := nwf (nlhs q) && nwf (nrhs q) && negb (has_char "=" (nflat (nlhs q))).

Definition nchars (s : string) : list ntok := map NChr (list_ascii_of_string s).

(* ---- an Eval.stmt as a normalised equation (fully parenthesised) ---- *)
Section Render.
  Variable num : Type.
  Variable vname : nat -> string.          (* name of variable number x *)
  Variable show : num -> string.           (* a numeral *)
  Variable f1name f2name : nat -> string.  (* names of the unary / binary functions *)

  Definition binop_text (o : binop) : string :=
    match o with OAdd => "+" | OSub => "-" | OMul => "*" | ODiv => "/" | OPow => "**" end.
  Definition cmpop_text (o : cmpop) : string :=
    match o with CLt => "<" | CLe => "<=" | CEq => "==" | CNe => "!=" | CGt => ">" | CGe => ">=" end.

  Fixpoint rexpr (e : expr num) : list ntok :=
    match e with
    | ENum x => nchars "(" ++ nchars (show x) ++ nchars ")"
    | ERead x k => nchars "(" ++ [NTerm (vname x) (IInt k)] ++ nchars ")"
    | ENeg a => nchars "(-" ++ rexpr a ++ nchars ")"
    | EAbs a => nchars "(" ++ [NFunc "abs"] ++ rexpr a ++ nchars ")"
    | EBin o a b => nchars "(" ++ rexpr a ++ nchars (" " ++ binop_text o ++ " ") ++ rexpr b ++ nchars ")"
    | EMax a b => nchars "(" ++ [NFunc "max"] ++ nchars "(" ++ rexpr a ++ nchars ", " ++ rexpr b ++ nchars "))"
    | EMin a b => nchars "(" ++ [NFunc "min"] ++ nchars "(" ++ rexpr a ++ nchars ", " ++ rexpr b ++ nchars "))"
    | EIf o l r a b =>
        nchars "(" ++ rexpr a ++ nchars " " ++ [NKw "if"] ++ nchars " " ++ rexpr l ++ nchars (" " ++ cmpop_text o ++ " ")
        ++ rexpr r ++ nchars " " ++ [NKw "else"] ++ nchars " " ++ rexpr b ++ nchars ")"
    | ECall1 f a => nchars "(" ++ [NFunc (f1name f)] ++ rexpr a ++ nchars ")"
    | ECall2 f a b => nchars "(" ++ [NFunc (f2name f)] ++ nchars "(" ++ rexpr a ++ nchars ", " ++ rexpr b ++ nchars "))"
    end.

  Definition rstmt (s : stmt num) : neq :=
    let 'SAssign y k e := s in mkNeq (NTerm (vname y) (IInt k) :: nchars " ") (nchars " " ++ rexpr e).

  (* the Symbol that parse_model would hold for the statement (only the field symbols_to_graph reads matters) *)
  Definition stmt_symbol (s : stmt num) : symbol :=
    let 'SAssign y k e := s in
    mkSymbol (Some (vname y)) TEndogenous (Some (IInt 0%Z)) (Some (IInt 0%Z)) (Some (neq_text (rstmt s))) None.
End Render.
