(* GraphSrcGraph.v — parser model -> graph for SOURCE statements, with conditions on the source side only:
   a statement  NAME[k] = rhs  spelled in the documented syntax (terms as NAME, { NAME }, < NAME >, any index-bracket layout,
   [0] written or not) that satisfies the decidable dq_ok (it lexes token by token, no "#", brackets balanced, …) and sep_ok
   (names not keyword-prefixed, no keyword glued to a braced term, no keyword right after "<").
   No hypothesis about the normalised equation the parser produces: its well-formedness is
   GraphSrcWf.dq_ok_neq_wf. *)
From Coq Require Import String Ascii List Bool Arith ZArith.
Import ListNotations.
Require Import Generated PyBase PyStr Lex Symbols Split Merge ParseEq ParseModel GLex GNorm Graph GraphFacts GraphTheorems.
Require Import Layout Denorm DenormFacts GraphParseFacts GraphScriptFacts GraphSrcWf.
Open Scope string_scope.

Definition stmt_src_q (lay : layout) (q : neq) : Prop :=
  exists y ky ws r, q = mkNeq (NTerm y (IInt ky) :: ws) r /\ dq_ok lay q = true /\ sep_ok lay r = true.

Lemma stmt_src_ok lay q : stmt_src_q lay q -> stmt_ok_q lay q.
Proof.
  intros (y & ky & ws & r & -> & Hq & Hs). exists y, ky, ws, r. repeat split; try assumption.
  apply (dq_ok_neq_wf lay _ Hq Hs).
Qed.

Theorem source_statement_graph lay y ky ws r syms :
  let q := mkNeq (NTerm y (IInt ky) :: ws) r in
  dq_ok lay q = true -> sep_ok lay r = true ->
  parse_equation_M (denorm_text lay q) = POk syms ->
  symbols_to_graph_M syms = Ret (graph_of [q]) /\ neq_wf q = true.
Proof.
  intros q Hq Hs Hp. pose proof (dq_ok_neq_wf lay q Hq Hs) as W. split; [apply (reparsed_graph lay y ky ws r syms Hq W Hp)|exact W].
Qed.

Theorem source_script_graph lay qs s syms :
  Forall (stmt_src_q lay) qs ->
  split_M s = (map (denorm_text lay) qs, None) ->
  parse_model_nocheck s = POk syms ->
  exists g, symbols_to_graph_M syms = Ret g /\
    forall x n, is_edge g x n = true <-> exists q, In q qs /\ In n (nids (nlhs q)) /\ In x (nids (nrhs q)).
Proof.
  intros Hq. apply script_graph_edges. apply (Forall_impl _ (stmt_src_ok lay) Hq).
Qed.
