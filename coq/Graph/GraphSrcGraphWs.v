(* GraphSrcGraphWs.v — parser model -> graph for source statements with ANY runs of blanks and continuation lines:
   the conditions are Denorm.dq_ok_ws (no requirement that the character skeleton is in normal form) and GraphSrcWf.sep_ok.
     stmt_sem                     what the graph needs to know about one statement: the parser gives it exactly one
                                  equation, the text of a well-formed normalised equation q'
     script_graph_edges_sem       scripts of statements with stmt_sem: the edges are those of the q'
     source_statement_graph_ws    single statement: the graph is graph_of [nrm_q q]
     source_script_graph_ws       scripts: the edges are  x -> n  for n on the left and x on the right of one statement,
                                  read off the SOURCE token lists (the normaliser keeps the terms) *)
From Coq Require Import String Ascii List Bool Arith Lia ZArith.
Import ListNotations.
Require Import Generated PyBase PyStr Lex Symbols Split Merge ParseEq ParseModel ParseContribFacts GLex GNorm GNormFacts Graph GraphFacts GraphTheorems.
Require Import Layout LayoutSplit MergeComm MergePerm Denorm DenormFacts GraphParseFacts GraphScriptFacts GraphSrcWf GraphSrcGraph GraphTokWf.
Open Scope string_scope.

Definition stmt_sem (st : string) (q : neq) : Prop :=
  neq_wf q = true /\
  forall syms, parse_equation_M st = POk syms ->
    equations_of syms = [neq_text q] /\ forall s, In s syms -> tidy s /\ sname s <> None.

Lemma equations_of_concat_sem sts : forall qs by_eq,
  Forall2 stmt_sem sts qs -> Forall2 (fun st b => parse_equation_M st = POk b) sts by_eq ->
  equations_of (concat by_eq) = map neq_text qs /\ forall s, In s (concat by_eq) -> tidy s /\ sname s <> None.
Proof.
  induction sts as [|st sts IH]; intros qs by_eq Hq H2.
  - inversion H2; subst. inversion Hq; subst. split; [reflexivity|intros s []].
  - inversion H2 as [|? b ? bs Hp Hr]; subst. inversion Hq as [|? q ? qs' Hq1 Hqr]; subst.
    destruct Hq1 as [_ Hq1]. destruct (Hq1 b Hp) as [Eb Tb]. destruct (IH qs' bs Hqr Hr) as [Er Tr].
    cbn [concat map]. rewrite equations_of_app, Eb, Er. split; [reflexivity|].
    intros s Hin. apply in_app_iff in Hin as [Hin|Hin]; [apply Tb, Hin|apply Tr, Hin].
Qed.

Lemma Forall2_right {A B} (R : A -> B -> Prop) (P : B -> Prop) la : forall lb,
  Forall2 R la lb -> (forall a b, R a b -> P b) -> forall b, In b lb -> P b.
Proof.
  induction la as [|a la IH]; intros lb H HP b Hin; inversion H; subst; [destruct Hin|].
  destruct Hin as [<-|Hin]; [eapply HP; eassumption|eapply IH; eassumption].
Qed.

Theorem script_graph_edges_sem sts qs s syms :
  Forall2 stmt_sem sts qs ->
  split_M s = (sts, None) ->
  parse_model_nocheck s = POk syms ->
  exists g, symbols_to_graph_M syms = Ret g /\
    forall x n, is_edge g x n = true <-> exists q, In q qs /\ In n (nids (nlhs q)) /\ In x (nids (nrhs q)).
Proof.
  intros Hq Hs Hp. rewrite parse_model_by_statements, Hs in Hp. cbn [fst snd] in Hp.
  destruct (map_p parse_equation_M sts) as [by_eq| |] eqn:Em; cbn [pbind finish_parse] in Hp; try discriminate.
  destruct (merge_symbols by_eq) as [out|] eqn:Eg; cbn [of_outcome] in Hp; [|discriminate]. inversion Hp; subst out.
  destruct (equations_of_concat_sem sts qs by_eq Hq (map_p_ok _ _ _ Em)) as [Ec Tc].
  pose proof (merge_equations by_eq syms Tc Eg) as M.
  assert (Wq : forall q, In q qs -> neq_wf q = true).
  { apply (Forall2_right stmt_sem (fun q => neq_wf q = true) sts qs Hq). intros a b [W _]. exact W. }
  set (pick := fun e => find (fun q => String.eqb (neq_text q) e) qs).
  assert (PK : forall e, In e (equations_of syms) -> exists q, pick e = Some q /\ In q qs /\ neq_text q = e).
  { intros e He. apply M in He. rewrite Ec in He. apply in_map_iff in He as (q & E & Hin). unfold pick.
    destruct (find (fun q0 => String.eqb (neq_text q0) e) qs) as [q0|] eqn:Ef.
    - apply find_some in Ef as [Hin0 E0]. apply String.eqb_eq in E0. exists q0. auto.
    - exfalso. pose proof (find_none _ _ Ef q Hin) as N. cbn beta in N. rewrite E, String.eqb_refl in N. discriminate. }
  assert (EX : exists qs', map neq_text qs' = equations_of syms /\ forall q', In q' qs' -> In q' qs).
  { clear M. induction (equations_of syms) as [|e l IH]; [exists []; split; [reflexivity|intros ? []]|].
    destruct (PK e (or_introl eq_refl)) as (q & _ & Hin & E). destruct (IH (fun e' He' => PK e' (or_intror He'))) as (qs' & Em' & Hs').
    exists (q :: qs'). split; [cbn [map]; rewrite E, Em'; reflexivity|]. intros q' [<-|H]; [exact Hin|apply Hs', H]. }
  destruct EX as (qs' & Em' & Hsub).
  assert (Wf' : forallb neq_wf qs' = true) by (apply forallb_forall; intros q' H'; apply Wq, Hsub, H').
  exists (graph_of qs'). split; [apply (graph_total syms qs' (eq_sym Em') Wf')|].
  intros x n. rewrite edges_exact. split.
  - intros (q' & Hin' & Hn & Hx). exists q'. split; [apply Hsub, Hin'|auto].
  - intros (q & Hin & Hn & Hx).
    assert (He : In (neq_text q) (equations_of syms)) by (apply M; rewrite Ec; apply in_map; exact Hin).
    rewrite <- Em' in He. apply in_map_iff in He as (q' & E & Hin').
    destruct (neq_text_ids q' q (Wq q' (Hsub q' Hin')) (Wq q Hin) E) as [El Er].
    exists q'. split; [exact Hin'|]. rewrite El, Er. auto.
Qed.

(* ================================================================== one source statement, any blank runs *)
Theorem reparsed_symbols_ws lay y ky ws r syms :
  let q := mkNeq (NTerm y (IInt ky) :: ws) r in
  dq_ok_ws lay q = true ->
  parse_equation_M (denorm_text lay q) = POk syms ->
  equations_of syms = [neq_text (nrm_q q)] /\ forall s, In s syms -> tidy s /\ sname s <> None.
Proof.
  intros q Hq Hp. rewrite (parse_denorm_general lay q Hq) in Hp. rewrite nrm_q_text.
  set (eqn := nflat (nrm (whole_toks q))) in *. set (code := cflat (nrm (whole_toks q))) in *.
  destruct (equation_symbols eqn code (lneq_terms lay q)) as [l|] eqn:E; [|discriminate]. inversion Hp; subst l.
  pose proof (equation_symbols_texts eqn code _ _ E) as T.
  destruct (dq_ok_ws_parts lay y ky ws r Hq) as (_ & _ & _ & Hl & Hws & _).
  assert (Hst : lstyle (lay y (IInt ky)) = SVar) by (unfold lhs_lay_ok in Hl; destruct (lstyle (lay y (IInt ky))); [reflexivity|discriminate|discriminate]).
  assert (Hws0 : lay_terms lay TEndogenous ws = []).
  { clear - Hws. induction ws as [|x l IH]; [reflexivity|]. cbn [forallb] in Hws. apply andb_true_iff in Hws as [Hx Hl].
    destruct x; try discriminate. cbn [lay_terms lay_term tok_term]. apply IH, Hl. }
  assert (G : lhs_guard y (lneq_terms lay q) = true).
  { unfold lneq_terms, q. cbn [nlhs nrhs lay_terms lay_term]. rewrite Hws0, Hst. unfold lhs_guard. cbn [app forallb ttype tname style_type].
    rewrite String.eqb_refl. apply (lhs_guard_terms lay y r). }
  assert (HE : has_type TEndogenous (lneq_terms lay q) = true).
  { unfold lneq_terms, q. cbn [nlhs nrhs lay_terms lay_term]. rewrite Hst. reflexivity. }
  destruct (equation_symbols_one _ _ y _ _ G HE E) as [Hone Htidy].
  split; [|intros s Hin; split; [apply Htidy, Hin|apply (equation_symbols_named _ _ _ _ E s Hin)]].
  rewrite (equations_of_tidy syms Htidy). unfold n_emitted in Hone.
  destruct (filter emits syms) as [|s [|s2 rest]] eqn:F; cbn [length] in Hone; try lia.
  assert (Hin : In s syms) by (apply (proj1 (filter_In emits s syms)); rewrite F; left; reflexivity).
  assert (Hem : emits s = true) by (apply (proj2 (proj1 (filter_In emits s syms) ltac:(rewrite F; left; reflexivity)))).
  destruct (T s Hin) as [[He|He] _].
  - exfalso. unfold emits in Hem. rewrite He in Hem. destruct (stype s); discriminate.
  - pose proof (Htidy s Hin) as Ts. unfold tidy in Ts. rewrite Hem in Ts. cbn [equations_of]. rewrite He, Ts. reflexivity.
Qed.

Definition stmt_src_ws (lay : layout) (q : neq) : Prop :=
  exists y ky ws r, q = mkNeq (NTerm y (IInt ky) :: ws) r /\ dq_ok_ws lay q = true /\ sep_ok lay r = true.

Lemma stmt_src_ws_sem lay q : stmt_src_ws lay q -> stmt_sem (denorm_text lay q) (nrm_q q).
Proof.
  intros (y & ky & ws & r & -> & Hq & Hs). split; [apply (dq_ok_ws_neq_wf lay _ Hq Hs)|].
  intros syms Hp. apply (reparsed_symbols_ws lay y ky ws r syms Hq Hp).
Qed.

(* normal spacing is a special case *)
Lemma stmt_src_q_ws lay q : GraphSrcGraph.stmt_src_q lay q -> stmt_src_ws lay q.
Proof.
  intros (y & ky & ws & r & -> & Hq & Hs). exists y, ky, ws, r. repeat split; try assumption.
  unfold dq_ok in Hq. apply andb_true_iff in Hq as [Hq _]. exact Hq.
Qed.

Theorem source_statement_graph_ws lay y ky ws r syms :
  let q := mkNeq (NTerm y (IInt ky) :: ws) r in
  dq_ok_ws lay q = true -> sep_ok lay r = true ->
  parse_equation_M (denorm_text lay q) = POk syms ->
  symbols_to_graph_M syms = Ret (graph_of [nrm_q q]) /\ neq_wf (nrm_q q) = true.
Proof.
  intros q Hq Hs Hp. pose proof (dq_ok_ws_neq_wf lay q Hq Hs) as W. split; [|exact W].
  apply graph_total; [apply (proj1 (reparsed_symbols_ws lay y ky ws r syms Hq Hp))|]. cbn [forallb]. rewrite W. reflexivity.
Qed.

(* the normaliser keeps the terms, so the ids can be read off the source token lists *)
Lemma nids_term_toks l : nids l = map ntok_text (term_toks l).
Proof. induction l as [|x l IH]; [reflexivity|]. destruct x; cbn [nids term_toks map]; rewrite IH; reflexivity. Qed.
Lemma nids_nrm l : nids (nrm l) = nids l.
Proof. rewrite !nids_term_toks, nrm_terms. reflexivity. Qed.

Theorem source_script_graph_ws lay qs s syms :
  Forall (stmt_src_ws lay) qs ->
  split_M s = (map (denorm_text lay) qs, None) ->
  parse_model_nocheck s = POk syms ->
  exists g, symbols_to_graph_M syms = Ret g /\
    forall x n, is_edge g x n = true <-> exists q, In q qs /\ In n (nids (nlhs q)) /\ In x (nids (nrhs q)).
Proof.
  intros Hq Hs Hp.
  assert (H2 : Forall2 stmt_sem (map (denorm_text lay) qs) (map nrm_q qs)).
  { clear Hs Hp. induction Hq as [|q l Hq1 _ IH]; cbn [map]; constructor; [apply (stmt_src_ws_sem lay q Hq1)|exact IH]. }
  destruct (script_graph_edges_sem _ _ s syms H2 Hs Hp) as (g & Hg & He). exists g. split; [exact Hg|].
  intros x n. rewrite He. split.
  - intros (q' & Hin & Hn & Hx). apply in_map_iff in Hin as (q & <- & Hin). unfold nrm_q in Hn, Hx. cbn [nlhs nrhs] in Hn, Hx.
    rewrite nids_nrm in Hn, Hx. exists q. auto.
  - intros (q & Hin & Hn & Hx). exists (nrm_q q). split; [apply in_map, Hin|]. unfold nrm_q. cbn [nlhs nrhs]. rewrite !nids_nrm. auto.
Qed.

(* the bridge between what the graph reads (Symbol.equation) and what runs (Symbol.code): for a source statement both are
   renderings of ONE token list T = nrm (whole_toks q) — nflat T writes a term as NAME[t+k], cflat T writes the same term as
   self._NAME[t+k] (Denorm.tok_code) and every other token identically — and no symbol carries any other text *)
Theorem source_statement_texts lay q syms :
  dq_ok_ws lay q = true -> parse_equation_M (denorm_text lay q) = POk syms ->
  forall s, In s syms -> tame (nflat (nrm (whole_toks q))) (cflat (nrm (whole_toks q))) s.
Proof.
  intros Hq Hp. rewrite (parse_denorm_general lay q Hq) in Hp.
  destruct (equation_symbols (nflat (nrm (whole_toks q))) (cflat (nrm (whole_toks q))) (lneq_terms lay q)) as [l|] eqn:E; [|discriminate].
  inversion Hp; subst l. apply (equation_symbols_texts _ _ _ _ E).
Qed.
