(* GraphParseExamples.v — the hypotheses of GraphParseFacts.reparsed_graph are satisfiable; the theorem at work. *)
From Coq Require Import String Ascii List Bool Arith ZArith.
Import ListNotations.
Require Import Generated PyBase PyStr Lex Symbols ParseEq GLex GNorm Graph GraphFacts GraphTheorems Denorm DenormFacts GraphParseFacts LayoutExamples.
Open Scope string_scope.

Example ex_reparse_hyps :
  dq_ok canon ex_fix_q = true /\ neq_wf ex_fix_q = true /\
  exists syms, parse_equation_M (denorm_text canon ex_fix_q) = POk syms /\
    match symbols_to_graph_M syms with
    | Ret g => filter varlike_id (in_edges g "C[t+1]") = ["alpha_1[t]"; "YD[t+2]"; "H[t-1]"; "X['2000']"]
    | Raise _ => False
    end.
Proof.
  split; [vm_compute; reflexivity|]. split; [vm_compute; reflexivity|].
  eexists. split; [vm_compute; reflexivity|]. vm_compute. reflexivity.
Qed.

(* ---- a script of two statements: Y = X[-1] + Z * {a}  and  Z = Y[-1] (Y used before and after its definition) ---- *)
Require Import GraphScriptFacts Split ParseModel PyStr.
Definition ex_sq1 : neq := mkNeq [NTerm "Y" (IInt 0%Z); NChr " "]
  [NChr " "; NTerm "X" (IInt (-1)%Z); NChr " "; NChr "+"; NChr " "; NTerm "Z" (IInt 0%Z); NChr " "; NChr "*"; NChr " "; NTerm "a" (IInt 0%Z)].
Definition ex_sq2 : neq := mkNeq [NTerm "Z" (IInt 0%Z); NChr " "] [NChr " "; NTerm "Y" (IInt (-1)%Z)].
Definition ex_script : string := denorm_text canon ex_sq1 ++ nl_s ++ denorm_text canon ex_sq2.
Example ex_script_hyps :
  Forall (stmt_ok_q canon) [ex_sq1; ex_sq2] /\
  split_M ex_script = (map (denorm_text canon) [ex_sq1; ex_sq2], None) /\
  exists syms, parse_model_nocheck ex_script = POk syms /\
    match symbols_to_graph_M syms with
    | Ret g => in_edges g "Y[t]" = ["X[t-1]"; "Z[t]"; "a[t]"] /\ in_edges g "Z[t]" = ["Y[t-1]"]
    | Raise _ => False
    end.
Proof.
  split.
  - constructor; [|constructor; [|constructor]].
    + exists "Y", 0%Z, [NChr " "], (nrhs ex_sq1). repeat split; vm_compute; reflexivity.
    + exists "Z", 0%Z, [NChr " "], (nrhs ex_sq2). repeat split; vm_compute; reflexivity.
  - split; [vm_compute; reflexivity|]. eexists. split; [vm_compute; reflexivity|]. vm_compute. split; reflexivity.
Qed.

(* ---- the same script written with a parameter in braces, blanks inside brackets, [0] left out: source-side conditions only ---- *)
Require Import GraphSrcWf GraphSrcGraph.
Definition ex_src_lay : layout := fun name i =>
  if String.eqb name "a" then mkLay (SPar " " "") None
  else if String.eqb name "X" then mkLay SVar (Some (" ", " ", true))
  else mkLay SVar None.
Definition ex_sq2b : neq := mkNeq [NTerm "Z" (IInt 0%Z); NChr " "] [NChr " "; NTerm "Y" (IInt 0%Z); NChr " "; NChr "<"; NChr " "; NFunc "max"; NChr "("; NTerm "X" (IInt 1%Z); NChr ")"].
Definition ex_src_script : string := denorm_text ex_src_lay ex_sq1 ++ nl_s ++ denorm_text ex_src_lay ex_sq2b.
Example ex_src_script_hyps :
  ex_src_script = "Y = X[ -1 ] + Z * { a}" ++ nl_s ++ "Z = Y < max(X[ +1 ])" /\
  Forall (stmt_src_q ex_src_lay) [ex_sq1; ex_sq2b] /\
  split_M ex_src_script = (map (denorm_text ex_src_lay) [ex_sq1; ex_sq2b], None) /\
  exists syms, parse_model_nocheck ex_src_script = POk syms /\
    match symbols_to_graph_M syms with
    | Ret g => in_edges g "Y[t]" = ["X[t-1]"; "Z[t]"; "a[t]"] /\ in_edges g "Z[t]" = ["Y[t]"; "max"; "X[t+1]"]
    | Raise _ => False
    end.
Proof.
  split; [vm_compute; reflexivity|]. split.
  - constructor; [|constructor; [|constructor]].
    + exists "Y", 0%Z, [NChr " "], (nrhs ex_sq1). repeat split; vm_compute; reflexivity.
    + exists "Z", 0%Z, [NChr " "], (nrhs ex_sq2b). repeat split; vm_compute; reflexivity.
  - split; [vm_compute; reflexivity|]. eexists. split; [vm_compute; reflexivity|]. vm_compute. split; reflexivity.
Qed.

(* ---- any runs of blanks, blanks after "(" and before ")", a continuation line: dq_ok_ws and sep_ok only ---- *)
Require Import GraphTokWf GraphSrcGraphWs.
Definition ex_wq1 : neq := mkNeq [NTerm "Y" (IInt 0%Z); NChr " "; NChr " "]
  [NChr " "; NChr " "; NTerm "X" (IInt (-1)%Z); NChr " "; NChr " "; NChr "+"; NChr " "; NFunc "max"; NChr "("; NChr " "; NTerm "Z" (IInt 0%Z); NChr " "; NChr ",";
   NChr nl; NChr " "; NChr " "; NTerm "a" (IInt 0%Z); NChr " "; NChr ")"].
Definition ex_wq2 : neq := mkNeq [NTerm "Z" (IInt 0%Z); NChr " "; NChr " "; NChr " "]
  [NChr " "; NTerm "Y" (IInt 0%Z); NChr " "; NChr " "; NChr "<"; NChr " "; NChr " "; NFunc "max"; NChr "("; NChr " "; NTerm "X" (IInt 1%Z); NChr " "; NChr ")"; NChr " "; NKw "if"; NChr " "; NChr " "; NTerm "Y" (IInt 0%Z);
   NChr " "; NKw "else"; NChr " "; NChr "1"].
Definition ex_ws_script : string := denorm_text ex_src_lay ex_wq1 ++ nl_s ++ denorm_text ex_src_lay ex_wq2.
Example ex_ws_script_hyps :
  ex_ws_script = "Y  =  X[ -1 ]  + max( Z ," ++ nl_s ++ "  { a} )" ++ nl_s ++ "Z   = Y  <  max( X[ +1 ] ) if  Y else 1" /\
  dq_ok ex_src_lay ex_wq1 = false /\ dq_ok ex_src_lay ex_wq2 = false /\
  Forall (stmt_src_ws ex_src_lay) [ex_wq1; ex_wq2] /\
  split_M ex_ws_script = (map (denorm_text ex_src_lay) [ex_wq1; ex_wq2], None) /\
  neq_text (nrm_q ex_wq1) = "Y[t] = X[t-1] + max(Z[t] , a[t])" /\
  neq_text (nrm_q ex_wq2) = "Z[t] = Y[t] < max(X[t+1]) if Y[t] else 1" /\
  exists syms, parse_model_nocheck ex_ws_script = POk syms /\
    match symbols_to_graph_M syms with
    | Ret g => in_edges g "Y[t]" = ["X[t-1]"; "max"; "Z[t]"; "a[t]"] /\ in_edges g "Z[t]" = ["Y[t]"; "max"; "X[t+1]"; "if"; "else"]
    | Raise _ => False
    end.
Proof.
  split; [vm_compute; reflexivity|]. split; [vm_compute; reflexivity|]. split; [vm_compute; reflexivity|]. split.
  - constructor; [|constructor; [|constructor]].
    + exists "Y", 0%Z, [NChr " "; NChr " "], (nrhs ex_wq1). repeat split; vm_compute; reflexivity.
    + exists "Z", 0%Z, [NChr " "; NChr " "; NChr " "], (nrhs ex_wq2). repeat split; vm_compute; reflexivity.
  - split; [vm_compute; reflexivity|]. split; [vm_compute; reflexivity|]. split; [vm_compute; reflexivity|].
    eexists. split; [vm_compute; reflexivity|]. vm_compute. split; reflexivity.
Qed.

Require Import GTokenise.
(* ---- a tuple assignment: both targets carry the equation and get every edge; the second statement reads both ---- *)
Example ex_tuple_assignment :
  exists syms, parse_model_nocheck ("S,D = X, Y[-1]" ++ nl_s ++ "Q = S + D[-1]") = POk syms /\
    equations_of syms = ["S[t],D[t] = X[t], Y[t-1]"; "S[t],D[t] = X[t], Y[t-1]"; "Q[t] = S[t] + D[t-1]"] /\
    (forall q, tokenise "S[t],D[t] = X[t], Y[t-1]" = Some q -> nids (nlhs q) = ["S[t]"; "D[t]"] /\ nids (nrhs q) = ["X[t]"; "Y[t-1]"]) /\
    match symbols_to_graph_M syms with
    | Ret g => in_edges g "S[t]" = ["X[t]"; "Y[t-1]"] /\ in_edges g "D[t]" = ["X[t]"; "Y[t-1]"] /\ in_edges g "Q[t]" = ["S[t]"; "D[t-1]"] /\
               map fst (gnodes g) = ["S[t]"; "D[t]"; "X[t]"; "Y[t-1]"; "Q[t]"; "D[t-1]"]
    | Raise _ => False
    end.
Proof.
  eexists. split; [vm_compute; reflexivity|]. split; [vm_compute; reflexivity|]. split.
  - intros q H. vm_compute in H. inversion H; subst q. split; vm_compute; reflexivity.
  - vm_compute. repeat split; reflexivity.
Qed.

(* ---- finding #19 repaired (b45daa1): a name used as a function and as a variable in one equation is rejected in either
   order; repeated calls of one function are fine; the series of the accepted script hold every variable-like in-edge ---- *)
Require Import GraphSeriesFacts.
Example ex_function_variable_clash :
  parse_model_nocheck "Y = exp + exp(X)" = PErr SymbolError /\ parse_model_nocheck "Y = exp(X) + exp" = PErr SymbolError /\
  parse_model_nocheck "Y = max(X, 1) * {max}" = PErr SymbolError /\
  exists syms, parse_model_nocheck "Y = exp(X) + exp(Z[-1]) * {a}" = POk syms /\
    map (fun s => (sname s, stype s)) syms = [(Some "Y", TEndogenous); (Some "exp", TFunction); (Some "X", TExogenous); (Some "Z", TExogenous); (Some "a", TParameter)] /\
    match symbols_to_graph_M syms with
    | Ret g => in_edges g "Y[t]" = ["exp"; "X[t]"; "Z[t-1]"; "a[t]"] /\ filter varlike_id (in_edges g "Y[t]") = ["X[t]"; "Z[t-1]"; "a[t]"]
    | Raise _ => False
    end.
Proof.
  split; [vm_compute; reflexivity|]. split; [vm_compute; reflexivity|]. split; [vm_compute; reflexivity|].
  eexists. split; [vm_compute; reflexivity|]. split; [vm_compute; reflexivity|]. vm_compute. split; reflexivity.
Qed.

(* ---- the normal forms of the two statements above, written back in the statement syntax, are in the domain of the fixed-point
   theorem (GraphCanonText.normal_form_dq_ok at work); the parameter {a} has become the plain name a ---- *)
Require Import GraphCanonText.
Example ex_normal_form_reparses :
  denorm_text canon (nrm_q ex_wq1) = "Y[0] = X[-1] + max(Z[0] , a[0])" /\
  denorm_text canon (nrm_q ex_wq2) = "Z[0] = Y[0] < max(X[+1]) if Y[0] else 1" /\
  dq_ok canon (nrm_q ex_wq1) = true /\ dq_ok canon (nrm_q ex_wq2) = true /\
  dq_ok_ws ex_src_lay ex_wq1 = true /\ sep_ok ex_src_lay (nrhs ex_wq1) = true /\
  exists s1 s2, parse_equation_M (denorm_text ex_src_lay ex_wq1) = POk s1 /\ parse_equation_M (denorm_text canon (nrm_q ex_wq1)) = POk s2 /\
    map (fun s => (sname s, sequation s, scode s)) (filter (fun s => match sequation s with Some _ => true | None => false end) s1)
    = map (fun s => (sname s, sequation s, scode s)) (filter (fun s => match sequation s with Some _ => true | None => false end) s2) /\
    map (fun s => (sname s, stype s)) s1 <> map (fun s => (sname s, stype s)) s2.
Proof.
  split; [vm_compute; reflexivity|]. split; [vm_compute; reflexivity|]. split; [vm_compute; reflexivity|]. split; [vm_compute; reflexivity|].
  split; [vm_compute; reflexivity|]. split; [vm_compute; reflexivity|].
  eexists. eexists. split; [vm_compute; reflexivity|]. split; [vm_compute; reflexivity|]. split; [vm_compute; reflexivity|].
  vm_compute. discriminate.
Qed.

(* ---- empty versus non-empty gaps: `Y=X+Z**2` and `Y = X + Z ** 2` (GraphGapFacts.gaps_irrelevant at work) ---- *)
Require Import GraphGapFacts.
Definition ex_bare_lay : layout := fun _ _ => mkLay SVar None.
Definition ex_gq1 : neq := mkNeq [NTerm "Y" (IInt 0%Z)] [NTerm "X" (IInt 0%Z); NChr "+"; NTerm "Z" (IInt 0%Z); NChr "*"; NChr "*"; NChr "2"].
Definition ex_gq2 : neq := mkNeq [NTerm "Y" (IInt 0%Z); NChr " "]
  [NChr " "; NTerm "X" (IInt 0%Z); NChr " "; NChr "+"; NChr " "; NTerm "Z" (IInt 0%Z); NChr " "; NChr "*"; NChr "*"; NChr " "; NChr "2"; NChr " "].
Example ex_gaps :
  denorm_text ex_bare_lay ex_gq1 = "Y=X+Z**2" /\ denorm_text ex_bare_lay ex_gq2 = "Y = X + Z ** 2 " /\
  dq_ok_ws ex_bare_lay ex_gq1 = true /\ dq_ok_ws ex_bare_lay ex_gq2 = true /\
  strip_blanks (nlhs ex_gq1) = strip_blanks (nlhs ex_gq2) /\ strip_blanks (nrhs ex_gq1) = strip_blanks (nrhs ex_gq2) /\
  nflat (nrm (whole_toks ex_gq1)) = "Y[t]=X[t]+Z[t]**2" /\ nflat (nrm (whole_toks ex_gq2)) = "Y[t] = X[t] + Z[t] ** 2 ".
Proof. vm_compute. repeat split; reflexivity. Qed.

(* ---- two accepted statements whose graph does not describe what the code does (second independent review) ---- *)
Definition graph_view (r : pres (list symbol)) : option (list (string * option string) * list (string * string)) :=
  match r with POk l => match symbols_to_graph_M l with Ret g => Some (gnodes g, gedges g) | Raise _ => None end | _ => None end.
(* a second statement after ";": ONE equation for Y whose code also assigns Z; Z stays EXOGENOUS, has no equation node, and the
   graph says Z[t] -> Y[t] although Z is written, not read *)
Example ex_semicolon_statement :
  view_of (parse_model_nocheck "Y = X; Z = Y")
  = Some [(Some "Y", TEndogenous, Some "Y[t] = X[t]; Z[t] = Y[t]", Some "self._Y[t] = self._X[t]; self._Z[t] = self._Y[t]");
          (Some "X", TExogenous, None, None); (Some "Z", TExogenous, None, None)] /\
  graph_view (parse_model_nocheck "Y = X; Z = Y")
  = Some ([("Y[t]", Some "Y[t] = X[t]; Z[t] = Y[t]"); ("X[t]", None); ("Z[t]", None)], [("X[t]", "Y[t]"); ("Z[t]", "Y[t]"); ("Y[t]", "Y[t]")]).
Proof. vm_compute. split; reflexivity. Qed.
(* a name inside a string literal is rewritten like a term: the graph has the edge W[t] -> Y[t], the code compares with the
   string 'self._W[t]' and never reads W *)
Example ex_term_in_string_literal :
  view_of (parse_model_nocheck "Y = X if S == 'W' else Z")
  = Some [(Some "Y", TEndogenous, Some "Y[t] = X[t] if S[t] == 'W[t]' else Z[t]", Some "self._Y[t] = self._X[t] if self._S[t] == 'self._W[t]' else self._Z[t]");
          (Some "X", TExogenous, None, None); (Some "if", TKeyword, None, None); (Some "S", TExogenous, None, None); (Some "W", TExogenous, None, None);
          (Some "else", TKeyword, None, None); (Some "Z", TExogenous, None, None)] /\
  (exists nodes edges, graph_view (parse_model_nocheck "Y = X if S == 'W' else Z") = Some (nodes, edges) /\ In ("W[t]", "Y[t]") edges).
Proof. split; [vm_compute; reflexivity|]. eexists. eexists. split; [vm_compute; reflexivity|]. vm_compute. tauto. Qed.
