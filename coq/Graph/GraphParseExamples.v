(* GraphParseExamples.v — the hypotheses of GraphParseFacts.reparsed_graph are satisfiable; the theorem at work. *)
From Coq Require Import String Ascii List Bool Arith ZArith.
Import ListNotations.
Require Import Generated PyBase PyStr Lex Symbols ParseEq GLex GNorm Graph GraphFacts GraphTheorems Denorm DenormFacts GraphParseFacts LayoutExamples.
Open Scope string_scope.

Example ex_reparse_hyps :
  dq_ok canon ex_fix_q = true /\ neq_wf ex_fix_q = true /\ no_function_named "C" (nrhs ex_fix_q) = true /\
  exists syms, parse_equation_M (denorm_text canon ex_fix_q) = POk syms /\
    match symbols_to_graph_M syms with
    | Ret g => filter varlike_id (in_edges g "C[t+1]") = ["alpha_1[t]"; "YD[t+2]"; "H[t-1]"; "X['2000']"]
    | Raise _ => False
    end.
Proof.
  split; [vm_compute; reflexivity|]. split; [vm_compute; reflexivity|]. split; [vm_compute; reflexivity|].
  eexists. split; [vm_compute; reflexivity|]. vm_compute. reflexivity.
Qed.
