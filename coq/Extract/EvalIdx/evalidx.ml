
(** val negb : bool -> bool **)

let negb = function
| true -> false
| false -> true

type nat =
| O
| S of nat

(** val option_map : ('a1 -> 'a2) -> 'a1 option -> 'a2 option **)

let option_map f = function
| Some a -> Some (f a)
| None -> None

(** val fst : ('a1 * 'a2) -> 'a1 **)

let fst = function
| (x, _) -> x

(** val snd : ('a1 * 'a2) -> 'a2 **)

let snd = function
| (_, y) -> y

(** val length : 'a1 list -> nat **)

let rec length = function
| [] -> O
| _ :: l' -> S (length l')

(** val app : 'a1 list -> 'a1 list -> 'a1 list **)

let rec app l m =
  match l with
  | [] -> m
  | a :: l1 -> a :: (app l1 m)

type comparison =
| Eq
| Lt
| Gt

(** val compOpp : comparison -> comparison **)

let compOpp = function
| Eq -> Eq
| Lt -> Gt
| Gt -> Lt

type uint =
| Nil
| D0 of uint
| D1 of uint
| D2 of uint
| D3 of uint
| D4 of uint
| D5 of uint
| D6 of uint
| D7 of uint
| D8 of uint
| D9 of uint

type signed_int =
| Pos of uint
| Neg of uint

(** val revapp : uint -> uint -> uint **)

let rec revapp d d' =
  match d with
  | Nil -> d'
  | D0 d0 -> revapp d0 (D0 d')
  | D1 d0 -> revapp d0 (D1 d')
  | D2 d0 -> revapp d0 (D2 d')
  | D3 d0 -> revapp d0 (D3 d')
  | D4 d0 -> revapp d0 (D4 d')
  | D5 d0 -> revapp d0 (D5 d')
  | D6 d0 -> revapp d0 (D6 d')
  | D7 d0 -> revapp d0 (D7 d')
  | D8 d0 -> revapp d0 (D8 d')
  | D9 d0 -> revapp d0 (D9 d')

(** val rev : uint -> uint **)

let rev d =
  revapp d Nil

module Little =
 struct
  (** val double : uint -> uint **)

  let rec double = function
  | Nil -> Nil
  | D0 d0 -> D0 (double d0)
  | D1 d0 -> D2 (double d0)
  | D2 d0 -> D4 (double d0)
  | D3 d0 -> D6 (double d0)
  | D4 d0 -> D8 (double d0)
  | D5 d0 -> D0 (succ_double d0)
  | D6 d0 -> D2 (succ_double d0)
  | D7 d0 -> D4 (succ_double d0)
  | D8 d0 -> D6 (succ_double d0)
  | D9 d0 -> D8 (succ_double d0)

  (** val succ_double : uint -> uint **)

  and succ_double = function
  | Nil -> D1 Nil
  | D0 d0 -> D1 (double d0)
  | D1 d0 -> D3 (double d0)
  | D2 d0 -> D5 (double d0)
  | D3 d0 -> D7 (double d0)
  | D4 d0 -> D9 (double d0)
  | D5 d0 -> D1 (succ_double d0)
  | D6 d0 -> D3 (succ_double d0)
  | D7 d0 -> D5 (succ_double d0)
  | D8 d0 -> D7 (succ_double d0)
  | D9 d0 -> D9 (succ_double d0)
 end

module Coq__1 = struct
 (** val add : nat -> nat -> nat **)
 let rec add n0 m =
   match n0 with
   | O -> m
   | S p -> S (add p m)
end
include Coq__1

(** val sub : nat -> nat -> nat **)

let rec sub n0 m =
  match n0 with
  | O -> n0
  | S k -> (match m with
            | O -> n0
            | S l -> sub k l)

type positive =
| XI of positive
| XO of positive
| XH

type n =
| N0
| Npos of positive

type z =
| Z0
| Zpos of positive
| Zneg of positive

module Nat =
 struct
  (** val eqb : nat -> nat -> bool **)

  let rec eqb n0 m =
    match n0 with
    | O -> (match m with
            | O -> true
            | S _ -> false)
    | S n' -> (match m with
               | O -> false
               | S m' -> eqb n' m')

  (** val leb : nat -> nat -> bool **)

  let rec leb n0 m =
    match n0 with
    | O -> true
    | S n' -> (match m with
               | O -> false
               | S m' -> leb n' m')

  (** val ltb : nat -> nat -> bool **)

  let ltb n0 m =
    leb (S n0) m
 end

module Pos =
 struct
  (** val succ : positive -> positive **)

  let rec succ = function
  | XI p -> XO (succ p)
  | XO p -> XI p
  | XH -> XO XH

  (** val add : positive -> positive -> positive **)

  let rec add x y =
    match x with
    | XI p ->
      (match y with
       | XI q -> XO (add_carry p q)
       | XO q -> XI (add p q)
       | XH -> XO (succ p))
    | XO p ->
      (match y with
       | XI q -> XI (add p q)
       | XO q -> XO (add p q)
       | XH -> XI p)
    | XH -> (match y with
             | XI q -> XO (succ q)
             | XO q -> XI q
             | XH -> XO XH)

  (** val add_carry : positive -> positive -> positive **)

  and add_carry x y =
    match x with
    | XI p ->
      (match y with
       | XI q -> XI (add_carry p q)
       | XO q -> XO (add_carry p q)
       | XH -> XI (succ p))
    | XO p ->
      (match y with
       | XI q -> XO (add_carry p q)
       | XO q -> XI (add p q)
       | XH -> XO (succ p))
    | XH ->
      (match y with
       | XI q -> XI (succ q)
       | XO q -> XO (succ q)
       | XH -> XI XH)

  (** val pred_double : positive -> positive **)

  let rec pred_double = function
  | XI p -> XI (XO p)
  | XO p -> XI (pred_double p)
  | XH -> XH

  (** val mul : positive -> positive -> positive **)

  let rec mul x y =
    match x with
    | XI p -> add y (XO (mul p y))
    | XO p -> XO (mul p y)
    | XH -> y

  (** val compare_cont : comparison -> positive -> positive -> comparison **)

  let rec compare_cont r x y =
    match x with
    | XI p ->
      (match y with
       | XI q -> compare_cont r p q
       | XO q -> compare_cont Gt p q
       | XH -> Gt)
    | XO p ->
      (match y with
       | XI q -> compare_cont Lt p q
       | XO q -> compare_cont r p q
       | XH -> Gt)
    | XH -> (match y with
             | XH -> r
             | _ -> Lt)

  (** val compare : positive -> positive -> comparison **)

  let compare =
    compare_cont Eq

  (** val eqb : positive -> positive -> bool **)

  let rec eqb p q =
    match p with
    | XI p0 -> (match q with
                | XI q0 -> eqb p0 q0
                | _ -> false)
    | XO p0 -> (match q with
                | XO q0 -> eqb p0 q0
                | _ -> false)
    | XH -> (match q with
             | XH -> true
             | _ -> false)

  (** val iter_op : ('a1 -> 'a1 -> 'a1) -> positive -> 'a1 -> 'a1 **)

  let rec iter_op op p a =
    match p with
    | XI p0 -> op a (iter_op op p0 (op a a))
    | XO p0 -> iter_op op p0 (op a a)
    | XH -> a

  (** val to_nat : positive -> nat **)

  let to_nat x =
    iter_op Coq__1.add x (S O)

  (** val of_succ_nat : nat -> positive **)

  let rec of_succ_nat = function
  | O -> XH
  | S x -> succ (of_succ_nat x)

  (** val to_little_uint : positive -> uint **)

  let rec to_little_uint = function
  | XI p0 -> Little.succ_double (to_little_uint p0)
  | XO p0 -> Little.double (to_little_uint p0)
  | XH -> D1 Nil

  (** val to_uint : positive -> uint **)

  let to_uint p =
    rev (to_little_uint p)
 end

module N =
 struct
  (** val add : n -> n -> n **)

  let add n0 m =
    match n0 with
    | N0 -> m
    | Npos p -> (match m with
                 | N0 -> n0
                 | Npos q -> Npos (Pos.add p q))

  (** val mul : n -> n -> n **)

  let mul n0 m =
    match n0 with
    | N0 -> N0
    | Npos p -> (match m with
                 | N0 -> N0
                 | Npos q -> Npos (Pos.mul p q))

  (** val to_nat : n -> nat **)

  let to_nat = function
  | N0 -> O
  | Npos p -> Pos.to_nat p
 end

module Z =
 struct
  (** val double : z -> z **)

  let double = function
  | Z0 -> Z0
  | Zpos p -> Zpos (XO p)
  | Zneg p -> Zneg (XO p)

  (** val succ_double : z -> z **)

  let succ_double = function
  | Z0 -> Zpos XH
  | Zpos p -> Zpos (XI p)
  | Zneg p -> Zneg (Pos.pred_double p)

  (** val pred_double : z -> z **)

  let pred_double = function
  | Z0 -> Zneg XH
  | Zpos p -> Zpos (Pos.pred_double p)
  | Zneg p -> Zneg (XI p)

  (** val pos_sub : positive -> positive -> z **)

  let rec pos_sub x y =
    match x with
    | XI p ->
      (match y with
       | XI q -> double (pos_sub p q)
       | XO q -> succ_double (pos_sub p q)
       | XH -> Zpos (XO p))
    | XO p ->
      (match y with
       | XI q -> pred_double (pos_sub p q)
       | XO q -> double (pos_sub p q)
       | XH -> Zpos (Pos.pred_double p))
    | XH ->
      (match y with
       | XI q -> Zneg (XO q)
       | XO q -> Zneg (Pos.pred_double q)
       | XH -> Z0)

  (** val add : z -> z -> z **)

  let add x y =
    match x with
    | Z0 -> y
    | Zpos x' ->
      (match y with
       | Z0 -> x
       | Zpos y' -> Zpos (Pos.add x' y')
       | Zneg y' -> pos_sub x' y')
    | Zneg x' ->
      (match y with
       | Z0 -> x
       | Zpos y' -> pos_sub y' x'
       | Zneg y' -> Zneg (Pos.add x' y'))

  (** val opp : z -> z **)

  let opp = function
  | Z0 -> Z0
  | Zpos x0 -> Zneg x0
  | Zneg x0 -> Zpos x0

  (** val sub : z -> z -> z **)

  let sub m n0 =
    add m (opp n0)

  (** val mul : z -> z -> z **)

  let mul x y =
    match x with
    | Z0 -> Z0
    | Zpos x' ->
      (match y with
       | Z0 -> Z0
       | Zpos y' -> Zpos (Pos.mul x' y')
       | Zneg y' -> Zneg (Pos.mul x' y'))
    | Zneg x' ->
      (match y with
       | Z0 -> Z0
       | Zpos y' -> Zneg (Pos.mul x' y')
       | Zneg y' -> Zpos (Pos.mul x' y'))

  (** val compare : z -> z -> comparison **)

  let compare x y =
    match x with
    | Z0 -> (match y with
             | Z0 -> Eq
             | Zpos _ -> Lt
             | Zneg _ -> Gt)
    | Zpos x' -> (match y with
                  | Zpos y' -> Pos.compare x' y'
                  | _ -> Gt)
    | Zneg x' ->
      (match y with
       | Zneg y' -> compOpp (Pos.compare x' y')
       | _ -> Lt)

  (** val leb : z -> z -> bool **)

  let leb x y =
    match compare x y with
    | Gt -> false
    | _ -> true

  (** val ltb : z -> z -> bool **)

  let ltb x y =
    match compare x y with
    | Lt -> true
    | _ -> false

  (** val eqb : z -> z -> bool **)

  let eqb x y =
    match x with
    | Z0 -> (match y with
             | Z0 -> true
             | _ -> false)
    | Zpos p -> (match y with
                 | Zpos q -> Pos.eqb p q
                 | _ -> false)
    | Zneg p -> (match y with
                 | Zneg q -> Pos.eqb p q
                 | _ -> false)

  (** val to_nat : z -> nat **)

  let to_nat = function
  | Zpos p -> Pos.to_nat p
  | _ -> O

  (** val of_nat : nat -> z **)

  let of_nat = function
  | O -> Z0
  | S n1 -> Zpos (Pos.of_succ_nat n1)

  (** val to_int : z -> signed_int **)

  let to_int = function
  | Z0 -> Pos (D0 Nil)
  | Zpos p -> Pos (Pos.to_uint p)
  | Zneg p -> Neg (Pos.to_uint p)
 end

(** val nth : nat -> 'a1 list -> 'a1 -> 'a1 **)

let rec nth n0 l default =
  match n0 with
  | O -> (match l with
          | [] -> default
          | x :: _ -> x)
  | S m -> (match l with
            | [] -> default
            | _ :: t -> nth m t default)

(** val map : ('a1 -> 'a2) -> 'a1 list -> 'a2 list **)

let rec map f = function
| [] -> []
| a :: t -> (f a) :: (map f t)

(** val fold_left : ('a1 -> 'a2 -> 'a1) -> 'a2 list -> 'a1 -> 'a1 **)

let rec fold_left f l a0 =
  match l with
  | [] -> a0
  | b :: t -> fold_left f t (f a0 b)

(** val existsb : ('a1 -> bool) -> 'a1 list -> bool **)

let rec existsb f = function
| [] -> false
| a :: l0 -> (||) (f a) (existsb f l0)

(** val n_of_digits : bool list -> n **)

let rec n_of_digits = function
| [] -> N0
| b :: l' ->
  N.add (if b then Npos XH else N0) (N.mul (Npos (XO XH)) (n_of_digits l'))

(** val n_of_ascii : char -> n **)

let n_of_ascii a =
  (* If this appears, you're using Ascii internals. Please don't *)
 (fun f c ->
  let n = Char.code c in
  let h i = (n land (1 lsl i)) <> 0 in
  f (h 0) (h 1) (h 2) (h 3) (h 4) (h 5) (h 6) (h 7))
    (fun a0 a1 a2 a3 a4 a5 a6 a7 ->
    n_of_digits
      (a0 :: (a1 :: (a2 :: (a3 :: (a4 :: (a5 :: (a6 :: (a7 :: [])))))))))
    a

(** val nat_of_ascii : char -> nat **)

let nat_of_ascii a =
  N.to_nat (n_of_ascii a)

(** val eqb0 : char list -> char list -> bool **)

let rec eqb0 s1 s2 =
  match s1 with
  | [] -> (match s2 with
           | [] -> true
           | _::_ -> false)
  | c1::s1' ->
    (match s2 with
     | [] -> false
     | c2::s2' -> if (=) c1 c2 then eqb0 s1' s2' else false)

(** val append : char list -> char list -> char list **)

let rec append s1 s2 =
  match s1 with
  | [] -> s2
  | c::s1' -> c::(append s1' s2)

(** val length0 : char list -> nat **)

let rec length0 = function
| [] -> O
| _::s' -> S (length0 s')

type exn =
| ValueError
| IndexError
| KeyError
| AttributeError
| TypeError
| SolutionError of z option
| NonConvergenceError
| ParserError
| SymbolError
| IndentationError
| DimensionError
| DuplicateNameError
| InitialisationError
| NotImplementedError
| UnboundLocalError
| FortranEngineError
| OverflowError
| OtherError

type 'a outcome =
| Ret of 'a
| Raise of exn

(** val py_pos : nat -> z -> nat option **)

let py_pos n0 i =
  let n' = Z.of_nat n0 in
  if (||) (Z.ltb i (Z.opp n')) (Z.leb n' i)
  then None
  else Some (Z.to_nat (if Z.ltb i Z0 then Z.add i n' else i))

(** val upd : nat -> 'a1 -> 'a1 list -> 'a1 list **)

let rec upd i x = function
| [] -> []
| a :: r -> (match i with
             | O -> x :: r
             | S i' -> a :: (upd i' x r))

(** val clip : z -> z -> z **)

let clip n0 i =
  if Z.ltb i Z0
  then if Z.ltb (Z.add i n0) Z0 then Z0 else Z.add i n0
  else if Z.ltb n0 i then n0 else i

(** val py_slice_bounds : nat -> z option -> z option -> z * z **)

let py_slice_bounds n0 start stop =
  let n' = Z.of_nat n0 in
  ((match start with
    | Some a -> clip n' a
    | None -> Z0), (match stop with
                    | Some b -> clip n' b
                    | None -> n'))

(** val range_from : nat -> z -> z -> z -> nat list **)

let rec range_from fuel a step stop =
  match fuel with
  | O -> []
  | S f ->
    if Z.ltb a stop
    then (Z.to_nat a) :: (range_from f (Z.add a step) step stop)
    else []

(** val py_slice_positions : nat -> z option -> z option -> z -> nat list **)

let py_slice_positions n0 start stop step =
  let (a, b) = py_slice_bounds n0 start stop in range_from n0 a step b

module NilEmpty =
 struct
  (** val string_of_uint : uint -> char list **)

  let rec string_of_uint = function
  | Nil -> []
  | D0 d0 -> '0'::(string_of_uint d0)
  | D1 d0 -> '1'::(string_of_uint d0)
  | D2 d0 -> '2'::(string_of_uint d0)
  | D3 d0 -> '3'::(string_of_uint d0)
  | D4 d0 -> '4'::(string_of_uint d0)
  | D5 d0 -> '5'::(string_of_uint d0)
  | D6 d0 -> '6'::(string_of_uint d0)
  | D7 d0 -> '7'::(string_of_uint d0)
  | D8 d0 -> '8'::(string_of_uint d0)
  | D9 d0 -> '9'::(string_of_uint d0)
 end

module NilZero =
 struct
  (** val string_of_uint : uint -> char list **)

  let string_of_uint d = match d with
  | Nil -> '0'::[]
  | _ -> NilEmpty.string_of_uint d

  (** val string_of_int : signed_int -> char list **)

  let string_of_int = function
  | Pos d0 -> string_of_uint d0
  | Neg d0 -> '-'::(string_of_uint d0)
 end

(** val re_space_codes : nat list **)

let re_space_codes =
  (S (S (S (S (S (S (S (S (S O))))))))) :: ((S (S (S (S (S (S (S (S (S (S
    O)))))))))) :: ((S (S (S (S (S (S (S (S (S (S (S O))))))))))) :: ((S (S
    (S (S (S (S (S (S (S (S (S (S O)))))))))))) :: ((S (S (S (S (S (S (S (S
    (S (S (S (S (S O))))))))))))) :: ((S (S (S (S (S (S (S (S (S (S (S (S (S
    (S (S (S (S (S (S (S (S (S (S (S (S (S (S (S
    O)))))))))))))))))))))))))))) :: ((S (S (S (S (S (S (S (S (S (S (S (S (S
    (S (S (S (S (S (S (S (S (S (S (S (S (S (S (S (S
    O))))))))))))))))))))))))))))) :: ((S (S (S (S (S (S (S (S (S (S (S (S (S
    (S (S (S (S (S (S (S (S (S (S (S (S (S (S (S (S (S
    O)))))))))))))))))))))))))))))) :: ((S (S (S (S (S (S (S (S (S (S (S (S
    (S (S (S (S (S (S (S (S (S (S (S (S (S (S (S (S (S (S (S
    O))))))))))))))))))))))))))))))) :: ((S (S (S (S (S (S (S (S (S (S (S (S
    (S (S (S (S (S (S (S (S (S (S (S (S (S (S (S (S (S (S (S (S
    O)))))))))))))))))))))))))))))))) :: ((S (S (S (S (S (S (S (S (S (S (S (S
    (S (S (S (S (S (S (S (S (S (S (S (S (S (S (S (S (S (S (S (S (S (S (S (S
    (S (S (S (S (S (S (S (S (S (S (S (S (S (S (S (S (S (S (S (S (S (S (S (S
    (S (S (S (S (S (S (S (S (S (S (S (S (S (S (S (S (S (S (S (S (S (S (S (S
    (S (S (S (S (S (S (S (S (S (S (S (S (S (S (S (S (S (S (S (S (S (S (S (S
    (S (S (S (S (S (S (S (S (S (S (S (S (S (S (S (S (S (S (S (S (S (S (S (S
    (S
    O))))))))))))))))))))))))))))))))))))))))))))))))))))))))))))))))))))))))))))))))))))))))))))))))))))))))))))))))))))))))))))))))))))) :: ((S
    (S (S (S (S (S (S (S (S (S (S (S (S (S (S (S (S (S (S (S (S (S (S (S (S
    (S (S (S (S (S (S (S (S (S (S (S (S (S (S (S (S (S (S (S (S (S (S (S (S
    (S (S (S (S (S (S (S (S (S (S (S (S (S (S (S (S (S (S (S (S (S (S (S (S
    (S (S (S (S (S (S (S (S (S (S (S (S (S (S (S (S (S (S (S (S (S (S (S (S
    (S (S (S (S (S (S (S (S (S (S (S (S (S (S (S (S (S (S (S (S (S (S (S (S
    (S (S (S (S (S (S (S (S (S (S (S (S (S (S (S (S (S (S (S (S (S (S (S (S
    (S (S (S (S (S (S (S (S (S (S (S (S (S (S (S
    O)))))))))))))))))))))))))))))))))))))))))))))))))))))))))))))))))))))))))))))))))))))))))))))))))))))))))))))))))))))))))))))))))))))))))))))))))))))))))))))))) :: [])))))))))))

(** val str_strip_codes : nat list **)

let str_strip_codes =
  (S (S (S (S (S (S (S (S (S O))))))))) :: ((S (S (S (S (S (S (S (S (S (S
    O)))))))))) :: ((S (S (S (S (S (S (S (S (S (S (S O))))))))))) :: ((S (S
    (S (S (S (S (S (S (S (S (S (S O)))))))))))) :: ((S (S (S (S (S (S (S (S
    (S (S (S (S (S O))))))))))))) :: ((S (S (S (S (S (S (S (S (S (S (S (S (S
    (S (S (S (S (S (S (S (S (S (S (S (S (S (S (S
    O)))))))))))))))))))))))))))) :: ((S (S (S (S (S (S (S (S (S (S (S (S (S
    (S (S (S (S (S (S (S (S (S (S (S (S (S (S (S (S
    O))))))))))))))))))))))))))))) :: ((S (S (S (S (S (S (S (S (S (S (S (S (S
    (S (S (S (S (S (S (S (S (S (S (S (S (S (S (S (S (S
    O)))))))))))))))))))))))))))))) :: ((S (S (S (S (S (S (S (S (S (S (S (S
    (S (S (S (S (S (S (S (S (S (S (S (S (S (S (S (S (S (S (S
    O))))))))))))))))))))))))))))))) :: ((S (S (S (S (S (S (S (S (S (S (S (S
    (S (S (S (S (S (S (S (S (S (S (S (S (S (S (S (S (S (S (S (S
    O)))))))))))))))))))))))))))))))) :: ((S (S (S (S (S (S (S (S (S (S (S (S
    (S (S (S (S (S (S (S (S (S (S (S (S (S (S (S (S (S (S (S (S (S (S (S (S
    (S (S (S (S (S (S (S (S (S (S (S (S (S (S (S (S (S (S (S (S (S (S (S (S
    (S (S (S (S (S (S (S (S (S (S (S (S (S (S (S (S (S (S (S (S (S (S (S (S
    (S (S (S (S (S (S (S (S (S (S (S (S (S (S (S (S (S (S (S (S (S (S (S (S
    (S (S (S (S (S (S (S (S (S (S (S (S (S (S (S (S (S (S (S (S (S (S (S (S
    (S
    O))))))))))))))))))))))))))))))))))))))))))))))))))))))))))))))))))))))))))))))))))))))))))))))))))))))))))))))))))))))))))))))))))))) :: ((S
    (S (S (S (S (S (S (S (S (S (S (S (S (S (S (S (S (S (S (S (S (S (S (S (S
    (S (S (S (S (S (S (S (S (S (S (S (S (S (S (S (S (S (S (S (S (S (S (S (S
    (S (S (S (S (S (S (S (S (S (S (S (S (S (S (S (S (S (S (S (S (S (S (S (S
    (S (S (S (S (S (S (S (S (S (S (S (S (S (S (S (S (S (S (S (S (S (S (S (S
    (S (S (S (S (S (S (S (S (S (S (S (S (S (S (S (S (S (S (S (S (S (S (S (S
    (S (S (S (S (S (S (S (S (S (S (S (S (S (S (S (S (S (S (S (S (S (S (S (S
    (S (S (S (S (S (S (S (S (S (S (S (S (S (S (S
    O)))))))))))))))))))))))))))))))))))))))))))))))))))))))))))))))))))))))))))))))))))))))))))))))))))))))))))))))))))))))))))))))))))))))))))))))))))))))))))))))) :: [])))))))))))

(** val code_in : nat list -> char -> bool **)

let code_in codes c =
  existsb (Nat.eqb (nat_of_ascii c)) codes

(** val is_re_space : char -> bool **)

let is_re_space =
  code_in re_space_codes

(** val is_py_space : char -> bool **)

let is_py_space =
  code_in str_strip_codes

(** val ch_open : char **)

let ch_open =
  '['

(** val ch_close : char **)

let ch_close =
  ']'

(** val ch_colon : char **)

let ch_colon =
  ':'

(** val ch_tick : char **)

let ch_tick =
  '`'

(** val ch_nl : char **)

let ch_nl =
  '\n'

(** val has_char : char -> char list -> bool **)

let rec has_char c = function
| [] -> false
| a::r -> (||) ((=) a c) (has_char c r)

(** val lstrip : (char -> bool) -> char list -> char list **)

let rec lstrip f s = match s with
| [] -> []
| a::r -> if f a then lstrip f r else s

(** val rstrip : (char -> bool) -> char list -> char list **)

let rec rstrip f = function
| [] -> []
| a::r ->
  (match rstrip f r with
   | [] -> if f a then [] else a::[]
   | a0::s0 -> a::(a0::s0))

(** val strip : (char -> bool) -> char list -> char list **)

let strip f s =
  rstrip f (lstrip f s)

(** val split_on : char -> char list -> char list list **)

let rec split_on c = function
| [] -> [] :: []
| a::r ->
  if (=) a c
  then [] :: (split_on c r)
  else (match split_on c r with
        | [] -> (a::[]) :: []
        | h :: t -> (a::h) :: t)

(** val digit_val : char -> z option **)

let digit_val c =
  let n0 = nat_of_ascii c in
  if (&&)
       (Nat.leb (S (S (S (S (S (S (S (S (S (S (S (S (S (S (S (S (S (S (S (S
         (S (S (S (S (S (S (S (S (S (S (S (S (S (S (S (S (S (S (S (S (S (S (S
         (S (S (S (S (S O)))))))))))))))))))))))))))))))))))))))))))))))) n0)
       (Nat.leb n0 (S (S (S (S (S (S (S (S (S (S (S (S (S (S (S (S (S (S (S
         (S (S (S (S (S (S (S (S (S (S (S (S (S (S (S (S (S (S (S (S (S (S (S
         (S (S (S (S (S (S (S (S (S (S (S (S (S (S (S
         O))))))))))))))))))))))))))))))))))))))))))))))))))))))))))
  then Some
         (Z.of_nat
           (sub n0 (S (S (S (S (S (S (S (S (S (S (S (S (S (S (S (S (S (S (S
             (S (S (S (S (S (S (S (S (S (S (S (S (S (S (S (S (S (S (S (S (S
             (S (S (S (S (S (S (S (S
             O))))))))))))))))))))))))))))))))))))))))))))))))))
  else None

(** val digits_acc : char list -> z -> bool -> z option **)

let rec digits_acc s acc prev_digit =
  match s with
  | [] -> if prev_digit then Some acc else None
  | c::r ->
    (match digit_val c with
     | Some d ->
       digits_acc r (Z.add (Z.mul (Zpos (XO (XI (XO XH)))) acc) d) true
     | None ->
       if (&&) ((=) c '_') prev_digit then digits_acc r acc false else None)

(** val parse_pyint : char list -> z option **)

let parse_pyint s =
  match strip is_py_space s with
  | [] -> digits_acc [] Z0 false
  | a::r ->
    (* If this appears, you're using Ascii internals. Please don't *)
 (fun f c ->
  let n = Char.code c in
  let h i = (n land (1 lsl i)) <> 0 in
  f (h 0) (h 1) (h 2) (h 3) (h 4) (h 5) (h 6) (h 7))
      (fun b b0 b1 b2 b3 b4 b5 b6 ->
      if b
      then if b0
           then if b1
                then digits_acc
                       (((* If this appears, you're using Ascii internals. Please don't *)
 (fun (b0,b1,b2,b3,b4,b5,b6,b7) ->
  let f b i = if b then 1 lsl i else 0 in
  Char.chr (f b0 0 + f b1 1 + f b2 2 + f b3 3 + f b4 4 + f b5 5 + f b6 6 + f b7 7))
                       (true, true, true, b2, b3, b4, b5, b6))::r) Z0 false
                else if b2
                     then if b3
                          then digits_acc
                                 (((* If this appears, you're using Ascii internals. Please don't *)
 (fun (b0,b1,b2,b3,b4,b5,b6,b7) ->
  let f b i = if b then 1 lsl i else 0 in
  Char.chr (f b0 0 + f b1 1 + f b2 2 + f b3 3 + f b4 4 + f b5 5 + f b6 6 + f b7 7))
                                 (true, true, false, true, true, b4, b5,
                                 b6))::r) Z0 false
                          else if b4
                               then if b5
                                    then digits_acc
                                           (((* If this appears, you're using Ascii internals. Please don't *)
 (fun (b0,b1,b2,b3,b4,b5,b6,b7) ->
  let f b i = if b then 1 lsl i else 0 in
  Char.chr (f b0 0 + f b1 1 + f b2 2 + f b3 3 + f b4 4 + f b5 5 + f b6 6 + f b7 7))
                                           (true, true, false, true, false,
                                           true, true, b6))::r) Z0 false
                                    else if b6
                                         then digits_acc ('\171'::r) Z0 false
                                         else digits_acc r Z0 false
                               else digits_acc
                                      (((* If this appears, you're using Ascii internals. Please don't *)
 (fun (b0,b1,b2,b3,b4,b5,b6,b7) ->
  let f b i = if b then 1 lsl i else 0 in
  Char.chr (f b0 0 + f b1 1 + f b2 2 + f b3 3 + f b4 4 + f b5 5 + f b6 6 + f b7 7))
                                      (true, true, false, true, false, false,
                                      b5, b6))::r) Z0 false
                     else digits_acc
                            (((* If this appears, you're using Ascii internals. Please don't *)
 (fun (b0,b1,b2,b3,b4,b5,b6,b7) ->
  let f b i = if b then 1 lsl i else 0 in
  Char.chr (f b0 0 + f b1 1 + f b2 2 + f b3 3 + f b4 4 + f b5 5 + f b6 6 + f b7 7))
                            (true, true, false, false, b3, b4, b5, b6))::r)
                            Z0 false
           else if b1
                then if b2
                     then if b3
                          then digits_acc
                                 (((* If this appears, you're using Ascii internals. Please don't *)
 (fun (b0,b1,b2,b3,b4,b5,b6,b7) ->
  let f b i = if b then 1 lsl i else 0 in
  Char.chr (f b0 0 + f b1 1 + f b2 2 + f b3 3 + f b4 4 + f b5 5 + f b6 6 + f b7 7))
                                 (true, false, true, true, true, b4, b5,
                                 b6))::r) Z0 false
                          else if b4
                               then if b5
                                    then digits_acc
                                           (((* If this appears, you're using Ascii internals. Please don't *)
 (fun (b0,b1,b2,b3,b4,b5,b6,b7) ->
  let f b i = if b then 1 lsl i else 0 in
  Char.chr (f b0 0 + f b1 1 + f b2 2 + f b3 3 + f b4 4 + f b5 5 + f b6 6 + f b7 7))
                                           (true, false, true, true, false,
                                           true, true, b6))::r) Z0 false
                                    else if b6
                                         then digits_acc ('\173'::r) Z0 false
                                         else option_map Z.opp
                                                (digits_acc r Z0 false)
                               else digits_acc
                                      (((* If this appears, you're using Ascii internals. Please don't *)
 (fun (b0,b1,b2,b3,b4,b5,b6,b7) ->
  let f b i = if b then 1 lsl i else 0 in
  Char.chr (f b0 0 + f b1 1 + f b2 2 + f b3 3 + f b4 4 + f b5 5 + f b6 6 + f b7 7))
                                      (true, false, true, true, false, false,
                                      b5, b6))::r) Z0 false
                     else digits_acc
                            (((* If this appears, you're using Ascii internals. Please don't *)
 (fun (b0,b1,b2,b3,b4,b5,b6,b7) ->
  let f b i = if b then 1 lsl i else 0 in
  Char.chr (f b0 0 + f b1 1 + f b2 2 + f b3 3 + f b4 4 + f b5 5 + f b6 6 + f b7 7))
                            (true, false, true, false, b3, b4, b5, b6))::r)
                            Z0 false
                else digits_acc
                       (((* If this appears, you're using Ascii internals. Please don't *)
 (fun (b0,b1,b2,b3,b4,b5,b6,b7) ->
  let f b i = if b then 1 lsl i else 0 in
  Char.chr (f b0 0 + f b1 1 + f b2 2 + f b3 3 + f b4 4 + f b5 5 + f b6 6 + f b7 7))
                       (true, false, false, b2, b3, b4, b5, b6))::r) Z0 false
      else digits_acc
             (((* If this appears, you're using Ascii internals. Please don't *)
 (fun (b0,b1,b2,b3,b4,b5,b6,b7) ->
  let f b i = if b then 1 lsl i else 0 in
  Char.chr (f b0 0 + f b1 1 + f b2 2 + f b3 3 + f b4 4 + f b5 5 + f b6 6 + f b7 7))
             (false, b0, b1, b2, b3, b4, b5, b6))::r) Z0 false)
      a

(** val int_space_codes : nat list **)

let int_space_codes =
  (S (S (S (S (S (S (S (S (S O))))))))) :: ((S (S (S (S (S (S (S (S (S (S
    O)))))))))) :: ((S (S (S (S (S (S (S (S (S (S (S O))))))))))) :: ((S (S
    (S (S (S (S (S (S (S (S (S (S O)))))))))))) :: ((S (S (S (S (S (S (S (S
    (S (S (S (S (S O))))))))))))) :: ((S (S (S (S (S (S (S (S (S (S (S (S (S
    (S (S (S (S (S (S (S (S (S (S (S (S (S (S (S (S (S (S (S
    O)))))))))))))))))))))))))))))))) :: ((S (S (S (S (S (S (S (S (S (S (S (S
    (S (S (S (S (S (S (S (S (S (S (S (S (S (S (S (S (S (S (S (S (S (S (S (S
    (S (S (S (S (S (S (S (S (S (S (S (S (S (S (S (S (S (S (S (S (S (S (S (S
    (S (S (S (S (S (S (S (S (S (S (S (S (S (S (S (S (S (S (S (S (S (S (S (S
    (S (S (S (S (S (S (S (S (S (S (S (S (S (S (S (S (S (S (S (S (S (S (S (S
    (S (S (S (S (S (S (S (S (S (S (S (S (S (S (S (S (S (S (S (S (S (S (S (S
    (S
    O))))))))))))))))))))))))))))))))))))))))))))))))))))))))))))))))))))))))))))))))))))))))))))))))))))))))))))))))))))))))))))))))))))) :: ((S
    (S (S (S (S (S (S (S (S (S (S (S (S (S (S (S (S (S (S (S (S (S (S (S (S
    (S (S (S (S (S (S (S (S (S (S (S (S (S (S (S (S (S (S (S (S (S (S (S (S
    (S (S (S (S (S (S (S (S (S (S (S (S (S (S (S (S (S (S (S (S (S (S (S (S
    (S (S (S (S (S (S (S (S (S (S (S (S (S (S (S (S (S (S (S (S (S (S (S (S
    (S (S (S (S (S (S (S (S (S (S (S (S (S (S (S (S (S (S (S (S (S (S (S (S
    (S (S (S (S (S (S (S (S (S (S (S (S (S (S (S (S (S (S (S (S (S (S (S (S
    (S (S (S (S (S (S (S (S (S (S (S (S (S (S (S
    O)))))))))))))))))))))))))))))))))))))))))))))))))))))))))))))))))))))))))))))))))))))))))))))))))))))))))))))))))))))))))))))))))))))))))))))))))))))))))))))))) :: [])))))))

(** val is_int_space : char -> bool **)

let is_int_space =
  code_in int_space_codes

(** val parse_int_raw : char list -> z option **)

let parse_int_raw s =
  match strip is_int_space s with
  | [] -> digits_acc [] Z0 false
  | a::r ->
    (* If this appears, you're using Ascii internals. Please don't *)
 (fun f c ->
  let n = Char.code c in
  let h i = (n land (1 lsl i)) <> 0 in
  f (h 0) (h 1) (h 2) (h 3) (h 4) (h 5) (h 6) (h 7))
      (fun b b0 b1 b2 b3 b4 b5 b6 ->
      if b
      then if b0
           then if b1
                then digits_acc
                       (((* If this appears, you're using Ascii internals. Please don't *)
 (fun (b0,b1,b2,b3,b4,b5,b6,b7) ->
  let f b i = if b then 1 lsl i else 0 in
  Char.chr (f b0 0 + f b1 1 + f b2 2 + f b3 3 + f b4 4 + f b5 5 + f b6 6 + f b7 7))
                       (true, true, true, b2, b3, b4, b5, b6))::r) Z0 false
                else if b2
                     then if b3
                          then digits_acc
                                 (((* If this appears, you're using Ascii internals. Please don't *)
 (fun (b0,b1,b2,b3,b4,b5,b6,b7) ->
  let f b i = if b then 1 lsl i else 0 in
  Char.chr (f b0 0 + f b1 1 + f b2 2 + f b3 3 + f b4 4 + f b5 5 + f b6 6 + f b7 7))
                                 (true, true, false, true, true, b4, b5,
                                 b6))::r) Z0 false
                          else if b4
                               then if b5
                                    then digits_acc
                                           (((* If this appears, you're using Ascii internals. Please don't *)
 (fun (b0,b1,b2,b3,b4,b5,b6,b7) ->
  let f b i = if b then 1 lsl i else 0 in
  Char.chr (f b0 0 + f b1 1 + f b2 2 + f b3 3 + f b4 4 + f b5 5 + f b6 6 + f b7 7))
                                           (true, true, false, true, false,
                                           true, true, b6))::r) Z0 false
                                    else if b6
                                         then digits_acc ('\171'::r) Z0 false
                                         else digits_acc r Z0 false
                               else digits_acc
                                      (((* If this appears, you're using Ascii internals. Please don't *)
 (fun (b0,b1,b2,b3,b4,b5,b6,b7) ->
  let f b i = if b then 1 lsl i else 0 in
  Char.chr (f b0 0 + f b1 1 + f b2 2 + f b3 3 + f b4 4 + f b5 5 + f b6 6 + f b7 7))
                                      (true, true, false, true, false, false,
                                      b5, b6))::r) Z0 false
                     else digits_acc
                            (((* If this appears, you're using Ascii internals. Please don't *)
 (fun (b0,b1,b2,b3,b4,b5,b6,b7) ->
  let f b i = if b then 1 lsl i else 0 in
  Char.chr (f b0 0 + f b1 1 + f b2 2 + f b3 3 + f b4 4 + f b5 5 + f b6 6 + f b7 7))
                            (true, true, false, false, b3, b4, b5, b6))::r)
                            Z0 false
           else if b1
                then if b2
                     then if b3
                          then digits_acc
                                 (((* If this appears, you're using Ascii internals. Please don't *)
 (fun (b0,b1,b2,b3,b4,b5,b6,b7) ->
  let f b i = if b then 1 lsl i else 0 in
  Char.chr (f b0 0 + f b1 1 + f b2 2 + f b3 3 + f b4 4 + f b5 5 + f b6 6 + f b7 7))
                                 (true, false, true, true, true, b4, b5,
                                 b6))::r) Z0 false
                          else if b4
                               then if b5
                                    then digits_acc
                                           (((* If this appears, you're using Ascii internals. Please don't *)
 (fun (b0,b1,b2,b3,b4,b5,b6,b7) ->
  let f b i = if b then 1 lsl i else 0 in
  Char.chr (f b0 0 + f b1 1 + f b2 2 + f b3 3 + f b4 4 + f b5 5 + f b6 6 + f b7 7))
                                           (true, false, true, true, false,
                                           true, true, b6))::r) Z0 false
                                    else if b6
                                         then digits_acc ('\173'::r) Z0 false
                                         else option_map Z.opp
                                                (digits_acc r Z0 false)
                               else digits_acc
                                      (((* If this appears, you're using Ascii internals. Please don't *)
 (fun (b0,b1,b2,b3,b4,b5,b6,b7) ->
  let f b i = if b then 1 lsl i else 0 in
  Char.chr (f b0 0 + f b1 1 + f b2 2 + f b3 3 + f b4 4 + f b5 5 + f b6 6 + f b7 7))
                                      (true, false, true, true, false, false,
                                      b5, b6))::r) Z0 false
                     else digits_acc
                            (((* If this appears, you're using Ascii internals. Please don't *)
 (fun (b0,b1,b2,b3,b4,b5,b6,b7) ->
  let f b i = if b then 1 lsl i else 0 in
  Char.chr (f b0 0 + f b1 1 + f b2 2 + f b3 3 + f b4 4 + f b5 5 + f b6 6 + f b7 7))
                            (true, false, true, false, b3, b4, b5, b6))::r)
                            Z0 false
                else digits_acc
                       (((* If this appears, you're using Ascii internals. Please don't *)
 (fun (b0,b1,b2,b3,b4,b5,b6,b7) ->
  let f b i = if b then 1 lsl i else 0 in
  Char.chr (f b0 0 + f b1 1 + f b2 2 + f b3 3 + f b4 4 + f b5 5 + f b6 6 + f b7 7))
                       (true, false, false, b2, b3, b4, b5, b6))::r) Z0 false
      else digits_acc
             (((* If this appears, you're using Ascii internals. Please don't *)
 (fun (b0,b1,b2,b3,b4,b5,b6,b7) ->
  let f b i = if b then 1 lsl i else 0 in
  Char.chr (f b0 0 + f b1 1 + f b2 2 + f b3 3 + f b4 4 + f b5 5 + f b6 6 + f b7 7))
             (false, b0, b1, b2, b3, b4, b5, b6))::r) Z0 false)
      a

(** val z_to_string : z -> char list **)

let z_to_string z0 =
  NilZero.string_of_int (Z.to_int z0)

type label =
| LStr of char list
| LInt of z

type ikind =
| PyInt
| NpInt

type loc =
| LocI of ikind * z
| LocS of ikind * z * ikind * z

(** val label_eqb : label -> label -> bool **)

let label_eqb a b =
  match a with
  | LStr s -> (match b with
               | LStr t -> eqb0 s t
               | LInt _ -> false)
  | LInt x -> (match b with
               | LStr _ -> false
               | LInt y -> Z.eqb x y)

(** val repr_int : ikind -> z -> char list **)

let repr_int k z0 =
  match k with
  | PyInt -> z_to_string z0
  | NpInt ->
    append ('n'::('p'::('.'::('i'::('n'::('t'::('6'::('4'::('('::[])))))))))
      (append (z_to_string z0) (')'::[]))

(** val str_loc : loc -> char list **)

let str_loc = function
| LocI (_, z0) -> z_to_string z0
| LocS (ka, a, kb, b) ->
  append ('s'::('l'::('i'::('c'::('e'::('('::[]))))))
    (append (repr_int ka a)
      (append (','::(' '::[]))
        (append (repr_int kb b)
          (','::(' '::('N'::('o'::('n'::('e'::(')'::[]))))))))))

(** val start_of : loc -> ikind * z **)

let start_of = function
| LocI (k, z0) -> (k, z0)
| LocS (ka, a, _, _) -> (ka, a)

(** val stop_of : loc -> ikind * z **)

let stop_of = function
| LocI (k, z0) -> (k, z0)
| LocS (_, _, kb, b) -> (kb, b)

(** val bump : (ikind * z) -> ikind * z **)

let bump = function
| (i, z0) ->
  (match i with
   | PyInt -> (PyInt, (Z.add z0 (Zpos XH)))
   | NpInt -> (NpInt, z0))

(** val close_after_ws : char list -> char list option **)

let rec close_after_ws = function
| [] -> None
| c::r ->
  if (=) c ch_close
  then Some r
  else if is_re_space c then close_after_ws r else None

(** val lazy_group : char list -> (char list * char list) option **)

let rec lazy_group = function
| [] -> None
| c::r ->
  if (=) c ch_nl
  then None
  else (match close_after_ws r with
        | Some rest -> Some ((c::[]), rest)
        | None ->
          (match lazy_group r with
           | Some p -> let (g, rest) = p in Some ((c::g), rest)
           | None -> None))

type bmatch =
| BGroup of char list * char list
| BNoGroup of char list
| BNoMatch

(** val match_bracket : char list -> bmatch **)

let match_bracket r =
  let r0 = lstrip is_re_space r in
  (match lazy_group r0 with
   | Some p -> let (g, rest) = p in BGroup (g, rest)
   | None ->
     (match r0 with
      | [] -> BNoMatch
      | c::rest -> if (=) c ch_close then BNoGroup rest else BNoMatch))

(** val sprefix : nat -> char list -> char list **)

let rec sprefix n0 s =
  match n0 with
  | O -> []
  | S k -> (match s with
            | [] -> []
            | c::r -> c::(sprefix k r))

(** val matched_text : char list -> char list -> char list **)

let matched_text r rest =
  ch_open::(sprefix (sub (length0 r) (length0 rest)) r)

(** val omap : ('a1 -> 'a2) -> 'a1 outcome -> 'a2 outcome **)

let omap f = function
| Ret a -> Ret (f a)
| Raise e -> Raise e

(** val resolve_index :
    (label -> bool) -> (label -> loc outcome) -> char list -> loc outcome **)

let resolve_index has locate lbl =
  if negb (has_char ch_tick lbl)
  then (match parse_pyint (strip is_py_space lbl) with
        | Some z0 -> Ret (LocI (PyInt, z0))
        | None -> Raise ValueError)
  else let period = strip (fun c -> (=) c ch_tick) (strip is_py_space lbl) in
       if has (LStr period)
       then locate (LStr period)
       else (match parse_int_raw period with
             | Some z0 ->
               if has (LInt z0) then locate (LInt z0) else Raise KeyError
             | None -> Raise KeyError)

(** val render_part :
    (label -> bool) -> (label -> loc outcome) -> char list -> bool ->
    char list outcome **)

let render_part has locate part is_stop =
  if eqb0 part []
  then Ret []
  else (match resolve_index has locate part with
        | Ret l ->
          Ret
            (z_to_string
              (snd (if is_stop then bump (stop_of l) else start_of l)))
        | Raise e -> Raise e)

(** val render_item :
    (label -> bool) -> (label -> loc outcome) -> char list -> bool ->
    char list outcome **)

let render_item has locate part is_stop =
  if has_char ch_tick part
  then render_part has locate part is_stop
  else Ret part

(** val resolve_group :
    (label -> bool) -> (label -> loc outcome) -> char list -> char list
    outcome **)

let resolve_group has locate g =
  let parts = split_on ch_colon g in
  if Nat.ltb (S (S (S O))) (length parts)
  then Raise ValueError
  else (match parts with
        | [] -> Raise ValueError
        | start :: l ->
          (match l with
           | [] ->
             omap (fun l0 ->
               append ('['::[]) (append (str_loc l0) (']'::[])))
               (resolve_index has locate start)
           | stop :: step ->
             let start0 = strip is_py_space start in
             let stop0 = strip is_py_space stop in
             (match render_item has locate start0 false with
              | Ret a ->
                (match render_item has locate stop0 true with
                 | Ret b ->
                   (match map (strip is_py_space) step with
                    | [] ->
                      Ret
                        (append ('['::[])
                          (append a
                            (append (':'::[])
                              (append b
                                (append (':'::[]) (append [] (']'::[])))))))
                    | st :: l0 ->
                      (match l0 with
                       | [] ->
                         Ret
                           (append ('['::[])
                             (append a
                               (append (':'::[])
                                 (append b
                                   (append (':'::[]) (append st (']'::[])))))))
                       | _ :: _ -> Raise ValueError))
                 | Raise e -> Raise e)
              | Raise e -> Raise e)))

(** val rewrite_f :
    (label -> bool) -> (label -> loc outcome) -> nat -> char list ->
    char list outcome **)

let rec rewrite_f has locate fuel s =
  match fuel with
  | O -> Ret s
  | S f ->
    (match s with
     | [] -> Ret []
     | c::r ->
       if (=) c ch_open
       then (match match_bracket r with
             | BGroup (g, rest) ->
               let m = matched_text r rest in
               if negb (has_char ch_tick m)
               then omap (fun u -> append m u) (rewrite_f has locate f rest)
               else (match resolve_group has locate g with
                     | Ret t ->
                       omap (fun u -> append t u)
                         (rewrite_f has locate f rest)
                     | Raise e -> Raise e)
             | BNoGroup rest ->
               let m = matched_text r rest in
               if negb (has_char ch_tick m)
               then omap (fun u -> append m u) (rewrite_f has locate f rest)
               else Raise AttributeError
             | BNoMatch -> omap (fun x -> c::x) (rewrite_f has locate f r))
       else omap (fun x -> c::x) (rewrite_f has locate f r))

(** val rewrite :
    (label -> bool) -> (label -> loc outcome) -> char list -> char list
    outcome **)

let rewrite has locate s =
  rewrite_f has locate (S (length0 s)) s

(** val eval_text :
    (label -> bool) -> (label -> loc outcome) -> char list -> char list
    outcome **)

let eval_text has locate expr =
  if has_char ch_tick expr then rewrite has locate expr else Ret expr

type 'v ns = (char list * 'v) list

(** val ns_get : 'a1 ns -> char list -> 'a1 option **)

let rec ns_get d k =
  match d with
  | [] -> None
  | p :: r -> let (k', v) = p in if eqb0 k k' then Some v else ns_get r k

(** val ns_set : 'a1 ns -> char list -> 'a1 -> 'a1 ns **)

let rec ns_set d k v =
  match d with
  | [] -> (k, v) :: []
  | p :: r ->
    let (k', v') = p in
    if eqb0 k k' then (k', v) :: r else (k', v') :: (ns_set r k v)

(** val ns_update : 'a1 ns -> 'a1 ns -> 'a1 ns **)

let ns_update d src =
  fold_left (fun acc kv -> ns_set acc (fst kv) (snd kv)) src d

type 'v dheap = 'v ns list

(** val dict_at : 'a1 dheap -> nat -> 'a1 ns **)

let dict_at dh l =
  nth l dh []

(** val update_at : 'a1 dheap -> nat -> 'a1 ns -> 'a1 dheap **)

let update_at dh l src =
  upd l (ns_update (dict_at dh l) src) dh

type 'v pyres =
| PVal of 'v
| PNameError of char list
| PRaise of exn

type 'v eres =
| EVal of 'v
| EAttributeError of char list
| ERaise of exn

(** val eval_M :
    (label -> bool) -> (label -> loc outcome) -> (char list -> 'a1 ns -> 'a1
    pyres) -> 'a1 dheap -> nat -> 'a1 ns -> char list -> 'a1 ns option -> nat
    option -> ('a1 dheap * 'a1 ns) * 'a1 eres **)

let eval_M has locate pyeval dh tbl vars expr locals bi =
  match eval_text has locate expr with
  | Ret text ->
    (match bi with
     | Some l ->
       let dh2 = update_at dh l vars in
       let dh3 = match locals with
                 | Some lc -> update_at dh2 l lc
                 | None -> dh2
       in
       ((dh3, vars),
       (match pyeval text (dict_at dh3 l) with
        | PVal v -> EVal v
        | PNameError name -> EAttributeError name
        | PRaise e -> ERaise e))
     | None ->
       let dh1 = app dh ((dict_at dh tbl) :: []) in
       let l = length dh in
       let dh2 = update_at dh1 l vars in
       let dh3 = match locals with
                 | Some lc -> update_at dh2 l lc
                 | None -> dh2
       in
       ((dh3, vars),
       (match pyeval text (dict_at dh3 l) with
        | PVal v -> EVal v
        | PNameError name -> EAttributeError name
        | PRaise e -> ERaise e)))
  | Raise e -> ((dh, vars), (ERaise e))

(** val opt_int : char list -> z option option **)

let opt_int s =
  if eqb0 (strip is_py_space s) []
  then Some None
  else option_map (fun x -> Some x) (parse_pyint s)

(** val slice_sem :
    nat -> char list -> char list -> char list -> nat list option **)

let slice_sem n0 a b c =
  match opt_int a with
  | Some oa ->
    (match opt_int b with
     | Some ob ->
       (match opt_int c with
        | Some oc ->
          let st = match oc with
                   | Some s -> s
                   | None -> Zpos XH in
          if Z.ltb Z0 st then Some (py_slice_positions n0 oa ob st) else None
        | None -> None)
     | None -> None)
  | None -> None

(** val index_sem : nat -> char list -> nat list option **)

let index_sem n0 inner =
  match split_on ch_colon inner with
  | [] -> None
  | a :: l ->
    (match l with
     | [] ->
       (match parse_pyint a with
        | Some z0 -> option_map (fun p -> p :: []) (py_pos n0 z0)
        | None -> None)
     | b :: l0 ->
       (match l0 with
        | [] -> slice_sem n0 a b []
        | c :: l1 -> (match l1 with
                      | [] -> slice_sem n0 a b c
                      | _ :: _ -> None)))

(** val index_of : label -> label list -> z -> z option **)

let rec index_of l ls i =
  match ls with
  | [] -> None
  | x :: r ->
    if label_eqb l x then Some i else index_of l r (Z.add i (Zpos XH))

(** val count_of : label -> label list -> nat **)

let rec count_of l = function
| [] -> O
| x :: r -> if label_eqb l x then S (count_of l r) else count_of l r

type span_model =
| SpanSeq of label list
| SpanArr of label list * ikind
| SpanTable of (label * (bool * loc outcome)) list

(** val table_get :
    label -> (label * (bool * loc outcome)) list -> (bool * loc outcome)
    option **)

let rec table_get l = function
| [] -> None
| p :: r -> let (k, v) = p in if label_eqb l k then Some v else table_get l r

(** val span_has : span_model -> label -> bool **)

let span_has sp l =
  match sp with
  | SpanSeq ls -> existsb (label_eqb l) ls
  | SpanArr (ls, _) -> existsb (label_eqb l) ls
  | SpanTable tab ->
    (match table_get l tab with
     | Some p -> let (b, _) = p in b
     | None -> false)

(** val span_locate : span_model -> label -> loc outcome **)

let span_locate sp l =
  match sp with
  | SpanSeq ls ->
    (match index_of l ls Z0 with
     | Some i -> Ret (LocI (PyInt, i))
     | None -> Raise KeyError)
  | SpanArr (ls, k) ->
    (match index_of l ls Z0 with
     | Some i ->
       if Nat.eqb (count_of l ls) (S O)
       then Ret (LocI (k, i))
       else Raise KeyError
     | None -> Raise KeyError)
  | SpanTable tab ->
    (match table_get l tab with
     | Some p -> let (_, r) = p in r
     | None -> Raise KeyError)

(** val rewrite_span : span_model -> char list -> char list outcome **)

let rewrite_span sp s =
  rewrite (span_has sp) (span_locate sp) s

(** val eval_text_span : span_model -> char list -> char list outcome **)

let eval_text_span sp s =
  eval_text (span_has sp) (span_locate sp) s

(** val tagged : char list -> char list list -> char list ns **)

let tagged origin names =
  map (fun k -> (k, (append origin (append (':'::[]) k)))) names

(** val name_lookup_outer :
    char list ns -> char list -> char list ns -> char list pyres **)

let name_lookup_outer outer text d =
  match ns_get d text with
  | Some v -> PVal v
  | None ->
    (match ns_get outer text with
     | Some v -> PVal v
     | None -> PNameError text)

(** val ns_case :
    char list list -> char list list -> char list list -> char list list
    option -> char list list option -> char list -> (char list
    dheap * char list ns) * char list eres **)

let ns_case tbl_names outer_names var_names locals bi name =
  let tbl = tagged ('T'::[]) tbl_names in
  let dh =
    match bi with
    | Some b -> tbl :: ((tagged ('B'::[]) b) :: [])
    | None -> tbl :: []
  in
  eval_M (fun _ -> false) (fun _ -> Raise KeyError)
    (name_lookup_outer (tagged ('G'::[]) outer_names)) dh O
    (tagged ('V'::[]) var_names) name (option_map (tagged ('L'::[])) locals)
    (match bi with
     | Some _ -> Some (S O)
     | None -> None)

(** val clip_down : z -> z -> z **)

let clip_down n0 i =
  if Z.ltb i Z0
  then if Z.ltb (Z.add i n0) Z0 then Zneg XH else Z.add i n0
  else if Z.leb n0 i then Z.sub n0 (Zpos XH) else i

(** val range_down : nat -> z -> z -> z -> nat list **)

let rec range_down fuel a s stop =
  match fuel with
  | O -> []
  | S f ->
    if Z.ltb stop a
    then (Z.to_nat a) :: (range_down f (Z.add a s) s stop)
    else []

(** val py_slice_neg : nat -> z option -> z option -> z -> nat list **)

let py_slice_neg n0 start stop s =
  let n1 = Z.of_nat n0 in
  let a =
    match start with
    | Some i -> clip_down n1 i
    | None -> Z.sub n1 (Zpos XH)
  in
  let b = match stop with
          | Some i -> clip_down n1 i
          | None -> Zneg XH in
  range_down n0 a s b

(** val slice_sem_any :
    nat -> char list -> char list -> char list -> nat list option **)

let slice_sem_any n0 a b c =
  match opt_int a with
  | Some oa ->
    (match opt_int b with
     | Some ob ->
       (match opt_int c with
        | Some oc ->
          let st = match oc with
                   | Some s -> s
                   | None -> Zpos XH in
          if Z.ltb Z0 st
          then Some (py_slice_positions n0 oa ob st)
          else if Z.ltb st Z0 then Some (py_slice_neg n0 oa ob st) else None
        | None -> None)
     | None -> None)
  | None -> None

(** val index_sem_any : nat -> char list -> nat list option **)

let index_sem_any n0 inner =
  match split_on ch_colon inner with
  | [] -> None
  | a :: l ->
    (match l with
     | [] ->
       (match parse_pyint a with
        | Some z0 -> option_map (fun p -> p :: []) (py_pos n0 z0)
        | None -> None)
     | b :: l0 ->
       (match l0 with
        | [] -> slice_sem_any n0 a b []
        | c :: l1 ->
          (match l1 with
           | [] -> slice_sem_any n0 a b c
           | _ :: _ -> None)))
