
val negb : bool -> bool

type nat =
| O
| S of nat

val option_map : ('a1 -> 'a2) -> 'a1 option -> 'a2 option

val fst : ('a1 * 'a2) -> 'a1

val snd : ('a1 * 'a2) -> 'a2

val length : 'a1 list -> nat

val app : 'a1 list -> 'a1 list -> 'a1 list

type comparison =
| Eq
| Lt
| Gt

val compOpp : comparison -> comparison

type uint =
| Nil
| D0 of uint
| D1 of uint
| D2 of uint
| D3 of uint
| D4 of uint
| D5 of uint
| D6 of uint
| D7 of uint
| D8 of uint
| D9 of uint

type signed_int =
| Pos of uint
| Neg of uint

val revapp : uint -> uint -> uint

val rev : uint -> uint

module Little :
 sig
  val double : uint -> uint

  val succ_double : uint -> uint
 end

val add : nat -> nat -> nat

val sub : nat -> nat -> nat

type positive =
| XI of positive
| XO of positive
| XH

type n =
| N0
| Npos of positive

type z =
| Z0
| Zpos of positive
| Zneg of positive

module Nat :
 sig
  val eqb : nat -> nat -> bool

  val leb : nat -> nat -> bool

  val ltb : nat -> nat -> bool
 end

module Pos :
 sig
  val succ : positive -> positive

  val add : positive -> positive -> positive

  val add_carry : positive -> positive -> positive

  val pred_double : positive -> positive

  val mul : positive -> positive -> positive

  val compare_cont : comparison -> positive -> positive -> comparison

  val compare : positive -> positive -> comparison

  val eqb : positive -> positive -> bool

  val iter_op : ('a1 -> 'a1 -> 'a1) -> positive -> 'a1 -> 'a1

  val to_nat : positive -> nat

  val of_succ_nat : nat -> positive

  val to_little_uint : positive -> uint

  val to_uint : positive -> uint
 end

module N :
 sig
  val add : n -> n -> n

  val mul : n -> n -> n

  val to_nat : n -> nat
 end

module Z :
 sig
  val double : z -> z

  val succ_double : z -> z

  val pred_double : z -> z

  val pos_sub : positive -> positive -> z

  val add : z -> z -> z

  val opp : z -> z

  val sub : z -> z -> z

  val mul : z -> z -> z

  val compare : z -> z -> comparison

  val leb : z -> z -> bool

  val ltb : z -> z -> bool

  val eqb : z -> z -> bool

  val to_nat : z -> nat

  val of_nat : nat -> z

  val to_int : z -> signed_int
 end

val nth : nat -> 'a1 list -> 'a1 -> 'a1

val map : ('a1 -> 'a2) -> 'a1 list -> 'a2 list

val fold_left : ('a1 -> 'a2 -> 'a1) -> 'a2 list -> 'a1 -> 'a1

val existsb : ('a1 -> bool) -> 'a1 list -> bool

val n_of_digits : bool list -> n

val n_of_ascii : char -> n

val nat_of_ascii : char -> nat

val eqb0 : char list -> char list -> bool

val append : char list -> char list -> char list

val length0 : char list -> nat

type exn =
| ValueError
| IndexError
| KeyError
| AttributeError
| TypeError
| SolutionError of z option
| NonConvergenceError
| ParserError
| SymbolError
| IndentationError
| DimensionError
| DuplicateNameError
| InitialisationError
| NotImplementedError
| UnboundLocalError
| FortranEngineError
| OverflowError
| OtherError

type 'a outcome =
| Ret of 'a
| Raise of exn

val py_pos : nat -> z -> nat option

val upd : nat -> 'a1 -> 'a1 list -> 'a1 list

val clip : z -> z -> z

val py_slice_bounds : nat -> z option -> z option -> z * z

val range_from : nat -> z -> z -> z -> nat list

val py_slice_positions : nat -> z option -> z option -> z -> nat list

module NilEmpty :
 sig
  val string_of_uint : uint -> char list
 end

module NilZero :
 sig
  val string_of_uint : uint -> char list

  val string_of_int : signed_int -> char list
 end

val re_space_codes : nat list

val str_strip_codes : nat list

val code_in : nat list -> char -> bool

val is_re_space : char -> bool

val is_py_space : char -> bool

val ch_open : char

val ch_close : char

val ch_colon : char

val ch_tick : char

val ch_nl : char

val has_char : char -> char list -> bool

val lstrip : (char -> bool) -> char list -> char list

val rstrip : (char -> bool) -> char list -> char list

val strip : (char -> bool) -> char list -> char list

val split_on : char -> char list -> char list list

val digit_val : char -> z option

val digits_acc : char list -> z -> bool -> z option

val parse_pyint : char list -> z option

val int_space_codes : nat list

val is_int_space : char -> bool

val parse_int_raw : char list -> z option

val z_to_string : z -> char list

type label =
| LStr of char list
| LInt of z

type ikind =
| PyInt
| NpInt

type loc =
| LocI of ikind * z
| LocS of ikind * z * ikind * z

val label_eqb : label -> label -> bool

val repr_int : ikind -> z -> char list

val str_loc : loc -> char list

val start_of : loc -> ikind * z

val stop_of : loc -> ikind * z

val bump : (ikind * z) -> ikind * z

val close_after_ws : char list -> char list option

val lazy_group : char list -> (char list * char list) option

type bmatch =
| BGroup of char list * char list
| BNoGroup of char list
| BNoMatch

val match_bracket : char list -> bmatch

val sprefix : nat -> char list -> char list

val matched_text : char list -> char list -> char list

val omap : ('a1 -> 'a2) -> 'a1 outcome -> 'a2 outcome

val resolve_index :
  (label -> bool) -> (label -> loc outcome) -> char list -> loc outcome

val render_part :
  (label -> bool) -> (label -> loc outcome) -> char list -> bool -> char list
  outcome

val render_item :
  (label -> bool) -> (label -> loc outcome) -> char list -> bool -> char list
  outcome

val resolve_group :
  (label -> bool) -> (label -> loc outcome) -> char list -> char list outcome

val rewrite_f :
  (label -> bool) -> (label -> loc outcome) -> nat -> char list -> char list
  outcome

val rewrite :
  (label -> bool) -> (label -> loc outcome) -> char list -> char list outcome

val eval_text :
  (label -> bool) -> (label -> loc outcome) -> char list -> char list outcome

type 'v ns = (char list * 'v) list

val ns_get : 'a1 ns -> char list -> 'a1 option

val ns_set : 'a1 ns -> char list -> 'a1 -> 'a1 ns

val ns_update : 'a1 ns -> 'a1 ns -> 'a1 ns

type 'v dheap = 'v ns list

val dict_at : 'a1 dheap -> nat -> 'a1 ns

val update_at : 'a1 dheap -> nat -> 'a1 ns -> 'a1 dheap

type 'v pyres =
| PVal of 'v
| PNameError of char list
| PRaise of exn

type 'v eres =
| EVal of 'v
| EAttributeError of char list
| ERaise of exn

val eval_M :
  (label -> bool) -> (label -> loc outcome) -> (char list -> 'a1 ns -> 'a1
  pyres) -> 'a1 dheap -> nat -> 'a1 ns -> char list -> 'a1 ns option -> nat
  option -> ('a1 dheap * 'a1 ns) * 'a1 eres

val opt_int : char list -> z option option

val slice_sem : nat -> char list -> char list -> char list -> nat list option

val index_sem : nat -> char list -> nat list option

val index_of : label -> label list -> z -> z option

val count_of : label -> label list -> nat

type span_model =
| SpanSeq of label list
| SpanArr of label list * ikind
| SpanTable of (label * (bool * loc outcome)) list

val table_get :
  label -> (label * (bool * loc outcome)) list -> (bool * loc outcome) option

val span_has : span_model -> label -> bool

val span_locate : span_model -> label -> loc outcome

val rewrite_span : span_model -> char list -> char list outcome

val eval_text_span : span_model -> char list -> char list outcome

val tagged : char list -> char list list -> char list ns

val name_lookup_outer :
  char list ns -> char list -> char list ns -> char list pyres

val ns_case :
  char list list -> char list list -> char list list -> char list list option
  -> char list list option -> char list -> (char list dheap * char list
  ns) * char list eres

val clip_down : z -> z -> z

val range_down : nat -> z -> z -> z -> nat list

val py_slice_neg : nat -> z option -> z option -> z -> nat list

val slice_sem_any :
  nat -> char list -> char list -> char list -> nat list option

val index_sem_any : nat -> char list -> nat list option
