open Evalidx
let rec pos_of_int n = if n = 1 then XH else if n land 1 = 0 then XO (pos_of_int (n lsr 1)) else XI (pos_of_int (n lsr 1))
let z_of_int n = if n = 0 then Z0 else if n > 0 then Zpos (pos_of_int n) else Zneg (pos_of_int (-n))
let rec nat_of_int n = if n <= 0 then O else S (nat_of_int (n-1))
let rec int_of_nat = function O -> 0 | S n -> 1 + int_of_nat n
let rec int_of_pos = function XH -> 1 | XO p -> 2 * int_of_pos p | XI p -> 2 * int_of_pos p + 1
let int_of_z = function Z0 -> 0 | Zpos p -> int_of_pos p | Zneg p -> - (int_of_pos p)
let show_oz = function None -> "N" | Some z -> string_of_int (int_of_z z)
let explode s = List.init (String.length s) (String.get s)
let implode l = String.of_seq (List.to_seq l)
let unhex s = let n = String.length s / 2 in String.init n (fun i -> Char.chr (int_of_string ("0x" ^ String.sub s (2*i) 2)))
let hex s = String.concat "" (List.map (fun c -> Printf.sprintf "%02x" (Char.code c)) (explode s))
let split c s = String.split_on_char c s
let exn_name = function
  | ValueError -> "ValueError" | IndexError -> "IndexError" | KeyError -> "KeyError" | AttributeError -> "AttributeError"
  | TypeError -> "TypeError" | NotImplementedError -> "NotImplementedError" | _ -> "OtherError"
let exn_of = function
  | "ValueError" -> ValueError | "IndexError" -> IndexError | "KeyError" -> KeyError | "AttributeError" -> AttributeError
  | "TypeError" -> TypeError | "NotImplementedError" -> NotImplementedError | _ -> OtherError
let label_of s = if s.[0] = 's' then LStr (explode (unhex (String.sub s 1 (String.length s - 1))))
                 else LInt (z_of_int (int_of_string (String.sub s 1 (String.length s - 1))))
let kind_of c = if c = 'p' then PyInt else NpInt
let res_of s =
  match s.[0] with
  | 'I' -> Ret (LocI (kind_of s.[1], z_of_int (int_of_string (String.sub s 2 (String.length s - 2)))))
  | 'L' -> (match split '_' (String.sub s 1 (String.length s - 1)) with
            | [a; b] -> Ret (LocS (kind_of a.[0], z_of_int (int_of_string (String.sub a 1 (String.length a - 1))),
                                   kind_of b.[0], z_of_int (int_of_string (String.sub b 1 (String.length b - 1)))))
            | _ -> failwith "bad L")
  | _ -> Raise (exn_of (String.sub s 1 (String.length s - 1)))
let items s = if s = "" then [] else split ',' s
let span_of s =
  match split '|' s with
  | [k; body] ->
    (match k with
     | "S" -> SpanSeq (List.map label_of (items body))
     | "A" -> SpanArr (List.map label_of (items body), PyInt)
     | "P" -> SpanTable (List.map (fun e -> match split '/' e with
                 | [l; h; r] -> (label_of l, (h = "1", res_of r)) | _ -> failwith "bad entry") (items body))
     | _ -> failwith "bad span kind")
  | _ -> failwith "bad span"
let out_string = function Ret t -> "R " ^ hex (implode t) | Raise e -> "E " ^ exn_name e
let names s = List.map (fun h -> explode (unhex h)) (items s)
let optnames s = if s = "-" then None else Some (names (String.sub s 1 (String.length s - 1)))
let dump_dict d = String.concat "," (List.map (fun (k, v) -> hex (implode k) ^ "=" ^ hex (implode v)) d)
let () =
  try
    while true do
      let line = input_line stdin in
      let f = split '\t' line in
      (match f with
       | ["T"; sp; e] -> print_endline (out_string (eval_text_span (span_of sp) (explode (unhex e))))
       | ["W"; sp; e] -> print_endline (out_string (rewrite_span (span_of sp) (explode (unhex e))))
       | ["I"; e] -> print_endline (show_oz (parse_int_raw (explode (unhex e))) ^ " " ^ show_oz (parse_pyint (explode (unhex e))))
       | ["M"; n; e] ->
           (match index_sem_any (nat_of_int (int_of_string n)) (explode (unhex e)) with
            | None -> print_endline "N"
            | Some l -> print_endline ("P " ^ String.concat "," (List.map (fun p -> string_of_int (int_of_nat p)) l)))
       | ["N"; tbl; outer; vars; locals; bi; name] ->
           let ((dh, vs), r) = ns_case (names tbl) (names outer) (names vars) (optnames locals) (optnames bi) (explode (unhex name)) in
           let rs = (match r with
                     | EVal v -> "V " ^ hex (implode v)
                     | EAttributeError n -> "A " ^ hex (implode n)
                     | ERaise e -> "E " ^ exn_name e) in
           print_endline (rs ^ "\t" ^ String.concat "|" (List.map dump_dict dh) ^ "\t" ^ dump_dict vs)
       | _ -> print_endline "?")
    done
  with End_of_file -> ()
